(* Every history whose commits reach what they must (commit_reaches) and whose
   parent-side writes go through the only cached instance of their row keeps
   the parent side fresh: every reachable undestroyed parent-side instance
   shows the committed table (par_fresh). *)
From Coq Require Import List ZArith Bool Lia ZifyBool.
From Model Require Import Txn.
From Proofs Require Import TxnBase TxnFoot TxnFrame TxnInv TxnExpire TxnCommit TxnSpec.
Import ListNotations.
Open Scope Z_scope.

(* ------------------------------------------------------------------ lists of attributes and of queued values *)
Definition vals_le (a b : list (option val)) : Prop := Forall2 (fun x y => x = None \/ x = y) a b.
Lemma vals_le_refl a : vals_le a a.
Proof. induction a; constructor; auto. Qed.
Lemma all_none_le a b : vals_le a b -> all_none b = true -> all_none a = true.
Proof.
  unfold all_none. induction 1 as [|x y a b Hxy Hab IH]; cbn; auto. intros H. apply andb_true_iff in H. destruct H as [H1 H2].
  destruct Hxy as [ -> | -> ]; [apply IH; exact H2|]. rewrite H1. apply IH. exact H2.
Qed.
Lemma mask_le vals : forall p, vals_le (mask vals p) vals.
Proof.
  induction vals as [|v vs IH]; intros p; cbn.
  - destruct p; constructor.
  - destruct p as [|[x|] p]; [apply vals_le_refl|constructor; [left; reflexivity|apply IH]|constructor; [right; reflexivity|apply IH]].
Qed.
Lemma mask_clean vals : forall p, existsb is_some p = false -> mask vals p = vals.
Proof.
  induction vals as [|v vs IH]; intros p H; cbn; [destruct p; reflexivity|].
  destruct p as [|[x|] p]; cbn in H; try discriminate; auto. f_equal. apply IH. exact H.
Qed.
Lemma existsb_no_queue p : existsb is_some (no_queue p) = false.
Proof. unfold no_queue. induction p; cbn; auto. Qed.

(* a cached attribute of a column with a queued assignment is the queued value *)
Fixpoint pend_cached (vals p : list (option val)) : Prop :=
  match vals, p with
  | v :: vs, Some x :: ps => (v = None \/ v = Some x) /\ pend_cached vs ps
  | _ :: vs, None :: ps => pend_cached vs ps
  | _, _ => True
  end.
Lemma pend_cached_clean vals : forall p, existsb is_some p = false -> pend_cached vals p.
Proof.
  induction vals as [|v vs IH]; intros p H; cbn; [destruct p; exact I|].
  destruct p as [|[x|] p]; cbn in H; try discriminate; auto.
Qed.
Lemma pend_cached_none (l : list (option val)) : forall p, pend_cached (map (fun _ => None) l) p.
Proof.
  induction l as [|v vs IH]; intros p; cbn; [destruct p; exact I|].
  destruct p as [|[x|] p]; auto.
Qed.

Section Fresh.
Variable cfg : config.

(* ------------------------------------------------------------------ the invariant, with extra roots *)
(* nothing is cached that speaks about the database *)
Definition no_db_vals (i : inst) : bool := all_none (mask (i_vals i) (i_pending i)).
(* for an eager class: an instance flagged expired caches nothing, and nothing is ever queued (a lazyUpdate instance
   flagged expired can cache what it queued, and keeps it after syncUpdate); what is cached for a queued column is the
   queued value *)
Definition inst_ok (i : inst) : Prop :=
  (lazy cfg = false -> (i_expired i = true -> no_db_vals i = true) /\ dirty i = false) /\ pend_cached (i_vals i) (i_pending i).
Definition PF (X : list nat) (s : st) : Prop :=
  forall o, alive s Par X o = true -> i_obsolete (get_inst s Par o) = false -> shows (committed s) (get_inst s Par o) = true.
Definition exp_ok (s : st) : Prop := forall o, inst_ok (get_inst s Par o).
Definition JX (X : list nat) (s : st) : Prop := cache_ok s Par /\ exp_ok s /\ PF X s.

Lemma shows_no_db_vals t i : no_db_vals i = true -> shows t i = true.
Proof. intros H. unfold shows. apply shows_vals_none. exact H. Qed.
Lemma no_vals_no_db i : no_vals i = true -> no_db_vals i = true.
Proof. intros H. unfold no_db_vals. apply mask_none. exact H. Qed.
Lemma inst_ok_blank id : inst_ok (blank_inst id).
Proof. split; [intros _; split; [discriminate|reflexivity]|]. cbn. exact I. Qed.
Lemma inst_ok_clean i : i_expired i = false -> dirty i = false -> inst_ok i.
Proof. intros H1 H2. split; [intros _; split; [congruence|exact H2]|]. apply pend_cached_clean. exact H2. Qed.

Lemma get_inst_oob s sd o : (length (heap (cn s sd)) <= o)%nat -> get_inst s sd o = blank_inst 0.
Proof. intros H. unfold get_inst. apply nth_overflow. exact H. Qed.

Lemma par_fresh_PF s : par_fresh s = true <-> PF [] s.
Proof.
  rewrite par_fresh_iff. unfold PF, reachable_obj. split; intros H o.
  - intros Ha Hob. destruct (Nat.lt_ge_cases o (length (heap (cn s Par)))) as [Ho|Ho]; [apply H; auto|].
    rewrite get_inst_oob by exact Ho. apply shows_no_vals. reflexivity.
  - intros _ Ha Hob. apply H; auto.
Qed.

Lemma alive_iff s sd X o :
  alive s sd X o = true <-> In o X \/ In o (slot_refs s sd) \/ In o (map snd (c_strong (cch s sd))).
Proof. unfold alive. rewrite !orb_true_iff, !mem_nat_In. tauto. Qed.

Lemma alive_more_roots s sd X Y o : (forall x, In x X -> In x Y) -> alive s sd X o = true -> alive s sd Y o = true.
Proof. rewrite !alive_iff. intros H [A|A]; auto. Qed.

Lemma PF_less X Y s : (forall x, In x Y -> In x X) -> PF X s -> PF Y s.
Proof. intros H P o Ha. apply P. eapply alive_more_roots; eauto. Qed.

(* the new state has no live object the old one had not, and the live ones are unchanged *)
Lemma JX_transfer X X' s s' :
  JX X s -> cache_ok s' Par -> committed s' = committed s ->
  (forall o, inst_ok (get_inst s' Par o)) ->
  (forall o, alive s' Par X' o = true -> i_obsolete (get_inst s' Par o) = false ->
             (alive s Par X o = true /\ get_inst s' Par o = get_inst s Par o) \/
             shows (committed s) (get_inst s' Par o) = true) ->
  JX X' s'.
Proof.
  intros (Hc & He & Hp) Hc' Ht He' H. split; [exact Hc'|]. split; [exact He'|].
  intros o Ha Hob. rewrite Ht. destruct (H o Ha Hob) as [[A B]|A]; [|exact A].
  rewrite B in *. apply Hp; auto.
Qed.

(* the common case: instances and table untouched, the strong cache gains only live objects *)
Lemma JX_cache X s s' :
  JX X s -> cache_ok s' Par -> committed s' = committed s -> heap (cn s' Par) = heap (cn s Par) -> slots s' = slots s ->
  (forall e, In e (c_strong (cch s' Par)) -> In e (c_strong (cch s Par)) \/ alive s Par X (snd e) = true) ->
  JX X s'.
Proof.
  intros J Hc' Ht Hh Hs Hst. pose proof J as (Hc & He & Hp).
  assert (G : forall o, get_inst s' Par o = get_inst s Par o) by (intros o; unfold get_inst; rewrite Hh; reflexivity).
  eapply JX_transfer; eauto.
  - intros o. rewrite G. apply He.
  - intros o Ha _. left. split; [|apply G].
    apply alive_iff in Ha. apply alive_iff. unfold slot_refs in *. rewrite Hs in Ha.
    destruct Ha as [A|[A|A]]; auto.
    apply in_map_iff in A. destruct A as [e [E1 E2]]. destruct (Hst e E2) as [B|B].
    + right. right. apply in_map_iff. exists e. auto.
    + subst o. apply alive_iff in B. exact B.
Qed.

(* ------------------------------------------------------------------ primitives on the parent side *)
Lemma jx_read X q : hoare (JX X) (stmt_read Par q) (fun t s => JX X s /\ t = committed s) (JX X).
Proof. intros s J. unfold stmt_read. cbn. split; [exact J|reflexivity]. Qed.

Lemma keeps_of_snd {A} (I : st -> Prop) (m : M A) : (forall s, I s -> I (snd (m s))) -> keeps I m.
Proof. intros H s Hs. specialize (H s Hs). destruct (m s) as [[a|e] s']; exact H. Qed.

Lemma with_cch_facts s c :
  committed (with_cch s Par c) = committed s /\ heap (cn (with_cch s Par c) Par) = heap (cn s Par) /\
  slots (with_cch s Par c) = slots s /\ cch (with_cch s Par c) Par = c.
Proof. repeat split. Qed.

(* set_cch with a cache whose entries are old ones or known, and whose strong entries are old or live *)
Lemma jx_set_cch X s c :
  JX X s ->
  (forall k o, In (k, o) (entries c) -> In (k, o) (entries (cch s Par)) \/ known s Par o k) ->
  (forall e, In e (c_strong c) -> In e (c_strong (cch s Par)) \/ alive s Par X (snd e) = true) ->
  JX X (with_cch s Par c).
Proof.
  intros J He Hs. eapply JX_cache; eauto; try reflexivity.
  apply cache_ok_set; [apply J|exact He].
Qed.

Lemma jx_cull_state X roots s : JX X s -> JX X (snd (cull cfg Par roots s)).
Proof.
  intros J. pose proof (ok_cull_state cfg Par roots s (proj1 J)) as Hc.
  unfold cull, bind, gets, set_cch, modify in *. cbn in *.
  eapply JX_cache; eauto; try reflexivity.
  intros e He. left. cbn in He. apply filter_In in He. tauto.
Qed.
Lemma jx_cull X roots : keeps (JX X) (cull cfg Par roots).
Proof. apply keeps_of_snd. intros s. apply jx_cull_state. Qed.

Lemma jx_same_entries X s cnt off :
  JX X s -> JX X (with_cch s Par (c_with (c_strong (cch s Par)) (c_weak (cch s Par)) cnt off)).
Proof. intros J. apply jx_set_cch; auto. Qed.

Lemma jx_cull_tick X roots : keeps (JX X) (cull_tick cfg Par roots).
Proof.
  unfold cull_tick. eapply hoare_bind with (R := fun c s => JX X s /\ c = cch s Par); [apply hoare_gets; auto|].
  intros c. destruct (c_count c >? cullFreq cfg).
  - eapply hoare_bind with (R := fun _ s => JX X s); [|intro; apply jx_cull].
    intros s [J ->]. unfold set_cch, modify. apply jx_same_entries. exact J.
  - intros s [J ->]. unfold set_cch, modify. apply jx_same_entries. exact J.
Qed.
Lemma jx_ensure_factory X : keeps (JX X) (ensure_factory Par).
Proof.
  apply keeps_of_snd. intros s J. unfold ensure_factory, bind, gets, set_cch, modify. cbn. apply jx_same_entries. exact J.
Qed.

Lemma jx_remove X s id cnt off :
  JX X s -> JX X (with_cch s Par (c_with (assoc_remove id (c_strong (cch s Par))) (assoc_remove id (c_weak (cch s Par))) cnt off)).
Proof.
  intros J. apply jx_set_cch; auto.
  - intros k o Hin. left. rewrite entries_c_with in Hin. unfold entries. apply in_or_app.
    apply in_app_or in Hin. destruct Hin as [H|H]; apply In_assoc_remove in H; tauto.
  - intros e He. left. cbn in He. apply In_assoc_remove in He. tauto.
Qed.
Lemma jx_cache_expire X id : keeps (JX X) (cache_expire cfg Par id).
Proof.
  apply keeps_of_snd. intros s J. rewrite cache_expire_eq. cbv zeta.
  destruct (negb (doCache cfg) || negb (c_present (cch s Par))); cbn; [exact J|apply jx_remove; exact J].
Qed.
Lemma jx_cache_purge X id : keeps (JX X) (cache_purge Par id).
Proof.
  apply keeps_of_snd. intros s J. unfold cache_purge, bind, gets. cbn.
  destruct (negb (c_present (cch s Par))); cbn; [exact J|]. unfold set_cch, modify. cbn. apply jx_remove. exact J.
Qed.

(* cache_get: a hit is a live instance of that id *)
Lemma jx_cache_get X id :
  hoare (JX X) (cache_get cfg Par id X)
        (fun r s => JX X s /\ forall o, r = Some o -> known s Par o id /\ alive s Par X o = true) (JX X).
Proof.
  unfold cache_get.
  eapply hoare_bind; [apply jx_ensure_factory|intro].
  destruct (doCache cfg).
  - eapply hoare_bind; [apply jx_cull_tick|intro].
    intros s J. pose proof J as (Hc & _). unfold bind, gets. cbn.
    destruct (assoc id (c_strong (cch s Par))) as [o|] eqn:E1; cbn.
    { split; [exact J|]. intros o' Ho. inversion Ho; subst. split.
      - apply Hc. unfold entries. apply in_or_app. left. apply assoc_In. exact E1.
      - apply alive_iff. right. right. apply in_map_iff. exists (id, o'). split; [reflexivity|apply assoc_In; exact E1]. }
    destruct (assoc id (c_weak (cch s Par))) as [o|] eqn:E2; cbn; [|split; [exact J|discriminate]].
    assert (Hk : known s Par o id) by (apply Hc; unfold entries; apply in_or_app; right; apply assoc_In; exact E2).
    destruct (alive s Par X o) eqn:Ea; unfold set_cch, modify; cbv beta iota.
    + assert (J' : JX X (with_cch s Par (c_with (assoc_set id o (c_strong (cch s Par))) (assoc_remove id (c_weak (cch s Par)))
                                               (c_count (cch s Par)) (c_offset (cch s Par))))).
      { apply jx_set_cch; auto.
        - intros k o' Hin. rewrite entries_c_with in Hin. apply in_app_or in Hin. destruct Hin as [H|H].
          + destruct (In_assoc_set _ _ _ _ H) as [H1|H1]; [left; unfold entries; apply in_or_app; auto|]. inversion H1; subst. right. exact Hk.
          + left. unfold entries. apply in_or_app. right. apply In_assoc_remove in H. tauto.
        - intros e He. cbn in He. destruct (In_assoc_set _ _ _ _ He) as [H1|H1]; [auto|]. subst e. right. exact Ea. }
      split; [exact J'|]. intros o' Ho. inversion Ho; subst. split; [exact Hk|].
      apply alive_iff. right. right. cbn. apply in_map_iff. exists (id, o'). split; [reflexivity|].
      apply assoc_In. apply assoc_set_same.
    + split; [|discriminate]. apply jx_set_cch; auto.
      * intros k o' Hin. left. rewrite entries_c_with in Hin. unfold entries. apply in_or_app.
        apply in_app_or in Hin. destruct Hin as [H|H]; [auto|right; apply In_assoc_remove in H; tauto].
  - intros s J. pose proof J as (Hc & _). unfold bind, gets. cbn.
    destruct (assoc id (c_weak (cch s Par))) as [o|] eqn:E2; cbn; [|split; [exact J|discriminate]].
    assert (Hk : known s Par o id) by (apply Hc; unfold entries; apply in_or_app; right; apply assoc_In; exact E2).
    destruct (alive s Par X o) eqn:Ea; unfold set_cch, modify; cbv beta iota.
    + split; [exact J|]. intros o' Ho. inversion Ho; subst. auto.
    + split; [|discriminate]. apply jx_set_cch; auto.
      intros k o' Hin. left. rewrite entries_c_with in Hin. unfold entries. apply in_or_app.
      apply in_app_or in Hin. destruct Hin as [H|H]; [auto|right; apply In_assoc_remove in H; tauto].
Qed.

(* putting a rooted instance of the right id into the cache *)
Lemma jx_cache_put X id o :
  hoare (fun s => JX X s /\ known s Par o id /\ In o X) (cache_put cfg Par id o) (fun _ s => JX X s) (JX X).
Proof.
  intros s (J & Hk & Hx). unfold cache_put, bind, gets. cbn.
  assert (Ha : alive s Par X o = true) by (apply alive_iff; auto).
  destruct (doCache cfg); unfold set_cch, modify; cbv beta iota; apply jx_set_cch; auto.
  - intros k o' Hin. rewrite entries_c_with in Hin. apply in_app_or in Hin. destruct Hin as [H|H].
    + destruct (In_assoc_set _ _ _ _ H) as [H1|H1]; [left; unfold entries; apply in_or_app; auto|]. inversion H1; subst. right. exact Hk.
    + left. unfold entries. apply in_or_app. auto.
  - intros e He. cbn in He. destruct (In_assoc_set _ _ _ _ He) as [H1|H1]; [auto|]. subst e. right. exact Ha.
  - intros k o' Hin. rewrite entries_c_with in Hin. apply in_app_or in Hin. destruct Hin as [H|H].
    + left. unfold entries. apply in_or_app. auto.
    + destruct (In_assoc_set _ _ _ _ H) as [H1|H1]; [left; unfold entries; apply in_or_app; auto|]. inversion H1; subst. right. exact Hk.
Qed.

(* ------------------------------------------------------------------ shows *)
Lemma shows_vals_row t id r : tbl_lookup t id = Some r -> shows_vals t id (map Some r) = true.
Proof.
  unfold shows_vals. intros ->. induction r as [|x r IH]; cbn; auto. rewrite val_eqb_refl. exact IH.
Qed.

(* fewer cached attributes: still shows *)

Lemma shows_go_le a b : vals_le a b -> forall r,
  (fix go (vals : list (option val)) (r : row) : bool :=
     match vals, r with
     | [], _ => true
     | None :: vs, _ :: rs => go vs rs
     | Some v :: vs, x :: rs => val_eqb v x && go vs rs
     | Some _ :: _, [] => false
     | None :: vs, [] => go vs []
     end) b r = true ->
  (fix go (vals : list (option val)) (r : row) : bool :=
     match vals, r with
     | [], _ => true
     | None :: vs, _ :: rs => go vs rs
     | Some v :: vs, x :: rs => val_eqb v x && go vs rs
     | Some _ :: _, [] => false
     | None :: vs, [] => go vs []
     end) a r = true.
Proof.
  induction 1 as [|x y a b Hxy Hab IH]; intros r H; [reflexivity|].
  destruct Hxy as [ -> | -> ].
  - destruct y as [v|]; destruct r as [|z r]; cbn in *; try discriminate; try (apply IH; assumption).
    + apply andb_true_iff in H. apply IH. tauto.
  - destruct y as [v|]; destruct r as [|z r]; cbn in *; try discriminate; try (apply IH; assumption).
    apply andb_true_iff in H. destruct H as [H1 H2]. rewrite H1. apply IH. exact H2.
Qed.

Lemma shows_vals_le t id a b : vals_le a b -> shows_vals t id b = true -> shows_vals t id a = true.
Proof.
  unfold shows_vals. intros Hle. destruct (tbl_lookup t id) as [r|].
  - apply shows_go_le. exact Hle.
  - apply (all_none_le a b Hle).
Qed.

Lemma shows_le t i i' :
  i_id i' = i_id i -> vals_le (mask (i_vals i') (i_pending i')) (mask (i_vals i) (i_pending i)) -> shows t i = true -> shows t i' = true.
Proof. unfold shows. intros -> Hle. apply shows_vals_le. exact Hle. Qed.

(* an instance whose attributes are exactly the row (whatever is queued) *)
Lemma shows_row t i r : tbl_lookup t (i_id i) = Some r -> i_vals i = map Some r -> shows t i = true.
Proof.
  intros Hl Hv. unfold shows. rewrite Hv. eapply shows_vals_le; [apply mask_le|]. apply shows_vals_row. exact Hl.
Qed.

(* ... or the row with the queued values on top *)
Lemma mask_overlay_le p : forall r, vals_le (mask (map Some (overlay p r)) p) (map Some r).
Proof.
  induction p as [|[x|] p IH]; intros r; cbn.
  - destruct r; cbn; apply vals_le_refl.
  - destruct r as [|y r]; cbn; [constructor|]. constructor; [left; reflexivity|apply IH].
  - destruct r as [|y r]; cbn; [constructor|]. constructor; [right; reflexivity|apply IH].
Qed.
Lemma shows_overlay t i r :
  tbl_lookup t (i_id i) = Some r -> i_vals i = map Some (overlay (i_pending i) r) -> shows t i = true.
Proof.
  intros Hl Hv. unfold shows. rewrite Hv. eapply shows_vals_le; [apply mask_overlay_le|]. apply shows_vals_row. exact Hl.
Qed.
Lemma pend_cached_overlay p : forall r, pend_cached (map Some (overlay p r)) p.
Proof.
  induction p as [|[x|] p IH]; intros r; cbn.
  - destruct (map Some r); exact I.
  - destruct r as [|y r]; cbn; [exact I|]. split; [right; reflexivity|apply IH].
  - destruct r as [|y r]; cbn; [exact I|]. apply IH.
Qed.

(* ------------------------------------------------------------------ instance updates *)
Lemma alive_with_heap s h X o : alive (with_heap s Par h) Par X o = alive s Par X o.
Proof. reflexivity. Qed.

Lemma get_inst_upd s o f o' :
  get_inst (with_heap s Par (set_nth o (f (get_inst s Par o)) (heap (cn s Par)))) Par o' =
    if Nat.eqb o' o && Nat.ltb o (length (heap (cn s Par))) then f (get_inst s Par o) else get_inst s Par o'.
Proof.
  rewrite get_inst_with_heap.
  destruct (Nat.eqb o' o) eqn:E; cbn [andb].
  - apply Nat.eqb_eq in E. subst o'. destruct (Nat.ltb o (length (heap (cn s Par)))) eqn:L.
    + apply Nat.ltb_lt in L. apply nth_set_nth_same. exact L.
    + apply Nat.ltb_ge in L. rewrite set_nth_oob by exact L. reflexivity.
  - apply Nat.eqb_neq in E. rewrite nth_set_nth_other by congruence. reflexivity.
Qed.

Lemma jx_upd X o f :
  keeps_id f ->
  hoare (fun s => JX X s /\
                  inst_ok (f (get_inst s Par o)) /\
                  (alive s Par X o = true -> i_obsolete (f (get_inst s Par o)) = false ->
                   shows (committed s) (f (get_inst s Par o)) = true))
        (upd_inst Par o f) (fun _ s => JX X s) (JX X).
Proof.
  intros Hf s (J & H1 & H2). pose proof (ok_upd Par o f Hf s (proj1 J)) as Hc.
  unfold upd_inst, modify in *. cbv beta iota in *.
  eapply JX_transfer; [exact J|exact Hc|reflexivity| |].
  - intros o'. rewrite get_inst_upd. destruct (Nat.eqb o' o && Nat.ltb o (length (heap (cn s Par)))); [exact H1|apply J].
  - intros o' Ha Hob. rewrite alive_with_heap in Ha. rewrite get_inst_upd in *.
    destruct (Nat.eqb o' o && Nat.ltb o (length (heap (cn s Par)))) eqn:E; [|left; auto].
    right. apply andb_true_iff in E. destruct E as [E _]. apply Nat.eqb_eq in E. subst o'. apply H2; auto.
Qed.

Lemma set_nth_twice {X} (l : list X) n x y : set_nth n y (set_nth n x l) = set_nth n y l.
Proof. revert n; induction l as [|z l IH]; intros [|n]; cbn; auto. f_equal. apply IH. Qed.

Lemma upd_upd_state s o f g :
  snd ((upd_inst Par o f ;;; upd_inst Par o g) s) = snd (upd_inst Par o (fun i => g (f i)) s).
Proof.
  unfold bind, upd_inst, modify. cbv beta iota. cbn [snd].
  rewrite get_inst_upd, Nat.eqb_refl. cbn [andb].
  destruct (Nat.ltb o (length (heap (cn s Par)))) eqn:L.
  - unfold with_heap. cbn. rewrite set_nth_twice. reflexivity.
  - apply Nat.ltb_ge in L. unfold with_heap. cbn.
    assert (E : forall x, set_nth o x (heap (par s)) = heap (par s)) by (intros x; apply set_nth_oob; exact L).
    rewrite !E. reflexivity.
Qed.

(* new_inst: the new place is rooted *)
Lemma get_inst_new s i o' :
  get_inst (with_heap s Par (heap (cn s Par) ++ [i])) Par o' =
    if Nat.eqb o' (length (heap (cn s Par))) then i else get_inst s Par o'.
Proof.
  rewrite get_inst_with_heap. destruct (Nat.eqb o' (length (heap (cn s Par)))) eqn:E.
  - apply Nat.eqb_eq in E. subst o'. rewrite app_nth2 by lia. rewrite Nat.sub_diag. reflexivity.
  - apply Nat.eqb_neq in E. unfold get_inst. destruct (Nat.lt_ge_cases o' (length (heap (cn s Par)))) as [L|L].
    + rewrite app_nth1 by exact L. reflexivity.
    + rewrite nth_overflow by (rewrite app_length; cbn [length]; lia). rewrite nth_overflow by exact L. reflexivity.
Qed.

Lemma jx_new X i :
  hoare (fun s => JX X s /\ shows (committed s) i = true /\ inst_ok i)
        (new_inst Par i)
        (fun o s => JX (X ++ [o]) s /\ known s Par o (i_id i) /\ get_inst s Par o = i) (JX X).
Proof.
  intros s (J & Hs & He). pose proof (ok_new_known Par i s (proj1 J)) as Hn. unfold new_inst in *. cbv beta iota in *.
  destruct Hn as [Hc Hk].
  split; [|split; [exact Hk|rewrite get_inst_new, Nat.eqb_refl; reflexivity]].
  eapply JX_transfer; [exact J|exact Hc|reflexivity| |].
  - intros o'. rewrite get_inst_new. destruct (Nat.eqb o' (length (heap (cn s Par)))); [exact He|apply J].
  - intros o' Ha Hob. rewrite get_inst_new in *. destruct (Nat.eqb o' (length (heap (cn s Par)))) eqn:E; [right; exact Hs|].
    left. split; [|reflexivity].
    apply Nat.eqb_neq in E. apply alive_iff in Ha. apply alive_iff. rewrite in_app_iff in Ha. cbn in Ha.
    destruct Ha as [[A|[A|[]]]|A]; [auto|exfalso; apply E; symmetry; exact A|auto].
Qed.

Lemma JX_less X Y s : (forall x, In x Y -> In x X) -> JX X s -> JX Y s.
Proof. intros H (A & B & C). split; [exact A|]. split; [exact B|]. eapply PF_less; eauto. Qed.

(* what a read-only computation keeps besides the invariant: the tables *)
Lemma db_read sd q : pres Rdb (stmt_read sd q).
Proof. intros s. unfold stmt_read. destruct (dead s sd); cbn; split; reflexivity. Qed.
Lemma db_new sd i : pres Rdb (new_inst sd i).
Proof. intros s. unfold new_inst, with_heap. cbn. destruct sd; split; reflexivity. Qed.

Definition JT (X : list nat) (t0 : table) (s : st) : Prop := JX X s /\ committed s = t0.

Lemma with_db {A} X t0 (m : M A) (Q : A -> st -> Prop) (E : st -> Prop) :
  hoare (JX X) m Q E -> pres Rdb m ->
  hoare (JT X t0) m (fun a s => Q a s /\ committed s = t0) (fun s => E s /\ committed s = t0).
Proof.
  intros H Hd s [J Ht]. specialize (H s J). destruct (Hd s) as [D _]. destruct (m s) as [[a|e] s']; cbn in *; split; auto; congruence.
Qed.

(* ------------------------------------------------------------------ reading operations on the parent side *)
Definition reload_of (r : row) (i : inst) : inst := i_with_expired (i_with_vals i (map Some r)) false.

Lemma kid_reload r : keeps_id (reload_of r). Proof. intros i; reflexivity. Qed.

Lemma inst_ok_novals i : no_vals i = true -> dirty i = false -> inst_ok i.
Proof.
  intros H1 H2. split; [intros _; split; [intros _; apply no_vals_no_db; exact H1|exact H2]|]. apply pend_cached_clean. exact H2.
Qed.

(* loading the committed row of its id into an instance with nothing queued (and clearing the flag) keeps everything *)
Lemma jt_reload X t0 o r :
  hoare (fun s => JT X t0 s /\ tbl_lookup t0 (i_id (get_inst s Par o)) = Some r /\ dirty (get_inst s Par o) = false)
        (upd_inst Par o (reload_of r)) (fun _ s => JT X t0 s) (JT X t0).
Proof.
  intros s ([J Ht] & Hl & Hd).
  pose proof (jx_upd X o (reload_of r) (kid_reload r) s) as H.
  pose proof (db_upd Par o (reload_of r) (kid_reload r) s) as [D _].
  assert (Hpre : JX X s /\
            inst_ok (reload_of r (get_inst s Par o)) /\
            (alive s Par X o = true -> i_obsolete (reload_of r (get_inst s Par o)) = false ->
             shows (committed s) (reload_of r (get_inst s Par o)) = true)).
  { split; [exact J|]. split; [apply inst_ok_clean; [reflexivity|exact Hd]|]. intros _ _. rewrite Ht. apply (shows_row t0 _ r); [exact Hl|reflexivity]. }
  specialize (H Hpre). destruct (upd_inst Par o (reload_of r) s) as [[u|e] s']; cbn in *; split; auto; congruence.
Qed.

Lemma jt_keeps {A} X t0 (m : M A) : keeps (JX X) m -> pres Rdb m -> keeps (JT X t0) m.
Proof.
  intros H Hd s [J Ht]. specialize (H s J). destruct (Hd s) as [D _]. destruct (m s) as [[a|e] s']; cbn in *; split; auto; congruence.
Qed.

Lemma db_ensure sd : pres Rdb (ensure_factory sd).
Proof. apply fp_ensure_factory; [apply Rdb_refl|apply Rdb_trans|apply db_cch]. Qed.
Lemma db_cache_get sd id roots : pres Rdb (cache_get cfg sd id roots).
Proof. apply fp_cache_get; [apply Rdb_refl|apply Rdb_trans|apply db_cch]. Qed.
Lemma db_cache_put sd id o : pres Rdb (cache_put cfg sd id o).
Proof. apply fp_cache_put; [apply Rdb_refl|apply Rdb_trans|apply db_cch]. Qed.
Lemma db_cache_created sd id o : pres Rdb (cache_created cfg sd id o).
Proof. apply fp_cache_created; [apply Rdb_refl|apply Rdb_trans|apply db_cch]. Qed.
Lemma db_cache_expire sd id : pres Rdb (cache_expire cfg sd id).
Proof. apply fp_cache_expire; [apply Rdb_refl|apply Rdb_trans|apply db_cch]. Qed.
Lemma db_cull sd roots : pres Rdb (cull cfg sd roots).
Proof. apply fp_cull; [apply Rdb_refl|apply Rdb_trans|apply db_cch]. Qed.

(* the two-step reload of get-on-a-hit and of sync is one reload *)
Lemma reload_pair_state s o r :
  snd ((select_init Par o r ;;; upd_inst Par o (fun i => i_with_expired i false)) s) = snd (upd_inst Par o (reload_of r) s).
Proof. unfold select_init. exact (upd_upd_state s o (fun i => i_with_vals i (map Some r)) (fun i => i_with_expired i false)). Qed.

Lemma jt_reload_pair X t0 o r :
  hoare (fun s => JT X t0 s /\ tbl_lookup t0 (i_id (get_inst s Par o)) = Some r /\ dirty (get_inst s Par o) = false)
        (select_init Par o r ;;; upd_inst Par o (fun i => i_with_expired i false)) (fun _ s => JT X t0 s) (JT X t0).
Proof.
  intros s Hpre. pose proof (jt_reload X t0 o r s Hpre) as H. pose proof (reload_pair_state s o r) as E.
  assert (Hr : exists s1, (select_init Par o r ;;; upd_inst Par o (fun i => i_with_expired i false)) s = (Ret tt, s1))
    by (unfold select_init, bind, upd_inst, modify; eexists; reflexivity).
  destruct Hr as [s1 Hr]. rewrite Hr in *. cbn [snd] in E. subst s1.
  unfold upd_inst, modify in H. cbv beta iota in H. exact H.
Qed.

(* filling a rooted, unflagged instance with nothing queued with the committed row of its id *)
Lemma jt_fill X t0 o r id :
  tbl_lookup t0 id = Some r ->
  hoare (fun s => JT X t0 s /\ known s Par o id /\ i_expired (get_inst s Par o) = false /\ dirty (get_inst s Par o) = false)
        (select_init Par o r)
        (fun _ s => JT X t0 s /\ known s Par o id) (JT X t0).
Proof.
  intros Hr s ([J Ht] & [Hb Hid] & Hfl & Hd). unfold select_init.
  pose proof (jx_upd X o (fun i => i_with_vals i (map Some r)) (kid_vals (map Some r)) s) as H.
  pose proof (db_upd Par o (fun i => i_with_vals i (map Some r)) (kid_vals (map Some r)) s) as [D _].
  pose proof (ext_upd Par o (fun i => i_with_vals i (map Some r)) (kid_vals (map Some r)) s) as Ex.
  assert (Hpre : JX X s /\
            inst_ok (i_with_vals (get_inst s Par o) (map Some r)) /\
            (alive s Par X o = true -> i_obsolete (i_with_vals (get_inst s Par o) (map Some r)) = false ->
             shows (committed s) (i_with_vals (get_inst s Par o) (map Some r)) = true)).
  { split; [exact J|]. split.
    - apply inst_ok_clean; [exact Hfl|exact Hd].
    - intros _ _. rewrite Ht. apply (shows_row t0 _ r); [cbn [i_id i_with_vals]; rewrite Hid; exact Hr|reflexivity]. }
  specialize (H Hpre).
  destruct (upd_inst Par o (fun i => i_with_vals i (map Some r)) s) as [[u|e] s'] eqn:E; cbn in *.
  - split; [split; [exact H|congruence]|]. eapply Rext_known; [exact Ex|]. split; assumption.
  - split; [exact H|congruence].
Qed.

Lemma alive_root s X o : alive s Par (X ++ [o]) o = true.
Proof. apply alive_iff. left. apply in_or_app. right. left. reflexivity. Qed.

Lemma JX_add_live X s o : JX X s -> alive s Par X o = true -> JX (X ++ [o]) s.
Proof.
  intros J Ha. eapply JX_transfer; [exact J|apply J|reflexivity|apply J|].
  intros o' Ha' _. left. split; [|reflexivity]. apply alive_iff in Ha'. rewrite in_app_iff in Ha'. cbn in Ha'.
  destruct Ha' as [[A|[A|[]]]|A]; [apply alive_iff; auto|subst; exact Ha|apply alive_iff; auto].
Qed.

Lemma jt_so_get X t0 id sel :
  (forall r, sel = Some r -> tbl_lookup t0 id = Some r) ->
  hoare (JT X t0) (so_get cfg Par id sel X)
        (fun o s => JT (X ++ [o]) t0 s /\ known s Par o id) (JT X t0).
Proof.
  intros Hsel. unfold so_get.
  eapply hoare_bind; [apply (with_db X t0 _ _ _ (jx_cache_get X id) (db_cache_get Par id X))|].
  intros [o|].
  - (* a hit: a live instance of this id *)
    destruct sel as [r|].
    + intros s [[J Hk] Ht]. destruct (Hk o eq_refl) as [[Hb Hid] Ha].
      unfold bind at 1. unfold gets at 1. cbv beta iota.
      destruct (dirty (get_inst s Par o)) eqn:Hd.
      { (* something is queued: the fetched row is not loaded *)
        unfold ret. split; [split; [apply JX_add_live; assumption|exact Ht]|split; assumption]. }
      pose proof (jt_reload_pair X t0 o r s) as H.
      assert (Hpre : JT X t0 s /\ tbl_lookup t0 (i_id (get_inst s Par o)) = Some r /\ dirty (get_inst s Par o) = false)
        by (split; [split; assumption|split; [rewrite Hid; apply Hsel; reflexivity|exact Hd]]).
      specialize (H Hpre).
      assert (Hr : exists s1, (select_init Par o r ;;; upd_inst Par o (fun i => i_with_expired i false)) s = (Ret tt, s1) /\
                              slots s1 = slots s /\ cch s1 Par = cch s Par /\ Rext s s1).
      { unfold select_init, bind, upd_inst, modify. cbv beta iota. eexists. split; [reflexivity|]. split; [reflexivity|]. split; [reflexivity|].
        eapply Rext_trans; [apply (ext_upd Par o (fun i => i_with_vals i (map Some r)) (kid_vals _) s)|].
        apply (ext_upd Par o (fun i => i_with_expired i false) (kid_expired false)). }
      destruct Hr as (s1 & Hr & E1 & E2 & Ex). rewrite Hr in H.
      assert (E : (select_init Par o r;;; upd_inst Par o (fun i => i_with_expired i false);;; ret o) s = (Ret o, s1)).
      { revert Hr. unfold select_init, bind, upd_inst, modify, ret. cbv beta iota. intros Hr0. inversion Hr0. reflexivity. }
      rewrite E. destruct H as [J1 Ht1]. split; [split; [|exact Ht1]|].
      * apply JX_add_live; [exact J1|]. unfold alive, slot_refs in *. rewrite E1, E2. exact Ha.
      * eapply Rext_known; [exact Ex|]. split; assumption.
    + apply hoare_ret. intros s [[J Hk] Ht]. destruct (Hk o eq_refl) as [Hkn Ha]. split; [|exact Hkn].
      split; [|exact Ht]. apply JX_add_live; assumption.
  - (* a miss: a new instance *)
    eapply hoare_bind with (R := fun o s => JT (X ++ [o]) t0 s /\ known s Par o id /\ i_expired (get_inst s Par o) = false /\ dirty (get_inst s Par o) = false).
    { intros s [[J _] Ht]. pose proof (jx_new X (blank_inst id) s) as H.
      assert (Hpre : JX X s /\ shows (committed s) (blank_inst id) = true /\ inst_ok (blank_inst id))
        by (split; [exact J|split; [apply shows_no_vals; reflexivity|apply inst_ok_blank]]).
      specialize (H Hpre). pose proof (db_new Par (blank_inst id) s) as [D _].
      destruct (new_inst Par (blank_inst id) s) as [[o|e] s'] eqn:En; cbn in *.
      - destruct H as (J' & Hk & Hg). split; [split; [exact J'|congruence]|]. split; [exact Hk|]. rewrite Hg. split; reflexivity.
      - split; [exact H|congruence]. }
    intros o.
    assert (Down : forall s, JT (X ++ [o]) t0 s -> JT X t0 s).
    { intros s [J Ht]. split; [|exact Ht]. eapply JX_less; [|exact J]. intros x Hx. apply in_or_app. auto. }
    assert (Fill : forall r, tbl_lookup t0 id = Some r ->
              hoare (fun s => JT (X ++ [o]) t0 s /\ known s Par o id /\ i_expired (get_inst s Par o) = false /\ dirty (get_inst s Par o) = false)
                    (select_init Par o r;;; cache_put cfg Par id o;;; ret o)
                    (fun o' s => JT (X ++ [o']) t0 s /\ known s Par o' id) (JT X t0)).
    { intros r Hr.
      eapply hoare_bind with (R := fun _ s => JT (X ++ [o]) t0 s /\ known s Par o id).
      { eapply hoare_conseq; [apply (jt_fill (X ++ [o]) t0 o r id Hr)|auto|auto|apply Down]. }
      intro. eapply hoare_bind with (R := fun _ s => JT (X ++ [o]) t0 s /\ known s Par o id).
      { intros s [[J Ht] Hk]. pose proof (jx_cache_put (X ++ [o]) id o s) as H.
        assert (Hpre : JX (X ++ [o]) s /\ known s Par o id /\ In o (X ++ [o])) by (split; [exact J|split; [exact Hk|apply in_or_app; right; left; reflexivity]]).
        specialize (H Hpre). pose proof (db_cache_put Par id o s) as [D _]. pose proof (ext_cache_put cfg Par id o s) as Ex.
        destruct (cache_put cfg Par id o s) as [[u|e] s'] eqn:Ep; cbn in *.
        - split; [split; [exact H|congruence]|]. eapply Rext_known; eauto.
        - apply Down. split; [exact H|congruence]. }
      intro. apply hoare_ret. auto. }
    destruct sel as [r|].
    + apply Fill. apply Hsel. reflexivity.
    + eapply hoare_bind with (R := fun r s => (JT (X ++ [o]) t0 s /\ known s Par o id /\ i_expired (get_inst s Par o) = false /\ dirty (get_inst s Par o) = false) /\ r = tbl_lookup t0 id).
      { intros s ([J Ht] & Hk & Hfl & Hd). unfold db_select_one, bind, stmt_read. cbn. split; [split; [split; [exact J|exact Ht]|split; [exact Hk|split; [exact Hfl|exact Hd]]]|].
        rewrite Ht. reflexivity. }
      intros [r|].
      * intros s [H Heq]. symmetry in Heq. exact (Fill r Heq s H).
      * intros s [[H _] _]. cbn. apply Down. exact H.
Qed.

Lemma jt_select_rows t0 rows : forall acc,
  (forall id r, In (id, r) rows -> tbl_lookup t0 id = Some r) ->
  hoare (JT acc t0) (select_rows cfg Par rows acc) (fun l s => JT l t0 s) (JT [] t0).
Proof.
  induction rows as [|[id r] rest IH]; intros acc Hrows; cbn [select_rows].
  - apply hoare_ret. auto.
  - eapply hoare_bind.
    + eapply hoare_conseq; [apply (jt_so_get acc t0 id (Some r))| | |].
      * intros r' E. inversion E; subst. apply Hrows. left. reflexivity.
      * auto.
      * intros o s H. exact H.
      * intros s [J Ht]. split; [|exact Ht]. eapply JX_less; [|exact J]. intros x [].
    + intros o. eapply hoare_pre; [apply IH|].
      * intros id' r' Hin. apply Hrows. right. exact Hin.
      * intros s [H _]. exact H.
Qed.

(* clearing the flag; loading the row *)
Lemma unflag_get s o :
  get_inst (snd (upd_inst Par o (fun i => i_with_expired i false) s)) Par o = i_with_expired (get_inst s Par o) false.
Proof.
  unfold upd_inst, modify. cbv beta iota. cbn [snd].
  pose proof (get_inst_upd s o (fun i => i_with_expired i false) o) as G. cbv beta in G. rewrite G, Nat.eqb_refl. cbn [andb].
  destruct (Nat.ltb o (length (heap (cn s Par)))) eqn:L; [reflexivity|].
  apply Nat.ltb_ge in L. rewrite (get_inst_oob s Par o L). reflexivity.
Qed.

Lemma jt_unflag X t0 o :
  hoare (JT X t0) (upd_inst Par o (fun i => i_with_expired i false))
        (fun _ s => JT X t0 s) (JT X t0).
Proof.
  intros s [J Ht].
  pose proof (jx_upd X o (fun i => i_with_expired i false) (kid_expired false) s) as H.
  assert (Hpre : JX X s /\
            inst_ok (i_with_expired (get_inst s Par o) false) /\
            (alive s Par X o = true -> i_obsolete (i_with_expired (get_inst s Par o) false) = false ->
             shows (committed s) (i_with_expired (get_inst s Par o) false) = true)).
  { split; [exact J|]. split.
    - destruct J as (_ & He & _). destruct (He o) as (B & C). split; [|exact C].
      intros El. destruct (B El) as [_ B2]. split; [discriminate|exact B2].
    - intros Ha Hob. apply J; assumption. }
  specialize (H Hpre). unfold upd_inst, modify in *. cbv beta iota in *. split; [exact H|exact Ht].
Qed.

(* loading row r' = the committed row r of its id, with the queued values (p) on top when something is queued *)
Lemma jt_fill0 X t0 o r r' id p :
  tbl_lookup t0 id = Some r ->
  (r' = r /\ existsb is_some p = false) \/ (r' = overlay p r /\ lazy cfg = true) ->
  hoare (fun s => JT X t0 s /\ i_id (get_inst s Par o) = id /\ i_expired (get_inst s Par o) = false /\ i_pending (get_inst s Par o) = p)
        (select_init Par o r') (fun _ s => JT X t0 s) (JT X t0).
Proof.
  intros Hr Hc s ([J Ht] & Hid & Hfl & Hp). unfold select_init.
  pose proof (jx_upd X o (fun i => i_with_vals i (map Some r')) (kid_vals (map Some r')) s) as H.
  assert (Hpre : JX X s /\
            inst_ok (i_with_vals (get_inst s Par o) (map Some r')) /\
            (alive s Par X o = true -> i_obsolete (i_with_vals (get_inst s Par o) (map Some r')) = false ->
             shows (committed s) (i_with_vals (get_inst s Par o) (map Some r')) = true)).
  { split; [exact J|]. split.
    - split.
      + intros El. split; [cbn [i_expired i_with_vals]; rewrite Hfl; discriminate|].
        destruct J as (_ & He & _). destruct (He o) as (B & _). apply (B El).
      + cbn [i_vals i_pending i_with_vals]. rewrite Hp. destruct Hc as [[-> Hcl]|[-> _]]; [apply pend_cached_clean; exact Hcl|apply pend_cached_overlay].
    - intros _ _. rewrite Ht. destruct Hc as [[-> Hcl]|[-> _]].
      + apply (shows_row t0 _ r); [cbn [i_id i_with_vals]; rewrite Hid; exact Hr|reflexivity].
      + apply (shows_overlay t0 _ r); [cbn [i_id i_with_vals]; rewrite Hid; exact Hr|cbn [i_vals i_pending i_with_vals]; rewrite Hp; reflexivity]. }
  specialize (H Hpre). unfold upd_inst, modify in *. cbv beta iota in *. split; [exact H|exact Ht].
Qed.

Lemma jt_select_one X t0 id (P : st -> Prop) :
  (forall s l, P s -> P (with_log s l)) ->
  hoare (fun s => JT X t0 s /\ P s) (db_select_one Par id)
        (fun r s => (JT X t0 s /\ P s) /\ r = tbl_lookup t0 id) (JT X t0).
Proof.
  intros HP s [[J Ht] Hp]. unfold db_select_one, bind, stmt_read. cbn [dead]. cbv beta iota. unfold ret. cbn [fst snd].
  split; [split; [split; [exact J|exact Ht]|apply HP; exact Hp]|]. change (view s Par) with (committed s). rewrite Ht. reflexivity.
Qed.

(* attribute read *)
Lemma jt_so_read X t0 o c : keeps (JT X t0) (so_read cfg Par o c).
Proof.
  unfold so_read.
  eapply hoare_bind with (R := fun i s => JT X t0 s /\ i = get_inst s Par o); [apply hoare_gets; auto|].
  intros i. destruct (negb (cacheVals cfg)).
  { (* no cached values: a query, nothing else *)
    destruct (i_obsolete i); [apply hoare_raise; tauto|].
    eapply hoare_bind with (R := fun _ s => JT X t0 s).
    - intros s [Hjt _]. unfold stmt_read. cbn. exact Hjt.
    - intros t. destruct (tbl_lookup t (i_id i)); [apply hoare_ret; auto|apply hoare_raise; auto]. }
  destruct (nth c (i_vals i) None) as [v|]; [apply hoare_ret; tauto|].
  eapply hoare_bind with (R := fun _ s => JT X t0 s /\ (get_inst s Par o = i_with_expired i false /\ inst_ok i)).
  { intros s [Hjt ->]. pose proof (jt_unflag X t0 o s Hjt) as H. pose proof (unflag_get s o) as G.
    assert (Hok : inst_ok (get_inst s Par o)) by (destruct Hjt as [(_ & He & _) _]; apply He).
    destruct (upd_inst Par o (fun i => i_with_expired i false) s) as [[u|e] s'] eqn:E; cbn [snd] in *.
    - split; [exact H|]. split; [exact G|exact Hok].
    - exact H. }
  intro.
  eapply hoare_bind; [apply (jt_select_one X t0 (i_id i) (fun s => get_inst s Par o = i_with_expired i false /\ inst_ok i)); auto|].
  intros [r|].
  - intros s [[Hjt [Hg Hok]] Heq]. symmetry in Heq. cbv zeta.
    set (r' := reloaded cfg i r).
    assert (Hc : (r' = r /\ existsb is_some (i_pending i) = false) \/ (r' = overlay (i_pending i) r /\ lazy cfg = true)).
    { unfold r', reloaded. destruct (lazy cfg) eqn:El; cbn [andb].
      - destruct (dirty i) eqn:Ed; [right; auto|left; exact (conj eq_refl Ed)].
      - left. split; [reflexivity|]. destruct Hok as (B & _). apply (B El). }
    pose proof (jt_fill0 X t0 o r r' (i_id i) (i_pending i) Heq Hc s) as H.
    assert (Hpre : JT X t0 s /\ i_id (get_inst s Par o) = i_id i /\ i_expired (get_inst s Par o) = false /\
                   i_pending (get_inst s Par o) = i_pending i) by (rewrite Hg; auto).
    specialize (H Hpre).
    unfold bind. destruct (select_init Par o r' s) as [[u|e] s']; cbn in *; exact H.
  - intros s [[Hjt _] _]. exact Hjt.
Qed.

(* the reload of sync, once nothing is queued *)
Lemma jt_so_reload X t0 o :
  hoare (fun s => JT X t0 s /\ dirty (get_inst s Par o) = false) (so_reload Par o) (fun _ s => JT X t0 s) (JT X t0).
Proof.
  unfold so_reload.
  eapply hoare_bind with (R := fun i s => JT X t0 s /\ (i = get_inst s Par o /\ dirty i = false)).
  { apply hoare_gets. intros s [H Hd]. auto. }
  intros i.
  eapply hoare_bind; [apply (jt_select_one X t0 (i_id i) (fun s => i = get_inst s Par o /\ dirty i = false)); auto|].
  intros [r|].
  - intros s [[Hjt [Hi Hd]] Heq]. symmetry in Heq. subst i.
    exact (jt_reload_pair X t0 o r s (conj Hjt (conj Heq Hd))).
  - intros s [[Hjt _] _]. exact Hjt.
Qed.

(* expire *)
Definition expired_of (i : inst) : inst :=
  i_with_pending (i_with_vals i (map (fun _ => None) (i_vals i))) (no_queue (i_pending i)).
Lemma expired_of_facts i : no_vals (expired_of i) = true /\ dirty (expired_of i) = false.
Proof. split; [unfold no_vals, expired_of; cbn; apply forallb_none_map|unfold dirty, expired_of; cbn; apply existsb_no_queue]. Qed.

Lemma jt_so_expire X t0 o : keeps (JT X t0) (so_expire cfg Par o).
Proof.
  apply keeps_of_snd. intros s [J Ht]. rewrite so_expire_eq. cbv zeta.
  change (i_with_pending (i_with_vals (get_inst s Par o) (map (fun _ : option val => None) (i_vals (get_inst s Par o))))
                         (no_queue (i_pending (get_inst s Par o)))) with (expired_of (get_inst s Par o)).
  destruct (expired_of_facts (get_inst s Par o)) as [Hnv Hdt].
  (* first the attributes and the queue go *)
  pose proof (jx_upd X o expired_of (fun i => eq_refl) s) as H1.
  assert (Hpre1 : JX X s /\ inst_ok (expired_of (get_inst s Par o)) /\
            (alive s Par X o = true -> i_obsolete (expired_of (get_inst s Par o)) = false ->
             shows (committed s) (expired_of (get_inst s Par o)) = true)).
  { split; [exact J|]. split; [apply inst_ok_novals; assumption|]. intros _ _. apply shows_no_vals. exact Hnv. }
  specialize (H1 Hpre1). unfold upd_inst, modify in H1. cbv beta iota in H1.
  set (s1 := with_heap s Par (set_nth o (expired_of (get_inst s Par o)) (heap (cn s Par)))) in *.
  destruct (i_expired (get_inst s Par o)); [cbn [snd]; split; [exact H1|exact Ht]|].
  (* then the flag is set: nothing is cached any more *)
  pose proof (jx_upd X o (fun i => i_with_expired i true) (kid_expired true) s1) as H2.
  assert (G1 : get_inst s1 Par o = if Nat.ltb o (length (heap (cn s Par))) then expired_of (get_inst s Par o) else get_inst s Par o).
  { unfold s1. pose proof (get_inst_upd s o expired_of o) as G. rewrite G, Nat.eqb_refl. reflexivity. }
  assert (Hnv1 : no_vals (get_inst s1 Par o) = true /\ dirty (get_inst s1 Par o) = false).
  { rewrite G1. destruct (Nat.ltb o (length (heap (cn s Par)))) eqn:L; [split; assumption|].
    apply Nat.ltb_ge in L. rewrite (get_inst_oob s Par o L). split; reflexivity. }
  destruct Hnv1 as [Hnv1 Hdt1].
  assert (Hpre2 : JX X s1 /\ inst_ok (i_with_expired (get_inst s1 Par o) true) /\
            (alive s1 Par X o = true -> i_obsolete (i_with_expired (get_inst s1 Par o) true) = false ->
             shows (committed s1) (i_with_expired (get_inst s1 Par o) true) = true)).
  { split; [exact H1|]. split; [apply inst_ok_novals; [exact Hnv1|exact Hdt1]|]. intros _ _. apply shows_no_vals. exact Hnv1. }
  specialize (H2 Hpre2). unfold upd_inst, modify in H2. cbv beta iota in H2.
  set (s2 := with_heap s1 Par (set_nth o (i_with_expired (get_inst s1 Par o) true) (heap (cn s1 Par)))) in *.
  pose proof (jt_keeps X t0 _ (jx_cache_expire X (i_id (get_inst s Par o))) (db_cache_expire Par _) s2) as H3.
  assert (Hjt2 : JT X t0 s2) by (split; [exact H2|exact Ht]).
  specialize (H3 Hjt2). destruct (cache_expire cfg Par (i_id (get_inst s Par o)) s2) as [[u|e] s3]; exact H3.
Qed.

(* ------------------------------------------------------------------ writes on the parent side *)
Lemma lookup_update_other id id' c v t : id <> id' -> tbl_lookup (tbl_update id c v t) id' = tbl_lookup t id'.
Proof.
  intros H. unfold tbl_update, tbl_lookup. destruct (assoc id (t_rows t)); [|reflexivity]. cbn. apply assoc_set_other. exact H.
Qed.
Lemma lookup_update_same id c v t r : tbl_lookup t id = Some r -> tbl_lookup (tbl_update id c v t) id = Some (set_nth c v r).
Proof. unfold tbl_update, tbl_lookup. intros ->. cbn. apply assoc_set_same. Qed.
Lemma lookup_delete_other id id' t : id <> id' -> tbl_lookup (tbl_delete id t) id' = tbl_lookup t id'.
Proof. intros H. unfold tbl_delete, tbl_lookup. cbn. apply assoc_remove_other. exact H. Qed.

Lemma shows_go_set c : forall (vals : list (option val)) (r : row) v,
  (c < length r)%nat ->
  (fix go (vals : list (option val)) (r : row) : bool :=
     match vals, r with
     | [], _ => true
     | None :: vs, _ :: rs => go vs rs
     | Some v :: vs, x :: rs => val_eqb v x && go vs rs
     | Some _ :: _, [] => false
     | None :: vs, [] => go vs []
     end) vals r = true ->
  (fix go (vals : list (option val)) (r : row) : bool :=
     match vals, r with
     | [], _ => true
     | None :: vs, _ :: rs => go vs rs
     | Some v :: vs, x :: rs => val_eqb v x && go vs rs
     | Some _ :: _, [] => false
     | None :: vs, [] => go vs []
     end) (set_nth c (Some v) vals) (set_nth c v r) = true.
Proof.
  induction c as [|c IH]; intros vals r v Hc H; destruct r as [|x rs]; cbn in Hc; try lia.
  - destruct vals as [|[w|] vs]; cbn in *; auto.
    + apply andb_true_iff in H. rewrite val_eqb_refl. tauto.
    + rewrite val_eqb_refl. exact H.
  - destruct vals as [|[w|] vs]; cbn in *; auto.
    + apply andb_true_iff in H. destruct H as [H1 H2]. rewrite H1. apply IH; [lia|exact H2].
    + apply IH; [lia|exact H].
Qed.

Lemma mask_set_le c v : forall vals p, vals_le (mask (set_nth c (Some v) vals) p) (set_nth c (Some v) (mask vals p)).
Proof.
  induction c as [|c IH]; intros vals p; destruct vals as [|w vals]; cbn.
  - destruct p; constructor.
  - destruct p as [|[x|] p]; cbn; [apply vals_le_refl|constructor; [left; reflexivity|apply vals_le_refl]|apply vals_le_refl].
  - destruct p; constructor.
  - destruct p as [|[x|] p]; cbn; [apply vals_le_refl|constructor; [right; reflexivity|apply IH]|constructor; [right; reflexivity|apply IH]].
Qed.

Lemma shows_set t i r c v :
  tbl_lookup t (i_id i) = Some r -> (c < length r)%nat -> shows t i = true ->
  shows (tbl_update (i_id i) c v t) (set_val c v i) = true.
Proof.
  intros Hl Hc H. unfold shows in *. cbn [i_id set_val i_with_vals i_vals i_pending].
  eapply shows_vals_le; [apply mask_set_le|].
  unfold shows_vals in *. rewrite (lookup_update_same _ c v t r Hl). rewrite Hl in H.
  apply shows_go_set; assumption.
Qed.

Lemma shows_insert t i r : shows t i = true -> shows (snd (tbl_insert r t)) i = true.
Proof.
  intros H. destruct (tbl_lookup t (i_id i)) as [r'|] eqn:E.
  - rewrite (shows_same_row t (snd (tbl_insert r t))); [exact H|].
    unfold tbl_insert, tbl_lookup in *. cbn. rewrite (assoc_app_some _ _ _ _ E), E. reflexivity.
  - apply shows_no_db_vals. unfold shows, shows_vals in H. rewrite E in H. exact H.
Qed.

(* a queued assignment: column c gets a queued value and caches it *)
Lemma mask_set_both_le c v : forall vals p, (c < length p)%nat ->
  vals_le (mask (set_nth c (Some v) vals) (set_nth c (Some v) p)) (mask vals p).
Proof.
  induction c as [|c IH]; intros vals p Hc; destruct p as [|x p]; cbn in Hc; try lia; destruct vals as [|w vals]; cbn.
  - constructor.
  - destruct x; constructor; try apply vals_le_refl; left; reflexivity.
  - constructor.
  - destruct x; constructor; try (right; reflexivity); apply IH; lia.
Qed.
Lemma pend_cached_set c v : forall vals p, pend_cached vals p -> pend_cached (set_nth c (Some v) vals) (set_nth c (Some v) p).
Proof.
  induction c as [|c IH]; intros vals p H; destruct vals as [|w vals]; cbn; try exact I; destruct p as [|x p]; cbn; try exact I.
  - split; [right; reflexivity|]. destruct x; cbn in H; tauto.
  - destruct x; cbn in H; [split; [tauto|apply IH; tauto]|apply IH; exact H].
Qed.

(* writing the queue: the row gets the queued values on top, the queue is emptied *)
Lemma lookup_update_cols_other id id' p t : id <> id' -> tbl_lookup (tbl_update_cols id p t) id' = tbl_lookup t id'.
Proof.
  intros H. unfold tbl_update_cols, tbl_lookup. destruct (assoc id (t_rows t)); [|reflexivity]. cbn. apply assoc_set_other. exact H.
Qed.
Lemma lookup_update_cols_same id p t r : tbl_lookup t id = Some r -> tbl_lookup (tbl_update_cols id p t) id = Some (overlay p r).
Proof. unfold tbl_update_cols, tbl_lookup. intros ->. cbn. apply assoc_set_same. Qed.

Lemma overlay_nil p : overlay p [] = [].
Proof. destruct p as [|[x|] p]; reflexivity. Qed.

Lemma go_synced : forall (vals p : list (option val)) (r : row),
  pend_cached vals p -> fitsb p r = true ->
  (fix go (vals : list (option val)) (r : row) : bool :=
     match vals, r with
     | [], _ => true
     | None :: vs, _ :: rs => go vs rs
     | Some v :: vs, x :: rs => val_eqb v x && go vs rs
     | Some _ :: _, [] => false
     | None :: vs, [] => go vs []
     end) (mask vals p) r = true ->
  (fix go (vals : list (option val)) (r : row) : bool :=
     match vals, r with
     | [], _ => true
     | None :: vs, _ :: rs => go vs rs
     | Some v :: vs, x :: rs => val_eqb v x && go vs rs
     | Some _ :: _, [] => false
     | None :: vs, [] => go vs []
     end) vals (overlay p r) = true.
Proof.
  induction vals as [|w vs IH]; intros p r Hp Hf H; [reflexivity|].
  destruct p as [|[x|] ps].
  - cbn [mask] in H. destruct r; exact H.
  - destruct r as [|y rs]; [cbn in Hf; discriminate|]. cbn [overlay]. cbn [pend_cached] in Hp. destruct Hp as [Hw Hp].
    cbn [mask] in H. cbn [fitsb] in Hf.
    destruct Hw as [->| ->].
    + apply (IH ps rs Hp Hf). exact H.
    + cbn. rewrite val_eqb_refl. cbn. apply (IH ps rs Hp Hf). exact H.
  - cbn [pend_cached] in Hp. cbn [mask] in H. destruct r as [|y rs].
    + cbn [overlay]. cbn [fitsb] in Hf. destruct w as [w|]; [cbn in H; discriminate|].
      specialize (IH ps [] Hp Hf). rewrite overlay_nil in IH. apply IH. exact H.
    + cbn [overlay]. cbn [fitsb] in Hf. destruct w as [w|].
      * apply andb_true_iff in H. destruct H as [H1 H2]. cbn. rewrite H1. cbn. apply (IH ps rs Hp Hf). exact H2.
      * apply (IH ps rs Hp Hf). exact H.
Qed.

Lemma shows_synced t i r :
  tbl_lookup t (i_id i) = Some r -> fitsb (i_pending i) r = true -> pend_cached (i_vals i) (i_pending i) -> shows t i = true ->
  shows (tbl_update_cols (i_id i) (i_pending i) t) (i_with_pending i (no_queue (i_pending i))) = true.
Proof.
  intros Hl Hf Hp H. unfold shows in *. cbn [i_id i_vals i_pending i_with_pending].
  rewrite mask_clean by apply existsb_no_queue.
  unfold shows_vals in *. rewrite (lookup_update_cols_same _ _ t r Hl). rewrite Hl in H.
  apply go_synced; assumption.
Qed.

(* the guards of the history theorem, as propositions *)
Definition others_blank (s : st) (o : nat) : Prop :=
  forall o', o' <> o -> alive s Par [] o' = true -> i_obsolete (get_inst s Par o') = false ->
             i_id (get_inst s Par o') = i_id (get_inst s Par o) -> no_vals (get_inst s Par o') = true.

Lemma with_heap_same s : with_heap s Par (heap (cn s Par)) = s.
Proof. destruct s as [[] [] ? ? ? ? ? ?]. reflexivity. Qed.

(* an assignment through a parent-side instance: queued (lazyUpdate), or written at once *)
Lemma jx_so_set s o c v :
  JX [] s ->
  (if lazy cfg then (c < length (i_pending (get_inst s Par o)))%nat
   else cacheVals cfg = true /\ others_blank s o /\
        exists r, tbl_lookup (committed s) (i_id (get_inst s Par o)) = Some r /\ (c < length r)%nat) ->
  JX [] (snd (so_set cfg Par o c v s)).
Proof.
  intros J Hg. pose proof J as (Hcok & Hexp & Hpf).
  unfold so_set, bind, gets. cbv beta iota. destruct (lazy cfg) eqn:El.
  { (* queued: no statement; column c caches and queues v *)
    set (f := fun i => i_with_pending (set_val c v i) (set_nth c (Some v) (i_pending i))).
    pose proof (jx_upd [] o f (fun i => eq_refl) s) as H.
    assert (Hle : vals_le (mask (i_vals (f (get_inst s Par o))) (i_pending (f (get_inst s Par o))))
                          (mask (i_vals (get_inst s Par o)) (i_pending (get_inst s Par o))))
      by (unfold f; cbn [i_vals i_pending i_with_pending set_val i_with_vals]; apply mask_set_both_le; exact Hg).
    assert (Hpre : JX [] s /\ inst_ok (f (get_inst s Par o)) /\
              (alive s Par [] o = true -> i_obsolete (f (get_inst s Par o)) = false ->
               shows (committed s) (f (get_inst s Par o)) = true)).
    { split; [exact J|]. split.
      - split; [intros E; rewrite El in E; discriminate|].
        unfold f. cbn [i_vals i_pending i_with_pending set_val i_with_vals]. apply pend_cached_set. apply (Hexp o).
      - intros Ha Hob. apply (shows_le (committed s) (get_inst s Par o) (f (get_inst s Par o)) eq_refl Hle). apply Hpf; [exact Ha|exact Hob]. }
    specialize (H Hpre). destruct (upd_inst Par o f s) as [[u|e] s']; exact H. }
  destruct Hg as (Hcv & Hob & r & Hl & Hc). rewrite Hcv. cbn [negb]. rewrite orb_false_r.
  unfold db_update, stmt_write. cbv beta iota.
  destruct (pending s) eqn:Ep; [exact J|].
  match goal with |- context [if ?b then _ else _] => destruct b end; [exact J|]. cbn [fst snd].
  set (i := get_inst s Par o) in *. set (t1 := tbl_update (i_id i) c v (committed s)).
  set (s1 := with_committed (with_log s (SUpdate Par (i_id i) c :: log s)) t1).
  assert (Hcl : dirty i = false) by (destruct (Hexp o) as (B & _); apply (B El)).
  (* the state after the UPDATE and (unless flagged) the caching *)
  assert (Fin : forall s2, cache_ok s2 Par -> committed s2 = t1 ->
            (forall o', alive s2 Par [] o' = alive s Par [] o') ->
            (forall o', (get_inst s2 Par o' = get_inst s Par o' /\ (o' = o -> no_db_vals i = true)) \/
                        (o' = o /\ i_expired i = false /\ get_inst s2 Par o' = set_val c v i)) ->
            JX [] s2).
  { intros s2 C2 T2 A2 G2. split; [exact C2|]. split.
    - intros o'. destruct (G2 o') as [[E _]|(_ & Hfl & E)]; rewrite E; [apply Hexp|].
      split; [intros _; split; [cbn [i_expired set_val i_with_vals]; rewrite Hfl; discriminate|exact Hcl]|].
      apply pend_cached_clean. exact Hcl.
    - intros o' Ha Hobs. rewrite A2 in Ha. rewrite T2.
      destruct (G2 o') as [[E Hn]|(-> & Hfl & E)]; rewrite E in *.
      + destruct (Nat.eq_dec o' o) as [->|Hne]; [apply shows_no_db_vals; apply Hn; reflexivity|].
        destruct (Z.eq_dec (i_id (get_inst s Par o')) (i_id i)) as [Eid|Nid].
        * apply shows_no_vals. apply Hob; auto.
        * rewrite (shows_same_row (committed s) t1); [apply Hpf; assumption|].
          apply lookup_update_other. congruence.
      + apply (shows_set (committed s) i r c v Hl Hc). apply Hpf; [exact Ha|exact Hobs]. }
  destruct (i_expired i) eqn:Hfl; unfold ret, upd_inst, modify; cbv beta iota; cbn [snd].
  - apply Fin; auto. intros o'. left. split; [reflexivity|]. intros _. destruct (Hexp o) as (B & _). apply (B El). exact Hfl.
  - apply Fin.
    + apply (ok_upd Par o (set_val c v) (kid_set_val c v) s1 Hcok).
    + reflexivity.
    + reflexivity.
    + intros o'. pose proof (get_inst_upd s1 o (set_val c v) o') as G. cbv beta in G.
      change (get_inst s1 Par o) with i in G. change (heap (cn s1 Par)) with (heap (cn s Par)) in *.
      destruct (Nat.eqb o' o && Nat.ltb o (length (heap (cn s Par)))) eqn:E.
      * right. apply andb_true_iff in E. destruct E as [E _]. apply Nat.eqb_eq in E. split; [exact E|]. split; [reflexivity|exact G].
      * left. split; [exact G|]. intros ->. rewrite Nat.eqb_refl in E. cbn in E. apply Nat.ltb_ge in E.
        unfold i. rewrite (get_inst_oob s Par o E). reflexivity.
Qed.

(* syncUpdate of a parent-side instance *)
Lemma jx_so_sync_update s o :
  JX [] s ->
  (dirty (get_inst s Par o) = true -> pending s = None ->
   others_blank s o /\
   exists r, tbl_lookup (committed s) (i_id (get_inst s Par o)) = Some r /\ fitsb (i_pending (get_inst s Par o)) r = true) ->
  JX [] (snd (so_sync_update cfg Par o s)) /\
  (fst (so_sync_update cfg Par o s) = Ret tt -> dirty (get_inst (snd (so_sync_update cfg Par o s)) Par o) = false).
Proof.
  intros J Hg. pose proof J as (Hcok & Hexp & Hpf).
  unfold so_sync_update, bind, gets. cbv beta iota.
  destruct (dirty (get_inst s Par o)) eqn:Hd; [|split; [exact J|intros _; exact Hd]].
  unfold db_update_cols, stmt_write. cbv beta iota.
  destruct (pending s) eqn:Ep; [split; [exact J|discriminate]|].
  match goal with |- context [if ?b then _ else _] => destruct b end; [split; [exact J|discriminate]|]. cbn [fst snd].
  destruct (Hg eq_refl eq_refl) as (Hob & r & Hl & Hf).
  set (i := get_inst s Par o) in *. set (t1 := tbl_update_cols (i_id i) (i_pending i) (committed s)).
  set (q := match queued_from 0 (i_pending i) with [(c, _)] => SUpdate Par (i_id i) c | l => SUpdateCols Par (i_id i) (map fst l) end).
  set (s1 := with_committed (with_log s (q :: log s)) t1).
  set (f := fun i0 : inst => i_with_pending i0 (no_queue (i_pending i0))).
  unfold upd_inst, modify. cbv beta iota. cbn [fst snd].
  change (get_inst s1 Par o) with i. change (heap (cn s1 Par)) with (heap (cn s Par)).
  set (s2 := with_heap s1 Par (set_nth o (f i) (heap (cn s Par)))).
  assert (G : forall o', get_inst s2 Par o' = if Nat.eqb o' o && Nat.ltb o (length (heap (cn s Par))) then f i else get_inst s Par o').
  { intros o'. pose proof (get_inst_upd s1 o f o') as G. exact G. }
  assert (Hin : (o < length (heap (cn s Par)))%nat).
  { destruct (Nat.lt_ge_cases o (length (heap (cn s Par)))) as [L|L]; [exact L|].
    exfalso. unfold i in Hd. rewrite (get_inst_oob s Par o L) in Hd. discriminate. }
  split.
  - split; [apply (ok_upd Par o f (fun i0 => eq_refl) s1 Hcok)|]. split.
    + intros o'. rewrite G. destruct (Nat.eqb o' o && Nat.ltb o (length (heap (cn s Par)))); [|apply Hexp].
      destruct (Hexp o) as (B & C). fold i in B, C. split.
      * intros El. destruct (B El) as [_ B2]. rewrite Hd in B2. discriminate.
      * unfold f. cbn [i_vals i_pending i_with_pending]. apply pend_cached_clean. apply existsb_no_queue.
    + intros o' Ha Hobs. change (alive s2 Par [] o') with (alive s Par [] o') in Ha. change (committed s2) with t1.
      rewrite G in *. destruct (Nat.eqb o' o && Nat.ltb o (length (heap (cn s Par)))) eqn:E.
      * apply andb_true_iff in E. destruct E as [E _]. apply Nat.eqb_eq in E. subst o'.
        apply (shows_synced (committed s) i r Hl Hf); [apply (Hexp o)|apply Hpf; [exact Ha|exact Hobs]].
      * destruct (Nat.eq_dec o' o) as [->|Hne].
        { exfalso. rewrite Nat.eqb_refl in E. cbn [andb] in E. apply Nat.ltb_ge in E. exact (Nat.lt_irrefl _ (Nat.lt_le_trans _ _ _ Hin E)). }
        destruct (Z.eq_dec (i_id (get_inst s Par o')) (i_id i)) as [Eid|Nid].
        -- apply shows_no_vals. apply Hob; auto.
        -- rewrite (shows_same_row (committed s) t1); [apply Hpf; assumption|]. apply lookup_update_cols_other. congruence.
  - intros _. rewrite G, Nat.eqb_refl. apply Nat.ltb_lt in Hin. rewrite Hin. cbn [andb]. unfold f, dirty. cbn. apply existsb_no_queue.
Qed.

Lemma jx_so_destroy s o :
  JX [] s -> others_blank s o -> JX [] (snd (so_destroy Par o s)).
Proof.
  intros J Hob. pose proof J as (Hcok & Hexp & Hpf).
  unfold so_destroy, bind, gets, db_delete, stmt_write. cbv beta iota. unfold ret at 1. cbv beta iota.
  destruct (pending s) eqn:Ep; [exact J|]. cbn [fst snd].
  set (i := get_inst s Par o) in *. set (t1 := tbl_delete (i_id i) (committed s)).
  set (s1 := with_committed (with_log s (SDelete Par (i_id i) :: log s)) t1).
  unfold upd_inst, modify. cbv beta iota. cbn [fst snd].
  change (get_inst s1 Par o) with i. change (heap (cn s1 Par)) with (heap (cn s Par)).
  set (s2 := with_heap s1 Par (set_nth o (i_with_obsolete i true) (heap (cn s Par)))).
  assert (J2 : JX [] s2).
  { assert (G : forall o', get_inst s2 Par o' = if Nat.eqb o' o && Nat.ltb o (length (heap (cn s Par))) then i_with_obsolete i true else get_inst s Par o').
    { intros o'. pose proof (get_inst_upd s1 o (fun i => i_with_obsolete i true) o') as G. cbv beta in G. exact G. }
    split; [apply (ok_upd Par o (fun i => i_with_obsolete i true) (kid_obsolete true) s1 Hcok)|]. split.
    - intros o'. rewrite G. destruct (Nat.eqb o' o && Nat.ltb o (length (heap (cn s Par)))); [|apply Hexp].
      cbn [i_expired i_with_obsolete no_vals i_vals]. apply Hexp.
    - intros o' Ha Hobs. change (alive s2 Par [] o') with (alive s Par [] o') in Ha. change (committed s2) with t1.
      rewrite G in *. destruct (Nat.eqb o' o && Nat.ltb o (length (heap (cn s Par)))) eqn:E; [cbn in Hobs; discriminate|].
      destruct (Nat.eq_dec o' o) as [->|Hne].
      + (* the destroyed handle lies outside the heap: a blank instance *)
        rewrite Nat.eqb_refl in E. cbn in E. apply Nat.ltb_ge in E. apply shows_no_vals. rewrite (get_inst_oob s Par o E). reflexivity.
      + destruct (Z.eq_dec (i_id (get_inst s Par o')) (i_id i)) as [Eid|Nid].
        * apply shows_no_vals. apply Hob; auto.
        * rewrite (shows_same_row (committed s) t1); [apply Hpf; assumption|]. apply lookup_delete_other. congruence. }
  pose proof (jx_cache_purge [] (i_id i) s2 J2) as H. destruct (cache_purge Par (i_id i) s2) as [[u|e] s3]; exact H.
Qed.

(* cache_created with the new instance among the roots *)
Lemma jx_cache_created X id o :
  hoare (fun s => JX X s /\ known s Par o id /\ In o X) (cache_created cfg Par id o) (fun _ s => JX X s /\ known s Par o id) (JX X).
Proof.
  unfold cache_created.
  assert (Thread : forall A (m : M A), keeps (JX X) m -> pres Rext m ->
            hoare (fun s => JX X s /\ known s Par o id /\ In o X) m (fun _ s => JX X s /\ known s Par o id /\ In o X) (JX X)).
  { intros A m Hk He s (J & Hkn & Hx). specialize (Hk s J). specialize (He s). destruct (m s) as [[a|e] s']; cbn in *; auto.
    split; [exact Hk|]. split; [eapply Rext_known; eauto|exact Hx]. }
  eapply hoare_bind; [apply Thread; [apply jx_ensure_factory|apply fp_ensure_factory; [apply Rext_refl|apply Rext_trans|apply ext_cch]]|intro].
  destruct (doCache cfg).
  - eapply hoare_bind; [apply Thread; [apply jx_cull_tick|apply fp_cull_tick; [apply Rext_refl|apply Rext_trans|apply ext_cch]]|intro].
    intros s (J & Hk & Hx). unfold bind, gets, set_cch, modify. cbv beta iota.
    assert (Ha : alive s Par X o = true) by (apply alive_iff; auto).
    split; [|exact Hk]. apply jx_set_cch; auto.
    + intros k o' Hin. rewrite entries_c_with in Hin. apply in_app_or in Hin. destruct Hin as [H|H].
      * destruct (In_assoc_set _ _ _ _ H) as [H1|H1]; [left; unfold entries; apply in_or_app; auto|]. inversion H1; subst. right. exact Hk.
      * left. unfold entries. apply in_or_app. auto.
    + intros e He. cbn in He. destruct (In_assoc_set _ _ _ _ He) as [H1|H1]; [auto|]. subst e. right. exact Ha.
  - intros s (J & Hk & Hx). unfold bind, gets, set_cch, modify. cbv beta iota. split; [|exact Hk]. apply jx_set_cch; auto.
    intros k o' Hin. rewrite entries_c_with in Hin. apply in_app_or in Hin. destruct Hin as [H|H].
    + left. unfold entries. apply in_or_app. auto.
    + destruct (In_assoc_set _ _ _ _ H) as [H1|H1]; [left; unfold entries; apply in_or_app; auto|]. inversion H1; subst. right. exact Hk.
Qed.

Lemma JX_root_held s o : JX [o] s -> JX [] (with_slots s (slots s ++ [Some (Par, o)])).
Proof.
  intros J. eapply JX_transfer; [exact J|apply J|reflexivity|apply J|].
  intros o' Ha _. left. split; [|reflexivity]. apply alive_iff in Ha. apply alive_iff. cbn in Ha.
  destruct Ha as [[]|[A|A]]; [|right; right; exact A].
  unfold slot_refs in A. cbn in A. rewrite flat_map_app in A. apply in_app_or in A. destruct A as [A|A]; [right; left; exact A|].
  cbn in A. destruct A as [<-|[]]. left. left. reflexivity.
Qed.

Lemma JX_none_held X s : JX X s -> JX [] (with_slots s (slots s ++ [None])).
Proof.
  intros J. eapply JX_transfer; [exact J|apply J|reflexivity|apply J|].
  intros o' Ha _. left. split; [|reflexivity]. apply alive_iff in Ha. apply alive_iff. cbn in Ha.
  destruct Ha as [[]|[A|A]]; [|right; right; exact A].
  unfold slot_refs in A. cbn in A. rewrite flat_map_app in A. apply in_app_or in A. destruct A as [A|A]; [right; left; exact A|destruct A].
Qed.

(* create *)
Lemma jx_so_create s a b :
  JX [] s -> tbl_ok (committed s) ->
  match so_create cfg Par a b s with
  | (Ret o, s') => JX [o] s'
  | (Raise _, s') => JX [] s'
  end.
Proof.
  intros J Hok. pose proof J as (Hcok & Hexp & Hpf).
  unfold so_create. unfold bind at 1. unfold db_insert, stmt_write. cbv beta iota.
  destruct (pending s) eqn:Ep; [exact J|].
  match goal with |- context [if ?b then _ else _] => destruct b end; [exact J|]. cbn [fst snd tbl_insert].
  set (id := t_next (committed s)).
  set (t1 := {| t_rows := t_rows (committed s) ++ [(id, [a; b])]; t_next := id + 1 |}).
  set (s1 := with_committed (with_log s (SInsert Par :: log s)) t1).
  assert (Hl1 : tbl_lookup t1 id = Some [a; b]).
  { unfold tbl_lookup, t1. cbn. rewrite assoc_app_none; [cbn; rewrite Z.eqb_refl; reflexivity|].
    destruct (assoc id (t_rows (committed s))) as [r|] eqn:E; [|reflexivity].
    apply assoc_In in E. destruct Hok as [Hlt _]. specialize (Hlt _ _ E). unfold id in Hlt. lia. }
  assert (J1 : JT [] t1 s1).
  { split; [|reflexivity]. split; [exact Hcok|]. split; [exact Hexp|].
    intros o Ha Hobs. change (committed s1) with (snd (tbl_insert [a; b] (committed s))). apply shows_insert. apply Hpf; assumption. }
  (* the rest of the constructor, from the state after the INSERT *)
  set (rest := (o <- new_inst Par {| i_id := id; i_vals := [Some a; Some b]; i_expired := false; i_obsolete := false; i_pending := [None; None] |};;
                cache_created cfg Par id o;;;
                r <- db_select_one Par id;;
                match r with Some r0 => select_init Par o r0;;; ret o | None => raise ENotFound end)).
  assert (H : hoare (JT [] t1) rest (fun o s' => JT [o] t1 s') (JT [] t1)).
  { unfold rest.
    eapply hoare_bind with (R := fun o s' => JT [o] t1 s' /\ known s' Par o id /\ i_expired (get_inst s' Par o) = false /\ i_pending (get_inst s' Par o) = [None; None]).
    { intros s0 [J0 Ht0].
      pose proof (jx_new [] {| i_id := id; i_vals := [Some a; Some b]; i_expired := false; i_obsolete := false; i_pending := [None; None] |} s0) as Hn.
      assert (Hpre : JX [] s0 /\ shows (committed s0) {| i_id := id; i_vals := [Some a; Some b]; i_expired := false; i_obsolete := false; i_pending := [None; None] |} = true /\
                     inst_ok {| i_id := id; i_vals := [Some a; Some b]; i_expired := false; i_obsolete := false; i_pending := [None; None] |}).
      { split; [exact J0|]. split; [|apply inst_ok_clean; reflexivity]. rewrite Ht0. apply (shows_row t1 _ [a; b]); [exact Hl1|reflexivity]. }
      specialize (Hn Hpre). pose proof (db_new Par {| i_id := id; i_vals := [Some a; Some b]; i_expired := false; i_obsolete := false; i_pending := [None; None] |} s0) as [D _].
      destruct (new_inst Par _ s0) as [[o|e] s'] eqn:En; cbn in *.
      - destruct Hn as (J' & Hk & Hg). split; [split; [exact J'|congruence]|]. split; [exact Hk|]. rewrite Hg. split; reflexivity.
      - split; [exact Hn|congruence]. }
    intros o.
    assert (Down : forall s0, JT [o] t1 s0 -> JT [] t1 s0).
    { intros s0 [J0 Ht0]. split; [|exact Ht0]. eapply JX_less; [|exact J0]. intros x []. }
    eapply hoare_bind with (R := fun _ s' => JT [o] t1 s' /\ i_id (get_inst s' Par o) = id /\ i_expired (get_inst s' Par o) = false /\ i_pending (get_inst s' Par o) = [None; None]).
    { intros s0 ([J0 Ht0] & Hk & Hfl & Hpn).
      pose proof (jx_cache_created [o] id o s0) as Hc.
      assert (Hpre : JX [o] s0 /\ known s0 Par o id /\ In o [o]) by (split; [exact J0|split; [exact Hk|left; reflexivity]]).
      specialize (Hc Hpre). pose proof (db_cache_created Par id o s0) as [D _].
      (* the cache bookkeeping does not touch instances *)
      assert (Hg : get_inst (snd (cache_created cfg Par id o s0)) Par o = get_inst s0 Par o).
      { pose proof (fp_cache_created cfg Par (fun x y => heap (cn y Par) = heap (cn x Par))
                      (fun x => eq_refl) (fun x y z H1 H2 => eq_trans H2 H1)
                      (fun c x => eq_refl) id o s0) as Hh. cbv beta in Hh. unfold get_inst. rewrite Hh. reflexivity. }
      destruct (cache_created cfg Par id o s0) as [[u|e] s'] eqn:Ec; cbn [snd] in *.
      - destruct Hc as [J' Hk']. split; [split; [exact J'|congruence]|]. rewrite Hg. destruct Hk as [_ Hid]. split; [exact Hid|split; [exact Hfl|exact Hpn]].
      - apply Down. split; [exact Hc|congruence]. }
    intro.
    eapply hoare_bind with (R := fun r s0 => (JT [o] t1 s0 /\ (i_id (get_inst s0 Par o) = id /\ i_expired (get_inst s0 Par o) = false /\ i_pending (get_inst s0 Par o) = [None; None])) /\ r = tbl_lookup t1 id).
    { eapply hoare_conseq; [apply (jt_select_one [o] t1 id (fun s0 => i_id (get_inst s0 Par o) = id /\ i_expired (get_inst s0 Par o) = false /\ i_pending (get_inst s0 Par o) = [None; None])); auto|auto|auto|apply Down]. }
    intros [r0|].
    - intros s0 [[Hjt [Hid [Hfl Hpn]]] Heq]. symmetry in Heq.
      pose proof (jt_fill0 [o] t1 o r0 r0 id [None; None] Heq (or_introl (conj eq_refl eq_refl)) s0 (conj Hjt (conj Hid (conj Hfl Hpn)))) as Hf.
      unfold bind. destruct (select_init Par o r0 s0) as [[u|e] s']; cbn in *; [exact Hf|apply Down; exact Hf].
    - intros s0 [[Hjt _] _]. cbn. apply Down. exact Hjt. }
  specialize (H s1 J1).
  match goal with |- context [rest ?x] => change x with s1 end.
  destruct (rest s1) as [[o|e] s']; exact (proj1 H).
Qed.

(* ------------------------------------------------------------------ one operation on the parent side *)
Lemma others_blankb_ok s o : others_blankb s o = true -> others_blank s o.
Proof.
  unfold others_blankb. rewrite forallb_seq_nat. intros H o' Hne Ha Hob Hid.
  destruct (Nat.lt_ge_cases o' (length (heap (par s)))) as [L|L].
  - specialize (H o' L). unfold reachable_obj in H. rewrite Ha, Hob, Hid in H. apply Nat.eqb_neq in Hne. rewrite Hne in H.
    rewrite Z.eqb_refl in H. cbn in H. exact H.
  - rewrite (get_inst_oob s Par o' L). reflexivity.
Qed.

Lemma JX_held_in l s o : JX l s -> In o l -> JX [] (with_slots s (slots s ++ [Some (Par, o)])).
Proof.
  intros J Hin. eapply JX_transfer; [exact J|apply J|reflexivity|apply J|].
  intros o' Ha _. left. split; [|reflexivity]. apply alive_iff in Ha. apply alive_iff. cbn in Ha.
  destruct Ha as [[]|[A|A]]; [|right; right; exact A].
  unfold slot_refs in A. cbn in A. rewrite flat_map_app in A. apply in_app_or in A. destruct A as [A|A]; [right; left; exact A|].
  cbn in A. destruct A as [<-|[]]. left. exact Hin.
Qed.

Lemma JX_log X s l : JX X s -> JX X (with_log s l).
Proof. intros J. exact J. Qed.

Lemma hold_state o s : hold Par o s = (Ret (RObj (i_id (get_inst s Par o)) (slot_of s Par o)), with_slots s (slots s ++ [Some (Par, o)])).
Proof. reflexivity. Qed.

Lemma wrapper_par_state via m s : snd (wrapper_access cfg Par via m s) = s.
Proof. unfold wrapper_access. destruct via; [|reflexivity]. unfold bind, gets. cbn. destruct (m && negb (wrapOk cfg)); reflexivity. Qed.

Lemma jx_run_op_par s o :
  JX [] s -> tbl_ok (committed s) -> orm_op o = true -> op_side s o = Some Par -> step_ok cfg s o = true ->
  JX [] (snd (run_op cfg o s)).
Proof.
  intros J Hok Ho Hs Hg. set (t0 := committed s). assert (Jt : JT [] t0 s) by (split; [exact J|reflexivity]).
  destruct o; cbn in Ho, Hs; try discriminate; cbn [run_op].
  - (* create *) inversion Hs; subst sd. unfold hold_or_none, bind.
    pose proof (wrapper_par_state via false s) as Ew.
    destruct (wrapper_access cfg Par via false s) as [[u|e] s0]; cbn in Ew; subst s0.
    + pose proof (jx_so_create s a b J Hok) as H. destruct (so_create cfg Par a b s) as [[o|e] s'].
      * rewrite hold_state. cbn [snd]. apply JX_root_held. exact H.
      * cbn [snd]. eapply JX_none_held. exact H.
    + cbn [snd]. eapply JX_none_held. exact J.
  - (* get *) inversion Hs; subst sd. unfold hold_or_none, bind.
    pose proof (wrapper_par_state via true s) as Ew.
    destruct (wrapper_access cfg Par via true s) as [[u|e] s0]; cbn in Ew; subst s0.
    + assert (Hn : forall r, (None : option row) = Some r -> tbl_lookup t0 id = Some r) by discriminate.
      pose proof (jt_so_get [] t0 id None Hn s Jt) as H.
      destruct (so_get cfg Par id None [] s) as [[o|e] s'].
      * rewrite hold_state. cbn [snd]. apply JX_root_held. apply H.
      * cbn [snd]. eapply JX_none_held. apply H.
    + cbn [snd]. eapply JX_none_held. exact J.
  - (* select *) inversion Hs; subst sd.
    assert (Body : hoare (JT [] t0)
              (wrapper_access cfg Par via true;;;
               t <- stmt_read Par (SSelect Par);;
               objs <- select_rows cfg Par (t_rows t) [];;
               s1 <- gets (fun s1 => s1);;
               (let out := map (fun o => (i_id (get_inst s1 Par o), slot_of s1 Par o)) objs in
                match keep with
                | Some n => push_slot match nth_error objs n with Some o => Some (Par, o) | None => None end;;; ret (RObjs out)
                | None => ret (RObjs out)
                end))
              (fun _ s' => JX [] s') (fun s' => JX [] s')).
    { eapply hoare_bind with (R := fun _ s' => JT [] t0 s').
      { intros s0 H0. pose proof (wrapper_par_state via true s0) as Ew.
        destruct (wrapper_access cfg Par via true s0) as [[u|e] s1]; cbn in Ew; subst s1; [exact H0|apply H0]. }
      intro. eapply hoare_bind with (R := fun t s' => JT [] t0 s' /\ t = t0).
      { intros s0 [J0 Ht0]. unfold stmt_read. cbn. split; [split; assumption|exact Ht0]. }
      intros t. eapply hoare_bind with (R := fun l s' => JT l t0 s').
      { intros s0 [H0 ->].
        assert (Hrows : forall id r, In (id, r) (t_rows t0) -> tbl_lookup t0 id = Some r)
          by (intros id r Hin; unfold tbl_lookup; apply NoDup_keys_assoc; [apply Hok|exact Hin]).
        pose proof (jt_select_rows t0 (t_rows t0) [] Hrows s0 H0) as Hh.
        destruct (select_rows cfg Par (t_rows t0) [] s0) as [[l|e] s']; [exact Hh|exact (proj1 Hh)]. }
      intros objs. eapply hoare_bind with (R := fun _ s' => JT objs t0 s'); [apply hoare_gets; auto|].
      intros s1. cbv zeta. destruct keep as [n|].
      - eapply hoare_bind with (R := fun _ s' => JX [] s'); [|intro; apply hoare_ret; auto].
        intros s0 [J0 _]. unfold push_slot, modify. cbv beta iota.
        destruct (nth_error objs n) as [o|] eqn:En.
        + apply (JX_held_in objs s0 o J0). eapply nth_error_In. exact En.
        + eapply JX_none_held. exact J0.
      - apply hoare_ret. intros s0 [J0 _]. eapply JX_less; [|exact J0]. intros x []. }
    unfold or_empty_slot. specialize (Body s Jt).
    match goal with |- context [or_empty_slot] => idtac | _ => idtac end.
    match type of Body with match ?m s with _ => _ end => destruct (m s) as [[a|e] s'] end; cbn [snd].
    + exact Body.
    + destruct keep; [eapply JX_none_held; exact Body|exact Body].
  - (* count *) inversion Hs; subst sd. unfold bind, stmt_read. cbn. exact J.
  - (* read *) unfold handle, bind, gets. cbv beta iota. destruct (nth h (slots s) None) as [[sd x]|] eqn:E; [|discriminate].
    inversion Hs; subst sd. unfold ret at 1. cbv beta iota. cbn [fst snd].
    pose proof (jt_so_read [] t0 x c s Jt) as H. destruct (so_read cfg Par x c s) as [[v|e] s']; cbn; apply H.
  - (* assignment *) unfold handle, bind, gets. cbv beta iota. destruct (nth h (slots s) None) as [[sd x]|] eqn:E; [|discriminate].
    inversion Hs; subst sd. unfold ret at 1. cbv beta iota. cbn [fst snd].
    cbn [step_ok] in Hg. rewrite E in Hg.
    pose proof (jx_so_set s x c v J) as H.
    destruct (lazy cfg) eqn:El.
    + (* queued *)
      apply Nat.ltb_lt in Hg. specialize (H Hg). destruct (so_set cfg Par x c v s) as [[u|e] s']; cbn; exact H.
    + destruct (pending s) eqn:Ep.
      * (* refused: the transaction holds the lock *)
        assert (Es : snd (so_set cfg Par x c v s) = with_log s (SUpdate Par (i_id (get_inst s Par x)) c :: log s)).
        { unfold so_set, bind, gets, db_update, stmt_write. cbv beta iota. rewrite El, Ep. reflexivity. }
        destruct (so_set cfg Par x c v s) as [[u|e] s'] eqn:Eq; cbn [snd] in *; subst s'; exact J.
      * apply andb_true_iff in Hg. destruct Hg as [Hg1 Hg2]. apply andb_true_iff in Hg1. destruct Hg1 as [Hg0 Hg1].
        destruct (tbl_lookup (committed s) (i_id (get_inst s Par x))) as [r|] eqn:El2; [|discriminate].
        apply Nat.ltb_lt in Hg2.
        specialize (H (conj Hg0 (conj (others_blankb_ok s x Hg1) (ex_intro _ r (conj eq_refl Hg2))))).
        destruct (so_set cfg Par x c v s) as [[u|e] s']; cbn; exact H.
  - (* destroySelf *) unfold handle, bind, gets. cbv beta iota. destruct (nth h (slots s) None) as [[sd x]|] eqn:E; [|discriminate].
    inversion Hs; subst sd. unfold ret at 1. cbv beta iota. cbn [fst snd].
    cbn [step_ok] in Hg. rewrite E in Hg.
    destruct (pending s) eqn:Ep.
    + assert (Es : snd (so_destroy Par x s) = with_log s (SDelete Par (i_id (get_inst s Par x)) :: log s)).
      { unfold so_destroy, bind, gets, db_delete, stmt_write, ret. cbv beta iota. rewrite Ep. reflexivity. }
      destruct (so_destroy Par x s) as [[u|e] s'] eqn:Eq; cbn [snd] in *; subst s'; exact J.
    + pose proof (jx_so_destroy s x J (others_blankb_ok s x Hg)) as H.
      destruct (so_destroy Par x s) as [[u|e] s']; cbn; exact H.
  - (* expire *) unfold handle, bind, gets. cbv beta iota. destruct (nth h (slots s) None) as [[sd x]|] eqn:E; [|discriminate].
    inversion Hs; subst sd. unfold ret at 1. cbv beta iota. cbn [fst snd].
    pose proof (jt_so_expire [] t0 x s Jt) as H. destruct (so_expire cfg Par x s) as [[v|e] s']; cbn; apply H.
  - (* sync *) unfold handle, bind, gets. cbv beta iota. destruct (nth h (slots s) None) as [[sd x]|] eqn:E; [|discriminate].
    inversion Hs; subst sd. unfold ret at 1. cbv beta iota. cbn [fst snd].
    cbn [step_ok is_sync_update] in Hg. rewrite E in Hg.
    assert (Hsync : JX [] (snd (so_sync cfg Par x s))).
    { unfold so_sync. destruct (lazy cfg) eqn:El.
      - (* lazyUpdate: what is queued is written first *)
        assert (Hgd : dirty (get_inst s Par x) = true -> pending s = None ->
                      others_blank s x /\
                      exists r, tbl_lookup (committed s) (i_id (get_inst s Par x)) = Some r /\ fitsb (i_pending (get_inst s Par x)) r = true).
        { intros Hd Ep. rewrite Ep, Hd in Hg. cbn in Hg.
          apply andb_true_iff in Hg. destruct Hg as [H1 H2]. split; [apply others_blankb_ok; exact H1|].
          destruct (tbl_lookup (committed s) (i_id (get_inst s Par x))) as [r|]; [|discriminate]. exists r. auto. }
        destruct (jx_so_sync_update s x J Hgd) as [H Hd'].
        unfold bind. destruct (so_sync_update cfg Par x s) as [[u|e] s1] eqn:Es; cbn [fst snd] in *; [|exact H].
        assert (R1 : JT [] (committed s1) s1 /\ dirty (get_inst s1 Par x) = false) by (split; [split; [exact H|reflexivity]|apply Hd'; destruct u; reflexivity]).
        pose proof (jt_so_reload [] (committed s1) x s1 R1) as R.
        destruct (so_reload Par x s1) as [[u2|e2] s2]; cbn; apply R.
      - (* eager: nothing is ever queued *)
        assert (Hd : dirty (get_inst s Par x) = false) by (destruct J as (_ & He & _); destruct (He x) as (B & _); apply (B El)).
        pose proof (jt_so_reload [] t0 x s (conj Jt Hd)) as R.
        unfold bind, ret. destruct (so_reload Par x s) as [[u2|e2] s2]; cbn; apply R. }
    destruct (so_sync cfg Par x s) as [[v|e] s']; cbn; exact Hsync.
  - (* syncUpdate *) unfold handle, bind, gets. cbv beta iota. destruct (nth h (slots s) None) as [[sd x]|] eqn:E; [|discriminate].
    inversion Hs; subst sd. unfold ret at 1. cbv beta iota. cbn [fst snd].
    cbn [step_ok is_sync_update] in Hg. rewrite E in Hg.
    assert (Hgd : dirty (get_inst s Par x) = true -> pending s = None ->
                  others_blank s x /\
                  exists r, tbl_lookup (committed s) (i_id (get_inst s Par x)) = Some r /\ fitsb (i_pending (get_inst s Par x)) r = true).
    { intros Hd Ep. rewrite Ep, Hd in Hg. rewrite orb_true_r in Hg. cbn in Hg.
      apply andb_true_iff in Hg. destruct Hg as [H1 H2]. split; [apply others_blankb_ok; exact H1|].
      destruct (tbl_lookup (committed s) (i_id (get_inst s Par x))) as [r|]; [|discriminate]. exists r. auto. }
    destruct (jx_so_sync_update s x J Hgd) as [H _].
    destruct (so_sync_update cfg Par x s) as [[v|e] s']; cbn; exact H.
  - (* pickle: a parent-side instance is accepted; a lazyUpdate instance writes its queue first *)
    unfold handle, bind, gets. cbv beta iota. destruct (nth h (slots s) None) as [[sd x]|] eqn:E; [|discriminate].
    inversion Hs; subst sd. unfold ret at 1. cbv beta iota. cbn [fst snd].
    cbn [step_ok is_sync_update] in Hg. rewrite E in Hg.
    assert (Hp : JX [] (snd (so_pickle cfg Par x s))).
    { unfold so_pickle. cbn [per_conn]. unfold bind, gets. cbv beta iota.
      destruct (lazy cfg) eqn:El; cbn [andb]; [|exact J].
      destruct (dirty (get_inst s Par x)) eqn:Hd; [|exact J].
      assert (Hgd : dirty (get_inst s Par x) = true -> pending s = None ->
                    others_blank s x /\
                    exists r, tbl_lookup (committed s) (i_id (get_inst s Par x)) = Some r /\ fitsb (i_pending (get_inst s Par x)) r = true).
      { intros _ Ep. rewrite Ep in Hg. cbn in Hg.
        apply andb_true_iff in Hg. destruct Hg as [H1 H2]. split; [apply others_blankb_ok; exact H1|].
        destruct (tbl_lookup (committed s) (i_id (get_inst s Par x))) as [r|]; [|discriminate]. exists r. auto. }
      destruct (jx_so_sync_update s x J Hgd) as [H _].
      destruct (so_sync_update cfg Par x s) as [[v|e] s']; cbn; exact H. }
    destruct (so_pickle cfg Par x s) as [[v|e] s']; cbn; exact Hp.
  - (* drop *) unfold bind, modify, ret. cbn [fst snd].
    eapply JX_transfer; [exact J|apply J|reflexivity|apply J|].
    intros o' Ha _. left. split; [|reflexivity]. apply alive_iff in Ha. apply alive_iff. cbn in Ha.
    destruct Ha as [[]|[A|A]]; [|right; right; exact A]. right. left.
    unfold slot_refs in *. cbn in A. apply in_flat_map in A. destruct A as [y [Y1 Y2]]. apply in_flat_map. exists y. split; [|exact Y2].
    clear -Y1 Y2. revert h Y1. generalize (slots s) as l. induction l as [|z l IH]; intros [|h]; cbn; intros H; auto.
    + destruct H as [<-|H]; [destruct Y2|auto].
    + destruct H as [H|H]; [auto|right; eapply IH; eauto].
  - (* cull *) inversion Hs; subst sd. unfold bind, gets. cbv beta iota.
    destruct (doCache cfg && c_present (cch s Par)); unfold ret; cbn [fst snd]; [|exact J].
    pose proof (jx_cull [] [] s J) as H. destruct (cull cfg Par [] s) as [[u|e] s']; cbn; exact H.
Qed.

(* ------------------------------------------------------------------ the other kinds of steps *)
Lemma slot_refs_side s : slot_refs s Par = flat_map (fun x => match x with Some o => [o] | None => [] end) (side_slots s Par).
Proof.
  unfold slot_refs, side_slots. induction (slots s) as [|x l IH]; [reflexivity|].
  cbn [flat_map map]. rewrite IH. destruct x as [[[] o]|]; reflexivity.
Qed.

Lemma JX_frame s s' k :
  par s' = par s -> committed s' = committed s -> side_slots s' Par = side_slots s Par ++ repeat None k ->
  JX [] s -> JX [] s'.
Proof.
  intros Hp Ht Hsl J.
  assert (G : forall o, get_inst s' Par o = get_inst s Par o) by (intros o; unfold get_inst; cbn; rewrite Hp; reflexivity).
  eapply JX_transfer; [exact J| |exact Ht| |].
  - intros k0 o Hin. unfold cch, known, get_inst in *. cbn in *. rewrite Hp in *. apply J. exact Hin.
  - intros o. rewrite G. apply J.
  - intros o Ha _. left. split; [|apply G]. apply alive_iff in Ha. apply alive_iff. cbn in Ha.
    destruct Ha as [[]|[A|A]].
    + right. left. rewrite slot_refs_side in *. rewrite Hsl, flat_map_app in A. apply in_app_or in A. destruct A as [A|A]; [exact A|].
      exfalso. clear -A. induction k; cbn in A; auto.
    + right. right. unfold cch in *. cbn in *. rewrite Hp in A. exact A.
Qed.

(* expire() keeps "flagged means nothing cached", whatever else is true *)
Lemma exp_so_expire o s : exp_ok s -> exp_ok (snd (so_expire cfg Par o s)).
Proof.
  intros He. rewrite so_expire_eq. cbv zeta.
  change (i_with_pending (i_with_vals (get_inst s Par o) (map (fun _ : option val => None) (i_vals (get_inst s Par o))))
                         (no_queue (i_pending (get_inst s Par o)))) with (expired_of (get_inst s Par o)).
  destruct (expired_of_facts (get_inst s Par o)) as [Hnv Hdt].
  set (s1 := with_heap s Par (set_nth o (expired_of (get_inst s Par o)) (heap (cn s Par)))).
  assert (G1 : forall o', get_inst s1 Par o' = if Nat.eqb o' o && Nat.ltb o (length (heap (cn s Par))) then expired_of (get_inst s Par o) else get_inst s Par o').
  { intros o'. unfold s1. exact (get_inst_upd s o expired_of o'). }
  assert (E1 : exp_ok s1).
  { intros o'. rewrite G1. destruct (Nat.eqb o' o && Nat.ltb o (length (heap (cn s Par)))); [apply inst_ok_novals; assumption|apply He]. }
  destruct (i_expired (get_inst s Par o)); [exact E1|].
  set (s2 := with_heap s1 Par (set_nth o (i_with_expired (get_inst s1 Par o) true) (heap (cn s1 Par)))).
  assert (E2 : exp_ok s2).
  { intros o'. unfold s2. pose proof (get_inst_upd s1 o (fun i => i_with_expired i true) o') as G. cbv beta in G. rewrite G.
    destruct (Nat.eqb o' o && Nat.ltb o (length (heap (cn s1 Par)))) eqn:E; [|apply E1].
    apply andb_true_iff in E. destruct E as [_ E].
    change (heap (cn s1 Par)) with (set_nth o (expired_of (get_inst s Par o)) (heap (cn s Par))) in E.
    rewrite length_set_nth in E. rewrite G1, Nat.eqb_refl, E. cbn [andb]. apply inst_ok_novals; [exact Hnv|exact Hdt]. }
  rewrite cache_expire_eq. cbv zeta. destruct (negb (doCache cfg) || negb (c_present (cch s2 Par))); exact E2.
Qed.

Lemma exp_expire_ids ids : forall s, exp_ok s -> exp_ok (snd (expire_ids cfg Par ids s)).
Proof.
  induction ids as [|id rest IH]; intros s He; [exact He|]. cbn [expire_ids]. unfold bind at 1. unfold gets at 1. cbv beta iota.
  destruct (try_get cfg s Par id) as [o|].
  - unfold bind at 1. pose proof (exp_so_expire o s He) as H. destruct (so_expire cfg Par o s) as [[u|e] s1]; cbn [snd] in *; [apply IH; exact H|exact H].
  - unfold bind at 1. cbn. apply IH. exact He.
Qed.

Lemma exp_commit close s : exp_ok s -> exp_ok (snd (step cfg s (OCommit close))).
Proof.
  intros He. unfold step. cbn [run_op]. rewrite snd_bind_ret. unfold txn_commit, bind, gets. cbv beta iota.
  destruct (tobs (with_log s [])); [exact He|]. unfold modify at 1. cbv beta iota.
  set (s1 := low_commit (with_log s [])).
  pose proof (exp_expire_ids (all_ids cfg s1 Txn ++ deleted s1) s1 He) as H.
  destruct (expire_ids cfg Par (all_ids cfg s1 Txn ++ deleted s1) s1) as [[u|e] s2]; cbn [snd] in *; [|exact H].
  destruct close; exact H.
Qed.

Definition K (s : st) : Prop :=
  cache_ok s Par /\ cache_ok s Txn /\ db_ok s /\ exp_ok s /\ PF [] s.

Lemma K_init : K init.
Proof.
  split; [apply cache_ok_init|]. split; [apply cache_ok_init|]. split; [apply db_ok_init|]. split.
  - intros o. rewrite get_inst_oob by (cbn; lia). apply inst_ok_blank.
  - intros o Ha. apply alive_iff in Ha. cbn in Ha. destruct Ha as [[]|[[]|[]]].
Qed.

Lemma K_step s o : K s -> step_ok cfg s o = true -> K (snd (step cfg s o)).
Proof.
  intros (C1 & C2 & D & E & P) Hg.
  destruct (step_cache_ok cfg s o C1 C2) as [C1' C2']. pose proof (step_db_ok cfg s o D) as D'.
  split; [exact C1'|]. split; [exact C2'|]. split; [exact D'|].
  assert (J : JX [] s) by (split; [exact C1|split; [exact E|exact P]]).
  assert (Goal : JX [] (snd (step cfg s o))); [|destruct Goal as (_ & A & B); split; assumption].
  destruct (orm_op o) eqn:Ho.
  - unfold step. set (s0 := with_log s []). assert (J0 : JX [] s0) by exact J.
    assert (Hg0 : step_ok cfg s0 o = true) by exact Hg.
    destruct (op_side s0 o) as [[|]|] eqn:Hs.
    + apply jx_run_op_par; auto. exact (proj1 D).
    + pose proof (frame_run_op cfg Txn o s0 Ho Hs) as (F1 & (k & F2) & F3 & _).
      eapply (JX_frame s0 _ k); [exact F1|apply F3; reflexivity|exact F2|exact J0].
    + (* an empty handle *)
      destruct o; cbn in Ho, Hs; try discriminate; cbn [run_op]; unfold handle, bind, gets, modify, ret, raise; cbv beta iota;
        destruct (nth h (slots s0) None) as [x|] eqn:En;
        try (change (slots s0) with (slots s) in En; rewrite En in Hs; discriminate Hs); cbn [fst snd]; try exact J0.
      (* drop of an empty slot *)
      assert (Es : set_nth h None (slots s0) = slots s0).
      { clear -En. revert h En. generalize (slots s0) as l. induction l as [|z l IH]; intros [|h]; cbn; intros H; auto; [subst; reflexivity|f_equal; apply IH; exact H]. }
      rewrite Es. destruct s0; exact J0.
  - destruct o; cbn in Ho; try discriminate.
    + (* commit *)
      cbn [step_ok] in Hg. destruct (tobs s) eqn:Ht.
      * unfold step. cbn [run_op]. rewrite snd_bind_ret. unfold txn_commit, bind, gets. cbv beta iota. change (tobs (with_log s [])) with (tobs s). rewrite Ht. exact J.
      * cbn in Hg. destruct (commit_partial cfg s close C1 Ht (proj2 (par_fresh_PF s) P) Hg) as (s' & Es & _ & _ & _ & _ & _ & Hf).
        split; [exact C1'|]. split; [apply exp_commit; exact E|]. rewrite Es. cbn [snd]. apply par_fresh_PF. exact Hf.
    + (* rollback: a transaction-side step *)
      pose proof (frame_step_txn cfg s ORollback eq_refl eq_refl) as (F1 & (k & F2) & F3 & _).
      eapply (JX_frame s _ k); [exact F1|apply F3; reflexivity|exact F2|exact J].
    + pose proof (frame_step_txn cfg s OBegin eq_refl eq_refl) as (F1 & (k & F2) & F3 & _).
      eapply (JX_frame s _ k); [exact F1|apply F3; reflexivity|exact F2|exact J].
Qed.

Lemma K_run ops : forall s, K s -> hist_ok cfg s ops = true -> K (run cfg s ops).
Proof.
  induction ops as [|o ops IH]; intros s Hk Hh; cbn in *; [exact Hk|].
  apply andb_true_iff in Hh. destruct Hh as [H1 H2]. apply IH; [apply K_step; assumption|exact H2].
Qed.

Theorem fresh_history ops : hist_ok cfg init ops = true -> par_fresh (run cfg init ops) = true.
Proof. intros H. apply par_fresh_PF. apply (K_run ops init K_init H). Qed.
End Fresh.
