(* List lemmas for the invariant proofs: association lists with unique keys,
   mem_nat, filter, pick_every. *)
From Coq Require Import List ZArith Bool Lia ZifyBool.
From Model Require Import Orm.
From Proofs Require Import OrmBase.
Import ListNotations.
Open Scope Z_scope.

Definition keys {X} (l : list (Z * X)) : list Z := map fst l.

Lemma assoc_none_notin {X} id (l : list (Z * X)) : assoc id l = None <-> ~ In id (keys l).
Proof.
  induction l as [|[k v] l IH]; cbn; [tauto|].
  destruct (k =? id) eqn:E.
  - split; [discriminate|]. intros H. exfalso. apply H. left. lia.
  - rewrite IH. split; intros H; [intros [H1|H1]; [lia|tauto]|tauto].
Qed.

Lemma assoc_some_in_keys {X} id (x : X) l : assoc id l = Some x -> In id (keys l).
Proof. intros H. apply assoc_In in H. apply (in_map fst) in H. exact H. Qed.

Lemma In_assoc_nodup {X} id (x : X) l : NoDup (keys l) -> In (id, x) l -> assoc id l = Some x.
Proof.
  induction l as [|[k v] l IH]; cbn; [tauto|]. intros Hnd [H|H].
  - inversion H; subst. now rewrite Z.eqb_refl.
  - inversion Hnd as [|? ? Hk Hnd']; subst. destruct (k =? id) eqn:E.
    + exfalso. apply Hk. assert (k = id) by lia. subst k. apply (in_map fst) in H. exact H.
    + auto.
Qed.

Lemma In_not_none {X} id (x : X) l : In (id, x) l -> assoc id l <> None.
Proof. intros H. rewrite assoc_none_notin. intros Hn. apply Hn. apply (in_map fst) in H. exact H. Qed.

Lemma In_assoc_set {X} a (x y : X) id l : In (a, x) (assoc_set id y l) -> (a = id /\ x = y) \/ In (a, x) l.
Proof.
  induction l as [|[k v] l IH]; cbn.
  - intros [H|[]]. inversion H; auto.
  - destruct (k =? id) eqn:E; cbn.
    + intros [H|H]; [inversion H; subst; left; split; [lia|reflexivity]|auto].
    + intros [H|H]; [auto|]. destruct (IH H); auto.
Qed.

Lemma keys_assoc_set_present {X} id (y : X) l : In id (keys l) -> keys (assoc_set id y l) = keys l.
Proof.
  induction l as [|[k v] l IH]; cbn; [tauto|].
  destruct (k =? id) eqn:E; cbn; [reflexivity|].
  intros [H|H]; [lia|]. f_equal. auto.
Qed.

Lemma keys_assoc_set_absent {X} id (y : X) l : ~ In id (keys l) -> keys (assoc_set id y l) = keys l ++ [id].
Proof.
  induction l as [|[k v] l IH]; cbn; [reflexivity|].
  destruct (k =? id) eqn:E; cbn; intros H.
  - exfalso. apply H. left. lia.
  - f_equal. apply IH. tauto.
Qed.

Lemma NoDup_snoc {X} (l : list X) x : NoDup l -> ~ In x l -> NoDup (l ++ [x]).
Proof.
  induction l as [|y l IH]; cbn; intros Hnd Hn; [constructor; [tauto|constructor]|].
  inversion Hnd; subst. constructor.
  - rewrite in_app_iff. cbn. intuition.
  - apply IH; tauto.
Qed.

Lemma NoDup_keys_assoc_set {X} id (y : X) l : NoDup (keys l) -> NoDup (keys (assoc_set id y l)).
Proof.
  intros H. destruct (in_dec Z.eq_dec id (keys l)) as [Hi|Hn].
  - now rewrite keys_assoc_set_present.
  - rewrite keys_assoc_set_absent by exact Hn. now apply NoDup_snoc.
Qed.

Lemma In_assoc_remove {X} a (x : X) id l : In (a, x) (assoc_remove id l) -> In (a, x) l /\ a <> id.
Proof.
  induction l as [|[k v] l IH]; cbn; [tauto|].
  destruct (k =? id) eqn:E; cbn.
  - intros H. destruct (IH H). auto.
  - intros [H|H]; [inversion H; subst; split; [auto|lia]|]. destruct (IH H). auto.
Qed.

Lemma In_keys_assoc_remove {X} a id (l : list (Z * X)) : In a (keys (assoc_remove id l)) -> In a (keys l).
Proof.
  unfold keys. rewrite !in_map_iff. intros ([a' x] & E & H). cbn in E. subst a'.
  apply In_assoc_remove in H. exists (a, x). tauto.
Qed.

Lemma NoDup_keys_assoc_remove {X} id (l : list (Z * X)) : NoDup (keys l) -> NoDup (keys (assoc_remove id l)).
Proof.
  induction l as [|[k v] l IH]; cbn; [auto|]. intros H. inversion H; subst.
  destruct (k =? id); cbn; [auto|]. constructor; [|auto].
  intros Hi. apply In_keys_assoc_remove in Hi. auto.
Qed.

Lemma NoDup_keys_filter {X} (f : Z * X -> bool) l : NoDup (keys l) -> NoDup (keys (filter f l)).
Proof.
  induction l as [|[k v] l IH]; cbn; [auto|]. intros H. inversion H as [|? ? Hk Hnd]; subst.
  destruct (f (k, v)); cbn; [|auto]. constructor; [|auto].
  intros Hi. apply Hk. unfold keys in *. rewrite in_map_iff in *. destruct Hi as (e & E & Hi).
  apply filter_In in Hi. exists e. tauto.
Qed.

Lemma assoc_app {X} id (l l' : list (Z * X)) :
  assoc id (l ++ l') = match assoc id l with Some x => Some x | None => assoc id l' end.
Proof.
  destruct (assoc id l) as [x|] eqn:E; [now apply assoc_app_some|now apply assoc_app_none].
Qed.

(* row existence is insensitive to an update in place *)
Lemma assoc_set_exists_iff {X} id id' (y : X) l :
  assoc id l <> None -> (assoc id' (assoc_set id y l) <> None <-> assoc id' l <> None).
Proof.
  intros H. destruct (Z.eq_dec id id') as [->|Hne].
  - rewrite assoc_set_same. split; [auto|discriminate].
  - now rewrite assoc_set_other.
Qed.

Lemma length_apply_updates upd : forall r, length (apply_updates upd r) = length r.
Proof. induction upd as [|[c v] u IH]; intros r; cbn; [reflexivity|]. rewrite IH. apply length_set_nth. Qed.

(* mem_nat *)
Lemma mem_nat_In n l : mem_nat n l = true <-> In n l.
Proof.
  induction l as [|x l IH]; cbn; [split; [discriminate|tauto]|].
  rewrite orb_true_iff, IH, Nat.eqb_eq. tauto.
Qed.

Lemma kind_eq_dec (a b : kind) : {a = b} + {a <> b}.
Proof. decide equality. Qed.
Lemma tgs {X} k (x : X) t : tget k (tset k x t) = x.
Proof. destruct k; reflexivity. Qed.
Lemma tgo {X} k k' (x : X) t : k <> k' -> tget k' (tset k x t) = tget k' t.
Proof. destruct k, k'; cbn; congruence. Qed.

Lemma assoc_remove_none {X} id id' (l : list (Z * X)) : assoc id' l = None -> assoc id' (assoc_remove id l) = None.
Proof.
  destruct (Z.eq_dec id id') as [->|Hne]; [intros _; apply assoc_remove_same|now rewrite assoc_remove_other].
Qed.

(* ---- cull: the victims and the weak dictionary ---- *)
Lemma pick_every_incl frac : forall l skip e, In e (pick_every frac skip l) -> In e l.
Proof.
  induction l as [|x l IH]; intros skip e; cbn; [tauto|].
  destruct skip as [|n]; cbn.
  - intros [H|H]; [auto|right; eapply IH; eauto].
  - intros H. right. eapply IH; eauto.
Qed.

Definition wfold (p : Z * nat -> bool) (vs w : list (Z * nat)) : list (Z * nat) :=
  fold_left (fun w e => if p e then assoc_set (fst e) (snd e) w else w) vs w.

Lemma wfold_In p vs : forall w a x, In (a, x) (wfold p vs w) -> In (a, x) w \/ In (a, x) vs.
Proof.
  unfold wfold. induction vs as [|[b y] vs IH]; intros w a x; cbn; [auto|].
  intros H. apply IH in H. destruct H as [H|H]; [|auto].
  destruct (p (b, y)); [|auto]. cbn in H. apply In_assoc_set in H. destruct H as [[-> ->]|H]; auto.
Qed.

Lemma wfold_miss p vs id : forall w, (forall y, ~ In (id, y) vs) -> assoc id (wfold p vs w) = assoc id w.
Proof.
  unfold wfold. induction vs as [|[b y] vs IH]; intros w Hn; cbn; [reflexivity|].
  rewrite IH by (intros z Hz; apply (Hn z); right; exact Hz).
  destruct (p (b, y)); [|reflexivity]. cbn. apply assoc_set_other. intros ->. apply (Hn y). left. reflexivity.
Qed.

Lemma wfold_hit p vs id x : forall w,
  (forall y, In (id, y) vs -> y = x) -> p (id, x) = true ->
  (assoc id w = Some x \/ In (id, x) vs) -> assoc id (wfold p vs w) = Some x.
Proof.
  unfold wfold. induction vs as [|[b y] vs IH]; intros w Hu Hp Hs; cbn.
  - destruct Hs as [Hs|[]]. exact Hs.
  - apply IH; [intros z Hz; apply Hu; right; exact Hz|exact Hp|].
    destruct (Z.eq_dec b id) as [->|Hne].
    + assert (y = x) by (apply Hu; left; reflexivity). subst y. rewrite Hp. cbn. left. apply assoc_set_same.
    + destruct Hs as [Hs|[Hs|Hs]]; [|inversion Hs; congruence|right; exact Hs].
      left. destruct (p (b, y)); [|exact Hs]. cbn. rewrite assoc_set_other by exact Hne. exact Hs.
Qed.

Lemma assoc_filter_key {X} (q : Z -> bool) id (l : list (Z * X)) :
  assoc id (filter (fun e => q (fst e)) l) = if q id then assoc id l else None.
Proof.
  induction l as [|[k v] l IH]; cbn; [destruct (q id); reflexivity|].
  destruct (q k) eqn:Eq; cbn.
  - destruct (k =? id) eqn:E; [assert (k = id) by lia; subst k; now rewrite Eq|exact IH].
  - destruct (k =? id) eqn:E; [assert (k = id) by lia; subst k; rewrite Eq in *; exact IH|exact IH].
Qed.

Lemma assoc_filter_some {X} (f : Z * X -> bool) id x l : assoc id l = Some x -> f (id, x) = true -> assoc id (filter f l) = Some x.
Proof.
  induction l as [|[k v] l IH]; cbn; [discriminate|].
  destruct (k =? id) eqn:E.
  - intros H Hf. inversion H; subst v. assert (k = id) by lia. subst k. rewrite Hf. cbn. now rewrite Z.eqb_refl.
  - intros H Hf. destruct (f (k, v)); cbn; rewrite ?E; auto.
Qed.

Lemma existsb_key_false (vs : list (Z * nat)) id : existsb (fun v => fst v =? id) vs = false <-> forall y, ~ In (id, y) vs.
Proof.
  induction vs as [|[b y] vs IH]; cbn; [split; [intros _ y []|reflexivity]|].
  rewrite orb_false_iff, IH. split.
  - intros [H1 H2] z [Hz|Hz]; [inversion Hz; lia|exact (H2 z Hz)].
  - intros H. split; [|intros z Hz; apply (H z); right; exact Hz].
    destruct (b =? id) eqn:E; [|reflexivity]. exfalso. apply (H y). left. f_equal. lia.
Qed.
