(* Characterisation of the GENERATED window arithmetic (Gen/Slice.v) by clean,
   typed functions.  A change of SelectResults.__getitem__, Select.__sqlrepr__'s
   window test or a dialect's _queryAddLimitOffset changes Gen/Slice.v, and
   these lemmas are the obligations that break. *)
From Coq Require Import List ZArith Bool Lia ZifyBool.
From Lib Require Import PyLite.
From Gen Require Import Slice.
From Model Require Import Slice.
Import ListNotations.
Open Scope Z_scope.

Definition nz (o : option Z) : bool := match o with Some z => negb (z =? 0) | None => false end.
Definition isneg (o : option Z) : bool := match o with Some z => z <? 0 | None => false end.
Definition is_none (o : option Z) : bool := match o with None => true | Some _ => false end.
Definition odefault (o : option Z) (d : Z) : Z := match o with Some z => z | None => d end.

Definition clean_end (s : Z) (e b : option Z) : option Z :=
  match b with
  | None => e
  | Some b =>
      let e1 := s + b in
      match e with
      | Some e0 => if e0 <? e1 then Some e0 else Some e1
      | None => Some e1
      end
  end.

Definition clean_slice (s : Z) (e a b : option Z) : res gi :=
  if negb (nz a) && is_none b then Ok RSelf
  else if (nz a && isneg a) || (nz b && isneg b) then
    if nz a then (if is_none b then Ok (RList (opt_pv a) VNone) else Ok (RList (opt_pv a) (opt_pv b)))
    else Ok (RList VNone (opt_pv b))
  else
    let start := s + (if nz a then odefault a 0 else 0) in
    match clean_end s e b with
    | Some e2 => if e2 <? start then Ok (RWin (VInt e2) (VInt e2)) else Ok (RWin (VInt start) (VInt e2))
    | None => Ok (RWin (VInt start) VNone)
    end.

Ltac split_ifs :=
  repeat match goal with
         | |- context [if ?b then _ else _] =>
             lazymatch b with
             | context [if _ then _ else _] => fail
             | _ => destruct b eqn:?
             end
         end.

Lemma getitem_slice_char s e a b :
  getitem_slice (VInt s) (opt_pv e) (opt_pv a) (opt_pv b) = clean_slice s e a b.
Proof.
  destruct e as [e|], a as [a|], b as [b|];
    unfold getitem_slice, clean_slice, clean_end, nz, isneg, is_none, odefault, opt_pv,
      py_or, py_and, py_not, py_is_none, py_lt, py_le, py_gt, py_ge, py_add, py_sub, bind, toZ, truthy;
    cbn [negb andb orb];
    split_ifs; try reflexivity; try discriminate; try (exfalso; lia); try (repeat f_equal; lia).
Qed.

Definition clean_index (s : Z) (e : option Z) (i : Z) : res gi :=
  if i <? 0 then Ok (RListIdx (VInt i))
  else match e with
       | Some e0 => if s + i >=? e0 then Err E_Index else Ok (RWinIdx0 (VInt (s + i)) (VInt (s + i + 1)))
       | None => Ok (RWinIdx0 (VInt (s + i)) (VInt (s + i + 1)))
       end.

Lemma getitem_index_char s e i :
  getitem_index (VInt s) (opt_pv e) (VInt i) = clean_index s e i.
Proof.
  destruct e as [e|];
    unfold getitem_index, clean_index, opt_pv, py_or, py_and, py_not, py_is_none, py_lt, py_le, py_gt, py_ge, py_add, py_sub, bind, toZ, truthy;
    cbn [negb andb orb]; split_ifs; try reflexivity; try discriminate; try (exfalso; lia); try (repeat f_equal; lia).
Qed.

Lemma select_has_window_char s e :
  select_has_window (VInt s) (opt_pv e) = Ok (negb (s =? 0) || negb (is_none e)).
Proof.
  destruct e as [e|]; unfold select_has_window, opt_pv, py_not, py_is_none, bind, truthy, is_none;
    cbn [negb]; destruct (s =? 0); reflexivity.
Qed.

Definition clean_clause (d : dialect) (s : Z) (e : option Z) : list tok :=
  match e with
  | None =>
      match d with
      | Sqlite => [TKw K_LIMIT; TNum (VInt (-1)); TKw K_OFFSET; TNum (VInt s)]
      | Mysql => [TKw K_LIMIT; TNum (VInt s); TComma; TNum (VInt 18446744073709551615)]
      | Postgres => [TKw K_OFFSET; TNum (VInt s)]
      end
  | Some e =>
      if s =? 0 then [TKw K_LIMIT; TNum (VInt e)]
      else match d with
           | Mysql => [TKw K_LIMIT; TNum (VInt s); TComma; TNum (VInt (e - s))]
           | _ => [TKw K_LIMIT; TNum (VInt (e - s)); TKw K_OFFSET; TNum (VInt s)]
           end
  end.

Lemma limit_offset_char d s e :
  limit_offset d (VInt s) (opt_pv e) = Ok (clean_clause d s e).
Proof.
  destruct d, e as [e|];
    unfold limit_offset, limit_offset_sqlite, limit_offset_mysql, limit_offset_postgres,
      clean_clause, opt_pv, py_not, py_is_none, py_sub, bind, toZ, truthy;
    cbn [negb]; destruct (s =? 0); reflexivity.
Qed.
