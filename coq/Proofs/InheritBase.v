(* C15: abstract objects, the representation relation between a state and a
   list of objects, and how the table primitives act on it. *)
From Coq Require Import List ZArith Bool Lia.
From Model Require Import Inherit.
Import ListNotations.
Open Scope Z_scope.

Lemma cls_eqb_eq : forall a b, cls_eqb a b = true <-> a = b.
Proof. destruct a, b; cbn; split; intro H; try reflexivity; try discriminate. Qed.
Lemma cls_eqb_refl : forall a, cls_eqb a a = true.
Proof. destruct a; reflexivity. Qed.
Lemma cls_eqb_neq : forall a b, cls_eqb a b = false <-> a <> b.
Proof. destruct a, b; cbn; split; intro H; try reflexivity; try discriminate; try congruence. Qed.
Lemma cls_dec : forall a b : cls, {a = b} + {a <> b}.
Proof. decide equality. Qed.
Lemma memc_In : forall k l, memc k l = true <-> In k l.
Proof.
  intros k l. unfold memc. rewrite existsb_exists. split.
  - intros [x [Hx He]]. apply cls_eqb_eq in He. subst. exact Hx.
  - intro H. exists k. split; [exact H | apply cls_eqb_refl].
Qed.

(* ---- abstract objects *)
Record aobj := mkao { aid : Z; ak : cls; av : cls -> option Z }.
Definition arow (l : cls) (o : aobj) : row := mkrow (aid o) (av o l) (tagof (ak o) l).
Definition pr1 (l : cls) (o : aobj) : list row := if memc l (chain (ak o)) then [arow l o] else [].
Definition proj (l : cls) (os : list aobj) : list row := flat_map (pr1 l) os.
Definition aids (os : list aobj) : list Z := map aid os.
Definition afind (id : Z) (os : list aobj) : option aobj := List.find (fun o => aid o =? id) os.

Definition repr (s : st) (os : list aobj) : Prop :=
  NoDup (aids os) /\
  (forall l, tab s l = proj l os) /\
  born s = map (fun o => (aid o, ak o)) os /\
  (forall o, In o os -> aid o <= seq s).

Lemma proj_app : forall l a b, proj l (a ++ b) = proj l a ++ proj l b.
Proof. intros. unfold proj. apply flat_map_app. Qed.
Lemma proj_cons : forall l o os, proj l (o :: os) = pr1 l o ++ proj l os.
Proof. reflexivity. Qed.

Lemma in_proj : forall l os r, In r (proj l os) <-> exists o, In o os /\ memc l (chain (ak o)) = true /\ r = arow l o.
Proof.
  intros l os r. unfold proj. rewrite in_flat_map. split.
  - intros [o [Ho Hr]]. exists o. unfold pr1 in Hr. destruct (memc l (chain (ak o))); cbn in Hr; [|tauto].
    destruct Hr as [Hr|[]]. auto.
  - intros [o [Ho [Hm Hr]]]. exists o. split; [exact Ho|]. unfold pr1. rewrite Hm. left. auto.
Qed.

Lemma find_proj_none : forall l id os, ~ In id (aids os) -> find id (proj l os) = None.
Proof.
  induction os as [|o os IH]; intro H; [reflexivity|].
  rewrite proj_cons. unfold pr1. cbn in H.
  destruct (memc l (chain (ak o))); cbn.
  - destruct (aid o =? id) eqn:E; [apply Z.eqb_eq in E; tauto | apply IH; tauto].
  - apply IH; tauto.
Qed.

Lemma afind_some : forall id os o, afind id os = Some o -> In o os /\ aid o = id.
Proof.
  intros id os o H. unfold afind in H. apply find_some in H. destruct H as [H1 H2].
  apply Z.eqb_eq in H2. auto.
Qed.
Lemma afind_none : forall id os, afind id os = None <-> ~ In id (aids os).
Proof.
  intros id os. unfold afind, aids. split.
  - intros H Hin. apply in_map_iff in Hin. destruct Hin as [o [He Ho]].
    eapply find_none in H; [|exact Ho]. cbn in H. rewrite He, Z.eqb_refl in H. discriminate.
  - intro H. induction os as [|o os IH]; [reflexivity|]. cbn in *.
    destruct (aid o =? id) eqn:E; [apply Z.eqb_eq in E; tauto | apply IH; tauto].
Qed.
Lemma afind_in : forall os o, NoDup (aids os) -> In o os -> afind (aid o) os = Some o.
Proof.
  induction os as [|x os IH]; intros o Hnd Hin; [destruct Hin|].
  cbn in Hnd. inversion Hnd as [|? ? Hx Hnd']; subst. cbn.
  destruct Hin as [->|Hin]; [rewrite Z.eqb_refl; reflexivity|].
  destruct (aid x =? aid o) eqn:E.
  - apply Z.eqb_eq in E. exfalso. apply Hx. rewrite E. apply in_map. exact Hin.
  - apply IH; assumption.
Qed.

Lemma find_proj : forall l id os, NoDup (aids os) ->
  find id (proj l os) = match afind id os with
                        | Some o => if memc l (chain (ak o)) then Some (arow l o) else None
                        | None => None
                        end.
Proof.
  induction os as [|o os IH]; intro Hnd; [reflexivity|].
  cbn in Hnd. inversion Hnd as [|? ? Hx Hnd']; subst.
  rewrite proj_cons. unfold pr1. cbn [afind List.find].
  destruct (aid o =? id) eqn:E.
  - apply Z.eqb_eq in E. destruct (memc l (chain (ak o))); cbn.
    + rewrite E, Z.eqb_refl. reflexivity.
    + apply find_proj_none. rewrite <- E. exact Hx.
  - destruct (memc l (chain (ak o))); cbn; [rewrite E|]; apply IH; exact Hnd'.
Qed.

Lemma has_proj : forall l id os, NoDup (aids os) ->
  has id (proj l os) = match afind id os with Some o => memc l (chain (ak o)) | None => false end.
Proof.
  intros. unfold has. rewrite find_proj by assumption.
  destruct (afind id os) as [o|]; [|reflexivity]. destruct (memc l (chain (ak o))); reflexivity.
Qed.

Definition adel (id : Z) (os : list aobj) : list aobj := filter (fun o => negb (aid o =? id)) os.

Lemma del_proj : forall l id os, del id (proj l os) = proj l (adel id os).
Proof.
  induction os as [|o os IH]; [reflexivity|].
  rewrite proj_cons. unfold del in *. rewrite filter_app, IH. cbn [adel filter].
  unfold pr1. destruct (aid o =? id) eqn:E; cbn [negb].
  - destruct (memc l (chain (ak o))); cbn; [rewrite E|]; reflexivity.
  - rewrite proj_cons. unfold pr1. destruct (memc l (chain (ak o))); cbn; [rewrite E|]; reflexivity.
Qed.

Lemma adel_notin : forall id os, ~ In id (aids os) -> adel id os = os.
Proof.
  induction os as [|o os IH]; intro H; [reflexivity|]. cbn in *.
  destruct (aid o =? id) eqn:E; [apply Z.eqb_eq in E; tauto|]. cbn. f_equal. apply IH. tauto.
Qed.
Lemma aids_adel : forall id os, aids (adel id os) = filter (fun i => negb (i =? id)) (aids os).
Proof.
  induction os as [|o os IH]; [reflexivity|]. cbn. destruct (aid o =? id); cbn; [|f_equal]; apply IH.
Qed.
Lemma nodup_filter : forall (f : Z -> bool) l, NoDup l -> NoDup (filter f l).
Proof.
  induction l as [|x l IH]; intro H; [constructor|]. inversion H; subst. cbn.
  destruct (f x); [constructor|]; auto. rewrite filter_In. tauto.
Qed.
Lemma in_adel : forall id os o, In o (adel id os) <-> In o os /\ aid o <> id.
Proof.
  intros. unfold adel. rewrite filter_In. rewrite negb_true_iff, Z.eqb_neq. tauto.
Qed.

(* updating one column of one object *)
Definition upd (f : cls -> option Z) (l : cls) (v : option Z) : cls -> option Z :=
  fun l' => if cls_eqb l' l then v else f l'.
Definition aset1 (id : Z) (l : cls) (v : option Z) (o : aobj) : aobj :=
  if aid o =? id then mkao (aid o) (ak o) (upd (av o) l v) else o.
Definition aset (id : Z) (l : cls) (v : option Z) (os : list aobj) : list aobj := map (aset1 id l v) os.

Lemma aset1_id : forall id l v o, aid (aset1 id l v o) = aid o.
Proof. intros. unfold aset1. destruct (aid o =? id); reflexivity. Qed.
Lemma aset1_k : forall id l v o, ak (aset1 id l v o) = ak o.
Proof. intros. unfold aset1. destruct (aid o =? id); reflexivity. Qed.
Lemma aids_aset : forall id l v os, aids (aset id l v os) = aids os.
Proof. intros. unfold aids, aset. rewrite map_map. apply map_ext. intro. apply aset1_id. Qed.

Lemma setv_proj_same : forall l id v os, setv id v (proj l os) = proj l (aset id l v os).
Proof.
  induction os as [|o os IH]; [reflexivity|].
  cbn [aset map]. rewrite !proj_cons. unfold setv in *. rewrite map_app, IH. f_equal.
  unfold pr1. rewrite aset1_k. destruct (memc l (chain (ak o))); [|reflexivity]. cbn.
  unfold aset1. destruct (aid o =? id) eqn:E; cbn; [|reflexivity].
  unfold arow. cbn. unfold upd. rewrite cls_eqb_refl. reflexivity.
Qed.
Lemma proj_aset_other : forall l l' id v os, l' <> l -> proj l' (aset id l v os) = proj l' os.
Proof.
  induction os as [|o os IH]; intro Hne; [reflexivity|].
  cbn [aset map]. rewrite !proj_cons. f_equal; [|apply IH; exact Hne].
  unfold pr1. rewrite aset1_k. destruct (memc l' (chain (ak o))); [|reflexivity].
  unfold aset1. destruct (aid o =? id); [|reflexivity].
  unfold arow. cbn. unfold upd. apply cls_eqb_neq in Hne. rewrite Hne. reflexivity.
Qed.

(* ---- tab / set_tab *)
Lemma tab_set_same : forall s k t, tab (set_tab s k t) k = t.
Proof. destruct k; reflexivity. Qed.
Lemma tab_set_other : forall s k k' t, k' <> k -> tab (set_tab s k t) k' = tab s k'.
Proof. destruct k, k'; intros; try reflexivity; congruence. Qed.
Lemma tab_set : forall s k k' t, tab (set_tab s k t) k' = if cls_eqb k' k then t else tab s k'.
Proof. destruct k, k'; reflexivity. Qed.
Lemma seq_set_tab : forall s k t, seq (set_tab s k t) = seq s.
Proof. destruct k; reflexivity. Qed.
Lemma refs_set_tab : forall s k t, refs (set_tab s k t) = refs s.
Proof. destruct k; reflexivity. Qed.
Lemma born_set_tab : forall s k t, born (set_tab s k t) = born s.
Proof. destruct k; reflexivity. Qed.
Lemma tab_set_seq : forall s z k, tab (set_seq s z) k = tab s k.
Proof. destruct k; reflexivity. Qed.
Lemma tab_set_born : forall s b k, tab (set_born s b) k = tab s k.
Proof. destruct k; reflexivity. Qed.
Lemma tab_set_refs : forall s b k, tab (set_refs s b) k = tab s k.
Proof. destruct k; reflexivity. Qed.

(* every object has a root row *)
Lemma memc_root : forall k, memc KA (chain k) = true.
Proof. destruct k; reflexivity. Qed.
Lemma proj_root_ids : forall os, ids (proj KA os) = aids os.
Proof.
  induction os as [|o os IH]; [reflexivity|]. rewrite proj_cons. unfold pr1. rewrite memc_root.
  cbn. f_equal. exact IH.
Qed.

Lemma repr_ids_le : forall s os l r, repr s os -> In r (tab s l) -> rid r <= seq s.
Proof.
  intros s os l r [_ [Ht [_ Hs]]] Hin. rewrite Ht in Hin. apply in_proj in Hin.
  destruct Hin as [o [Ho [_ ->]]]. cbn. apply Hs. exact Ho.
Qed.
