(* C18: the round-trip theorems, the rejection of bad ports, sqlite, and the
   witnesses that refute the full-strength statements on the unchanged code. *)
From Coq Require Import List NArith ZArith Bool Lia ZifyBool DecimalN.
From Lib Require Import UriPy.
From Gen Require Import Uri.
From Model Require Import Uri.
From Proofs Require Import UriLists UriQuote UriChar UriSplit UriNetloc.
Import ListNotations.
Open Scope N_scope.

(* ------------------------------------------------------------------ pieces *)
Lemma strip1_valid db : valid_text db = true -> valid_text (strip1 db) = true.
Proof.
  unfold strip1, valid_text. destruct db as [|d r]; [reflexivity|]. destruct (d =? 47); [|auto].
  cbn [forallb]. rewrite andb_true_iff. tauto.
Qed.

Lemma auth_ok user pw :
  valid_text user = true -> valid_text pw = true -> negb (is_nil user) || is_nil pw = true ->
  exists a, clean_auth user pw = ROk a.
Proof.
  intros Hu Hp Hg. unfold clean_auth. destruct user as [|cu user].
  - destruct pw; [eexists; reflexivity|cbn in Hg; discriminate].
  - rewrite Hu. destruct pw as [|cp pw]; [eexists; reflexivity|]. rewrite Hp. eexists; reflexivity.
Qed.

(* the port text the builder writes after the host *)
Definition port_text (port : option Z) : option str :=
  match port with Some z => Some (dec_of_Z z) | None => None end.

Definition host_ok (h : str) : bool := valid_host h || valid_host6 h.

Lemma dec_of_Z_nonempty z : dec_of_Z z <> [].
Proof. destruct z; cbn [dec_of_Z]; [discriminate|apply dec_of_N_nonempty|discriminate]. Qed.

Lemma host_text_plain h : valid_host h = true -> host_text h = h.
Proof.
  intros Hh. unfold host_text. destruct h as [|ch h]; [reflexivity|].
  rewrite (chr_in_nochar 58 (ch :: h)); [reflexivity|]. exact (forallb_imp _ _ _ host_char_not_colon Hh).
Qed.

Lemma valid_host6_inv h :
  valid_host6 h = true ->
  host_text h = 91 :: h ++ [93] /\ forallb ip6_char h = true /\ check_bracketed h = true.
Proof.
  unfold valid_host6. rewrite !andb_true_iff. intros [[Hc Hi] Hv].
  destruct h as [|ch h]; [discriminate|].
  assert (Hch : ip6_char ch = true) by (cbn [forallb] in Hi; apply andb_true_iff in Hi; tauto).
  repeat split; [|exact Hi|].
  - unfold host_text. rewrite Hc. pose proof (ip6_char_not_open _ Hch) as E. rewrite E. reflexivity.
  - unfold check_bracketed. rewrite (ip6_char_not_v _ Hch). exact Hv.
Qed.

(* characters, '@', and the bracket stage of the "host[:port]" text *)
Lemma port_part_chars port :
  forallb netloc_char (port_part port) = true.
Proof.
  destruct port as [z|]; [|reflexivity]. cbn [port_part forallb].
  rewrite (forallb_imp _ _ _ digitm_netloc (dec_of_Z_chars z)). reflexivity.
Qed.

Lemma port_part_no_at port :
  nochar 64 (port_part port) = true.
Proof.
  destruct port as [z|]; [|reflexivity]. cbn [port_part]. rewrite nochar_cons. cbn [N.eqb negb andb].
  exact (forallb_imp _ _ _ digitm_not_at (dec_of_Z_chars z)).
Qed.

Lemma hostport_chars host port :
  host_ok host = true -> forallb netloc_char0 (clean_hostport host port) = true.
Proof.
  intros Hh. unfold clean_hostport. rewrite forallb_app.
  rewrite (forallb_imp _ _ _ netloc_char_0 (port_part_chars port)), andb_true_r.
  unfold host_ok in Hh. apply orb_true_iff in Hh. destruct Hh as [Hh|Hh].
  - rewrite (host_text_plain _ Hh). eapply forallb_imp; [|exact Hh]. intros c Hc. apply netloc_char_0, host_char_netloc, Hc.
  - destruct (valid_host6_inv _ Hh) as (-> & Hi & _). cbn [forallb]. rewrite forallb_app.
    rewrite (forallb_imp _ _ _ ip6_char_netloc0 Hi). reflexivity.
Qed.

Lemma hostport_no_at host port :
  host_ok host = true -> nochar 64 (clean_hostport host port) = true.
Proof.
  intros Hh. unfold clean_hostport. rewrite nochar_app, (port_part_no_at port), andb_true_r.
  unfold host_ok in Hh. apply orb_true_iff in Hh. destruct Hh as [Hh|Hh].
  - rewrite (host_text_plain _ Hh). exact (forallb_imp _ _ _ host_char_not_at Hh).
  - destruct (valid_host6_inv _ Hh) as (-> & Hi & _). rewrite nochar_cons, nochar_app. cbn [N.eqb negb andb].
    unfold nochar at 1. rewrite (forallb_imp _ _ _ ip6_char_not_at Hi). reflexivity.
Qed.

Lemma hostport_bracket_stage a host port :
  forallb netloc_char a = true -> host_ok host = true ->
  bracket_stage (a ++ clean_hostport host port) = true.
Proof.
  intros Ha Hh. unfold host_ok in Hh. apply orb_true_iff in Hh. destruct Hh as [Hh|Hh].
  - apply bracket_stage_plain. unfold clean_hostport. rewrite !forallb_app, Ha, (port_part_chars port).
    rewrite (host_text_plain _ Hh), (forallb_imp _ _ _ host_char_netloc Hh). reflexivity.
  - destruct (valid_host6_inv _ Hh) as (E & Hi & Hc). unfold clean_hostport. rewrite E.
    set (pp := port_part port).
    assert (Npp91 : nochar 91 pp = true) by exact (forallb_imp _ _ _ netloc_char_not_open (port_part_chars port)).
    assert (Npp93 : nochar 93 pp = true) by exact (forallb_imp _ _ _ netloc_char_not_close (port_part_chars port)).
    assert (Na91 : nochar 91 a = true) by exact (forallb_imp _ _ _ netloc_char_not_open Ha).
    assert (Nh93 : nochar 93 host = true) by exact (forallb_imp _ _ _ ip6_char_not_close Hi).
    replace (a ++ (91 :: host ++ [93]) ++ pp) with (a ++ 91 :: host ++ 93 :: pp)
      by (cbn [app]; rewrite <- app_assoc; reflexivity).
    unfold bracket_stage, bracketed_part.
    replace (chr_in 91 (a ++ 91 :: host ++ 93 :: pp)) with true
      by (rewrite chr_in_app; cbn [chr_in existsb N.eqb]; rewrite orb_true_r; reflexivity).
    replace (chr_in 93 (a ++ 91 :: host ++ 93 :: pp)) with true.
    2:{ rewrite chr_in_app. change (91 :: host ++ 93 :: pp) with ([91] ++ host ++ 93 :: pp).
        rewrite !chr_in_app. cbn [chr_in existsb N.eqb]. rewrite !orb_true_r. reflexivity. }
    cbn [andb negb orb]. rewrite (partition_at_app _ _ _ Na91), (partition_at_app _ _ _ Nh93). exact Hc.
Qed.

Lemma hostinfo_hostport host port :
  host_ok host = true -> hostinfo (clean_hostport host port) = (host, port_text port).
Proof.
  intros Hh. unfold clean_hostport, port_text. unfold host_ok in Hh. apply orb_true_iff in Hh. destruct Hh as [Hh|Hh].
  - rewrite (host_text_plain _ Hh).
    assert (H64 : nochar 64 host = true) by exact (forallb_imp _ _ _ host_char_not_at Hh).
    assert (H58 : nochar 58 host = true) by exact (forallb_imp _ _ _ host_char_not_colon Hh).
    assert (H91 : nochar 91 host = true) by exact (forallb_imp _ _ _ host_char_not_open Hh).
    destruct port as [z|]; cbn [port_part].
    + rewrite hostinfo_port; try assumption.
      * destruct (dec_of_Z z) eqn:E; [exfalso; exact (dec_of_Z_nonempty _ E)|reflexivity].
      * exact (forallb_imp _ _ _ digitm_not_at (dec_of_Z_chars z)).
      * exact (forallb_imp _ _ _ digitm_not_open (dec_of_Z_chars z)).
    + rewrite app_nil_r. apply hostinfo_plain; assumption.
  - destruct (valid_host6_inv _ Hh) as (-> & Hi & _).
    assert (H64 : nochar 64 host = true) by exact (forallb_imp _ _ _ ip6_char_not_at Hi).
    assert (H93 : nochar 93 host = true) by exact (forallb_imp _ _ _ ip6_char_not_close Hi).
    destruct port as [z|]; cbn [port_part].
    + replace ((91 :: host ++ [93]) ++ 58 :: dec_of_Z z) with (91 :: host ++ 93 :: 58 :: dec_of_Z z)
        by (cbn [app]; rewrite <- app_assoc; reflexivity).
      rewrite hostinfo_bracket_port; try assumption.
      * destruct (dec_of_Z z) eqn:E; [exfalso; exact (dec_of_Z_nonempty _ E)|reflexivity].
      * exact (forallb_imp _ _ _ digitm_not_at (dec_of_Z_chars z)).
    + rewrite app_nil_r. apply hostinfo_bracket; assumption.
Qed.

Lemma checked_port_hostinfo netloc host p : hostinfo netloc = (host, p) ->
  checked_port netloc = match p with
                        | None => ROk None
                        | Some t => match port_value t with
                                    | Some n => if (1 <=? n) && (n <=? 65535) then ROk (Some n) else RErr X_Value
                                    | None => RErr X_Value
                                    end
                        end.
Proof.
  intros H. unfold checked_port, port_of, port_value. rewrite H. cbn [snd]. destruct p as [t|]; [|reflexivity].
  destruct (digits_uint t) as [u|]; [|reflexivity]. cbv beta iota zeta.
  destruct (N.of_uint u <=? 65535) eqn:E; cbn [rbind]; rewrite ?E; [rewrite andb_true_r; reflexivity|].
  rewrite andb_false_r. reflexivity.
Qed.

Lemma port_value_Z z : port_value (dec_of_Z z) = match z with Zneg _ => None | _ => Some (Z.to_N z) end.
Proof.
  destruct z as [|p|p]; cbn [dec_of_Z Z.to_N].
  - reflexivity.
  - apply port_value_dec.
  - unfold port_value. rewrite digits_uint_minus. reflexivity.
Qed.

Lemma quote_cons_slash s : quote [47] (47 :: s) = 47 :: quote [47] s.
Proof. reflexivity. Qed.

Lemma unquote_path s : valid_text s = true -> unquote (47 :: quote [47] s) = 47 :: s.
Proof. intros Hv. rewrite <- quote_cons_slash. apply quote_unquote; [reflexivity|exact Hv]. Qed.

Lemma path_ok s : valid_text s = true -> forallb pathq_ok (quote [47] s) = true.
Proof. intros Hv. exact (forallb_imp _ _ _ path_char_ok (quote_slash_chars s Hv)). Qed.

(* the text the builder produces, in the shape of Proofs/UriSplit.v *)
Lemma clean_uri_shape name user pw host port db a :
  clean_auth user pw = ROk a -> valid_text (strip1 db) = true ->
  clean_uri name user pw host port db
  = ROk (name ++ 58 :: 47 :: 47 :: (a ++ clean_hostport host port) ++ 47 :: quote [47] (strip1 db)).
Proof.
  intros Ha Hd. unfold clean_uri. rewrite Ha. cbn [rbind]. rewrite Hd. cbn [app]. rewrite <- app_assoc. reflexivity.
Qed.

Lemma in_domain_inv name c :
  in_domain name c = true ->
  valid_scheme name = true /\ valid_text (c_user c) = true /\ valid_text (c_pw c) = true
  /\ valid_text (c_db c) = true /\ host_ok (c_host c) = true.
Proof. unfold in_domain, host_ok. rewrite !andb_true_iff. tauto. Qed.

(* what _parseURI answers on the text built from components, up to the port *)
Lemma parse_built name user pw host port db a :
  valid_scheme name = true -> valid_text db = true -> host_ok host = true ->
  clean_auth user pw = ROk a ->
  parse_uri false (name ++ 58 :: 47 :: 47 :: (a ++ clean_hostport host port) ++ 47 :: quote [47] (strip1 db))
  = (po <~ checked_port (clean_hostport host port) ;;
     ROk {| r_user := opt_ne user; r_pw := opt_ne pw; r_host := opt_ne (norm_host host);
            r_port := po; r_path := 47 :: strip1 db; r_args := [] |}).
Proof.
  intros Hs Hd Hh Ha. pose proof (strip1_valid _ Hd) as Hd'.
  pose proof (hostport_no_at host port Hh) as Hat.
  rewrite parse_uri_ok; [|exact Hs| |exact (hostport_bracket_stage _ _ port (auth_chars _ _ _ Ha) Hh)|apply path_ok, Hd'].
  2:{ rewrite forallb_app, (forallb_imp _ _ _ netloc_char_0 (auth_chars _ _ _ Ha)), (hostport_chars _ port Hh). reflexivity. }
  unfold checked_port at 1, port_of at 1. rewrite (auth_hostinfo _ _ _ _ Ha Hat).
  fold (port_of (clean_hostport host port)). fold (checked_port (clean_hostport host port)).
  destruct (checked_port (clean_hostport host port)) as [po|e|]; cbn [rbind]; try reflexivity.
  unfold parsed_of. destruct (auth_userinfo _ _ _ _ Ha Hat) as [Eu Ep]. rewrite Eu, Ep.
  rewrite (unquote_path _ Hd').
  rewrite (hostname_of host _ (port_text port)).
  - reflexivity.
  - rewrite (auth_hostinfo _ _ _ _ Ha Hat). apply hostinfo_hostport, Hh.
Qed.

(* ------------------------------------------------------------------ round trip *)
Theorem roundtrip_partial name c :
  in_domain name c = true -> port_in_range c = true -> guard c = true -> roundtrips name c.
Proof.
  intros Hd Hr Hg. destruct (in_domain_inv _ _ Hd) as (Hs & Hu & Hp & Hdb & Hh).
  unfold guard in Hg. rewrite !andb_true_iff in Hg. destruct Hg as [Hpu Hna].
  unfold pw_has_user in Hpu. destruct (auth_ok _ _ Hu Hp Hpu) as [a Ha].
  unfold roundtrips, build_comps. rewrite gen_uri_char.
  rewrite (clean_uri_shape _ _ _ _ _ _ _ Ha (strip1_valid _ Hdb)).
  eexists. split; [reflexivity|].
  rewrite (parse_built _ _ _ _ _ _ _ Hs Hdb Hh Ha).
  rewrite (checked_port_hostinfo _ _ _ (hostinfo_hostport _ (c_port c) Hh)).
  unfold expected, port_text, port_in_range, no_args in *.
  destruct (c_args c); [|discriminate].
  destruct (c_port c) as [z|]; [|reflexivity].
  rewrite port_value_Z. destruct z as [|p|p]; try (exfalso; lia).
  cbn [Z.to_N]. replace ((1 <=? N.pos p) && (N.pos p <=? 65535)) with true by lia. reflexivity.
Qed.

(* ------------------------------------------------------------------ bad ports, builder side *)
Definition rejected (name : str) (c : comps) : Prop :=
  forall u, build_comps name c = ROk u -> exists e, parse_uri false u = RErr e.

Theorem bad_port_build name c :
  in_domain name c = true -> port_in_range c = false -> rejected name c.
Proof.
  intros Hd Hr u Hb. destruct (in_domain_inv _ _ Hd) as (Hs & Hu & Hp & Hdb & Hh).
  unfold build_comps in Hb. rewrite gen_uri_char in Hb.
  destruct (clean_auth (c_user c) (c_pw c)) as [a|e|] eqn:Ha.
  2,3: unfold clean_uri in Hb; rewrite Ha in Hb; discriminate.
  rewrite (clean_uri_shape _ _ _ _ _ _ _ Ha (strip1_valid _ Hdb)) in Hb. injection Hb as <-.
  rewrite (parse_built _ _ _ _ _ _ _ Hs Hdb Hh Ha).
  rewrite (checked_port_hostinfo _ _ _ (hostinfo_hostport _ (c_port c) Hh)).
  unfold port_text, port_in_range in *.
  destruct (c_port c) as [z|]; [|discriminate].
  rewrite port_value_Z. destruct z as [|p|p].
  - eexists. reflexivity.
  - cbn [Z.to_N]. replace ((1 <=? N.pos p) && (N.pos p <=? 65535)) with false by lia. eexists. reflexivity.
  - eexists. reflexivity.
Qed.

(* ------------------------------------------------------------------ bad ports, parser side *)
Theorem bad_port_text_rejected nt name ui host ptxt tail :
  valid_scheme name = true ->
  match ui with Some a => forallb netloc_char a | None => true end = true ->
  valid_host host = true -> forallb port_char ptxt = true -> tail_ok tail = true ->
  ptxt <> [] -> port_text_in_range ptxt = false ->
  parse_uri nt (uri_with_port name ui host ptxt tail) = RErr X_Value.
Proof.
  intros Hs Hui Hh Hp Ht Hne Hr. unfold uri_with_port.
  assert (H64h : nochar 64 host = true) by exact (forallb_imp _ _ _ host_char_not_at Hh).
  assert (H58h : nochar 58 host = true) by exact (forallb_imp _ _ _ host_char_not_colon Hh).
  assert (H91h : nochar 91 host = true) by exact (forallb_imp _ _ _ host_char_not_open Hh).
  assert (H64p : nochar 64 ptxt = true) by exact (forallb_imp _ _ _ port_char_not_at Hp).
  assert (H91p : nochar 91 ptxt = true).
  { eapply forallb_imp; [|exact Hp]. intros c Hc. apply netloc_char_not_open, port_char_netloc, Hc. }
  assert (Hhp : nochar 64 (host ++ 58 :: ptxt) = true).
  { rewrite nochar_app, H64h, nochar_cons, H64p. reflexivity. }
  assert (Chp : forallb netloc_char (host ++ 58 :: ptxt) = true).
  { rewrite forallb_app, (forallb_imp _ _ _ host_char_netloc Hh). cbn [forallb].
    rewrite (forallb_imp _ _ _ port_char_netloc Hp). reflexivity. }
  assert (Hport : checked_port (host ++ 58 :: ptxt) = RErr X_Value).
  { rewrite (checked_port_hostinfo _ _ _ (hostinfo_port _ _ H64h H58h H64p H91h H91p)).
    destruct ptxt as [|p0 pt]; [congruence|]. cbn [is_nil].
    unfold port_text_in_range in *. destruct (port_value (p0 :: pt)) as [n|]; [|reflexivity].
    rewrite Hr. reflexivity. }
  pose (pre := match ui with Some a => a ++ [64] | None => [] end).
  match goal with
  | |- parse_uri nt ?x = _ =>
      assert (E : x = name ++ 58 :: 47 :: 47 :: (pre ++ host ++ 58 :: ptxt) ++ tail)
  end.
  { subst pre. cbn [app]. repeat (rewrite <- app_assoc; cbn [app]). reflexivity. }
  rewrite E.
  assert (Call : forallb netloc_char (pre ++ host ++ 58 :: ptxt) = true).
  { rewrite forallb_app, Chp, andb_true_r. subst pre. destruct ui as [a|]; [|reflexivity].
    rewrite forallb_app, Hui. reflexivity. }
  apply (parse_uri_err nt name (pre ++ host ++ 58 :: ptxt) tail X_Value);
    [exact Hs|exact (forallb_imp _ _ _ netloc_char_0 Call)|exact (bracket_stage_plain _ Call)|exact Ht|].
  subst pre. destruct ui as [a|]; [|exact Hport].
  rewrite <- app_assoc. cbn [app]. unfold checked_port. rewrite (port_of_after_at _ _ Hhp). exact Hport.
Qed.

(* ------------------------------------------------------------------ sqlite *)
Lemma sqlite_abs_uri rest :
  valid_text rest = true ->
  clean_sqlite_uri (47 :: rest)
  = ROk ([115; 113; 108; 105; 116; 101] ++ 58 :: 47 :: 47 :: [] ++ 47 :: quote [47] rest).
Proof.
  intros Hv. unfold clean_sqlite_uri, is_abs, memory_name, sqlite_prefix.
  cbn [str_eqb N.eqb andb]. change (valid_text (47 :: rest)) with (valid_text rest). rewrite Hv. reflexivity.
Qed.

Theorem sqlite_partial path :
  valid_text path = true -> is_abs path = true \/ path = memory_name ->
  path <> 47 :: memory_name -> sqlite_roundtrips path.
Proof.
  intros Hv Hc Hne. unfold sqlite_roundtrips. rewrite gen_sqlite_uri_char. destruct Hc as [Ha| ->].
  2:{ eexists. split; [reflexivity|]. vm_compute. reflexivity. }
  destruct path as [|d rest]; [discriminate|]. cbn [is_abs] in Ha. apply N.eqb_eq in Ha. subst d.
  change (valid_text (47 :: rest)) with (valid_text rest) in Hv.
  rewrite (sqlite_abs_uri _ Hv). eexists. split; [reflexivity|].
  unfold open_uri.
  change ([115; 113; 108; 105; 116; 101] ++ 58 :: 47 :: 47 :: [] ++ 47 :: quote [47] rest)
    with ([115; 113; 108; 105; 116; 101] ++ 58 :: (47 :: 47 :: [] ++ 47 :: quote [47] rest)) at 1.
  rewrite partition_at_app by reflexivity.
  change (str_eqb [115; 113; 108; 105; 116; 101] sqlite_scheme) with true. cbv iota.
  rewrite parse_uri_ok; [|reflexivity|reflexivity|reflexivity|apply path_ok, Hv].
  change (checked_port []) with (@ROk (option N) None). cbn [rbind].
  rewrite gen_sqlite_from_params_char. unfold clean_sqlite_from_params, parsed_of.
  change (hostname []) with (@None str). change (userinfo []) with (@None str, @None str).
  cbn [r_host r_port r_user r_pw r_path fst snd unquote_if_truthy].
  rewrite (unquote_path _ Hv). rewrite (str_eqb_neq _ _ Hne). reflexivity.
Qed.

(* ------------------------------------------------------------------ sequences of opens *)
(* every cached entry is what opening its URI alone gives *)
Definition cache_sound (nt : bool) (cache : list (str * str)) : Prop :=
  forall k v, In (k, v) cache -> open_uri nt k = ROk v.

Lemma cache_lookup_sound nt cache u fn :
  cache_sound nt cache -> cache_lookup u cache = Some fn -> open_uri nt u = ROk fn.
Proof.
  induction cache as [|[k v] r IH]; cbn [cache_lookup]; [discriminate|]. intros Hs.
  destruct (str_eqb k u) eqn:E.
  - intros H. injection H as <-. apply str_eqb_eq in E. subst. apply Hs. left. reflexivity.
  - apply IH. intros k' v' Hin. apply Hs. right. exact Hin.
Qed.

Lemma open_seq_independent nt uris : forall cache,
  cache_sound nt cache -> open_seq nt cache uris = map (open_uri nt) uris.
Proof.
  induction uris as [|u r IH]; intros cache Hs; cbn [open_seq map]; [reflexivity|].
  destruct (cache_lookup u cache) as [fn|] eqn:El.
  - rewrite (cache_lookup_sound _ _ _ _ Hs El), (IH _ Hs). reflexivity.
  - destruct (open_uri nt u) as [fn|e|] eqn:Eo; try (rewrite (IH _ Hs); reflexivity).
    rewrite IH; [reflexivity|]. intros k v [H|H]; [injection H as <- <-; exact Eo|exact (Hs _ _ H)].
Qed.

Theorem open_sequence nt uris : open_seq nt [] uris = map (open_uri nt) uris.
Proof. apply open_seq_independent. intros k v []. Qed.

(* whatever was opened before in the same process, the URI a sqlite connection
   reports for itself opens a connection with that connection's filename *)
Theorem sqlite_after_any_history path uris u :
  valid_text path = true -> is_abs path = true \/ path = memory_name ->
  path <> 47 :: memory_name -> sqlite_uri path = ROk u ->
  nth_error (open_seq false [] (uris ++ [u])) (length uris) = Some (ROk path).
Proof.
  intros Hv Hc Hne Hu. rewrite open_sequence, map_app, nth_error_app2 by (rewrite map_length; apply le_n).
  rewrite map_length, PeanoNat.Nat.sub_diag. cbn [map nth_error].
  destruct (sqlite_partial path Hv Hc Hne) as (u' & Hu' & Ho). rewrite Hu in Hu'. injection Hu' as <-.
  rewrite Ho. reflexivity.
Qed.
