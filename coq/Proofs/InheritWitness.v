(* C15: the unguarded statements are false in the model -- two witnesses
   (both confirmed on the real code, see findings/C15.json). *)
From Coq Require Import List ZArith Bool Lia.
From Model Require Import Inherit.
Import ListNotations.
Open Scope Z_scope.

Definition a111 : cargs := mkargs (Int 1) (Int 1) (Int 1) Omit.
Definition a221 : cargs := mkargs (Int 2) (Int 2) (Int 1) Omit.

(* W1: a cascade=False reference to the HB row; destroySelf deletes the HA row, then refuses *)
Definition w1_ops : list op := [Create KC a111 false; Ref 1; Destroy KA 1].
(* W2: inside a Transaction the second create fails at the HC level (duplicate z); HA and HB rows stay *)
Definition w2_ops : list op := [Create KC a111 false; Create KC a221 false].

Definition nesting_full : Prop := forall auto ops, nesting (run auto init ops).

Lemma w1_not_nesting : ~ nesting (run true init w1_ops).
Proof.
  intros [_ [H2 _]].
  destruct (H2 KB KA (mkrow 1 (Some 1) (Some KC)) eq_refl) as [r' [Hin _]].
  - vm_compute. left. reflexivity.
  - vm_compute in Hin. exact Hin.
Qed.

Lemma w2_not_nesting : ~ nesting (run false init w2_ops).
Proof.
  intros [_ [_ [H3 _]]].
  destruct (H3 KB (mkrow 2 (Some 2) (Some KC)) KC) as [_ [r' [Hin Hid]]].
  - vm_compute. right. left. reflexivity.
  - reflexivity.
  - vm_compute in Hin. destruct Hin as [<-|[]]. cbn in Hid. discriminate.
Qed.

Theorem nesting_refuted : ~ nesting_full.
Proof. intro H. exact (w1_not_nesting (H true w1_ops)). Qed.

Theorem nesting_refuted_restrict : exists ops, ~ nesting (run true init ops).
Proof. exists w1_ops. exact w1_not_nesting. Qed.
Theorem nesting_refuted_txn : exists ops, ~ nesting (run false init ops).
Proof. exists w2_ops. exact w2_not_nesting. Qed.
(* both witnesses are what `clean` excludes *)
Lemma w1_not_clean : clean true init w1_ops = false.
Proof. vm_compute. reflexivity. Qed.
Lemma w2_not_clean : clean false init w2_ops = false.
Proof. vm_compute. reflexivity. Qed.

Definition most_derived_full : Prop := forall auto ops id k e,
  In (id, k) (born (run auto init ops)) -> In e (chain k) ->
  exists ob, get_obj (run auto init ops) e id = inr ob /\ ocls ob = k.

Theorem most_derived_refuted : ~ most_derived_full.
Proof.
  intro H. destruct (H true w1_ops 1 KC KC) as [ob [Hg _]].
  - vm_compute. left. reflexivity.
  - cbn. auto.
  - vm_compute in Hg. discriminate.
Qed.

Definition destroy_all_levels_full : Prop := forall auto ops id k e,
  let s := run auto init ops in
  In (id, k) (born s) -> In e (chain k) ->
  (exists s', step auto s (Destroy e id) = (s', ROk) /\ forall l, has id (tab s' l) = false) \/
  (exists x, step auto s (Destroy e id) = (s, RErr x)).

Theorem destroy_all_levels_refuted : ~ destroy_all_levels_full.
Proof.
  intro H. destruct (H true [Create KC a111 false; Ref 1] 1 KC KA) as [[s' [Hs _]]|[x Hs]].
  - vm_compute. left. reflexivity.
  - cbn. auto.
  - vm_compute in Hs. inversion Hs.
  - vm_compute in Hs. inversion Hs.
Qed.

(* refused, yet the root row is gone while the rows below it stay *)
Theorem destroy_refused_partial_witness :
  exists s s' id, s = run true init [Create KC a111 false; Ref 1] /\
    step true s (Destroy KA id) = (s', RErr ERestrict) /\
    has id (tab s KA) = true /\ has id (tab s' KA) = false /\ has id (tab s' KB) = true /\ has id (tab s' KC) = true.
Proof. eexists. eexists. exists 1. split; [reflexivity|]. vm_compute. repeat split. Qed.

Definition failed_create_full : Prop := forall auto ops k a unk s' x,
  step auto (run auto init ops) (Create k a unk) = (s', RErr x) ->
  forall l, tab s' l = tab (run auto init ops) l.

Theorem failed_create_refuted : ~ failed_create_full.
Proof.
  intro H. assert (E := H false [Create KC a111 false] KC a221 false _ EDup eq_refl KA).
  vm_compute in E. discriminate.
Qed.

Definition select_full : Prop := forall auto ops k f, fvis k f = true ->
  exists objs n from, step auto (run auto init ops) (Select k f) = (run auto init ops, RObjs objs n from).

Theorem select_refuted : ~ select_full.
Proof.
  intro H. destruct (H false w2_ops KA FTrue eq_refl) as [objs [n [from E]]].
  vm_compute in E. inversion E.
Qed.
