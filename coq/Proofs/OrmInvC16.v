(* C16: a lazy-update object keeps showing its unwritten assignments -- on every
   state reachable by ANY history -- and a read of a column with a pending
   value returns that value. *)
From Coq Require Import List ZArith Bool Lia ZifyBool.
From Model Require Import Orm.
From Proofs Require Import OrmBase OrmHeap OrmSpec OrmLazy OrmInvLists OrmInvTables OrmInvDefs OrmInvCoh OrmInvOC OrmInvOps.
Import ListNotations.
Open Scope Z_scope.

(* the per-instance invariant: dirty <-> pending, only lazy classes have pending values, the pending set is a
   dict, and every pending value is shown (or the attribute is absent) *)
Definition P16 (i : inst) : Prop :=
  dirty_ok i /\ (is_lazy (i_k i) = false -> i_pending i = []) /\ NoDup (nkeys (i_pending i)) /\ pending_shown i.

Lemma pending_shown_nil i : i_pending i = [] -> pending_shown i.
Proof. intros E c v H. rewrite E in H. discriminate. Qed.

Lemma P16_clean (i : inst) : dirty_ok i -> i_pending i = [] -> P16 i.
Proof. intros Hd Hp. split; [exact Hd|]. split; [auto|]. split; [rewrite Hp; constructor|now apply pending_shown_nil]. Qed.

Lemma P16_blank k id : P16 (blank_inst k id).
Proof. apply P16_clean; reflexivity. Qed.

Notation H16 := (HI P16).

Lemma H16_heap s s' : heap s' = heap s -> H16 s -> H16 s'.
Proof. unfold HI. now intros ->. Qed.

Lemma H16_upd s o i' : H16 s -> (P16 (get_inst s o) -> P16 i') -> H16 (with_heap s (set_nth o i' (heap s))).
Proof.
  intros H Hi. unfold HI. cbn. apply Forall_set_nth; [exact H|]. apply Hi. apply HI_get_inst; [apply P16_blank|exact H].
Qed.

(* ------------------------------------------------------------------ what the rewrites of an instance do to P16 *)
Lemma P16_same_pv i i' :
  i_k i' = i_k i -> i_dirty i' = i_dirty i -> i_pending i' = i_pending i -> i_vals i' = i_vals i -> P16 i -> P16 i'.
Proof.
  intros Ek Ed Ep Ev (A & B & C & D). unfold P16, dirty_ok, has_pending, pending_shown in *. rewrite Ek, Ed, Ep, Ev. auto.
Qed.

(* fresh attribute values for an instance with nothing pending *)
Lemma P16_vals_nopending i vs : i_pending i = [] -> P16 i -> P16 (i_with_vals i vs).
Proof. intros Hp (A & _). apply P16_clean; [exact A|exact Hp]. Qed.

Lemma P16_setattr_lazy i c v :
  is_lazy (i_k i) = true -> P16 i ->
  P16 (set_val c v (i_with_pending (i_with_dirty i true) (nassoc_set c v (i_pending i)))).
Proof.
  intros Hl (A & B & C & D). split; [|split; [|split]].
  - unfold dirty_ok, has_pending. cbn. destruct (nassoc_set c v (i_pending i)) eqn:E; [|reflexivity].
    exfalso. eapply nassoc_set_nonempty; eauto.
  - cbn. congruence.
  - cbn. now apply NoDup_nassoc_set.
  - intros c' v' Hn. cbn in *. destruct (Nat.eq_dec c c') as [->|Hne].
    + rewrite nassoc_set_same in Hn. inversion Hn; subst.
      destruct (Nat.lt_ge_cases c' (length (i_vals i))) as [Hlt|Hge].
      * left. now apply nth_set_nth_same.
      * right. apply nth_overflow. now rewrite length_set_nth.
    + rewrite nassoc_set_other in Hn by exact Hne. rewrite nth_set_nth_other by exact Hne. exact (D c' v' Hn).
Qed.

Lemma P16_set_lazy i kw d :
  is_lazy (i_k i) = true -> NoDup (nkeys kw) -> (kw <> [] -> d = true) -> (kw = [] -> d = i_dirty i) -> P16 i ->
  P16 (i_with_dirty (i_with_pending (fold_left (fun i cv => set_val (fst cv) (snd cv) i) kw i)
                                    (pending_update kw (i_pending i))) d).
Proof.
  intros Hl Hnd Hd1 Hd0 (A & B & C & D).
  destruct (fold_set_val_fields kw i) as (Fd & Fp & Fk & _). cbn zeta in Fd, Fp, Fk.
  split; [|split; [|split]].
  - unfold dirty_ok, has_pending. cbn. destruct kw as [|kv kw'] eqn:Ekw.
    + cbn. rewrite (Hd0 eq_refl). exact A.
    + rewrite (Hd1 ltac:(discriminate)).
      destruct (pending_update (kv :: kw') (i_pending i)) eqn:E2; [|reflexivity].
      exfalso. eapply pending_update_nonempty; [|exact E2]. left. discriminate.
  - cbn. rewrite Fk. congruence.
  - cbn. now apply NoDup_pending_update.
  - intros c v Hn. cbn in *. rewrite fold_set_val_vals.
    rewrite nassoc_pending_update in Hn by exact Hnd.
    destruct (Nat.lt_ge_cases c (length (i_vals i))) as [Hlt|Hge].
    2:{ right. apply nth_overflow. now rewrite fold_set_nth_length. }
    rewrite (fold_set_nth_nth (fun c => nassoc c kw) kw (nodup_fun kw Hnd)) by exact Hlt.
    rewrite mem_nkeys_nassoc. destruct (nassoc c kw) as [w|]; [left; exact Hn|exact (D c v Hn)].
Qed.

(* a reload of a lazy instance overlays the pending values on the fetched row *)
Lemma P16_reload i r : P16 i -> P16 (i_with_vals i (row_vals (if is_lazy (i_k i) then apply_updates (i_pending i) r else r))).
Proof.
  intros (A & B & C & D). destruct (is_lazy (i_k i)) eqn:Hl.
  2:{ apply P16_clean; [exact A|exact (B eq_refl)]. }
  split; [exact A|]. split; [cbn; congruence|]. split; [exact C|].
  intros c v Hn. cbn in *. unfold row_vals.
  destruct (Nat.lt_ge_cases c (length r)) as [Hlt|Hge].
  - left. rewrite (nth_indep _ None (Some VNull)) by (rewrite map_length, length_apply_updates; exact Hlt).
    rewrite map_nth. f_equal.
    rewrite (apply_updates_nth (fun c => nassoc c (i_pending i)) (i_pending i) (nodup_fun _ C)) by exact Hlt.
    rewrite mem_nkeys_nassoc, Hn. reflexivity.
  - right. apply nth_overflow. rewrite map_length, length_apply_updates. exact Hge.
Qed.

(* expire drops every cached attribute *)
Lemma nth_all_none16 (l : list (option val)) c : nth c (map (fun _ => @None val) l) None = None.
Proof. revert c. induction l as [|x l IH]; intros [|c]; cbn; auto. Qed.

Lemma P16_all_none i : P16 i -> P16 (i_with_vals i (map (fun _ => None) (i_vals i))).
Proof.
  intros (A & B & C & D). split; [exact A|]. split; [exact B|]. split; [exact C|].
  intros c v Hn. right. cbn. apply nth_all_none16.
Qed.

Lemma P16_eager_fold i kw :
  is_lazy (i_k i) = false -> P16 i -> P16 (fold_left (fun i cv => set_val (fst cv) (snd cv) i) kw i).
Proof.
  intros Hl (A & B & _). destruct (fold_set_val_fields kw i) as (Fd & Fp & _). cbn zeta in Fd, Fp.
  apply P16_clean; [unfold dirty_ok, has_pending in *; rewrite Fd, Fp; exact A|rewrite Fp; exact (B Hl)].
Qed.

(* ------------------------------------------------------------------ the walk through the model *)
Local Hint Resolve P16_blank : kp.
Definition kui16 := keeps_upd_inst P16 P16_blank.
Ltac upd16 := apply kui16; intros ? Hok; apply (P16_same_pv _ _ eq_refl eq_refl eq_refl eq_refl Hok).

Section WithConfig.
Variable cfg : config.

Lemma k16_db_select_one k id cols : keeps H16 (db_select_one k id cols).
Proof. unfold db_select_one. kp. Qed.
Lemma k16_db_update k id upd : keeps H16 (db_update k id upd).
Proof. unfold db_update. kp. Qed.
Lemma k16_db_insert k vals : keeps H16 (db_insert k vals).
Proof. unfold db_insert. kp. Qed.
Lemma k16_db_delete k id : keeps H16 (db_delete k id).
Proof. unfold db_delete. kp. Qed.
Local Hint Resolve k16_db_select_one k16_db_update k16_db_insert k16_db_delete : kp.

Lemma k16_ensure_factory k : keeps H16 (ensure_factory k).
Proof. unfold ensure_factory. kp. Qed.
Lemma k16_cull k roots : keeps H16 (cull cfg k roots).
Proof. unfold cull. kp. Qed.
Local Hint Resolve k16_ensure_factory k16_cull : kp.
Lemma k16_cull_tick k roots : keeps H16 (cull_tick cfg k roots).
Proof. unfold cull_tick. kp. Qed.
Local Hint Resolve k16_cull_tick : kp.
Lemma k16_cache_get k id roots : keeps H16 (cache_get cfg k id roots).
Proof. unfold cache_get. kp. Qed.
Lemma k16_cache_put k id o : keeps H16 (cache_put cfg k id o).
Proof. unfold cache_put. kp. Qed.
Lemma k16_cache_created k id o : keeps H16 (cache_created cfg k id o).
Proof. unfold cache_created. kp. Qed.
Lemma k16_cache_expire k id : keeps H16 (cache_expire cfg k id).
Proof. unfold cache_expire. kp. Qed.
Lemma k16_cache_purge k id : keeps H16 (cache_purge k id).
Proof. unfold cache_purge. kp. Qed.
Lemma k16_cache_try_get k id roots : keeps H16 (cache_try_get cfg k id roots).
Proof. unfold cache_try_get. kp. Qed.
Local Hint Resolve k16_cache_get k16_cache_put k16_cache_created k16_cache_expire k16_cache_purge k16_cache_try_get : kp.

Lemma k16_upd_expired o b : keeps H16 (upd_inst o (fun i => i_with_expired i b)).
Proof. upd16. Qed.
Lemma k16_upd_obsolete o b : keeps H16 (upd_inst o (fun i => i_with_obsolete i b)).
Proof. upd16. Qed.
Lemma k16_upd_clean o : keeps H16 (upd_inst o (fun i => i_with_pending (i_with_dirty i false) [])).
Proof. apply kui16. intros i (A & _). apply P16_clean; reflexivity. Qed.
Lemma k16_upd_clean_cv o b : keeps H16 (upd_inst o (fun i => i_with_cv (i_with_dirty (i_with_pending i []) false) b)).
Proof. apply kui16. intros i (A & _). apply P16_clean; reflexivity. Qed.
Local Hint Resolve k16_upd_expired k16_upd_obsolete k16_upd_clean k16_upd_clean_cv : kp.

(* select_init on an instance with nothing pending *)
Lemma select_init_16 o r s : H16 s -> i_pending (get_inst s o) = [] -> H16 (snd (select_init o r s)).
Proof. intros H Hp. unfold select_init, upd_inst, modify. cbn. apply H16_upd; [exact H|]. now apply P16_vals_nopending. Qed.

Lemma k16_so_get k id sel roots : keeps H16 (so_get cfg k id sel roots).
Proof.
  intros s Hs. unfold so_get. unfold bind at 1.
  pose proof (k16_cache_get k id roots s Hs) as Hg.
  destruct (cache_get cfg k id roots s) as [[hit|e] s1]; [|exact Hg].
  destruct hit as [o|].
  - destruct sel as [r|]; [|exact Hg].
    unfold bind at 1, gets. cbn [fst snd].
    destruct (i_dirty (get_inst s1 o)) eqn:Hd; [exact Hg|].
    assert (Hp : i_pending (get_inst s1 o) = []).
    { destruct (HI_get_inst P16 P16_blank s1 o Hg) as (A & _). unfold dirty_ok, has_pending in A. rewrite Hd in A.
      destruct (i_pending (get_inst s1 o)); [reflexivity|discriminate]. }
    unfold bind at 1. pose proof (select_init_16 o r s1 Hg Hp) as H2.
    destruct (select_init o r s1) as [[[]|e] s2] eqn:E; [|discriminate E]. cbn in H2.
    apply (keeps_bind H16 _ (fun _ => ret o)); [apply k16_upd_expired|intros; apply keeps_ret|exact H2].
  - unfold bind at 1, new_inst. cbn [fst snd].
    set (o := length (heap s1)). set (s2 := with_heap s1 _).
    assert (H2 : H16 s2) by (unfold HI, s2; cbn; apply Forall_app; split; [exact Hg|constructor; [apply P16_blank|constructor]]).
    assert (G2 : forall s', heap s' = heap s2 -> i_pending (get_inst s' o) = []).
    { intros s' E. unfold get_inst. rewrite E. unfold s2, o. cbn. rewrite nth_middle. reflexivity. }
    assert (Hfill : forall r s', H16 s' -> heap s' = heap s2 ->
              match (select_init o r ;;; cache_put cfg k id o ;;; ret o) s' with (Ret _, s3) => H16 s3 | (Raise _, s3) => H16 s3 end).
    { intros r s' H' E'. unfold bind at 1. pose proof (select_init_16 o r s' H' (G2 s' E')) as H3.
      destruct (select_init o r s') as [[[]|e] s3] eqn:E; [|discriminate E]. cbn in H3.
      apply (keeps_bind H16 _ (fun _ => ret o)); [apply k16_cache_put|intros; apply keeps_ret|exact H3]. }
    destruct sel as [r|]; [exact (Hfill r s2 H2 eq_refl)|].
    unfold bind at 1. destruct (db_select_one_run k id all_cols s2) as (l' & [Ed|Ed]); rewrite Ed; [|exact H2].
    destruct (assoc id (t_rows (tbl s2 k))) as [r|]; [|exact H2].
    exact (Hfill r (with_log s2 l') H2 eq_refl).
Qed.
Local Hint Resolve k16_so_get : kp.

Lemma k16_validate v : keeps H16 (validate v).
Proof. unfold validate. kp. Qed.
Local Hint Resolve k16_validate : kp.
Lemma k16_validate_all kvs : keeps H16 (validate_all kvs).
Proof. induction kvs as [|[c v] r IH]; cbn [validate_all]; kp. Qed.
Local Hint Resolve k16_validate_all : kp.

(* a state change that leaves the heap alone, then a rewrite of o that is fine for the instance as it is now *)
Lemma after_same_heap {A} (m1 : M A) o (f : inst -> inst) s :
  H16 s -> heap (snd (m1 s)) = heap s ->
  (P16 (get_inst s o) -> P16 (f (get_inst s o))) ->
  match (m1 ;;; upd_inst o f) s with (Ret _, s') => H16 s' | (Raise _, s') => H16 s' end.
Proof.
  intros H Hh Hf. unfold bind. destruct (m1 s) as [[a|e] s1]; cbn in Hh.
  - unfold upd_inst, modify. apply H16_upd; [apply (H16_heap s s1 Hh H)|].
    unfold get_inst. rewrite Hh. exact Hf.
  - apply (H16_heap s s1 Hh H).
Qed.

Lemma db_update_heap16 k id upd s : heap (snd (db_update k id upd s)) = heap s.
Proof.
  destruct (db_update_run k id upd s) as (l' & [(e & E)|[(_ & E)|(r & _ & E)]]); rewrite E; reflexivity.
Qed.

Lemma k16_so_setattr o c v : keeps H16 (so_setattr o c v).
Proof.
  intros s Hs. unfold so_setattr. unfold bind at 1, gets. cbn [fst snd].
  set (i := get_inst s o).
  unfold bind at 1. destruct v; cbn [validate]; try exact Hs; unfold ret at 1.
  all: destruct (is_lazy (i_k i)) eqn:Hl;
    [unfold upd_inst, modify; apply H16_upd; [exact Hs|intros Hi; now apply P16_setattr_lazy]|].
  all: destruct (cache_values (i_k i) && negb (i_expired i));
    [apply after_same_heap; [exact Hs|apply db_update_heap16|intros Hi; apply (P16_eager_fold _ [(c, _)] Hl Hi)]|].
  all: apply (keeps_bind H16 _ (fun _ => ret tt)); [apply k16_db_update|intros; apply keeps_ret|exact Hs].
Qed.

Lemma k16_so_set o kvs : keeps H16 (so_set o kvs).
Proof.
  intros s Hs. unfold so_set. unfold bind at 1, gets. cbn [fst snd].
  set (i := get_inst s o). pose proof (NoDup_set_kw kvs) as Hnd.
  set (kw := filter (fun cv : nat * val => is_col (fst cv)) (as_dict kvs)) in *.
  unfold bind at 1. destruct (is_lazy (i_k i) && existsb _ kvs); [exact Hs|]. unfold ret at 1.
  unfold bind at 1. destruct (validate_all_run kw s) as [Ev|Ev]; rewrite Ev; [|exact Hs].
  unfold bind at 1. destruct (run_extras (as_dict kvs)); [exact Hs|]. unfold ret at 1.
  destruct (is_lazy (i_k i)) eqn:Hl.
  - unfold upd_inst, modify. apply H16_upd; [exact Hs|intros Hi]. apply P16_set_lazy; auto.
    + intros Hne. destruct kw; [congruence|reflexivity].
    + intros ->. reflexivity.
  - destruct (cache_values (i_k i) && negb (i_expired i)).
    + apply after_same_heap; [exact Hs| |intros Hi; now apply P16_eager_fold].
      destruct kw; [reflexivity|apply db_update_heap16].
    + apply (keeps_bind H16 _ (fun _ => ret tt)); [destruct kw; [apply keeps_ret|apply k16_db_update]|intros; apply keeps_ret|exact Hs].
Qed.

Lemma k16_so_sync_update o : keeps H16 (so_sync_update o).
Proof. unfold so_sync_update. kp. Qed.
Local Hint Resolve k16_so_setattr k16_so_set k16_so_sync_update : kp.

(* after a successful flush nothing is pending *)
Lemma sync_update_clears o s u s1 :
  so_sync_update o s = (Ret u, s1) -> (o < length (heap s))%nat \/ i_pending (get_inst s o) = [] -> i_pending (get_inst s1 o) = [].
Proof.
  unfold so_sync_update. unfold bind at 1, gets. cbn [fst snd]. intros E Hb.
  destruct (negb (i_cv (get_inst s o))); [discriminate|].
  destruct (i_pending (get_inst s o)) as [|p0 ps] eqn:Ep; [inversion E; subst; exact Ep|].
  destruct Hb as [Hlt|Hb]; [|discriminate].
  unfold bind in E.
  match type of E with context [db_update ?k ?id ?u ?st] => pose proof (db_update_heap16 k id u st) as Eh; destruct (db_update k id u st) as [[u1|e1] s2] end; [|discriminate].
  cbn in Eh. unfold upd_inst, modify in E. inversion E; subst s1. unfold get_inst. cbn. rewrite nth_set_nth_same by (rewrite Eh; exact Hlt). reflexivity.
Qed.

Lemma k16_so_sync o : keeps H16 (so_sync o).
Proof.
  intros s Hs. unfold so_sync. unfold bind at 1, gets. cbn [fst snd].
  set (i := get_inst s o).
  destruct (HI_get_inst P16 P16_blank s o Hs) as (A & B & _). fold i in A, B.
  unfold bind at 1.
  assert (Hfl : match (if is_lazy (i_k i) then match i_pending i with [] => ret tt | _ => so_sync_update o end else ret tt) s with
                | (Ret _, s1) => H16 s1 /\ i_pending (get_inst s1 o) = []
                | (Raise _, s1) => H16 s1
                end).
  { destruct (is_lazy (i_k i)) eqn:Hl; [|split; [exact Hs|exact (B eq_refl)]].
    destruct (i_pending i) eqn:Ep; [split; [exact Hs|exact Ep]|].
    pose proof (k16_so_sync_update o s Hs) as K. destruct (so_sync_update o s) as [[u|e] s1] eqn:E; [|exact K].
    split; [exact K|]. apply (sync_update_clears o s u s1 E).
    destruct (Nat.lt_ge_cases o (length (heap s))) as [Hlt|Hge]; [left; exact Hlt|right].
    unfold get_inst. rewrite nth_overflow by exact Hge. reflexivity. }
  destruct ((if is_lazy (i_k i) then match i_pending i with [] => ret tt | _ => so_sync_update o end else ret tt) s) as [[u|e] s1]; [|exact Hfl].
  destruct Hfl as (H1 & Hp1).
  unfold bind at 1. destruct (db_select_one_run (i_k i) (i_id i) all_cols s1) as (l' & [Ed|Ed]); rewrite Ed; [|exact H1].
  destruct (assoc (i_id i) (t_rows (tbl s1 (i_k i)))) as [r|]; [|exact H1].
  unfold bind at 1. pose proof (select_init_16 o r (with_log s1 l') H1 Hp1) as H3.
  destruct (select_init o r (with_log s1 l')) as [[[]|e] s3] eqn:E; [|discriminate E]. cbn in H3.
  exact (k16_upd_expired o false s3 H3).
Qed.

Lemma k16_so_expire o : keeps H16 (so_expire cfg o).
Proof.
  unfold so_expire. kp. apply kui16. intros i Hi. now apply P16_all_none.
Qed.

Lemma k16_so_read o c : keeps H16 (so_read o c).
Proof.
  intros s Hs. unfold so_read. unfold bind at 1, gets. cbn [fst snd].
  set (i := get_inst s o).
  destruct (cache_values (i_k i)).
  - destruct (nth c (i_vals i) None); [exact Hs|].
    unfold bind at 1, upd_inst, modify. cbn [fst snd]. fold i.
    set (s1 := with_heap s _).
    assert (H1 : H16 s1) by (apply H16_upd; [exact Hs|intros Hi; apply (P16_same_pv _ _ eq_refl eq_refl eq_refl eq_refl Hi)]).
    unfold bind at 1. destruct (db_select_one_run (i_k i) (i_id i) all_cols s1) as (l' & [Ed|Ed]); rewrite Ed; [|exact H1].
    destruct (assoc (i_id i) (t_rows (tbl s1 (i_k i)))) as [r|]; [|exact H1].
    unfold bind, select_init, upd_inst, modify, ret. cbn [fst snd].
    apply H16_upd; [exact H1|]. intros Hi1.
    (* the instance now is i with the expired flag cleared *)
    destruct (Nat.lt_ge_cases o (length (heap s))) as [Hlt|Hge].
    + assert (G : get_inst (with_log s1 l') o = i_with_expired i false) by (unfold get_inst, s1; cbn; now apply nth_set_nth_same).
      rewrite G. rewrite G in Hi1. exact (P16_reload (i_with_expired i false) r Hi1).
    + assert (G : get_inst (with_log s1 l') o = i).
      { unfold get_inst, s1, i, get_inst. cbn. rewrite !nth_overflow; [reflexivity|exact Hge|rewrite length_set_nth; exact Hge]. }
      rewrite G. rewrite G in Hi1. exact (P16_reload i r Hi1).
  - destruct (i_obsolete i); [exact Hs|].
    apply (keeps_bind H16 _ (fun r => match r with None => raise EAssertion | Some r => ret (nth c r VNull) end));
      [apply k16_db_select_one|intros [r|]; [apply keeps_ret|apply keeps_raise]|exact Hs].
Qed.

Lemma k16_so_destroy o : keeps H16 (so_destroy o).
Proof. unfold so_destroy. kp. Qed.
Local Hint Resolve k16_so_sync k16_so_expire k16_so_read k16_so_destroy : kp.

Lemma set_nth_last16 {X} (l : list X) x y : set_nth (length l) x (l ++ [y]) = l ++ [x].
Proof. induction l as [|z l IH]; cbn; [reflexivity|now rewrite IH]. Qed.

Lemma k16_so_create k kvs : keeps H16 (so_create cfg k kvs).
Proof.
  intros s Hs. unfold so_create.
  destruct (fill_defaults all_cols (as_dict kvs)) as [kw|]; [|exact Hs].
  unfold bind at 1. destruct (validate_all_run kw s) as [Ev|Ev]; rewrite Ev; [|exact Hs].
  unfold bind at 1. pose proof (k16_db_insert k (sorted_pending kw) s Hs) as Hi.
  destruct (db_insert k (sorted_pending kw) s) as [[id|e] s1]; [|exact Hi].
  unfold bind at 1, new_inst. cbn [fst snd].
  set (o := length (heap s1)). set (s2 := with_heap s1 _).
  unfold bind at 1, upd_inst, modify. cbn [fst snd].
  set (i1 := i_with_cv _ _). set (s3 := with_heap s2 _).
  assert (Eh3 : heap s3 = heap s1 ++ [i1]).
  { unfold s3, s2, o. cbn. apply set_nth_last16. }
  assert (Hp1 : i_pending i1 = [] /\ dirty_ok i1).
  { assert (G : get_inst s2 o = blank_inst k 0) by (unfold get_inst, s2, o; cbn; apply nth_middle).
    unfold i1. rewrite G. destruct (fold_set_val_fields kw (blank_inst k 0)) as (Fd & Fp & _). cbn zeta in Fd, Fp.
    unfold dirty_ok, has_pending. cbn [i_dirty i_pending i_with_cv i_with_id]. rewrite Fd, Fp. split; reflexivity. }
  assert (H3 : H16 s3).
  { unfold HI. rewrite Eh3. apply Forall_app. split; [exact Hi|constructor; [|constructor]]. apply P16_clean; tauto. }
  unfold bind at 1. destruct (oc_cache_created cfg k id o s3) as ([] & c' & Ec). rewrite Ec.
  set (s4 := with_caches s3 c').
  assert (H4 : H16 s4) by exact H3.
  assert (G4 : forall l, i_pending (get_inst (with_log s4 l) o) = []).
  { intros l. unfold get_inst. change (heap (with_log s4 l)) with (heap s3). rewrite Eh3. unfold o. rewrite nth_middle. tauto. }
  unfold bind at 1. destruct (db_select_one_run k id all_cols s4) as (l' & [Ed|Ed]); rewrite Ed; [|exact H4].
  destruct (assoc id (t_rows (tbl s4 k))) as [r|]; [|exact H4].
  unfold bind at 1. pose proof (select_init_16 o r (with_log s4 l') H4 (G4 l')) as H5.
  destruct (select_init o r (with_log s4 l')) as [[[]|e] s5] eqn:E; [|discriminate E]. cbn in H5.
  apply (keeps_bind H16 _ (fun _ => ret o)); [apply k16_upd_clean_cv|intros; apply keeps_ret|exact H5].
Qed.

Lemma k16_so_pickle o : keeps H16 (so_pickle o).
Proof. unfold so_pickle. kp. intros s Hs. exact Hs. Qed.

Lemma k16_so_unpickle p : keeps H16 (so_unpickle cfg p).
Proof. unfold so_unpickle. kp. apply keeps_new_inst. apply P16_clean; reflexivity. Qed.
Local Hint Resolve k16_so_create k16_so_pickle k16_so_unpickle : kp.

Lemma k16_fold_expire items : forall m, keeps H16 m -> keeps H16 (fold_left (fun m o => m ;;; so_expire cfg o) items m).
Proof. induction items as [|o r IH]; intros m Hm; cbn [fold_left]; [exact Hm|]. apply IH. kp. Qed.
Lemma k16_so_expire_all k : keeps H16 (so_expire_all cfg k).
Proof. unfold so_expire_all. kp. apply k16_fold_expire. kp. Qed.
Local Hint Resolve k16_so_expire_all : kp.

Lemma k16_slots f : keeps H16 (modify (fun s => with_slots s (f s))).
Proof. apply keeps_modify. intros s Hs. exact Hs. Qed.
Lemma k16_caches f : keeps H16 (modify (fun s => with_caches s (f s))).
Proof. apply keeps_modify. intros s Hs. exact Hs. Qed.
Lemma k16_fault f : keeps H16 (modify (fun s => with_fault s f)).
Proof. apply keeps_modify. intros s Hs. exact Hs. Qed.
Local Hint Resolve k16_slots k16_caches k16_fault : kp.

Lemma k16_hold o : keeps H16 (hold o).
Proof. unfold hold. kp. Qed.
Local Hint Resolve k16_hold : kp.
Lemma k16_hold_or_none m : keeps H16 m -> keeps H16 (hold_or_none m).
Proof.
  intros Hm s Hs. unfold hold_or_none. specialize (Hm s Hs).
  destruct (m s) as [[o|e] s']; [|exact Hm]. apply (k16_hold o s' Hm).
Qed.
Lemma k16_or_empty_slot {A} b (m : M A) : keeps H16 m -> keeps H16 (or_empty_slot b m).
Proof.
  intros Hm s Hs. unfold or_empty_slot. specialize (Hm s Hs).
  destruct (m s) as [[o|e] s']; [exact Hm|]. destruct b; exact Hm.
Qed.
Lemma k16_handle h : keeps H16 (handle h).
Proof. unfold handle. kp. Qed.
Local Hint Resolve k16_handle : kp.
Lemma k16_select_rows k rows : forall acc, keeps H16 (select_rows cfg k rows acc).
Proof. induction rows as [|[id r] rest IH]; intros acc; cbn [select_rows]; kp. Qed.
Local Hint Resolve k16_select_rows : kp.

(* EVERY operation: expire, expireAll, clear, raw SQL and injected faults included *)
Lemma k16_run_op fuel : forall o, keeps H16 (run_op cfg fuel o).
Proof.
  induction fuel as [|f IH]; intros o; destruct o; cbn [run_op];
    try (apply k16_hold_or_none); try (apply k16_or_empty_slot); kp;
    try (exact (k16_slots _)); try (exact (k16_caches _)).
Qed.

Theorem step_keeps_P16 s o : H16 s -> H16 (snd (step cfg s o)).
Proof.
  intros Hs. unfold step. pose proof (k16_run_op 2 o (with_fault (with_log s []) None)) as H.
  specialize (H Hs). destruct (run_op cfg 2 o _) as [[a|e] s']; exact H.
Qed.

Theorem reachable_P16 ops : H16 (run cfg ops).
Proof.
  unfold run. assert (H : H16 init) by constructor.
  revert H. generalize init. induction ops as [|o r IH]; intros s Hs; cbn [fold_left]; [exact Hs|].
  apply IH. now apply step_keeps_P16.
Qed.

End WithConfig.

(* ------------------------------------------------------------------ (a) on every reachable state *)
Theorem C16_pending_shown_proof : C16_pending_shown_stmt.
Proof.
  intros cfg ops o _ s _ _.
  destruct (HI_get_inst P16 P16_blank s o (reachable_P16 cfg ops)) as (_ & _ & _ & D). exact D.
Qed.

(* not only the held instances of cacheValues classes: every instance on the heap *)
Theorem C16_pending_shown_all cfg ops o : P16 (get_inst (run cfg ops) o).
Proof. exact (HI_get_inst P16 P16_blank _ o (reachable_P16 cfg ops)). Qed.

(* ------------------------------------------------------------------ (b) one step from any state *)
Lemma shown_reload i r :
  NoDup (nkeys (i_pending i)) -> pending_shown (i_with_vals i (row_vals (apply_updates (i_pending i) r))).
Proof.
  intros C c v Hn. cbn in *. unfold row_vals.
  destruct (Nat.lt_ge_cases c (length r)) as [Hlt|Hge].
  - left. rewrite (nth_indep _ None (Some VNull)) by (rewrite map_length, length_apply_updates; exact Hlt).
    rewrite map_nth. f_equal.
    rewrite (apply_updates_nth (fun c => nassoc c (i_pending i)) (i_pending i) (nodup_fun _ C)) by exact Hlt.
    rewrite mem_nkeys_nassoc, Hn. reflexivity.
  - right. apply nth_overflow. rewrite map_length, length_apply_updates. exact Hge.
Qed.

Arguments get_inst : simpl never.
Arguments tbl : simpl never.
Arguments apply_updates : simpl never.

(* the complete description of the step *)
Lemma read_pending_step cfg s h o c v r s' :
  nth h (slots s) None = Some o -> (o < length (heap s))%nat ->
  is_lazy (i_k (get_inst s o)) = true -> pending_shown (get_inst s o) ->
  NoDup (map fst (i_pending (get_inst s o))) ->
  (forall row, assoc (i_id (get_inst s o)) (t_rows (tbl s (i_k (get_inst s o)))) = Some row -> length row = 3%nat) ->
  nassoc c (i_pending (get_inst s o)) = Some v -> (c < 3)%nat ->
  step cfg s (ORead h c) = (r, s') ->
  (r = Ret (RVal v) \/ (r = Raise ENotFound /\ assoc (i_id (get_inst s o)) (t_rows (tbl s (i_k (get_inst s o)))) = None)) /\
  pending_shown (get_inst s' o) /\ i_pending (get_inst s' o) = i_pending (get_inst s o) /\ tables s' = tables s.
Proof.
  intros Hh Hlt Hl D C Hrow Hn Hc H.
  set (i := get_inst s o) in *.
  assert (Hcv : cache_values (i_k i) = true) by (destruct (i_k i); cbn in *; congruence).
  unfold step in H. cbn [run_op] in H.
  unfold bind, handle, gets in H. cbn in H. rewrite Hh in H. cbn in H.
  unfold so_read, bind, gets in H. cbn in H.
  change (get_inst (with_fault (with_log s []) None) o) with i in H.
  rewrite Hcv in H.
  destruct (nth c (i_vals i) None) as [v0|] eqn:En.
  - cbn in H. inversion H; subst r s'. clear H.
    change (get_inst (with_fault (with_log s []) None) o) with i.
    destruct (D c v Hn) as [E|E]; [|congruence]. assert (v0 = v) by congruence. subst v0.
    split; [left; reflexivity|]. split; [exact D|]. split; reflexivity.
  - cbn in H. unfold db_select_one, bind, statement, gets in H. cbn in H.
    change (tbl (with_log (with_heap (with_fault (with_log s []) None) _) _) (i_k i)) with (tbl s (i_k i)) in H.
    destruct (assoc (i_id i) (t_rows (tbl s (i_k i)))) as [row|] eqn:Erow.
    + cbn in H. rewrite Hl in H. inversion H; subst r s'. clear H.
      specialize (Hrow row eq_refl).
      split; [left|].
      { f_equal. f_equal.
        rewrite (apply_updates_nth (fun c => nassoc c (i_pending i)) (i_pending i) (nodup_fun _ C)) by lia.
        rewrite mem_nkeys_nassoc, Hn. reflexivity. }
      unfold get_inst. cbn. rewrite nth_set_nth_same by (rewrite length_set_nth; exact Hlt). cbn.
      rewrite nth_set_nth_same by exact Hlt.
      split; [|split; reflexivity].
      exact (shown_reload (i_with_expired (nth o (heap s) (blank_inst Eager 0)) false) row C).
    + cbn in H. inversion H; subst r s'. clear H.
      split; [right; split; reflexivity|].
      unfold get_inst. cbn. rewrite nth_set_nth_same by exact Hlt. split; [exact D|split; reflexivity].
Qed.

Theorem C16_read_returns_pending_proof : C16_read_returns_pending_stmt.
Proof.
  intros cfg s h o c v r s' Hh Hlt Hl D C Hrow Hn Hc H.
  destruct (read_pending_step cfg s h o c v r s' Hh Hlt Hl D C Hrow Hn Hc H) as ([E|(E & _)] & R); (split; [|exact R]); [left; exact E|right; eauto].
Qed.

Theorem C16_read_returns_pending_present_proof : C16_read_returns_pending_present_stmt.
Proof.
  intros cfg s h o c v r s' Hh Hlt Hl D C Hrow Hn Hc Hpres H.
  destruct (read_pending_step cfg s h o c v r s' Hh Hlt Hl D C Hrow Hn Hc H) as ([E|(_ & E)] & _); [exact E|contradiction].
Qed.

Theorem C16_read_returns_pending_reachable_proof : C16_read_returns_pending_reachable_stmt.
Proof.
  intros cfg ops h o c v r s' s Hh Hl Hn Hc H.
  assert (Hlt : (o < length (heap s))%nat).
  { destruct (Nat.lt_ge_cases o (length (heap s))) as [Hlt|Hge]; [exact Hlt|exfalso].
    unfold get_inst in Hl. rewrite nth_overflow in Hl by exact Hge. discriminate. }
  destruct (C16_pending_shown_all cfg ops o) as (_ & _ & C & D). fold s in C, D.
  assert (Hrow : forall row, assoc (i_id (get_inst s o)) (t_rows (tbl s (i_k (get_inst s o)))) = Some row -> length row = 3%nat).
  { intros row E. apply assoc_In in E. destruct (reachable_TI cfg ops (i_k (get_inst s o))) as (T & _). exact (proj2 (T _ _ E)). }
  destruct (read_pending_step cfg s h o c v r s' Hh Hlt Hl D C Hrow Hn Hc H) as (E & R).
  split; [destruct E as [E|(E & _)]; auto|]. split; [|exact R].
  intros Hpres. destruct E as [E|(_ & E)]; [exact E|contradiction].
Qed.

(* ------------------------------------------------------------------ non-vacuity: the witness of the former finding *)
Definition cfg16 : config := {| doCache := true; cullFreq := 100; cullFrac := 2 |}.
Definition hist16 : list op := [OCreate Lazy [(1%nat, VInt 1)]; OExpire 0; OSetAttr 0 0 (VInt 3); ORead 0 2].

Example C16_hist16_state :
  let s := run cfg16 hist16 in
  held s 0%nat /\ i_pending (get_inst s 0) = [(0%nat, VInt 3)] /\
  i_vals (get_inst s 0) = [Some (VInt 3); Some (VInt 1); Some (VInt 0)] /\
  t_rows (tbl s Lazy) = [(1, [VNull; VInt 1; VInt 0])].
Proof. vm_compute. repeat split; auto. Qed.

Example C16_hist16_read : fst (step cfg16 (run cfg16 hist16) (ORead 0 0)) = Ret (RVal (VInt 3)).
Proof. vm_compute. reflexivity. Qed.

Example C16_hist16_shown : pending_shown (get_inst (run cfg16 hist16) 0).
Proof. apply (C16_pending_shown_proof cfg16 hist16 0%nat eq_refl); vm_compute; auto. Qed.

(* a lazy set with a keyword the class does not know raises before anything is cached or queued (fix 6e79cab) *)
Example C16_lazy_set_unknown_keyword :
  let s := run cfg16 [OCreate Lazy [(1%nat, VInt 1)]] in
  let rs := step cfg16 s (OSet 0 [(0%nat, VInt 5); (3%nat, VInt 1)]) in
  fst rs = Raise ETypeError /\ heap (snd rs) = heap s /\ tables (snd rs) = tables s /\
  i_dirty (get_inst (snd rs) 0) = false /\ i_pending (get_inst (snd rs) 0) = [] /\
  is_lazy (i_k (get_inst s 0)) = true /\ held s 0%nat.
Proof. vm_compute. repeat split; auto. Qed.

Print Assumptions C16_pending_shown_proof.
Print Assumptions C16_read_returns_pending_proof.
Print Assumptions C16_read_returns_pending_present_proof.
Print Assumptions C16_read_returns_pending_reachable_proof.
