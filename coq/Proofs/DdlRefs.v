(* C14_fk_action and C14_index: the foreign keys and indexes a dialect's
   statements declare are the declared ones. *)
From Coq Require Import List ZArith NArith Bool String Ascii Lia.
From Model Require Import Ddl.
From Proofs Require Import DdlBase DdlSkeleton.
Import ListNotations.
Open Scope string_scope.
Open Scope list_scope.
Open Scope N_scope.

(* ------------------------------------------------------------------ ALTER TABLE ... FOREIGN KEY *)
Lemma read_alter_ok : forall d tbl st c toks, fk_constraint d tbl st c = Some toks ->
  exists f, fk_of st c = Some f /\ read_alter_fk toks = Some (tbl, f) /\ (d = Postgres \/ d = Mysql).
Proof.
  intros d tbl st c toks H. unfold fk_constraint in H. unfold fk_of.
  destruct (c_kind c); try discriminate.
  eexists. split; [reflexivity|].
  destruct d; try discriminate; inversion H; subst; clear H;
    (split; [|auto]);
    unfold read_alter_fk; cbn [app kws map kw];
    replace (kw_is (s2l "ALTER") "ALTER") with true by flagw;
    replace (kw_is (s2l "TABLE") "TABLE") with true by flagw;
    replace (kw_is (s2l "ADD") "ADD") with true by flagw;
    replace (kw_is (s2l "CONSTRAINT") "CONSTRAINT") with true by flagw;
    replace (kw_is (s2l "FOREIGN") "FOREIGN") with true by flagw;
    replace (kw_is (s2l "KEY") "KEY") with true by flagw;
    replace (kw_is (s2l "REFERENCES") "REFERENCES") with true by flagw;
    cbn [andb]; unfold read_ref_at; rewrite read_action_ok; reflexivity.
Qed.

Lemma fk_constraint_some : forall d tbl st c, (d = Postgres \/ d = Mysql) ->
  is_fk (c_kind c) = true -> exists toks, fk_constraint d tbl st c = Some toks.
Proof.
  intros d tbl st c [E|E] H; subst; unfold fk_constraint; destruct (c_kind c); try discriminate;
    eexists; reflexivity.
Qed.

Lemma fk_constraint_none : forall d tbl st c, d <> Postgres -> d <> Mysql -> fk_constraint d tbl st c = None.
Proof.
  intros d tbl st c H1 H2. unfold fk_constraint. destruct (c_kind c); try reflexivity.
  destruct d; try reflexivity; congruence.
Qed.

Lemma fk_constraint_nonfk : forall d tbl st c, is_fk (c_kind c) = false -> fk_constraint d tbl st c = None /\ fk_of st c = None.
Proof. intros d tbl st c H. unfold fk_constraint, fk_of. destruct (c_kind c); try discriminate; split; reflexivity. Qed.

Lemma alters_ok : forall d tbl st cols, (d = Postgres \/ d = Mysql) ->
  all_some (map read_alter_fk (somes (map (fk_constraint d tbl st) cols)))
  = Some (map (fun f => (tbl, f)) (somes (map (fk_of st) cols))).
Proof.
  intros d tbl st cols Hd. induction cols as [|c cols IH]; [reflexivity|].
  cbn [map somes]. destruct (is_fk (c_kind c)) eqn:K.
  - destruct (fk_constraint_some d tbl st c Hd K) as [toks T]. rewrite T.
    destruct (read_alter_ok _ _ _ _ _ T) as (f & F1 & F2 & _). rewrite F1.
    cbn [somes map all_some]. rewrite F2, IH. reflexivity.
  - destruct (fk_constraint_nonfk d tbl st c K) as [A B]. rewrite A, B. exact IH.
Qed.

Lemma alters_none : forall d tbl st cols, d <> Postgres -> d <> Mysql ->
  somes (map (fk_constraint d tbl st) cols) = [].
Proof.
  intros d tbl st cols H1 H2. induction cols as [|c cols IH]; [reflexivity|].
  cbn [map somes]. rewrite (fk_constraint_none d tbl st c H1 H2). exact IH.
Qed.

(* what each dialect's statements declare, in terms of the declaration *)
Definition fks_by_dialect (d : dialect) (dc : decl) : list fksk :=
  match d with
  | Sqlite | Postgres | Mysql => declared_fks dc
  | Sybase | Mssql | Maxdb => map drop_action (declared_fks dc)
  | Firebird => []
  end.

Lemma somes_map_ext : forall {A B} (f g : A -> option B) l, (forall x, f x = g x) ->
  somes (map f l) = somes (map g l).
Proof. intros A B f g l H. induction l as [|x l IH]; [reflexivity|]. cbn [map]. rewrite H. destruct (g x); cbn [somes]; rewrite IH; reflexivity. Qed.
Lemma somes_option_map : forall {A B C} (h : B -> C) (g : A -> option B) l,
  somes (map (fun x => option_map h (g x)) l) = map h (somes (map g l)).
Proof. intros. induction l as [|x l IH]; [reflexivity|]. cbn [map]. destruct (g x); cbn [option_map somes map]; rewrite IH; reflexivity. Qed.
Lemma somes_none : forall {A B} (l : list A), somes (map (fun _ => @None B) l) = [].
Proof. intros. induction l as [|x l IH]; [reflexivity|]. exact IH. Qed.

Lemma inline_sqlite : forall st cols, somes (map (inline_fk Sqlite st) cols) = somes (map (fk_of st) cols).
Proof.
  intros st cols. apply somes_map_ext. intro c. unfold inline_fk, fk_of. destruct (c_kind c); reflexivity.
Qed.
Lemma inline_noaction : forall d st cols, d = Sybase \/ d = Mssql \/ d = Maxdb ->
  somes (map (inline_fk d st) cols) = map drop_action (somes (map (fk_of st) cols)).
Proof.
  intros d st cols Hd. rewrite <- somes_option_map. apply somes_map_ext. intro c.
  unfold inline_fk, fk_of. destruct (c_kind c); try reflexivity.
  destruct Hd as [E|[E|E]]; subst; reflexivity.
Qed.
Lemma inline_none : forall d st cols, d = Postgres \/ d = Mysql \/ d = Firebird ->
  somes (map (inline_fk d st) cols) = [].
Proof.
  intros d st cols Hd. rewrite <- (somes_none (B := fksk) cols). apply somes_map_ext. intro c.
  unfold inline_fk. destruct (c_kind c); try reflexivity. destruct Hd as [E|[E|E]]; subst; reflexivity.
Qed.

Theorem fk_rendered : forall d cp dc, valid d dc = true -> skeleton_guard d dc = true ->
  rendered_fks d cp dc = Some (fks_by_dialect d dc).
Proof.
  intros d cp dc Hv Hg. destruct (skeleton_ok d cp dc Hv Hg) as (toks & C & R).
  unfold rendered_fks. rewrite C, R. cbn [s_fks]. unfold constraints, inline_fks, declared_fks, fks_by_dialect.
  destruct d.
  - rewrite alters_none by discriminate. cbn [map all_some snd]. rewrite app_nil_r, inline_sqlite. reflexivity.
  - rewrite alters_ok by auto. rewrite inline_none by auto. cbn [app]. rewrite map_map. cbn [snd]. rewrite map_id. reflexivity.
  - rewrite alters_ok by auto. rewrite inline_none by auto. cbn [app]. rewrite map_map. cbn [snd]. rewrite map_id. reflexivity.
  - rewrite alters_none by discriminate. rewrite inline_none by auto. reflexivity.
  - rewrite alters_none by discriminate. cbn [map all_some snd]. rewrite app_nil_r, inline_noaction by auto. reflexivity.
  - rewrite alters_none by discriminate. cbn [map all_some snd]. rewrite app_nil_r, inline_noaction by auto. reflexivity.
  - rewrite alters_none by discriminate. cbn [map all_some snd]. rewrite app_nil_r, inline_noaction by auto. reflexivity.
Qed.

Lemma drop_action_id : forall dc, fk_cascades_none dc = true ->
  map drop_action (declared_fks dc) = declared_fks dc.
Proof.
  intros dc H. unfold fk_cascades_none in H. unfold declared_fks.
  induction (d_cols dc) as [|c cols IH]; [reflexivity|].
  cbn [forallb] in H. apply andb_true_iff in H. destruct H as [H1 H2].
  cbn [map somes]. destruct (fk_of (d_style dc) c) as [f|] eqn:F; cbn [somes map].
  - rewrite (IH H2). f_equal. unfold fk_of in F. destruct (c_kind c) as [| | | | | | | | | | | | | |t cs rc|]; try discriminate.
    destruct cs; try discriminate. inversion F. reflexivity.
  - exact (IH H2).
Qed.

(* the delete action each dialect renders is the one the cascade setting denotes *)
Theorem fk_action_partial : forall d cp dc, valid d dc = true -> skeleton_guard d dc = true ->
  renders_fk d = true -> (renders_action d = true \/ fk_cascades_none dc = true) ->
  rendered_fks d cp dc = Some (declared_fks dc).
Proof.
  intros d cp dc Hv Hg Hr Ha. rewrite (fk_rendered d cp dc Hv Hg). unfold fks_by_dialect.
  destruct d; try reflexivity; try discriminate Hr;
    (destruct Ha as [Ha|Ha]; [discriminate Ha|rewrite (drop_action_id dc Ha); reflexivity]).
Qed.

(* ------------------------------------------------------------------ indexes *)
Definition idx_valid (ix : idxdecl) : bool :=
  negb (match i_cols ix with [] => true | _ => false end)
  && forallb (fun ic => match snd ic with Some n => (0 <=? n)%Z | None => true end) (i_cols ix).

Lemma idx_col_ok : forall d st cols ic c, resolve_col cols (fst ic) = Some c ->
  match snd ic with Some n => (0 <=? n)%Z | None => true end = true ->
  exists t, index_col_toks d st cols ic = Some t /\ bal t /\ read_idx_col t = Some (dbname_of st c).
Proof.
  intros d st cols ic c R N. unfold index_col_toks. rewrite R.
  destruct (snd ic) as [n|].
  - destruct d; try (eexists; repeat split; reflexivity).
    destruct n; try discriminate N; eexists; repeat split; reflexivity.
  - destruct d; eexists; repeat split; reflexivity.
Qed.

Lemma idx_cols_ok : forall d st cols ics cs,
  all_some (map (fun ic => resolve_col cols (fst ic)) ics) = Some cs ->
  forallb (fun ic => match snd ic with Some n => (0 <=? n)%Z | None => true end) ics = true ->
  exists ts, all_some (map (index_col_toks d st cols) ics) = Some ts /\ Forall bal ts
             /\ all_some (map read_idx_col ts) = Some (map (dbname_of st) cs) /\ List.length ts = List.length ics.
Proof.
  intros d st cols. induction ics as [|ic ics IH]; intros cs R N.
  - cbn in R. inversion R. exists []. repeat split; constructor.
  - cbn [map all_some] in R. destruct (resolve_col cols (fst ic)) as [c|] eqn:RC; [|discriminate].
    destruct (all_some (map (fun ic0 => resolve_col cols (fst ic0)) ics)) as [cs'|] eqn:RS; [|discriminate].
    inversion R; subst. cbn [forallb] in N. apply andb_true_iff in N. destruct N as [N1 N2].
    destruct (IH cs' eq_refl N2) as (ts & A & B & C & L).
    destruct (idx_col_ok d st cols ic c RC N1) as (t & T1 & T2 & T3).
    exists (t :: ts). cbn [map all_some]. rewrite T1, A. split; [reflexivity|].
    split; [constructor; assumption|]. rewrite T3, C. split; [reflexivity|]. cbn. rewrite L. reflexivity.
Qed.

Lemma read_idx_cols_ok : forall ts names, ts <> [] -> Forall bal ts ->
  all_some (map read_idx_col ts) = Some names ->
  read_idx_cols (paren (sep_by [Comma] ts)) = Some names.
Proof.
  intros ts names Hne Hb H. unfold read_idx_cols, paren. rewrite unsnoc_app.
  rewrite split_sep by assumption. exact H.
Qed.

Theorem index_ok : forall d dc ix cols,
  idx_valid ix = true ->
  all_some (map (fun ic => resolve_col (d_cols dc) (fst ic)) (i_cols ix)) = Some cols ->
  exists toks, index_stmt d dc ix = Some toks /\ read_index toks = Some (index_skeleton d dc ix cols).
Proof.
  intros d dc ix cols Hv R. unfold idx_valid in Hv. apply andb_true_iff in Hv. destruct Hv as [Hne Hn].
  destruct (idx_cols_ok d (d_style dc) (d_cols dc) (i_cols ix) cols R Hn) as (ts & A & B & C & L).
  assert (Hts : ts <> []).
  { intro E. subst. destruct (i_cols ix); [discriminate Hne|discriminate L]. }
  pose proof (read_idx_cols_ok ts _ Hts B C) as RC.
  unfold index_stmt. rewrite A. unfold index_skeleton, index_name.
  destruct d; eexists; (split; [reflexivity|]); unfold read_index;
    destruct (i_unique ix); cbn [app kws map kw];
    repeat match goal with
           | |- context [kw_is (s2l ?a) ?b] =>
               let v := eval vm_compute in (kw_is (s2l a) b) in
               replace (kw_is (s2l a) b) with v by (vm_compute; reflexivity)
           end;
    cbn [andb orb]; rewrite RC; reflexivity.
Qed.
