(* The C07 theorems in the form Props/C07.v states them: over every history
   (run cfg init ops), with the invariants discharged. *)
From Coq Require Import List ZArith Bool Lia ZifyBool.
From Model Require Import Txn.
From Proofs Require Import TxnBase TxnFoot TxnFrame TxnInv TxnExpire TxnCommit TxnSpec TxnFresh.
Import ListNotations.
Open Scope Z_scope.

Lemma reach_cache_ok cfg ops sd : cache_ok (run cfg init ops) sd.
Proof.
  destruct (run_cache_ok cfg ops init (cache_ok_init Par) (cache_ok_init Txn)) as [H1 H2]. destruct sd; assumption.
Qed.

Lemma invisible_proof :
  forall (cfg : config) (ops : list op) (o : op),
    let s := run cfg init ops in
    op_side s o = Some Txn -> is_commit o = false ->
    let s' := snd (step cfg s o) in
    par s' = par s /\ committed s' = committed s /\
    exists k, side_slots s' Par = side_slots s Par ++ repeat None k.
Proof.
  intros cfg ops o s Hs Hc s'. destruct (frame_step_txn cfg s o Hs Hc) as (H1 & H2 & H3 & _).
  split; [exact H1|]. split; [apply H3; reflexivity|exact H2].
Qed.

Lemma parent_unseen_by_txn_proof :
  forall (cfg : config) (ops : list op) (o : op),
    let s := run cfg init ops in
    op_side s o = Some Par ->
    let s' := snd (step cfg s o) in
    txn s' = txn s /\ pending s' = pending s /\ deleted s' = deleted s /\ tobs s' = tobs s.
Proof.
  intros cfg ops o s Hs s'. destruct (frame_step_par cfg s o Hs) as (H1 & _ & _ & H4).
  split; [exact H1|]. apply H4. reflexivity.
Qed.

Lemma read_proof :
  forall (cfg : config) (ops : list op) (h : nat) (sd : side) (o c : nat),
    let s := run cfg init ops in
    nth h (slots s) None = Some (sd, o) ->
    fst (step cfg s (ORead h c)) =
      match nth c (i_vals (get_inst s sd o)) None with
      | Some v => Ret (RVal v)
      | None => if dead s sd then Raise EAssertion
                else match tbl_lookup (view s sd) (i_id (get_inst s sd o)) with
                     | Some r => Ret (RVal (nth c r None))
                     | None => Raise ENotFound
                     end
      end.
Proof. intros cfg ops h sd o c s H. apply read_spec. exact H. Qed.

Lemma count_proof :
  forall (cfg : config) (ops : list op) (sd : side),
    let s := run cfg init ops in
    fst (step cfg s (OCount sd)) =
      if dead s sd then Raise EAssertion else Ret (RNum (Z.of_nat (length (t_rows (view s sd))))).
Proof. intros cfg ops sd s. apply count_spec. Qed.

Definition commit_full : Prop :=
  forall (cfg : config) (ops : list op) (close : bool),
    let s := run cfg init ops in
    tobs s = false -> par_fresh s = true ->
    fst (step cfg s (OCommit close)) = Ret RNone /\ par_fresh (snd (step cfg s (OCommit close))) = true.

Lemma commit_partial_proof :
  forall (cfg : config) (ops : list op) (close : bool),
    let s := run cfg init ops in
    tobs s = false -> par_fresh s = true -> commit_reaches cfg s = true ->
    exists s', step cfg s (OCommit close) = (Ret RNone, s') /\
               committed s' = view s Txn /\ pending s' = None /\ txn s' = txn s /\ slots s' = slots s /\
               tobs s' = close /\ par_fresh s' = true.
Proof. intros cfg ops close s H1 H2 H3. apply commit_partial; auto. apply reach_cache_ok. Qed.

Lemma commit_db_proof :
  forall (cfg : config) (ops : list op) (close : bool),
    let s := run cfg init ops in
    tobs s = false ->
    let s' := snd (step cfg s (OCommit close)) in
    committed s' = view s Txn /\ pending s' = None.
Proof. intros cfg ops close s H. apply commit_db. exact H. Qed.

Definition rollback_full : Prop :=
  forall (cfg : config) (ops : list op),
    let s := run cfg init ops in
    tobs s = false ->
    let s' := snd (step cfg s ORollback) in
    fst (step cfg s ORollback) = Ret RNone /\
    forall o, reachable_obj s' Txn o = true -> i_obsolete (get_inst s' Txn o) = false -> no_vals (get_inst s' Txn o) = true.

Lemma rollback_partial_proof :
  forall (cfg : config) (ops : list op),
    let s := run cfg init ops in
    tobs s = false -> rollback_reaches cfg s = true ->
    exists s', step cfg s ORollback = (Ret RNone, s') /\
               committed s' = committed s /\ pending s' = None /\ par s' = par s /\ slots s' = slots s /\
               tobs s' = true /\ deleted s' = [] /\
               (forall o, reachable_obj s' Txn o = true -> i_obsolete (get_inst s' Txn o) = false ->
                          no_vals (get_inst s' Txn o) = true).
Proof. intros cfg ops s H1 H2. apply rollback_partial; auto. apply reach_cache_ok. Qed.

Lemma rollback_db_proof :
  forall (cfg : config) (ops : list op),
    let s := run cfg init ops in
    let s' := snd (step cfg s ORollback) in
    committed s' = committed s /\ (tobs s = false -> pending s' = None).
Proof. intros cfg ops s. apply rollback_db. Qed.

Lemma rollback_created_gone_proof :
  forall (cfg : config) (ops1 : list op) (via : bool) (a b : val) (id : Z) (tok : option nat) (s2 : st) (ops2 : list op),
    let s1 := run cfg init ops1 in
    step cfg s1 (OCreate Txn via a b) = (Ret (RObj id tok), s2) ->
    forallb (fun o => negb (is_finish o)) ops2 = true ->
    let s3 := run cfg s2 ops2 in
    tbl_lookup (committed (snd (step cfg s3 ORollback))) id = None.
Proof. intros. eapply rollback_created_gone; eauto. Qed.

Lemma obsolete_proof :
  forall (cfg : config) (ops : list op) (o : op),
    let s := run cfg init ops in
    tobs s = true -> op_side s o = Some Txn -> o <> OBegin ->
    let s' := snd (step cfg s o) in
    tobs s' = true /\ committed s' = committed s /\ pending s' = pending s /\ log s' = [] /\
    (needs_db s o = true -> fst (step cfg s o) = Raise EAssertion).
Proof.
  intros cfg ops o s Ht Hs Hb s'. destruct (obs_step cfg s o Ht Hs Hb) as (A & B & C & D).
  repeat split; auto. intros Hn. apply obs_needs_db; auto.
Qed.

Lemma obsolete_get_proof :
  forall (cfg : config) (ops : list op) (via : bool) (id : Z),
    let s := run cfg init ops in
    tobs s = true ->
    match fst (step cfg s (OGet Txn via id)) with
    | Ret (RObj _ _) => True
    | Ret _ => False
    | Raise e => e = EAssertion
    end.
Proof.
  intros cfg ops via id s Ht. pose proof (obs_get cfg s via id Ht) as H.
  destruct (fst (step cfg s (OGet Txn via id))) as [[]|e]; auto.
Qed.

Lemma begin_proof :
  forall (cfg : config) (ops : list op),
    let s := run cfg init ops in
    step cfg s OBegin =
      if tobs s then (Ret RNone, with_tobs (with_log s []) false) else (Raise EAssertion, with_log s []).
Proof.
  intros cfg ops s. unfold step. cbn [run_op]. unfold txn_begin, bind, gets, modify, ret, raise. cbn.
  destruct (tobs s); reflexivity.
Qed.

Lemma fresh_history_proof :
  forall (cfg : config) (ops : list op),
    hist_ok cfg init ops = true -> par_fresh (run cfg init ops) = true.
Proof. intros cfg ops H. apply fresh_history. exact H. Qed.
