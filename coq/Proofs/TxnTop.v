(* The C07 theorems in the form Props/C07.v states them: over every history
   (run cfg init ops), with the invariants discharged. *)
From Coq Require Import List ZArith Bool Lia ZifyBool.
From Model Require Import Txn.
From Proofs Require Import TxnBase TxnFoot TxnFrame TxnInv TxnExpire TxnCommit TxnSpec TxnFresh.
Import ListNotations.
Open Scope Z_scope.

Lemma reach_cache_ok cfg ops sd : cache_ok (run cfg init ops) sd.
Proof.
  destruct (run_cache_ok cfg ops init (cache_ok_init Par) (cache_ok_init Txn)) as [H1 H2]. destruct sd; assumption.
Qed.

Lemma invisible_proof :
  forall (cfg : config) (ops : list op) (o : op),
    let s := run cfg init ops in
    op_side s o = Some Txn -> is_commit o = false ->
    let s' := snd (step cfg s o) in
    par s' = par s /\ committed s' = committed s /\
    exists k, side_slots s' Par = side_slots s Par ++ repeat None k.
Proof.
  intros cfg ops o s Hs Hc s'. destruct (frame_step_txn cfg s o Hs Hc) as (H1 & H2 & H3 & _).
  split; [exact H1|]. split; [apply H3; reflexivity|exact H2].
Qed.

Lemma parent_unseen_by_txn_proof :
  forall (cfg : config) (ops : list op) (o : op),
    let s := run cfg init ops in
    op_side s o = Some Par ->
    let s' := snd (step cfg s o) in
    txn s' = txn s /\ pending s' = pending s /\ deleted s' = deleted s /\ tobs s' = tobs s.
Proof.
  intros cfg ops o s Hs s'. destruct (frame_step_par cfg s o Hs) as (H1 & _ & _ & H4).
  split; [exact H1|]. apply H4. reflexivity.
Qed.

Lemma read_proof :
  forall (cfg : config) (ops : list op) (h : nat) (sd : side) (o c : nat),
    let s := run cfg init ops in
    nth h (slots s) None = Some (sd, o) ->
    fst (step cfg s (ORead h c)) =
      if negb (cacheVals cfg) then
        (* cacheValues = False: every read queries the own connection's view; a destroyed instance and a missing row assert *)
        if i_obsolete (get_inst s sd o) then Raise EAssertion
        else if dead s sd then Raise EAssertion
             else match tbl_lookup (view s sd) (i_id (get_inst s sd o)) with
                  | Some r => Ret (RVal (nth c r None))
                  | None => Raise EAssertion
                  end
      else
      match nth c (i_vals (get_inst s sd o)) None with
      | Some v => Ret (RVal v)
      | None => if dead s sd then Raise EAssertion
                else match tbl_lookup (view s sd) (i_id (get_inst s sd o)) with
                     | Some r => Ret (RVal (nth c (reloaded cfg (get_inst s sd o) r) None))
                     | None => Raise ENotFound
                     end
      end.
Proof.
  intros cfg ops h sd o c s H. rewrite (read_spec cfg s h sd o c H), so_read_fst.
  change (get_inst (with_log s []) sd o) with (get_inst s sd o). change (dead (with_log s []) sd) with (dead s sd).
  change (view (with_log s []) sd) with (view s sd).
  destruct (negb (cacheVals cfg)).
  - destruct (i_obsolete (get_inst s sd o)); [reflexivity|]. destruct (dead s sd); [reflexivity|].
    destruct (tbl_lookup (view s sd) (i_id (get_inst s sd o))); reflexivity.
  - destruct (nth c (i_vals (get_inst s sd o)) None); [reflexivity|]. destruct (dead s sd); [reflexivity|].
    destruct (tbl_lookup (view s sd) (i_id (get_inst s sd o))); reflexivity.
Qed.

Lemma count_proof :
  forall (cfg : config) (ops : list op) (sd : side),
    let s := run cfg init ops in
    fst (step cfg s (OCount sd)) =
      if dead s sd then Raise EAssertion else Ret (RNum (Z.of_nat (length (t_rows (view s sd))))).
Proof. intros cfg ops sd s. apply count_spec. Qed.

Definition commit_full : Prop :=
  forall (cfg : config) (ops : list op) (close : bool),
    let s := run cfg init ops in
    tobs s = false -> par_fresh s = true ->
    fst (step cfg s (OCommit close)) = Ret RNone /\ par_fresh (snd (step cfg s (OCommit close))) = true.

Lemma commit_partial_proof :
  forall (cfg : config) (ops : list op) (close : bool),
    let s := run cfg init ops in
    tobs s = false -> par_fresh s = true -> commit_reaches cfg s = true ->
    exists s', step cfg s (OCommit close) = (Ret RNone, s') /\
               committed s' = view s Txn /\ pending s' = None /\ txn s' = txn s /\ slots s' = slots s /\
               tobs s' = close /\ par_fresh s' = true.
Proof. intros cfg ops close s H1 H2 H3. apply commit_partial; auto. apply reach_cache_ok. Qed.

Lemma commit_db_proof :
  forall (cfg : config) (ops : list op) (close : bool),
    let s := run cfg init ops in
    tobs s = false ->
    let s' := snd (step cfg s (OCommit close)) in
    committed s' = view s Txn /\ pending s' = None.
Proof. intros cfg ops close s H. apply commit_db. exact H. Qed.

Definition rollback_full : Prop :=
  forall (cfg : config) (ops : list op),
    let s := run cfg init ops in
    tobs s = false ->
    let s' := snd (step cfg s ORollback) in
    fst (step cfg s ORollback) = Ret RNone /\
    forall o, reachable_obj s' Txn o = true -> i_obsolete (get_inst s' Txn o) = false -> no_vals (get_inst s' Txn o) = true.

Lemma rollback_partial_proof :
  forall (cfg : config) (ops : list op),
    let s := run cfg init ops in
    tobs s = false -> rollback_reaches cfg s = true ->
    exists s', step cfg s ORollback = (Ret RNone, s') /\
               committed s' = committed s /\ pending s' = None /\ par s' = par s /\ slots s' = slots s /\
               tobs s' = true /\ deleted s' = [] /\
               (forall o, reachable_obj s' Txn o = true -> i_obsolete (get_inst s' Txn o) = false ->
                          no_vals (get_inst s' Txn o) = true).
Proof. intros cfg ops s H1 H2. apply rollback_partial; auto. apply reach_cache_ok. Qed.

Lemma rollback_db_proof :
  forall (cfg : config) (ops : list op),
    let s := run cfg init ops in
    let s' := snd (step cfg s ORollback) in
    committed s' = committed s /\ (tobs s = false -> pending s' = None).
Proof. intros cfg ops s. apply rollback_db. Qed.

Lemma rollback_created_gone_proof :
  forall (cfg : config) (ops1 : list op) (via : bool) (a b : val) (id : Z) (tok : option nat) (s2 : st) (ops2 : list op),
    let s1 := run cfg init ops1 in
    step cfg s1 (OCreate Txn via a b) = (Ret (RObj id tok), s2) ->
    forallb (fun o => negb (is_finish o)) ops2 = true ->
    let s3 := run cfg s2 ops2 in
    tbl_lookup (committed (snd (step cfg s3 ORollback))) id = None.
Proof. intros. eapply rollback_created_gone; eauto. Qed.

Lemma obsolete_proof :
  forall (cfg : config) (ops : list op) (o : op),
    let s := run cfg init ops in
    tobs s = true -> op_side s o = Some Txn -> o <> OBegin ->
    let s' := snd (step cfg s o) in
    tobs s' = true /\ committed s' = committed s /\ pending s' = pending s /\ log s' = [] /\
    (needs_db cfg s o = true -> fst (step cfg s o) = Raise EAssertion).
Proof.
  intros cfg ops o s Ht Hs Hb s'. destruct (obs_step cfg s o Ht Hs Hb) as (A & B & C & D).
  repeat split; auto. intros Hn. apply obs_needs_db; auto.
Qed.

Lemma obsolete_get_proof :
  forall (cfg : config) (ops : list op) (via : bool) (id : Z),
    let s := run cfg init ops in
    tobs s = true ->
    match fst (step cfg s (OGet Txn via id)) with
    | Ret (RObj _ _) => True
    | Ret _ => False
    | Raise e => e = EAssertion
    end.
Proof.
  intros cfg ops via id s Ht. pose proof (obs_get cfg s via id Ht) as H.
  destruct (fst (step cfg s (OGet Txn via id))) as [[]|e]; auto.
Qed.

Lemma begin_proof :
  forall (cfg : config) (ops : list op),
    let s := run cfg init ops in
    step cfg s OBegin =
      if tobs s then (Ret RNone, with_tobs (with_log s []) false) else (Raise EAssertion, with_log s []).
Proof.
  intros cfg ops s. unfold step. cbn [run_op]. unfold txn_begin, bind, gets, modify, ret, raise. cbn.
  destruct (tobs s); reflexivity.
Qed.

Lemma fresh_history_proof :
  forall (cfg : config) (ops : list op),
    hist_ok cfg init ops = true -> par_fresh (run cfg init ops) = true.
Proof. intros cfg ops H. apply fresh_history. exact H. Qed.

(* ------------------------------------------------------------------ a lazyUpdate class: assignments are queued *)
Lemma lazy_set_proof :
  forall (cfg : config) (ops : list op) (h : nat) (sd : side) (x c : nat) (v : val),
    let s := run cfg init ops in
    lazy cfg = true -> nth h (slots s) None = Some (sd, x) ->
    let s' := snd (step cfg s (OSet h c v)) in
    fst (step cfg s (OSet h c v)) = Ret RNone /\ log s' = [] /\ committed s' = committed s /\ pending s' = pending s /\
    tobs s' = tobs s /\ slots s' = slots s /\ cn s' (other sd) = cn s (other sd) /\ cache (cn s' sd) = cache (cn s sd) /\
    forall x', get_inst s' sd x' =
               if Nat.eqb x' x && Nat.ltb x (length (heap (cn s sd)))
               then i_with_pending (set_val c v (get_inst s sd x)) (set_nth c (Some v) (i_pending (get_inst s sd x)))
               else get_inst s sd x'.
Proof.
  intros cfg ops h sd x c v s Hl Hh s'. unfold s', step. cbn [run_op].
  unfold handle, bind, gets. cbv beta iota. cbn [slots with_log]. rewrite Hh. unfold ret at 1. cbv beta iota. cbn [fst snd].
  unfold so_set, bind, gets. cbv beta iota. rewrite Hl. unfold upd_inst, modify, ret. cbv beta iota. cbn [fst snd].
  split; [reflexivity|]. repeat (split; [destruct sd; reflexivity|]).
  intros x'. change (get_inst (with_log s []) sd x) with (get_inst s sd x). change (heap (cn (with_log s []) sd)) with (heap (cn s sd)).
  rewrite get_inst_with_heap.
  destruct (Nat.eqb x' x) eqn:E; cbn [andb].
  - apply Nat.eqb_eq in E. subst x'. destruct (Nat.ltb x (length (heap (cn s sd)))) eqn:L.
    + apply Nat.ltb_lt in L. apply nth_set_nth_same. exact L.
    + apply Nat.ltb_ge in L. rewrite set_nth_oob by exact L. reflexivity.
  - apply Nat.eqb_neq in E. rewrite nth_set_nth_other by congruence. reflexivity.
Qed.

(* syncUpdate: nothing queued, nothing done; else ONE statement on the instance's connection: the row gets the queued values *)
Lemma sync_update_proof :
  forall (cfg : config) (ops : list op) (h : nat) (sd : side) (x : nat),
    let s := run cfg init ops in
    let i := get_inst s sd x in
    nth h (slots s) None = Some (sd, x) ->
    (dirty i = false -> step cfg s (OSyncUpdate h) = (Ret RNone, with_log s [])) /\
    (dirty i = true -> fst (step cfg s (OSyncUpdate h)) = Ret RNone ->
     let s' := snd (step cfg s (OSyncUpdate h)) in
     view s' sd = tbl_update_cols (i_id i) (i_pending i) (view s sd) /\ length (log s') = 1%nat /\
     dirty (get_inst s' sd x) = false /\ i_vals (get_inst s' sd x) = i_vals i).
Proof.
  intros cfg ops h sd x s i Hh. unfold step. cbn [run_op].
  unfold handle, bind, gets, ret. cbv beta iota. cbn [slots with_log]. rewrite Hh. cbv beta iota. cbn [fst snd].
  unfold so_sync_update, bind, gets, ret. cbv beta iota.
  change (get_inst (with_log s []) sd x) with i.
  split.
  - intros Hd. rewrite Hd. reflexivity.
  - intros Hd. rewrite Hd.
    assert (Hin : (x < length (heap (cn s sd)))%nat).
    { destruct (Nat.lt_ge_cases x (length (heap (cn s sd)))) as [L|L]; [exact L|].
      exfalso. unfold i, get_inst in Hd. rewrite nth_overflow in Hd by exact L. discriminate. }
    unfold db_update_cols, stmt_write. destruct sd.
    + cbn [pending with_log]. destruct (pending s) eqn:Ep; [cbn; discriminate|].
      match goal with |- context [if ?b then _ else _] => destruct b end; [cbn; discriminate|].
      cbn [fst snd]. unfold upd_inst, modify. cbv beta iota. cbn [fst snd]. intros _.
      split; [reflexivity|]. split; [reflexivity|].
      rewrite get_inst_with_heap. cbn [heap cn with_committed with_log par].
      rewrite nth_set_nth_same by exact Hin. split; [unfold dirty; cbn; apply existsb_no_queue|reflexivity].
    + cbn [tobs with_log]. destruct (tobs s) eqn:Et; [cbn; discriminate|].
      match goal with |- context [if ?b then _ else _] => destruct b end; [cbn; discriminate|].
      cbn [fst snd]. unfold upd_inst, modify. cbv beta iota. cbn [fst snd]. intros _.
      split; [reflexivity|]. split; [reflexivity|].
      rewrite get_inst_with_heap. cbn [heap cn with_pending with_log txn].
      rewrite nth_set_nth_same by exact Hin. split; [unfold dirty; cbn; apply existsb_no_queue|reflexivity].
Qed.

(* ------------------------------------------------------------------ a statement the UNIQUE column refuses *)
(* the primitive: refused on the transaction's connection, it leaves the transaction open on exactly the view it had *)
Lemma refused_write_proof :
  forall A (q : stmt) (rf : table -> bool) (f : table -> A * table) (s : st),
    fst (stmt_write Txn q rf f s) = Raise EDuplicate ->
    tobs s = false /\ rf (view s Txn) = true /\
    snd (stmt_write Txn q rf f s) = with_pending (with_log s (q :: log s)) (Some (view s Txn)).
Proof.
  intros A q rf f s. unfold stmt_write. destruct (tobs s); [cbn; discriminate|].
  destruct (rf (view s Txn)); [cbn; auto|]. destruct (f (view s Txn)). cbn. discriminate.
Qed.

(* an assignment (eager class) or a syncUpdate through a transaction-side instance that the database refuses *)
Lemma refused_update_proof :
  forall (cfg : config) (ops : list op) (h x : nat) (o : op),
    let s := run cfg init ops in
    nth h (slots s) None = Some (Txn, x) ->
    (exists c v, o = OSet h c v) \/ o = OSyncUpdate h ->
    fst (step cfg s o) = Raise EDuplicate ->
    let s' := snd (step cfg s o) in
    tobs s' = false /\ committed s' = committed s /\ pending s' = Some (view s Txn) /\ txn s' = txn s /\ par s' = par s /\
    slots s' = slots s /\ deleted s' = deleted s.
Proof.
  intros cfg ops h x o s Hh Ho. unfold step.
  destruct Ho as [(c & v & ->)| ->]; cbn [run_op]; unfold handle, bind, gets, ret; cbv beta iota; cbn [slots with_log]; rewrite Hh;
    cbv beta iota; cbn [fst snd].
  - unfold so_set, bind, gets. cbv beta iota. destruct (lazy cfg); [unfold upd_inst, modify; cbn; discriminate|].
    unfold db_update.
    match goal with |- context [stmt_write Txn ?q ?rf ?f (with_log s [])] =>
      destruct (stmt_write Txn q rf f (with_log s [])) as [[u|e] s1] eqn:Ew;
      [destruct (i_expired (get_inst (with_log s []) Txn x) || negb (cacheVals cfg)); unfold upd_inst, modify; cbn; discriminate|];
      cbn [fst snd]; intros He; inversion He; subst e;
      pose proof (refused_write_proof _ q rf f (with_log s [])) as R
    end.
    rewrite Ew in R. destruct (R eq_refl) as (R1 & _ & R3). cbn [snd] in R3. subst s1. repeat split; auto.
  - unfold so_sync_update, bind, gets. cbv beta iota.
    destruct (dirty (get_inst (with_log s []) Txn x)); [|cbn; discriminate].
    unfold db_update_cols.
    match goal with |- context [stmt_write Txn ?q ?rf ?f (with_log s [])] =>
      destruct (stmt_write Txn q rf f (with_log s [])) as [[u|e] s1] eqn:Ew;
      [unfold upd_inst, modify; cbn; discriminate|];
      cbn [fst snd]; intros He; inversion He; subst e;
      pose proof (refused_write_proof _ q rf f (with_log s [])) as R
    end.
    rewrite Ew in R. destruct (R eq_refl) as (R1 & _ & R3). cbn [snd] in R3. subst s1. repeat split; auto.
Qed.

(* the cache bookkeeping never raises *)
Definition total {A} (m : M A) : Prop := forall s, exists a s', m s = (Ret a, s').
Lemma total_ret {A} (a : A) : total (ret a). Proof. intros s. eexists; eexists; reflexivity. Qed.
Lemma total_gets {A} (f : st -> A) : total (gets f). Proof. intros s. eexists; eexists; reflexivity. Qed.
Lemma total_modify f : total (modify f). Proof. intros s. eexists; eexists; reflexivity. Qed.
Lemma total_bind {A B} (m : M A) (f : A -> M B) : total m -> (forall a, total (f a)) -> total (bind m f).
Proof. intros Hm Hf s. unfold bind. destruct (Hm s) as (a & s1 & E). rewrite E. apply Hf. Qed.
Ltac total_tac :=
  repeat first [ apply total_ret | apply total_gets | apply total_modify | (apply total_bind; [|intro])
               | match goal with
                 | |- total (if ?b then _ else _) => destruct b
                 | |- total (match ?x with _ => _ end) => destruct x
                 | |- total (let _ := _ in _) => cbv zeta
                 end ].
Lemma total_cull cfg sd roots : total (cull cfg sd roots).
Proof. unfold cull, set_cch. total_tac. Qed.
Lemma total_cache_created cfg sd id o : total (cache_created cfg sd id o).
Proof. unfold cache_created, ensure_factory, cull_tick, set_cch. total_tac; apply total_cull. Qed.

Lemma so_create_raise cfg a b s e s1 :
  so_create cfg Txn a b s = (Raise e, s1) -> e = EDuplicate ->
  tobs s = false /\ s1 = with_pending (with_log s (SInsert Txn :: log s)) (Some (view s Txn)).
Proof.
  unfold so_create. unfold bind at 1. unfold db_insert.
  match goal with |- context [stmt_write Txn ?q ?rf ?f s] =>
    destruct (stmt_write Txn q rf f s) as [[id|e0] s2] eqn:Ew; [|pose proof (refused_write_proof _ q rf f s) as R] end.
  - (* inserted: nothing after it raises DuplicateEntryError *)
    unfold bind at 1. unfold new_inst at 1. cbv beta iota. unfold bind at 1.
    match goal with |- context [cache_created cfg Txn id ?o ?x] => destruct (total_cache_created cfg Txn id o x) as (u & s3 & Ec) end.
    rewrite Ec. unfold bind at 1. unfold db_select_one, bind, stmt_read.
    destruct (dead s3 Txn); [intros E1 E2; inversion E1; congruence|]. unfold ret at 1. cbv beta iota.
    destruct (tbl_lookup (view s3 Txn) id); unfold select_init, upd_inst, modify, ret, raise; cbv beta iota; intros E1 E2; inversion E1; congruence.
  - intros E1 E2. inversion E1; subst. rewrite Ew in R. destruct (R eq_refl) as (R1 & _ & R3). cbn [snd] in R3. auto.
Qed.

(* a create through the transaction that the database refuses *)
Lemma refused_create_proof :
  forall (cfg : config) (ops : list op) (via : bool) (a b : val),
    let s := run cfg init ops in
    fst (step cfg s (OCreate Txn via a b)) = Raise EDuplicate ->
    let s' := snd (step cfg s (OCreate Txn via a b)) in
    tobs s' = false /\ committed s' = committed s /\ pending s' = Some (view s Txn) /\ txn s' = txn s /\ par s' = par s /\
    slots s' = slots s ++ [None] /\ deleted s' = deleted s.
Proof.
  intros cfg ops via a b s. unfold step. cbn [run_op]. unfold hold_or_none.
  set (s0 := with_log s []).
  assert (K : forall e s1, (wrapper_access cfg Txn via false ;;; so_create cfg Txn a b) s0 = (Raise e, s1) -> e = EDuplicate ->
              tobs s = false /\ s1 = with_pending (with_log s0 (SInsert Txn :: log s0)) (Some (view s Txn))).
  { intros e s1. unfold bind at 1. unfold wrapper_access. destruct via.
    - unfold bind, gets. cbv beta iota. cbn [dead]. change (tobs s0) with (tobs s). destruct (tobs s) eqn:Et.
      + unfold raise. intros E1 E2. inversion E1. congruence.
      + cbn [andb]. unfold ret at 1. cbv beta iota. intros E1 E2. destruct (so_create_raise cfg a b s0 e s1 E1 E2) as [_ R]. auto.
    - unfold ret at 1. cbv beta iota. intros E1 E2. destruct (so_create_raise cfg a b s0 e s1 E1 E2) as [R0 R]. auto. }
  destruct ((wrapper_access cfg Txn via false ;;; so_create cfg Txn a b) s0) as [[o|e] s1] eqn:Em.
  - unfold hold, bind, gets, push_slot, modify, ret. cbn. discriminate.
  - cbn [fst snd]. intros He. inversion He; subst e. destruct (K EDuplicate s1 eq_refl eq_refl) as [Kt ->].
    cbn. repeat split; auto.
Qed.

(* ------------------------------------------------------------------ pickling *)
(* an instance obtained through the transaction is bound to an explicit connection: __getstate__ refuses it before anything
   else happens -- the step is the identity (but the statement log reset), whatever the instance has queued, on a running
   and on a finished transaction *)
Lemma pickle_refused_proof :
  forall (cfg : config) (ops : list op) (h x : nat),
    let s := run cfg init ops in
    nth h (slots s) None = Some (Txn, x) ->
    step cfg s (OPickle h) = (Raise EPickling, with_log s []).
Proof.
  intros cfg ops h x s Hh. unfold step. cbn [run_op].
  unfold handle, bind, gets, ret. cbv beta iota. cbn [slots with_log]. rewrite Hh. cbv beta iota. cbn [fst snd].
  reflexivity.
Qed.

(* syncUpdate leaves the id and the cached attributes of its instance alone (returning or raising) *)
Lemma sync_update_keeps_inst cfg x s :
  i_id (get_inst (snd (so_sync_update cfg Par x s)) Par x) = i_id (get_inst s Par x) /\
  i_vals (get_inst (snd (so_sync_update cfg Par x s)) Par x) = i_vals (get_inst s Par x).
Proof.
  unfold so_sync_update, bind, gets. cbv beta iota.
  destruct (dirty (get_inst s Par x)) eqn:Hd; [|split; reflexivity].
  assert (Hin : (x < length (heap (cn s Par)))%nat).
  { destruct (Nat.lt_ge_cases x (length (heap (cn s Par)))) as [L|L]; [exact L|].
    exfalso. unfold get_inst in Hd. rewrite nth_overflow in Hd by exact L. discriminate. }
  unfold db_update_cols, stmt_write. destruct (pending s) eqn:Ep; [split; reflexivity|].
  match goal with |- context [if ?b then _ else _] => destruct b end; [split; reflexivity|].
  cbn [fst snd]. unfold upd_inst, modify. cbv beta iota. cbn [fst snd].
  rewrite get_inst_with_heap. cbn [heap cn with_committed with_log par].
  rewrite nth_set_nth_same by exact Hin. split; reflexivity.
Qed.

(* a parent-side instance is accepted: nothing queued (or an eager class) -- nothing happens, the state is the attributes
   the instance carries; a lazyUpdate instance with queued assignments -- exactly what syncUpdate does, an exception of the
   UPDATE leaves pickle.dumps, and the pickled state is the attributes the instance carried (syncUpdate does not touch them) *)
Lemma pickle_accepted_proof :
  forall (cfg : config) (ops : list op) (h x : nat),
    let s := run cfg init ops in
    let i := get_inst s Par x in
    nth h (slots s) None = Some (Par, x) ->
    (lazy cfg && dirty i = false -> step cfg s (OPickle h) = (Ret (RState (i_id i) (i_vals i)), with_log s [])) /\
    (lazy cfg && dirty i = true ->
     snd (step cfg s (OPickle h)) = snd (step cfg s (OSyncUpdate h)) /\
     match fst (step cfg s (OSyncUpdate h)) with
     | Ret _ => fst (step cfg s (OPickle h)) = Ret (RState (i_id i) (i_vals i))
     | Raise e => fst (step cfg s (OPickle h)) = Raise e
     end).
Proof.
  intros cfg ops h x s i Hh.
  unfold step. cbn [run_op].
  unfold handle, bind, gets, ret. cbv beta iota. cbn [slots with_log]. rewrite Hh. cbv beta iota. cbn [fst snd].
  unfold so_pickle. cbn [per_conn]. unfold bind, gets, ret. cbv beta iota.
  change (get_inst (with_log s []) Par x) with i.
  split.
  - intros Hd. rewrite Hd. reflexivity.
  - intros Hd. rewrite Hd.
    pose proof (sync_update_keeps_inst cfg x (with_log s [])) as [K1 K2].
    change (get_inst (with_log s []) Par x) with i in K1, K2.
    destruct (so_sync_update cfg Par x (with_log s [])) as [[u|e] s1]; cbn [fst snd] in *.
    + split; [reflexivity|]. rewrite K1, K2. reflexivity.
    + split; reflexivity.
Qed.

(* ------------------------------------------------------------------ select: its own specification *)
(* fetching the rows of a select never raises (every row comes with its values: no statement, only cache bookkeeping) *)
Lemma total_cull_tick cfg sd roots : total (cull_tick cfg sd roots).
Proof. unfold cull_tick, set_cch. total_tac; apply total_cull. Qed.
Lemma total_cache_get cfg sd id roots : total (cache_get cfg sd id roots).
Proof. unfold cache_get, ensure_factory, set_cch. total_tac; apply total_cull_tick. Qed.
Lemma total_so_get_row cfg sd id r roots : total (so_get cfg sd id (Some r) roots).
Proof.
  unfold so_get. apply total_bind; [apply total_cache_get|intros [o|]].
  - unfold select_init, upd_inst. total_tac.
  - unfold new_inst, select_init, upd_inst, cache_put, set_cch. apply total_bind.
    + intros s. eexists; eexists; reflexivity.
    + intro. total_tac.
Qed.
Lemma total_select_rows cfg sd rows : forall acc, total (select_rows cfg sd rows acc).
Proof.
  induction rows as [|[id r] rest IH]; intros acc; cbn [select_rows]; [apply total_ret|].
  apply total_bind; [apply total_so_get_row|intro; apply IH].
Qed.

Lemma Forall2_weaken {X Y} (P Q : X -> Y -> Prop) l l' : (forall a b, P a b -> Q a b) -> Forall2 P l l' -> Forall2 Q l l'.
Proof. intros H. induction 1; constructor; auto. Qed.

(* ... and the n-th object handed out is an instance of the n-th row's id *)
Lemma ids_select_rows cfg sd rows : forall acc ids,
  hoare (fun s => cache_ok s sd /\ Forall2 (fun o id => known s sd o id) acc ids)
        (select_rows cfg sd rows acc)
        (fun l s => cache_ok s sd /\ Forall2 (fun o id => known s sd o id) l (ids ++ map fst rows))
        (fun _ => True).
Proof.
  induction rows as [|[id r] rest IH]; intros acc ids; cbn [select_rows].
  - apply hoare_ret. intros s H. cbn. rewrite app_nil_r. exact H.
  - eapply hoare_bind with (R := fun o s => cache_ok s sd /\ Forall2 (fun o id => known s sd o id) (acc ++ [o]) (ids ++ [id])).
    + intros s [Hs Hf]. pose proof (ok_so_get cfg sd id (Some r) acc s Hs) as H.
      pose proof (ext_so_get cfg sd id (Some r) acc s) as He.
      destruct (so_get cfg sd id (Some r) acc s) as [[o|e] s']; cbn in *; auto.
      destruct H as [H1 H2]. split; auto. apply Forall2_app; [|constructor; [exact H2|constructor]].
      eapply Forall2_weaken; [|exact Hf]. intros a b K. eapply Rext_known; [apply He|exact K].
    + intros o. cbn [map fst]. replace (ids ++ id :: map fst rest) with ((ids ++ [id]) ++ map fst rest) by (rewrite <- app_assoc; reflexivity).
      apply IH.
Qed.

Lemma known_ids s sd l ids : Forall2 (fun o id => known s sd o id) l ids -> map (fun o => i_id (get_inst s sd o)) l = ids.
Proof. induction 1 as [|o id l ids [_ K] _ IH]; cbn; [reflexivity|]. rewrite K, IH. reflexivity. Qed.

Lemma wrapper_access_run cfg sd via m s :
  wrapper_access cfg sd via m s =
    if via then (if dead s sd then (Raise EAssertion, s) else if m && negb (wrapOk cfg) then (Raise EAttribute, s) else (Ret tt, s))
    else (Ret tt, s).
Proof.
  unfold wrapper_access. destruct via; [|reflexivity]. unfold bind, gets. cbv beta iota.
  destruct (dead s sd); [reflexivity|]. destruct (m && negb (wrapOk cfg)); reflexivity.
Qed.

(* list(Cls.select(connection=...)) / conn.Cls.select(): on a finished transaction AssertionError; through the wrapper on an
   interpreter where ConnWrapper cannot bind methods AttributeError; else it returns, and the ids of the instances handed out
   are the ids of the rows of the OWN connection's view, in order: through the parent the committed table, through the
   transaction its pending view (the committed table before its first write) *)
Lemma select_proof :
  forall (cfg : config) (ops : list op) (sd : side) (via : bool) (keep : option nat),
    let s := run cfg init ops in
    let r := fst (step cfg s (OSelect sd via keep)) in
    if dead s sd then r = Raise EAssertion
    else if via && negb (wrapOk cfg) then r = Raise EAttribute
    else exists l, r = Ret (RObjs l) /\ map fst l = map fst (t_rows (view s sd)).
Proof.
  intros cfg ops sd via keep s r.
  assert (Hc : cache_ok (with_log s []) sd) by (apply (reach_cache_ok cfg ops sd)).
  change (dead s sd) with (dead (with_log s []) sd). change (view s sd) with (view (with_log s []) sd).
  unfold r, step. clear r. set (s0 := with_log s []) in *. clearbody s0.
  set (res := fst (run_op cfg (OSelect sd via keep) s0)).
  assert (Key : (dead s0 sd = true -> res = Raise EAssertion) /\
                (dead s0 sd = false -> via && negb (wrapOk cfg) = true -> res = Raise EAttribute) /\
                (dead s0 sd = false -> via && negb (wrapOk cfg) = false ->
                 exists l, res = Ret (RObjs l) /\ map fst l = map fst (t_rows (view s0 sd)))).
  { split; [|split]; unfold res; cbn [run_op]; unfold or_empty_slot; unfold bind at 1; rewrite wrapper_access_run.
    - intros Hd. rewrite Hd. destruct via.
      + destruct keep; reflexivity.
      + cbv beta iota. unfold bind at 1. unfold stmt_read. rewrite Hd. destruct keep; reflexivity.
    - intros Hd Hv. apply andb_true_iff in Hv. destruct Hv as [-> Hw]. rewrite Hd, Hw. cbn [andb]. destruct keep; reflexivity.
    - intros Hd Hv. rewrite Hd.
      assert (Ew : (if via then (if true && negb (wrapOk cfg) then (Raise EAttribute, s0) else (@Ret unit tt, s0)) else (Ret tt, s0)) = (Ret tt, s0)).
      { destruct via; [|reflexivity]. cbn [andb] in *. rewrite Hv. reflexivity. }
      rewrite Ew. clear Ew. cbv beta iota.
      unfold bind at 1. unfold stmt_read. rewrite Hd.
      set (s1 := with_log s0 (SSelect sd :: log s0)).
      assert (Hc1 : cache_ok s1 sd) by exact Hc.
      unfold bind at 1.
      destruct (total_select_rows cfg sd (t_rows (view s0 sd)) [] s1) as (objs & s2 & Es).
      pose proof (ids_select_rows cfg sd (t_rows (view s0 sd)) [] [] s1 (conj Hc1 (Forall2_nil _))) as Hi.
      rewrite Es in *. cbn [app] in Hi. destruct Hi as [_ Hk].
      unfold bind at 1. unfold gets at 1. cbv beta iota zeta.
      exists (map (fun o => (i_id (get_inst s2 sd o), slot_of s2 sd o)) objs).
      split.
      + destruct keep; unfold bind, push_slot, modify, ret; reflexivity.
      + rewrite map_map. cbn [fst]. apply known_ids. exact Hk. }
  destruct Key as (K1 & K2 & K3).
  destruct (dead s0 sd); [apply K1; reflexivity|].
  destruct (via && negb (wrapOk cfg)); [apply K2; reflexivity|apply K3; reflexivity].
Qed.
