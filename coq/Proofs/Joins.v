(* Proofs for C13: the invariant of reachable states (ids strictly ascending
   hence unique, below the AUTOINCREMENT mark, link rows mention live objects
   only), and what every accessor returns in such a state. *)
From Coq Require Import List ZArith Bool Permutation Sorted Lia.
From Gen Require Import Joins.
From Model Require Import Joins.
From Proofs Require Import JoinsSort JoinsChar.
Import ListNotations.
Open Scope Z_scope.

Definition reachable (s : state) : Prop := exists ops, s = run ops.

Record inv (s : state) : Prop := {
  inv_sorted : forall c, StronglySorted Z.lt (ids (tab c s));
  inv_seq : forall c i, In i (ids (tab c s)) -> i <= seqno c s;
  inv_links : forall t r sd, In r (link t s) -> In (col_of sd r) (ids (tab (link_cls t sd) s))
}.

(* ------------------------------------------------------------------ *)
(* tables                                                              *)
(* ------------------------------------------------------------------ *)
Lemma sorted_nodup l : StronglySorted Z.lt l -> NoDup l.
Proof.
  induction 1 as [|x l Hs IH Hx]; constructor; auto.
  intros Hin. rewrite Forall_forall in Hx. specialize (Hx _ Hin). lia.
Qed.

Lemma has_id_In i t : has_id i t = true <-> In i (ids t).
Proof.
  unfold has_id, ids. rewrite existsb_exists, in_map_iff.
  split; intros [r [H1 H2]]; exists r.
  - apply Z.eqb_eq in H2. tauto.
  - rewrite Z.eqb_eq. tauto.
Qed.

Lemma In_ids_insert_row r t i : In i (ids (insert_row r t)) <-> i = r_id r \/ In i (ids t).
Proof.
  induction t as [|x t IH]; cbn.
  - intuition.
  - destruct (r_id r <? r_id x); cbn; [intuition|]. rewrite IH. intuition.
Qed.

Lemma In_insert_row r t x : In x (insert_row r t) <-> x = r \/ In x t.
Proof.
  induction t as [|y t IH]; cbn.
  - intuition.
  - destruct (r_id r <? r_id y); cbn; [intuition|]. rewrite IH. intuition.
Qed.

Lemma insert_row_sorted r t :
  StronglySorted Z.lt (ids t) -> ~ In (r_id r) (ids t) ->
  StronglySorted Z.lt (ids (insert_row r t)).
Proof.
  induction t as [|x t IH]; cbn; intros Hs Hn.
  - constructor; constructor.
  - inversion Hs as [|? ? Hs' Hx]; subst.
    destruct (r_id r <? r_id x) eqn:E; cbn.
    + apply Z.ltb_lt in E. constructor; [exact Hs|].
      constructor; [exact E|]. rewrite Forall_forall in *. intros z Hz. specialize (Hx z Hz). lia.
    + apply Z.ltb_ge in E. constructor; [apply IH; tauto|].
      rewrite Forall_forall in *. intros z Hz.
      apply In_ids_insert_row in Hz. destruct Hz as [->|Hz]; [|auto].
      assert (r_id x <> r_id r) by (intros Heq; apply Hn; left; exact Heq). lia.
Qed.

Lemma ids_update_row i f t :
  (forall r, r_id (f r) = r_id r) -> ids (update_row i f t) = ids t.
Proof.
  intros Hf. unfold ids, update_row. rewrite map_map. apply map_ext.
  intros r. destruct (r_id r =? i); auto.
Qed.

Lemma In_ids_filter_ne i t x :
  In x (ids (filter (fun r => negb (r_id r =? i)) t)) <-> In x (ids t) /\ x <> i.
Proof.
  unfold ids. rewrite !in_map_iff. split.
  - intros [r [<- Hr]]. apply filter_In in Hr. destruct Hr as [Hr Hne].
    apply negb_true_iff, Z.eqb_neq in Hne. split; [exists r; tauto|exact Hne].
  - intros [[r [<- Hr]] Hne]. exists r. split; [reflexivity|].
    apply filter_In. split; [exact Hr|]. apply negb_true_iff, Z.eqb_neq. exact Hne.
Qed.

Lemma filter_ids_sorted p t :
  StronglySorted Z.lt (ids t) -> StronglySorted Z.lt (ids (filter p t)).
Proof.
  induction t as [|x t IH]; cbn; intros Hs; [constructor|].
  inversion Hs as [|? ? Hs' Hx]; subst.
  destruct (p x); cbn; [|auto].
  constructor; [auto|].
  rewrite Forall_forall in *. intros z Hz. apply Hx.
  unfold ids in *. apply in_map_iff in Hz. destruct Hz as [r [<- Hr]].
  apply filter_In in Hr. apply in_map. tauto.
Qed.

Lemma get_row_Some t i r : get_row t i = Some r -> In r t /\ r_id r = i.
Proof.
  unfold get_row. intros H. apply find_some in H. rewrite Z.eqb_eq in H. exact H.
Qed.

Lemma get_row_unique t r :
  NoDup (ids t) -> In r t -> get_row t (r_id r) = Some r.
Proof.
  unfold get_row. induction t as [|x t IH]; cbn; intros Hnd Hin; [contradiction|].
  inversion Hnd as [|? ? Hx Hnd']; subst.
  destruct Hin as [->|Hin].
  - rewrite Z.eqb_refl. reflexivity.
  - destruct (r_id x =? r_id r) eqn:E.
    + apply Z.eqb_eq in E. exfalso. apply Hx. rewrite E. apply in_map. exact Hin.
    + apply IH; assumption.
Qed.

Lemma get_row_In t i : In i (ids t) -> exists r, get_row t i = Some r.
Proof.
  unfold get_row, ids. intros H. apply in_map_iff in H. destruct H as [r [Hr Hin]].
  destruct (find (fun r0 => r_id r0 =? i) t) eqn:E; [eauto|].
  exfalso. eapply find_none in E; [|exact Hin]. rewrite Hr, Z.eqb_refl in E. discriminate.
Qed.

Lemma get_all_sub t l :
  NoDup (ids t) -> incl l t -> get_all t (ids l) = Some l.
Proof.
  intros Hnd. induction l as [|r l IH]; intros Hin; [reflexivity|].
  change (ids (r :: l)) with (r_id r :: ids l). cbn [get_all].
  rewrite get_row_unique; [|exact Hnd|apply Hin; left; reflexivity].
  rewrite IH; [reflexivity|]. intros x Hx. apply Hin. right. exact Hx.
Qed.

Lemma get_all_total t l :
  (forall i, In i l -> In i (ids t)) ->
  exists rows, get_all t l = Some rows /\ ids rows = l /\ incl rows t.
Proof.
  induction l as [|i l IH]; cbn; intros H.
  - exists []. repeat split. intros x [].
  - destruct (get_row_In t i) as [r Hr]; [apply H; left; reflexivity|].
    destruct IH as [rows [Hg [Hi Hs]]]; [intros; apply H; right; assumption|].
    rewrite Hr, Hg. exists (r :: rows). apply get_row_Some in Hr. destruct Hr as [Hin Hid].
    repeat split.
    + unfold ids in *. cbn. congruence.
    + intros x [<-|Hx]; auto.
Qed.

Lemma get_all_flat_map t l rows :
  get_all t l = Some rows ->
  flat_map (fun i => match get_row t i with Some r => [r] | None => [] end) l = rows.
Proof.
  revert rows. induction l as [|i l IH]; cbn; intros rows H.
  - congruence.
  - destruct (get_row t i) as [r|]; [|discriminate].
    destruct (get_all t l) as [rs|]; [|discriminate].
    inversion H; subst. cbn. f_equal. apply IH. reflexivity.
Qed.

(* ------------------------------------------------------------------ *)
(* the invariant                                                       *)
(* ------------------------------------------------------------------ *)
Lemma inv_init : inv init.
Proof. split; intros; try destruct c; try destruct t; cbn in *; try constructor; try contradiction. Qed.

Lemma inv_set_link t l s :
  inv s ->
  (forall r sd, In r l -> In (col_of sd r) (ids (tab (link_cls t sd) s))) ->
  inv (set_link t l s).
Proof.
  intros [H1 H2 H3] Hl. split.
  - intros c. rewrite tab_set_link. apply H1.
  - intros c i. rewrite tab_set_link, seqno_set_link. apply H2.
  - intros t' r sd Hin. rewrite tab_set_link.
    destruct (ltab_eq_dec t' t) as [->|Hne].
    + rewrite link_set_link_same in Hin. apply Hl. exact Hin.
    + rewrite link_set_link_other in Hin by exact Hne. apply H3. exact Hin.
Qed.

Lemma inv_set_tab c tb n s :
  inv s ->
  StronglySorted Z.lt (ids tb) ->
  (forall i, In i (ids tb) -> i <= n) ->
  (forall t r sd, In r (link t s) -> link_cls t sd = c -> In (col_of sd r) (ids tb)) ->
  inv (set_tab c tb n s).
Proof.
  intros [H1 H2 H3] Hs Hn Hl. split.
  - intros c'. destruct (cls_eq_dec c' c) as [->|Hne].
    + rewrite tab_set_tab_same. exact Hs.
    + rewrite tab_set_tab_other by exact Hne. apply H1.
  - intros c' i. destruct (cls_eq_dec c' c) as [->|Hne].
    + rewrite tab_set_tab_same, seqno_set_tab_same. apply Hn.
    + rewrite tab_set_tab_other, seqno_set_tab_other by exact Hne. apply H2.
  - intros t r sd. rewrite link_set_tab. intros Hin.
    destruct (cls_eq_dec (link_cls t sd) c) as [He|Hne].
    + rewrite He, tab_set_tab_same. apply (Hl t); assumption.
    + rewrite tab_set_tab_other by exact Hne. apply H3. exact Hin.
Qed.

Lemma inv_update c i f s :
  inv s -> (forall r, r_id (f r) = r_id r) ->
  inv (set_tab c (update_row i f (tab c s)) (seqno c s) s).
Proof.
  intros Hi Hf. pose proof Hi as [H1 H2 H3].
  apply inv_set_tab; auto; rewrite ids_update_row by exact Hf.
  - apply H1.
  - apply H2.
  - intros t r sd Hin <-. apply H3. exact Hin.
Qed.

Lemma r_id_set_key k v r : r_id (set_key k v r) = r_id r.
Proof. destruct k; reflexivity. Qed.
Lemma r_id_set_fk v r : r_id (set_fk v r) = r_id r.
Proof. reflexivity. Qed.

Lemma inv_create c ex k0 k1 k2 fk s :
  inv s -> op_status s (Create c ex k0 k1 k2 fk) = SOk ->
  inv (do_op s (Create c ex k0 k1 k2 fk)).
Proof.
  intros Hi Hst. pose proof Hi as [H1 H2 H3]. cbn [do_op]. unfold create.
  set (i := match ex with Some i => i | None => seqno c s + 1 end).
  assert (Hfresh : ~ In i (ids (tab c s))).
  { subst i. cbn in Hst. destruct (negb (fkv_live fk s)); [discriminate|].
    destruct ex as [i|].
    - unfold live in Hst. destruct (has_id i (tab c s)) eqn:E; [discriminate|].
      rewrite <- has_id_In. congruence.
    - intros Hin. apply H2 in Hin. lia. }
  apply inv_set_tab; auto.
  - apply insert_row_sorted; [apply H1|exact Hfresh].
  - intros x Hx. apply In_ids_insert_row in Hx. cbn [r_id] in Hx.
    destruct Hx as [->|Hx]; [lia|]. apply H2 in Hx. lia.
  - intros t r sd Hin <-. apply In_ids_insert_row. right. apply H3. exact Hin.
Qed.

Lemma andb_live a b : (if a && b then SOk else SNotFound) = SOk -> a = true /\ b = true.
Proof. destruct a, b; cbn; intros; try discriminate; auto. Qed.

Lemma inv_add j x y s :
  inv s -> op_status s (Add j x y) = SOk -> inv (related_add j x y s).
Proof.
  intros Hi Hst. cbn in Hst. apply andb_live in Hst. destruct Hst as [Hx Hy].
  unfold live in *. rewrite has_id_In in Hx, Hy.
  rewrite related_add_char. apply inv_set_link; [exact Hi|].
  intros r sd Hin. apply in_app_or in Hin. destruct Hin as [Hin|[<-|[]]].
  - apply Hi. exact Hin.
  - unfold mkpair, j_owner, j_other in *. destruct (j_side j), sd; cbn in *; assumption.
Qed.

Lemma inv_remove j x y s : inv s -> inv (related_remove j x y s).
Proof.
  intros Hi. rewrite related_remove_char. apply inv_set_link; [exact Hi|].
  intros r sd Hin. apply filter_In in Hin. apply Hi. tauto.
Qed.

Lemma inv_destroy_links c i s : inv s -> inv (destroy_links c i s).
Proof.
  intros [H1 H2 H3]. split.
  - intros c'. rewrite tab_destroy_links. apply H1.
  - intros c' x. rewrite tab_destroy_links, seqno_destroy_links. apply H2.
  - intros t r sd Hin. rewrite tab_destroy_links. apply destroy_links_In in Hin. apply H3. tauto.
Qed.

Lemma inv_destroy c i s : inv s -> inv (destroy c i s).
Proof.
  intros Hi. unfold destroy.
  pose proof (inv_destroy_links c i s Hi) as Hi'. pose proof Hi' as [H1 H2 H3].
  apply inv_set_tab; auto.
  - apply filter_ids_sorted. apply H1.
  - intros x Hx. apply In_ids_filter_ne in Hx. apply H2. tauto.
  - intros t r sd Hin Hc. apply In_ids_filter_ne. split.
    + pose proof (H3 t r sd Hin) as H. rewrite Hc in H. exact H.
    + apply destroy_links_In in Hin. destruct Hin as [_ Hin]. apply Hin. exact Hc.
Qed.

(* liveness after a create *)
Lemma live_create_old c' i' c ex k0 k1 k2 fk s :
  live c' i' s = true -> live c' i' (create c ex k0 k1 k2 fk s) = true.
Proof.
  unfold live, create. intros H. destruct (cls_eq_dec c' c) as [->|Hne].
  - rewrite tab_set_tab_same. apply has_id_In, In_ids_insert_row. right. apply has_id_In. exact H.
  - rewrite tab_set_tab_other by exact Hne. exact H.
Qed.
Lemma live_create_new c k0 k1 k2 fk s :
  live c (seqno c s + 1) (create c None k0 k1 k2 fk s) = true.
Proof.
  unfold live, create. rewrite tab_set_tab_same. apply has_id_In, In_ids_insert_row. left. reflexivity.
Qed.
Lemma status_m2m_create j x k0 k1 k2 s :
  op_status s (MCreate j x k0 k1 k2) = SOk ->
  op_status (create (j_other j) None k0 k1 k2 FkNone s) (Add j x (seqno (j_other j) s + 1)) = SOk.
Proof.
  cbn [op_status]. intros H. destruct (live (j_owner j) x s) eqn:E; [|discriminate].
  rewrite live_create_old by exact E. rewrite live_create_new. reflexivity.
Qed.

Lemma inv_step s o : inv s -> inv (step s o).
Proof.
  intros Hi. unfold step. destruct (op_status s o) eqn:E; auto.
  destruct o; cbn [do_op].
  - apply inv_create; assumption.
  - apply inv_update; [exact Hi|apply r_id_set_key].
  - apply (inv_update CB); [exact Hi|apply r_id_set_fk].
  - apply inv_add; assumption.
  - apply inv_remove; assumption.
  - apply inv_destroy; assumption.
  - rewrite m2m_add_char. apply inv_add; assumption.
  - rewrite m2m_remove_char. apply inv_remove; assumption.
  - rewrite m2m_add_char. apply inv_add; [|apply status_m2m_create; exact E].
    apply (inv_create (j_other j) None k0 k1 k2 FkNone s Hi). reflexivity.
  - apply (inv_create CB None k0 k1 k2 (FkId a) s Hi). reflexivity.
Qed.

Lemma inv_fold ops : forall s, inv s -> inv (fold_left step ops s).
Proof. induction ops as [|o ops IH]; cbn; intros s Hi; auto. apply IH, inv_step, Hi. Qed.

Lemma inv_run ops : inv (run ops).
Proof. apply inv_fold, inv_init. Qed.

Lemma inv_reachable s : reachable s -> inv s.
Proof. intros [ops ->]. apply inv_run. Qed.

Lemma inv_nodup_ids s c : inv s -> NoDup (ids (tab c s)).
Proof. intros Hi. apply sorted_nodup, Hi. Qed.

Lemma nodup_ids_rows t : NoDup (ids t) -> NoDup t.
Proof. apply NoDup_map_inv. Qed.

(* ------------------------------------------------------------------ *)
(* accessors                                                           *)
(* ------------------------------------------------------------------ *)
Definition sortedR (o : order) : list row -> Prop :=
  StronglySorted (fun x y => lex_le rval (order_keys o) x y = true).

Lemma fetch_sorted_spec o t l rows :
  order_ok o = true -> get_all t l = Some rows ->
  exists res, fetch_sorted o t l = JOk res /\ Permutation rows res /\ sortedR o res.
Proof.
  intros Hok Hg. unfold fetch_sorted. rewrite Hg.
  destruct (apply_order_spec rval o rows Hok) as [res [Ha [Hp Hs]]].
  exists res. rewrite Ha. auto.
Qed.

Lemma fk_is_spec a r : fk_is a r = true <-> r_fk r = Some a.
Proof.
  unfold fk_is. destruct (r_fk r) as [x|]; [|split; discriminate].
  rewrite Z.eqb_eq. split; congruence.
Qed.

(* one-to-many: in every reachable state, whatever orderBy, the accessor
   returns exactly the rows of B whose foreign key is the owner's id, each
   once, ordered lexicographically by the declared keys *)
Lemma one_to_many ops o a :
  order_ok o = true ->
  exists l, multiple_join o (run ops) a = JOk l /\
            (forall b, In b l <-> In b (tB (run ops)) /\ r_fk b = Some a) /\
            NoDup l /\ sortedR o l.
Proof.
  intros Hok. set (s := run ops). pose proof (inv_run ops) as Hi. fold s in Hi.
  assert (Hnd : NoDup (ids (tB s))) by (apply (inv_nodup_ids s CB Hi)).
  unfold multiple_join, multiple_ids.
  destruct (fetch_sorted_spec o (tB s) (ids (filter (fk_is a) (tB s))) (filter (fk_is a) (tB s)) Hok)
    as [l [Hf [Hp Hs]]].
  { apply get_all_sub; [exact Hnd|]. intros x Hx. apply filter_In in Hx. tauto. }
  exists l. split; [exact Hf|]. split; [|split; [|exact Hs]].
  - intros b. rewrite <- fk_is_spec, <- filter_In. split; intros H.
    + eapply Permutation_in; [apply Permutation_sym; exact Hp|exact H].
    + eapply Permutation_in; [exact Hp|exact H].
  - eapply Permutation_NoDup; [exact Hp|]. apply NoDup_filter. apply nodup_ids_rows. exact Hnd.
Qed.

(* the ids of the partners of `inst` through join j, with multiplicity *)
Definition pair_dec (a b : Z * Z) : {a = b} + {a <> b}.
Proof. decide equality; apply Z.eq_dec. Defined.

Lemma count_related j inst x l :
  count_occ Z.eq_dec
    (map (col_of (flip (j_side j))) (filter (fun r => col_of (j_side j) r =? inst) l)) x =
  count_occ pair_dec l (mkpair j inst x).
Proof.
  induction l as [|r l IH]; cbn [filter map count_occ]; [reflexivity|].
  destruct (pair_dec r (mkpair j inst x)) as [->|Hne].
  - rewrite col_mkpair_join, Z.eqb_refl. cbn [map count_occ]. rewrite col_mkpair_other.
    destruct (Z.eq_dec x x); [|congruence]. rewrite IH. reflexivity.
  - destruct (col_of (j_side j) r =? inst) eqn:E; [|exact IH].
    cbn [map count_occ].
    destruct (Z.eq_dec (col_of (flip (j_side j)) r) x) as [E2|]; [|exact IH].
    exfalso. apply Hne. apply is_pair_spec. unfold is_pair. rewrite E, E2, Z.eqb_refl. reflexivity.
Qed.

Lemma related_ids_live j s inst i :
  inv s -> In i (related_ids j s inst) -> In i (ids (tab (j_other j) s)).
Proof.
  intros Hi. rewrite related_ids_char. intros Hin.
  apply in_map_iff in Hin. destruct Hin as [r [<- Hr]]. apply filter_In in Hr.
  unfold j_other. apply Hi. tauto.
Qed.

(* many-to-many: the accessor never fails in a reachable state and returns the
   rows of the other class whose ids the link rows of `inst` name -- as many
   times as there are such link rows -- ordered by the declared keys *)
Lemma many_to_many ops j o inst :
  order_ok o = true ->
  exists l, related_join j o (run ops) inst = JOk l /\
            incl l (tab (j_other j) (run ops)) /\
            (forall x, count_occ Z.eq_dec (ids l) x =
                       count_occ pair_dec (link (j_link j) (run ops)) (mkpair j inst x)) /\
            sortedR o l.
Proof.
  intros Hok. set (s := run ops). pose proof (inv_run ops) as Hi. fold s in Hi.
  destruct (get_all_total (tab (j_other j) s) (related_ids j s inst)) as [rows [Hg [Hids Hincl]]].
  { intros i. apply related_ids_live. exact Hi. }
  destruct (fetch_sorted_spec o _ _ rows Hok Hg) as [l [Hf [Hp Hs]]].
  exists l. split; [exact Hf|]. split; [|split; [|exact Hs]].
  - intros x Hx. apply Hincl. eapply Permutation_in; [apply Permutation_sym; exact Hp|exact Hx].
  - intros x.
    rewrite <- (proj1 (Permutation_count_occ Z.eq_dec (ids rows) (ids l)) (Permutation_map r_id Hp) x).
    rewrite Hids, related_ids_char. apply count_related.
Qed.

Lemma many_to_many_In ops j o inst l :
  related_join j o (run ops) inst = JOk l ->
  order_ok o = true ->
  forall b, In b l <->
            In b (tab (j_other j) (run ops)) /\ In (mkpair j inst (r_id b)) (link (j_link j) (run ops)).
Proof.
  intros Hl Hok b. destruct (many_to_many ops j o inst Hok) as [l' [Hl' [Hincl [Hc _]]]].
  rewrite Hl in Hl'. inversion Hl'; subst l'. clear Hl'.
  pose proof (inv_run ops) as Hi.
  split.
  - intros Hb. split; [apply Hincl; exact Hb|].
    apply (count_occ_In pair_dec). rewrite <- Hc. apply (count_occ_In Z.eq_dec).
    apply in_map. exact Hb.
  - intros [Hb Hin]. apply (count_occ_In pair_dec) in Hin. rewrite <- Hc in Hin.
    apply (count_occ_In Z.eq_dec) in Hin. apply in_map_iff in Hin. destruct Hin as [b' [Hid Hb']].
    assert (b' = b); [|congruence].
    apply Hincl in Hb'.
    pose proof (inv_nodup_ids _ (j_other j) Hi) as Hnd.
    pose proof (get_row_unique _ _ Hnd Hb) as E1.
    pose proof (get_row_unique _ _ Hnd Hb') as E2. rewrite Hid in E2. congruence.
Qed.

(* symmetry: through a join and its mirror image (the same intermediate table
   with the two columns swapped -- A.rbs / B.ras, or P.fr / P.of on the same
   class) b is among a's partners exactly as often as a is among b's *)
Lemma symmetric ops j oa ob a b :
  order_ok oa = true -> order_ok ob = true ->
  exists la lb,
    related_join j oa (run ops) a = JOk la /\
    related_join (mirror j) ob (run ops) b = JOk lb /\
    count_occ Z.eq_dec (ids la) b = count_occ Z.eq_dec (ids lb) a /\
    (In b (ids la) <-> In a (ids lb)).
Proof.
  intros Ha Hb.
  destruct (many_to_many ops j oa a Ha) as [la [Hla [_ [Hca _]]]].
  destruct (many_to_many ops (mirror j) ob b Hb) as [lb [Hlb [_ [Hcb _]]]].
  exists la, lb. split; [exact Hla|]. split; [exact Hlb|].
  assert (E : count_occ Z.eq_dec (ids la) b = count_occ Z.eq_dec (ids lb) a).
  { rewrite Hca, Hcb, mkpair_mirror. reflexivity. }
  split; [exact E|].
  rewrite (count_occ_In Z.eq_dec), (count_occ_In Z.eq_dec), E. tauto.
Qed.

(* single join *)
Lemma single ops a :
  let s := run ops in
  (single_join s a = None <-> forall b, In b (tB s) -> r_fk b <> Some a) /\
  (forall b, single_join s a = Some b -> In b (tB s) /\ r_fk b = Some a) /\
  (forall b, In b (tB s) -> r_fk b = Some a ->
             (forall b', In b' (tB s) -> r_fk b' = Some a -> b' = b) ->
             single_join s a = Some b).
Proof.
  intros s. unfold single_join.
  assert (Hmem : forall b, In b (filter (fk_is a) (tB s)) <-> In b (tB s) /\ r_fk b = Some a).
  { intros b. rewrite filter_In, fk_is_spec. tauto. }
  revert Hmem. generalize (filter (fk_is a) (tB s)) as fl. intros fl Hmem.
  split; [|split].
  - split.
    + intros H b Hb Hfk. destruct fl; [|discriminate]. apply (Hmem b). tauto.
    + intros H. destruct fl as [|x l]; [reflexivity|].
      exfalso. destruct (proj1 (Hmem x)) as [Hx1 Hx2]; [left; reflexivity|]. apply (H x); assumption.
  - intros b H. apply Hmem. destruct fl; inversion H. left. reflexivity.
  - intros b Hb Hfk Huniq. destruct fl as [|x l].
    + exfalso. apply (Hmem b). tauto.
    + cbn. f_equal. destruct (proj1 (Hmem x)) as [Hx1 Hx2]; [left; reflexivity|]. apply Huniq; assumption.
Qed.

(* list flavour against query flavour.  `q` is anything the database may answer
   to the ORDER BY query over the candidate rows. *)
Definition total_on (keys : list skey) (l : list row) : Prop :=
  forall x y, In x l -> In y l ->
              lex_le rval keys x y = true -> lex_le rval keys y x = true -> x = y.

Lemma total_on_perm keys l l' : Permutation l l' -> total_on keys l -> total_on keys l'.
Proof.
  intros Hp Ht x y Hx Hy. apply Ht; eapply Permutation_in; try (apply Permutation_sym; exact Hp); assumption.
Qed.

Lemma agree_from_perm o cands l q :
  Permutation cands l -> sortedR o l -> sql_rows (order_keys o) cands q ->
  Permutation l q /\ (total_on (order_keys o) cands -> q = l).
Proof.
  intros Hp Hs [Hq1 Hq2]. split.
  - eapply perm_trans; [apply Permutation_sym; exact Hp|exact Hq1].
  - intros Ht. symmetry. eapply sorted_perm_unique; [exact Hs|exact Hq2| |].
    + eapply perm_trans; [apply Permutation_sym; exact Hp|exact Hq1].
    + apply (total_on_perm _ cands); assumption.
Qed.

Lemma list_query_agree_multiple ops o a :
  order_ok o = true ->
  exists l cands,
    multiple_join o (run ops) a = JOk l /\ sql_multiple o (run ops) a = JOk cands /\
    forall q, sql_rows (order_keys o) cands q ->
              Permutation l q /\ (total_on (order_keys o) cands -> q = l).
Proof.
  intros Hok. set (s := run ops). pose proof (inv_run ops) as Hi. fold s in Hi.
  assert (Hnd : NoDup (ids (tB s))) by (apply (inv_nodup_ids s CB Hi)).
  destruct (fetch_sorted_spec o (tB s) (ids (filter (fk_is a) (tB s))) (filter (fk_is a) (tB s)) Hok)
    as [l [Hf [Hp Hs]]].
  { apply get_all_sub; [exact Hnd|]. intros x Hx. apply filter_In in Hx. tauto. }
  exists l, (filter (fk_is a) (tB s)). split; [exact Hf|]. split.
  - unfold sql_multiple. rewrite Hok. reflexivity.
  - intros q Hq. apply (agree_from_perm o _ l q Hp Hs Hq).
Qed.

Lemma list_query_agree_related ops j o inst :
  order_ok o = true -> sqlrel_order_ok j o = true -> live (j_owner j) inst (run ops) = true ->
  exists l cands,
    related_join j o (run ops) inst = JOk l /\ sql_related j o (run ops) inst = JOk cands /\
    forall q, sql_rows (order_keys o) cands q ->
              Permutation l q /\ (total_on (order_keys o) cands -> q = l).
Proof.
  intros Hok Hsq Hlive. set (s := run ops) in *. pose proof (inv_run ops) as Hi. fold s in Hi.
  destruct (get_all_total (tab (j_other j) s) (related_ids j s inst)) as [rows [Hg [Hids Hincl]]].
  { intros i. apply related_ids_live. exact Hi. }
  destruct (fetch_sorted_spec o _ _ rows Hok Hg) as [l [Hf [Hp Hs]]].
  exists l, rows. split; [exact Hf|]. split.
  - unfold sql_related. rewrite Hok, Hsq, Hlive. cbn [negb]. f_equal.
    apply get_all_flat_map. unfold sql_related_sel. rewrite gen_sqlrelated_select_char.
    unfold related_ids in Hg. rewrite gen_related_select_char in Hg. exact Hg.
  - intros q Hq. apply (agree_from_perm o _ l q Hp Hs Hq).
Qed.

(* the invariant, in the words of the property *)
Lemma links_live ops t r :
  In r (link t (run ops)) ->
  live (link_cls t First) (fst r) (run ops) = true /\
  live (link_cls t Second) (snd r) (run ops) = true.
Proof.
  intros Hin. pose proof (inv_run ops) as Hi. unfold live. rewrite !has_id_In.
  split; [apply (inv_links _ Hi t r First Hin)|apply (inv_links _ Hi t r Second Hin)].
Qed.

Lemma ids_unique ops c : NoDup (ids (tab c (run ops))).
Proof. apply inv_nodup_ids, inv_run. Qed.

(* destroying an object removes exactly the link rows that mention it *)
Lemma destroy_frame c i s t r :
  In r (link t (destroy c i s)) <->
  In r (link t s) /\ (forall sd, link_cls t sd = c -> col_of sd r <> i).
Proof. unfold destroy. rewrite link_set_tab. apply destroy_links_In. Qed.

(* ... and leaves the foreign keys that point at it in place (cascade=None) *)
Lemma destroy_keeps_fk i s b :
  In b (tB (destroy CA i s)) <-> In b (tB s).
Proof.
  unfold destroy. change (tB (set_tab CA ?t ?n ?s')) with (tB s').
  change (tB (destroy_links CA i s)) with (tab CB (destroy_links CA i s)).
  rewrite tab_destroy_links. reflexivity.
Qed.

(* the executable check used by the correspondence is sound for sql_rows *)
Lemma remove1_perm x l l' : remove1 x l = Some l' -> Permutation l (x :: l').
Proof.
  revert l'. induction l as [|y l IH]; cbn; intros l' H; [discriminate|].
  destruct (x =? y) eqn:E.
  - apply Z.eqb_eq in E. inversion H; subst. apply Permutation_refl.
  - destruct (remove1 x l) as [r|]; [|discriminate]. inversion H; subst.
    eapply perm_trans; [apply perm_skip, IH; reflexivity|apply perm_swap].
Qed.

Lemma perm_b_sound a : forall b, perm_b a b = true -> Permutation a b.
Proof.
  induction a as [|x a IH]; cbn; intros b H.
  - destruct b; [constructor|discriminate].
  - destruct (remove1 x b) as [b'|] eqn:E; [|discriminate].
    apply remove1_perm in E. eapply perm_trans; [apply perm_skip, IH; exact H|].
    apply Permutation_sym. exact E.
Qed.

Lemma map_inj_on {X Y : Type} (f : X -> Y) (l1 l2 : list X) :
  (forall x y, In x l1 -> In y l2 -> f x = f y -> x = y) -> map f l1 = map f l2 -> l1 = l2.
Proof.
  revert l2. induction l1 as [|x l1 IH]; intros [|y l2] Hinj H; cbn in H; try discriminate; auto.
  inversion H. f_equal.
  - apply Hinj; [left; reflexivity|left; reflexivity|assumption].
  - apply IH; [|assumption]. intros; apply Hinj; auto; right; assumption.
Qed.

(* when equal ids mean equal rows among the candidates (true of rows of one
   table in a reachable state) an accepted answer `q` is the id list of a row
   list that satisfies sql_rows *)
Lemma sql_rows_b_sound keys cands q :
  (forall x y, In x cands -> In y cands -> r_id x = r_id y -> x = y) ->
  sql_rows_b keys cands q = true ->
  exists rows, ids rows = q /\ sql_rows keys cands rows.
Proof.
  intros Hinj H. unfold sql_rows_b in H. apply andb_true_iff in H. destruct H as [Hp Hs].
  destruct (get_all cands q) as [rows|] eqn:Hg; [|discriminate].
  assert (Hrows : ids rows = q /\ incl rows cands).
  { clear Hp Hs. revert rows Hg. induction q as [|i q IH]; cbn; intros rows Hg.
    - inversion Hg. split; [reflexivity|intros x []].
    - destruct (get_row cands i) as [r|] eqn:Hr; [|discriminate].
      destruct (get_all cands q) as [rs|]; [|discriminate]. inversion Hg; subst.
      destruct (IH rs eq_refl) as [H1 H2]. apply get_row_Some in Hr. destruct Hr as [Hin Hid].
      split; [unfold ids in *; cbn; congruence|]. intros x [<-|Hx]; auto. }
  destruct Hrows as [Hids Hincl].
  exists rows. split; [exact Hids|]. split.
  - apply perm_b_sound in Hp. rewrite <- Hids in Hp. unfold ids in Hp.
    apply Permutation_sym, Permutation_map_inv in Hp. destruct Hp as [l3 [Heq Hp3]].
    assert (rows = l3) as ->; [|exact Hp3].
    apply (map_inj_on r_id); [|exact Heq].
    intros x y Hx Hy. apply Hinj; [apply Hincl; exact Hx|].
    eapply Permutation_in; [apply Permutation_sym; exact Hp3|exact Hy].
  - apply ssorted_b_sound. exact Hs.
Qed.

(* ------------------------------------------------------------------ *)
(* what add and remove do to the relation, and "from either side"      *)
(* ------------------------------------------------------------------ *)
Lemma flip_flip sd : flip (flip sd) = sd.
Proof. destruct sd; reflexivity. Qed.
Lemma j_owner_mirror j : j_owner (mirror j) = j_other j.
Proof. reflexivity. Qed.
Lemma j_other_mirror j : j_other (mirror j) = j_owner j.
Proof. unfold j_other, j_owner, mirror. cbn. rewrite flip_flip. reflexivity. Qed.

(* b.add<A>(a) through the mirrored join is a.add<B>(b) *)
Lemma add_either_side s j x y : step s (Add (mirror j) y x) = step s (Add j x y).
Proof.
  unfold step. cbn [op_status do_op]. rewrite j_owner_mirror, j_other_mirror.
  rewrite (andb_comm (live (j_other j) y s)).
  destruct (live (j_owner j) x s && live (j_other j) y s); [|reflexivity].
  rewrite !related_add_char, mkpair_mirror. reflexivity.
Qed.

Lemma is_pair_mirror j x y r : is_pair (mirror j) y x r = is_pair j x y r.
Proof. unfold is_pair, mirror. cbn. rewrite flip_flip. apply andb_comm. Qed.

Lemma remove_either_side s j x y : step s (Remove (mirror j) y x) = step s (Remove j x y).
Proof.
  unfold step. cbn [op_status do_op]. rewrite j_owner_mirror, j_other_mirror.
  rewrite (andb_comm (live (j_other j) y s)).
  destruct (live (j_owner j) x s && live (j_other j) y s); [|reflexivity].
  rewrite !related_remove_char. cbn [mirror j_link]. f_equal.
  apply filter_ext. intros r. rewrite is_pair_mirror. reflexivity.
Qed.

Lemma count_occ_app_one (l : list (Z * Z)) p q :
  count_occ pair_dec (l ++ [q]) p =
  (count_occ pair_dec l p + (if pair_dec q p then 1 else 0))%nat.
Proof. rewrite count_occ_app. cbn. destruct (pair_dec q p); reflexivity. Qed.

(* add puts exactly one more row (inst, other) -- duplicates accumulate *)
Lemma add_effect s j x y p :
  op_status s (Add j x y) = SOk ->
  count_occ pair_dec (link (j_link j) (step s (Add j x y))) p =
  (count_occ pair_dec (link (j_link j) s) p + (if pair_dec (mkpair j x y) p then 1 else 0))%nat.
Proof.
  intros H. unfold step. rewrite H. cbn [do_op]. rewrite related_add_char, link_set_link_same.
  apply count_occ_app_one.
Qed.

(* remove deletes every row (inst, other) and nothing else *)
Lemma remove_effect s j x y p :
  op_status s (Remove j x y) = SOk ->
  count_occ pair_dec (link (j_link j) (step s (Remove j x y))) p =
  if pair_dec (mkpair j x y) p then 0%nat else count_occ pair_dec (link (j_link j) s) p.
Proof.
  intros H. unfold step. rewrite H. cbn [do_op]. rewrite related_remove_char, link_set_link_same.
  induction (link (j_link j) s) as [|r l IH]; cbn [filter count_occ].
  - destruct (pair_dec (mkpair j x y) p); reflexivity.
  - destruct (is_pair j x y r) eqn:E; cbn [negb].
    + apply is_pair_spec in E. subst r. rewrite IH.
      destruct (pair_dec (mkpair j x y) p); reflexivity.
    + cbn [count_occ]. rewrite IH.
      destruct (pair_dec r p) as [->|]; [|reflexivity].
      destruct (pair_dec (mkpair j x y) p) as [<-|]; [|reflexivity].
      exfalso. assert (is_pair j x y (mkpair j x y) = true) by (apply is_pair_spec; reflexivity). congruence.
Qed.

(* ------------------------------------------------------------------ *)
(* the exact order of a list join: stable, hence determined            *)
(* ------------------------------------------------------------------ *)
Lemma fetch_sorted_stable o t l rows :
  order_ok o = true -> get_all t l = Some rows ->
  exists res, fetch_sorted o t l = JOk res /\ sortedR o res /\
              stable_wrt rval (order_keys o) rows res /\
              forall l2, sortedR o l2 -> stable_wrt rval (order_keys o) rows l2 -> l2 = res.
Proof.
  intros Hok Hg. unfold fetch_sorted. rewrite Hg.
  destruct (apply_order_spec rval o rows Hok) as [res [Ha [Hp Hs]]].
  destruct (apply_order_stable rval o rows Hok) as [res' [Ha' Hst]].
  rewrite Ha in Ha'. inversion Ha'; subst res'. clear Ha'.
  exists res. rewrite Ha. split; [reflexivity|]. split; [exact Hs|]. split; [exact Hst|].
  intros l2 Hs2 Hst2. apply (stable_sorted_unique rval (order_keys o)); [exact Hs2|exact Hs|].
  intros x. rewrite (Hst2 x), (Hst x). reflexivity.
Qed.

Lemma multiple_join_stable ops o a :
  order_ok o = true ->
  let cands := filter (fk_is a) (tB (run ops)) in
  exists l, multiple_join o (run ops) a = JOk l /\
            stable_wrt rval (order_keys o) cands l /\
            forall l2, sortedR o l2 -> stable_wrt rval (order_keys o) cands l2 -> l2 = l.
Proof.
  intros Hok cands. set (s := run ops) in *. pose proof (inv_run ops) as Hi. fold s in Hi.
  assert (Hnd : NoDup (ids (tB s))) by (apply (inv_nodup_ids s CB Hi)).
  unfold multiple_join, multiple_ids.
  destruct (fetch_sorted_stable o (tB s) (ids cands) cands Hok) as [l [Hf [_ [Hst Hu]]]].
  { apply get_all_sub; [exact Hnd|]. intros x Hx. apply filter_In in Hx. tauto. }
  exists l. auto.
Qed.

(* related joins: the rows come in the order of the link table (rowid), one per
   link row, and are then sorted stably *)
Lemma related_join_stable ops j o inst :
  order_ok o = true ->
  exists rows l,
    ids rows = related_ids j (run ops) inst /\ incl rows (tab (j_other j) (run ops)) /\
    related_join j o (run ops) inst = JOk l /\
    stable_wrt rval (order_keys o) rows l /\
    forall l2, sortedR o l2 -> stable_wrt rval (order_keys o) rows l2 -> l2 = l.
Proof.
  intros Hok. set (s := run ops). pose proof (inv_run ops) as Hi. fold s in Hi.
  destruct (get_all_total (tab (j_other j) s) (related_ids j s inst)) as [rows [Hg [Hids Hincl]]].
  { intros i. apply related_ids_live. exact Hi. }
  destruct (fetch_sorted_stable o _ _ rows Hok Hg) as [l [Hf [_ [Hst Hu]]]].
  exists rows, l. auto.
Qed.

(* how the keys are written makes no difference *)
Lemma same_order_keys o o' : same_order o o' -> Forall2 same_key (order_keys o) (order_keys o').
Proof.
  destruct o, o'; cbn; try contradiction; intros H; auto.
Qed.

Lemma list_join_forms o o' s :
  same_order o o' ->
  (forall a, multiple_join o s a = multiple_join o' s a) /\
  (forall j inst, related_join j o s inst = related_join j o' s inst) /\
  (forall cands q, sql_rows (order_keys o) cands q <-> sql_rows (order_keys o') cands q).
Proof.
  intros H. split; [|split].
  - intros a. unfold multiple_join, fetch_sorted. destruct (get_all _ _); [|reflexivity].
    rewrite (apply_order_form rval o o' _ H). reflexivity.
  - intros j inst. unfold related_join, fetch_sorted. destruct (get_all _ _); [|reflexivity].
    rewrite (apply_order_form rval o o' _ H). reflexivity.
  - intros cands q. unfold sql_rows.
    assert (E : forall x y, lex_le rval (order_keys o) x y = lex_le rval (order_keys o') x y).
    { intros x y. apply lex_le_form, same_order_keys, H. }
    split; intros [Hp Hs]; (split; [exact Hp|]);
      (eapply StronglySorted_ind with (P := fun l => StronglySorted _ l); [constructor| |exact Hs]);
      intros a l _ IH Hf; constructor; auto;
      rewrite Forall_forall in *; intros z Hz; specialize (Hf z Hz); congruence.
Qed.

(* the self-referential query join with an expression key *)
Lemma sql_related_self_expr j o s inst :
  order_ok o = true -> sqlrel_order_ok j o = false -> sql_related j o s inst = JDbError.
Proof. intros Hok Hs. unfold sql_related. rewrite Hok, Hs. reflexivity. Qed.

(* ------------------------------------------------------------------ *)
(* ManyToMany / OneToMany                                              *)
(* ------------------------------------------------------------------ *)
Lemma m2m_as_related ops j o inst :
  order_ok o = true ->
  let cands := m2m_cands j (run ops) inst in
  exists l, related_join j o (run ops) inst = JOk l /\
            Permutation cands l /\ incl cands (tab (j_other j) (run ops)) /\
            (forall x, count_occ Z.eq_dec (ids cands) x =
                       count_occ pair_dec (link (j_link j) (run ops)) (mkpair j inst x)) /\
            forall q, sql_rows (order_keys o) cands q ->
                      Permutation l q /\ (total_on (order_keys o) cands -> q = l).
Proof.
  intros Hok cands. subst cands. set (s := run ops). pose proof (inv_run ops) as Hi. fold s in Hi.
  destruct (get_all_total (tab (j_other j) s) (related_ids j s inst)) as [rows [Hg [Hids Hincl]]].
  { intros i. apply related_ids_live. exact Hi. }
  destruct (fetch_sorted_spec o _ _ rows Hok Hg) as [l [Hf [Hp Hs]]].
  assert (E : m2m_cands j s inst = rows).
  { unfold m2m_cands. rewrite gen_m2m_select_char. apply get_all_flat_map.
    unfold related_ids in Hg. rewrite gen_related_select_char in Hg. exact Hg. }
  rewrite E. exists l. split; [exact Hf|]. split; [exact Hp|]. split; [exact Hincl|]. split.
  - intros x. rewrite Hids, related_ids_char. apply count_related.
  - intros q Hq. apply (agree_from_perm o _ l q Hp Hs Hq).
Qed.

Lemma m2m_symmetric ops j a b :
  count_occ Z.eq_dec (ids (m2m_cands j (run ops) a)) b =
  count_occ Z.eq_dec (ids (m2m_cands (mirror j) (run ops) b)) a.
Proof.
  destruct (m2m_as_related ops j ONone a eq_refl) as [_ [_ [_ [_ [Ha _]]]]].
  destruct (m2m_as_related ops (mirror j) ONone b eq_refl) as [_ [_ [_ [_ [Hb _]]]]].
  rewrite Ha, Hb, mkpair_mirror. reflexivity.
Qed.

Lemma m2m_count ops j inst :
  length (m2m_cands j (run ops) inst) =
  length (filter (fun r => col_of (j_side j) r =? inst) (link (j_link j) (run ops))).
Proof.
  set (s := run ops). pose proof (inv_run ops) as Hi. fold s in Hi.
  destruct (get_all_total (tab (j_other j) s) (related_ids j s inst)) as [rows [Hg [Hids Hincl]]].
  { intros i. apply related_ids_live. exact Hi. }
  assert (E : m2m_cands j s inst = rows).
  { unfold m2m_cands. rewrite gen_m2m_select_char. apply get_all_flat_map.
    unfold related_ids in Hg. rewrite gen_related_select_char in Hg. exact Hg. }
  rewrite E. rewrite <- (map_length r_id rows). fold (ids rows). rewrite Hids, related_ids_char, map_length.
  reflexivity.
Qed.

Lemma o2m_as_multiple ops o a :
  order_ok o = true ->
  let cands := o2m_cands (run ops) a in
  (forall b, In b cands <-> In b (tB (run ops)) /\ r_fk b = Some a) /\ NoDup cands /\
  exists l, multiple_join o (run ops) a = JOk l /\
            forall q, sql_rows (order_keys o) cands q ->
                      Permutation l q /\ (total_on (order_keys o) cands -> q = l).
Proof.
  intros Hok cands. subst cands. unfold o2m_cands. split; [|split].
  - intros b. rewrite filter_In, fk_is_spec. tauto.
  - apply NoDup_filter, nodup_ids_rows. apply (inv_nodup_ids _ CB (inv_run ops)).
  - destruct (list_query_agree_multiple ops o a Hok) as [l [cands [Hl [Hc Hq]]]].
    unfold sql_multiple in Hc. rewrite Hok in Hc. inversion Hc; subst cands.
    exists l. split; [exact Hl|exact Hq].
Qed.

Lemma m2m_add_same s j x y : step s (MAdd j x y) = step s (Add j x y).
Proof.
  unfold step. cbn [op_status do_op].
  destruct (live (j_owner j) x s && live (j_other j) y s); [apply m2m_add_char|reflexivity].
Qed.
Lemma m2m_remove_same s j x y : step s (MRemove j x y) = step s (Remove j x y).
Proof.
  unfold step. cbn [op_status do_op].
  destruct (live (j_owner j) x s && live (j_other j) y s); [apply m2m_remove_char|reflexivity].
Qed.
Lemma m2m_create_steps s j x k0 k1 k2 :
  op_status s (MCreate j x k0 k1 k2) = SOk ->
  step s (MCreate j x k0 k1 k2) =
  step (step s (Create (j_other j) None k0 k1 k2 FkNone)) (Add j x (seqno (j_other j) s + 1)).
Proof.
  intros H. unfold step at 1. rewrite H. cbn [do_op].
  assert (E : step s (Create (j_other j) None k0 k1 k2 FkNone) = create (j_other j) None k0 k1 k2 FkNone s)
    by reflexivity.
  rewrite E. unfold step. rewrite (status_m2m_create j x k0 k1 k2 s H). cbn [do_op].
  apply m2m_add_char.
Qed.

(* OneToMany create (since /repo 80b2179): a Create of B whose foreign key is the owner *)
Lemma o2m_create_same s a k0 k1 k2 :
  live CA a s = true ->
  step s (OCreate a k0 k1 k2) = step s (Create CB None k0 k1 k2 (FkId a)).
Proof. intros H. unfold step. cbn [op_status fkv_live negb]. rewrite H. reflexivity. Qed.

Lemma o2m_create ops a k0 k1 k2 :
  let s := run ops in
  live CA a s = true ->
  exists b, In b (tB (step s (OCreate a k0 k1 k2))) /\ ~ In b (tB s) /\ r_fk b = Some a /\
            r_id b = nB s + 1 /\
            In b (o2m_cands (step s (OCreate a k0 k1 k2)) a).
Proof.
  intros s H. pose proof (inv_run ops) as Hi. fold s in Hi.
  unfold step. cbn [op_status]. rewrite H. cbn [do_op]. unfold create. cbn [seqno fkv_val].
  set (r := {| r_id := nB s + 1; r_k0 := k0; r_k1 := k1; r_k2 := k2; r_fk := Some a |}).
  change (tB (set_tab CB ?t ?n s)) with t.
  assert (Hin : In r (insert_row r (tab CB s))) by (apply In_insert_row; left; reflexivity).
  exists r. split; [exact Hin|]. split; [|split; [reflexivity|split; [reflexivity|]]].
  - intros Hold. assert (In (r_id r) (ids (tab CB s))) as Hid by (apply in_map; exact Hold).
    apply (inv_seq _ Hi CB) in Hid. cbn in Hid. lia.
  - unfold o2m_cands. apply filter_In. split; [exact Hin|]. apply fk_is_spec. reflexivity.
Qed.

(* SingleJoin when class B has a defaultOrder *)
Lemma single_default ops d a r :
  let s := run ops in
  single_first d s a r ->
  (r = None <-> forall b, In b (tB s) -> r_fk b <> Some a) /\
  (forall b, r = Some b -> In b (tB s) /\ r_fk b = Some a /\
             forall b', In b' (tB s) -> r_fk b' = Some a -> lex_le rval (order_keys d) b b' = true) /\
  (forall b, In b (tB s) -> r_fk b = Some a ->
             (forall b', In b' (tB s) -> r_fk b' = Some a -> b' = b) -> r = Some b).
Proof.
  intros s. unfold single_first.
  assert (Hmem : forall b, In b (filter (fk_is a) (tB s)) <-> In b (tB s) /\ r_fk b = Some a).
  { intros b. rewrite filter_In, fk_is_spec. tauto. }
  revert Hmem. generalize (filter (fk_is a) (tB s)) as fl. intros fl Hmem H.
  destruct r as [x|].
  - destruct H as [Hx Hmin]. split; [|split].
    + split; [discriminate|]. intros Hn. exfalso. apply Hmem in Hx. apply (Hn x); tauto.
    + intros b Hb. inversion Hb; subst b. apply Hmem in Hx. split; [tauto|]. split; [tauto|].
      intros b' H1 H2. apply Hmin. apply Hmem. tauto.
    + intros b Hb Hfk Hu. f_equal. apply Hmem in Hx. apply Hu; tauto.
  - subst fl. split; [|split].
    + split; [|reflexivity]. intros _ b Hb Hfk. apply (Hmem b). tauto.
    + discriminate.
    + intros b Hb Hfk _. exfalso. apply (Hmem b). tauto.
Qed.

Lemma single_first_none ops a : single_first ONone (run ops) a (single_join (run ops) a).
Proof.
  unfold single_first, single_join. destruct (filter (fk_is a) (tB (run ops))) as [|x l]; cbn; [reflexivity|].
  split; [left; reflexivity|reflexivity].
Qed.

Lemma names_always_ok j o : has_expr o = false -> sqlrel_order_ok j o = true.
Proof. intros H. unfold sqlrel_order_ok. rewrite H, andb_false_r. reflexivity. Qed.

Lemma default_order_multiple ops d a :
  order_ok d = true ->
  exists l, multiple_join (effective d JDefault) (run ops) a = JOk l /\
            (forall b, In b l <-> In b (tB (run ops)) /\ r_fk b = Some a) /\
            sortedR d l.
Proof.
  intros Hok. destruct (one_to_many ops d a Hok) as [l [H1 [H2 [_ H3]]]]. exists l. auto.
Qed.

(* the full list/query agreement for related joins fails on the self-referential
   join with an expression key *)
Lemma list_query_agree_related_refuted :
  ~ (forall (ops : list op) (j : rjoin) (o : order) (inst : Z),
       order_ok o = true ->
       live (j_owner j) inst (run ops) = true ->
       exists l cands,
         related_join j o (run ops) inst = JOk l /\ sql_related j o (run ops) inst = JOk cands /\
         forall q, sql_rows (order_keys o) cands q ->
                   Permutation l q /\
                   ((forall x y, In x cands -> In y cands ->
                                 lex_le rval (order_keys o) x y = true ->
                                 lex_le rval (order_keys o) y x = true -> x = y) -> q = l)).
Proof.
  intros H.
  destruct (H [Create CP None None None None FkNone] jP_fr
              (OOne {| k_col := CK K0; k_desc := false; k_form := FExpr |}) 1 eq_refl eq_refl)
    as [l [cands [_ [Hs _]]]].
  vm_compute in Hs. discriminate.
Qed.
