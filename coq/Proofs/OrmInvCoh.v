(* List lemmas behind the coherence invariant (C05): what a batch of column
   assignments does to a row, to the instance attributes and to the pending set. *)
From Coq Require Import List ZArith Bool Lia ZifyBool.
From Model Require Import Orm.
From Proofs Require Import OrmBase OrmSpec OrmLazy OrmInvLists OrmInvTables OrmInvDefs.
Import ListNotations.
Open Scope Z_scope.

Definition nkeys {X} (l : list (nat * X)) : list nat := map fst l.

Lemma nassoc_none_notin {X} c (l : list (nat * X)) : nassoc c l = None <-> ~ In c (nkeys l).
Proof.
  induction l as [|[k v] l IH]; cbn; [tauto|].
  destruct (Nat.eqb k c) eqn:E.
  - apply Nat.eqb_eq in E. split; [discriminate|]. intros H. exfalso. apply H. auto.
  - apply Nat.eqb_neq in E. rewrite IH. split; intros H; [intros [H1|H1]; [congruence|tauto]|tauto].
Qed.

Lemma nassoc_In {X} c (x : X) l : nassoc c l = Some x -> In (c, x) l.
Proof.
  induction l as [|[k v] l IH]; cbn; [discriminate|].
  destruct (Nat.eqb k c) eqn:E; intros H.
  - apply Nat.eqb_eq in E. inversion H; subst. auto.
  - auto.
Qed.

Lemma In_nassoc_nodup {X} c (x : X) l : NoDup (nkeys l) -> In (c, x) l -> nassoc c l = Some x.
Proof.
  induction l as [|[k v] l IH]; cbn; [tauto|]. intros Hnd [H|H].
  - inversion H; subst. now rewrite Nat.eqb_refl.
  - inversion Hnd as [|? ? Hk Hnd']; subst. destruct (Nat.eqb k c) eqn:E.
    + apply Nat.eqb_eq in E. subst k. exfalso. apply Hk. apply (in_map fst) in H. exact H.
    + auto.
Qed.

Lemma nassoc_set_other {X} c c' (v : X) p : c <> c' -> nassoc c' (nassoc_set c v p) = nassoc c' p.
Proof.
  intros H. induction p as [|[k x] r IH]; cbn.
  - destruct (Nat.eqb c c') eqn:E; [apply Nat.eqb_eq in E; congruence|reflexivity].
  - destruct (Nat.eqb k c) eqn:E; cbn.
    + apply Nat.eqb_eq in E. subst k. destruct (Nat.eqb c c') eqn:E2; [apply Nat.eqb_eq in E2; congruence|reflexivity].
    + destruct (Nat.eqb k c'); auto.
Qed.

Lemma In_nkeys_nassoc_set {X} c c' (v : X) p : In c' (nkeys (nassoc_set c v p)) <-> c' = c \/ In c' (nkeys p).
Proof.
  induction p as [|[k x] r IH]; cbn; [intuition|].
  destruct (Nat.eqb k c) eqn:E; cbn.
  - apply Nat.eqb_eq in E. subst k. intuition.
  - rewrite IH. intuition.
Qed.

Lemma NoDup_nassoc_set {X} c (v : X) p : NoDup (nkeys p) -> NoDup (nkeys (nassoc_set c v p)).
Proof.
  induction p as [|[k x] r IH]; cbn; intros H; [constructor; [tauto|constructor]|].
  inversion H as [|? ? Hk Hnd]; subst. destruct (Nat.eqb k c) eqn:E; cbn; [exact H|].
  apply Nat.eqb_neq in E. constructor; [|auto]. fold (nkeys (nassoc_set c v r)). rewrite In_nkeys_nassoc_set. intros [->|Hi]; [congruence|].
  apply Hk. exact Hi.
Qed.

Lemma NoDup_pending_update kvs : forall p, NoDup (nkeys p) -> NoDup (nkeys (pending_update kvs p)).
Proof. induction kvs as [|[c v] r IH]; intros p H; cbn; [exact H|]. apply IH. now apply NoDup_nassoc_set. Qed.

Lemma NoDup_as_dict kvs : NoDup (nkeys (as_dict kvs)).
Proof. apply NoDup_pending_update. constructor. Qed.

(* the pending set after a batch whose keys are unique *)
Lemma nassoc_pending_update kw : forall p c, NoDup (nkeys kw) ->
  nassoc c (pending_update kw p) = match nassoc c kw with Some v => Some v | None => nassoc c p end.
Proof.
  induction kw as [|[k v] r IH]; intros p c Hnd; cbn; [reflexivity|].
  inversion Hnd as [|? ? Hk Hnd']; subst. rewrite IH by exact Hnd'.
  destruct (Nat.eqb k c) eqn:E.
  - apply Nat.eqb_eq in E. subst k. apply nassoc_none_notin in Hk. rewrite Hk. apply nassoc_set_same.
  - apply Nat.eqb_neq in E. destruct (nassoc c r); [reflexivity|]. now apply nassoc_set_other.
Qed.

(* a row after a batch of assignments all of whose bindings agree with f *)
Lemma apply_updates_nth (f : nat -> option val) upd : (forall c v, In (c, v) upd -> f c = Some v) ->
  forall r c d, (c < length r)%nat ->
  nth c (apply_updates upd r) d = if mem_nat c (nkeys upd) then match f c with Some v => v | None => d end else nth c r d.
Proof.
  unfold nkeys. induction upd as [|[k v] u IH]; intros Hf r c d Hc; cbn; [reflexivity|].
  rewrite IH; [|intros c' v' Hi; apply Hf; right; exact Hi|rewrite length_set_nth; exact Hc].
  destruct (mem_nat c (map fst u)) eqn:Em; [now rewrite orb_true_r|]. rewrite orb_false_r.
  destruct (Nat.eqb k c) eqn:E.
  - apply Nat.eqb_eq in E. subst k. rewrite nth_set_nth_same by exact Hc. rewrite (Hf c v); [reflexivity|left; reflexivity].
  - apply Nat.eqb_neq in E. now rewrite nth_set_nth_other.
Qed.

(* the attributes of an instance after the same batch *)
Lemma fold_set_val_vals kw : forall i,
  i_vals (fold_left (fun i cv => set_val (fst cv) (snd cv) i) kw i) =
  fold_left (fun vs cv => set_nth (fst cv) (Some (snd cv)) vs) kw (i_vals i).
Proof. induction kw as [|[c v] r IH]; intros i; cbn; [reflexivity|]. rewrite IH. reflexivity. Qed.

Lemma fold_set_nth_length kw : forall (vs : list (option val)),
  length (fold_left (fun vs cv => set_nth (fst cv) (Some (snd cv)) vs) kw vs) = length vs.
Proof. induction kw as [|[c v] r IH]; intros vs; cbn; [reflexivity|]. rewrite IH. apply length_set_nth. Qed.

Lemma fold_set_nth_nth (f : nat -> option val) kw : (forall c v, In (c, v) kw -> f c = Some v) ->
  forall (vs : list (option val)) c, (c < length vs)%nat ->
  nth c (fold_left (fun vs cv => set_nth (fst cv) (Some (snd cv)) vs) kw vs) None =
  if mem_nat c (nkeys kw) then f c else nth c vs None.
Proof.
  unfold nkeys. induction kw as [|[k v] u IH]; intros Hf vs c Hc; cbn; [reflexivity|].
  rewrite IH; [|intros c' v' Hi; apply Hf; right; exact Hi|rewrite length_set_nth; exact Hc].
  destruct (mem_nat c (map fst u)) eqn:Em; [now rewrite orb_true_r|]. rewrite orb_false_r.
  destruct (Nat.eqb k c) eqn:E.
  - apply Nat.eqb_eq in E. subst k. rewrite nth_set_nth_same by exact Hc. rewrite (Hf c v); [reflexivity|left; reflexivity].
  - apply Nat.eqb_neq in E. now rewrite nth_set_nth_other.
Qed.

Lemma vals3_set_nth c v vs : vals3 vs -> vals3 (set_nth c (Some v) vs).
Proof. intros (a & b & d & ->). destruct c as [|[|[|[|c]]]]; cbn; unfold vals3; do 3 eexists; reflexivity. Qed.

Lemma vals3_length vs : vals3 vs -> length vs = 3%nat.
Proof. intros (a & b & d & ->). reflexivity. Qed.

Lemma vals3_fold kw : forall vs, vals3 vs -> vals3 (fold_left (fun vs cv => set_nth (fst cv) (Some (snd cv)) vs) kw vs).
Proof. induction kw as [|[c v] r IH]; intros vs H; cbn; [exact H|]. apply IH. now apply vals3_set_nth. Qed.

(* sort_cols keeps exactly the columns *)
Lemma In_insert_sorted c x l : In x (insert_sorted c l) <-> x = c \/ In x l.
Proof.
  induction l as [|y l IH]; cbn; [intuition|].
  destruct (Nat.leb c y) eqn:E1.
  - destruct (Nat.eqb c y) eqn:E2; cbn; [apply Nat.eqb_eq in E2; subst; intuition|intuition].
  - cbn. rewrite IH. intuition.
Qed.
Lemma In_sort_cols x l : In x (sort_cols l) <-> In x l.
Proof.
  unfold sort_cols. induction l as [|y l IH]; cbn; [tauto|]. rewrite In_insert_sorted, IH. intuition.
Qed.

Lemma In_sorted_pending c v p : In (c, v) (sorted_pending p) -> nassoc c p = Some v.
Proof.
  unfold sorted_pending. rewrite in_flat_map. intros (c' & _ & Hi).
  destruct (nassoc c' p) as [v'|] eqn:E; cbn in Hi; [|tauto]. destruct Hi as [Hi|[]]. inversion Hi; subst. exact E.
Qed.

Lemma mem_sorted_pending c p : mem_nat c (nkeys (sorted_pending p)) = mem_nat c (nkeys p).
Proof.
  apply eq_true_iff_eq. rewrite !mem_nat_In. unfold nkeys, sorted_pending. split.
  - intros Hi. apply in_map_iff in Hi. destruct Hi as ([c' v] & E & Hi). cbn in E. subst c'.
    apply In_sorted_pending in Hi. apply nassoc_In in Hi. apply (in_map fst) in Hi. exact Hi.
  - intros Hi. destruct (nassoc c p) as [v|] eqn:E; [|apply nassoc_none_notin in E; contradiction].
    apply in_map_iff. exists (c, v). split; [reflexivity|]. apply in_flat_map. exists c. split.
    + apply In_sort_cols. exact Hi.
    + rewrite E. left. reflexivity.
Qed.

Lemma mem_nkeys_nassoc {X} c (p : list (nat * X)) : mem_nat c (nkeys p) = match nassoc c p with Some _ => true | None => false end.
Proof.
  destruct (nassoc c p) eqn:E.
  - apply mem_nat_In. apply nassoc_In in E. apply (in_map fst) in E. exact E.
  - apply nassoc_none_notin in E. destruct (mem_nat c (nkeys p)) eqn:Em; [|reflexivity]. apply mem_nat_In in Em. contradiction.
Qed.

(* ------------------------------------------------------------------ coherence of one instance under writes *)
Definition shows_with (i : inst) (r : row) : Prop :=
  forall c v, nth c (i_vals i) None = Some v ->
    match nassoc c (i_pending i) with Some p => v = p | None => nth c r VNull = v end.

Lemma shows_of_with s i r : assoc (i_id i) (t_rows (tbl s (i_k i))) = Some r -> shows_with i r -> shows s i.
Proof. intros Hr Hw c v Hv. specialize (Hw c v Hv). destruct (nassoc c (i_pending i)); [exact Hw|]. exists r. auto. Qed.

Lemma with_of_shows s i r : assoc (i_id i) (t_rows (tbl s (i_k i))) = Some r -> shows s i -> shows_with i r.
Proof.
  intros Hr Hs c v Hv. specialize (Hs c v Hv). destruct (nassoc c (i_pending i)); [exact Hs|].
  destruct Hs as (r' & Hr' & Hn). congruence.
Qed.

Lemma nth_some_lt {X} c (l : list (option X)) v : nth c l None = Some v -> (c < length l)%nat.
Proof.
  intros H. destruct (Nat.lt_ge_cases c (length l)) as [Hl|Hl]; [exact Hl|]. rewrite nth_overflow in H by exact Hl. discriminate.
Qed.

Lemma shows_setattr_eager i c v r :
  i_pending i = [] -> vals3 (i_vals i) -> length r = 3%nat -> shows_with i r ->
  shows_with (set_val c v i) (apply_updates [(c, v)] r).
Proof.
  intros Hp V Hl Hs c' v' Hv. cbn in *. rewrite Hp. cbn.
  pose proof (nth_some_lt _ _ _ Hv) as Hlt. rewrite length_set_nth, (vals3_length _ V) in Hlt.
  destruct (Nat.eq_dec c c') as [->|Hne].
  - rewrite nth_set_nth_same in Hv by (rewrite (vals3_length _ V); exact Hlt). inversion Hv; subst.
    apply nth_set_nth_same. lia.
  - rewrite nth_set_nth_other in Hv by exact Hne. rewrite nth_set_nth_other by exact Hne.
    specialize (Hs c' v' Hv). rewrite Hp in Hs. exact Hs.
Qed.

Lemma shows_setattr_lazy s i c v :
  vals3 (i_vals i) -> shows s i ->
  shows s (set_val c v (i_with_pending (i_with_dirty i true) (nassoc_set c v (i_pending i)))).
Proof.
  intros V Hs c' v' Hv. cbn in *.
  pose proof (nth_some_lt _ _ _ Hv) as Hlt. rewrite length_set_nth in Hlt.
  destruct (Nat.eq_dec c c') as [->|Hne].
  - rewrite nth_set_nth_same in Hv by exact Hlt. inversion Hv; subst. rewrite nassoc_set_same. reflexivity.
  - rewrite nth_set_nth_other in Hv by exact Hne. rewrite nassoc_set_other by exact Hne. exact (Hs c' v' Hv).
Qed.

Lemma nodup_fun {X} (kw : list (nat * X)) : NoDup (nkeys kw) -> forall c v, In (c, v) kw -> nassoc c kw = Some v.
Proof. intros H c v. now apply In_nassoc_nodup. Qed.

Lemma shows_batch_eager i kw r :
  NoDup (nkeys kw) -> i_pending i = [] -> vals3 (i_vals i) -> length r = 3%nat -> shows_with i r ->
  shows_with (fold_left (fun i cv => set_val (fst cv) (snd cv) i) kw i) (apply_updates (sorted_pending kw) r).
Proof.
  intros Hnd Hp V Hl Hs c v Hv.
  destruct (fold_set_val_fields kw i) as (_ & Ep & _). cbn zeta in Ep. rewrite Ep, Hp. cbn.
  rewrite fold_set_val_vals in Hv.
  pose proof (nth_some_lt _ _ _ Hv) as Hlt. rewrite fold_set_nth_length, (vals3_length _ V) in Hlt.
  rewrite (fold_set_nth_nth (fun c => nassoc c kw) kw (nodup_fun kw Hnd)) in Hv by (rewrite (vals3_length _ V); exact Hlt).
  rewrite (apply_updates_nth (fun c => nassoc c kw) (sorted_pending kw) (fun c v => In_sorted_pending c v kw)) by lia.
  rewrite mem_sorted_pending.
  destruct (mem_nat c (nkeys kw)); [rewrite Hv; reflexivity|].
  specialize (Hs c v Hv). rewrite Hp in Hs. exact Hs.
Qed.

Lemma shows_batch_lazy s i kw d :
  NoDup (nkeys kw) -> vals3 (i_vals i) -> shows s i ->
  shows s (i_with_dirty (i_with_pending (fold_left (fun i cv => set_val (fst cv) (snd cv) i) kw i)
                                        (pending_update kw (i_pending i))) d).
Proof.
  intros Hnd V Hs c v Hv. cbn in *.
  destruct (fold_set_val_fields kw i) as (_ & _ & Ek & Ei & _). cbn zeta in Ek, Ei. rewrite Ek, Ei.
  rewrite fold_set_val_vals in Hv.
  pose proof (nth_some_lt _ _ _ Hv) as Hlt. rewrite fold_set_nth_length in Hlt.
  rewrite (fold_set_nth_nth (fun c => nassoc c kw) kw (nodup_fun kw Hnd)) in Hv by exact Hlt.
  rewrite nassoc_pending_update by exact Hnd.
  rewrite mem_nkeys_nassoc in Hv. destruct (nassoc c kw) as [w|]; [congruence|].
  exact (Hs c v Hv).
Qed.

Lemma vals3_fold_set_val kw i : vals3 (i_vals i) -> vals3 (i_vals (fold_left (fun i cv => set_val (fst cv) (snd cv) i) kw i)).
Proof. intros V. rewrite fold_set_val_vals. now apply vals3_fold. Qed.

(* a flush: the pending values go to the row *)
Lemma shows_flush i r :
  vals3 (i_vals i) -> length r = 3%nat -> shows_with i r ->
  shows_with (i_with_pending (i_with_dirty i false) []) (apply_updates (sorted_pending (i_pending i)) r).
Proof.
  intros V Hl Hs c v Hv. cbn in *. specialize (Hs c v Hv).
  pose proof (nth_some_lt _ _ _ Hv) as Hlt. rewrite (vals3_length _ V) in Hlt.
  rewrite (apply_updates_nth (fun c => nassoc c (i_pending i)) (sorted_pending (i_pending i)) (fun c v => In_sorted_pending c v _)) by lia.
  rewrite mem_sorted_pending, mem_nkeys_nassoc. destruct (nassoc c (i_pending i)); [congruence|exact Hs].
Qed.

(* ------------------------------------------------------------------ the keyword arguments of a create *)
Lemma fill_defaults_spec cols : forall d kw,
  fill_defaults cols d = Some kw -> NoDup (nkeys d) ->
  NoDup (nkeys kw) /\ (forall c, In c cols -> nassoc c kw <> None) /\ (forall c, nassoc c d <> None -> nassoc c kw <> None).
Proof.
  induction cols as [|c0 r IH]; intros d kw H Hnd; cbn [fill_defaults] in H.
  - inversion H; subst. split; [exact Hnd|]. split; [intros c []|auto].
  - destruct (nassoc c0 d) eqn:E0.
    + destruct (IH d kw H Hnd) as (A & B & C). split; [exact A|]. split; [|exact C].
      intros c [<-|Hc]; [apply C; congruence|exact (B c Hc)].
    + destruct (col_default c0) as [dv|]; [|discriminate].
      destruct (IH (nassoc_set c0 dv d) kw H (NoDup_nassoc_set c0 dv d Hnd)) as (A & B & C).
      split; [exact A|]. split.
      * intros c [<-|Hc]; [apply C; rewrite nassoc_set_same; discriminate|exact (B c Hc)].
      * intros c Hc. apply C. destruct (Nat.eq_dec c0 c) as [->|Hne]; [rewrite nassoc_set_same; discriminate|].
        now rewrite nassoc_set_other.
Qed.

(* what a freshly created instance shows before its reload is what was inserted *)
Lemma create_vals kw :
  NoDup (nkeys kw) -> (forall c, In c all_cols -> nassoc c kw <> None) ->
  let vs := fold_left (fun vs cv => set_nth (fst cv) (Some (snd cv)) vs) kw [None; None; None] in
  vals3 vs /\ forall c v, nth c vs None = Some v -> nth c (apply_updates (sorted_pending kw) [VNull; VNull; VNull]) VNull = v.
Proof.
  intros Hnd Hall vs.
  assert (Hn : forall c, (c < 3)%nat -> nth c vs None = nassoc c kw).
  { intros c Hc. unfold vs. rewrite (fold_set_nth_nth (fun c => nassoc c kw) kw (nodup_fun kw Hnd)) by (cbn; exact Hc).
    rewrite mem_nkeys_nassoc. destruct (nassoc c kw) eqn:E; [reflexivity|].
    exfalso. apply (Hall c); [|exact E]. unfold all_cols. destruct c as [|[|[|c]]]; cbn; auto. lia. }
  assert (Hl : length vs = 3%nat) by (unfold vs; now rewrite fold_set_nth_length).
  split.
  - destruct vs as [|a [|b [|d [|e vs']]]]; try discriminate Hl.
    pose proof (Hn 0%nat ltac:(lia)) as E0. pose proof (Hn 1%nat ltac:(lia)) as E1. pose proof (Hn 2%nat ltac:(lia)) as E2. cbn in E0, E1, E2.
    destruct (nassoc 0%nat kw) as [x0|] eqn:N0; [|exfalso; apply (Hall 0%nat); cbn; auto].
    destruct (nassoc 1%nat kw) as [x1|] eqn:N1; [|exfalso; apply (Hall 1%nat); cbn; auto].
    destruct (nassoc 2%nat kw) as [x2|] eqn:N2; [|exfalso; apply (Hall 2%nat); cbn; auto].
    subst. exists x0, x1, x2. reflexivity.
  - intros c v Hv. pose proof (nth_some_lt _ _ _ Hv) as Hlt. rewrite Hl in Hlt. rewrite (Hn c Hlt) in Hv.
    rewrite (apply_updates_nth (fun c => nassoc c kw) (sorted_pending kw) (fun c v => In_sorted_pending c v kw)) by (cbn; exact Hlt).
    rewrite mem_sorted_pending, mem_nkeys_nassoc, Hv. reflexivity.
Qed.

Lemma NoDup_nkeys_filter {X} (f : nat * X -> bool) l : NoDup (nkeys l) -> NoDup (nkeys (filter f l)).
Proof.
  induction l as [|[k v] l IH]; cbn; [auto|]. intros H. inversion H as [|? ? Hk Hnd]; subst.
  destruct (f (k, v)); cbn; [|auto]. constructor; [|auto].
  intros Hi. apply Hk. unfold nkeys in *. rewrite in_map_iff in *. destruct Hi as (e & E & Hi).
  apply filter_In in Hi. exists e. tauto.
Qed.

(* the column keywords of a set call *)
Lemma NoDup_set_kw kvs : NoDup (nkeys (filter (fun cv : nat * val => is_col (fst cv)) (as_dict kvs))).
Proof. apply NoDup_nkeys_filter. apply NoDup_as_dict. Qed.
