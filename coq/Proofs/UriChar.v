(* Characterisation of the GENERATED builders (Gen/Uri.v) by the closed forms
   of Model/Uri.v.  A change of DBConnection.uri, SQLiteConnection.uri or
   SQLiteConnection._connectionFromParams changes Gen/Uri.v, and these lemmas
   are the obligations that break. *)
From Coq Require Import List NArith ZArith Bool Lia ZifyBool.
From Lib Require Import UriPy.
From Gen Require Import Uri.
From Model Require Import Uri.
From Proofs Require Import UriLists UriQuote.
Import ListNotations.
Open Scope N_scope.

Ltac split_valid :=
  repeat match goal with
         | |- context [valid_text ?x] => destruct (valid_text x) eqn:?
         end.
Lemma quote_nil safe : quote safe [] = [].
Proof. reflexivity. Qed.

Ltac fin :=
  cbn -[valid_text quote dec_of_Z app N.eqb str_eqb chr_in]; rewrite ?quote_nil; repeat rewrite app_nil_r;
  repeat (progress (rewrite <- ?app_assoc; cbn [app]));
  try reflexivity; try congruence.

(* DBConnection.uri *)
Lemma gen_uri_char name user pw host port db :
  build_uri name user pw host port db = clean_uri name user pw host port db.
Proof.
  unfold build_uri, clean_uri, clean_auth, clean_hostport, port_part, host_text, gen_uri, oport, strip1.
  destruct user as [|cu user]; destruct pw as [|cp pw]; destruct host as [|ch host];
    destruct port as [z|]; destruct db as [|d db].
  all: cbn -[valid_text quote dec_of_Z app N.eqb chr_in].
  all: try (destruct (chr_in 58 (ch :: host)) eqn:Ec; cbn -[valid_text quote dec_of_Z app N.eqb chr_in]).
  all: try (destruct (ch =? 91) eqn:Eb; cbn -[valid_text quote dec_of_Z app N.eqb chr_in]).
  all: try (destruct (d =? 47) eqn:Ed).
  all: cbn -[valid_text quote dec_of_Z app N.eqb chr_in].
  all: split_valid; fin.
Qed.

(* SQLiteConnection.uri *)
Lemma gen_sqlite_uri_char filename :
  sqlite_uri filename = clean_sqlite_uri filename.
Proof.
  unfold sqlite_uri, clean_sqlite_uri, gen_sqlite_uri, memory_name, sqlite_prefix, is_abs.
  cbn -[valid_text quote app N.eqb str_eqb].
  destruct (str_eqb filename [58; 109; 101; 109; 111; 114; 121; 58]) eqn:Em; [reflexivity|].
  destruct filename as [|d fn].
  - cbn -[valid_text quote app N.eqb str_eqb]. reflexivity.
  - assert (Hs : str_eqb [d] [47] = (d =? 47)) by (cbn; apply andb_true_r).
    cbn -[valid_text quote app N.eqb str_eqb]. rewrite Hs.
    destruct (d =? 47) eqn:Ed; cbn -[valid_text quote N.eqb str_eqb].
    + change (valid_text (47 :: 47 :: d :: fn)) with (valid_text (d :: fn)).
      split_valid; fin.
    + change (valid_text (47 :: 47 :: 47 :: d :: fn)) with (valid_text (d :: fn)).
      split_valid; fin.
Qed.

(* SQLiteConnection._connectionFromParams *)
Definition clean_sqlite_from_params (r : pres) : ures str :=
  match r_host r, r_port r, r_user r, r_pw r with
  | None, None, None, None =>
      if str_eqb (r_path r) (47 :: memory_name) then ROk memory_name else ROk (r_path r)
  | _, _, _, _ => RErr X_Assert
  end.

Lemma gen_sqlite_from_params_char r : sqlite_from_params r = clean_sqlite_from_params r.
Proof.
  unfold sqlite_from_params, clean_sqlite_from_params, gen_sqlite_from_params, memory_name, ostr, oN.
  destruct (r_host r), (r_port r), (r_user r), (r_pw r); try reflexivity.
  cbn -[str_eqb]. destruct (str_eqb (r_path r) _); reflexivity.
Qed.
