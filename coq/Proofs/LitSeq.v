(* C02, lists of values: the rendering of n values has exactly n top-level
   members, each the literal of the corresponding value, in order -- at the
   level of the text (what SequenceConverter joins) and at the level of the
   tokens a database scanner reads (cutting at the commas outside every
   parenthesis gives back exactly the literal tokens of each value). *)
From Coq Require Import List NArith ZArith Bool Lia ZifyBool.
From Lib Require Import Str Lex.
From Gen Require Import Lit.
From Model Require Import Lit.
From Proofs Require Import LitStr LitTok LitStmt.
Import ListNotations.
Open Scope N_scope.

(* ---------------------------------------------------------------- text level *)
Lemma sequence_Forall2 {A B} (f : A -> option B) : forall l rs,
  sequence (map f l) = Some rs -> Forall2 (fun v r => f v = Some r) l rs.
Proof.
  induction l as [|v l IH]; intros rs E.
  - cbn in E. injection E as <-. constructor.
  - cbn [map sequence] in E. destruct (f v) as [r|] eqn:Ev; [|discriminate E].
    destruct (sequence (map f l)) as [rs'|]; [|discriminate E]. injection E as <-.
    constructor; [exact Ev|]. now apply IH.
Qed.

(* SequenceConverter: `(` r1 `, ` r2 ... `)` where ri is the rendering of the i-th value *)
Lemma sequence_text d vs text :
  render d (VSeq vs) = Some text ->
  exists rs, Forall2 (fun v r => render d v = Some r) vs rs /\ text = [40] ++ join [44; 32] rs ++ [41].
Proof.
  cbn [render]. intros E. destruct (sequence (map (render d) vs)) as [rs|] eqn:Es; [|discriminate E].
  cbn [obind] in E. unfold gen_SequenceConverter in E. injection E as <-.
  exists rs. split; [now apply sequence_Forall2|reflexivity].
Qed.

Lemma Forall2_length' {A B} (P : A -> B -> Prop) : forall a b, Forall2 P a b -> length b = length a.
Proof. induction 1; [reflexivity|]. cbn. now f_equal. Qed.

Lemma sequence_text_count d vs text :
  render d (VSeq vs) = Some text ->
  exists rs, length rs = length vs /\
             (forall i v, nth_error vs i = Some v -> exists r, nth_error rs i = Some r /\ render d v = Some r) /\
             text = [40] ++ join [44; 32] rs ++ [41].
Proof.
  intros E. destruct (sequence_text d vs text E) as (rs & HF & ->). exists rs.
  split; [now apply Forall2_length' in HF|]. split; [|reflexivity].
  clear E. induction HF as [|v r vs rs Hv HF IH]; intros i w Hi.
  - destruct i; discriminate Hi.
  - destruct i as [|i]; cbn [nth_error] in *.
    + injection Hi as <-. exists r. split; [reflexivity|exact Hv].
    + now apply IH.
Qed.

(* ---------------------------------------------------------------- token level *)
Definition prepend (m : list token) (l : list (list token)) : list (list token) :=
  match l with x :: xs => (m ++ x) :: xs | [] => [m] end.

Lemma split_top_nonempty : forall l k, split_top k l <> [].
Proof.
  induction l as [|t r IH]; intros k; cbn [split_top]; [discriminate|].
  destruct (is_punct c_comma t && Nat.eqb k 0); [discriminate|].
  destruct (split_top (depth_after k t) r); discriminate.
Qed.

Lemma prepend_nil l : l <> [] -> prepend [] l = l.
Proof. destruct l; [congruence|reflexivity]. Qed.

Lemma prepend_app a b l : prepend (a ++ b) l = prepend a (prepend b l).
Proof. destruct l; cbn [prepend]; [reflexivity|]. now rewrite app_assoc. Qed.

(* a run of tokens that is carried along unchanged when it is met at depth k *)
Definition chunk_at (k : nat) (m : list token) : Prop :=
  forall rest, split_top k (m ++ rest) = prepend m (split_top k rest).
Definition chunk (m : list token) : Prop := forall k, chunk_at k m.
Definition inner (m : list token) : Prop := forall k, chunk_at (S k) m.

Lemma chunk_at_nil k : chunk_at k [].
Proof. intros rest. cbn [app]. symmetry. apply prepend_nil, split_top_nonempty. Qed.

Lemma chunk_at_app k a b : chunk_at k a -> chunk_at k b -> chunk_at k (a ++ b).
Proof. intros Ha Hb rest. rewrite <- app_assoc, Ha, Hb. symmetry. apply prepend_app. Qed.

Lemma chunk_inner m : chunk m -> inner m.
Proof. intros H k. apply H. Qed.

Lemma chunk_atom t :
  is_punct c_comma t = false -> is_punct c_lp t = false -> is_punct c_rp t = false -> chunk [t].
Proof.
  intros H1 H2 H3 k rest. cbn [app split_top]. rewrite H1. cbn [andb].
  unfold depth_after. rewrite H2, H3.
  pose proof (split_top_nonempty rest k). destruct (split_top k rest); [congruence|reflexivity].
Qed.

Lemma comma_inner : inner [TPunct c_comma].
Proof.
  intros k rest. cbn [app split_top is_punct]. rewrite N.eqb_refl. cbn [Nat.eqb andb].
  unfold depth_after. cbn [is_punct].
  change (c_comma =? c_lp) with false. change (c_comma =? c_rp) with false.
  pose proof (split_top_nonempty rest (S k)). destruct (split_top (S k) rest); [congruence|reflexivity].
Qed.

Lemma paren_chunk body : inner body -> chunk (TPunct c_lp :: body ++ [TPunct c_rp]).
Proof.
  intros Hb k rest. cbn [app split_top is_punct].
  change (c_lp =? c_comma) with false. cbn [andb].
  unfold depth_after at 1. cbn [is_punct]. rewrite N.eqb_refl.
  rewrite <- app_assoc. rewrite (Hb k). cbn [app split_top is_punct].
  change (c_rp =? c_comma) with false. cbn [andb].
  unfold depth_after. cbn [is_punct]. change (c_rp =? c_lp) with false. rewrite N.eqb_refl. cbn [pred].
  pose proof (split_top_nonempty rest k). destruct (split_top k rest) as [|x xs]; [congruence|].
  cbn [prepend app]. rewrite <- app_assoc. reflexivity.
Qed.

Lemma sep_inner : forall l, Forall chunk l -> inner (sep_tokens (TPunct c_comma) l).
Proof.
  induction l as [|x l IH]; intros HF k.
  - apply chunk_at_nil.
  - inversion HF as [|? ? Hx Hl]; subst. destruct l as [|y l'].
    + apply Hx.
    + rewrite sep_tokens2. apply chunk_at_app; [apply Hx|].
      change (TPunct c_comma :: sep_tokens (TPunct c_comma) (y :: l'))
        with ([TPunct c_comma] ++ sep_tokens (TPunct c_comma) (y :: l')).
      apply chunk_at_app; [apply comma_inner|now apply IH].
Qed.

(* the literal tokens of a value are one member: balanced, no comma outside its own parentheses *)
Lemma lit_tokens_chunk d : forall v, chunk (lit_tokens d v).
Proof.
  apply value_ind'; cbn [lit_tokens]; intros; try (apply chunk_atom; reflexivity).
  - destruct d, b; apply chunk_atom; reflexivity.
  - apply paren_chunk, sep_inner. apply Forall_forall. intros tk Hin.
    apply in_map_iff in Hin. destruct Hin as (v & <- & Hv). rewrite Forall_forall in H. now apply H.
Qed.

Lemma lit_tokens_nonempty d v : lit_tokens d v <> [].
Proof. destruct v; cbn [lit_tokens]; try discriminate. destruct d; discriminate. Qed.

(* cutting the comma-separated tokens of n members at depth 0 gives the n members back, in order *)
Lemma split_sep : forall l, Forall chunk l -> l <> [] ->
  split_top 0 (sep_tokens (TPunct c_comma) l) = l.
Proof.
  induction l as [|x l IH]; intros HF Hne; [congruence|].
  inversion HF as [|? ? Hx Hl]; subst. destruct l as [|y l'].
  - cbn [sep_tokens]. rewrite <- (app_nil_r x) at 1. rewrite (Hx 0%nat []). cbn. now rewrite app_nil_r.
  - rewrite sep_tokens2. rewrite (Hx 0%nat). cbn [split_top is_punct]. rewrite N.eqb_refl. cbn [Nat.eqb andb].
    rewrite IH by (try assumption; discriminate). cbn [prepend]. now rewrite app_nil_r.
Qed.

Lemma sep_nonempty (sep : token) : forall l : list (list token), (forall x, In x l -> x <> []) -> l <> [] -> sep_tokens sep l <> [].
Proof.
  intros [|x [|y r]] H Hne; [congruence| |].
  - cbn [sep_tokens]. apply H. now left.
  - rewrite sep_tokens2. specialize (H x (or_introl eq_refl)). destruct x; [congruence|discriminate].
Qed.

Lemma members_lit d vs : members (lit_tokens d (VSeq vs)) = Some (map (lit_tokens d) vs).
Proof.
  cbn [lit_tokens members is_punct]. rewrite N.eqb_refl. cbn [andb].
  rewrite last_last. cbn [is_punct]. rewrite N.eqb_refl. rewrite removelast_last.
  destruct vs as [|v vs]; [reflexivity|].
  assert (HF : Forall chunk (map (lit_tokens d) (v :: vs))).
  { apply Forall_forall. intros tk Hin. apply in_map_iff in Hin. destruct Hin as (w & <- & _). apply lit_tokens_chunk. }
  assert (Hne : map (lit_tokens d) (v :: vs) <> []) by discriminate.
  assert (Hs : sep_tokens (TPunct c_comma) (map (lit_tokens d) (v :: vs)) <> []).
  { apply sep_nonempty; [|exact Hne]. intros x Hin. apply in_map_iff in Hin. destruct Hin as (w & <- & _).
    apply lit_tokens_nonempty. }
  rewrite <- (split_sep _ HF Hne) at 2.
  destruct (sep_tokens (TPunct c_comma) (map (lit_tokens d) (v :: vs))); [congruence|reflexivity].
Qed.

Lemma members_count d vs ms : members (lit_tokens d (VSeq vs)) = Some ms -> length ms = length vs.
Proof. rewrite members_lit. intros E. injection E as <-. apply map_length. Qed.

(* the rendered list, read by the tokenizer, has exactly the given values as members *)
Lemma sequence_members d vs :
  forallb (value_ok d) vs = true ->
  exists text toks, render d (VSeq vs) = Some text /\ tokens_ok d text toks /\
                    members toks = Some (map (lit_tokens d) vs).
Proof.
  intros Hv. destruct (render_tokens d (VSeq vs) Hv) as (text & E & P).
  exists text, (lit_tokens d (VSeq vs)). split; [exact E|]. split; [now apply piece_whole|apply members_lit].
Qed.

(* func.NAME(v1, ..., vn) *)
Lemma call_stmt d name vs :
  safe_ident name = true -> forallb (value_ok d) vs = true ->
  exists text, call_sql d name vs = Some text /\ tokens_ok d text (call_skeleton d name vs).
Proof.
  intros Hn Hv. destruct (render_tokens d (VSeq vs) Hv) as (r & Er & Pr).
  unfold call_sql. rewrite Er. cbn [obind]. eexists. split; [reflexivity|].
  unfold call_skeleton. apply tok_word; [exact Hn| |now apply piece_whole].
  cbn [render] in Er. destruct (sequence (map (render d) vs)) as [rs|]; [|discriminate Er].
  cbn [obind] in Er. unfold gen_SequenceConverter in Er. injection Er as <-.
  cbn. split; reflexivity.
Qed.

Lemma call_members d name vs :
  safe_ident name = true -> forallb (value_ok d) vs = true ->
  exists text toks, call_sql d name vs = Some text /\ tokens_ok d text (TWord name :: toks) /\
                    members toks = Some (map (lit_tokens d) vs).
Proof.
  intros Hn Hv. destruct (call_stmt d name vs Hn Hv) as (text & E & T).
  exists text, (lit_tokens d (VSeq vs)). split; [exact E|]. split; [exact T|apply members_lit].
Qed.
