(* C20: the invariants of the versioning model and the theorems over histories. *)
From Coq Require Import List ZArith NArith Bool Lia.
From Model Require Import Events Versioning.
From Proofs Require Import EventsBase VersioningBase.
Import ListNotations.
Open Scope Z_scope.

(* well-formedness, kept by every operation (failing ones included) *)
Record vwf (st : vstate) : Prop := {
  w_rows : forall m r, row_of m (m_tbl st) = Some r -> validate r = true /\ full r;
  w_vers : forall ver, In ver (v_tbl st) -> validate (v_vals ver) = true /\ full (v_vals ver)
}.

(* the history invariant and what it needs *)
Record vinv (st : vstate) : Prop := {
  i_bound : forall m r, row_of m (m_tbl st) = Some r -> m < m_next st;
  i_none : forall m, row_of m (m_tbl st) = None -> versions_of m st = [] /\ hist_of m st = [];
  i_hist : forall m r, row_of m (m_tbl st) = Some r -> map v_vals (versions_of m st) ++ [r] = hist_of m st
}.

Lemma vwf_init : vwf vinit.
Proof. split; simpl; intros; [discriminate|contradiction]. Qed.
Lemma vinv_init : vinv vinit.
Proof. split; simpl; intros; try discriminate. split; reflexivity. Qed.

(* ------------------------------------------------------------------ the update path *)
(* what a successful update does, in any state *)
Lemma vupdate_done st m kw st' :
  vupdate st m kw = (st', VDone) ->
  exists r, row_of m (m_tbl st) = Some r /\ validate kw = true
    /\ m_tbl st' = tbl_update m (sort_cols kw) (m_tbl st) /\ m_next st' = m_next st
    /\ v_tbl st' = v_tbl st ++ [{| v_id := v_next st; v_master := m; v_vals := r |}]
    /\ v_next st' = v_next st + 1
    /\ hist st' = hist_push m (row_update (sort_cols kw) r) (hist st).
Proof.
  unfold vupdate. destruct (row_of m (m_tbl st)) as [r|]; [|discriminate].
  destruct (validate kw) eqn:E; simpl; [|discriminate].
  destruct (a_conflict (Some m) (sort_cols kw) (m_tbl st)); intros H; inversion H; subst; clear H.
  exists r. repeat split; reflexivity.
Qed.

(* an update refused by validation changes nothing at all (6e91999) *)
Lemma vupdate_invalid st m kw st' : vupdate st m kw = (st', VExn XInvalid) -> st' = st.
Proof.
  unfold vupdate. destruct (row_of m (m_tbl st)) as [r|]; [|discriminate].
  destruct (validate kw); simpl; [|intros H; inversion H; reflexivity].
  destruct (a_conflict _ _ _); discriminate.
Qed.

Lemma versions_of_app m st st' ver :
  v_tbl st' = v_tbl st ++ [ver] ->
  versions_of m st' = versions_of m st ++ (if Z.eqb (v_master ver) m then [ver] else []).
Proof. unfold versions_of. intros ->. rewrite filter_app. reflexivity. Qed.

Lemma vupdate_wf st m kw : vwf st -> vwf (fst (vupdate st m kw)).
Proof.
  intros [Hr Hv]. unfold vupdate. destruct (row_of m (m_tbl st)) as [r|] eqn:Er; [|split; assumption].
  destruct (Hr m r Er) as [Hrv Hrf].
  destruct (validate kw) eqn:E; simpl; [|split; assumption].
  destruct (a_conflict (Some m) (sort_cols kw) (m_tbl st)); simpl.
  - split; simpl; [exact Hr|].
    intros ver Hin. apply in_app_or in Hin. destruct Hin as [Hin|[<-|[]]]; [auto|simpl; auto].
  - split; simpl.
    + intros m' r'. rewrite row_of_tbl_update. destruct (row_of m' (m_tbl st)) as [r0|] eqn:E0; [|discriminate].
      intros H. inversion H; subst; clear H. destruct (Hr m' r0 E0) as [H1 H2].
      destruct (Z.eqb m' m); [|auto]. split.
      * apply validate_row_update; [apply validate_sort_cols; exact E|exact H1].
      * apply row_update_keeps_full. exact H2.
    + intros ver Hin. apply in_app_or in Hin. destruct Hin as [Hin|[<-|[]]]; [auto|simpl; auto].
Qed.

Lemma vrefuse_wf st m kw : vwf st -> vwf (fst (vrefuse st m kw)).
Proof.
  intros [Hr Hv]. unfold vrefuse. destruct (row_of m (m_tbl st)) as [r|] eqn:Er; [|split; assumption].
  destruct (Hr m r Er) as [Hrv Hrf].
  destruct (validate kw); simpl; [|split; assumption].
  split; simpl; [exact Hr|].
  intros ver Hin. apply in_app_or in Hin. destruct Hin as [Hin|[<-|[]]]; [auto|simpl; auto].
Qed.
Lemma vrefuse_not_done st m kw st' : vrefuse st m kw <> (st', VDone).
Proof.
  unfold vrefuse. destruct (row_of m (m_tbl st)); [|discriminate].
  destruct (negb (validate kw)); discriminate.
Qed.
Lemma vrefuse_invalid st m kw st' : vrefuse st m kw = (st', VExn XInvalid) -> st' = st.
Proof.
  unfold vrefuse. destruct (row_of m (m_tbl st)); [|discriminate].
  destruct (negb (validate kw)); [intros H; inversion H; reflexivity|discriminate].
Qed.
Lemma vrefuse_cases st m kw :
  snd (vrefuse st m kw) = VExn XTypeError \/ fst (vrefuse st m kw) = st.
Proof.
  unfold vrefuse. destruct (row_of m (m_tbl st)); [|right; reflexivity].
  destruct (negb (validate kw)); [right|left]; reflexivity.
Qed.

Lemma vstep_wf st o : vwf st -> vwf (fst (vstep st o)).
Proof.
  intros Hw. destruct o as [kw0|m c v|m kw0|m kw0|vid]; unfold vstep.
  - destruct (fill_defaults all_cols (mk_kw kw0)) as [kw2|] eqn:Ef; [|exact Hw].
    destruct (validate kw2) eqn:Ev; simpl; [|exact Hw].
    destruct (a_conflict None kw2 (m_tbl st)); simpl; [exact Hw|].
    destruct Hw as [Hr Hv]. split; simpl; [|exact Hv].
    intros m r. rewrite row_of_app. destruct (row_of m (m_tbl st)) as [r0|] eqn:E0.
    + intros H. inversion H; subst. exact (Hr m r E0).
    + destruct (Z.eqb m (m_next st)); [|discriminate]. intros H. inversion H; subst. split.
      * apply validate_sort_cols. exact Ev.
      * destruct (fill_defaults_has _ _ Ef) as [Ha [Hb Hc]]. apply sort_cols_full_of; assumption.
  - apply vupdate_wf; auto.
  - apply vupdate_wf; auto.
  - apply vrefuse_wf; auto.
  - destruct (find_version vid (v_tbl st)) as [ver|]; [apply vupdate_wf; auto|exact Hw].
Qed.

(* an update that the database does not refuse keeps the history invariant
   (refused by validation: nothing happens) *)
Lemma vupdate_inv st m kw :
  vwf st -> vinv st -> snd (vupdate st m kw) <> VExn XDuplicate -> vinv (fst (vupdate st m kw)).
Proof.
  intros Hw [Hb Hn Hh]. unfold vupdate. destruct (row_of m (m_tbl st)) as [r|] eqn:Er; [|split; assumption].
  destruct (validate kw) eqn:Hk; simpl; [|split; assumption].
  destruct (a_conflict (Some m) (sort_cols kw) (m_tbl st)); simpl; [intros Hx; contradiction|]. intros _.
  set (ver := {| v_id := v_next st; v_master := m; v_vals := r |}).
  set (st' := {| m_tbl := tbl_update m (sort_cols kw) (m_tbl st); m_next := m_next st; v_tbl := v_tbl st ++ [ver];
                 v_next := v_next st + 1; hist := hist_push m (row_update (sort_cols kw) r) (hist st) |}).
  assert (Hvo : forall m', versions_of m' st' = versions_of m' st ++ (if Z.eqb m m' then [ver] else [])).
  { intros m'. apply (versions_of_app m' st st' ver). reflexivity. }
  split.
  - intros m' r'. simpl. rewrite row_of_tbl_update. destruct (row_of m' (m_tbl st)) as [r0|] eqn:E0; [|discriminate].
    intros _. exact (Hb m' r0 E0).
  - intros m'. simpl. rewrite row_of_tbl_update. destruct (row_of m' (m_tbl st)) as [r0|] eqn:E0; [discriminate|].
    intros _. destruct (Hn m' E0) as [H1 H2].
    assert (Hne : m' <> m) by (intros ->; congruence).
    rewrite Hvo, H1. destruct (Z.eqb m m') eqn:E; [apply Z.eqb_eq in E; subst; contradiction|].
    split; [reflexivity|]. unfold hist_of. simpl. rewrite hist_get_push_other by exact Hne. exact H2.
  - intros m' r'. simpl. rewrite row_of_tbl_update. destruct (row_of m' (m_tbl st)) as [r0|] eqn:E0; [|discriminate].
    intros H. inversion H; subst r'; clear H. rewrite Hvo. unfold hist_of. simpl.
    destruct (Z.eqb m' m) eqn:E.
    + apply Z.eqb_eq in E. subst m'. rewrite Z.eqb_refl. rewrite Er in E0. inversion E0; subst r0.
      rewrite hist_get_push_same, map_app.
      pose proof (Hh m r Er) as Hx. unfold hist_of in Hx. rewrite <- Hx. reflexivity.
    + assert (Hne : m' <> m) by (intros ->; rewrite Z.eqb_refl in E; discriminate).
      rewrite Z.eqb_sym, E, app_nil_r. rewrite hist_get_push_other by exact Hne. exact (Hh m' r0 E0).
Qed.

Lemma vstep_inv st o :
  vwf st -> vinv st ->
  db_refused {| w_pre := st; w_op := o; w_out := snd (vstep st o); w_post := fst (vstep st o) |} = false ->
  vinv (fst (vstep st o)).
Proof.
  intros Hw Hi Ho. destruct o as [kw0|m c v|m kw0|m kw0|vid]; unfold db_refused in Ho; cbn [w_op w_out] in Ho; unfold vstep in *.
  - destruct (fill_defaults all_cols (mk_kw kw0)) as [kw2|] eqn:Ef; [|exact Hi].
    destruct (validate kw2) eqn:Ev; simpl; [|exact Hi].
    destruct (a_conflict None kw2 (m_tbl st)); simpl; [exact Hi|].
    destruct Hi as [Hb Hn Hh].
    assert (Hfresh : row_of (m_next st) (m_tbl st) = None).
    { destruct (row_of (m_next st) (m_tbl st)) as [r|] eqn:E; [|reflexivity]. pose proof (Hb _ _ E). lia. }
    split.
    + intros m r. simpl. rewrite row_of_app. destruct (row_of m (m_tbl st)) as [r0|] eqn:E0.
      * intros _. pose proof (Hb m r0 E0). lia.
      * destruct (Z.eqb m (m_next st)) eqn:E; [|discriminate]. apply Z.eqb_eq in E. intros _. lia.
    + intros m. simpl. rewrite row_of_app. destruct (row_of m (m_tbl st)) as [r0|] eqn:E0; [discriminate|].
      destruct (Z.eqb m (m_next st)) eqn:E; [discriminate|]. intros _.
      destruct (Hn m E0) as [H1 H2]. split; [exact H1|].
      unfold hist_of. simpl. rewrite hist_get_push_other; [exact H2|].
      intros ->. rewrite Z.eqb_refl in E. discriminate.
    + intros m r. simpl. rewrite row_of_app. unfold hist_of, versions_of. simpl.
      destruct (row_of m (m_tbl st)) as [r0|] eqn:E0.
      * intros H. inversion H; subst r0. pose proof (Hb m r E0).
        rewrite hist_get_push_other by lia. exact (Hh m r E0).
      * destruct (Z.eqb m (m_next st)) eqn:E; [|discriminate]. apply Z.eqb_eq in E. subst m.
        intros H. inversion H; subst r. destruct (Hn _ Hfresh) as [H1 H2].
        unfold versions_of in H1. rewrite H1. unfold hist_of in H2. rewrite hist_get_push_same, H2. reflexivity.
  - apply vupdate_inv; try assumption. intros Hx. rewrite Hx in Ho. discriminate.
  - apply vupdate_inv; try assumption. intros Hx. rewrite Hx in Ho. discriminate.
  - destruct (vrefuse_cases st m (mk_kw kw0)) as [Hx|Hx]; [rewrite Hx in Ho; discriminate|rewrite Hx; exact Hi].
  - destruct (find_version vid (v_tbl st)) as [ver|] eqn:Ef; [|exact Hi].
    apply vupdate_inv; try assumption. intros Hx. rewrite Hx in Ho. discriminate.
Qed.

(* ------------------------------------------------------------------ histories *)
Definition is_vstep (w : vrec) : Prop := (w_post w, w_out w) = vstep (w_pre w) (w_op w).

Lemma vrun_is_step : forall ops st w, In w (vrun st ops) -> is_vstep w.
Proof.
  induction ops as [|o rest IH]; intros st w H; simpl in H; [contradiction|].
  destruct H as [<-|H]; [unfold is_vstep; simpl; destruct (vstep st o); reflexivity|exact (IH _ _ H)].
Qed.

Lemma vrun_wf : forall ops st, vwf st -> forall w, In w (vrun st ops) -> vwf (w_pre w) /\ vwf (w_post w).
Proof.
  induction ops as [|o rest IH]; intros st Hw w H; simpl in H; [contradiction|].
  destruct H as [<-|H]; simpl.
  - split; [exact Hw|apply vstep_wf; exact Hw].
  - apply (IH (fst (vstep st o))); [apply vstep_wf; exact Hw|exact H].
Qed.

Lemma vrun_inv : forall ops st, vwf st -> vinv st -> vguard_from st ops = true ->
  forall w, In w (vrun st ops) -> vinv (w_pre w) /\ vinv (w_post w).
Proof.
  induction ops as [|o rest IH]; intros st Hw Hi Hg w H; simpl in H; [contradiction|].
  unfold vguard_from in Hg. simpl in Hg. apply andb_true_iff in Hg. destruct Hg as [Hg1 Hg2].
  apply negb_true_iff in Hg1.
  destruct H as [<-|H]; simpl.
  - split; [exact Hi|apply vstep_inv; assumption].
  - apply (IH (fst (vstep st o))); [apply vstep_wf; exact Hw|apply vstep_inv; assumption|exact Hg2|exact H].
Qed.

(* C20_history_inv: after every step of a history in which the database
   refuses no update, for every master: its versions followed by its row are
   its history *)
Lemma hist_inv ops w m r :
  vguard ops = true -> In w (vrun vinit ops) -> row_of m (m_tbl (w_post w)) = Some r ->
  map v_vals (versions_of m (w_post w)) ++ [r] = hist_of m (w_post w).
Proof.
  intros Hg Hin Hr. destruct (vrun_inv ops vinit vwf_init vinv_init Hg w Hin) as [_ [_ _ Hh]]. exact (Hh m r Hr).
Qed.

(* one version per successful update, in every state and every history *)
Lemma one_version st o st' m :
  vstep st o = (st', VDone) -> vtarget st o = Some m ->
  exists r, row_of m (m_tbl st) = Some r
    /\ versions_of m st' = versions_of m st ++ [{| v_id := v_next st; v_master := m; v_vals := r |}]
    /\ (forall m', m' <> m -> versions_of m' st' = versions_of m' st)
    /\ (forall m', m' <> m -> row_of m' (m_tbl st') = row_of m' (m_tbl st)).
Proof.
  intros Hs Ht.
  assert (Hu : exists kw, vupdate st m kw = (st', VDone)).
  { destruct o as [kw0|m0 c v|m0 kw0|m0 kw0|vid]; simpl in *; try discriminate.
    - inversion Ht; subst. eauto.
    - inversion Ht; subst. eauto.
    - exfalso. exact (vrefuse_not_done _ _ _ _ Hs).
    - destruct (find_version vid (v_tbl st)) as [ver|]; [|discriminate]. inversion Ht; subst. eauto. }
  destruct Hu as [kw Hu]. destruct (vupdate_done _ _ _ _ Hu) as [r [Hr [Hk [Ht' [_ [Hv [_ _]]]]]]].
  exists r. split; [exact Hr|]. split; [|split].
  - rewrite (versions_of_app m st st' _ Hv). simpl. rewrite Z.eqb_refl. reflexivity.
  - intros m' Hn. rewrite (versions_of_app m' st st' _ Hv). simpl.
    destruct (Z.eqb m m') eqn:E; [apply Z.eqb_eq in E; subst; contradiction|apply app_nil_r].
  - intros m' Hn. rewrite Ht', row_of_tbl_update.
    destruct (row_of m' (m_tbl st)); [|reflexivity].
    destruct (Z.eqb m' m) eqn:E; [apply Z.eqb_eq in E; contradiction|reflexivity].
Qed.

Lemma hist_one_version ops w m :
  In w (vrun vinit ops) -> w_out w = VDone -> vtarget (w_pre w) (w_op w) = Some m ->
  exists r, row_of m (m_tbl (w_pre w)) = Some r
    /\ versions_of m (w_post w) = versions_of m (w_pre w) ++ [{| v_id := v_next (w_pre w); v_master := m; v_vals := r |}]
    /\ (forall m', m' <> m -> versions_of m' (w_post w) = versions_of m' (w_pre w))
    /\ (forall m', m' <> m -> row_of m' (m_tbl (w_post w)) = row_of m' (m_tbl (w_pre w))).
Proof.
  intros Hin Ho Ht. pose proof (vrun_is_step ops vinit w Hin) as Hs. unfold is_vstep in Hs. rewrite Ho in Hs.
  apply (one_version (w_pre w) (w_op w)); [symmetry; exact Hs|exact Ht].
Qed.

(* restore: the master row becomes the version's values *)
Lemma hist_restore ops w vid ver :
  In w (vrun vinit ops) -> w_op w = VRestore vid -> w_out w = VDone ->
  find_version vid (v_tbl (w_pre w)) = Some ver ->
  row_of (v_master ver) (m_tbl (w_post w)) = Some (v_vals ver).
Proof.
  intros Hin Hop Ho Hf. pose proof (vrun_is_step ops vinit w Hin) as Hs. unfold is_vstep in Hs.
  rewrite Hop, Ho in Hs. simpl in Hs. rewrite Hf in Hs. symmetry in Hs.
  destruct (vupdate_done _ _ _ _ Hs) as [r [Hr [_ [Ht _]]]].
  destruct (vrun_wf ops vinit vwf_init w Hin) as [[Hrows Hvers] _].
  destruct (find_version_In _ _ _ Hf) as [Hv _]. destruct (Hvers ver Hv) as [_ Hfull].
  destruct (Hrows _ _ Hr) as [_ Hrfull].
  rewrite Ht, row_of_tbl_update, Hr, Z.eqb_refl, (sort_cols_full _ Hfull), (row_update_full _ _ Hfull Hrfull).
  reflexivity.
Qed.

(* no mixing: a version filed under m holds a state that m's row really had,
   and m exists *)
Lemma hist_no_mixing ops w ver :
  vguard ops = true -> In w (vrun vinit ops) -> In ver (v_tbl (w_post w)) ->
  (exists r, row_of (v_master ver) (m_tbl (w_post w)) = Some r)
  /\ In (v_vals ver) (hist_of (v_master ver) (w_post w)).
Proof.
  intros Hg Hin Hv. destruct (vrun_inv ops vinit vwf_init vinv_init Hg w Hin) as [_ [_ Hn Hh]].
  assert (Hvo : In ver (versions_of (v_master ver) (w_post w))).
  { unfold versions_of. apply filter_In. split; [exact Hv|apply Z.eqb_refl]. }
  destruct (row_of (v_master ver) (m_tbl (w_post w))) as [r|] eqn:Er.
  - split; [eauto|]. rewrite <- (Hh _ r Er). apply in_or_app. left. apply in_map. exact Hvo.
  - destruct (Hn _ Er) as [H1 _]. rewrite H1 in Hvo. contradiction.
Qed.

(* an update refused by validation changes nothing, in every history *)
Lemma hist_invalid_noop ops w :
  In w (vrun vinit ops) -> w_out w = VExn XInvalid -> w_post w = w_pre w.
Proof.
  intros Hin Ho. pose proof (vrun_is_step ops vinit w Hin) as Hs. unfold is_vstep in Hs. rewrite Ho in Hs.
  symmetry in Hs. destruct (w_op w) as [kw0|m c v|m kw0|m kw0|vid]; unfold vstep in Hs.
  - destruct (fill_defaults all_cols (mk_kw kw0)) as [kw2|]; [|discriminate].
    destruct (negb (validate kw2)); [inversion Hs; reflexivity|].
    destruct (a_conflict None kw2 _); discriminate.
  - exact (vupdate_invalid _ _ _ _ Hs).
  - exact (vupdate_invalid _ _ _ _ Hs).
  - exact (vrefuse_invalid _ _ _ _ Hs).
  - destruct (find_version vid _) as [ver|]; [exact (vupdate_invalid _ _ _ _ Hs)|discriminate].
Qed.

(* ------------------------------------------------------------------ the open defect *)
(* an update the DATABASE refuses (UNIQUE(a)) after validation passed leaves its snapshot behind *)
Definition ops_refused : list vop := [VCreate [(CA, VInt 1)]; VCreate [(CA, VInt 2)]; VAssign 2 CA (VInt 1)].
Definition full_history_inv : Prop :=
  forall ops w m r, In w (vrun vinit ops) -> row_of m (m_tbl (w_post w)) = Some r ->
    map v_vals (versions_of m (w_post w)) ++ [r] = hist_of m (w_post w).
Lemma full_history_inv_refuted : ~ full_history_inv.
Proof.
  intros H.
  specialize (H ops_refused (nth 2 (vrun vinit ops_refused) {| w_pre := vinit; w_op := VRestore 0; w_out := VDone; w_post := vinit |})
                2 [(CA, VInt 2); (CB, VNull); (CC, VInt 7)]).
  vm_compute in H. specialize (H (or_intror (or_intror (or_introl eq_refl))) eq_refl). discriminate H.
Qed.
Lemma refused_witness :
  exists w, In w (vrun vinit ops_refused) /\ w_out w = VExn XDuplicate
    /\ m_tbl (w_post w) = m_tbl (w_pre w)
    /\ length (versions_of 2 (w_post w)) = S (length (versions_of 2 (w_pre w))).
Proof. eexists. split; [right; right; left; reflexivity|]. repeat split. Qed.
(* the fixed one (6e91999), kept as a regression *)
Definition ops_invalid : list vop := [VCreate [(CA, VInt 1)]; VAssign 1 CA (VStr [120%N])].

(* set() refused for an unknown keyword after its values passed validation leaves its snapshot behind, too *)
Definition ops_kwrefused : list vop := [VCreate [(CA, VInt 1)]; VSetBad 1 [(CB, VStr [113%N])]].
Lemma kwrefused_witness :
  exists w, In w (vrun vinit ops_kwrefused) /\ w_out w = VExn XTypeError
    /\ m_tbl (w_post w) = m_tbl (w_pre w)
    /\ length (versions_of 1 (w_post w)) = S (length (versions_of 1 (w_pre w)))
    /\ map v_vals (versions_of 1 (w_post w)) ++ [[(CA, VInt 1); (CB, VNull); (CC, VInt 7)]] <> hist_of 1 (w_post w).
Proof. eexists. split; [right; left; reflexivity|]. repeat split. vm_compute. discriminate. Qed.

(* ------------------------------------------------------------------ masters on another connection than the class's own *)
(* whatever the connection mode, the history is the class-mode history and the class's own database is not touched *)
Lemma wfinal_any foreign ops : forall ws,
  w_main (wfinal foreign ws ops) = vfinal (w_main ws) ops /\ w_decoy (wfinal foreign ws ops) = w_decoy ws.
Proof.
  induction ops as [|o r IH]; intros ws; [split; reflexivity|].
  unfold wfinal, vfinal in *. cbn [fold_left]. destruct (IH (fst (wstep foreign ws o))) as [H1 H2].
  rewrite H1, H2. unfold wstep. split; reflexivity.
Qed.

(* the witness of the defect fixed by 61db062: restore() of a version on a foreign connection *)
Definition ops_foreign : list vop :=
  [VCreate [(CA, VInt 1)]; VAssign 1 CB (VStr [120%N]); VAssign 1 CA (VInt 4); VRestore 1].
