(* C20: the invariants of the versioning model and the theorems over histories. *)
From Coq Require Import List ZArith NArith Bool Lia Sorting.Sorted.
From Model Require Import Events Versioning.
From Proofs Require Import EventsBase VersioningBase VersioningKinds.
Import ListNotations.
Open Scope Z_scope.

(* well-formedness, kept by every operation (failing and refused ones included) *)
Record vwf (st : vstate) : Prop := {
  w_rows : forall m r, row_of m (m_tbl st) = Some r -> validate r = true /\ full r;
  w_vers : forall ver, In ver (arch st) -> validate (v_vals ver) = true /\ full (v_vals ver);
  w_bound : forall m r, row_of m (m_tbl st) = Some r -> m < m_next st;
  w_fresh : forall ver, In ver (arch st) -> v_master ver < m_next st;
  w_hfresh : forall m, m_next st <= m -> hist_of m st = [];
  w_alive : v_tbl st = filter (alive (gone st)) (arch st);
  w_ids : forall ver, In ver (arch st) -> v_id ver < v_next st;
  w_gone : forall g, In g (gone st) -> g < v_next st;
  w_sorted : StronglySorted id_lt (arch st)
}.

(* the history invariant (needs: no update refused after its signal) *)
Record vinv (st : vstate) : Prop := {
  i_hist : forall m r, row_of m (m_tbl st) = Some r -> map v_vals (archived_of m st) ++ [r] = hist_of m st;
  i_dead : forall m, row_of m (m_tbl st) = None ->
           archived_of m st = [] \/ exists r, map v_vals (archived_of m st) ++ [r] = hist_of m st
}.

(* nothing destroyed so far *)
Record vinv0 (st : vstate) : Prop := {
  z_gone : gone st = [];
  z_live : forall ver, In ver (arch st) -> exists r, row_of (v_master ver) (m_tbl st) = Some r
}.

Lemma vwf_init : vwf vinit.
Proof. split; simpl; intros; try discriminate; try contradiction; try reflexivity. constructor. Qed.
Lemma vinv_init : vinv vinit.
Proof. split; simpl; intros; try discriminate. left. reflexivity. Qed.
Lemma vinv0_init : vinv0 vinit.
Proof. split; simpl; intros; [reflexivity|contradiction]. Qed.

Lemma in_vtbl_arch st : vwf st -> forall ver, In ver (v_tbl st) -> In ver (arch st).
Proof. intros Hw ver H. rewrite (w_alive _ Hw) in H. apply filter_In in H. tauto. Qed.

Lemma archived_of_app m st st' ver :
  arch st' = arch st ++ [ver] ->
  archived_of m st' = archived_of m st ++ (if Z.eqb (v_master ver) m then [ver] else []).
Proof. unfold archived_of. intros ->. rewrite filter_app. reflexivity. Qed.
Lemma versions_of_app m st st' ver :
  v_tbl st' = v_tbl st ++ [ver] ->
  versions_of m st' = versions_of m st ++ (if Z.eqb (v_master ver) m then [ver] else []).
Proof. unfold versions_of. intros ->. rewrite filter_app. reflexivity. Qed.

(* archiving a (well-formed) row keeps the version side of vwf *)
Lemma archived_wf st st' m r :
  vwf st -> row_of m (m_tbl st) = Some r -> archived st st' m r ->
  (forall ver, In ver (arch st') -> validate (v_vals ver) = true /\ full (v_vals ver))
  /\ (forall ver, In ver (arch st') -> v_master ver < m_next st')
  /\ v_tbl st' = filter (alive (gone st')) (arch st')
  /\ (forall ver, In ver (arch st') -> v_id ver < v_next st')
  /\ (forall g, In g (gone st') -> g < v_next st')
  /\ StronglySorted id_lt (arch st').
Proof.
  intros Hw Er [Hv [Ha [Hn [Hm Hg]]]].
  rewrite Ha, Hv, Hn, Hm, Hg. repeat split.
  - apply in_app_or in H. destruct H as [H|[<-|[]]]; [exact (proj1 (w_vers _ Hw _ H))|exact (proj1 (w_rows _ Hw _ _ Er))].
  - apply in_app_or in H. destruct H as [H|[<-|[]]]; [exact (proj2 (w_vers _ Hw _ H))|exact (proj2 (w_rows _ Hw _ _ Er))].
  - intros ver H. apply in_app_or in H. destruct H as [H|[<-|[]]]; [exact (w_fresh _ Hw _ H)|exact (w_bound _ Hw _ _ Er)].
  - rewrite filter_app, <- (w_alive _ Hw). f_equal. simpl.
    assert (Hal : alive (gone st) {| v_id := v_next st; v_master := m; v_vals := r |} = true).
    { unfold alive. simpl. apply negb_true_iff. apply not_true_is_false. intros H. apply existsb_exists in H.
      destruct H as [g [Hg1 Hg2]]. apply Z.eqb_eq in Hg2. subst g. pose proof (w_gone _ Hw _ Hg1). lia. }
    rewrite Hal. reflexivity.
  - intros ver H. apply in_app_or in H. destruct H as [H|[<-|[]]]; [pose proof (w_ids _ Hw _ H); lia|simpl; lia].
  - intros g H. pose proof (w_gone _ Hw _ H). lia.
  - apply ssorted_app_end; [exact (w_sorted _ Hw)|]. intros x Hx. unfold id_lt. simpl. exact (w_ids _ Hw _ Hx).
Qed.

Lemma hist_of_eq st st' m : hist st' = hist st -> hist_of m st' = hist_of m st.
Proof. unfold hist_of. intros ->. reflexivity. Qed.

Lemma vkind_wf st o st' out : vwf st -> vkind st o st' out -> vwf st'.
Proof.
  intros Hw K. destruct K as [-> _ _|kw0 r _ _ Hv Hf Ht Hn Hh [S1 [S2 [S3 S4]]]
                             |m r _ Er Ha Ht Hh _ _|m r w _ Er Hk Ha _ Ht Hh _
                             |m r _ _ Er Ht Hn Hh [S1 [S2 [S3 S4]]]|vid ver _ _ Ef Hv Hg Hn Ha [S1 [S2 S3]]].
  - exact Hw.
  - split; rewrite ?Ht, ?Hn, ?S1, ?S2, ?S3, ?S4; try apply Hw.
    + intros m r0. rewrite row_of_app. destruct (row_of m (m_tbl st)) as [r1|] eqn:E0.
      * intros H. inversion H; subst. exact (w_rows _ Hw _ _ E0).
      * destruct (Z.eqb m (m_next st)); [|discriminate]. intros H. inversion H; subst. auto.
    + intros m r0. rewrite row_of_app. destruct (row_of m (m_tbl st)) as [r1|] eqn:E0.
      * intros _. pose proof (w_bound _ Hw _ _ E0). lia.
      * destruct (Z.eqb m (m_next st)) eqn:E; [|discriminate]. apply Z.eqb_eq in E. intros _. lia.
    + intros ver H. pose proof (w_fresh _ Hw _ H). lia.
    + intros m Hm. unfold hist_of. rewrite Hh, hist_get_push_other by lia. apply (w_hfresh _ Hw). lia.
  - destruct (archived_wf st st' m r Hw Er Ha) as [A1 [A2 [A3 [A4 [A5 A6]]]]].
    destruct Ha as [_ [_ [_ [Hm _]]]].
    split; try assumption; rewrite ?Ht, ?Hm; try apply Hw.
    intros m0 H0. rewrite (hist_of_eq st st' m0 Hh). apply (w_hfresh _ Hw). exact H0.
  - destruct (archived_wf st st' m r Hw Er Ha) as [A1 [A2 [A3 [A4 [A5 A6]]]]].
    destruct Ha as [_ [_ [_ [Hm _]]]].
    split; try assumption; rewrite ?Ht, ?Hm.
    + intros m' r'. rewrite row_of_tbl_update. destruct (row_of m' (m_tbl st)) as [r0|] eqn:E0; [|discriminate].
      intros H. inversion H; subst; clear H. destruct (w_rows _ Hw _ _ E0) as [H1 H2].
      destruct (Z.eqb m' m); [|auto]. split.
      * apply validate_row_update; [apply validate_sort_cols; exact Hk|exact H1].
      * apply row_update_keeps_full. exact H2.
    + intros m' r'. rewrite row_of_tbl_update. destruct (row_of m' (m_tbl st)) as [r0|] eqn:E0; [|discriminate].
      intros _. exact (w_bound _ Hw _ _ E0).
    + intros m0 H0. unfold hist_of. rewrite Hh. pose proof (w_bound _ Hw _ _ Er).
      rewrite hist_get_push_other by lia. apply (w_hfresh _ Hw). exact H0.
  - split; rewrite ?Ht, ?Hn, ?S1, ?S2, ?S3, ?S4; try apply Hw.
    + intros m' r'. rewrite row_of_tbl_delete. destruct (Z.eqb m' m); [discriminate|]. apply (w_rows _ Hw).
    + intros m' r'. rewrite row_of_tbl_delete. destruct (Z.eqb m' m); [discriminate|]. apply (w_bound _ Hw).
    + intros m0 H0. rewrite (hist_of_eq st st' m0 Hh). apply (w_hfresh _ Hw). exact H0.
  - split; rewrite ?Hv, ?Hg, ?Hn, ?Ha, ?S1, ?S2; try apply Hw.
    + intros m0 H0. rewrite (hist_of_eq st st' m0 S3). apply (w_hfresh _ Hw). exact H0.
    + rewrite (w_alive _ Hw), filter_filter. apply filter_ext_in'. intros x _. rewrite alive_cons. reflexivity.
    + intros g [<-|H]; [|exact (w_gone _ Hw _ H)].
      destruct (find_version_In _ _ _ Ef) as [H1 H2]. subst vid. apply (w_ids _ Hw). apply in_vtbl_arch; assumption.
Qed.

Lemma vstep_wf st o : vwf st -> vwf (fst (vstep st o)).
Proof.
  intros Hw. apply (vkind_wf st o _ (snd (vstep st o)) Hw). apply vstep_kind. destruct (vstep st o); reflexivity.
Qed.

(* a step that is not refused after its signal keeps the history invariant *)
Lemma vkind_inv st o st' out :
  vwf st -> vinv st -> vkind st o st' out ->
  db_refused {| w_pre := st; w_op := o; w_out := out; w_post := st' |} = false -> vinv st'.
Proof.
  intros Hw [Hh Hd] K Hnr.
  destruct K as [-> _ _|kw0 r _ _ Hv Hf Ht Hn Hhi [S1 [S2 [S3 S4]]]
                |m r _ Er Ha Ht Hhi Hr _|m r w _ Er Hk Ha _ Ht Hhi _
                |m r _ _ Er Ht Hn Hhi [S1 [S2 [S3 S4]]]|vid ver _ _ Ef Hv Hg Hn Ha [S1 [S2 S3]]].
  - split; assumption.
  - (* create *)
    assert (Hfresh : row_of (m_next st) (m_tbl st) = None).
    { destruct (row_of (m_next st) (m_tbl st)) as [r0|] eqn:E; [|reflexivity]. pose proof (w_bound _ Hw _ _ E). lia. }
    assert (Hnoarch : archived_of (m_next st) st = []).
    { unfold archived_of. apply filter_none. intros x Hx. pose proof (w_fresh _ Hw _ Hx).
      apply Z.eqb_neq. lia. }
    assert (Hao : forall m, archived_of m st' = archived_of m st) by (intros m; unfold archived_of; rewrite S3; reflexivity).
    split.
    + intros m r0. rewrite Ht, row_of_app, Hao. unfold hist_of. rewrite Hhi.
      destruct (row_of m (m_tbl st)) as [r1|] eqn:E0.
      * intros H. inversion H; subst r1. pose proof (w_bound _ Hw _ _ E0).
        rewrite hist_get_push_other by lia. exact (Hh m r0 E0).
      * destruct (Z.eqb m (m_next st)) eqn:E; [|discriminate]. apply Z.eqb_eq in E. subst m.
        intros H. inversion H; subst r0. rewrite Hnoarch, hist_get_push_same.
        pose proof (w_hfresh _ Hw (m_next st) (Z.le_refl _)) as H0. unfold hist_of in H0. rewrite H0. reflexivity.
    + intros m. rewrite Ht, row_of_app, Hao. destruct (row_of m (m_tbl st)) as [r1|] eqn:E0; [discriminate|].
      destruct (Z.eqb m (m_next st)) eqn:E; [discriminate|]. intros _.
      unfold hist_of. rewrite Hhi, hist_get_push_other; [exact (Hd m E0)|].
      intros ->. rewrite Z.eqb_refl in E. discriminate.
  - rewrite Hr in Hnr. discriminate.
  - (* update *)
    destruct Ha as [_ [Ha _]].
    assert (Hao : forall m', archived_of m' st' = archived_of m' st
                              ++ (if Z.eqb m m' then [{| v_id := v_next st; v_master := m; v_vals := r |}] else [])).
    { intros m'. apply (archived_of_app m' st st' _ Ha). }
    split.
    + intros m' r'. rewrite Ht, row_of_tbl_update. destruct (row_of m' (m_tbl st)) as [r0|] eqn:E0; [|discriminate].
      intros H. inversion H; subst r'; clear H. rewrite Hao. unfold hist_of. rewrite Hhi.
      destruct (Z.eqb m' m) eqn:E.
      * apply Z.eqb_eq in E. subst m'. rewrite Z.eqb_refl. rewrite Er in E0. inversion E0; subst r0.
        rewrite hist_get_push_same, map_app.
        pose proof (Hh m r Er) as Hx. unfold hist_of in Hx. rewrite <- Hx. reflexivity.
      * assert (Hne : m' <> m) by (intros ->; rewrite Z.eqb_refl in E; discriminate).
        rewrite Z.eqb_sym, E, app_nil_r. rewrite hist_get_push_other by exact Hne. exact (Hh m' r0 E0).
    + intros m'. rewrite Ht, row_of_tbl_update. destruct (row_of m' (m_tbl st)) as [r0|] eqn:E0; [discriminate|].
      intros _. assert (Hne : m' <> m) by (intros ->; congruence).
      rewrite Hao. destruct (Z.eqb m m') eqn:E; [apply Z.eqb_eq in E; subst; contradiction|].
      rewrite app_nil_r. unfold hist_of. rewrite Hhi, hist_get_push_other by exact Hne. exact (Hd m' E0).
  - (* destroy of a master *)
    assert (Hao : forall m', archived_of m' st' = archived_of m' st) by (intros m'; unfold archived_of; rewrite S3; reflexivity).
    split.
    + intros m' r'. rewrite Ht, row_of_tbl_delete, Hao, (hist_of_eq st st' m' Hhi).
      destruct (Z.eqb m' m); [discriminate|]. apply Hh.
    + intros m'. rewrite Ht, row_of_tbl_delete, Hao, (hist_of_eq st st' m' Hhi).
      destruct (Z.eqb m' m) eqn:E; [|apply Hd].
      apply Z.eqb_eq in E. subst m'. intros _. right. exists r. exact (Hh m r Er).
  - (* destroy of a version: arch, rows and history are what they were *)
    assert (Hao : forall m', archived_of m' st' = archived_of m' st) by (intros m'; unfold archived_of; rewrite Ha; reflexivity).
    split.
    + intros m' r'. rewrite S1, Hao, (hist_of_eq st st' m' S3). apply Hh.
    + intros m'. rewrite S1, Hao, (hist_of_eq st st' m' S3). apply Hd.
Qed.

Lemma vkind_inv0 st o st' out :
  vinv0 st -> vkind st o st' out ->
  destroyed {| w_pre := st; w_op := o; w_out := out; w_post := st' |} = false -> vinv0 st'.
Proof.
  intros [Hg Hl] K Hnd.
  destruct K as [-> _ _|kw0 r _ _ Hv Hf Ht Hn Hhi [S1 [S2 [S3 S4]]]
                |m r _ Er Ha Ht Hhi Hr _|m r w _ Er Hk Ha _ Ht Hhi _
                |m r -> -> Er Ht Hn Hhi _|vid ver -> -> Ef Hv Hg' Hn Ha _].
  - split; assumption.
  - split; [rewrite S4; exact Hg|]. intros ver. rewrite S3, Ht. intros H. destruct (Hl ver H) as [r0 H0].
    exists r0. rewrite row_of_app, H0. reflexivity.
  - destruct Ha as [_ [Ha [_ [_ Hgo]]]]. split; [rewrite Hgo; exact Hg|].
    intros ver. rewrite Ha, Ht. intros H. apply in_app_or in H. destruct H as [H|[<-|[]]]; [exact (Hl ver H)|simpl; eauto].
  - destruct Ha as [_ [Ha [_ [_ Hgo]]]]. split; [rewrite Hgo; exact Hg|].
    intros ver. rewrite Ha, Ht. intros H.
    assert (Hx : exists r0, row_of (v_master ver) (m_tbl st) = Some r0).
    { apply in_app_or in H. destruct H as [H|[<-|[]]]; [exact (Hl ver H)|simpl; eauto]. }
    destruct Hx as [r0 H0]. rewrite row_of_tbl_update, H0. eauto.
  - discriminate Hnd.
  - discriminate Hnd.
Qed.

(* ------------------------------------------------------------------ histories *)
Definition is_vstep (w : vrec) : Prop := (w_post w, w_out w) = vstep (w_pre w) (w_op w).

Lemma vrun_is_step : forall ops st w, In w (vrun st ops) -> is_vstep w.
Proof.
  induction ops as [|o rest IH]; intros st w H; simpl in H; [contradiction|].
  destruct H as [<-|H]; [unfold is_vstep; simpl; destruct (vstep st o); reflexivity|exact (IH _ _ H)].
Qed.
Lemma vrun_kind ops st w : In w (vrun st ops) -> vkind (w_pre w) (w_op w) (w_post w) (w_out w).
Proof. intros H. apply vstep_kind. symmetry. exact (vrun_is_step ops st w H). Qed.
Lemma vstep_kind' st o : vkind st o (fst (vstep st o)) (snd (vstep st o)).
Proof. apply vstep_kind. destruct (vstep st o); reflexivity. Qed.

Lemma vrun_wf : forall ops st, vwf st -> forall w, In w (vrun st ops) -> vwf (w_pre w) /\ vwf (w_post w).
Proof.
  induction ops as [|o rest IH]; intros st Hw w H; simpl in H; [contradiction|].
  destruct H as [<-|H]; simpl.
  - split; [exact Hw|apply vstep_wf; exact Hw].
  - apply (IH (fst (vstep st o))); [apply vstep_wf; exact Hw|exact H].
Qed.

Lemma vrun_inv : forall ops st, vwf st -> vinv st -> vguard_r_from st ops = true ->
  forall w, In w (vrun st ops) -> vinv (w_pre w) /\ vinv (w_post w).
Proof.
  induction ops as [|o rest IH]; intros st Hw Hi Hg w H; simpl in H; [contradiction|].
  unfold vguard_r_from in Hg. simpl in Hg. apply andb_true_iff in Hg. destruct Hg as [Hg1 Hg2].
  apply negb_true_iff in Hg1.
  assert (Hi' : vinv (fst (vstep st o))) by (apply (vkind_inv st o _ (snd (vstep st o)) Hw Hi (vstep_kind' st o)); exact Hg1).
  destruct H as [<-|H]; simpl.
  - split; assumption.
  - apply (IH (fst (vstep st o))); [apply vstep_wf; exact Hw|exact Hi'|exact Hg2|exact H].
Qed.

Lemma vrun_inv0 : forall ops st, vinv0 st -> vguard_from st ops = true ->
  forall w, In w (vrun st ops) -> vinv0 (w_pre w) /\ vinv0 (w_post w).
Proof.
  induction ops as [|o rest IH]; intros st Hi Hg w H; simpl in H; [contradiction|].
  unfold vguard_from in Hg. simpl in Hg. apply andb_true_iff in Hg. destruct Hg as [Hg1 Hg2].
  apply andb_true_iff in Hg1. destruct Hg1 as [_ Hg1]. apply negb_true_iff in Hg1.
  assert (Hi' : vinv0 (fst (vstep st o))) by (apply (vkind_inv0 st o _ (snd (vstep st o)) Hi (vstep_kind' st o)); exact Hg1).
  destruct H as [<-|H]; simpl.
  - split; assumption.
  - apply (IH (fst (vstep st o))); [exact Hi'|exact Hg2|exact H].
Qed.

Lemma vguard_weaken : forall ops st, vguard_from st ops = true -> vguard_r_from st ops = true.
Proof.
  intros ops st. unfold vguard_from, vguard_r_from. rewrite !forallb_forall. intros H w Hw.
  specialize (H w Hw). apply andb_true_iff in H. tauto.
Qed.

(* with nothing destroyed, master.versions is everything ever archived for it *)
Lemma versions_archived st m : vwf st -> gone st = [] -> versions_of m st = archived_of m st.
Proof.
  intros Hw Hg. unfold versions_of, archived_of. rewrite (w_alive _ Hw), Hg.
  f_equal. apply filter_all. intros x _. reflexivity.
Qed.

(* C20_history_inv_partial *)
Lemma hist_inv ops w m r :
  vguard ops = true -> In w (vrun vinit ops) -> row_of m (m_tbl (w_post w)) = Some r ->
  map v_vals (versions_of m (w_post w)) ++ [r] = hist_of m (w_post w).
Proof.
  intros Hg Hin Hr.
  destruct (vrun_inv ops vinit vwf_init vinv_init (vguard_weaken _ _ Hg) w Hin) as [_ [Hh _]].
  destruct (vrun_inv0 ops vinit vinv0_init Hg w Hin) as [_ [Hz _]].
  destruct (vrun_wf ops vinit vwf_init w Hin) as [_ Hw].
  rewrite (versions_archived _ m Hw Hz). exact (Hh m r Hr).
Qed.

(* the same with destroys allowed: the history equation holds on everything
   ever archived, and master.versions is that list without the destroyed ones *)
Lemma hist_inv_destroy ops w m r :
  vguard_r ops = true -> In w (vrun vinit ops) -> row_of m (m_tbl (w_post w)) = Some r ->
  map v_vals (archived_of m (w_post w)) ++ [r] = hist_of m (w_post w)
  /\ versions_of m (w_post w) = filter (alive (gone (w_post w))) (archived_of m (w_post w)).
Proof.
  intros Hg Hin Hr.
  destruct (vrun_inv ops vinit vwf_init vinv_init Hg w Hin) as [_ [Hh _]].
  destruct (vrun_wf ops vinit vwf_init w Hin) as [_ Hw].
  split; [exact (Hh m r Hr)|].
  unfold versions_of, archived_of. rewrite (w_alive _ Hw), !filter_filter.
  apply filter_ext_in'. intros x _. apply andb_comm.
Qed.

(* one version per successful update, in every history *)
Lemma hist_one_version ops w m :
  In w (vrun vinit ops) -> w_out w = VDone -> vtarget (w_pre w) (w_op w) = Some m ->
  exists r, row_of m (m_tbl (w_pre w)) = Some r
    /\ versions_of m (w_post w) = versions_of m (w_pre w) ++ [{| v_id := v_next (w_pre w); v_master := m; v_vals := r |}]
    /\ (forall m', m' <> m -> versions_of m' (w_post w) = versions_of m' (w_pre w))
    /\ (forall m', m' <> m -> row_of m' (m_tbl (w_post w)) = row_of m' (m_tbl (w_pre w))).
Proof.
  intros Hin Ho Ht. pose proof (vrun_kind ops vinit w Hin) as K.
  destruct K as [_ Hnd _|kw0 r Hop _ _ _ _ _ _ _|m0 r _ _ _ _ _ _ Hx|m0 r w0 Ht0 Er Hk [Hv _] _ Htb _ _
                |m0 r Hop _ _ _ _ _ _|vid ver Hop _ _ _ _ _ _ _].
  - contradiction.
  - rewrite Hop in Ht. discriminate.
  - rewrite Ho in Hx. destruct Hx; discriminate.
  - rewrite Ht in Ht0. inversion Ht0; subst m0. exists r. split; [exact Er|]. split; [|split].
    + rewrite (versions_of_app m _ _ _ Hv). simpl. rewrite Z.eqb_refl. reflexivity.
    + intros m' Hn. rewrite (versions_of_app m' _ _ _ Hv). simpl.
      destruct (Z.eqb m m') eqn:E; [apply Z.eqb_eq in E; subst; contradiction|apply app_nil_r].
    + intros m' Hn. rewrite Htb, row_of_tbl_update.
      destruct (row_of m' (m_tbl (w_pre w))); [|reflexivity].
      destruct (Z.eqb m' m) eqn:E; [apply Z.eqb_eq in E; contradiction|reflexivity].
  - rewrite Hop in Ht. discriminate.
  - rewrite Hop in Ht. discriminate.
Qed.

(* restore: the master row becomes the version's values *)
Lemma hist_restore ops w vid ver :
  In w (vrun vinit ops) -> w_op w = VRestore vid -> w_out w = VDone ->
  find_version vid (v_tbl (w_pre w)) = Some ver ->
  row_of (v_master ver) (m_tbl (w_post w)) = Some (v_vals ver).
Proof.
  intros Hin Hop Ho Hf. pose proof (vrun_kind ops vinit w Hin) as K.
  destruct (vrun_wf ops vinit vwf_init w Hin) as [Hw _].
  destruct K as [_ Hnd _|kw0 r Hop' _ _ _ _ _ _ _|m0 r _ _ _ _ _ _ Hx|m0 r w0 Ht0 Er Hk _ _ Htb _ Hres
                |m0 r Hop' _ _ _ _ _ _|vid' ver' Hop' _ _ _ _ _ _ _]; try congruence.
  - rewrite Ho in Hx. destruct Hx; discriminate.
  - rewrite Hop in Ht0. simpl in Ht0. rewrite Hf in Ht0. inversion Ht0; subst m0.
    rewrite (Hres vid ver Hop Hf) in *.
    destruct (find_version_In _ _ _ Hf) as [Hv _]. destruct (w_vers _ Hw ver (in_vtbl_arch _ Hw _ Hv)) as [_ Hfull].
    destruct (w_rows _ Hw _ _ Er) as [_ Hrfull].
    rewrite Htb, row_of_tbl_update, Er, Z.eqb_refl, (sort_cols_full _ Hfull), (row_update_full _ _ Hfull Hrfull).
    reflexivity.
Qed.

(* no mixing (nothing destroyed): a version filed under m holds a state that m's row really had, and m exists *)
Lemma hist_no_mixing ops w ver :
  vguard ops = true -> In w (vrun vinit ops) -> In ver (v_tbl (w_post w)) ->
  (exists r, row_of (v_master ver) (m_tbl (w_post w)) = Some r)
  /\ In (v_vals ver) (hist_of (v_master ver) (w_post w)).
Proof.
  intros Hg Hin Hv.
  destruct (vrun_inv ops vinit vwf_init vinv_init (vguard_weaken _ _ Hg) w Hin) as [_ [Hh _]].
  destruct (vrun_inv0 ops vinit vinv0_init Hg w Hin) as [_ [_ Hl]].
  destruct (vrun_wf ops vinit vwf_init w Hin) as [_ Hw].
  pose proof (in_vtbl_arch _ Hw _ Hv) as Ha.
  destruct (Hl ver Ha) as [r Er]. split; [eauto|].
  rewrite <- (Hh _ r Er). apply in_or_app. left. apply in_map.
  unfold archived_of. apply filter_In. split; [exact Ha|apply Z.eqb_refl].
Qed.

(* no mixing with destroys: a version, also an orphan of a destroyed master,
   is filed under an id that was handed out, and holds a state of the history of that id *)
Lemma hist_no_mixing_destroy ops w ver :
  vguard_r ops = true -> In w (vrun vinit ops) -> In ver (v_tbl (w_post w)) ->
  v_master ver < m_next (w_post w) /\ In (v_vals ver) (hist_of (v_master ver) (w_post w)).
Proof.
  intros Hg Hin Hv.
  destruct (vrun_inv ops vinit vwf_init vinv_init Hg w Hin) as [_ [Hh Hd]].
  destruct (vrun_wf ops vinit vwf_init w Hin) as [_ Hw].
  pose proof (in_vtbl_arch _ Hw _ Hv) as Ha. split; [exact (w_fresh _ Hw _ Ha)|].
  assert (Hao : In ver (archived_of (v_master ver) (w_post w))).
  { unfold archived_of. apply filter_In. split; [exact Ha|apply Z.eqb_refl]. }
  destruct (row_of (v_master ver) (m_tbl (w_post w))) as [r|] eqn:Er.
  - rewrite <- (Hh _ r Er). apply in_or_app. left. apply in_map. exact Hao.
  - destruct (Hd _ Er) as [H0|[r H0]]; [rewrite H0 in Hao; contradiction|].
    rewrite <- H0. apply in_or_app. left. apply in_map. exact Hao.
Qed.

(* an update refused by validation changes nothing, in every history *)
Lemma hist_invalid_noop ops w :
  In w (vrun vinit ops) -> w_out w = VExn XInvalid -> w_post w = w_pre w.
Proof.
  intros Hin Ho. pose proof (vrun_kind ops vinit w Hin) as K.
  destruct K as [H _ _|kw0 r _ H _ _ _ _ _ _|m0 r _ _ _ _ _ _ Hx|m0 r w0 _ _ _ _ H _ _ _
                |m0 r _ H _ _ _ _ _|vid ver _ H _ _ _ _ _ _]; try congruence.
  rewrite Ho in Hx. destruct Hx; discriminate.
Qed.

(* ------------------------------------------------------------------ destroySelf *)
(* of a master: its row goes, every other row stays, the version table is not
   touched -- the versions stay behind, filed under the id *)
Lemma hist_destroy_master ops w m :
  In w (vrun vinit ops) -> w_op w = VDestroy m -> w_out w = VDone ->
  row_of m (m_tbl (w_post w)) = None
  /\ (forall m', m' <> m -> row_of m' (m_tbl (w_post w)) = row_of m' (m_tbl (w_pre w)))
  /\ v_tbl (w_post w) = v_tbl (w_pre w) /\ m_next (w_post w) = m_next (w_pre w)
  /\ hist (w_post w) = hist (w_pre w).
Proof.
  intros Hin Hop Ho. pose proof (vrun_kind ops vinit w Hin) as K.
  destruct K as [_ Hnd _|kw0 r Hop' _ _ _ _ _ _ _|m0 r _ _ _ _ _ _ Hx|m0 r w0 Ht0 _ _ _ _ _ _ _
                |m0 r Hop' _ Er Ht Hn Hh [S1 _]|vid' ver' Hop' _ _ _ _ _ _ _]; try congruence.
  - rewrite Ho in Hx. destruct Hx; discriminate.
  - rewrite Hop in Ht0. discriminate.
  - rewrite Hop in Hop'. inversion Hop'; subst m0. rewrite Ht. repeat split; try assumption.
    + rewrite row_of_tbl_delete, Z.eqb_refl. reflexivity.
    + intros m' Hne. rewrite row_of_tbl_delete. destruct (Z.eqb m' m) eqn:E; [apply Z.eqb_eq in E; contradiction|reflexivity].
Qed.

(* of a version: exactly that row of the version table goes; rows, history and
   the record of what was archived are untouched *)
Lemma hist_destroy_version ops w vid :
  In w (vrun vinit ops) -> w_op w = VDestroyVer vid -> w_out w = VDone ->
  v_tbl (w_post w) = filter (fun x => negb (Z.eqb (v_id x) vid)) (v_tbl (w_pre w))
  /\ gone (w_post w) = vid :: gone (w_pre w) /\ arch (w_post w) = arch (w_pre w)
  /\ m_tbl (w_post w) = m_tbl (w_pre w) /\ hist (w_post w) = hist (w_pre w).
Proof.
  intros Hin Hop Ho. pose proof (vrun_kind ops vinit w Hin) as K.
  destruct K as [_ Hnd _|kw0 r Hop' _ _ _ _ _ _ _|m0 r _ _ _ _ _ _ Hx|m0 r w0 Ht0 _ _ _ _ _ _ _
                |m0 r Hop' _ _ _ _ _ _|vid' ver' Hop' _ _ Hv Hg _ Ha [S1 [_ S3]]]; try congruence.
  - rewrite Ho in Hx. destruct Hx; discriminate.
  - rewrite Hop in Ht0. discriminate.
  - rewrite Hop in Hop'. inversion Hop'; subst vid'. repeat split; assumption.
Qed.
Lemma hist_gone_only_by_destroy ops w :
  In w (vrun vinit ops) -> (forall vid, w_op w <> VDestroyVer vid) ->
  gone (w_post w) = gone (w_pre w) /\ (forall x, In x (v_tbl (w_pre w)) -> In x (v_tbl (w_post w))).
Proof.
  intros Hin Hop. pose proof (vrun_kind ops vinit w Hin) as K.
  destruct K as [-> _ _|kw0 r _ _ _ _ _ _ _ [S1 [_ [_ S4]]]|m0 r _ _ [Hv [_ [_ [_ Hg]]]] _ _ _ _
                |m0 r w0 _ _ _ [Hv [_ [_ [_ Hg]]]] _ _ _ _
                |m0 r _ _ _ _ _ _ [S1 [_ [_ S4]]]|vid' ver' Hop' _ _ _ _ _ _ _].
  - split; auto.
  - rewrite S1. split; auto.
  - rewrite Hv. split; [assumption|]. intros x Hx. apply in_or_app. left. exact Hx.
  - rewrite Hv. split; [assumption|]. intros x Hx. apply in_or_app. left. exact Hx.
  - rewrite S1. split; auto.
  - exfalso. exact (Hop _ Hop').
Qed.

(* a created master gets an id that no version, destroyed or not, of any
   master, destroyed or not, was ever filed under: it starts with no versions
   and an empty history *)
Lemma hist_create_fresh ops w kw :
  In w (vrun vinit ops) -> w_op w = VCreate kw -> w_out w = VDone ->
  exists r, m_tbl (w_post w) = m_tbl (w_pre w) ++ [(m_next (w_pre w), r)]
    /\ row_of (m_next (w_pre w)) (m_tbl (w_pre w)) = None
    /\ (forall ver, In ver (arch (w_post w)) -> v_master ver <> m_next (w_pre w))
    /\ versions_of (m_next (w_pre w)) (w_post w) = []
    /\ hist_of (m_next (w_pre w)) (w_post w) = [r].
Proof.
  intros Hin Hop Ho. pose proof (vrun_kind ops vinit w Hin) as K.
  destruct (vrun_wf ops vinit vwf_init w Hin) as [Hw Hw'].
  destruct K as [_ Hnd _|kw0 r _ _ _ _ Ht _ Hh [S1 [_ [S3 _]]]|m0 r _ _ _ _ _ _ Hx|m0 r w0 Ht0 _ _ _ _ _ _ _
                |m0 r Hop' _ _ _ _ _ _|vid' ver' Hop' _ _ _ _ _ _ _]; try congruence.
  - exists r. split; [exact Ht|]. split; [|split; [|split]].
    + destruct (row_of (m_next (w_pre w)) (m_tbl (w_pre w))) as [r0|] eqn:E; [|reflexivity].
      pose proof (w_bound _ Hw _ _ E). lia.
    + intros ver. rewrite S3. intros H. pose proof (w_fresh _ Hw _ H). lia.
    + unfold versions_of. rewrite S1. apply filter_none. intros x Hx.
      pose proof (w_fresh _ Hw _ (in_vtbl_arch _ Hw _ Hx)). apply Z.eqb_neq. lia.
    + unfold hist_of. rewrite Hh, hist_get_push_same.
      pose proof (w_hfresh _ Hw (m_next (w_pre w)) (Z.le_refl _)) as H0. unfold hist_of in H0. rewrite H0. reflexivity.
  - rewrite Ho in Hx. destruct Hx; discriminate.
  - rewrite Hop in Ht0. discriminate.
Qed.

(* ------------------------------------------------------------------ nextVersion / getChangedFields *)
Lemma later_of_split st ver l1 l2 :
  vwf st -> versions_of (v_master ver) st = l1 ++ ver :: l2 -> later_of ver (v_tbl st) = l2.
Proof.
  intros Hw Hs. unfold later_of.
  rewrite <- (filter_filter (fun x => Z.ltb (v_id ver) (v_id x)) (fun x => Z.eqb (v_master x) (v_master ver))).
  fold (versions_of (v_master ver) st). rewrite Hs.
  assert (Hso : StronglySorted id_lt (l1 ++ ver :: l2)).
  { rewrite <- Hs. unfold versions_of. apply ssorted_filter. rewrite (w_alive _ Hw). apply ssorted_filter. exact (w_sorted _ Hw). }
  destruct (ssorted_split _ _ _ _ Hso) as [H1 H2]. unfold id_lt in *.
  rewrite filter_app. simpl. rewrite Z.ltb_irrefl.
  rewrite (filter_none _ l1), (filter_all _ l2); [reflexivity| |].
  - intros x Hx. apply Z.ltb_lt. exact (H2 x Hx).
  - intros x Hx. apply Z.ltb_ge. pose proof (H1 x Hx). lia.
Qed.

Lemma next_in_split st ver l1 l2 :
  vwf st -> versions_of (v_master ver) st = l1 ++ ver :: l2 ->
  next_in (v_tbl st) (m_tbl st) ver = successor st ver l2.
Proof. intros Hw Hs. unfold next_in, successor, successor_in. rewrite (later_of_split st ver l1 l2 Hw Hs). reflexivity. Qed.

Lemma hist_next_version ops w vid ver l1 l2 :
  In w (vrun vinit ops) -> w_op w = VNext vid -> find_version vid (v_tbl (w_pre w)) = Some ver ->
  versions_of (v_master ver) (w_pre w) = l1 ++ ver :: l2 ->
  w_post w = w_pre w /\ w_out w = next_outcome (successor (w_pre w) ver l2).
Proof.
  intros Hin Hop Hf Hs. pose proof (vrun_is_step ops vinit w Hin) as Hst. unfold is_vstep in Hst.
  destruct (vrun_wf ops vinit vwf_init w Hin) as [Hw _].
  rewrite Hop in Hst. simpl in Hst. rewrite Hf, (next_in_split _ _ _ _ Hw Hs) in Hst.
  inversion Hst. split; reflexivity.
Qed.
Lemma hist_changed_fields ops w vid ver l1 l2 :
  In w (vrun vinit ops) -> w_op w = VChanged vid -> find_version vid (v_tbl (w_pre w)) = Some ver ->
  versions_of (v_master ver) (w_pre w) = l1 ++ ver :: l2 ->
  w_post w = w_pre w /\ w_out w = changed_outcome ver (successor (w_pre w) ver l2).
Proof.
  intros Hin Hop Hf Hs. pose proof (vrun_is_step ops vinit w Hin) as Hst. unfold is_vstep in Hst.
  destruct (vrun_wf ops vinit vwf_init w Hin) as [Hw _].
  rewrite Hop in Hst. simpl in Hst. rewrite Hf, (next_in_split _ _ _ _ Hw Hs) in Hst.
  inversion Hst. split; reflexivity.
Qed.

(* the pre-state of a step of a guarded history satisfies what the post-states do *)
Lemma hist_inv_pre ops w m r :
  vguard ops = true -> In w (vrun vinit ops) -> row_of m (m_tbl (w_pre w)) = Some r ->
  map v_vals (versions_of m (w_pre w)) ++ [r] = hist_of m (w_pre w).
Proof.
  intros Hg Hin Hr.
  destruct (vrun_inv ops vinit vwf_init vinv_init (vguard_weaken _ _ Hg) w Hin) as [[Hh _] _].
  destruct (vrun_inv0 ops vinit vinv0_init Hg w Hin) as [[Hz _] _].
  destruct (vrun_wf ops vinit vwf_init w Hin) as [Hw _].
  rewrite (versions_archived _ m Hw Hz). exact (Hh m r Hr).
Qed.

(* against the history: version number k (from 0) of master m holds state k of
   m's history, and getChangedFields() names the columns in which state k and
   state k+1 differ *)
Lemma hist_changed_fields_history ops w vid ver l1 l2 r :
  vguard ops = true -> In w (vrun vinit ops) -> w_op w = VChanged vid ->
  find_version vid (v_tbl (w_pre w)) = Some ver ->
  versions_of (v_master ver) (w_pre w) = l1 ++ ver :: l2 ->
  row_of (v_master ver) (m_tbl (w_pre w)) = Some r ->
  v_vals ver = nth (length l1) (hist_of (v_master ver) (w_pre w)) []
  /\ w_out w = VFields (diff_cols (nth (length l1) (hist_of (v_master ver) (w_pre w)) [])
                                  (nth (S (length l1)) (hist_of (v_master ver) (w_pre w)) [])).
Proof.
  intros Hg Hin Hop Hf Hs Hr.
  destruct (hist_changed_fields ops w vid ver l1 l2 Hin Hop Hf Hs) as [_ Ho].
  pose proof (hist_inv_pre ops w _ r Hg Hin Hr) as Hh. rewrite Hs in Hh.
  rewrite map_app in Hh. simpl in Hh. rewrite <- app_assoc in Hh. simpl in Hh.
  rewrite <- Hh.
  assert (Hk : nth (length l1) (map v_vals l1 ++ v_vals ver :: map v_vals l2 ++ [r]) [] = v_vals ver).
  { rewrite <- (map_length v_vals l1). apply nth_middle. }
  assert (Hk1 : nth (S (length l1)) (map v_vals l1 ++ v_vals ver :: map v_vals l2 ++ [r]) []
                = match l2 with x :: _ => v_vals x | [] => r end).
  { replace (map v_vals l1 ++ v_vals ver :: map v_vals l2 ++ [r])
      with ((map v_vals l1 ++ [v_vals ver]) ++ (map v_vals l2 ++ [r])) by (rewrite <- app_assoc; reflexivity).
    replace (S (length l1)) with (length (map v_vals l1 ++ [v_vals ver])) by (rewrite app_length, map_length; simpl; lia).
    destruct l2 as [|x l2']; simpl; apply nth_middle. }
  rewrite Hk, Hk1. split; [reflexivity|].
  rewrite Ho. unfold successor, successor_in. destruct l2 as [|x l2']; [rewrite Hr|]; reflexivity.
Qed.

(* ------------------------------------------------------------------ the open defect *)
(* an update the DATABASE refuses (UNIQUE(a)) after validation passed leaves its snapshot behind *)
Definition ops_refused : list vop := [VCreate [(CA, VInt 1)]; VCreate [(CA, VInt 2)]; VAssign 2 CA (VInt 1)].
Definition full_history_inv : Prop :=
  forall ops w m r, In w (vrun vinit ops) -> row_of m (m_tbl (w_post w)) = Some r ->
    map v_vals (versions_of m (w_post w)) ++ [r] = hist_of m (w_post w).
Lemma full_history_inv_refuted : ~ full_history_inv.
Proof.
  intros H.
  specialize (H ops_refused (nth 2 (vrun vinit ops_refused) {| w_pre := vinit; w_op := VRestore 0; w_out := VDone; w_post := vinit |})
                2 [(CA, VInt 2); (CB, VNull); (CC, VInt 7)]).
  vm_compute in H. specialize (H (or_intror (or_intror (or_introl eq_refl))) eq_refl). discriminate H.
Qed.
Lemma refused_witness :
  exists w, In w (vrun vinit ops_refused) /\ w_out w = VExn XDuplicate
    /\ m_tbl (w_post w) = m_tbl (w_pre w)
    /\ length (versions_of 2 (w_post w)) = S (length (versions_of 2 (w_pre w))).
Proof. eexists. split; [right; right; left; reflexivity|]. repeat split. Qed.
(* the fixed one (6e91999), kept as a regression *)
Definition ops_invalid : list vop := [VCreate [(CA, VInt 1)]; VAssign 1 CA (VStr [120%N])].

(* set() refused for an unknown keyword after its values passed validation leaves its snapshot behind, too *)
Definition ops_kwrefused : list vop := [VCreate [(CA, VInt 1)]; VSetBad 1 [(CB, VStr [113%N])]].
Lemma kwrefused_witness :
  exists w, In w (vrun vinit ops_kwrefused) /\ w_out w = VExn XTypeError
    /\ m_tbl (w_post w) = m_tbl (w_pre w)
    /\ length (versions_of 1 (w_post w)) = S (length (versions_of 1 (w_pre w)))
    /\ map v_vals (versions_of 1 (w_post w)) ++ [[(CA, VInt 1); (CB, VNull); (CC, VInt 7)]] <> hist_of 1 (w_post w).
Proof. eexists. split; [right; left; reflexivity|]. repeat split. vm_compute. discriminate. Qed.

(* ------------------------------------------------------------------ masters on another connection than the class's own *)
(* whatever the connection mode, the history is the class-mode history and the class's own database is not touched *)
Lemma vquery_no_change t st o out : vquery t st o = Some out -> fst (vstep st o) = st.
Proof.
  destruct o; simpl; try discriminate; intros _.
  - destruct (find_version vid (v_tbl st)); reflexivity.
  - destruct (find_version vid (v_tbl st)); reflexivity.
Qed.
Lemma wstep_state foreign ws o :
  w_main (fst (wstep foreign ws o)) = fst (vstep (w_main ws) o) /\ w_decoy (fst (wstep foreign ws o)) = w_decoy ws.
Proof. unfold wstep. split; reflexivity. Qed.
Lemma wfinal_any foreign ops : forall ws,
  w_main (wfinal foreign ws ops) = vfinal (w_main ws) ops /\ w_decoy (wfinal foreign ws ops) = w_decoy ws.
Proof.
  induction ops as [|o r IH]; intros ws; [split; reflexivity|].
  unfold wfinal, vfinal in *. cbn [fold_left]. destruct (IH (fst (wstep foreign ws o))) as [H1 H2].
  destruct (wstep_state foreign ws o) as [H3 H4].
  rewrite H1, H2, H3, H4. split; reflexivity.
Qed.

(* outcomes: whatever the connection mode, every operation -- nextVersion and
   getChangedFields included, since 7323516 -- answers as the class-mode history does *)
Lemma wstep_outcome foreign ws o : snd (wstep foreign ws o) = snd (vstep (w_main ws) o).
Proof. reflexivity. Qed.
(* the witness of next_version_ignores_version_connection (fixed by 7323516), kept as a regression *)
Definition ops_next_foreign : list vop :=
  [VCreate [(CA, VInt 1)]; VAssign 1 CB (VStr [120%N]); VAssign 1 CA (VInt 2)].

(* the witness of the defect fixed by 61db062: restore() of a version on a foreign connection *)
Definition ops_foreign : list vop :=
  [VCreate [(CA, VInt 1)]; VAssign 1 CB (VStr [120%N]); VAssign 1 CA (VInt 4); VRestore 1].
