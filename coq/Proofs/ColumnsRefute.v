(* C01: witnesses of the known findings, on the faithful model of the unchanged code. *)
From Coq Require Import List NArith ZArith Bool Lia.
From Lib Require Import Str Lex ColumnsTpl.
From Gen Require Import Columns.
From Model Require Import Columns.
From Proofs Require Import ColumnsExact ColumnsMain.
Import ListNotations.
Open Scope N_scope.

Definition d_2020_01_02 : pyval := PDate 2020 1 2.
Definition dt_aware : pyval := PDateTime 2020 1 2 3 4 5 6 true.
Definition dec_100 : pyval := PDec false 100 0.

(* finding date_time_kind_unreadable: a DateTimeCol accepts a date, stores '2020-01-02', and every
   load raises Invalid; create raises AFTER the INSERT *)
Lemma date_in_datetime_col C w var :
  let o := run C TDateTime d_2020_01_02 w var in
  o_row o = true /\ o_stored o = SText [50; 48; 50; 48; 45; 48; 49; 45; 48; 50] /\ o_db o = Some (Raise E_Invalid) /\
  o_write o = match w with WCreate => Raise E_Invalid | _ => Ok tt end.
Proof. destruct w, var; vm_compute; repeat split; reflexivity. Qed.

Lemma date_in_datetime_col_inconsistent C w var : ~ consistent (run C TDateTime d_2020_01_02 w var).
Proof.
  pose proof (date_in_datetime_col C w var) as (Hrow & Hst & Hdb & Hw). unfold consistent. rewrite Hw.
  destruct w; [rewrite Hst; discriminate| |]; intros (c & d & _ & Hd & _); rewrite Hdb in Hd; discriminate.
Qed.

Lemma accept_refuted :
  exists T v, wf v = true /\ forall C w var, guard_engine C T v = true /\ ~ consistent (run C T v w var).
Proof.
  exists TDateTime, d_2020_01_02. split; [reflexivity|]. intros C w var. split; [reflexivity|].
  apply date_in_datetime_col_inconsistent.
Qed.

(* finding tzinfo_dropped: an aware datetime is accepted, the writer keeps it, the row holds the naive text *)
Lemma aware_datetime C :
  let o := run C TDateTime dt_aware WSetattr VEager in
  o_write o = Ok tt /\ o_cache o = Some (Ok dt_aware) /\ o_db o = Some (Ok (PDateTime 2020 1 2 3 4 5 6 false)) /\
  pyeq dt_aware (PDateTime 2020 1 2 3 4 5 6 false) = false.
Proof. vm_compute. repeat split; reflexivity. Qed.
Lemma aware_datetime_inconsistent C : ~ consistent (run C TDateTime dt_aware WSetattr VEager).
Proof.
  pose proof (aware_datetime C) as (Hw & Hc & Hd & Hne). unfold consistent. rewrite Hw.
  intros (c & d & Hc' & Hd' & Hs & _). rewrite Hc in Hc'. rewrite Hd in Hd'. injection Hc' as <-. injection Hd' as <-.
  destruct Hs as [Hs|Hs]; [discriminate|]. rewrite Hne in Hs. discriminate.
Qed.

(* the equality query on such a row raises instead of finding it *)
Lemma query_refuted :
  exists T v, wf v = true /\ forall C, guard_engine C T v = true /\
    o_write (run C T v WSetattr VEager) = Ok tt /\ o_found (run C T v WSetattr VEager) = Some (Raise E_Invalid).
Proof. exists TDateTime, d_2020_01_02. split; [reflexivity|]. intros C. repeat split; reflexivity. Qed.

(* finding decimal_integral_read_as_int: Decimal('100') in DECIMAL(10,3) is stored as INTEGER 100 and
   every database read returns the int 100 *)
Lemma integral_decimal C w var :
  let o := run C (TDecimal 10 3) dec_100 w var in
  o_write o = Ok tt /\ o_stored o = SInt 100 /\ o_db o = Some (Ok (PInt 100)).
Proof. destruct w, var; vm_compute; repeat split; reflexivity. Qed.

Lemma roundtrip_refuted :
  exists T v, wf v = true /\ coltype_ok T = true /\ in_domain T v = true /\
    forall C w var, exists d, o_db (run C T v w var) = Some (Ok d) /\ pytype d <> pytype v.
Proof.
  exists (TDecimal 10 3), dec_100. repeat split; try reflexivity. intros C w var.
  pose proof (integral_decimal C w var) as (_ & _ & Hd). exists (PInt 100). split; [exact Hd|discriminate].
Qed.

(* ---- findings that live in sqlite's floating point: stated relative to the engine behaviour
   observed on the bundled sqlite 3.40.1 (the corpus cases record it) *)
Definition big_int : Z := 9223372036854775809%Z.            (* 2^63 + 1 *)
Definition big_int_text : str := [57; 50; 50; 51; 51; 55; 50; 48; 51; 54; 56; 53; 52; 55; 55; 53; 56; 48; 57].
Definition two_63_bits : fl := 4890909195324358656.           (* the double 2^63 *)

Lemma int_beyond_int64 C :
  num_store C AINTEGER big_int_text = Ok (SReal two_63_bits) ->
  let o := run C TInt (PInt big_int) WSetattr VEager in
  o_write o = Ok tt /\ o_cache o = Some (Ok (PInt big_int)) /\ o_db o = Some (Ok (PInt 9223372036854775808%Z)).
Proof.
  intros H. unfold run. cbn [fk_unwrap from_python v_int to_python]. unfold db_store. cbn [literal rbind].
  change (dec_Z big_int) with big_int_text.
  assert (Hs : sqlite_store C (col_affinity TInt) big_int_text = Ok (SReal two_63_bits)).
  { unfold sqlite_store. change (col_affinity TInt) with AINTEGER.
    change (contains c_nul big_int_text) with false. change (existsb is_surrogate big_int_text) with false.
    change (str_eqb big_int_text s_NULL) with false. cbv iota.
    change (int_of_text big_int_text) with (Some big_int). unfold big_int_text at 1. cbv iota beta.
    change (57 =? c_q) with false. cbv iota. change (int64_ok big_int) with false. cbv iota. exact H. }
  rewrite Hs. repeat split; reflexivity.
Qed.

Definition f_wit : fl := 9362499206817354000.                  (* -2.2606631148481385e-299 *)
Definition f_wit_back : fl := 9362499206817353999.             (* -2.2606631148481382e-299 *)
Lemma float_misrounded C lit :
  frepr C f_wit = lit -> sqlite_store C AREAL lit = Ok (SReal f_wit_back) ->
  let o := run C TFloat (PFloat f_wit) WCreate VEager in
  o_write o = Ok tt /\ o_db o = Some (Ok (PFloat f_wit_back)) /\ pyeq (PFloat f_wit) (PFloat f_wit_back) = false.
Proof.
  intros Hr Hs. unfold run. cbn [fk_unwrap from_python v_float to_python]. unfold db_store. cbn [literal rbind].
  rewrite Hr. change (col_affinity TFloat) with AREAL. rewrite Hs. repeat split; reflexivity.
Qed.
