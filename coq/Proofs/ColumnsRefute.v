(* C01: witnesses of the known findings, on the faithful model of the unchanged code. *)
From Coq Require Import List NArith ZArith Bool Lia.
From Lib Require Import Str Lex ColumnsTpl.
From Gen Require Import Columns.
From Model Require Import Columns.
From Proofs Require Import ColumnsExact ColumnsMain.
Import ListNotations.
Open Scope N_scope.

Definition d_2020_01_02 : pyval := PDate 2020 1 2.
Definition dt_aware : pyval := PDateTime 2020 1 2 3 4 5 6 true.
Definition dec_100 : pyval := PDec false 100 0.

(* fixed d26c1c0 (was finding date_time_kind_unreadable): a date handed to a DateTimeCol is midnight of
   that day on every read path; a time is refused with nothing stored *)
Lemma date_in_datetime_col C w var :
  let o := run C TDateTime d_2020_01_02 w var in
  o_write o = Ok tt /\ o_cache o = Some (Ok (PDateTime 2020 1 2 0 0 0 0 false)) /\
  o_db o = Some (Ok (PDateTime 2020 1 2 0 0 0 0 false)) /\ o_found o = Some (Ok true).
Proof. destruct w, var; vm_compute; repeat split; reflexivity. Qed.
Lemma time_in_datetime_col C w var :
  let o := run C TDateTime (PTime 1 2 3 0 false) w var in
  o_write o = Raise E_Invalid /\ o_stored o = SNull.
Proof. destruct w, var; vm_compute; split; reflexivity. Qed.

(* fixed e4e0676 (was finding decimal_integral_read_as_int): Decimal('100') in DECIMAL(10,3) is held as
   INTEGER 100 and every database read returns Decimal(100) *)
Lemma integral_decimal C w var :
  let o := run C (TDecimal 10 3) dec_100 w var in
  o_write o = Ok tt /\ o_stored o = SInt 100 /\ o_db o = Some (Ok dec_100).
Proof. destruct w, var; vm_compute; repeat split; reflexivity. Qed.

(* finding tzinfo_dropped (open): an aware datetime is accepted, the writer keeps it, the row holds the naive text *)
Lemma aware_datetime C :
  let o := run C TDateTime dt_aware WSetattr VEager in
  o_write o = Ok tt /\ o_cache o = Some (Ok dt_aware) /\ o_db o = Some (Ok (PDateTime 2020 1 2 3 4 5 6 false)) /\
  pyeq dt_aware (PDateTime 2020 1 2 3 4 5 6 false) = false.
Proof. vm_compute. repeat split; reflexivity. Qed.
Lemma aware_datetime_inconsistent C : ~ consistent (run C TDateTime dt_aware WSetattr VEager).
Proof.
  pose proof (aware_datetime C) as (Hw & Hc & Hd & Hne). unfold consistent. rewrite Hw.
  intros (c & d & Hc' & Hd' & Hs & _). rewrite Hc in Hc'. rewrite Hd in Hd'. injection Hc' as <-. injection Hd' as <-.
  destruct Hs as [Hs|Hs]; [discriminate|]. rewrite Hne in Hs. discriminate.
Qed.

Lemma accept_refuted :
  exists T v w var, wf v = true /\ forall C, guard_engine C T v = true /\ ~ consistent (run C T v w var).
Proof.
  exists TDateTime, dt_aware, WSetattr, VEager. split; [reflexivity|]. intros C. split; [reflexivity|].
  apply aware_datetime_inconsistent.
Qed.

(* fixed 353d81a (was finding string_id_instance_unquoted): a foreign key to a string-keyed class takes an
   instance, stores its id, and the equality query by that instance -- rendered as a quoted string -- finds the row *)
Definition inst_007 : pyval := PObjS [48; 48; 55].
Definition inst_abc : pyval := PObjS [97; 98; 99].
Lemma string_id_instance C w var :
  let o := run C TForeignKeyStr inst_007 w var in
  o_write o = Ok tt /\ o_stored o = SText [48; 48; 55] /\ o_db o = Some (Ok (PStr [48; 48; 55])) /\
  o_found o = Some (Ok true) /\ o_found (run C TForeignKeyStr inst_abc w var) = Some (Ok true).
Proof. destruct w, var; vm_compute; repeat split; reflexivity. Qed.

(* ---- findings that live in sqlite's floating point: stated relative to the engine behaviour
   observed on the bundled sqlite 3.40.1 (the corpus cases record it) *)
Definition big_int : Z := 9223372036854775809%Z.            (* 2^63 + 1 *)
Definition big_int_text : str := [57; 50; 50; 51; 51; 55; 50; 48; 51; 54; 56; 53; 52; 55; 55; 53; 56; 48; 57].
Definition two_63_bits : fl := 4890909195324358656.           (* the double 2^63 *)

Lemma int_beyond_int64 C :
  num_store C AINTEGER big_int_text = Ok (SReal two_63_bits) ->
  let o := run C TInt (PInt big_int) WSetattr VEager in
  o_write o = Ok tt /\ o_cache o = Some (Ok (PInt big_int)) /\ o_db o = Some (Ok (PInt 9223372036854775808%Z)).
Proof.
  intros H. unfold run. cbn [fk_unwrap from_python v_int to_python]. unfold db_store. cbn [literal rbind].
  change (dec_Z big_int) with big_int_text.
  assert (Hs : sqlite_store C (col_affinity TInt) big_int_text = Ok (SReal two_63_bits)).
  { unfold sqlite_store. change (col_affinity TInt) with AINTEGER.
    change (contains c_nul big_int_text) with false. change (existsb is_surrogate big_int_text) with false.
    change (str_eqb big_int_text s_NULL) with false. cbv iota.
    change (int_of_text big_int_text) with (Some big_int). unfold big_int_text at 1. cbv iota beta.
    change (57 =? c_q) with false. cbv iota. change (int64_ok big_int) with false. cbv iota. exact H. }
  rewrite Hs. repeat split; reflexivity.
Qed.

Definition f_wit : fl := 9362499206817354000.                  (* -2.2606631148481385e-299 *)
Definition f_wit_back : fl := 9362499206817353999.             (* -2.2606631148481382e-299 *)
Lemma float_misrounded C lit :
  frepr C f_wit = lit -> sqlite_store C AREAL lit = Ok (SReal f_wit_back) ->
  let o := run C TFloat (PFloat f_wit) WCreate VEager in
  o_write o = Ok tt /\ o_db o = Some (Ok (PFloat f_wit_back)) /\ pyeq (PFloat f_wit) (PFloat f_wit_back) = false.
Proof.
  intros Hr Hs. unfold run. cbn [fk_unwrap from_python v_float to_python]. unfold db_store. cbn [literal rbind].
  rewrite Hr. change (col_affinity TFloat) with AREAL. rewrite Hs. repeat split; reflexivity.
Qed.

(* finding decimal_stored_as_real: within DecimalCol(size=20, precision=2) *)
Definition dec20_wit : pyval := PDec false 12345678901234567891 (-2).          (* 123456789012345678.91 *)
Definition dec20_text : str := Eval vm_compute in dec_eng_string false 12345678901234567891 (-2).
Lemma decimal_as_real C :
  num_store C ANUMERIC dec20_text = Ok (SInt 123456789012345680) ->
  let o := run C (TDecimal 20 2) dec20_wit WCreate VEager in
  in_domain (TDecimal 20 2) dec20_wit = true /\
  o_write o = Ok tt /\ o_db o = Some (Ok (PDec false 123456789012345680 0)) /\
  pyeq dec20_wit (PDec false 123456789012345680 0) = false.
Proof.
  intros H. split; [reflexivity|]. unfold run. cbn [fk_unwrap from_python v_decimal_from to_python v_decimal_to dec20_wit].
  unfold db_store. change (literal C dec20_wit) with (@Ok str dec20_text). cbn [rbind].
  assert (Hs : sqlite_store C (col_affinity (TDecimal 20 2)) dec20_text = Ok (SInt 123456789012345680)).
  { change (col_affinity (TDecimal 20 2)) with ANUMERIC. unfold sqlite_store.
    change (contains c_nul dec20_text) with false. change (existsb is_surrogate dec20_text) with false.
    change (str_eqb dec20_text s_NULL) with false. cbv iota.
    change (int_of_text dec20_text) with (@None Z). change (numeric_start dec20_text) with true.
    unfold dec20_text at 1. cbv iota beta. change (49 =? c_q) with false. cbv iota. exact H. }
  rewrite Hs. repeat split; reflexivity.
Qed.
