(* C12 -- without assuming that the restrict test stays silent: under
   acyclicity destroySelf always terminates, either with an integrity error
   or having deleted exactly the closure; and it cannot complete while a row
   referencing the closure through cascade=False survives. *)
From Coq Require Import List ZArith NArith Bool Lia.
From Model Require Import Cascade.
From Proofs Require Import CascadeAlg CascadeReach Cascade.
Import ListNotations.
Open Scope Z_scope.

Lemma run_list_inv2 : forall {A} (body : A -> state -> result) (Inv : list A -> state -> Prop) l0 l d st,
  d ++ l = l0 -> Inv d st ->
  (forall d' a r st', d' ++ a :: r = l0 -> Inv d' st' ->
     (exists st'', body a st' = Raised st'') \/
     (exists st'', body a st' = Done st'' /\ Inv (d' ++ [a]) st'')) ->
  (exists st', run_list body l st = Raised st') \/
  (exists st', run_list body l st = Done st' /\ Inv l0 st').
Proof.
  intros A body Inv l0 l. induction l as [|a l IH]; intros d st E HI Hstep; cbn.
  - rewrite app_nil_r in E. subst. right. eauto.
  - destruct (Hstep d a l st E HI) as [[st'' Hb]|[st'' [Hb HI']]]; rewrite Hb.
    + left. eauto.
    + apply (IH (d ++ [a])); auto. rewrite <- app_assoc. auto.
Qed.

Section Total.
Variable dc : bool.
Variable g : graph.
Variable st0 : state.
Hypothesis WG : wf_graph g = true.
Hypothesis WS : wf_state st0 = true.
Notation ap := (apply dc g).
Notation R := (reach g st0).
Notation good := (good g st0).
Notation desc := (desc g).
Notation delp := Cascade.delp.
Notation RSl := (RSl g st0).
Notation children_in := (children_in st0).

(* every row that referenced a row deleted between sg and sg' through
   cascade=False has been deleted as well *)
Definition Phi (sg sg' : sigma) : Prop :=
  forall q k r, delp sg' q -> ~ delp sg q -> In k g -> In r (table st0 (c_name k)) ->
    refs_by is_restrict (fst q) (snd q) k r = true -> delp sg' (c_name k, r_id r).

Lemma Phi_same_del : forall a b, (forall q, delp b q -> delp a q) -> Phi a b.
Proof. intros a b H q k r Hq Hn. exfalso. auto. Qed.

Lemma Phi_trans : forall a b c, Phi a b -> Phi b c -> (forall q, delp b q -> delp c q) -> Phi a c.
Proof.
  intros a b c Hab Hbc Hm q k r Hq Hn Hk Hr Href.
  destruct (sg_del b (fst q) (snd q)) eqn:E.
  - apply Hm. apply (Hab q k r); auto.
  - apply (Hbc q k r); auto. unfold Cascade.delp. congruence.
Qed.

Lemma desc_del_mono : forall a b S Nx Lx, desc a b S Nx Lx -> forall q, delp a q -> delp b q.
Proof. intros a b S Nx Lx [D _] [k i] H. unfold Cascade.delp in *; cbn in *. apply D. auto. Qed.

Lemma dep_step_gen : forall rec name x k sg,
  In k g -> good sg ->
  (forall sg1 c, good sg1 -> In c (children g st0 (name, x)) ->
     (exists st', rec (ap sg1 st0) c = Raised st') \/
     (exists sg2, rec (ap sg1 st0) c = Done (ap sg2 st0) /\ desc sg1 sg2 (R c) none3 none3 /\ Phi sg1 sg2)) ->
  (exists st', dep_step rec name x k (ap sg st0) = Raised st') \/
  (exists sg' launched,
    dep_step rec name x k (ap sg st0) = Done (ap sg' st0) /\ good sg' /\
    desc sg sg' (RSl launched)
      (fun kn t y => kn = c_name k /\ t = name /\ y = x /\
                     existsb (fun c => is_setnull (fk_policy c)) (dep_cols name k) = true)
      (fun t s y => y = x /\ In (t, s) (dep_link_targets name k)) /\
    (forall c, In c launched -> In c (children_in k (name, x))) /\
    (forall c, In c (children_in k (name, x)) -> delp sg' c) /\
    Phi sg sg' /\
    (forall r, In r (table st0 (c_name k)) -> refs_by is_restrict name x k r = true ->
               delp sg' (c_name k, r_id r))).
Proof.
  intros rec name x k sg Hk Hg Hrec.
  assert (Hcols : cols_of g (c_name k) = c_fks k) by (apply cols_of_in; auto).
  unfold dep_step. rewrite fold_dep_links. fold (dep_link_targets name k).
  rewrite step_delete_links_list.
  set (sg1 := add_links (dep_link_targets name k) x sg).
  assert (D1 : desc sg sg1 none1 none3 (fun t s y => y = x /\ In (t, s) (dep_link_targets name k)))
    by apply desc_add_links.
  assert (G1 : good sg1) by (eapply good_desc; eauto; intros ? ? []).
  set (n := c_name k) in *.
  destruct (is_nil (dep_cols name k)) eqn:Enil.
  { apply is_nil_true in Enil. right.
    exists sg1, []. split; auto. split; auto. split; [|split; [|split; [|split]]].
    - eapply desc_ext; [apply D1|..]; intros.
      + rewrite RSl_nil. unfold none1. tauto.
      + unfold none3. rewrite Enil. cbn. split; [intros [] | intros [_ [_ [_ H]]]; discriminate].
      + tauto.
    - intros c [].
    - intros c Hc. exfalso. unfold Cascade.children_in in Hc. apply in_map_iff in Hc as [r [_ Hr]].
      apply filter_In in Hr as [_ Hr]. apply refs_cascade_dep in Hr. cbn in Hr. rewrite Enil in Hr. discriminate.
    - apply Phi_same_del. intros [k' i] H. destruct D1 as [D _]. unfold Cascade.delp in *; cbn in *.
      apply D in H as [H|[]]; auto.
    - intros r Hr Href. exfalso. apply refs_dep in Href; auto. rewrite Enil in Href. discriminate. }
  destruct (existsb (fun c => is_restrict (fk_policy c)) (dep_cols name k) &&
            negb (is_nil (select_restricting name x k (ap sg1 st0)))) eqn:Htest.
  { left. eauto. }
  (* no surviving row of this class references the victim through cascade=False *)
  assert (Hnr1 : forall r, In r (table st0 n) -> keep sg1 n r = true ->
                           refs_by is_restrict name x k r = false).
  { intros r Hr Hkeep. destruct (refs_by is_restrict name x k r) eqn:Href; auto. exfalso.
    apply andb_false_iff in Htest as [H|H].
    - apply refs_dep in Href; auto. congruence.
    - apply negb_false_iff in H. apply is_nil_true in H.
      unfold select_restricting in H. fold n in H. rewrite table_apply in H. rewrite Hcols in H.
      set (r' := null_row (sg_null sg1 n) (c_fks k) r).
      assert (Hin : In r' (map (null_row (sg_null sg1 n) (c_fks k))
                               (filter (keep sg1 n) (table st0 n)))).
      { apply in_map. apply filter_In. split; auto. }
      pose proof (filter_nil_all _ _ H r' Hin) as Hm.
      unfold r' in Hm. rewrite row_restricts_refs, refs_after_null in Hm; auto. congruence. }
  set (En := existsb (fun c => is_setnull (fk_policy c)) (dep_cols name k)).
  set (sg2 := if En then add_null n name x sg1 else sg1).
  assert (E2 : (if En then fold_left (fun s r => sql_null_row k name x (r_id r) s)
                              (select_matching name x k (ap sg1 st0)) (ap sg1 st0)
                else ap sg1 st0) = ap sg2 st0).
  { unfold sg2. destruct En; auto. apply step_null_pass; auto. }
  rewrite E2. clear E2.
  assert (D2 : desc sg1 sg2 none1 (fun kn t y => kn = n /\ t = name /\ y = x /\ En = true) none3).
  { unfold sg2. destruct En.
    - unfold Cascade.desc, none1, none3; cbn. repeat split; intros; auto.
      + destruct H as [|[]]; auto.
      + revert H. bprop. intros [H|[[H1 H2] H3]]; auto 7.
      + bprop. destruct H as [H|[[[] _]|[H1 [H2 [H3 _]]]]]; auto.
      + destruct H as [|[[T [[] _]]|[]]]; auto.
    - eapply desc_ext; [apply desc_refl|..]; unfold none3; intros; try tauto.
      split; [intros [] | intros [_ [_ [_ H]]]; discriminate]. }
  assert (G2 : good sg2) by (eapply good_desc; eauto; intros ? ? []).
  assert (D12 : desc sg sg2 none1
                  (fun kn t y => kn = n /\ t = name /\ y = x /\ En = true)
                  (fun t s y => y = x /\ In (t, s) (dep_link_targets name k))).
  { eapply desc_ext; [eapply desc_trans; [apply D1 | apply D2]|..]; unfold none1, none3; intros; tauto. }
  assert (Hdel2 : forall q, delp sg2 q -> delp sg q).
  { intros [k' i] H. destruct D12 as [D _]. unfold Cascade.delp in *; cbn in *. apply D in H as [H|[]]; auto. }
  assert (Hdel1 : forall k' i, sg_del sg1 k' i = sg_del sg2 k' i).
  { intros. unfold sg2. destruct En; auto. }
  (* rows that reference the victim through cascade=False are already gone *)
  assert (Hrestr : forall r, In r (table st0 n) -> refs_by is_restrict name x k r = true ->
                             delp sg2 (n, r_id r)).
  { intros r Hr Href. unfold Cascade.delp; cbn. rewrite <- Hdel1.
    destruct (sg_del sg1 n (r_id r)) eqn:Ed; auto. exfalso.
    rewrite (Hnr1 r Hr) in Href; [discriminate|]. unfold keep. fold n. rewrite Ed. auto. }
  destruct (existsb (fun c => is_cascade (fk_policy c)) (dep_cols name k)) eqn:Ec.
  2:{ right. exists sg2, []. split; auto. split; auto. split; [|split; [|split; [|split]]].
    - eapply desc_ext; [apply D12|..]; intros; try tauto.
      rewrite RSl_nil. unfold none1. tauto.
    - intros c [].
    - intros c Hc. exfalso. unfold Cascade.children_in in Hc. apply in_map_iff in Hc as [r [_ Hr]].
      apply filter_In in Hr as [_ Hr]. apply refs_cascade_dep in Hr. cbn in Hr. rewrite Ec in Hr. discriminate.
    - apply Phi_same_del. auto.
    - auto. }
  assert (Hpt : forall r, In r (table st0 n) ->
            keep sg2 n r && row_matches name x k (null_row (sg_null sg2 n) (c_fks k) r) =
            keep sg2 n r && refs_by is_cascade name x k r).
  { intros r Hr. destruct (keep sg2 n r) eqn:Ek; auto. cbn.
    assert (Hnr : refs_by is_restrict name x k r = false).
    { apply Hnr1; auto. unfold keep in *. fold n. rewrite Hdel1. auto. }
    destruct r as [i vals]. unfold row_matches, null_row, refs_by; cbn.
    apply match_after_null.
    - exact Hnr.
    - intros c Hc Hcol Hs.
      assert (HEn : En = true).
      { unfold En. apply existsb_exists. exists c. split; auto. unfold dep_cols. apply filter_In; auto. }
      unfold sg2. rewrite HEn. cbn. rewrite !N.eqb_refl, Z.eqb_refl. apply orb_true_r. }
  assert (Hids : map r_id (select_matching name x k (ap sg2 st0)) =
                 map r_id (filter (fun r => keep sg2 n r && refs_by is_cascade name x k r) (table st0 n))).
  { rewrite select_apply by auto. rewrite filter_map', map_map. cbn. rewrite filter_filter'. f_equal.
    apply filter_ext_in'. intros r Hr. fold n. apply Hpt; auto. }
  rewrite Hids.
  set (ids := map r_id (filter (fun r => keep sg2 n r && refs_by is_cascade name x k r) (table st0 n))).
  assert (Hidsin : forall i, In i ids -> In (n, i) (children_in k (name, x))).
  { intros i Hi. unfold ids in Hi. apply in_map_iff in Hi as [r [<- Hr]]. apply filter_In in Hr as [Hr1 Hr2].
    apply andb_true_iff in Hr2 as [_ Hr2]. unfold Cascade.children_in. apply in_map_iff. exists r. split; auto.
    apply filter_In. auto. }
  destruct (run_list_inv2 (fun i s => rec s (n, i))
              (fun d st => exists sgd, st = ap sgd st0 /\ good sgd /\
                                       desc sg2 sgd (RSl (map (fun i => (n, i)) d)) none3 none3 /\
                                       Phi sg2 sgd)
              ids ids [] (ap sg2 st0)) as [[st' Hrun]|[st' [Hrun [sg3 [-> [G3 [D3 P3]]]]]]].
  - auto.
  - exists sg2. split; auto. split; auto. split.
    + cbn. eapply desc_ext; [apply desc_refl|..]; intros; try tauto. rewrite RSl_nil. unfold none1. tauto.
    + apply Phi_same_del. auto.
  - intros d' i r st' Hsplit [sgd [-> [Gd [Dd Pd]]]].
    assert (Hi : In i ids) by (rewrite <- Hsplit; apply in_app_iff; cbn; auto).
    destruct (Hrec sgd (n, i) Gd) as [[st'' Hr'']|[sg'' [Hr'' [D'' P'']]]].
    { apply children_in_children with (k := k); auto. }
    { left. eauto. }
    right. exists (ap sg'' st0). split; auto. exists sg''. split; auto. split; [|split].
    + eapply good_desc; eauto. intros p c Hp Hc. eapply reach_trans; eauto. apply reach_child; auto.
    + eapply desc_ext; [eapply desc_trans; [apply Dd | apply D'']|..]; unfold none3; intros; try tauto.
      rewrite map_app. cbn. rewrite RSl_app1. tauto.
    + eapply Phi_trans; eauto. eapply desc_del_mono; eauto.
  - left. eauto.
  - right.
    exists sg3, (map (fun i => (n, i)) ids). split; auto. split; auto. split; [|split; [|split; [|split]]].
    + eapply desc_ext; [eapply desc_trans; [apply D12 | apply D3]|..]; unfold none1, none3; intros; tauto.
    + intros c Hc. apply in_map_iff in Hc as [i [<- Hi]]. auto.
    + intros c Hc. unfold Cascade.children_in in Hc. apply in_map_iff in Hc as [r [<- Hr]].
      apply filter_In in Hr as [Hr1 Hr2]. cbn in Hr2. unfold Cascade.delp; cbn. fold n.
      destruct D3 as [D3 _]. apply D3.
      destruct (keep sg2 n r) eqn:Ek.
      * right. exists (n, r_id r). split; [|constructor].
        apply in_map. unfold ids. apply in_map. apply filter_In. split; auto. rewrite Ek, Hr2. auto.
      * left. unfold keep in Ek. apply negb_false_iff in Ek. auto.
    + eapply Phi_trans; [apply Phi_same_del; apply Hdel2 | apply P3 | eapply desc_del_mono; eauto].
    + intros r Hr Href. eapply desc_del_mono; eauto.
Qed.

Lemma destroy_gen : forall f sg p,
  good sg -> boundedb f g st0 p = true ->
  (exists st', destroy dc f g (ap sg st0) p = Raised st') \/
  (exists sg', destroy dc f g (ap sg st0) p = Done (ap sg' st0) /\ desc sg sg' (R p) none3 none3 /\ Phi sg sg').
Proof.
  induction f as [|f IH]; intros sg p Hg Hb; [discriminate|].
  destruct p as [name x]. cbn [destroy fst snd].
  rewrite fold_own_links, step_delete_links_list.
  set (own_ts := map (fun j => (j_table j, j_side j)) (joins_of g name)).
  set (sg1 := add_links own_ts x sg).
  assert (D1 : desc sg sg1 none1 none3 (fun t s y => y = x /\ In (t, s) own_ts)) by apply desc_add_links.
  assert (G1 : good sg1) by (eapply good_desc; eauto; intros ? ? []).
  assert (Hrec : forall sgA c, good sgA -> In c (children g st0 (name, x)) ->
            (exists st', destroy dc f g (ap sgA st0) c = Raised st') \/
            (exists sgB, destroy dc f g (ap sgA st0) c = Done (ap sgB st0) /\
                         desc sgA sgB (R c) none3 none3 /\ Phi sgA sgB)).
  { intros sgA c GA Hc. apply IH; auto. eapply boundedb_child; eauto. }
  set (deps := find_dependencies name g).
  set (Nd := fun (d : list classdef) (kn t : N) (y : Z) =>
               exists k, In k d /\ kn = c_name k /\ t = name /\ y = x /\
                         existsb (fun c => is_setnull (fk_policy c)) (dep_cols name k) = true).
  set (Ld := fun (d : list classdef) (t : N) (s : bool) (y : Z) =>
               exists k, In k d /\ y = x /\ In (t, s) (dep_link_targets name k)).
  destruct (run_list_inv2 (dep_step (destroy dc f g) name x)
              (fun d st => exists sgd launched, st = ap sgd st0 /\ good sgd /\
                 desc sg1 sgd (RSl launched) (Nd d) (Ld d) /\
                 (forall c, In c launched -> In c (children g st0 (name, x))) /\
                 (forall k c, In k d -> In c (children_in k (name, x)) -> delp sgd c) /\
                 Phi sg1 sgd /\
                 (forall k r, In k d -> In r (table st0 (c_name k)) -> refs_by is_restrict name x k r = true ->
                              delp sgd (c_name k, r_id r)))
              deps deps [] (ap sg1 st0))
    as [[st' Hrun]|[st' [Hrun [sgL [launched [-> [GL [DL [HL1 [HL2 [PL HL3]]]]]]]]]]].
  - auto.
  - exists sg1, []. split; auto. split; auto. split; [|split; [|split; [|split]]].
    + eapply desc_ext; [apply desc_refl|..]; intros.
      * rewrite RSl_nil. unfold none1. tauto.
      * unfold none3, Nd. split; [intros [] | intros [k0 [[] _]]].
      * unfold none3, Ld. split; [intros [] | intros [k0 [[] _]]].
    + intros c [].
    + intros k c [].
    + apply Phi_same_del. auto.
    + intros k r [].
  - intros d' k r st' Hsplit [sgd [lnd [-> [Gd [Dd [Hl1 [Hl2 [Pd Hl3]]]]]]]].
    assert (Hkd : In k deps) by (rewrite <- Hsplit; apply in_app_iff; cbn; auto).
    assert (Hk : In k g) by (unfold deps, find_dependencies in Hkd; apply filter_In in Hkd; tauto).
    destruct (dep_step_gen (destroy dc f g) name x k sgd Hk Gd Hrec)
      as [[st'' Hstep]|[sg' [ln' [Hstep [G' [D' [Hn1 [Hn2 [P' Hn3]]]]]]]]].
    { left. eauto. }
    right. exists (ap sg' st0). split; auto. exists sg', (lnd ++ ln'). split; auto. split; auto.
    assert (Hmono : forall q, delp sgd q -> delp sg' q) by (eapply desc_del_mono; eauto).
    split; [|split; [|split; [|split]]].
    + eapply desc_ext; [eapply desc_trans; [apply Dd | apply D']|..]; intros.
      * rewrite RSl_app. tauto.
      * unfold Nd. split.
        -- intros [[k9 [Hk9 H]]|[H1 H]]; [exists k9 | exists k]; (split; [apply in_app_iff; cbn; auto | tauto]).
        -- intros [k9 [Hk9 H]]. apply in_app_iff in Hk9 as [Hk9|[<-|[]]]; [left; exists k9; auto | right; tauto].
      * unfold Ld. split.
        -- intros [[k9 [Hk9 H]]|H]; [exists k9 | exists k]; (split; [apply in_app_iff; cbn; auto | tauto]).
        -- intros [k9 [Hk9 H]]. apply in_app_iff in Hk9 as [Hk9|[<-|[]]]; [left; exists k9; auto | right; tauto].
    + intros c Hc. apply in_app_iff in Hc as [Hc|Hc]; auto.
      apply children_in_children with (k := k); auto.
    + intros k0 c Hk0 Hc. apply in_app_iff in Hk0 as [Hk0|[<-|[]]]; auto. apply Hmono. eauto.
    + eapply Phi_trans; eauto.
    + intros k0 r0 Hk0 Hr0 Href. apply in_app_iff in Hk0 as [Hk0|[<-|[]]]; auto.
  - left. rewrite Hrun. eauto.
  - right. rewrite Hrun. rewrite step_delete_row.
    exists (add_del name x sgL).
    (* the description of the final state is the one established in destroy_ok;
       re-derive it from the same facts *)
    assert (Hdesc : desc sg (add_del name x sgL) (R (name, x)) none3 none3).
    { destruct D1 as [D1d [D1n D1l]]. destruct DL as [DLd [DLn DLl]]. destruct Hg as [U C].
      assert (Hlaunch : forall q, RSl launched q -> R (name, x) q).
      { intros q [c [Hc Hr]]. eapply reach_step; eauto. }
      assert (F1 : forall c, In c (children g st0 (name, x)) -> delp sgL c).
      { intros c Hc. destruct (children_split _ _ _ _ Hc) as [k [Hk Hck]].
        apply (HL2 k c); auto.
        unfold Cascade.children_in in Hck. apply in_map_iff in Hck as [r [_ Hr]]. apply filter_In in Hr as [_ Hr].
        apply refs_cascade_dep in Hr. apply existsb_exists in Hr as [col [Hcol _]].
        eapply dep_of_col; eauto. }
      assert (F2 : forall q, delp sgL q -> delp sg q \/ RSl launched q).
      { intros [k i] H. unfold Cascade.delp in *; cbn in *. apply DLd in H as [H|H]; auto.
        apply D1d in H as [H|[]]; auto. }
      assert (F3 : forall c q, In c (children g st0 (name, x)) -> R c q -> delp sg q \/ RSl launched q).
      { intros c q Hc Hr. destruct (F2 c (F1 c Hc)) as [H|[a [Ha Hra]]].
        - left. eapply up_closed_reach; eauto.
        - right. exists a. split; auto. eapply reach_trans; eauto. }
      unfold Cascade.desc, none3. cbn. repeat split.
      + bprop. intros [H|[-> ->]].
        * apply DLd in H as [H|H]; auto. apply D1d in H as [H|[]]; auto.
        * right. constructor.
      + intros [H|H].
        * apply orb_true_iff. left. apply DLd. left. apply D1d. auto.
        * apply reach_inv in H as [H|[c [Hc Hr]]].
          -- inversion H; subst. rewrite !N.eqb_refl, Z.eqb_refl. apply orb_true_r.
          -- apply orb_true_iff. left. destruct (F3 c _ Hc Hr) as [H|H].
             ++ apply DLd. left. apply D1d. auto.
             ++ apply DLd. auto.
      + intros H. apply DLn in H as [H|[[H1 H2]|H]].
        * apply D1n in H as [H|[[[] _]|[]]]. auto.
        * auto.
        * destruct H as [k0 [Hk0 [-> [-> [-> Hs]]]]]. right; left. split; [constructor|].
          apply dep_relevant; auto. unfold deps, find_dependencies in Hk0. apply filter_In in Hk0. tauto.
      + intros [H|[[Hr Hrel]|[]]].
        * apply DLn. left. apply D1n. auto.
        * apply reach_inv in Hr as [Hr|[c [Hc Hr]]].
          -- inversion Hr; subst. apply DLn. right; right.
             destruct (relevant_dep _ _ _ Hrel) as [k0 [Hk0 [Hn Hs]]]. exists k0. auto.
          -- destruct (F3 c _ Hc Hr) as [H|H].
             ++ apply DLn. left. apply D1n. left. apply (C t y H); auto.
             ++ apply DLn. auto.
      + intros H. apply DLl in H as [H|[[T [H1 H2]]|H]].
        * apply D1l in H as [H|[[T [[] _]]|[-> H]]]; auto.
          right; left. exists name. split; [constructor|].
          unfold own_ts in H. apply in_map_iff in H as [j [Hj Hin]]. inversion Hj; subst.
          unfold joins_of in Hin. destruct (find_class g name) as [a|] eqn:Ef; [|destruct Hin].
          apply find_class_some in Ef as [Ha <-]. apply hitb_own; auto.
        * right; left. eauto.
        * destruct H as [k0 [Hk0 [-> Hin]]]. right; left. exists name. split; [constructor|].
          unfold dep_link_targets in Hin. apply in_map_iff in Hin as [j [Hj Hin]]. inversion Hj; subst.
          apply filter_In in Hin as [Hin Ho]. apply N.eqb_eq in Ho. subst name.
          apply hitb_dep with (a := k0); auto.
          unfold deps, find_dependencies in Hk0. apply filter_In in Hk0. tauto.
      + intros [H|[[T [Hr Hh]]|[]]].
        * apply DLl. left. apply D1l. auto.
        * apply reach_inv in Hr as [Hr|[c [Hc Hr]]].
          -- inversion Hr; subst T y.
             destruct (hitb_inv _ _ _ _ Hh) as [a [j [Ha [Hj [Ht [[Hn Hs]|[Ho Hs]]]]]]].
             ++ apply DLl. left. apply D1l. right; right. split; auto.
                unfold own_ts. apply in_map_iff. exists j. split; [subst; auto|].
                subst name. rewrite joins_of_in; auto.
             ++ apply DLl. right; right. exists a. split; [eapply dep_of_join; eauto|]. split; auto.
                unfold dep_link_targets. apply in_map_iff. exists j. split; [subst; auto|].
                apply filter_In. split; auto. apply N.eqb_eq; auto.
          -- destruct (F3 c _ Hc Hr) as [H|H].
             ++ apply DLl. left. apply D1l. left. apply (C T y H); auto.
             ++ apply DLl. right; left. eauto. }
    split; auto. split; auto.
    (* restrictors *)
    assert (Hm1 : forall q, delp sg1 q -> delp sg q).
    { intros [k i] H. destruct D1 as [D _]. unfold Cascade.delp in *; cbn in *. apply D in H as [H|[]]; auto. }
    assert (HmL : forall q, delp sgL q -> delp (add_del name x sgL) q).
    { intros [k i] H. unfold Cascade.delp in *; cbn in *. rewrite H. auto. }
    intros q k r Hq Hnq Hk Hr Href.
    destruct (sg_del sgL (fst q) (snd q)) eqn:EL.
    + apply HmL. apply (PL q k r); auto.
    + (* q is the victim itself *)
      unfold Cascade.delp in Hq. cbn in Hq. rewrite EL in Hq. cbn in Hq.
      apply andb_true_iff in Hq as [Hq1 Hq2]. apply N.eqb_eq in Hq1. apply Z.eqb_eq in Hq2.
      rewrite Hq1, Hq2 in Href. apply HmL. apply (HL3 k r); auto.
      apply refs_dep in Href; auto. apply existsb_exists in Href as [col [Hcol _]].
      eapply dep_of_col; eauto.
Qed.

End Total.

(* ================================================================ *)
(* Theorems without the restrict-free guard                           *)

Lemma desc_empty_full : forall dc g st p sg',
  acyclicb g st p = true -> desc g sg_empty sg' (reach g st p) none3 none3 ->
  apply dc g sg' st = apply dc g (full g (closure g st p)) st.
Proof.
  intros dc g st p sg' Ha [Dd [Dn Dl]]. apply apply_ext.
  - intros k i. apply bool_iff_eq. rewrite Dd. cbn. rewrite closure_reach by auto.
    split; [intros [H|H]; [discriminate|auto] | auto].
  - intros k t y Hrel. apply bool_iff_eq. rewrite Dn. cbn. rewrite closure_reach by auto.
    unfold none3. split; [intros [H|[[H _]|[]]]; [discriminate|auto] | auto].
  - intros t s y. apply bool_iff_eq. rewrite Dl. cbn. unfold none3. rewrite existsb_exists. split.
    + intros [H|[[T [H1 H2]]|[]]]; [discriminate|]. exists (T, y). split.
      * apply closure_complete; auto.
      * cbn. rewrite Z.eqb_refl, H2. auto.
    + intros [[T y'] [H1 H2]]. cbn in H2. apply andb_true_iff in H2 as [H2 H3]. apply Z.eqb_eq in H2. subst y'.
      right; left. exists T. split; auto. apply closure_sound; auto.
Qed.

Lemma total_cases : forall dc g st p fuel,
  wf_graph g = true -> wf_state st = true -> acyclicb g st p = true ->
  (fuel > length (all_nodes g st))%nat ->
  (exists st', destroy dc fuel g st p = Raised st') \/
  (exists sg', destroy dc fuel g st p = Done (apply dc g sg' st) /\
               desc g sg_empty sg' (reach g st p) none3 none3 /\ Phi g st sg_empty sg').
Proof.
  intros dc g st p fuel WG WS Ha Hfuel.
  destruct (destroy_gen dc g st WG WS fuel sg_empty p) as [H|H].
  - apply good_empty.
  - eapply boundedb_le; [|apply Ha]. lia.
  - rewrite apply_empty in H. auto.
  - rewrite apply_empty in H. auto.
Qed.

(* no row-level cascade cycle below the victim: destroySelf terminates *)
Theorem terminates : forall dc g st p fuel,
  wf_graph g = true -> wf_state st = true -> acyclicb g st p = true ->
  (fuel > length (all_nodes g st))%nat ->
  destroy dc fuel g st p <> OutOfFuel.
Proof.
  intros dc g st p fuel WG WS Ha Hfuel.
  destruct (total_cases dc g st p fuel WG WS Ha Hfuel) as [[st' H]|[sg' [H _]]]; rewrite H; discriminate.
Qed.

(* whenever destroySelf returns normally the state is the specification's:
   exactly the closure is deleted, with its null-outs and link cleanup *)
Theorem done_is_spec : forall dc g st p fuel st',
  wf_graph g = true -> wf_state st = true -> acyclicb g st p = true ->
  (fuel > length (all_nodes g st))%nat ->
  destroy dc fuel g st p = Done st' ->
  st' = apply dc g (full g (closure g st p)) st.
Proof.
  intros dc g st p fuel st' WG WS Ha Hfuel Hd.
  destruct (total_cases dc g st p fuel WG WS Ha Hfuel) as [[st'' H]|[sg' [H [D _]]]]; rewrite H in Hd.
  - discriminate.
  - inversion Hd. apply desc_empty_full; auto.
Qed.

(* ... and then every row that referenced the closure through cascade=False
   was itself in the closure *)
Theorem done_restrictors_in_closure : forall dc g st p fuel st',
  wf_graph g = true -> wf_state st = true -> acyclicb g st p = true ->
  (fuel > length (all_nodes g st))%nat ->
  destroy dc fuel g st p = Done st' ->
  forall d k r, In d (closure g st p) -> In k g -> In r (table st (c_name k)) ->
    refs_by is_restrict (fst d) (snd d) k r = true -> In (c_name k, r_id r) (closure g st p).
Proof.
  intros dc g st p fuel st' WG WS Ha Hfuel Hd d k r Hin Hk Hr Href.
  destruct (total_cases dc g st p fuel WG WS Ha Hfuel) as [[st'' H]|[sg' [H [[Dd _] P]]]]; rewrite H in Hd.
  - discriminate.
  - apply closure_complete; auto.
    assert (Hdel : Cascade.delp sg' (c_name k, r_id r)).
    { apply (P d k r); auto.
      - unfold Cascade.delp. destruct d as [T y]; cbn. apply Dd. right. apply closure_sound; auto.
      - unfold Cascade.delp. cbn. discriminate. }
    unfold Cascade.delp in Hdel. cbn in Hdel. apply Dd in Hdel as [Hdel|Hdel]; [discriminate|auto].
Qed.

(* a row outside the closure that references it through cascade=False makes
   destroySelf raise (the refusal is noticed, possibly too late) *)
Theorem refusal_noticed : forall dc g st p fuel d k r,
  wf_graph g = true -> wf_state st = true -> acyclicb g st p = true ->
  (fuel > length (all_nodes g st))%nat ->
  In d (closure g st p) -> In k g -> In r (table st (c_name k)) ->
  refs_by is_restrict (fst d) (snd d) k r = true -> ~ In (c_name k, r_id r) (closure g st p) ->
  exists st', destroy dc fuel g st p = Raised st'.
Proof.
  intros dc g st p fuel d k r WG WS Ha Hfuel Hin Hk Hr Href Hout.
  destruct (destroy dc fuel g st p) as [st'|st'|] eqn:E.
  - exfalso. apply Hout. eapply done_restrictors_in_closure; eauto.
  - eauto.
  - exfalso. eapply terminates; eauto.
Qed.

(* every destroyed row is gone from its table and from the identity map, on
   caching and non-caching connections alike *)
Theorem gone : forall dc g st p fuel st',
  wf_graph g = true -> wf_state st = true -> acyclicb g st p = true ->
  (fuel > length (all_nodes g st))%nat ->
  destroy dc fuel g st p = Done st' ->
  forall q, In q (closure g st p) ->
    row_exists st' q = false /\ get_found st' q = false.
Proof.
  intros dc g st p fuel st' WG WS H Hfuel Hd q Hq.
  rewrite (done_is_spec dc g st p fuel st' WG WS H Hfuel Hd).
  assert (Hrow : row_exists (apply dc g (full g (closure g st p)) st) q = false).
  { unfold row_exists. rewrite table_full. apply existsb_false. intros r' Hr'.
    apply in_map_iff in Hr' as [r [<- Hr]]. apply filter_In in Hr as [_ Hr]. cbn.
    destruct (Z.eqb (r_id r) (snd q)) eqn:E; auto. apply Z.eqb_eq in E.
    apply negb_true_iff in Hr. rewrite E in Hr. destruct q as [k i]; cbn in *.
    apply mem_In in Hq. congruence. }
  split; auto. unfold get_found. rewrite Hrow, orb_false_r.
  unfold apply; cbn. match goal with |- ?m = false => destruct m eqn:E; auto end.
  apply mem_In in E. apply filter_In in E as [_ E]. cbn in E. apply negb_true_iff in E.
  destruct q as [k i]; cbn in *. apply mem_In in Hq. congruence.
Qed.

(* the exact contents of every class table and link table afterwards *)
Theorem effect : forall dc g st p fuel st',
  wf_graph g = true -> wf_state st = true -> acyclicb g st p = true ->
  (fuel > length (all_nodes g st))%nat ->
  destroy dc fuel g st p = Done st' ->
  let D := closure g st p in
  (forall n, table st' n =
     map (null_row (fun t y => mem (t, y) D) (cols_of g n))
         (filter (fun r => negb (mem (n, r_id r) D)) (table st n))) /\
  (forall t, link_table st' t =
     filter (fun l => negb (existsb (fun q => Z.eqb (snd q) (fst l) && hitb g (fst q) t false) D ||
                            existsb (fun q => Z.eqb (snd q) (snd l) && hitb g (fst q) t true) D))
            (link_table st t)).
Proof.
  intros dc g st p fuel st' WG WS H Hfuel Hd D.
  rewrite (done_is_spec dc g st p fuel st' WG WS H Hfuel Hd).
  split; intros; [apply table_full | apply link_table_full].
Qed.

(* a row outside D that holds no cascade='null' reference into D is still
   there, unchanged *)
Theorem untouched : forall dc g st p fuel st',
  wf_graph g = true -> wf_state st = true -> acyclicb g st p = true ->
  (fuel > length (all_nodes g st))%nat ->
  destroy dc fuel g st p = Done st' ->
  forall n r, In r (table st n) -> ~ In (n, r_id r) (closure g st p) ->
    (forall c v y, In (c, v) (combine (cols_of g n) (r_vals r)) -> is_setnull (fk_policy c) = true ->
                   v = Some y -> ~ In (fk_target c, y) (closure g st p)) ->
    In r (table st' n).
Proof.
  intros dc g st p fuel st' WG WS H Hfuel Hd n r Hr Hnd Hnull.
  destruct (effect dc g st p fuel st' WG WS H Hfuel Hd) as [Ht _]. rewrite Ht.
  apply in_map_iff. exists r. split.
  - destruct r as [i vals]. unfold null_row; cbn. f_equal. apply null_vals_same.
    intros c v y Hin Hs Hv. destruct (mem (fk_target c, y) (closure g st p)) eqn:E; auto.
    apply mem_In in E. exfalso. eapply Hnull; eauto.
  - apply filter_In. split; auto. apply negb_true_iff.
    destruct (mem (n, r_id r) (closure g st p)) eqn:E; auto. apply mem_In in E. contradiction.
Qed.

(* columns that are not cascade='null' keep their value in every surviving
   row (cascade=None references are left dangling) *)
Theorem other_columns_kept : forall dc g st p fuel st',
  wf_graph g = true -> wf_state st = true -> acyclicb g st p = true ->
  (fuel > length (all_nodes g st))%nat ->
  destroy dc fuel g st p = Done st' ->
  forall n r', In r' (table st' n) ->
    exists r, In r (table st n) /\ r_id r = r_id r' /\ ~ In (n, r_id r) (closure g st p) /\
      forall j c, nth_error (cols_of g n) j = Some c -> is_setnull (fk_policy c) = false ->
                  nth_error (r_vals r') j = nth_error (r_vals r) j.
Proof.
  intros dc g st p fuel st' WG WS H Hfuel Hd n r' Hr'.
  destruct (effect dc g st p fuel st' WG WS H Hfuel Hd) as [Ht _]. rewrite Ht in Hr'.
  apply in_map_iff in Hr' as [r [<- Hr]]. apply filter_In in Hr as [Hr Hk].
  exists r. split; auto. split; auto. split.
  - intros Hin. apply mem_In in Hin. rewrite Hin in Hk. discriminate.
  - intros j c Hc Hs. cbn. eapply null_vals_nth; eauto.
Qed.

