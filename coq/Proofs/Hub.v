(* Proofs about Model/Hub.v: a doInTransaction running alone is the body run
   against the table, all or nothing; under every interleaving the table
   changes only in the step in which a doInTransaction returns; the hub slots
   are restored; the transaction is finished and released. *)
From Coq Require Import List ZArith Bool Lia ZifyBool.
From Model Require Import Txn Hub.
From Proofs Require Import TxnBase.
Import ListNotations.
Open Scope Z_scope.

(* ------------------------------------------------------------------ threads as a list *)
Lemma thread_set_same g t sl ph :
  (t < length (g_threads g))%nat ->
  thread (set_thread g t sl ph) t = {| ts_slot := sl; ts_phase := ph |}.
Proof. intros H. unfold thread at 1. unfold set_thread. cbn. apply nth_set_nth_same. exact H. Qed.
Lemma thread_set_other g t t' sl ph : t <> t' -> thread (set_thread g t sl ph) t' = thread g t'.
Proof. intros H. unfold thread at 1. unfold set_thread. cbn. apply nth_set_nth_other. exact H. Qed.
Lemma length_set_thread g t sl ph : length (g_threads (set_thread g t sl ph)) = length (g_threads g).
Proof. unfold set_thread. cbn. apply length_set_nth. Qed.

Lemma thread_install_same g t is_thr c ph :
  (t < length (g_threads g))%nat ->
  thread (install g t is_thr c ph) t =
    {| ts_slot := if is_thr then Some c else ts_slot (thread g t); ts_phase := ph |}.
Proof.
  intros H. unfold install. destruct is_thr.
  - apply thread_set_same. exact H.
  - unfold thread at 1. unfold with_gproc. cbn. apply nth_set_nth_same. exact H.
Qed.
Lemma thread_install_other g t t' is_thr c ph : t <> t' -> thread (install g t is_thr c ph) t' = thread g t'.
Proof.
  intros H. unfold install. destruct is_thr.
  - apply thread_set_other. exact H.
  - unfold thread at 1. unfold with_gproc. cbn. apply nth_set_nth_other. exact H.
Qed.
Lemma committed_install g t is_thr c ph : g_committed (install g t is_thr c ph) = g_committed g.
Proof. unfold install. destruct is_thr; reflexivity. Qed.
Lemma lock_install g t is_thr c ph : g_lock (install g t is_thr c ph) = g_lock g.
Proof. unfold install. destruct is_thr; reflexivity. Qed.
Lemma proc_install g t is_thr c ph : g_proc (install g t is_thr c ph) = if is_thr then g_proc g else Some c.
Proof. unfold install. destruct is_thr; reflexivity. Qed.
Lemma length_install g t is_thr c ph : length (g_threads (install g t is_thr c ph)) = length (g_threads g).
Proof. unfold install. destruct is_thr; cbn; apply length_set_nth. Qed.

Lemma committed_release g t : g_committed (release_lock g t) = g_committed g.
Proof. unfold release_lock. destruct (g_lock g) as [t'|]; [destruct (Nat.eqb t' t)|]; reflexivity. Qed.
Lemma threads_release g t : g_threads (release_lock g t) = g_threads g.
Proof. unfold release_lock. destruct (g_lock g) as [t'|]; [destruct (Nat.eqb t' t)|]; reflexivity. Qed.
Lemma proc_release g t : g_proc (release_lock g t) = g_proc g.
Proof. unfold release_lock. destruct (g_lock g) as [t'|]; [destruct (Nat.eqb t' t)|]; reflexivity. Qed.
Lemma thread_release g t t' : thread (release_lock g t) t' = thread g t'.
Proof. unfold thread. rewrite threads_release. reflexivity. Qed.
Lemma lock_release g t : g_lock (release_lock g t) = match g_lock g with Some t' => if Nat.eqb t' t then None else Some t' | None => None end.
Proof. unfold release_lock. destruct (g_lock g) as [t'|] eqn:E; [destruct (Nat.eqb t' t); cbn; auto|auto]. Qed.

(* ------------------------------------------------------------------ a step of thread t leaves the other threads alone *)
(* every exit installs `old` again after releasing the lock; only the phase and (on commit) the table differ *)
Definition exit_with (g : gst) (t : nat) (old : cref) (is_thr : bool) (view : option table) (ph : phase) : gst :=
  install (release_lock (match view with Some v => with_gcommitted g v | None => g end) t) t is_thr old ph.

Lemma exit_raise_eq g t old is_thr e k : exit_raise g t old is_thr e k = exit_with g t old is_thr None (PDone (Raised e k) (Some finished)).
Proof. reflexivity. Qed.
Lemma exit_return_eq g t old is_thr view cr : exit_return g t old is_thr view cr = exit_with g t old is_thr view (PDone (Return cr) (Some finished)).
Proof. reflexivity. Qed.

Section ExitWith.
Variables (g : gst) (t : nat) (old : cref) (is_thr : bool) (view : option table) (ph : phase).
Let g1 := match view with Some v => with_gcommitted g v | None => g end.
Lemma g1_threads : g_threads g1 = g_threads g. Proof. unfold g1; destruct view; reflexivity. Qed.
Lemma g1_lock : g_lock g1 = g_lock g. Proof. unfold g1; destruct view; reflexivity. Qed.
Lemma g1_proc : g_proc g1 = g_proc g. Proof. unfold g1; destruct view; reflexivity. Qed.
Lemma g1_thread t' : thread g1 t' = thread g t'. Proof. unfold thread. rewrite g1_threads. reflexivity. Qed.

Lemma exit_thread_other t' : t <> t' -> thread (exit_with g t old is_thr view ph) t' = thread g t'.
Proof. intros H. unfold exit_with. fold g1. rewrite thread_install_other by exact H. rewrite thread_release. apply g1_thread. Qed.
Lemma exit_thread_same :
  (t < length (g_threads g))%nat ->
  thread (exit_with g t old is_thr view ph) t =
    {| ts_slot := if is_thr then Some old else ts_slot (thread g t); ts_phase := ph |}.
Proof.
  intros H. unfold exit_with. fold g1. rewrite thread_install_same by (rewrite threads_release, g1_threads; exact H).
  rewrite thread_release, g1_thread. reflexivity.
Qed.
Lemma exit_length : length (g_threads (exit_with g t old is_thr view ph)) = length (g_threads g).
Proof. unfold exit_with. fold g1. rewrite length_install, threads_release, g1_threads. reflexivity. Qed.
Lemma exit_committed : g_committed (exit_with g t old is_thr view ph) = match view with Some v => v | None => g_committed g end.
Proof. unfold exit_with. rewrite committed_install, committed_release. destruct view; reflexivity. Qed.
Lemma exit_proc : g_proc (exit_with g t old is_thr view ph) = if is_thr then g_proc g else Some old.
Proof. unfold exit_with. fold g1. rewrite proc_install, proc_release, g1_proc. reflexivity. Qed.
Lemma exit_lock :
  g_lock (exit_with g t old is_thr view ph) = match g_lock g with Some t' => if Nat.eqb t' t then None else Some t' | None => None end.
Proof. unfold exit_with. fold g1. rewrite lock_install, lock_release, g1_lock. reflexivity. Qed.
End ExitWith.

(* the shape of one step *)
Inductive tick_shape (g : gst) (t : nat) : gst -> Prop :=
| TS_none : tick_shape g t g
| TS_set sl ph : tick_shape g t (set_thread g t sl ph)
| TS_enter n is_thr body : tick_shape g t (install g t is_thr (CTx t) (PRun (CDb n) is_thr None [] body 0 []))
| TS_go sl ph : tick_shape g t (set_thread (with_glock g (Some t)) t sl ph)
| TS_exit old is_thr view ph : tick_shape g t (exit_with g t old is_thr view ph).

Lemma tick_has_shape g t : tick_shape g t (tick g t).
Proof.
  unfold tick.
  destruct (ts_phase (thread g t)) as [body|old is_thr view cached rest k created|r x]; [| |constructor].
  - destruct (ts_slot (thread g t)) as [[n|u]|]; [apply TS_enter|apply TS_set|].
    destruct (g_proc g) as [[n|u]|]; [apply TS_enter|apply TS_set|apply TS_set].
  - destruct rest as [|st rest].
    + rewrite exit_return_eq. apply TS_exit.
    + destruct st; cbv zeta.
      * destruct (locked_by_other g t); [rewrite exit_raise_eq; apply TS_exit|].
        destruct (tbl_insert [a; b; None] (tview g view)) as [id v']. apply TS_go.
      * destruct (negb (get_ok (tview g view) cached id)); [rewrite exit_raise_eq; apply TS_exit|].
        destruct (locked_by_other g t); [rewrite exit_raise_eq; apply TS_exit|apply TS_go].
      * destruct (negb (get_ok (tview g view) cached id)); [rewrite exit_raise_eq; apply TS_exit|].
        destruct (locked_by_other g t); [rewrite exit_raise_eq; apply TS_exit|apply TS_go].
      * destruct (locked_by_other g t); [rewrite exit_raise_eq; apply TS_exit|apply TS_go].
      * destruct (locked_by_other g t); [rewrite exit_raise_eq; apply TS_exit|apply TS_go].
      * destruct (locked_by_other g t); [rewrite exit_raise_eq; apply TS_exit|apply TS_go].
      * destruct (locked_by_other g t); [rewrite exit_raise_eq; apply TS_exit|].
        destruct (clash ucol (tview g view) None u); [destruct guard; [apply TS_go|rewrite exit_raise_eq; apply TS_exit]|].
        destruct (tbl_insert [a; b; u] (tview g view)) as [id v']. apply TS_go.
      * destruct (negb (get_ok (tview g view) cached id)); [rewrite exit_raise_eq; apply TS_exit|].
        destruct (locked_by_other g t); [rewrite exit_raise_eq; apply TS_exit|].
        destruct (upd_clash ucol (tview g view) id u); [destruct guard; [apply TS_go|rewrite exit_raise_eq; apply TS_exit]|apply TS_go].
      * destruct (locked_by_other g t); [rewrite exit_raise_eq; apply TS_exit|].
        destruct (upd_clash ucol (tview g view) id u); [destruct guard; [apply TS_go|rewrite exit_raise_eq; apply TS_exit]|apply TS_go].
      * rewrite exit_raise_eq. apply TS_exit.
Qed.

Lemma tick_other g t t' : t <> t' -> thread (tick g t) t' = thread g t'.
Proof.
  intros H. destruct (tick_has_shape g t); auto.
  - apply thread_set_other. exact H.
  - apply thread_install_other. exact H.
  - rewrite thread_set_other by exact H. reflexivity.
  - apply exit_thread_other. exact H.
Qed.

Lemma length_tick g t : length (g_threads (tick g t)) = length (g_threads g).
Proof.
  destruct (tick_has_shape g t); auto.
  - apply length_set_thread.
  - apply length_install.
  - rewrite length_set_thread. reflexivity.
  - apply exit_length.
Qed.

Lemma tick_done g t r x : ts_phase (thread g t) = PDone r x -> tick g t = g.
Proof. intros H. unfold tick. rewrite H. reflexivity. Qed.

(* ------------------------------------------------------------------ all or nothing, step by step *)
(* the committed table changes in a step of thread t only when t's doInTransaction returns in that step,
   and then it becomes exactly the transaction's view *)
Lemma tick_committed g t :
  g_committed (tick g t) = g_committed g \/
  exists old is_thr v cached k created,
    ts_phase (thread g t) = PRun old is_thr (Some v) cached [] k created /\
    g_committed (tick g t) = v /\
    ((t < length (g_threads g))%nat -> ts_phase (thread (tick g t) t) = PDone (Return created) (Some finished)).
Proof.
  unfold tick.
  destruct (ts_phase (thread g t)) as [body|old is_thr view cached rest k created|r x] eqn:Eph; [| |left; reflexivity].
  - left. destruct (ts_slot (thread g t)) as [[n|u]|]; [apply committed_install|reflexivity|].
    destruct (g_proc g) as [[n|u]|]; [apply committed_install|reflexivity|reflexivity].
  - destruct rest as [|st rest].
    + destruct view as [v|].
      * right. exists old, is_thr, v, cached, k, created. split; [reflexivity|]. rewrite exit_return_eq.
        split; [rewrite exit_committed; reflexivity|intros Hl; rewrite exit_thread_same by exact Hl; reflexivity].
      * left. rewrite exit_return_eq. apply exit_committed.
    + left.
      assert (E : forall e, g_committed (exit_raise g t old is_thr e k) = g_committed g) by (intros e; rewrite exit_raise_eq; apply exit_committed).
      destruct st; cbv zeta.
      * destruct (locked_by_other g t); [apply E|].
        destruct (tbl_insert [a; b; None] (tview g view)) as [id v']. reflexivity.
      * destruct (negb (get_ok (tview g view) cached id)); [apply E|]. destruct (locked_by_other g t); [apply E|]. reflexivity.
      * destruct (negb (get_ok (tview g view) cached id)); [apply E|]. destruct (locked_by_other g t); [apply E|]. reflexivity.
      * destruct (locked_by_other g t); [apply E|]. reflexivity.
      * destruct (locked_by_other g t); [apply E|]. reflexivity.
      * destruct (locked_by_other g t); [apply E|]. reflexivity.
      * destruct (locked_by_other g t); [apply E|].
        destruct (clash ucol (tview g view) None u); [destruct guard; [reflexivity|apply E]|].
        destruct (tbl_insert [a; b; u] (tview g view)) as [id v']. reflexivity.
      * destruct (negb (get_ok (tview g view) cached id)); [apply E|]. destruct (locked_by_other g t); [apply E|].
        destruct (upd_clash ucol (tview g view) id u); [destruct guard; [reflexivity|apply E]|reflexivity].
      * destruct (locked_by_other g t); [apply E|].
        destruct (upd_clash ucol (tview g view) id u); [destruct guard; [reflexivity|apply E]|reflexivity].
      * apply E.
Qed.

Lemma run_sched_app g a b : run_sched g (a ++ b) = run_sched (run_sched g a) b.
Proof. revert g; induction a as [|t a IH]; intros g; cbn; auto. Qed.

Lemma length_run_sched sched : forall g, length (g_threads (run_sched g sched)) = length (g_threads g).
Proof. induction sched as [|t s IH]; intros g; cbn; auto. rewrite IH. apply length_tick. Qed.

(* once through, a thread stays through, whatever the others do *)
Lemma done_stays sched : forall g t r x, ts_phase (thread g t) = PDone r x -> ts_phase (thread (run_sched g sched) t) = PDone r x.
Proof.
  induction sched as [|t' s IH]; intros g t r x H; cbn; auto.
  apply IH. destruct (Nat.eq_dec t' t) as [->|Hne].
  - rewrite (tick_done g t r x H). exact H.
  - rewrite tick_other by exact Hne. exact H.
Qed.

(* a doInTransaction that ends by raising never changed the table, in no step, under any interleaving *)
Lemma raised_never_committed g0 p t q e k x :
  (t < length (g_threads g0))%nat ->
  ts_phase (thread (run_sched g0 (p ++ t :: q)) t) = PDone (Raised e k) x ->
  g_committed (run_sched g0 (p ++ [t])) = g_committed (run_sched g0 p).
Proof.
  intros Hl Hfin. rewrite run_sched_app. cbn.
  destruct (tick_committed (run_sched g0 p) t) as [H|(old & is_thr & v & cached & k' & created & _ & _ & H)]; [exact H|].
  exfalso. rewrite length_run_sched in H. specialize (H Hl).
  assert (E : run_sched g0 (p ++ t :: q) = run_sched (tick (run_sched g0 p) t) q) by (rewrite run_sched_app; reflexivity).
  rewrite E in Hfin. rewrite (done_stays q _ t _ _ H) in Hfin. discriminate.
Qed.

(* ------------------------------------------------------------------ invariants of the thread-level runs *)
(* relative to the start g0: a thread outside its doInTransaction has its own connection in its slot;
   inside, the slot holds its transaction and `old` is that connection; whoever has a private view holds
   the lock, and the lock is held by a thread with a private view; a used transaction is finished and released *)
Definition inv_thread (g0 g : gst) (t : nat) : Prop :=
  match ts_phase (thread g t) with
  | PIdle _ => ts_slot (thread g t) = ts_slot (thread g0 t)
  | PRun old is_thr view _ _ _ _ =>
      is_thr = true /\ ts_slot (thread g t) = Some (CTx t) /\ ts_slot (thread g0 t) = Some old /\
      (view <> None -> g_lock g = Some t)
  | PDone r x => ts_slot (thread g t) = ts_slot (thread g0 t) /\ x = Some finished
  end.

Definition inv (g0 g : gst) : Prop :=
  length (g_threads g) = length (g_threads g0) /\ g_proc g = g_proc g0 /\
  (forall t, (t < length (g_threads g0))%nat -> slot_is_db (ts_slot (thread g0 t)) = true /\ inv_thread g0 g t) /\
  (forall t, g_lock g = Some t ->
     (t < length (g_threads g0))%nat /\
     exists old is_thr v cached rest k created, ts_phase (thread g t) = PRun old is_thr (Some v) cached rest k created).

Lemma forallb_nth {X} (f : X -> bool) l d n : forallb f l = true -> (n < length l)%nat -> f (nth n l d) = true.
Proof. intros H Hn. rewrite forallb_forall in H. apply H. apply nth_In. exact Hn. Qed.

Lemma inv_start g0 : start_threads g0 = true -> inv g0 g0.
Proof.
  unfold start_threads. intros H. apply andb_true_iff in H. destruct H as [H1 H2].
  split; [reflexivity|]. split; [reflexivity|]. split.
  - intros t Ht. pose proof (forallb_nth _ _ idle_thread t H1 Ht) as H. cbv beta in H. apply andb_true_iff in H. destruct H as [Ha Hb].
    fold (thread g0 t) in Ha, Hb. split; [exact Ha|]. unfold inv_thread. destruct (ts_phase (thread g0 t)); try discriminate. reflexivity.
  - intros t Ht. rewrite Ht in H2. discriminate.
Qed.

Lemma locked_by_other_false g t : locked_by_other g t = false -> g_lock g = None \/ g_lock g = Some t.
Proof.
  unfold locked_by_other. destruct (g_lock g) as [t'|]; [|auto]. intros H. apply negb_false_iff in H. apply Nat.eqb_eq in H. subst. auto.
Qed.

Lemma inv_tick g0 g t : (t < length (g_threads g0))%nat -> inv g0 g -> inv g0 (tick g t).
Proof.
  intros Ht (IL & IP & IT & IK).
  assert (Htg : (t < length (g_threads g))%nat) by lia.
  destruct (IT t Ht) as [Hdb It]. unfold inv_thread in It.
  unfold tick.
  destruct (ts_phase (thread g t)) as [body|old is_thr view cached rest k created|r x] eqn:Eph.
  - (* entering *)
    rewrite It. destruct (ts_slot (thread g0 t)) as [[n|u]|] eqn:Es; try discriminate.
    split; [rewrite length_install; exact IL|]. split; [rewrite proc_install; exact IP|]. split.
    + intros t' Ht'. split; [apply (IT t' Ht')|]. unfold inv_thread.
      destruct (Nat.eq_dec t t') as [<-|Hne].
      * rewrite thread_install_same by exact Htg. cbn [ts_phase ts_slot]. split; [reflexivity|]. split; [reflexivity|]. split; [congruence|].
        intros Hv. exfalso. apply Hv. reflexivity.
      * rewrite thread_install_other by exact Hne. destruct (IT t' Ht') as [_ H']. unfold inv_thread in H'.
        destruct (ts_phase (thread g t')); auto; try (rewrite lock_install; exact H').
    + intros t' Hk. rewrite lock_install in Hk. destruct (IK t' Hk) as (Hl & old' & i' & v' & c' & r' & k' & cr' & E).
      split; [exact Hl|]. assert (t <> t') by (intros <-; congruence). rewrite thread_install_other by assumption. eauto 12.
  - destruct It as (-> & Hslot & Hold & Hview).
    (* leaving the body, any way: the slot gets `old` back, the lock is released if held *)
    assert (Exit : forall vw r, inv g0 (exit_with g t old true vw (PDone r (Some finished)))).
    { intros vw r.
      split; [rewrite exit_length; exact IL|]. split; [rewrite exit_proc; exact IP|]. split.
      - intros t' Ht'. split; [apply (IT t' Ht')|]. unfold inv_thread.
        destruct (Nat.eq_dec t t') as [<-|Hne].
        + rewrite exit_thread_same by exact Htg. cbn [ts_phase ts_slot]. split; [congruence|reflexivity].
        + rewrite exit_thread_other by exact Hne.
          destruct (IT t' Ht') as [_ H']. unfold inv_thread in H'.
          destruct (ts_phase (thread g t')) as [| old' i' view' c' r' k' cr' |]; auto.
          destruct H' as (A & B & C & D). repeat split; auto. intros Hv. specialize (D Hv).
          rewrite exit_lock, D. destruct (Nat.eqb t' t) eqn:E; [apply Nat.eqb_eq in E; congruence|reflexivity].
      - intros t' Hk. rewrite exit_lock in Hk.
        destruct (g_lock g) as [tl|] eqn:El; [|discriminate]. destruct (Nat.eqb tl t) eqn:E; [discriminate|]. inversion Hk; subst tl.
        apply Nat.eqb_neq in E. destruct (IK t' eq_refl) as (Hl & old' & i' & v' & c' & r' & k' & cr' & E').
        split; [exact Hl|]. rewrite exit_thread_other by congruence. eauto 12. }
    destruct rest as [|st rest].
    + rewrite exit_return_eq. apply Exit.
    + assert (Eraise : forall e, inv g0 (exit_raise g t old true e k)) by (intros e; rewrite exit_raise_eq; apply Exit).
      (* a write that goes through: the thread keeps running with a private view and holds the lock *)
      assert (Go : forall v' c' cr', locked_by_other g t = false ->
                inv g0 (set_thread (with_glock g (Some t)) t (ts_slot (thread g t)) (PRun old true (Some v') c' rest (S k) cr'))).
      { intros v' c' cr' Hlo.
        split; [rewrite length_set_thread; exact IL|]. split; [exact IP|]. split.
        - intros t' Ht'. split; [apply (IT t' Ht')|]. unfold inv_thread.
          destruct (Nat.eq_dec t t') as [<-|Hne].
          + rewrite thread_set_same by exact Htg. cbn [ts_phase ts_slot]. repeat split; auto.
          + rewrite thread_set_other by exact Hne. change (thread (with_glock g (Some t)) t') with (thread g t').
            destruct (IT t' Ht') as [_ H']. unfold inv_thread in H'.
            destruct (ts_phase (thread g t')) as [| old' i' view' c'' r' k' cr'' |]; auto.
            destruct H' as (A & B & C & D). repeat split; auto. intros Hv. specialize (D Hv). cbn.
            destruct (locked_by_other_false g t Hlo); congruence.
        - intros t' Hk. cbn in Hk. inversion Hk; subst t'. split; [exact Ht|]. rewrite thread_set_same by exact Htg. cbn. eauto 12. }
      destruct st; cbv zeta.
      * destruct (locked_by_other g t) eqn:Hlo; [apply Eraise|].
        destruct (tbl_insert [a; b; None] (tview g view)) as [id v']. apply Go; reflexivity.
      * destruct (negb (get_ok (tview g view) cached id)); [apply Eraise|]. destruct (locked_by_other g t) eqn:Hlo; [apply Eraise|]. apply Go; reflexivity.
      * destruct (negb (get_ok (tview g view) cached id)); [apply Eraise|]. destruct (locked_by_other g t) eqn:Hlo; [apply Eraise|]. apply Go; reflexivity.
      * destruct (locked_by_other g t) eqn:Hlo; [apply Eraise|]. apply Go; reflexivity.
      * destruct (locked_by_other g t) eqn:Hlo; [apply Eraise|]. apply Go; reflexivity.
      * destruct (locked_by_other g t) eqn:Hlo; [apply Eraise|]. apply Go; reflexivity.
      * destruct (locked_by_other g t) eqn:Hlo; [apply Eraise|].
        destruct (clash ucol (tview g view) None u); [destruct guard; [apply Go; reflexivity|apply Eraise]|].
        destruct (tbl_insert [a; b; u] (tview g view)) as [id v']. apply Go; reflexivity.
      * destruct (negb (get_ok (tview g view) cached id)); [apply Eraise|]. destruct (locked_by_other g t) eqn:Hlo; [apply Eraise|].
        destruct (upd_clash ucol (tview g view) id u); [destruct guard; [apply Go; reflexivity|apply Eraise]|apply Go; reflexivity].
      * destruct (locked_by_other g t) eqn:Hlo; [apply Eraise|].
        destruct (upd_clash ucol (tview g view) id u); [destruct guard; [apply Go; reflexivity|apply Eraise]|apply Go; reflexivity].
      * apply Eraise.
  - split; [exact IL|]. split; [exact IP|]. split; [exact IT|exact IK].
Qed.

Lemma inv_run g0 sched : Forall (fun t => (t < length (g_threads g0))%nat) sched -> forall g, inv g0 g -> inv g0 (run_sched g sched).
Proof.
  induction 1 as [|t s Ht Hs IH]; intros g Hi; cbn; auto. apply IH. apply inv_tick; auto.
Qed.

(* ------------------------------------------------------------------ consequences of the invariant *)
Lemma resolve_thread_level g0 g t :
  inv g0 g -> (t < length (g_threads g0))%nat ->
  match ts_phase (thread g t) with
  | PRun _ _ _ _ _ _ _ => resolve g t = Some (CTx t)
  | _ => resolve g t = resolve g0 t
  end.
Proof.
  intros (IL & IP & IT & IK) Ht. destruct (IT t Ht) as [Hdb It]. unfold inv_thread in It. unfold resolve.
  destruct (ts_phase (thread g t)) as [body|old is_thr view cached rest k created|r x].
  - rewrite It, IP. reflexivity.
  - destruct It as (_ & Hs & _). rewrite Hs. reflexivity.
  - destruct It as [Hs _]. rewrite Hs, IP. reflexivity.
Qed.

(* while a transaction holds the write lock, no step of another thread changes the committed table *)
Lemma isolated g0 g t t' :
  inv g0 g -> g_lock g = Some t -> t' <> t -> g_committed (tick g t') = g_committed g.
Proof.
  intros (IL & IP & IT & IK) Hl Hne.
  destruct (tick_committed g t') as [H|(old & is_thr & v & cached & k & created & Hph & _ & _)]; [exact H|].
  exfalso. destruct (Nat.lt_ge_cases t' (length (g_threads g0))) as [Ht'|Ht'].
  - destruct (IT t' Ht') as [_ It]. unfold inv_thread in It. rewrite Hph in It. destruct It as (_ & _ & _ & Hv).
    assert (g_lock g = Some t') by (apply Hv; discriminate). congruence.
  - unfold thread in Hph. rewrite nth_overflow in Hph by lia. discriminate.
Qed.

(* ------------------------------------------------------------------ one doInTransaction on its own *)
Lemma run_done g t r x m : ts_phase (thread g t) = PDone r x -> run_sched g (repeat t m) = g.
Proof. intros H. induction m as [|m IH]; cbn; auto. rewrite (tick_done g t r x H). exact IH. Qed.

Lemma run_repeat_other g t t' m : t <> t' -> thread (run_sched g (repeat t m)) t' = thread g t'.
Proof. intros H. revert g. induction m as [|m IH]; intros g; cbn; auto. rewrite IH. apply tick_other. exact H. Qed.

Definition restored (g g' : gst) (t : nat) (old : cref) (is_thr : bool) : Prop :=
  ts_slot (thread g' t) = (if is_thr then Some old else ts_slot (thread g t)) /\
  g_proc g' = (if is_thr then g_proc g else Some old) /\ g_lock g' = None.

Lemma exit_spec g t old is_thr view ph :
  (t < length (g_threads g))%nat -> locked_by_other g t = false ->
  let g' := exit_with g t old is_thr view ph in
  ts_phase (thread g' t) = ph /\ g_committed g' = tview g view /\ restored g g' t old is_thr.
Proof.
  intros Ht Hl g'. unfold g'. rewrite exit_thread_same by exact Ht. cbn [ts_phase ts_slot].
  split; [reflexivity|]. split; [rewrite exit_committed; reflexivity|].
  unfold restored. rewrite exit_thread_same by exact Ht. cbn [ts_slot]. rewrite exit_proc, exit_lock.
  split; [reflexivity|]. split; [reflexivity|].
  destruct (locked_by_other_false g t Hl) as [E|E]; rewrite E; [reflexivity|]. rewrite Nat.eqb_refl. reflexivity.
Qed.

Lemma alone_steps t : forall rest g old is_thr view cached k created,
  (t < length (g_threads g))%nat ->
  ts_phase (thread g t) = PRun old is_thr view cached rest k created ->
  locked_by_other g t = false ->
  let g' := run_sched g (repeat t (length rest + 1)) in
  let r := fst (body_run (tview g view) cached rest k created) in
  let tb := snd (body_run (tview g view) cached rest k created) in
  ts_phase (thread g' t) = PDone r (Some finished) /\
  g_committed g' = (match r with Return _ => tb | Raised _ _ => g_committed g end) /\
  restored g g' t old is_thr.
Proof.
  induction rest as [|st rest IH]; intros g old is_thr view cached k created Ht Hph Hl.
  - cbn [length Nat.add repeat run_sched body_run fst snd]. unfold tick. rewrite Hph. rewrite exit_return_eq.
    destruct (exit_spec g t old is_thr view (PDone (Return created) (Some finished)) Ht Hl) as (A & B & C).
    split; [exact A|]. split; [exact B|exact C].
  - change (length (st :: rest) + 1)%nat with (S (length rest + 1)). cbn [repeat run_sched].
    (* the step raises: everything after it is a no-op *)
    assert (Raise : forall e, tick g t = exit_raise g t old is_thr e k ->
              body_run (tview g view) cached (st :: rest) k created = (Raised e k, tview g view) ->
              let g' := run_sched (tick g t) (repeat t (length rest + 1)) in
              ts_phase (thread g' t) = PDone (fst (body_run (tview g view) cached (st :: rest) k created)) (Some finished) /\
              g_committed g' = (match fst (body_run (tview g view) cached (st :: rest) k created) with
                                | Return _ => snd (body_run (tview g view) cached (st :: rest) k created)
                                | Raised _ _ => g_committed g end) /\
              restored g g' t old is_thr).
    { intros e Et Eb g'. rewrite exit_raise_eq in Et. destruct (exit_spec g t old is_thr None (PDone (Raised e k) (Some finished)) Ht Hl) as (A & B & C).
      unfold g'. rewrite Et. rewrite (run_done _ t _ _ _ A). rewrite Eb. cbn [fst snd]. auto. }
    (* the step writes: the rest runs from the new view *)
    assert (Go : forall v' c' cr',
              tick g t = set_thread (with_glock g (Some t)) t (ts_slot (thread g t)) (PRun old is_thr (Some v') c' rest (S k) cr') ->
              body_run (tview g view) cached (st :: rest) k created = body_run v' c' rest (S k) cr' ->
              let g' := run_sched (tick g t) (repeat t (length rest + 1)) in
              ts_phase (thread g' t) = PDone (fst (body_run (tview g view) cached (st :: rest) k created)) (Some finished) /\
              g_committed g' = (match fst (body_run (tview g view) cached (st :: rest) k created) with
                                | Return _ => snd (body_run (tview g view) cached (st :: rest) k created)
                                | Raised _ _ => g_committed g end) /\
              restored g g' t old is_thr).
    { intros v' c' cr' Et Eb g'. unfold g'. rewrite Et, Eb.
      set (g1 := set_thread (with_glock g (Some t)) t (ts_slot (thread g t)) (PRun old is_thr (Some v') c' rest (S k) cr')).
      assert (Ht1 : (t < length (g_threads g1))%nat) by (unfold g1; rewrite length_set_thread; exact Ht).
      assert (Hth1 : thread g1 t = {| ts_slot := ts_slot (thread g t); ts_phase := PRun old is_thr (Some v') c' rest (S k) cr' |})
        by (unfold g1; rewrite thread_set_same by exact Ht; reflexivity).
      assert (Hp1 : ts_phase (thread g1 t) = PRun old is_thr (Some v') c' rest (S k) cr') by (rewrite Hth1; reflexivity).
      assert (Hl1 : locked_by_other g1 t = false) by (unfold locked_by_other, g1; cbn; rewrite Nat.eqb_refl; reflexivity).
      destruct (IH g1 old is_thr (Some v') c' (S k) cr' Ht1 Hp1 Hl1) as (A & B & (C1 & C2 & C3)).
      cbn [tview] in A, B. split; [exact A|]. split; [exact B|].
      unfold restored. rewrite C1, C2, C3. rewrite Hth1. cbn. auto. }
    destruct st.
    + destruct (tbl_insert [a; b; None] (tview g view)) as [id v'] eqn:Ei.
      apply (Go v' (add_id id cached) (created ++ [id])); [unfold tick; rewrite Hph; cbv zeta; rewrite Hl, Ei; reflexivity|].
      cbn [body_run]. rewrite Ei. reflexivity.
    + destruct (get_ok (tview g view) cached id) eqn:Eg.
      * apply (Go (tbl_update id c v (tview g view)) (add_id id cached) created);
          [unfold tick; rewrite Hph; cbv zeta; rewrite Eg, Hl; reflexivity|cbn [body_run]; rewrite Eg; reflexivity].
      * apply (Raise XNotFound); [unfold tick; rewrite Hph; cbv zeta; rewrite Eg; reflexivity|cbn [body_run]; rewrite Eg; reflexivity].
    + destruct (get_ok (tview g view) cached id) eqn:Eg.
      * apply (Go (tbl_delete id (tview g view)) (remove_id id cached) created);
          [unfold tick; rewrite Hph; cbv zeta; rewrite Eg, Hl; reflexivity|cbn [body_run]; rewrite Eg; reflexivity].
      * apply (Raise XNotFound); [unfold tick; rewrite Hph; cbv zeta; rewrite Eg; reflexivity|cbn [body_run]; rewrite Eg; reflexivity].
    + apply (Go (tbl_update id c v (tview g view)) cached created);
        [unfold tick; rewrite Hph; cbv zeta; rewrite Hl; reflexivity|reflexivity].
    + apply (Go (tbl_delete id (tview g view)) (remove_id id cached) created);
        [unfold tick; rewrite Hph; cbv zeta; rewrite Hl; reflexivity|reflexivity].
    + apply (Go (tbl_delete id (tview g view)) cached created);
        [unfold tick; rewrite Hph; cbv zeta; rewrite Hl; reflexivity|reflexivity].
    + destruct (clash ucol (tview g view) None u) eqn:Ec; [destruct guard|].
      * apply (Go (tview g view) cached created);
          [unfold tick; rewrite Hph; cbv zeta; rewrite Hl, Ec; reflexivity|cbn [body_run]; rewrite Ec; reflexivity].
      * apply (Raise XDuplicate); [unfold tick; rewrite Hph; cbv zeta; rewrite Hl, Ec; reflexivity|cbn [body_run]; rewrite Ec; reflexivity].
      * destruct (tbl_insert [a; b; u] (tview g view)) as [id v'] eqn:Ei.
        apply (Go v' (add_id id cached) (created ++ [id])); [unfold tick; rewrite Hph; cbv zeta; rewrite Hl, Ec, Ei; reflexivity|].
        cbn [body_run]. rewrite Ec, Ei. reflexivity.
    + destruct (get_ok (tview g view) cached id) eqn:Eg.
      * destruct (upd_clash ucol (tview g view) id u) eqn:Ec; [destruct guard|].
        -- apply (Go (tview g view) (add_id id cached) created);
             [unfold tick; rewrite Hph; cbv zeta; rewrite Eg, Hl, Ec; reflexivity|cbn [body_run]; rewrite Eg, Ec; reflexivity].
        -- apply (Raise XDuplicate); [unfold tick; rewrite Hph; cbv zeta; rewrite Eg, Hl, Ec; reflexivity|cbn [body_run]; rewrite Eg, Ec; reflexivity].
        -- apply (Go (tbl_update id ucol u (tview g view)) (add_id id cached) created);
             [unfold tick; rewrite Hph; cbv zeta; rewrite Eg, Hl, Ec; reflexivity|cbn [body_run]; rewrite Eg, Ec; reflexivity].
      * apply (Raise XNotFound); [unfold tick; rewrite Hph; cbv zeta; rewrite Eg; reflexivity|cbn [body_run]; rewrite Eg; reflexivity].
    + destruct (upd_clash ucol (tview g view) id u) eqn:Ec; [destruct guard|].
      * apply (Go (tview g view) cached created);
          [unfold tick; rewrite Hph; cbv zeta; rewrite Hl, Ec; reflexivity|cbn [body_run]; rewrite Ec; reflexivity].
      * apply (Raise XDuplicate); [unfold tick; rewrite Hph; cbv zeta; rewrite Hl, Ec; reflexivity|cbn [body_run]; rewrite Ec; reflexivity].
      * apply (Go (tbl_update id ucol u (tview g view)) cached created);
          [unfold tick; rewrite Hph; cbv zeta; rewrite Hl, Ec; reflexivity|cbn [body_run]; rewrite Ec; reflexivity].
    + apply (Raise (XUser n)); [unfold tick; rewrite Hph; reflexivity|reflexivity].
Qed.

(* from the call to the end, for a caller whose slot (thread-level, else process-level) holds a DBConnection
   and while no other transaction holds the write lock *)
Lemma alone g t body n (is_thr : bool) :
  (t < length (g_threads g))%nat ->
  ts_phase (thread g t) = PIdle body ->
  caller_bound g t n is_thr ->
  g_lock g = None ->
  let g' := run_sched g (repeat t (length body + 2)) in
  let r := body_result (g_committed g) body in
  ts_phase (thread g' t) = PDone r (Some finished) /\
  g_committed g' = (match r with Return _ => body_table (g_committed g) body | Raised _ _ => g_committed g end) /\
  (forall t', resolve g' t' = resolve g t') /\ g_lock g' = None.
Proof.
  intros Ht Hph Hslot Hl g' r. unfold caller_bound in Hslot.
  assert (Et : tick g t = install g t is_thr (CTx t) (PRun (CDb n) is_thr None [] body 0 [])).
  { unfold tick. rewrite Hph. destruct is_thr.
    - rewrite Hslot. reflexivity.
    - destruct Hslot as [Hs Hp]. rewrite Hs, Hp. reflexivity. }
  unfold g'. replace (length body + 2)%nat with (S (length body + 1)) by lia. cbn [repeat run_sched]. rewrite Et.
  set (g1 := install g t is_thr (CTx t) (PRun (CDb n) is_thr None [] body 0 [])).
  assert (Ht1 : (t < length (g_threads g1))%nat) by (unfold g1; rewrite length_install; exact Ht).
  assert (Hth1 : thread g1 t = {| ts_slot := if is_thr then Some (CTx t) else ts_slot (thread g t);
                                  ts_phase := PRun (CDb n) is_thr None [] body 0 [] |})
    by (unfold g1; apply thread_install_same; exact Ht).
  assert (Hp1 : ts_phase (thread g1 t) = PRun (CDb n) is_thr None [] body 0 []) by (rewrite Hth1; reflexivity).
  assert (Hl1 : locked_by_other g1 t = false) by (unfold locked_by_other, g1; rewrite lock_install, Hl; reflexivity).
  destruct (alone_steps t body g1 (CDb n) is_thr None [] 0 [] Ht1 Hp1 Hl1) as (A & B & (C1 & C2 & C3)).
  assert (Ec : g_committed g1 = g_committed g) by (unfold g1; apply committed_install).
  cbn [tview] in A, B. rewrite Ec in A, B.
  fold (body_result (g_committed g) body) in A, B. fold (body_table (g_committed g) body) in B.
  split; [exact A|]. split; [exact B|]. split; [|exact C3].
  intros t'. unfold resolve. rewrite C2.
  destruct (Nat.eq_dec t t') as [<-|Hne].
  - rewrite C1. rewrite Hth1. cbn [ts_slot]. unfold g1. rewrite proc_install.
    destruct is_thr; [rewrite Hslot; reflexivity|]. destruct Hslot as [Hs Hp]. rewrite Hs, Hp. reflexivity.
  - rewrite run_repeat_other by exact Hne. unfold g1. rewrite thread_install_other by exact Hne. rewrite proc_install.
    destruct is_thr; [reflexivity|]. destruct Hslot as [Hs Hp]. rewrite Hp. reflexivity.
Qed.
