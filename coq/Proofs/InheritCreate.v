(* C15: InheritableSQLObject._create -- a successful create appends one row per
   level with one fresh id; a failed one (autocommit, no reference waiting for
   the new id) leaves every table as it was. *)
From Coq Require Import List ZArith Bool Lia.
From Model Require Import Inherit.
From Proofs Require Import InheritBase InheritOps.
Import ListNotations.
Open Scope Z_scope.

Definition newo (id : Z) (k : cls) (a : cargs) : aobj := mkao id k (argval a).

Lemma own_create_inr : forall k idopt tag a unk s s' id,
  own_create k idopt tag a unk s = inr (s', id) ->
  id = match idopt with Some i => i | None => seq s + 1 end /\
  has id (tab s k) = false /\
  s' = match idopt with
       | Some _ => set_tab s k (tab s k ++ [mkrow id (argval a k) tag])
       | None => set_seq (set_tab s k (tab s k ++ [mkrow id (argval a k) tag])) id
       end.
Proof.
  intros k idopt tag a unk s s' id H. unfold own_create in H.
  destruct (required k && is_omit (arg_of a k)); [discriminate|].
  destruct unk; [discriminate|].
  unfold argval. destruct (validate (arg_of a k)) as [e|v]; [discriminate|]. unfold sql_insert in H.
  destruct (notnull k && isnone v); [discriminate|].
  destruct (taken v None (tab s k)); [discriminate|]. cbn [orb] in H.
  destruct (has _ (tab s k)) eqn:Hh; [discriminate|].
  destruct idopt as [i|]; inversion H; subst; auto.
Qed.

Ltac oc :=
  match goal with
  | H : context [match own_create ?k ?i ?t ?a ?u ?s with _ => _ end] |- _ =>
      let E := fresh "E" in destruct (own_create k i t a u s) as [?|[? ?]] eqn:E
  | H : context [if ?b then _ else _] |- _ => let E := fresh "C" in destruct b eqn:E
  | H : context [match destroy_chain ?l ?i ?s with _ => _ end] |- _ =>
      let E := fresh "D" in destruct (destroy_chain l i s) as [? [?|]] eqn:E
  | H : (_, _) = (_, _) |- _ => inversion H; clear H; subst
  end.

Ltac use_oc :=
  repeat match goal with
  | E : own_create _ _ _ _ _ _ = inr (_, _) |- _ =>
      apply own_create_inr in E; destruct E as [? [? ?]]; subst
  end.

(* success: one row per level of the chain, same fresh id, tags along the chain *)
Lemma creat_ok : forall auto k a unk s s' id,
  creat auto (rev (chain k)) None a unk s = (s', inr id) ->
  id = seq s + 1 /\ seq s' = id /\ refs s' = refs s /\ born s' = born s /\
  forall l, tab s' l = tab s l ++ (if memc l (chain k) then [mkrow id (argval a l) (tagof k l)] else []).
Proof.
  intros auto k a unk s s' id H.
  destruct k; cbn [chain rev app creat] in H; repeat oc; try discriminate; use_oc;
    (split; [reflexivity|]; split; [reflexivity|]; split; [reflexivity|]; split; [reflexivity|]);
    intro l; destruct l; cbn; rewrite ?app_nil_r; reflexivity.
Qed.

Lemma del_fresh : forall s l v tg, (forall l r, In r (tab s l) -> rid r <= seq s) ->
  del (seq s + 1) (tab s l ++ [mkrow (seq s + 1) v tg]) = tab s l.
Proof.
  intros s l v tg H. apply del_app_new. intros r Hr. apply H in Hr. lia.
Qed.

Lemma creat_err : forall auto k a unk s s' e,
  (forall l r, In r (tab s l) -> rid r <= seq s) ->
  creat auto (rev (chain k)) None a unk s = (s', inl e) ->
  refs s' = refs s /\ born s' = born s /\ (seq s' = seq s \/ seq s' = seq s + 1) /\
  (seq s' = seq s -> forall l, tab s' l = tab s l) /\
  (auto = true -> zmem (seq s + 1) (refs s) = false -> forall l, tab s' l = tab s l).
Proof.
  intros auto k a unk s s' e Hle H.
  pose proof (del_fresh s KA) as DA. pose proof (del_fresh s KB) as DB.
  pose proof (del_fresh s KC) as DC. pose proof (del_fresh s KB2) as DD. cbn [tab] in DA, DB, DC, DD. unfold del in DA, DB, DC, DD.
  destruct k; cbn [chain rev app creat] in H;
    repeat (oc || (progress cbn [destroy_chain restricted cls_eqb andb] in * )); try discriminate; use_oc.
  all: cbn in *.
  all: repeat split; try reflexivity; try (left; reflexivity); try (right; reflexivity).
  all: try (intros; exfalso; lia).
  all: try discriminate.
  all: try (intros _ Hz; unfold zmem in Hz; congruence).
  all: try (intros _ _ l; destruct l; cbn; rewrite ?DA, ?DB, ?DC, ?DD by assumption; reflexivity).
Qed.
