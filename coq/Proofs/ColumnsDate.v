(* C01, dates and times: the converters' format strings (REGENERATED templates)
   against the reference strptime and the microsecond fix-up of col.py. *)
From Coq Require Import List NArith ZArith Bool Lia ZifyBool.
From Lib Require Import Str Lex ColumnsTpl.
From Gen Require Import Columns.
From Model Require Import Columns.
From Proofs Require Import ColumnsStr ColumnsNum.
Import ListNotations.
Open Scope N_scope.

(* ---------------------------------------------------------------- clean forms of the generated converters *)
Definition date_text (t : stamp) : str :=
  fixed 4 (st_y t) ++ [45] ++ fixed 2 (st_m t) ++ [45] ++ fixed 2 (st_d t).
Definition time_text (t : stamp) : str :=
  fixed 2 (st_h t) ++ [58] ++ fixed 2 (st_mi t) ++ [58] ++ fixed 2 (st_s t) ++ [46] ++ fixed 6 (st_us t).
Definition dt_text (t : stamp) : str := date_text t ++ [32] ++ time_text t.

(* characterisation lemmas: a change of a format string in converters.py breaks exactly these *)
Lemma conv_datetime_char t : conv_datetime t = c_q :: dt_text t ++ [c_q].
Proof.
  unfold conv_datetime, gen_tpl_datetime, gen_args_datetime, dt_text, date_text, time_text.
  cbn [map render_tpl stamp_get]. cbn [app]. repeat (rewrite <- app_assoc || rewrite <- app_comm_cons). reflexivity.
Qed.
Lemma conv_date_char t : conv_date t = c_q :: date_text t ++ [c_q].
Proof.
  unfold conv_date, gen_tpl_date, gen_args_date, date_text.
  cbn [map render_tpl stamp_get]. cbn [app]. repeat (rewrite <- app_assoc || rewrite <- app_comm_cons). reflexivity.
Qed.
Lemma conv_time_char t : conv_time t = c_q :: time_text t ++ [c_q].
Proof.
  unfold conv_time, gen_tpl_time, gen_args_time, time_text.
  cbn [map render_tpl stamp_get]. cbn [app]. repeat (rewrite <- app_assoc || rewrite <- app_comm_cons). reflexivity.
Qed.
Lemma format_datetime_char :
  parse_format gen_format_datetime = Some [DY; DLit 45; Dm; DLit 45; Dd; DSpace; DH; DLit 58; DM; DLit 58; DS; DLit 46; Df].
Proof. reflexivity. Qed.
Lemma format_date_char : parse_format gen_format_date = Some [DY; DLit 45; Dm; DLit 45; Dd].
Proof. reflexivity. Qed.
Lemma format_time_char : parse_format gen_format_time = Some [DH; DLit 58; DM; DLit 58; DS; DLit 46; Df].
Proof. reflexivity. Qed.
Lemma format_has_f : has_sub dot_f gen_format_datetime = true /\ has_sub dot_f gen_format_time = true
                     /\ has_sub dot_f gen_format_date = false.
Proof. repeat split; reflexivity. Qed.

(* ---------------------------------------------------------------- characters of the rendered texts *)
Definition dt_char (c : ch) : bool := is_digit c || (c =? 45) || (c =? 32) || (c =? 58) || (c =? 46).
Lemma fixed_dt_chars w n : forallb dt_char (fixed w n) = true.
Proof. apply (forallb_impl is_digit); [apply fixed_digits|]. intros x Hx. unfold dt_char. now rewrite Hx. Qed.
Ltac dt_chars := repeat (rewrite forallb_app || rewrite fixed_dt_chars || cbn [forallb andb]); reflexivity.
Lemma date_text_chars t : forallb dt_char (date_text t) = true.
Proof. unfold date_text. dt_chars. Qed.
Lemma time_text_chars t : forallb dt_char (time_text t) = true.
Proof. unfold time_text. dt_chars. Qed.
Lemma dt_text_chars t : forallb dt_char (dt_text t) = true.
Proof. unfold dt_text. rewrite !forallb_app, date_text_chars, time_text_chars. reflexivity. Qed.

Lemma dt_chars_text_ok s : forallb dt_char s = true -> text_ok s = true /\ contains c_q s = false.
Proof.
  intros H.
  assert (H1 : existsb (N.eqb c_nul) s = false).
  { apply (forallb_existsb_false dt_char); [assumption|]. intros x Hx. unfold dt_char, is_digit, c_nul in *. lia. }
  assert (H2 : existsb is_surrogate s = false).
  { apply (forallb_existsb_false dt_char); [assumption|]. intros x Hx. unfold dt_char, is_digit, is_surrogate in *. lia. }
  assert (H3 : existsb (N.eqb c_q) s = false).
  { apply (forallb_existsb_false dt_char); [assumption|]. intros x Hx. unfold dt_char, is_digit, c_q in *. lia. }
  unfold text_ok, contains. unfold ch in *. rewrite H1, H2, H3. split; reflexivity.
Qed.

(* ---------------------------------------------------------------- a field followed by a separator *)
Lemma fixed_nonempty w n : fixed w n <> [].
Proof.
  unfold fixed. pose proof (dec_N_nonempty n). destruct (dec_N n); [congruence|].
  destruct (repeat 48 (w - length (c :: s))); discriminate.
Qed.
Lemma fixed_head w n : exists c r, fixed w n = c :: r /\ is_digit c = true.
Proof.
  pose proof (fixed_nonempty w n) as Hn. pose proof (fixed_digits w n) as Hd.
  destruct (fixed w n) as [|c r]; [congruence|]. exists c, r. split; [reflexivity|].
  cbn [forallb] in Hd. now apply andb_true_iff in Hd.
Qed.

Lemma take_field_fixed lo hi w v rest :
  v < 10 ^ N.of_nat w -> (1 <= w)%nat -> (lo <= w)%nat -> (w <= hi)%nat -> stops is_digit rest ->
  take_field lo hi (fixed w v ++ rest) = Some (v, w, rest).
Proof.
  intros Hv H1 Hlo Hhi Hr. unfold take_field.
  rewrite (span_app is_digit (fixed w v) rest (fixed_digits w v) Hr).
  rewrite fixed_length by assumption. rewrite fixed_val.
  assert (Nat.leb lo w = true) by (apply Nat.leb_le; assumption).
  assert (Nat.leb w hi = true) by (apply Nat.leb_le; assumption).
  now rewrite H, H0.
Qed.

(* a text that starts with digits followed by '-' or ':' is not a number to sqlite *)
Lemma not_numeric_sep ds c rest :
  forallb is_digit ds = true -> ds <> [] -> (c =? 45) || (c =? 58) = true ->
  looks_numeric (ds ++ c :: rest) = false.
Proof.
  intros Hd Hne Hc. unfold looks_numeric.
  destruct ds as [|d ds']; [congruence|].
  assert (Hdd : is_digit d = true) by (cbn [forallb] in Hd; now apply andb_true_iff in Hd).
  assert (Hws : is_ws d = false) by (unfold is_ws, is_digit in *; lia).
  cbn [app skip_ws]. rewrite Hws.
  assert (Hsg : (d =? c_minus) || (d =? c_plus) = false) by (unfold is_digit, c_minus, c_plus in *; lia).
  rewrite Hsg.
  change (d :: ds' ++ c :: rest) with ((d :: ds') ++ c :: rest).
  assert (Hstop : stops is_digit (c :: rest)) by (cbn; unfold is_digit; lia).
  rewrite (span_app is_digit (d :: ds') (c :: rest) Hd Hstop).
  assert (Hdot : (c =? c_dot) = false) by (unfold c_dot; lia). rewrite Hdot.
  cbn [nonempty orb].
  assert (He : (c =? c_e) || (c =? c_E) = false) by (unfold c_e, c_E; lia). rewrite He.
  assert (Hwc : is_ws c = false) by (unfold is_ws; lia).
  cbn [skip_ws]. now rewrite Hwc.
Qed.

Lemma date_text_not_numeric t rest : looks_numeric (date_text t ++ rest) = false.
Proof.
  unfold date_text. repeat (rewrite <- app_assoc || rewrite <- app_comm_cons). cbn [app].
  apply not_numeric_sep; [apply fixed_digits|apply fixed_nonempty|reflexivity].
Qed.
Lemma dt_text_not_numeric t : looks_numeric (dt_text t) = false.
Proof. unfold dt_text. apply date_text_not_numeric. Qed.
Lemma date_text_not_numeric' t : looks_numeric (date_text t) = false.
Proof. rewrite <- (app_nil_r (date_text t)). apply date_text_not_numeric. Qed.
Lemma time_text_not_numeric t : looks_numeric (time_text t) = false.
Proof.
  unfold time_text. cbn [app].
  apply not_numeric_sep; [apply fixed_digits|apply fixed_nonempty|reflexivity].
Qed.

(* ---------------------------------------------------------------- the microsecond fix-up leaves a six-digit fraction alone *)
Lemma split_last_dot_app pre last :
  contains c_dot last = false -> split_last_dot (pre ++ c_dot :: last) = Some (pre, last).
Proof.
  intros Hl.
  assert (Hnone : forall l, contains c_dot l = false -> split_last_dot l = None).
  { induction l as [|c l IH]; [reflexivity|]. unfold contains. cbn [existsb]. intros H.
    apply orb_false_iff in H. destruct H as [Hc Hr]. cbn [split_last_dot]. rewrite (IH Hr).
    rewrite N.eqb_sym in Hc. now rewrite Hc. }
  induction pre as [|c pre IH].
  - cbn [app split_last_dot]. rewrite (Hnone last Hl). now rewrite N.eqb_refl.
  - cbn [app split_last_dot]. now rewrite IH.
Qed.

Lemma digits_no_dot ds : forallb is_digit ds = true -> contains c_dot ds = false.
Proof.
  intros H. unfold contains. apply (forallb_existsb_false is_digit); [assumption|].
  intros x Hx. unfold is_digit, c_dot in *. lia.
Qed.

Lemma fixup_six pre us :
  us < 1000000 -> fixup_micro (pre ++ c_dot :: fixed 6 us) = pre ++ c_dot :: fixed 6 us.
Proof.
  intros Hus. unfold fixup_micro.
  assert (Hc : contains c_dot (pre ++ c_dot :: fixed 6 us) = true).
  { rewrite contains_app_. unfold contains at 2. cbn [existsb]. rewrite N.eqb_refl. now rewrite orb_true_r. }
  rewrite Hc. rewrite split_last_dot_app by (apply digits_no_dot, fixed_digits).
  rewrite fixed_length; [reflexivity|exact Hus|lia].
Qed.

(* ---------------------------------------------------------------- strptime reads back what the converters write *)
Lemma days_le_31 y m : days_in_month y m <= 31.
Proof. unfold days_in_month. destruct (m =? 2); [destruct (is_leap y); lia|]. destruct ((m =? 4) || (m =? 6) || (m =? 9) || (m =? 11)); lia. Qed.

Lemma stops_cons c r : is_digit c = false -> stops is_digit (c :: r).
Proof. intros H. exact H. Qed.

Lemma skip_ws_fixed w n rest : skip_ws (fixed w n ++ rest) = fixed w n ++ rest.
Proof.
  destruct (fixed_head w n) as (c & r & Hc & Hd). rewrite Hc. cbn [app skip_ws].
  assert (is_ws c = false) by (unfold is_ws, is_digit in *; lia). now rewrite H.
Qed.

Lemma stamp_eta t : {| st_y := st_y t; st_m := st_m t; st_d := st_d t; st_h := st_h t;
                       st_mi := st_mi t; st_s := st_s t; st_us := st_us t |} = t.
Proof. destruct t; reflexivity. Qed.

Ltac field_step :=
  rewrite take_field_fixed; [ | cbn; lia | lia | lia | lia | first [exact I | apply stops_cons; reflexivity] ].

Lemma strptime_datetime t :
  valid_date (st_y t) (st_m t) (st_d t) = true -> valid_time (st_h t) (st_mi t) (st_s t) (st_us t) = true ->
  strptime gen_format_datetime (dt_text t) = Some t.
Proof.
  intros Hd Ht. unfold strptime. rewrite format_datetime_char.
  pose proof (days_le_31 (st_y t) (st_m t)) as H31.
  unfold valid_date in Hd. unfold valid_time in Ht.
  assert (Hy : st_y t < 10 ^ N.of_nat 4) by (cbn; lia).
  assert (Hm : st_m t < 10 ^ N.of_nat 2) by (cbn; lia).
  assert (Hdd : st_d t < 10 ^ N.of_nat 2) by (cbn; lia).
  assert (Hh : st_h t < 10 ^ N.of_nat 2) by (cbn; lia).
  assert (Hmi : st_mi t < 10 ^ N.of_nat 2) by (cbn; lia).
  assert (Hs : st_s t < 10 ^ N.of_nat 2) by (cbn; lia).
  assert (Hus : st_us t < 10 ^ N.of_nat 6) by (cbn; lia).
  unfold dt_text, date_text, time_text. repeat (rewrite <- app_assoc || rewrite <- app_comm_cons). cbn [app].
  cbn [strptime_run].
  rewrite take_field_fixed; [|assumption|lia|lia|lia|apply stops_cons; reflexivity].
  rewrite N.eqb_refl. cbn [st_y st_m st_d st_h st_mi st_s st_us].
  rewrite take_field_fixed; [|assumption|lia|lia|lia|apply stops_cons; reflexivity].
  assert (E1 : (1 <=? st_m t) && (st_m t <=? 12) = true) by lia. rewrite E1.
  rewrite N.eqb_refl. cbn [st_y st_m st_d st_h st_mi st_s st_us].
  rewrite take_field_fixed; [|assumption|lia|lia|lia|apply stops_cons; reflexivity].
  assert (E2 : (1 <=? st_d t) && (st_d t <=? 31) = true) by lia. rewrite E2.
  change (is_ws 32) with true. cbv iota. rewrite skip_ws_fixed.
  cbn [st_y st_m st_d st_h st_mi st_s st_us].
  rewrite take_field_fixed; [|assumption|lia|lia|lia|apply stops_cons; reflexivity].
  assert (E3 : (st_h t <=? 23) = true) by lia. rewrite E3.
  rewrite N.eqb_refl. cbn [st_y st_m st_d st_h st_mi st_s st_us].
  rewrite take_field_fixed; [|assumption|lia|lia|lia|apply stops_cons; reflexivity].
  assert (E4 : (st_mi t <=? 59) = true) by lia. rewrite E4.
  rewrite N.eqb_refl. cbn [st_y st_m st_d st_h st_mi st_s st_us].
  rewrite take_field_fixed; [|assumption|lia|lia|lia|apply stops_cons; reflexivity].
  assert (E5 : (st_s t <=? 61) = true) by lia. rewrite E5.
  rewrite N.eqb_refl. cbn [st_y st_m st_d st_h st_mi st_s st_us].
  rewrite <- (app_nil_r (fixed 6 (st_us t))).
  rewrite take_field_fixed; [|assumption|lia|lia|lia|exact I].
  cbn [st_y st_m st_d st_h st_mi st_s st_us].
  change (pow10 (N.of_nat (6 - 6))) with 1. rewrite N.mul_1_r. rewrite stamp_eta.
  assert (Ev : valid_date (st_y t) (st_m t) (st_d t) && valid_time (st_h t) (st_mi t) (st_s t) (st_us t) = true)
    by (unfold valid_date, valid_time; lia).
  now rewrite Ev.
Qed.

Lemma strptime_date t :
  valid_date (st_y t) (st_m t) (st_d t) = true ->
  strptime gen_format_date (date_text t) =
  Some {| st_y := st_y t; st_m := st_m t; st_d := st_d t; st_h := 0; st_mi := 0; st_s := 0; st_us := 0 |}.
Proof.
  intros Hd. unfold strptime. rewrite format_date_char.
  pose proof (days_le_31 (st_y t) (st_m t)) as H31.
  pose proof Hd as Hd'. unfold valid_date in Hd.
  assert (Hy : st_y t < 10 ^ N.of_nat 4) by (cbn; lia).
  assert (Hm : st_m t < 10 ^ N.of_nat 2) by (cbn; lia).
  assert (Hdd : st_d t < 10 ^ N.of_nat 2) by (cbn; lia).
  unfold date_text. repeat (rewrite <- app_assoc || rewrite <- app_comm_cons). cbn [app].
  cbn [strptime_run].
  rewrite take_field_fixed; [|assumption|lia|lia|lia|apply stops_cons; reflexivity].
  rewrite N.eqb_refl. cbn [st_y st_m st_d st_h st_mi st_s st_us stamp0].
  rewrite take_field_fixed; [|assumption|lia|lia|lia|apply stops_cons; reflexivity].
  assert (E1 : (1 <=? st_m t) && (st_m t <=? 12) = true) by lia. rewrite E1.
  rewrite N.eqb_refl. cbn [st_y st_m st_d st_h st_mi st_s st_us].
  rewrite <- (app_nil_r (fixed 2 (st_d t))).
  rewrite take_field_fixed; [|assumption|lia|lia|lia|exact I].
  assert (E2 : (1 <=? st_d t) && (st_d t <=? 31) = true) by lia. rewrite E2.
  cbn [st_y st_m st_d st_h st_mi st_s st_us]. rewrite Hd'. reflexivity.
Qed.

Lemma strptime_time t :
  valid_time (st_h t) (st_mi t) (st_s t) (st_us t) = true ->
  strptime gen_format_time (time_text t) =
  Some {| st_y := 1900; st_m := 1; st_d := 1; st_h := st_h t; st_mi := st_mi t; st_s := st_s t; st_us := st_us t |}.
Proof.
  intros Ht. unfold strptime. rewrite format_time_char.
  pose proof Ht as Ht'. unfold valid_time in Ht.
  assert (Hh : st_h t < 10 ^ N.of_nat 2) by (cbn; lia).
  assert (Hmi : st_mi t < 10 ^ N.of_nat 2) by (cbn; lia).
  assert (Hs : st_s t < 10 ^ N.of_nat 2) by (cbn; lia).
  assert (Hus : st_us t < 10 ^ N.of_nat 6) by (cbn; lia).
  unfold time_text. repeat (rewrite <- app_assoc || rewrite <- app_comm_cons). cbn [app].
  cbn [strptime_run].
  rewrite take_field_fixed; [|assumption|lia|lia|lia|apply stops_cons; reflexivity].
  assert (E3 : (st_h t <=? 23) = true) by lia. rewrite E3.
  rewrite N.eqb_refl. cbn [st_y st_m st_d st_h st_mi st_s st_us stamp0].
  rewrite take_field_fixed; [|assumption|lia|lia|lia|apply stops_cons; reflexivity].
  assert (E4 : (st_mi t <=? 59) = true) by lia. rewrite E4.
  rewrite N.eqb_refl. cbn [st_y st_m st_d st_h st_mi st_s st_us].
  rewrite take_field_fixed; [|assumption|lia|lia|lia|apply stops_cons; reflexivity].
  assert (E5 : (st_s t <=? 61) = true) by lia. rewrite E5.
  rewrite N.eqb_refl. cbn [st_y st_m st_d st_h st_mi st_s st_us].
  rewrite <- (app_nil_r (fixed 6 (st_us t))).
  rewrite take_field_fixed; [|assumption|lia|lia|lia|exact I].
  cbn [st_y st_m st_d st_h st_mi st_s st_us].
  change (pow10 (N.of_nat (6 - 6))) with 1. rewrite N.mul_1_r.
  change (valid_date 1900 1 1) with true. rewrite Ht'. reflexivity.
Qed.

(* ---------------------------------------------------------------- what the validators make of the stored texts *)
Lemma fixup_dt_text t : st_us t < 1000000 -> fixup_micro (dt_text t) = dt_text t.
Proof.
  intros H. unfold dt_text, time_text.
  replace (date_text t ++ [32] ++ fixed 2 (st_h t) ++ [58] ++ fixed 2 (st_mi t) ++ [58] ++ fixed 2 (st_s t) ++ [46] ++ fixed 6 (st_us t))
    with ((date_text t ++ [32] ++ fixed 2 (st_h t) ++ [58] ++ fixed 2 (st_mi t) ++ [58] ++ fixed 2 (st_s t)) ++ c_dot :: fixed 6 (st_us t))
    by (repeat (rewrite <- app_assoc || rewrite <- app_comm_cons); reflexivity).
  now apply fixup_six.
Qed.
Lemma fixup_time_text t : st_us t < 1000000 -> fixup_micro (time_text t) = time_text t.
Proof.
  intros H. unfold time_text.
  replace (fixed 2 (st_h t) ++ [58] ++ fixed 2 (st_mi t) ++ [58] ++ fixed 2 (st_s t) ++ [46] ++ fixed 6 (st_us t))
    with ((fixed 2 (st_h t) ++ [58] ++ fixed 2 (st_mi t) ++ [58] ++ fixed 2 (st_s t)) ++ c_dot :: fixed 6 (st_us t))
    by (repeat (rewrite <- app_assoc || rewrite <- app_comm_cons); reflexivity).
  now apply fixup_six.
Qed.

Lemma read_datetime_text y m d h mi s us :
  valid_date y m d = true -> valid_time h mi s us = true ->
  v_datetime_to gen_format_datetime (PStr (dt_text (stamp_of_dt y m d h mi s us))) = Ok (PDateTime y m d h mi s us false).
Proof.
  intros Hd Ht. unfold v_datetime_to. destruct format_has_f as (Hf & _ & _). rewrite Hf.
  rewrite fixup_dt_text by (cbn [st_us stamp_of_dt]; unfold valid_time in Ht; lia).
  now rewrite strptime_datetime.
Qed.
Lemma read_date_text y m d :
  valid_date y m d = true ->
  v_date (PStr (date_text (stamp_of_dt y m d 0 0 0 0))) = Ok (PDate y m d).
Proof.
  intros Hd. unfold v_date, v_datetime_to. destruct format_has_f as (_ & _ & Hf). rewrite Hf.
  now rewrite strptime_date.
Qed.
Lemma read_time_text h mi s us :
  valid_time h mi s us = true ->
  v_time (PStr (time_text (stamp_of_dt 0 0 0 h mi s us))) = Ok (PTime h mi s us false).
Proof.
  intros Ht. unfold v_time, v_datetime_to. destruct format_has_f as (_ & Hf & _). rewrite Hf.
  rewrite fixup_time_text by (cbn [st_us stamp_of_dt]; unfold valid_time in Ht; lia).
  now rewrite strptime_time.
Qed.
