(* C12 -- destroySelf refines the specification on the populations where the
   code's restrict test never fires and no cascade cycle is reachable. *)
From Coq Require Import List ZArith NArith Bool Lia.
From Model Require Import Cascade.
From Proofs Require Import CascadeAlg CascadeReach.
Import ListNotations.
Open Scope Z_scope.

Definition none3 {A B C : Type} : A -> B -> C -> Prop := fun _ _ _ => False.
Definition none1 {A : Type} : A -> Prop := fun _ => False.

Ltac bprop :=
  repeat rewrite ?orb_true_iff, ?andb_true_iff, ?N.eqb_eq, ?Z.eqb_eq, ?Bool.eqb_true_iff, ?negb_true_iff.

(* ---------------------------------------------------------------- run_list with an invariant *)
Lemma run_list_inv : forall {A} (body : A -> state -> result) (Inv : list A -> state -> Prop) l0 l d st,
  d ++ l = l0 -> Inv d st ->
  (forall d' a r st', d' ++ a :: r = l0 -> Inv d' st' ->
     exists st'', body a st' = Done st'' /\ Inv (d' ++ [a]) st'') ->
  exists st', run_list body l st = Done st' /\ Inv l0 st'.
Proof.
  intros A body Inv l0 l. induction l as [|a l IH]; intros d st E HI Hstep; cbn.
  - rewrite app_nil_r in E. subst. eauto.
  - destruct (Hstep d a l st E HI) as [st'' [Hb HI']]. rewrite Hb.
    apply (IH (d ++ [a])); auto. rewrite <- app_assoc. auto.
Qed.

(* references through a column whose policy is not 'null' survive the null-outs *)
Lemma refs_after_null : forall test name x k P r,
  test SetNull = false ->
  refs_by test name x k (null_row P (c_fks k) r) = refs_by test name x k r.
Proof.
  intros test name x k P [i vals] Ht. unfold refs_by, null_row; cbn.
  revert vals. induction (c_fks k) as [|c cs IH]; intros vals; destruct vals as [|v vs]; cbn; auto.
  rewrite IH. f_equal.
  destruct v as [y|]; auto.
  destruct (fk_policy c) eqn:Ep; cbn; auto. rewrite Ht. auto.
Qed.

Lemma refs_matches : forall test name x k r,
  test NoAction = false -> refs_by test name x k r = true -> row_matches name x k r = true.
Proof.
  intros test name x k [i vals] Ht. unfold refs_by, row_matches; cbn.
  revert vals. induction (c_fks k) as [|c cs IH]; intros vals; destruct vals as [|v vs]; cbn; auto.
  intros H. apply orb_true_iff in H as [H|H]; [|apply orb_true_iff; right; auto].
  apply andb_true_iff in H as [H H3]. apply andb_true_iff in H as [H1 H2].
  apply orb_true_iff; left. rewrite H3, andb_true_r. unfold collected. rewrite H2. cbn.
  destruct (fk_policy c); cbn; auto. congruence.
Qed.

Lemma refs_dep : forall test name x k r,
  test NoAction = false -> refs_by test name x k r = true ->
  existsb (fun c => test (fk_policy c)) (dep_cols name k) = true.
Proof.
  intros test name x k [i vals] Ht. unfold refs_by, dep_cols; cbn.
  revert vals. induction (c_fks k) as [|c cs IH]; intros vals; destruct vals as [|v vs]; cbn; try discriminate.
  intros H. apply orb_true_iff in H as [H|H].
  - apply andb_true_iff in H as [H H3]. apply andb_true_iff in H as [H1 H2].
    unfold collected. rewrite H2. destruct (fk_policy c) eqn:Ep; cbn; rewrite ?Ep, ?H1; auto. congruence.
  - destruct (collected name c); cbn; [apply orb_true_iff; right|]; eapply IH; eauto.
Qed.

Lemma row_restricts_refs : forall name x k r, row_restricts name x k r = refs_by is_restrict name x k r.
Proof. reflexivity. Qed.

Section Main.
Variable dc : bool.
Variable g : graph.
Variable st0 : state.
Hypothesis WG : wf_graph g = true.
Hypothesis WS : wf_state st0 = true.
Notation ap := (apply dc g).
Notation R := (reach g st0).

Definition delp (sg : sigma) (q : node) : Prop := sg_del sg (fst q) (snd q) = true.
Definition up_closed (sg : sigma) : Prop :=
  forall a c, delp sg a -> In c (children g st0 a) -> delp sg c.
Definition coherent (sg : sigma) : Prop :=
  forall T x, sg_del sg T x = true ->
    (forall k, relevantb g k T = true -> sg_null sg k T x = true) /\
    (forall t s, hitb g T t s = true -> sg_link sg t s x = true).
Definition good (sg : sigma) : Prop := up_closed sg /\ coherent sg.

(* sg' is sg plus: the rows of S deleted (with their null-outs and link
   cleanup), the extra null-outs Nx and the extra link deletions Lx *)
Definition desc (sg sg' : sigma) (S : node -> Prop) (Nx : N -> N -> Z -> Prop) (Lx : N -> bool -> Z -> Prop) : Prop :=
  (forall k i, sg_del sg' k i = true <-> sg_del sg k i = true \/ S (k, i)) /\
  (forall k t y, sg_null sg' k t y = true <->
     sg_null sg k t y = true \/ (S (t, y) /\ relevantb g k t = true) \/ Nx k t y) /\
  (forall t s y, sg_link sg' t s y = true <->
     sg_link sg t s y = true \/ (exists T, S (T, y) /\ hitb g T t s = true) \/ Lx t s y).

Definition RSl (l : list node) (q : node) : Prop := exists c, In c l /\ R c q.

Lemma up_closed_reach : forall sg a q, up_closed sg -> delp sg a -> R a q -> delp sg q.
Proof. intros sg a q U Ha Hr. induction Hr; auto. apply IHHr. eapply U; eauto. Qed.

Lemma desc_refl : forall sg, desc sg sg none1 none3 none3.
Proof.
  intros sg. unfold desc, none1, none3. repeat split; intros; auto;
    repeat match goal with H : _ \/ _ |- _ => destruct H | H : exists _, _ |- _ => destruct H | H : _ /\ _ |- _ => destruct H end;
    auto; contradiction.
Qed.

Lemma desc_trans : forall a b c S1 N1 L1 S2 N2 L2,
  desc a b S1 N1 L1 -> desc b c S2 N2 L2 ->
  desc a c (fun q => S1 q \/ S2 q) (fun k t y => N1 k t y \/ N2 k t y) (fun t s y => L1 t s y \/ L2 t s y).
Proof.
  intros a b c S1 N1 L1 S2 N2 L2 [D1 [M1 K1]] [D2 [M2 K2]]. repeat split.
  - intros H. apply D2 in H as [H|H]; [apply D1 in H as [H|H]|]; auto.
  - intros [H|[H|H]]; apply D2; [left; apply D1; auto | left; apply D1; auto | auto].
  - intros H. apply M2 in H as [H|[[H1 H2]|H]]; [apply M1 in H as [H|[[H1 H2]|H]]|..]; auto 6.
  - intros [H|[[[H|H] H2]|[H|H]]]; apply M2; auto; left; apply M1; auto.
  - intros H. apply K2 in H as [H|[[T [H1 H2]]|H]]; [apply K1 in H as [H|[[T [H1 H2]]|H]]|..]; eauto 7.
  - intros [H|[[T [[H|H] H2]]|[H|H]]]; apply K2; eauto; left; apply K1; eauto.
Qed.

Lemma desc_ext : forall a b (S : node -> Prop) Nx Lx (S' : node -> Prop) (Nx' : N -> N -> Z -> Prop) (Lx' : N -> bool -> Z -> Prop),
  desc a b S Nx Lx ->
  (forall q, S q <-> S' q) -> (forall k t y, Nx k t y <-> Nx' k t y) -> (forall t s y, Lx t s y <-> Lx' t s y) ->
  desc a b S' Nx' Lx'.
Proof.
  intros a b S Nx Lx S' Nx' Lx' [D [M K]] HS HN HL. repeat split.
  - intros H. apply D in H as [H|H]; auto. right. apply HS; auto.
  - intros [H|H]; apply D; auto. right. apply HS; auto.
  - intros H. apply M in H as [H|[[H1 H2]|H]]; auto. right; left. split; auto. apply HS; auto.
    right; right. apply HN; auto.
  - intros [H|[[H1 H2]|H]]; apply M; auto. right; left. split; auto. apply HS; auto.
    right; right. apply HN; auto.
  - intros H. apply K in H as [H|[[T [H1 H2]]|H]]; auto. right; left. exists T. split; auto. apply HS; auto.
    right; right. apply HL; auto.
  - intros [H|[[T [H1 H2]]|H]]; apply K; auto. right; left. exists T. split; auto. apply HS; auto.
    right; right. apply HL; auto.
Qed.

(* S may be enlarged by nodes that were already deleted *)
Lemma desc_absorb : forall a b (S : node -> Prop) Nx Lx (S' : node -> Prop),
  good a -> desc a b S Nx Lx ->
  (forall q, S q -> S' q) -> (forall q, S' q -> S q \/ delp a q) ->
  desc a b S' Nx Lx.
Proof.
  intros a b S Nx Lx S' [U C] [D [M K]] H1 H2. repeat split.
  - intros H. apply D in H as [H|H]; auto.
  - intros [H|H]; apply D; auto. apply H2 in H as [H|H]; auto.
  - intros H. apply M in H as [H|[[Ha Hb]|H]]; auto.
  - intros [H|[[Ha Hb]|H]]; apply M; auto.
    apply H2 in Ha as [Ha|Ha].
    + right; left; auto.
    + left. apply (C t y Ha); auto.
  - intros H. apply K in H as [H|[[T [Ha Hb]]|H]]; auto.
    right; left. exists T; auto.
  - intros [H|[[T [Ha Hb]]|H]]; apply K; auto.
    apply H2 in Ha as [Ha|Ha].
    + right; left. exists T; auto.
    + left. apply (C T y Ha); auto.
Qed.

Lemma good_desc : forall a b (S : node -> Prop) Nx Lx,
  good a -> desc a b S Nx Lx -> (forall p c, S p -> In c (children g st0 p) -> S c) -> good b.
Proof.
  intros a b S Nx Lx [U C] [D [M K]] HS. split.
  - intros p c Hp Hc. unfold delp in *. apply D. apply D in Hp as [Hp|Hp].
    + left. eapply (U p c); eauto.
    + right. destruct p, c; cbn in *. eapply HS; eauto.
  - intros T x Hd. apply D in Hd as [Hd|Hd].
    + destruct (C T x Hd) as [C1 C2]. split; intros.
      * apply M. auto.
      * apply K. auto.
    + split; intros.
      * apply M. auto.
      * apply K. right; left. eauto.
Qed.

Lemma RSl_closed : forall l p c, RSl l p -> In c (children g st0 p) -> RSl l c.
Proof.
  intros l p c [a [Ha Hr]] Hc. exists a. split; auto. eapply reach_trans; eauto. apply reach_child; auto.
Qed.

(* ---------------------------------------------------------------- link deletions *)
Definition add_links (ts : list (N * bool)) (x : Z) (sg : sigma) : sigma :=
  fold_left (fun s p => add_link (fst p) (snd p) x s) ts sg.

Lemma desc_add_link : forall t0 s0 x sg,
  desc sg (add_link t0 s0 x sg) none1 none3 (fun t s y => t = t0 /\ s = s0 /\ y = x).
Proof.
  intros. unfold desc, none1, none3; cbn. repeat split; intros; auto.
  - destruct H as [|[]]; auto.
  - destruct H as [|[[[] _]|[]]]; auto.
  - revert H. bprop. intros [H|[[H1 H2] H3]]; auto.
  - bprop. destruct H as [H|[[T [[] _]]|[H1 [H2 H3]]]]; auto.
Qed.

Lemma desc_add_links : forall ts x sg,
  desc sg (add_links ts x sg) none1 none3 (fun t s y => y = x /\ In (t, s) ts).
Proof.
  induction ts as [|[t0 s0] ts IH]; intros x sg; cbn.
  - eapply desc_ext; [apply desc_refl|..]; unfold none3; intros; tauto.
  - eapply desc_ext; [eapply desc_trans; [apply desc_add_link | apply IH]|..]; unfold none1, none3; cbn; intros.
    + tauto.
    + tauto.
    + split.
      * intros [[-> [-> ->]]|[-> H]]; auto.
      * intros [-> [H|H]]; auto. inversion H; subst; auto.
Qed.

Lemma step_delete_links_list : forall ts x sg,
  fold_left (fun s p => sql_delete_links (fst p) (snd p) x s) ts (ap sg st0) = ap (add_links ts x sg) st0.
Proof.
  induction ts as [|[t0 s0] ts IH]; intros x sg; cbn; auto.
  rewrite step_delete_links. apply IH.
Qed.

Lemma fold_links_cond : forall (cond : joindef -> bool) (f : joindef -> N * bool) x js st,
  fold_left (fun s j => if cond j then sql_delete_links (fst (f j)) (snd (f j)) x s else s) js st =
  fold_left (fun s p => sql_delete_links (fst p) (snd p) x s) (map f (filter cond js)) st.
Proof.
  induction js as [|j js IH]; intros st; cbn; auto.
  destruct (cond j); cbn; auto.
Qed.

(* ---------------------------------------------------------------- matching rows *)
Lemma matches_null_mono : forall name x k P r,
  row_matches name x k (null_row P (c_fks k) r) = true -> row_matches name x k r = true.
Proof.
  intros name x k P [i vals]. unfold row_matches, null_row; cbn.
  revert vals. induction (c_fks k) as [|c cs IH]; intros vals; destruct vals as [|v vs]; cbn; auto.
  bprop. intros [[H1 H2]|H]; auto.
  left. split; auto. destruct v as [y|]; cbn in *; auto.
  destruct (is_setnull (fk_policy c) && P (fk_target c) y); cbn in *; auto. discriminate.
Qed.

Lemma cascade_ref_matches : forall name x k r,
  refs_by is_cascade name x k r = true -> row_matches name x k r = true.
Proof.
  intros name x k [i vals]. unfold refs_by, row_matches; cbn.
  revert vals. induction (c_fks k) as [|c cs IH]; intros vals; destruct vals as [|v vs]; cbn; auto.
  bprop. intros [[[H1 H2] H3]|H]; auto.
  left. split; auto. unfold collected. rewrite H2, N.eqb_refl. destruct (fk_policy c); cbn in *; auto; discriminate.
Qed.

Lemma match_after_null : forall name x P cols vals,
  existsb (fun cv => is_restrict (fk_policy (fst cv)) && N.eqb (fk_target (fst cv)) name && val_is (snd cv) x)
          (combine cols vals) = false ->
  (forall c, In c cols -> collected name c = true -> is_setnull (fk_policy c) = true -> P name x = true) ->
  existsb (fun cv => collected name (fst cv) && val_is (snd cv) x) (combine cols (null_vals P cols vals)) =
  existsb (fun cv => is_cascade (fk_policy (fst cv)) && N.eqb (fk_target (fst cv)) name && val_is (snd cv) x)
          (combine cols vals).
Proof.
  intros name x P cols vals; revert cols; induction vals as [|v vs IH]; intros cols H1 H2.
  - destruct cols; auto.
  - destruct cols as [|c cs]; cbn; auto.
    cbn in H1. apply orb_false_iff in H1 as [H1 H1'].
    rewrite IH; [| auto | intros c' Hc' Hcol Hs; apply (H2 c'); cbn; auto]. f_equal.
    specialize (H2 c (or_introl eq_refl)).
    unfold collected in *.
    destruct (N.eqb (fk_target c) name) eqn:Et; cbn in *; [|rewrite andb_false_r; auto].
    apply N.eqb_eq in Et.
    destruct (fk_policy c) eqn:Ep; cbn in *.
    + destruct v; auto.
    + destruct v; cbn in *; auto.
    + destruct v as [y|]; cbn; auto.
      destruct (Z.eqb y x) eqn:Ey; cbn.
      * apply Z.eqb_eq in Ey. subst y. rewrite Et, H2; auto.
      * destruct (P (fk_target c) y); cbn; rewrite ?Ey; auto.
    + auto.
Qed.

Lemma filter_nil_all : forall {A} (f : A -> bool) l, filter f l = [] -> forall x, In x l -> f x = false.
Proof.
  induction l as [|a l IH]; cbn; intros H x Hx; [contradiction|].
  destruct (f a) eqn:E; [discriminate|]. destruct Hx as [<-|Hx]; auto.
Qed.
Lemma filter_nil_intro : forall {A} (f : A -> bool) l, (forall x, In x l -> f x = false) -> filter f l = [].
Proof.
  induction l as [|a l IH]; cbn; intros H; auto. rewrite (H a) by auto. apply IH. auto.
Qed.

Lemma select_apply : forall name x k sg, cols_of g (c_name k) = c_fks k ->
  select_matching name x k (ap sg st0) =
  filter (row_matches name x k)
    (map (null_row (sg_null sg (c_name k)) (c_fks k)) (filter (keep sg (c_name k)) (table st0 (c_name k)))).
Proof. intros. unfold select_matching. rewrite table_apply, H. auto. Qed.

Lemma select_mono : forall name x k sg, cols_of g (c_name k) = c_fks k ->
  select_matching name x k st0 = [] -> select_matching name x k (ap sg st0) = [].
Proof.
  intros name x k sg Hc H. rewrite select_apply by auto. apply filter_nil_intro.
  intros r' Hr'. apply in_map_iff in Hr' as [r [<- Hr]]. apply filter_In in Hr as [Hr _].
  destruct (row_matches name x k (null_row _ (c_fks k) r)) eqn:E; auto.
  apply matches_null_mono in E. unfold select_matching in H.
  rewrite (filter_nil_all _ _ H r Hr) in E. discriminate.
Qed.

Lemma select_restr_mono : forall name x k sg, cols_of g (c_name k) = c_fks k ->
  select_restricting name x k st0 = [] -> select_restricting name x k (ap sg st0) = [].
Proof.
  intros name x k sg Hc H. unfold select_restricting. rewrite table_apply, Hc. apply filter_nil_intro.
  intros r' Hr'. apply in_map_iff in Hr' as [r [<- Hr]]. apply filter_In in Hr as [Hr _].
  rewrite row_restricts_refs, refs_after_null by auto. rewrite <- row_restricts_refs.
  apply (filter_nil_all _ _ H r Hr).
Qed.

Lemma ids_after : forall name x k sg, cols_of g (c_name k) = c_fks k ->
  (forall r, In r (table st0 (c_name k)) ->
     row_matches name x k (null_row (sg_null sg (c_name k)) (c_fks k) r) = refs_by is_cascade name x k r) ->
  map r_id (select_matching name x k (ap sg st0)) =
  map r_id (filter (fun r => keep sg (c_name k) r && refs_by is_cascade name x k r) (table st0 (c_name k))).
Proof.
  intros name x k sg Hc Hpt. rewrite select_apply by auto.
  rewrite filter_map', map_map. cbn. rewrite filter_filter'. f_equal.
  apply filter_ext_in'. intros r Hr. rewrite Hpt; auto.
Qed.

Definition children_in (k : classdef) (p : node) : list node :=
  map (fun r => (c_name k, r_id r)) (filter (refs_by is_cascade (fst p) (snd p) k) (table st0 (c_name k))).

Lemma children_in_children : forall k p c, In k g -> In c (children_in k p) -> In c (children g st0 p).
Proof. intros. unfold children. apply in_flat_map. exists k. auto. Qed.
Lemma children_split : forall p c, In c (children g st0 p) -> exists k, In k g /\ In c (children_in k p).
Proof. intros p c H. unfold children in H. apply in_flat_map in H. auto. Qed.

Lemma refs_cascade_dep : forall name x k r,
  refs_by is_cascade name x k r = true ->
  existsb (fun c => is_cascade (fk_policy c)) (dep_cols name k) = true.
Proof.
  intros name x k [i vals]. unfold refs_by, dep_cols; cbn.
  revert vals. induction (c_fks k) as [|c cs IH]; intros vals; destruct vals as [|v vs]; cbn; try discriminate.
  bprop. intros [[[H1 H2] H3]|H].
  - unfold collected. rewrite H2, N.eqb_refl. destruct (fk_policy c) eqn:Ep; cbn in *; try discriminate.
    rewrite Ep. auto.
  - destruct (collected name c); cbn; [apply orb_true_iff; right|]; eapply IH; eauto.
Qed.

Definition nofire (q : node) : Prop :=
  forall k, In k g -> select_restricting (fst q) (snd q) k st0 = [].

Lemma fold_dep_links : forall name x js st,
  fold_left (fun s j => if N.eqb (j_other j) name
                        then sql_delete_links (j_table j) (negb (j_side j)) x s else s) js st =
  fold_left (fun s p => sql_delete_links (fst p) (snd p) x s)
            (map (fun j => (j_table j, negb (j_side j))) (filter (fun j => N.eqb (j_other j) name) js)) st.
Proof. induction js as [|j js IH]; intros st; cbn; auto. destruct (N.eqb (j_other j) name); cbn; auto. Qed.

Lemma fold_own_links : forall x js st,
  fold_left (fun s j => sql_delete_links (j_table j) (j_side j) x s) js st =
  fold_left (fun s p => sql_delete_links (fst p) (snd p) x s) (map (fun j => (j_table j, j_side j)) js) st.
Proof. induction js as [|j js IH]; intros st; cbn; auto. Qed.

Lemma RSl_nil : forall q, RSl [] q <-> False.
Proof. intros q; split; [intros [c [[] _]] | intros []]. Qed.
Lemma RSl_app1 : forall l c q, RSl (l ++ [c]) q <-> RSl l q \/ R c q.
Proof.
  intros l c q. unfold RSl. split.
  - intros [a [Ha Hr]]. apply in_app_iff in Ha as [Ha|[<-|[]]]; eauto.
  - intros [[a [Ha Hr]]|Hr]; [exists a | exists c]; split; auto; apply in_app_iff; cbn; auto.
Qed.

Definition dep_link_targets (name : N) (k : classdef) : list (N * bool) :=
  map (fun j => (j_table j, negb (j_side j))) (filter (fun j => N.eqb (j_other j) name) (c_joins k)).

Lemma dep_step_ok : forall rec name x k sg,
  In k g -> good sg -> nofire (name, x) ->
  (forall sg1 c, good sg1 -> In c (children g st0 (name, x)) ->
     exists sg2, rec (ap sg1 st0) c = Done (ap sg2 st0) /\ desc sg1 sg2 (R c) none3 none3) ->
  exists sg' launched,
    dep_step rec name x k (ap sg st0) = Done (ap sg' st0) /\ good sg' /\
    desc sg sg' (RSl launched)
      (fun kn t y => kn = c_name k /\ t = name /\ y = x /\
                     existsb (fun c => is_setnull (fk_policy c)) (dep_cols name k) = true)
      (fun t s y => y = x /\ In (t, s) (dep_link_targets name k)) /\
    (forall c, In c launched -> In c (children_in k (name, x))) /\
    (forall c, In c (children_in k (name, x)) -> delp sg' c).
Proof.
  intros rec name x k sg Hk Hg Hnf Hrec.
  assert (Hcols : cols_of g (c_name k) = c_fks k) by (apply cols_of_in; auto).
  unfold dep_step. rewrite fold_dep_links. fold (dep_link_targets name k).
  rewrite step_delete_links_list.
  set (sg1 := add_links (dep_link_targets name k) x sg).
  assert (D1 : desc sg sg1 none1 none3 (fun t s y => y = x /\ In (t, s) (dep_link_targets name k)))
    by apply desc_add_links.
  assert (G1 : good sg1) by (eapply good_desc; eauto; intros ? ? []).
  set (n := c_name k) in *.
  destruct (is_nil (dep_cols name k)) eqn:Enil.
  { (* no collected column: only the link rows *)
    apply is_nil_true in Enil.
    exists sg1, []. split; auto. split; auto. split; [|split].
    - eapply desc_ext; [apply D1|..]; intros.
      + rewrite RSl_nil. unfold none1. tauto.
      + unfold none3. rewrite Enil. cbn. split; [intros [] | intros [_ [_ [_ H]]]; discriminate].
      + tauto.
    - intros c [].
    - intros c Hc. exfalso. unfold children_in in Hc. apply in_map_iff in Hc as [r [_ Hr]].
      apply filter_In in Hr as [_ Hr]. apply refs_cascade_dep in Hr. cbn in Hr. rewrite Enil in Hr. discriminate. }
  (* the restrict test does not fire *)
  assert (H0 : select_restricting name x k st0 = []) by apply (Hnf k Hk).
  assert (Htest : existsb (fun c => is_restrict (fk_policy c)) (dep_cols name k) &&
                  negb (is_nil (select_restricting name x k (ap sg1 st0))) = false).
  { rewrite (select_restr_mono name x k sg1 Hcols H0). cbn. apply andb_false_r. }
  rewrite Htest. clear Htest.
  (* the SetNull pass *)
  set (En := existsb (fun c => is_setnull (fk_policy c)) (dep_cols name k)).
  set (sg2 := if En then add_null n name x sg1 else sg1).
  assert (E2 : (if En then fold_left (fun s r => sql_null_row k name x (r_id r) s)
                              (select_matching name x k (ap sg1 st0)) (ap sg1 st0)
                else ap sg1 st0) = ap sg2 st0).
  { unfold sg2. destruct En; auto. apply step_null_pass; auto. }
  rewrite E2. clear E2.
  assert (D2 : desc sg1 sg2 none1 (fun kn t y => kn = n /\ t = name /\ y = x /\ En = true) none3).
  { unfold sg2. destruct En.
    - unfold desc, none1, none3; cbn. repeat split; intros; auto.
      + destruct H as [|[]]; auto.
      + revert H. bprop. intros [H|[[H1 H2] H3]]; auto 7.
      + bprop. destruct H as [H|[[[] _]|[H1 [H2 [H3 _]]]]]; auto.
      + destruct H as [|[[T [[] _]]|[]]]; auto.
    - eapply desc_ext; [apply desc_refl|..]; unfold none3; intros; try tauto.
      split; [intros [] | intros [_ [_ [_ H]]]; discriminate]. }
  assert (G2 : good sg2) by (eapply good_desc; eauto; intros ? ? []).
  assert (D12 : desc sg sg2 none1
                  (fun kn t y => kn = n /\ t = name /\ y = x /\ En = true)
                  (fun t s y => y = x /\ In (t, s) (dep_link_targets name k))).
  { eapply desc_ext; [eapply desc_trans; [apply D1 | apply D2]|..]; unfold none1, none3; intros; tauto. }
  assert (Hdel2 : forall k' i, sg_del sg2 k' i = true -> sg_del sg k' i = true).
  { intros k' i H. destruct D12 as [D _]. apply D in H as [H|[]]; auto. }
  destruct (existsb (fun c => is_cascade (fk_policy c)) (dep_cols name k)) eqn:Ec.
  2:{ (* no cascading column *)
    exists sg2, []. split; auto. split; auto. split; [|split].
    - eapply desc_ext; [apply D12|..]; intros; try tauto.
      rewrite RSl_nil. unfold none1. tauto.
    - intros c [].
    - intros c Hc. exfalso. unfold children_in in Hc. apply in_map_iff in Hc as [r [_ Hr]].
      apply filter_In in Hr as [_ Hr]. apply refs_cascade_dep in Hr. cbn in Hr. rewrite Ec in Hr. discriminate. }
  (* the rows handed to destroySelf *)
  assert (Hpt : forall r, In r (table st0 n) ->
            row_matches name x k (null_row (sg_null sg2 n) (c_fks k) r) = refs_by is_cascade name x k r).
  { intros r Hr.
    assert (Hnr : row_restricts name x k r = false) by apply (filter_nil_all _ _ H0 r Hr).
    destruct r as [i vals]. unfold row_matches, null_row, refs_by; cbn.
    apply match_after_null.
    - exact Hnr.
    - intros c Hc Hcol Hs.
      assert (HEn : En = true).
      { unfold En. apply existsb_exists. exists c. split; auto. unfold dep_cols. apply filter_In; auto. }
      unfold sg2. rewrite HEn. cbn. rewrite !N.eqb_refl, Z.eqb_refl. apply orb_true_r. }
  rewrite (ids_after name x k sg2 Hcols Hpt). fold n.
  set (ids := map r_id (filter (fun r => keep sg2 n r && refs_by is_cascade name x k r) (table st0 n))).
  assert (Hids : forall i, In i ids -> In (n, i) (children_in k (name, x))).
  { intros i Hi. unfold ids in Hi. apply in_map_iff in Hi as [r [<- Hr]]. apply filter_In in Hr as [Hr1 Hr2].
    apply andb_true_iff in Hr2 as [_ Hr2]. unfold children_in. apply in_map_iff. exists r. split; auto.
    apply filter_In. auto. }
  destruct (run_list_inv (fun i s => rec s (n, i))
              (fun d st => exists sgd, st = ap sgd st0 /\ good sgd /\
                                       desc sg2 sgd (RSl (map (fun i => (n, i)) d)) none3 none3)
              ids ids [] (ap sg2 st0)) as [st' [Hrun [sg3 [-> [G3 D3]]]]].
  - auto.
  - exists sg2. split; auto. split; auto. cbn.
    eapply desc_ext; [apply desc_refl|..]; intros; try tauto. rewrite RSl_nil. unfold none1. tauto.
  - intros d' i r st' Hsplit [sgd [-> [Gd Dd]]].
    assert (Hi : In i ids) by (rewrite <- Hsplit; apply in_app_iff; cbn; auto).
    destruct (Hrec sgd (n, i) Gd) as [sg'' [Hr'' D'']].
    { apply children_in_children with (k := k); auto. }
    exists (ap sg'' st0). split; auto. exists sg''. split; auto. split.
    + eapply good_desc; eauto. intros p c Hp Hc. eapply reach_trans; eauto. apply reach_child; auto.
    + eapply desc_ext; [eapply desc_trans; [apply Dd | apply D'']|..]; unfold none3; intros; try tauto.
      rewrite map_app. cbn. rewrite RSl_app1. tauto.
  - exists sg3, (map (fun i => (n, i)) ids). split; auto. split; auto. split; [|split].
    + eapply desc_ext; [eapply desc_trans; [apply D12 | apply D3]|..]; unfold none1, none3; intros; tauto.
    + intros c Hc. apply in_map_iff in Hc as [i [<- Hi]]. auto.
    + intros c Hc. unfold children_in in Hc. apply in_map_iff in Hc as [r [<- Hr]].
      apply filter_In in Hr as [Hr1 Hr2]. cbn in Hr2. unfold delp; cbn. fold n.
      destruct D3 as [D3 _]. apply D3.
      destruct (keep sg2 n r) eqn:Ek.
      * right. exists (n, r_id r). split; [|constructor].
        apply in_map. unfold ids. apply in_map. apply filter_In. split; auto. rewrite Ek, Hr2. auto.
      * left. unfold keep in Ek. apply negb_false_iff in Ek. auto.
Qed.

(* ---------------------------------------------------------------- joins and dependents *)
Lemma hitb_own : forall a j, In a g -> In j (c_joins a) -> hitb g (c_name a) (j_table j) (j_side j) = true.
Proof.
  intros a j Ha Hj. unfold hitb. apply existsb_exists. exists a. split; auto.
  apply existsb_exists. exists j. split; auto. rewrite !N.eqb_refl, Bool.eqb_reflx. auto.
Qed.
Lemma hitb_dep : forall a j, In a g -> In j (c_joins a) ->
  hitb g (j_other j) (j_table j) (negb (j_side j)) = true.
Proof.
  intros a j Ha Hj. unfold hitb. apply existsb_exists. exists a. split; auto.
  apply existsb_exists. exists j. split; auto. rewrite !N.eqb_refl, Bool.eqb_reflx. cbn. apply orb_true_r.
Qed.
Lemma hitb_inv : forall name t s, hitb g name t s = true ->
  exists a j, In a g /\ In j (c_joins a) /\ j_table j = t /\
              ((c_name a = name /\ j_side j = s) \/ (j_other j = name /\ negb (j_side j) = s)).
Proof.
  intros name t s H. unfold hitb in H. apply existsb_exists in H as [a [Ha H]].
  apply existsb_exists in H as [j [Hj H]]. exists a, j. revert H. bprop. intros [H1 H2]. tauto.
Qed.

Lemma dep_of_join : forall name a j, In a g -> In j (c_joins a) -> j_other j = name ->
  In a (find_dependencies name g).
Proof.
  intros name a j Ha Hj Ho. unfold find_dependencies. apply filter_In. split; auto.
  unfold is_dependent. apply orb_true_iff. right. apply existsb_exists. exists j. split; auto.
  apply N.eqb_eq; auto.
Qed.
Lemma dep_of_col : forall name k c, In k g -> In c (dep_cols name k) -> In k (find_dependencies name g).
Proof.
  intros name k c Hk Hc. unfold find_dependencies. apply filter_In. split; auto.
  unfold is_dependent. destruct (dep_cols name k); [destruct Hc|]. auto.
Qed.

Lemma RSl_app : forall l1 l2 q, RSl (l1 ++ l2) q <-> RSl l1 q \/ RSl l2 q.
Proof.
  intros. unfold RSl. split.
  - intros [a [Ha Hr]]. apply in_app_iff in Ha as [Ha|Ha]; eauto.
  - intros [[a [Ha Hr]]|[a [Ha Hr]]]; exists a; split; auto; apply in_app_iff; auto.
Qed.

Lemma relevant_dep : forall kn name, relevantb g kn name = true ->
  exists k, In k (find_dependencies name g) /\ c_name k = kn /\
            existsb (fun c => is_setnull (fk_policy c)) (dep_cols name k) = true.
Proof.
  intros kn name H. unfold relevantb, cols_of in H.
  destruct (find_class g kn) as [k|] eqn:Ef; [|discriminate].
  apply find_class_some in Ef as [Hk Hn].
  apply existsb_exists in H as [c [Hc H]]. apply andb_true_iff in H as [Hs Ht].
  assert (Hd : In c (dep_cols name k)).
  { unfold dep_cols. apply filter_In. split; auto. unfold collected. rewrite Ht.
    destruct (fk_policy c); cbn in *; auto; discriminate. }
  exists k. split; [eapply dep_of_col; eauto|]. split; auto.
  apply existsb_exists. exists c. auto.
Qed.

Lemma dep_relevant : forall k name, In k g ->
  existsb (fun c => is_setnull (fk_policy c)) (dep_cols name k) = true -> relevantb g (c_name k) name = true.
Proof.
  intros k name Hk H. unfold relevantb. rewrite cols_of_in by auto.
  apply existsb_exists in H as [c [Hc Hs]]. unfold dep_cols in Hc. apply filter_In in Hc as [Hc Hcol].
  apply existsb_exists. exists c. split; auto. rewrite Hs. cbn.
  unfold collected in Hcol. apply andb_true_iff in Hcol as [Ht _]. auto.
Qed.

(* ---------------------------------------------------------------- the main induction *)
Lemma destroy_ok : forall f sg p,
  good sg -> boundedb f g st0 p = true -> (forall q, R p q -> nofire q) ->
  exists sg', destroy dc f g (ap sg st0) p = Done (ap sg' st0) /\ desc sg sg' (R p) none3 none3.
Proof.
  induction f as [|f IH]; intros sg p Hg Hb Hnf; [discriminate|].
  destruct p as [name x]. cbn [destroy fst snd].
  rewrite fold_own_links, step_delete_links_list.
  set (own_ts := map (fun j => (j_table j, j_side j)) (joins_of g name)).
  set (sg1 := add_links own_ts x sg).
  assert (D1 : desc sg sg1 none1 none3 (fun t s y => y = x /\ In (t, s) own_ts)) by apply desc_add_links.
  assert (G1 : good sg1) by (eapply good_desc; eauto; intros ? ? []).
  assert (Hrec : forall sgA c, good sgA -> In c (children g st0 (name, x)) ->
            exists sgB, destroy dc f g (ap sgA st0) c = Done (ap sgB st0) /\ desc sgA sgB (R c) none3 none3).
  { intros sgA c GA Hc. apply IH; auto.
    - eapply boundedb_child; eauto.
    - intros q Hq. apply Hnf. eapply reach_step; eauto. }
  set (deps := find_dependencies name g).
  set (Nd := fun (d : list classdef) (kn t : N) (y : Z) =>
               exists k, In k d /\ kn = c_name k /\ t = name /\ y = x /\
                         existsb (fun c => is_setnull (fk_policy c)) (dep_cols name k) = true).
  set (Ld := fun (d : list classdef) (t : N) (s : bool) (y : Z) =>
               exists k, In k d /\ y = x /\ In (t, s) (dep_link_targets name k)).
  destruct (run_list_inv (dep_step (destroy dc f g) name x)
              (fun d st => exists sgd launched, st = ap sgd st0 /\ good sgd /\
                 desc sg1 sgd (RSl launched) (Nd d) (Ld d) /\
                 (forall c, In c launched -> In c (children g st0 (name, x))) /\
                 (forall k c, In k d -> In c (children_in k (name, x)) -> delp sgd c))
              deps deps [] (ap sg1 st0)) as [st' [Hrun [sgL [launched [-> [GL [DL [HL1 HL2]]]]]]]].
  - auto.
  - exists sg1, []. split; auto. split; auto. split; [|split].
    + eapply desc_ext; [apply desc_refl|..]; intros.
      * rewrite RSl_nil. unfold none1. tauto.
      * unfold none3, Nd. split; [intros [] | intros [k0 [[] _]]].
      * unfold none3, Ld. split; [intros [] | intros [k0 [[] _]]].
    + intros c [].
    + intros k c [].
  - intros d' k r st' Hsplit [sgd [lnd [-> [Gd [Dd [Hl1 Hl2]]]]]].
    assert (Hkd : In k deps) by (rewrite <- Hsplit; apply in_app_iff; cbn; auto).
    assert (Hk : In k g) by (unfold deps, find_dependencies in Hkd; apply filter_In in Hkd; tauto).
    destruct (dep_step_ok (destroy dc f g) name x k sgd Hk Gd) as [sg' [ln' [Hstep [G' [D' [Hn1 Hn2]]]]]].
    { apply Hnf. constructor. }
    { apply Hrec. }
    exists (ap sg' st0). split; auto. exists sg', (lnd ++ ln'). split; auto. split; auto. split; [|split].
    + eapply desc_ext; [eapply desc_trans; [apply Dd | apply D']|..]; intros.
      * rewrite RSl_app. tauto.
      * unfold Nd. split.
        -- intros [[k9 [Hk9 H]]|[H1 H]]; [exists k9 | exists k]; (split; [apply in_app_iff; cbn; auto | tauto]).
        -- intros [k9 [Hk9 H]]. apply in_app_iff in Hk9 as [Hk9|[<-|[]]]; [left; exists k9; auto | right; tauto].
      * unfold Ld. split.
        -- intros [[k9 [Hk9 H]]|H]; [exists k9 | exists k]; (split; [apply in_app_iff; cbn; auto | tauto]).
        -- intros [k9 [Hk9 H]]. apply in_app_iff in Hk9 as [Hk9|[<-|[]]]; [left; exists k9; auto | right; tauto].
    + intros c Hc. apply in_app_iff in Hc as [Hc|Hc]; auto.
      apply children_in_children with (k := k); auto.
    + intros k0 c Hk0 Hc. apply in_app_iff in Hk0 as [Hk0|[<-|[]]]; auto.
      destruct D' as [D' _]. unfold delp. apply D'. left. apply (Hl2 k0 c Hk0 Hc).
  - (* after the loop: delete the row, expire the instance *)
    rewrite Hrun. rewrite step_delete_row.
    exists (add_del name x sgL). split; auto.
    destruct D1 as [D1d [D1n D1l]]. destruct DL as [DLd [DLn DLl]]. destruct Hg as [U C].
    assert (Hlaunch : forall q, RSl launched q -> R (name, x) q).
    { intros q [c [Hc Hr]]. eapply reach_step; eauto. }
    assert (F1 : forall c, In c (children g st0 (name, x)) -> delp sgL c).
    { intros c Hc. destruct (children_split _ _ Hc) as [k [Hk Hck]].
      apply (HL2 k c); auto.
      unfold children_in in Hck. apply in_map_iff in Hck as [r [_ Hr]]. apply filter_In in Hr as [_ Hr].
      apply refs_cascade_dep in Hr. apply existsb_exists in Hr as [col [Hcol _]].
      eapply dep_of_col; eauto. }
    assert (F2 : forall q, delp sgL q -> delp sg q \/ RSl launched q).
    { intros [k i] H. unfold delp in *; cbn in *. apply DLd in H as [H|H]; auto.
      apply D1d in H as [H|[]]; auto. }
    assert (F3 : forall c q, In c (children g st0 (name, x)) -> R c q -> delp sg q \/ RSl launched q).
    { intros c q Hc Hr. destruct (F2 c (F1 c Hc)) as [H|[a [Ha Hra]]].
      - left. eapply up_closed_reach; eauto.
      - right. exists a. split; auto. eapply reach_trans; eauto. }
    unfold desc, none3. cbn. repeat split.
    + (* rows *)
      bprop. intros [H|[-> ->]].
      * apply DLd in H as [H|H]; auto. apply D1d in H as [H|[]]; auto.
      * right. constructor.
    + intros [H|H].
      * apply orb_true_iff. left. apply DLd. left. apply D1d. auto.
      * apply reach_inv in H as [H|[c [Hc Hr]]].
        -- inversion H; subst. rewrite !N.eqb_refl, Z.eqb_refl. apply orb_true_r.
        -- apply orb_true_iff. left. destruct (F3 c _ Hc Hr) as [H|H].
           ++ apply DLd. left. apply D1d. auto.
           ++ apply DLd. auto.
    + (* null-outs *)
      intros H. apply DLn in H as [H|[[H1 H2]|H]].
      * apply D1n in H as [H|[[[] _]|[]]]. auto.
      * auto.
      * destruct H as [k0 [Hk0 [-> [-> [-> Hs]]]]]. right; left. split; [constructor|].
        apply dep_relevant; auto. unfold deps, find_dependencies in Hk0. apply filter_In in Hk0. tauto.
    + intros [H|[[Hr Hrel]|[]]].
      * apply DLn. left. apply D1n. auto.
      * apply reach_inv in Hr as [Hr|[c [Hc Hr]]].
        -- inversion Hr; subst. apply DLn. right; right.
           destruct (relevant_dep _ _ Hrel) as [k0 [Hk0 [Hn Hs]]]. exists k0. auto.
        -- destruct (F3 c _ Hc Hr) as [H|H].
           ++ apply DLn. left. apply D1n. left. apply (C t y H); auto.
           ++ apply DLn. auto.
    + (* link rows *)
      intros H. apply DLl in H as [H|[[T [H1 H2]]|H]].
      * apply D1l in H as [H|[[T [[] _]]|[-> H]]]; auto.
        right; left. exists name. split; [constructor|].
        unfold own_ts in H. apply in_map_iff in H as [j [Hj Hin]]. inversion Hj; subst.
        unfold joins_of in Hin. destruct (find_class g name) as [a|] eqn:Ef; [|destruct Hin].
        apply find_class_some in Ef as [Ha <-]. apply hitb_own; auto.
      * right; left. eauto.
      * destruct H as [k0 [Hk0 [-> Hin]]]. right; left. exists name. split; [constructor|].
        unfold dep_link_targets in Hin. apply in_map_iff in Hin as [j [Hj Hin]]. inversion Hj; subst.
        apply filter_In in Hin as [Hin Ho]. apply N.eqb_eq in Ho. subst name.
        apply hitb_dep with (a := k0); auto.
        unfold deps, find_dependencies in Hk0. apply filter_In in Hk0. tauto.
    + intros [H|[[T [Hr Hh]]|[]]].
      * apply DLl. left. apply D1l. auto.
      * apply reach_inv in Hr as [Hr|[c [Hc Hr]]].
        -- inversion Hr; subst T y.
           destruct (hitb_inv _ _ _ Hh) as [a [j [Ha [Hj [Ht [[Hn Hs]|[Ho Hs]]]]]]].
           ++ apply DLl. left. apply D1l. right; right. split; auto.
              unfold own_ts. apply in_map_iff. exists j. split; [subst; auto|].
              subst name. rewrite joins_of_in; auto.
           ++ apply DLl. right; right. exists a. split; [eapply dep_of_join; eauto|]. split; auto.
              unfold dep_link_targets. apply in_map_iff. exists j. split; [subst; auto|].
              apply filter_In. split; auto. apply N.eqb_eq; auto.
        -- destruct (F3 c _ Hc Hr) as [H|H].
           ++ apply DLl. left. apply D1l. left. apply (C T y H); auto.
           ++ apply DLl. right; left. eauto.
Qed.

End Main.

(* ================================================================ *)
(* The theorems                                                      *)

Lemma bool_iff_eq : forall a b : bool, (a = true <-> b = true) -> a = b.
Proof. intros [|] [|] H; auto; [symmetry|]; apply H; auto. Qed.

Lemma good_empty : forall g st, good g st sg_empty.
Proof.
  intros. split.
  - intros a c H. discriminate.
  - intros T x H. discriminate.
Qed.

Lemma unrestricted_nofire : forall g st p q,
  acyclicb g st p = true -> restricted g st (closure g st p) = false ->
  reach g st p q -> nofire g st q.
Proof.
  intros g st p q Ha Hf Hr k Hk.
  unfold restricted in Hf. rewrite existsb_false in Hf.
  specialize (Hf q (closure_complete g st p q Ha Hr)). rewrite existsb_false in Hf.
  specialize (Hf k Hk). rewrite existsb_false in Hf.
  unfold select_restricting. apply filter_nil_intro. intros r Hr'. rewrite row_restricts_refs. auto.
Qed.

(* when no row of the closure is referenced through cascade=False and no cascade
   cycle is reachable, destroySelf does exactly what the specification says *)
Theorem refines_ok : forall dc g st p fuel,
  wf_graph g = true -> wf_state st = true ->
  acyclicb g st p = true -> restricted g st (closure g st p) = false ->
  (fuel > length (all_nodes g st))%nat ->
  destroy dc fuel g st p = Done (apply dc g (full g (closure g st p)) st).
Proof.
  intros dc g st p fuel WG WS Ha Hf Hfuel.
  destruct (destroy_ok dc g st WG WS fuel sg_empty p) as [sg' [Hd [Dd [Dn Dl]]]].
  - apply good_empty.
  - eapply boundedb_le; [|apply Ha]. lia.
  - intros q Hq. eapply unrestricted_nofire; eauto.
  - rewrite apply_empty in Hd. rewrite Hd. f_equal. apply apply_ext.
    + intros k i. apply bool_iff_eq. rewrite Dd. cbn. rewrite closure_reach by auto.
      split; [intros [H|H]; [discriminate|auto] | auto].
    + intros k t y Hrel. apply bool_iff_eq. rewrite Dn. cbn. rewrite closure_reach by auto.
      unfold none3. split; [intros [H|[[H _]|[]]]; [discriminate|auto] | auto].
    + intros t s y. apply bool_iff_eq. rewrite Dl. cbn. unfold none3. rewrite existsb_exists. split.
      * intros [H|[[T [H1 H2]]|[]]]; [discriminate|]. exists (T, y). split.
        -- apply closure_complete; auto.
        -- cbn. rewrite Z.eqb_refl, H2. auto.
      * intros [[T y'] [H1 H2]]. cbn in H2. apply andb_true_iff in H2 as [H2 H3]. apply Z.eqb_eq in H2. subst y'.
        right; left. exists T. split; auto. apply closure_sound; auto.
Qed.

(* ---------------------------------------------------------------- immediate refusal *)
Lemma delete_links_noop : forall g st name x t s,
  hitb g name t s = true -> no_links_of g st (name, x) = true -> sql_delete_links t s x st = st.
Proof.
  intros g st name x t s Hh Hn. unfold sql_delete_links, map_links. destruct st as [tabs links cache]; cbn in *.
  f_equal. apply map_id'. intros [t' ls] He. cbn. f_equal.
  destruct (N.eqb t' t) eqn:E; auto. apply N.eqb_eq in E. subst t'.
  apply filter_all. intros l Hl.
  unfold no_links_of in Hn. cbn in Hn. rewrite forallb_forall in Hn. specialize (Hn _ He). cbn in Hn.
  rewrite forallb_forall in Hn. specialize (Hn _ Hl).
  apply negb_true_iff in Hn. apply orb_false_iff in Hn as [H1 H2].
  destruct s; cbn; rewrite Hh in *; cbn in *; [rewrite H2 | rewrite H1]; auto.
Qed.

Lemma own_links_noop : forall g st name x,
  no_links_of g st (name, x) = true ->
  fold_left (fun s j => sql_delete_links (j_table j) (j_side j) x s) (joins_of g name) st = st.
Proof.
  intros g st name x Hn. unfold joins_of. destruct (find_class g name) as [a|] eqn:Ef; auto.
  apply find_class_some in Ef as [Ha <-].
  assert (H : forall js, (forall j, In j js -> In j (c_joins a)) ->
             fold_left (fun s j => sql_delete_links (j_table j) (j_side j) x s) js st = st).
  { induction js as [|j js IH]; intros Hjs; cbn; auto.
    rewrite (delete_links_noop g st (c_name a) x); auto.
    - apply IH. intros; apply Hjs; cbn; auto.
    - apply hitb_own; auto. apply Hjs; cbn; auto. }
  apply H; auto.
Qed.

Lemma dep_links_noop : forall g st name x k,
  In k g -> no_links_of g st (name, x) = true ->
  fold_left (fun s j => if N.eqb (j_other j) name
                        then sql_delete_links (j_table j) (negb (j_side j)) x s else s) (c_joins k) st = st.
Proof.
  intros g st name x k Hk Hn.
  assert (H : forall js, (forall j, In j js -> In j (c_joins k)) ->
             fold_left (fun s j => if N.eqb (j_other j) name
                        then sql_delete_links (j_table j) (negb (j_side j)) x s else s) js st = st).
  { induction js as [|j js IH]; intros Hjs; cbn; auto.
    destruct (N.eqb (j_other j) name) eqn:E.
    - rewrite (delete_links_noop g st name x); auto.
      + apply IH. intros; apply Hjs; cbn; auto.
      + apply N.eqb_eq in E. subst name. apply hitb_dep with (a := k); auto. apply Hjs; cbn; auto.
    - apply IH. intros; apply Hjs; cbn; auto. }
  apply H; auto.
Qed.

Lemma restricts_dep_cols : forall name x k r, row_restricts name x k r = true ->
  is_nil (dep_cols name k) = false /\ existsb (fun c => is_restrict (fk_policy c)) (dep_cols name k) = true.
Proof.
  intros name x k r H. rewrite row_restricts_refs in H. apply refs_dep in H; auto.
  split; auto. destruct (dep_cols name k); [discriminate|auto].
Qed.

Lemma restricting_matching : forall name x k st,
  is_nil (select_matching name x k st) = true -> is_nil (select_restricting name x k st) = true.
Proof.
  intros name x k st H. apply is_nil_true in H. apply is_nil_true.
  unfold select_restricting, select_matching in *. apply filter_nil_intro. intros r Hr.
  destruct (row_restricts name x k r) eqn:E; auto.
  rewrite row_restricts_refs in E. apply refs_matches in E; auto.
  rewrite (filter_nil_all _ _ H r Hr) in E. discriminate.
Qed.

Lemma immediate_refusal_raises : forall dc g st p f,
  immediate_refusal g st p = true -> destroy dc (S f) g st p = Raised st.
Proof.
  intros dc g st [name x] f H. unfold immediate_refusal in H. cbn [fst snd] in H.
  apply andb_true_iff in H as [H H3]. apply andb_true_iff in H as [H1 H2].
  cbn [destroy fst snd]. rewrite own_links_noop by auto.
  assert (L : forall l, (forall k, In k l -> In k g) ->
            (exists k, In k l /\ is_nil (select_restricting name x k st) = false) ->
            run_list (dep_step (destroy dc f g) name x) l st = Raised st).
  { induction l as [|k l IH]; intros Hsub [k0 [Hk0 Hm]]; [destruct Hk0|].
    cbn [run_list]. unfold dep_step at 1. rewrite (dep_links_noop g st name x k); auto; [|apply Hsub; cbn; auto].
    rewrite forallb_forall in H3. specialize (H3 k (Hsub k (or_introl eq_refl))).
    destruct (is_nil (select_restricting name x k st)) eqn:Er.
    - (* no restricting row in this class: then no matching row at all *)
      cbn in H3. rewrite orb_false_r in H3.
      assert (Hrest : run_list (dep_step (destroy dc f g) name x) l st = Raised st).
      { apply IH; [intros; apply Hsub; cbn; auto|].
        destruct Hk0 as [<-|Hk0]; [|eauto]. rewrite Er in Hm. discriminate. }
      apply is_nil_true in H3.
      destruct (is_nil (dep_cols name k)); auto.
      cbn [negb]. rewrite andb_false_r.
      destruct (existsb (fun c => is_setnull (fk_policy c)) (dep_cols name k)); rewrite H3; cbn [fold_left];
        rewrite ?H3; destruct (existsb (fun c => is_cascade (fk_policy c)) (dep_cols name k)); cbn; auto.
    - destruct (select_restricting name x k st) as [|r rs] eqn:Es; [discriminate|].
      assert (Hr : In r (select_restricting name x k st)) by (rewrite Es; cbn; auto).
      unfold select_restricting in Hr. apply filter_In in Hr as [_ Hr].
      destruct (restricts_dep_cols _ _ _ _ Hr) as [Hn Hres]. rewrite Hn, Hres. cbn. auto. }
  rewrite L; auto.
  - intros k Hk. unfold find_dependencies in Hk. apply filter_In in Hk. tauto.
  - apply existsb_exists in H2 as [k [Hk Hm]]. apply negb_true_iff in Hm. exists k. split; auto.
    unfold find_dependencies. apply filter_In. split; auto.
    unfold is_dependent.
    destruct (select_restricting name x k st) as [|r rs] eqn:Es; [discriminate|].
    assert (Hr : In r (select_restricting name x k st)) by (rewrite Es; cbn; auto).
    unfold select_restricting in Hr. apply filter_In in Hr as [_ Hr].
    destruct (restricts_dep_cols _ _ _ _ Hr) as [Hn _]. rewrite Hn. auto.
Qed.

Theorem refines_partial : forall dc g st p fuel,
  wf_graph g = true -> wf_state st = true -> guard_ok g st p = true ->
  (fuel > length (all_nodes g st))%nat ->
  destroy dc fuel g st p = destroy_spec dc g st p.
Proof.
  intros dc g st p fuel WG WS H Hfuel. unfold guard_ok in H.
  apply andb_true_iff in H as [H1 H3]. unfold destroy_spec.
  destruct (restricted g st (closure g st p)) eqn:Er.
  - cbn in H3. destruct fuel as [|f]; [lia|]. apply immediate_refusal_raises; auto.
  - apply refines_ok; auto.
Qed.

(* ---------------------------------------------------------------- what a successful destroy leaves behind *)
Lemma table_full : forall dc g st D n,
  table (apply dc g (full g D) st) n =
  map (null_row (fun t y => mem (t, y) D) (cols_of g n))
      (filter (fun r => negb (mem (n, r_id r) D)) (table st n)).
Proof. intros. rewrite table_apply. reflexivity. Qed.

Lemma link_table_full : forall dc g st D t,
  link_table (apply dc g (full g D) st) t =
  filter (fun l => negb (existsb (fun q => Z.eqb (snd q) (fst l) && hitb g (fst q) t false) D ||
                         existsb (fun q => Z.eqb (snd q) (snd l) && hitb g (fst q) t true) D))
         (link_table st t).
Proof.
  intros. unfold link_table, apply; cbn.
  induction (s_links st) as [|e l IH]; cbn; auto.
  destruct (N.eqb (fst e) t) eqn:E; auto. apply N.eqb_eq in E; subst; auto.
Qed.

Lemma null_vals_same : forall P cols vals,
  (forall c v y, In (c, v) (combine cols vals) -> is_setnull (fk_policy c) = true -> v = Some y ->
                 P (fk_target c) y = false) ->
  null_vals P cols vals = vals.
Proof.
  intros P cols vals; revert cols; induction vals as [|v vs IH]; intros cols H; cbn; auto.
  destruct cols as [|c cs]; auto.
  rewrite IH by (intros; eapply H; cbn; eauto). f_equal.
  destruct v as [y|]; auto. destruct (is_setnull (fk_policy c)) eqn:Es; cbn; auto.
  rewrite (H c (Some y) y); cbn; auto.
Qed.

Lemma null_vals_nth : forall P cols vals j c,
  nth_error cols j = Some c -> is_setnull (fk_policy c) = false ->
  nth_error (null_vals P cols vals) j = nth_error vals j.
Proof.
  intros P cols vals; revert cols; induction vals as [|v vs IH]; intros cols j c Hc Hs; cbn; auto.
  destruct cols as [|c0 cs]; [destruct j; discriminate|].
  destruct j as [|j]; cbn in *.
  - inversion Hc; subst. rewrite Hs. cbn. destruct v; auto.
  - eapply IH; eauto.
Qed.

(* the same with acyclicity stated as a proposition about the rows *)
Theorem refines_partial_rows : forall dc g st p fuel,
  wf_graph g = true -> wf_state st = true ->
  acyclic_rows g st p ->
  (restricted g st (closure g st p) = false \/ immediate_refusal g st p = true) ->
  (fuel > length (all_nodes g st))%nat ->
  destroy dc fuel g st p = destroy_spec dc g st p.
Proof.
  intros dc g st p fuel WG WS Ha Hr Hfuel. apply refines_partial; auto.
  unfold guard_ok. rewrite (acyclicb_complete g st p Ha). cbn.
  destruct Hr as [->| ->]; auto. apply orb_true_r.
Qed.

(* a raise means that the specification refuses: some row of the closure is
   referenced through cascade=False *)
Theorem raise_only_if_restricted : forall dc g st p fuel st',
  wf_graph g = true -> wf_state st = true -> acyclicb g st p = true ->
  (fuel > length (all_nodes g st))%nat ->
  destroy dc fuel g st p = Raised st' ->
  restricted g st (closure g st p) = true.
Proof.
  intros dc g st p fuel st' WG WS Ha Hfuel Hd.
  destruct (restricted g st (closure g st p)) eqn:Ef; auto.
  rewrite (refines_ok dc g st p fuel WG WS Ha Ef Hfuel) in Hd. discriminate.
Qed.
