(* C04 / C05 / C06 for histories with injected database errors: the invariant of
   OrmInvRun survives a faulted operation, whether it raises having changed
   nothing, raises half-way, or runs to completion. *)
From Coq Require Import List ZArith Bool Lia ZifyBool.
From Model Require Import Orm.
From Proofs Require Import OrmBase OrmSpec OrmLazy OrmInvLists OrmInvTables OrmInvDefs OrmInvCoh OrmInvFrames OrmInvOC
  OrmInvCache OrmInvOps OrmInvOps2 OrmInvRun OrmInvC04 OrmInvC05.
Import ListNotations.
Open Scope Z_scope.

Definition gopf (m : mode) (o : op) : bool := gop m (unfault o).

Section Faults.
Variable cfg : config.
Variable m : mode.
Notation I := (Inv cfg m []).

Lemma run_op_fault f n o s :
  run_op cfg (S f) (OFault n o) s = (let (r, s') := run_op cfg f o (with_fault s (Some n)) in (r, with_fault s' None)).
Proof. reflexivity. Qed.

Theorem step_Inv_f s o : I s -> gopf m o = true -> I (snd (step cfg s o)).
Proof.
  intros H Hg. destruct o; try exact (step_Inv cfg m s _ H Hg).
  unfold gopf in Hg. cbn [unfault] in Hg.
  unfold step. rewrite run_op_fault.
  set (s0 := with_fault (with_fault (with_log s []) None) (Some n)).
  assert (H0 : I s0) by (apply Inv_fault; apply Inv_fault; apply Inv_log; exact H).
  pose proof (run_op_spec cfg m 1 o s0 H0 Hg) as R.
  destruct (run_op cfg 1 o s0) as [[a|e] s1]; cbn [snd]; apply Inv_fault; exact R.
Qed.

Theorem reachable_Inv_f ops : forallb (gopf m) ops = true -> I (run cfg ops).
Proof.
  unfold run. pose proof (Inv_init cfg m) as H.
  revert H. generalize init. induction ops as [|o r IH]; intros s Hs Hg; cbn [fold_left]; [exact Hs|].
  cbn in Hg. apply andb_true_iff in Hg. destruct Hg as (Hg1 & Hg2).
  apply IH; [|exact Hg2]. now apply step_Inv_f.
Qed.
End Faults.

Lemma gopf_M04 ops : forallb guard04f ops = true -> forallb (gopf M04) ops = true.
Proof.
  intros H. rewrite forallb_forall in *. intros o Ho. specialize (H o Ho). unfold gopf, guard04f, gop in *. cbn. rewrite H. reflexivity.
Qed.
Lemma gopf_MNU ops : forallb guard04f ops = true -> forallb no_unpickle_f ops = true -> forallb (gopf MNU) ops = true.
Proof.
  intros H H2. rewrite forallb_forall in *. intros o Ho. specialize (H o Ho). specialize (H2 o Ho).
  unfold gopf, guard04f, no_unpickle_f, gop in *. cbn. rewrite H. destruct (unfault o); cbn in *; auto.
Qed.
Lemma gopf_MCO ops : forallb guard05f ops = true -> forallb read_ok_f ops = true -> forallb (gopf MCO) ops = true.
Proof.
  intros H H2. rewrite forallb_forall in *. intros o Ho. specialize (H o Ho). specialize (H2 o Ho).
  unfold gopf, guard05f, read_ok_f, gop in *. cbn. destruct (guard05_04 _ H) as (E1 & E2). rewrite E1, E2.
  destruct (unfault o); cbn in *; auto.
Qed.

(* ------------------------------------------------------------------ one-step lemmas on any state satisfying the invariant *)
Lemma get_returns_held_I cfg s o k id id' tok s' :
  Inv cfg M04 [] s ->
  held s o -> current s o -> is_row s o k id -> assoc id (t_rows (tbl s k)) <> None ->
  step cfg s (OGet k id) = (Ret (RObj id' tok), s') ->
  id' = id /\ tok = slot_of s o /\ tok <> None.
Proof.
  intros H Hh Hc (Hk & Hi) Hrow Hstep.
  pose proof (Inv_st0 cfg M04 s H) as H0.
  unfold step in Hstep. cbn [run_op] in Hstep. fold (st0 s) in Hstep. unfold hold_or_none in Hstep.
  pose proof (so_get_spec cfg M04 k id None [] (st0 s) H0 ltac:(discriminate)) as G.
  destruct (so_get cfg k id None [] (st0 s)) as [[ob|e] s1]; [|discriminate].
  destruct G as (G1 & G2 & G3 & G4 & G5 & G6 & G7).
  assert (R : registered s1 k id o) by (apply (held_registered cfg M04 [] (st0 s) s1 o k id H0 G1 G2 G3); assumption).
  assert (ob = o) by (eapply registered_fun; eauto). subst ob.
  unfold hold, bind, gets, modify, ret in Hstep. cbn [fst snd] in Hstep. inversion Hstep; subst id' tok s'. clear Hstep.
  destruct G2 as (Esl & _). split; [exact G7|]. split.
  - apply slot_of_slots. exact Esl.
  - apply slot_of_some. rewrite Esl. exact Hh.
Qed.

Lemma select_returns_held_I cfg s o k flt keep res id tok s' :
  Inv cfg M04 [] s ->
  held s o -> current s o -> is_row s o k id ->
  step cfg s (OSelect k flt keep) = (Ret (RObjs res), s') ->
  In (id, tok) res -> tok = slot_of s o /\ tok <> None.
Proof.
  intros H Hh Hc (Hk & Hi) Hstep Hin.
  pose proof (Inv_st0 cfg M04 s H) as H0.
  unfold step in Hstep. cbn [run_op] in Hstep. fold (st0 s) in Hstep. unfold or_empty_slot in Hstep.
  unfold bind at 1 in Hstep. rewrite (statement_ok _ (st0 s) eq_refl) in Hstep.
  set (s0 := with_log (st0 s) _) in *.
  assert (H0' : Inv cfg M04 [] s0) by (apply Inv_log; exact H0).
  unfold bind at 1, gets in Hstep. cbn [fst snd] in Hstep.
  set (rows := sort_by_id _) in Hstep.
  assert (Hrows : forall id r, In (id, r) rows -> assoc id (t_rows (tbl s0 k)) = Some r).
  { intros id0 r Hi0. unfold rows in Hi0. apply (proj1 (In_sort_by_id _ _)) in Hi0. apply filter_In in Hi0. destruct Hi0 as (Hi0 & _).
    apply (table_row cfg M04 s0 k id0 r H0' Hi0). }
  unfold bind at 1 in Hstep.
  pose proof (select_rows_spec cfg M04 k rows [] s0 H0' Hrows) as S.
  destruct (select_rows cfg k rows [] s0) as [[objs|e] s1]; [|destruct keep; discriminate].
  destruct S as (S1 & S2 & S3 & S4).
  unfold bind at 1, gets in Hstep. cbn [fst snd] in Hstep.
  assert (Eres : res = map (fun x => (i_id (get_inst s1 x), slot_of s1 x)) objs).
  { destruct keep as [n|]; [destruct (nth_error objs n)|]; unfold bind, modify, ret in Hstep; cbn [fst snd] in Hstep; inversion Hstep; reflexivity. }
  subst res. apply in_map_iff in Hin. destruct Hin as (x & Ex & Hx). inversion Ex as [[Eid Etok]]. clear Ex.
  destruct (S4 x Hx) as [[]|(id0 & R & K1 & K2 & Rw)].
  assert (E0 : id0 = id) by congruence. rewrite E0 in R, Rw. clear E0.
  assert (Ro : registered s1 k id o) by (apply (held_registered cfg M04 objs s0 s1 o k id H0' S1 S2 S3); assumption).
  assert (x = o) by (eapply registered_fun; eauto). subst x.
  destruct S2 as (Esl & _). split.
  - apply (slot_of_slots s s1 o). exact Esl.
  - apply slot_of_some. rewrite Esl. exact Hh.
Qed.

(* ------------------------------------------------------------------ the statements *)
Theorem C04_unique_faults_proof : C04_unique_faults_stmt.
Proof.
  intros cfg ops o1 o2 k id Hg s H1 H2 C1 C2 (K1 & I1) (K2 & I2) Hrow.
  pose proof (reachable_Inv_f cfg M04 ops (gopf_M04 ops Hg)) as H. fold s in H.
  apply (Inv_unique cfg M04 [] s o1 o2 H (held_live [] s o1 H1) (held_live [] s o2 H2)); [congruence|congruence|].
  rewrite K1, I1. exact Hrow.
Qed.

Theorem C04_get_returns_held_faults_proof : C04_get_returns_held_faults_stmt.
Proof.
  intros cfg ops o k id id' tok s' Hg s Hh Hc Hr Hrow Hstep.
  exact (get_returns_held_I cfg s o k id id' tok s' (reachable_Inv_f cfg M04 ops (gopf_M04 ops Hg)) Hh Hc Hr Hrow Hstep).
Qed.

Theorem C04_select_returns_held_faults_proof : C04_select_returns_held_faults_stmt.
Proof.
  intros cfg ops o k flt keep res id tok s' Hg s Hh Hc Hr Hstep Hin.
  exact (select_returns_held_I cfg s o k flt keep res id tok s' (reachable_Inv_f cfg M04 ops (gopf_M04 ops Hg)) Hh Hc Hr Hstep Hin).
Qed.

Theorem C04_cached_is_current_faults_proof : C04_cached_is_current_faults_stmt.
Proof.
  intros cfg ops k id o Hg s Hc.
  exact (proj1 (inv_X _ _ _ _ (reachable_Inv_f cfg M04 ops (gopf_M04 ops Hg)) k id o Hc)).
Qed.

Theorem C05_coherent_faults_proof : C05_coherent_faults_stmt.
Proof.
  intros cfg ops o Hg Hr s Hh Hc Hcv.
  pose proof (reachable_Inv_f cfg MCO ops (gopf_MCO ops Hg Hr)) as H. fold s in H.
  destruct (inv_L _ _ _ _ H o (held_live [] s o Hh)) as (_ & (_ & _ & B3) & _).
  destruct (B3 eq_refl) as (_ & S). exact (S Hc Hcv).
Qed.

Theorem C06_no_unregistered_rows_proof : C06_no_unregistered_rows_stmt.
Proof.
  intros cfg ops k id o Hg Hnu s Hc.
  destruct (inv_X _ _ _ _ (reachable_Inv_f cfg MNU ops (gopf_MNU ops Hg Hnu)) k id o Hc) as (A & B).
  split; [exact A|exact (B eq_refl)].
Qed.

Theorem C06_coherent_after_failure_proof : C06_coherent_after_failure_stmt.
Proof.
  intros cfg ops op e s' o Hg Hr Hgo Hro Hstep Hh Hc Hcv.
  assert (Hops : forallb (gopf MCO) (ops ++ [op]) = true).
  { apply gopf_MCO; rewrite forallb_app; cbn; [rewrite Hg, Hgo|rewrite Hr, Hro]; reflexivity. }
  pose proof (reachable_Inv_f cfg MCO (ops ++ [op]) Hops) as H.
  unfold run in H. rewrite fold_left_app in H. cbn [fold_left] in H. fold (run cfg ops) in H. rewrite Hstep in H. cbn [snd] in H.
  destruct (inv_L _ _ _ _ H o (held_live [] s' o Hh)) as (_ & (_ & _ & B3) & _).
  destruct (B3 eq_refl) as (_ & S). exact (S Hc Hcv).
Qed.

(* without the no-unpickle side condition C06_no_unregistered_rows is false: a pickle outlives its row *)
Lemma C06_no_unregistered_rows_needs_no_unpickle :
  let cfgT := {| doCache := true; cullFreq := 100; cullFrac := 2 |} in
  let ops := [OCreate Eager [(1%nat, VInt 1)]; OPickle 0; ODestroy 0; OUnpickle 0] in
  forallb guard04f ops = true /\
  In (1, 1%nat) (c_strong (cch (run cfgT ops) Eager)) /\ i_obsolete (get_inst (run cfgT ops) 1) = false /\
  assoc 1 (t_rows (tbl (run cfgT ops) Eager)) = None.
Proof. vm_compute. repeat split; auto. Qed.

(* ------------------------------------------------------------------ non-vacuity: faults at different statement indices *)
Definition cfgX : config := {| doCache := true; cullFreq := 2; cullFrac := 1 |}.
Definition histf : list op :=
  [OCreate Eager [(1%nat, VInt 100); (0%nat, VInt 1)];          (* row 1, slot 0 *)
   OFault 0 (OCreate Eager [(1%nat, VInt 101)]);                (* the INSERT fails: nothing stored, empty slot 1 *)
   OFault 1 (OCreate Eager [(1%nat, VInt 102)]);                (* the re-read fails: row 2 stored, instance registered, empty slot 2 *)
   OFault 0 (OSetAttr 0 0 (VInt 7));                            (* the UPDATE fails: nothing changes *)
   OCreate Lazy [(1%nat, VInt 200)];                            (* lazy row 1, slot 3 *)
   OSetAttr 3 0 (VInt 5);
   OFault 0 (OSync 3);                                          (* the flush fails: the value stays pending *)
   OFault 1 (OSync 3);                                          (* the flush succeeds, the reload fails *)
   OFault 0 (OSelect Eager None (Some 0%nat));                  (* the SELECT fails: empty slot 4 *)
   OCull Eager;
   OFault 0 (OGet Eager 1);                                     (* a cache hit issues no statement: slot 5 *)
   OFault 0 (OGet Eager 2);                                     (* a miss: the SELECT fails, empty slot 6 *)
   OFault 1 (OGet Eager 2);                                     (* a miss: no second statement, slot 7 *)
   OFault 0 (ODestroy 3)].                                      (* the DELETE fails *)

Example histf_guarded : forallb guard05f histf = true /\ forallb read_ok_f histf = true /\ forallb no_unpickle_f histf = true.
Proof. vm_compute. auto. Qed.

Example histf_results :
  map (fun r => match r with Ret _ => true | Raise _ => false end)
      (snd (fold_left (fun acc o => (snd (step cfgX (fst acc) o), snd acc ++ [fst (step cfgX (fst acc) o)])) histf (init, [])))
  = [true; false; false; false; true; true; false; false; false; true; true; false; true; false].
Proof. vm_compute. reflexivity. Qed.

Example histf_state :
  let s := run cfgX histf in
  slots s = [Some 0%nat; None; None; Some 2%nat; None; Some 0%nat; None; Some 4%nat] /\
  t_rows (tbl s Eager) = [(1, [VInt 1; VInt 100; VInt 0]); (2, [VNull; VInt 102; VInt 0])] /\
  t_rows (tbl s Lazy) = [(1, [VInt 5; VInt 200; VInt 0])] /\
  i_vals (get_inst s 0) = [Some (VInt 1); Some (VInt 100); Some (VInt 0)] /\
  i_vals (get_inst s 2) = [Some (VInt 5); Some (VInt 200); Some (VInt 0)] /\ i_pending (get_inst s 2) = [].
Proof. vm_compute. repeat split; reflexivity. Qed.

(* after all that: get and select still hand back the held objects *)
Example histf_get : fst (step cfgX (run cfgX histf) (OGet Eager 1)) = Ret (RObj 1 (Some 0%nat)).
Proof. vm_compute. reflexivity. Qed.
Example histf_select :
  fst (step cfgX (run cfgX histf) (OSelect Eager None None)) = Ret (RObjs [(1, Some 0%nat); (2, Some 7%nat)]).
Proof. vm_compute. reflexivity. Qed.

Print Assumptions C04_unique_faults_proof.
Print Assumptions C04_get_returns_held_faults_proof.
Print Assumptions C04_select_returns_held_faults_proof.
Print Assumptions C04_cached_is_current_faults_proof.
Print Assumptions C05_coherent_faults_proof.
Print Assumptions C06_no_unregistered_rows_proof.
Print Assumptions C06_coherent_after_failure_proof.
