(* C01, text: the quoted literal of a string is lexed back by sqlite to exactly
   that string, and a statement is refused exactly for NUL / lone surrogates. *)
From Coq Require Import List NArith ZArith Bool Lia.
From Lib Require Import Str Lex ColumnsTpl.
From Gen Require Import Columns.
From Model Require Import Columns.
Import ListNotations.
Open Scope N_scope.

Lemma existsb_app_ {A} (p : A -> bool) a b : existsb p (a ++ b) = existsb p a || existsb p b.
Proof. induction a as [|x a IH]; [reflexivity|]. cbn [app existsb]. now rewrite IH, orb_assoc. Qed.

Lemma contains_app_ c a b : contains c (a ++ b) = contains c a || contains c b.
Proof. apply existsb_app_. Qed.

Definition esc_q (c : ch) : str := if c =? c_q then [c_q; c_q] else [c].
Lemma sq_quote_eq s : sq_quote s = c_q :: flat_map esc_q s ++ [c_q].
Proof. reflexivity. Qed.

Lemma existsb_esc p s : p c_q = false -> existsb p (flat_map esc_q s) = existsb p s.
Proof.
  intros Hq. induction s as [|x s IH]; [reflexivity|].
  cbn [flat_map]. rewrite existsb_app_, IH. cbn [existsb]. f_equal.
  unfold esc_q. destruct (N.eqb_spec x c_q) as [->|Hx].
  - cbn [existsb]. now rewrite Hq.
  - cbn [existsb]. now rewrite orb_false_r.
Qed.

Lemma existsb_quote p s : p c_q = false -> existsb p (sq_quote s) = existsb p s.
Proof.
  intros Hq. rewrite sq_quote_eq. cbn [existsb]. rewrite Hq, existsb_app_, existsb_esc by assumption.
  cbn [existsb]. now rewrite Hq, !orb_false_r.
Qed.

(* the body of an ANSI literal *)
Lemma ansi_body_esc : forall s, ansi_body (flat_map esc_q s ++ [c_q]) = Some (s, []).
Proof.
  induction s as [|c s IH].
  - reflexivity.
  - cbn [flat_map]. unfold esc_q at 1. destruct (c =? c_q) eqn:E.
    + apply N.eqb_eq in E. subst c. cbn [app]. change (ansi_body (c_q :: c_q :: flat_map esc_q s ++ [c_q]))
        with (consr c_q (ansi_body (flat_map esc_q s ++ [c_q]))). now rewrite IH.
    + cbn [app ansi_body]. rewrite E. now rewrite IH.
Qed.

Lemma lex_quote s : lex_ansi (sq_quote s) = Some (s, []).
Proof. rewrite sq_quote_eq. cbn [lex_ansi]. rewrite N.eqb_refl. apply ansi_body_esc. Qed.

Lemma quote_not_null s : str_eqb (sq_quote s) s_NULL = false.
Proof. reflexivity. Qed.

(* what sqlite does with the literal of a string *)
Lemma store_quoted C a s :
  sqlite_store C a (sq_quote s) =
  if text_ok s then apply_affinity C a (SText s)
  else if contains c_nul s then Raise E_Programming else Raise E_UnicodeEncode.
Proof.
  unfold sqlite_store, text_ok, contains.
  rewrite (existsb_quote (N.eqb c_nul)) by reflexivity.
  rewrite (existsb_quote is_surrogate) by reflexivity.
  change (@existsb ch) with (@existsb N).
  destruct (@existsb N (N.eqb c_nul) s); [reflexivity|].
  destruct (@existsb N is_surrogate s); [reflexivity|].
  cbn [negb andb]. rewrite quote_not_null.
  rewrite lex_quote. rewrite sq_quote_eq. cbv beta iota. now rewrite N.eqb_refl.
Qed.

(* a text without quotes is its own escaped form *)
Lemma esc_no_quote s : contains c_q s = false -> flat_map esc_q s = s.
Proof.
  induction s as [|c s IH]; [reflexivity|].
  unfold contains. cbn [existsb flat_map]. intros H. apply orb_false_iff in H. destruct H as [Hc Hs].
  unfold esc_q at 1. rewrite N.eqb_sym in Hc. rewrite Hc. cbn [app]. f_equal. now apply IH.
Qed.
Lemma quote_plain s : contains c_q s = false -> sq_quote s = c_q :: s ++ [c_q].
Proof. intros H. rewrite sq_quote_eq. now rewrite esc_no_quote. Qed.
