(* C17, the matcher side: a LIKE pattern made of the escaped argument between
   `%` signs matches exactly the texts that start with / end with / contain
   the argument taken literally (for every character comparison eqc). *)
From Coq Require Import List NArith Bool Lia ZifyBool.
From Lib Require Import Str Lex.
From Model Require Import Lit Like.
Import ListNotations.
Open Scope N_scope.

Section Matcher.
  Variable eqc : ch -> ch -> bool.
  Notation lm := (like_match eqc (Some 92)).

  (* s consumed literally from the front of t *)
  Fixpoint strip (s t : str) : option str :=
    match s, t with
    | [], _ => Some t
    | c :: s', x :: t' => if eqc c x then strip s' t' else None
    | _ :: _, [] => None
    end.

  Lemma lm_esc c p t : lm (92 :: c :: p) t = match t with x :: t' => eqc c x && lm p t' | [] => false end.
  Proof. reflexivity. Qed.

  Lemma lm_plain c p t : (c =? 92) = false -> (c =? 37) = false -> (c =? 95) = false ->
    lm (c :: p) t = match t with x :: t' => eqc c x && lm p t' | [] => false end.
  Proof.
    intros H1 H2 H3. cbn [like_match is_esc]. change c_pct with 37. change c_us with 95.
    now rewrite H1, H2, H3.
  Qed.

  Lemma lm_pct p t : lm (37 :: p) t = lm p t || match t with [] => false | _ :: t' => lm (37 :: p) t' end.
  Proof. destruct t; reflexivity. Qed.

  Lemma lm_nil t : lm [] t = match t with [] => true | _ :: _ => false end.
  Proof. reflexivity. Qed.

  Lemma lm_literal : forall s p t,
    lm (like_escape s ++ p) t = match strip s t with Some t' => lm p t' | None => false end.
  Proof.
    induction s as [|c s IH]; intros p t; [reflexivity|].
    unfold like_escape. cbn [flat_map]. fold (like_escape s). unfold like_escape_char.
    change c_bsl with 92. change c_pct with 37. change c_us with 95.
    destruct ((c =? 92) || (c =? 37) || (c =? 95)) eqn:E.
    - cbn [app]. rewrite lm_esc. destruct t as [|x t']; [reflexivity|].
      cbn [strip]. destruct (eqc c x); [cbn [andb]; apply IH|reflexivity].
    - apply orb_false_iff in E. destruct E as [E E3]. apply orb_false_iff in E. destruct E as [E1 E2].
      cbn [app]. rewrite lm_plain by assumption. destruct t as [|x t']; [reflexivity|].
      cbn [strip]. destruct (eqc c x); [cbn [andb]; apply IH|reflexivity].
  Qed.

  Lemma lm_any t : lm [37] t = true.
  Proof. induction t as [|x t IH]; [reflexivity|]. rewrite lm_pct, lm_nil. exact IH. Qed.

  Lemma strip_prefix : forall s t, prefix_eqc eqc s t = match strip s t with Some _ => true | None => false end.
  Proof.
    induction s as [|c s IH]; intros t; [reflexivity|]. destruct t as [|x t]; [reflexivity|].
    cbn [prefix_eqc strip]. destruct (eqc c x); [apply IH|reflexivity].
  Qed.

  Lemma strip_equal : forall s t,
    equal_eqc eqc s t = match strip s t with Some [] => true | _ => false end.
  Proof.
    induction s as [|c s IH]; intros t; [destruct t; reflexivity|]. destruct t as [|x t]; [reflexivity|].
    cbn [equal_eqc strip]. destruct (eqc c x); [apply IH|reflexivity].
  Qed.

  (* startswith: escaped argument followed by % *)
  Lemma like_startswith s t : lm (like_escape s ++ [37]) t = prefix_eqc eqc s t.
  Proof.
    rewrite lm_literal, strip_prefix. destruct (strip s t); [apply lm_any|reflexivity].
  Qed.

  Lemma like_exact s t : lm (like_escape s) t = equal_eqc eqc s t.
  Proof.
    rewrite <- (app_nil_r (like_escape s)), lm_literal, strip_equal.
    destruct (strip s t) as [[|x r]|]; reflexivity.
  Qed.

  (* endswith: % followed by the escaped argument *)
  Lemma like_endswith s : forall t, lm (37 :: like_escape s) t = suffix_eqc eqc s t.
  Proof.
    induction t as [|x t IH]; rewrite lm_pct, like_exact; cbn [suffix_eqc]; [reflexivity|].
    now rewrite IH.
  Qed.

  (* contains: % escaped argument % *)
  Lemma like_contains s : forall t, lm (37 :: like_escape s ++ [37]) t = infix_eqc eqc s t.
  Proof.
    induction t as [|x t IH]; rewrite lm_pct, like_startswith; cbn [infix_eqc]; [reflexivity|].
    now rewrite IH.
  Qed.

  Lemma like_literal k s t : lm (wanted_pattern k s) t = literal_pred eqc k s t.
  Proof.
    destruct k; unfold wanted_pattern, literal_pred; cbn [k_prefix k_postfix app].
    - apply like_startswith.
    - rewrite app_nil_r. apply like_endswith.
    - apply like_contains.
  Qed.
End Matcher.

(* ---------------------------------------------------------------- exact comparison: the usual meaning *)
Lemma prefix_spec : forall s t, prefix_eqc N.eqb s t = true <-> exists r, t = s ++ r.
Proof.
  induction s as [|c s IH]; intros t.
  - split; [intros _; now exists t|reflexivity].
  - destruct t as [|x t]; cbn [prefix_eqc].
    + split; [discriminate|]. intros [r Hr]. discriminate Hr.
    + rewrite andb_true_iff, IH, N.eqb_eq. split.
      * intros [-> [r ->]]. now exists r.
      * intros [r Hr]. cbn [app] in Hr. injection Hr as -> ->. split; [reflexivity|now exists r].
Qed.

Lemma equal_spec : forall s t, equal_eqc N.eqb s t = true <-> t = s.
Proof.
  induction s as [|c s IH]; intros [|x t]; cbn [equal_eqc]; try (split; [discriminate|congruence]).
  - split; reflexivity.
  - rewrite andb_true_iff, IH, N.eqb_eq. split; [intros [-> ->]; reflexivity|].
    intros H. injection H as -> ->. split; reflexivity.
Qed.

Lemma suffix_spec s : forall t, suffix_eqc N.eqb s t = true <-> exists l, t = l ++ s.
Proof.
  induction t as [|x t IH]; cbn [suffix_eqc]; rewrite orb_true_iff, equal_spec.
  - split.
    + intros [<-|H]; [now exists []|discriminate].
    + intros [l Hl]. left. destruct l; [exact Hl|discriminate].
  - rewrite IH. split.
    + intros [<-|[l ->]]; [now exists []|now exists (x :: l)].
    + intros [[|y l] Hl]; [left; exact Hl|]. right. injection Hl as -> ->. now exists l.
Qed.

Lemma infix_spec s : forall t, infix_eqc N.eqb s t = true <-> exists l r, t = l ++ s ++ r.
Proof.
  induction t as [|x t IH]; cbn [infix_eqc]; rewrite orb_true_iff, prefix_spec.
  - split.
    + intros [[r Hr]|H]; [now exists [], r|discriminate].
    + intros (l & r & H). left. destruct l; [now exists r|discriminate].
  - rewrite IH. split.
    + intros [[r Hr]|(l & r & ->)]; [now exists [], r|now exists (x :: l), r].
    + intros ([|y l] & r & H); [left; now exists r|]. right. injection H as -> ->. now exists l, r.
Qed.

(* ---------------------------------------------------------------- the T-SQL matcher without `[` is the plain one *)
Lemma like_escape_no_bracket s : contains 91 s = false -> contains 91 (like_escape s) = false.
Proof.
  induction s as [|c s IH]; [reflexivity|]. cbn [contains existsb]. intros H.
  apply orb_false_iff in H. destruct H as [Hc Hs].
  unfold like_escape. cbn [flat_map]. fold (like_escape s). unfold contains in *. rewrite existsb_app.
  apply orb_false_iff. split; [|exact (IH Hs)]. unfold like_escape_char.
  destruct ((c =? c_bsl) || (c =? c_pct) || (c =? c_us)); cbn [existsb]; rewrite Hc; reflexivity.
Qed.

Lemma tsql_plain eqc : forall f p t,
  contains 91 p = false -> (length p < f)%nat ->
  tsql_like_fuel f eqc (Some 92) p t = Some (like_match eqc (Some 92) p t).
Proof.
  induction f as [|f IH]; intros p t Hp Hf; [lia|].
  destruct p as [|c p]; [destruct t; reflexivity|].
  cbn [contains existsb] in Hp. apply orb_false_iff in Hp. destruct Hp as [Hc Hp].
  cbn [length] in Hf. cbn [tsql_like_fuel like_match is_esc].
  destruct (c =? 92) eqn:E92.
  - destruct p as [|c2 p2]; [reflexivity|]. destruct t as [|x t']; [reflexivity|].
    cbn [contains existsb] in Hp. apply orb_false_iff in Hp. destruct Hp as [_ Hp2].
    cbn [length] in Hf. rewrite IH by (try assumption; lia). destruct (eqc c2 x); reflexivity.
  - destruct (c =? c_pct) eqn:E37.
    + induction t as [|x t' IHt].
      * rewrite IH by (try assumption; lia). destruct (like_match eqc (Some 92) p []); reflexivity.
      * rewrite IH by (try assumption; lia).
        destruct (like_match eqc (Some 92) p (x :: t')); [reflexivity|]. cbn [orb]. exact IHt.
    + destruct (c =? c_us) eqn:E95.
      * destruct t as [|x t']; [reflexivity|]. apply IH; [assumption|lia].
      * assert ((c =? c_lbr) = false) as -> by (unfold c_lbr; lia).
        destruct t as [|x t']; [reflexivity|]. rewrite IH by (try assumption; lia).
        destruct (eqc c x); reflexivity.
Qed.
