(* Characterisation of Gen/Ddl.v (templates and tables re-extracted from the
   SQLObject source on every run) against the hand-written model: each
   template, with its holes filled, is the token list the model renders.
   A change of the source changes Gen/Ddl.v and breaks the matching lemma. *)
From Coq Require Import List ZArith NArith Bool String Ascii.
From Lib Require Import DdlTpl.
From Gen Require Ddl.
From Model Require Import Ddl.
Import ListNotations.
Open Scope string_scope.
Open Scope list_scope.
Open Scope N_scope.

Module G := Gen.Ddl.

(* ---------- filling holes *)
Inductive hval := HW (s : str) | HT (l : list tok).
Definition henv := list (string * hval).

Fixpoint hlookup (e : henv) (n : str) : option hval :=
  match e with
  | [] => None
  | (k, v) :: r => if str_eqb (s2l k) n then Some v else hlookup r n
  end.

Fixpoint fill_word (e : henv) (ps : list part) : option str :=
  match ps with
  | [] => Some []
  | PC s :: r => match fill_word e r with Some x => Some (s ++ x) | None => None end
  | PH n :: r => match hlookup e n, fill_word e r with
                 | Some (HW s), Some x => Some (s ++ x)
                 | _, _ => None
                 end
  end.

Fixpoint fill (e : henv) (t : list ttok) : option (list tok) :=
  match t with
  | [] => Some []
  | x :: r =>
      match fill e r with
      | None => None
      | Some rest =>
          match x with
          | TW ps => match fill_word e ps with Some w => Some (W w :: rest) | None => None end
          | TH n => match hlookup e n with
                    | Some (HW s) => Some (W s :: rest)
                    | Some (HT l) => Some (l ++ rest)
                    | None => None
                    end
          | TLP => Some (LP :: rest)
          | TRP => Some (RP :: rest)
          | TComma => Some (Comma :: rest)
          | TSemi => Some (Semi :: rest)
          | TSym c => Some (Sym c :: rest)
          end
      end
  end.

Definition fill_res (e : henv) (r : tres) : option (list tok) :=
  match r with TOk t => fill e t | TRaise _ => None end.

Definition toks_eqb (a b : list tok) : bool :=
  (fix go a b := match a, b with
                 | [], [] => true
                 | x :: a', y :: b' => tok_eqb x y && go a' b'
                 | _, _ => false
                 end) a b.
Definition otoks_eqb (a b : option (list tok)) : bool :=
  match a, b with Some x, Some y => toks_eqb x y | None, None => true | _, _ => false end.

(* ---------- codes of the generated file -> model *)
Definition dialect_of (d : G.dialect_code) : dialect :=
  match d with
  | G.DSqlite => Sqlite | G.DMysql => Mysql | G.DPostgres => Postgres | G.DFirebird => Firebird
  | G.DMssql => Mssql | G.DSybase => Sybase | G.DMaxdb => Maxdb
  end.
Definition cascade_of (c : G.cascade_code) : cascade :=
  match c with G.CNone => CNone | G.CTrue => CTrue | G.CFalse => CFalse | G.CNull => CNull end.
Definition idtype_of (t : G.idtype_code) : idtype := match t with G.IdInt => IdInt | G.IdStr => IdStr end.
Definition idsize_of (s : G.idsize_code) : idsize :=
  match s with G.SzNone => SzNone | G.SzTiny => SzTiny | G.SzSmall => SzSmall | G.SzMedium => SzMedium | G.SzBig => SzBig end.

(* ---------- sample data for the holes (distinct, so that a swapped hole shows) *)
Definition st0 := {| st_kind := StPlain; st_longid := false |}.
Definition caps0 := {| mysql_micro := false; mssql_micro := false; mssql_max := false |}.
Definition tgt0 := {| fk_table := s2l "TNAME"; fk_idname := s2l "IDNAME"; fk_idtype := IdInt |}.
Definition defsql0 := [W (s2l "DEFSQL")].

Definition col0 (k : kind) (nn : bool) (u : option bool) (a : bool) (ds : option (list tok)) : coldecl :=
  {| c_name := s2l "COL"; c_dbname := Some (s2l "DBNAME"); c_kind := k; c_notnone := nn; c_unique := u;
     c_altid := a; c_default := false; c_defsql := ds |}.

(* ---------- 1. _extraSQL *)
Definition extra_row_ok (row : (bool * bool * bool * bool) * tres) : bool :=
  let '((nn, un, alt, hasdef), r) := row in
  otoks_eqb (fill_res [("defaultSQL", HT defsql0)] r)
            (Some (extra_sql (col0 KBool nn (Some un) alt (if hasdef then Some defsql0 else None)))).
Definition gen_extra_match : bool :=
  forallb extra_row_ok G.extra_sql_table && Nat.eqb (List.length G.extra_sql_table) 16.

(* ---------- 2. foreign keys *)
Definition fkcol (cs : cascade) := col0 (KFk tgt0 cs None) true (Some true) false (Some defsql0).
Definition fk_env (d : dialect) (cs : cascade) : henv :=
  [("base", HT (W (s2l "DBNAME") :: key_type d IdInt ++ extra_sql (fkcol cs)));
   ("dbName", HW (s2l "DBNAME")); ("tName", HW (s2l "TNAME")); ("idName", HW (s2l "IDNAME"));
   ("sTName", HW (s2l "sch.STNAME")); ("sTLocalName", HW (s2l "STNAME"));
   ("type", HT (key_type d IdInt))].

Definition fk_inline_ok (d : dialect) (tbl : list (G.cascade_code * tres)) : bool :=
  forallb (fun row => let cs := cascade_of (fst row) in
                      otoks_eqb (fill_res (fk_env d cs) (snd row))
                                (match col_segs d caps0 st0 (fkcol cs) with
                                 | Some segs => Some (sep_by [Comma] segs) | None => None end)) tbl
  && Nat.eqb (List.length tbl) 4.
Definition fk_alter_ok (d : dialect) (tbl : list (G.cascade_code * tres)) : bool :=
  forallb (fun row => let cs := cascade_of (fst row) in
                      otoks_eqb (fill_res (fk_env d cs) (snd row))
                                (fk_constraint d (s2l "sch.STNAME") st0 (fkcol cs))) tbl
  && Nat.eqb (List.length tbl) 4.
(* maxdb drops _extraSQL: compare with the model's two segments *)
Definition gen_fk_match : bool :=
  fk_inline_ok Sqlite G.fk_sqlite && fk_alter_ok Postgres G.fk_postgres && fk_alter_ok Mysql G.fk_mysql
  && fk_inline_ok Sybase G.fk_sybase && fk_inline_ok Mssql G.fk_mssql && fk_inline_ok Maxdb G.fk_maxdb.

(* ---------- 3. id columns *)
Definition gen_idcol_match : bool :=
  forallb (fun row => let '((d, t, s), r) := row in
                      otoks_eqb (fill_res [("idName", HW (s2l "IDN"))] r)
                                (Some (id_col (dialect_of d) (s2l "IDN") (idtype_of t) (idsize_of s))))
          G.id_col_table
  && Nat.eqb (List.length G.id_col_table) 70.

(* ---------- 4. which column / index method each connection calls; link table column type *)
Definition expected_dispatch : list (G.dialect_code * (string * string * string)) :=
  [(G.DSqlite, ("sqliteCreateSQL", "", "sqliteCreateIndexSQL"));
   (G.DMysql, ("mysqlCreateSQL", "mysqlCreateReferenceConstraint", "mysqlCreateIndexSQL"));
   (G.DPostgres, ("postgresCreateSQL", "postgresCreateReferenceConstraint", "postgresCreateIndexSQL"));
   (G.DFirebird, ("firebirdCreateSQL", "", "firebirdCreateIndexSQL"));
   (G.DMssql, ("mssqlCreateSQL", "mssqlCreateReferenceConstraint", "mssqlCreateIndexSQL"));
   (G.DSybase, ("sybaseCreateSQL", "", "sybaseCreateIndexSQL"));
   (G.DMaxdb, ("maxdbCreateSQL", "maxdbCreateReferenceConstraint", "maxdbCreateIndexSQL"))].
Definition dcode_eqb (a b : G.dialect_code) : bool := dialect_eqb (dialect_of a) (dialect_of b).
Definition gen_dispatch_match : bool :=
  (fix go (g : list (G.dialect_code * (list N * list N * list N) * tres))
          (e : list (G.dialect_code * (string * string * string))) : bool :=
     match g, e with
     | [], [] => true
     | (d, (a, b, c), r) :: g', (d', (a', b', c')) :: e' =>
         dcode_eqb d d' && str_eqb a (s2l a') && str_eqb b (s2l b') && str_eqb c (s2l c')
         && otoks_eqb (fill_res [] r) (Some (join_type (dialect_of d))) && go g' e'
     | _, _ => false
     end) G.dispatch_table expected_dispatch.

(* ---------- 5. assembly *)
Definition seg_id := [W (s2l "IDCOL"); W (s2l "T1")].
Definition seg_c0 := [W (s2l "C0"); W (s2l "T2"); LP; W (s2l "9"); RP].
Definition seg_c1 := [W (s2l "C1"); W (s2l "T3")].
Definition gen_assembly_match : bool :=
  otoks_eqb (fill_res [("id", HT seg_id); ("c0", HT seg_c0); ("c1", HT seg_c1)] G.create_columns_2)
            (Some (sep_by [Comma] [seg_id; seg_c0; seg_c1]))
  && otoks_eqb (fill_res [("table", HW (s2l "TBL")); ("columns", HT (sep_by [Comma] [seg_id; seg_c0]))] G.create_table_tpl)
               (Some (kw "CREATE" :: kw "TABLE" :: W (s2l "TBL") :: paren (sep_by [Comma] [seg_id; seg_c0])))
  && otoks_eqb (fill_res [("inter", HW (s2l "INTER")); ("joinColumn", HW (s2l "JC")); ("otherColumn", HW (s2l "OC"));
                          ("type", HT (join_type Sqlite))] G.join_table_tpl)
               (Some (join_table_stmt Sqlite
                        {| d_class := s2l "A"; d_table := Some (s2l "TA"); d_idname := None; d_idtype := IdInt;
                           d_idsize := SzNone; d_style := st0; d_cols := []; d_indexes := []; d_joins := [] |}
                        {| j_kind := JRelated; j_other_class := s2l "B"; j_other_table := s2l "TB";
                           j_inter := Some (s2l "INTER"); j_joincol := Some (s2l "JC"); j_othercol := Some (s2l "OC"); j_other_creates := [];
                           j_create := true |}))
  (* every column renderer: name, type, _extraSQL -- firebird enum: name, type, _extraSQL, CHECK *)
  && forallb (fun row => let '((d, is_enum), r) := row in
                         otoks_eqb (fill_res [("dbName", HW (s2l "DB")); ("type", HT [W (s2l "TY")]);
                                              ("type0", HT [W (s2l "TY0")]); ("type1", HT [W (s2l "TY1")]);
                                              ("extra", HT [W (s2l "EX")])] r)
                                   (Some (if is_enum : bool
                                          then [W (s2l "DB"); W (s2l "TY0"); W (s2l "EX"); W (s2l "TY1")]
                                          else [W (s2l "DB"); W (s2l "TY"); W (s2l "EX")])))
             G.col_sql_table
  && Nat.eqb (List.length G.col_sql_table) 8.

(* ---------- 6. indexes *)
Definition ixdecl (u : bool) : decl :=
  {| d_class := s2l "A"; d_table := Some (s2l "TBL"); d_idname := None; d_idtype := IdInt; d_idsize := SzNone;
     d_style := st0;
     d_cols := [{| c_name := s2l "p0"; c_dbname := Some (s2l "C0"); c_kind := KBool; c_notnone := false;
                   c_unique := None; c_altid := false; c_default := false; c_defsql := None |};
                {| c_name := s2l "p1"; c_dbname := Some (s2l "C1"); c_kind := KBool; c_notnone := false;
                   c_unique := None; c_altid := false; c_default := false; c_defsql := None |}];
     d_indexes := [{| i_name := s2l "IXN"; i_cols := [(s2l "p0", None); (s2l "p1", Some 10%Z)]; i_unique := u |}];
     d_joins := [] |}.
Definition ix_env : henv := [("table", HW (s2l "TBL")); ("name", HW (s2l "IXN")); ("c0", HW (s2l "C0")); ("c1", HW (s2l "C1"))].
Definition gen_index_match : bool :=
  forallb (fun row => let '((m, u), r) := row in
                      let d := if str_eqb m (s2l "mysqlCreateIndexSQL") then Mysql else Sqlite in
                      otoks_eqb (fill_res ix_env r)
                                (match d_indexes (ixdecl u) with ix :: _ => index_stmt d (ixdecl u) ix | [] => None end))
          G.index_table
  && Nat.eqb (List.length G.index_table) 4
  && forallb (fun p => str_eqb (snd p) (s2l "sqliteCreateIndexSQL")) G.index_aliases
  && Nat.eqb (List.length G.index_aliases) 5.

(* ---------- 7. the ownership rule of link tables *)
Definition rule_decl (cls : string) (joins : list joindecl) : decl :=
  {| d_class := s2l cls; d_table := Some (s2l cls); d_idname := None; d_idtype := IdInt; d_idsize := SzNone;
     d_style := st0; d_cols := []; d_indexes := []; d_joins := joins |}.
Definition rule_join (inter create : bool) (other : string) (tbl : string) (oc : list str) : joindecl :=
  {| j_kind := if inter then JRelated else JMultiple; j_other_class := s2l other; j_other_table := s2l other;
     j_inter := Some (s2l tbl); j_joincol := None; j_othercol := None; j_create := create; j_other_creates := oc |}.
Definition gen_joins_rule_match : bool :=
  forallb (fun row => let '((inter, create, rel, osc), res) := row in
                      let '(a, b) := match rel with Lt => ("A", "B") | Eq => ("A", "A") | Gt => ("B", "A") end in
                      Bool.eqb res
                        (creates_link (rule_decl a [])
                           (rule_join inter create b "T1" (if osc : bool then [s2l "T1"] else [s2l "T2"]))))
          G.joins_rule_table
  && Nat.eqb (List.length G.joins_rule_table) 24
  (* _otherSideCreates = membership of the intermediate table among the other class's creating RelatedJoins *)
  && forallb (fun row => let '((inter, create, same), res) := row in
                         Bool.eqb res
                           (mem_str (s2l "T1")
                              (other_creates (rule_decl "B" [rule_join inter create "A" (if same : bool then "T1" else "T2") []]))))
             G.other_side_table
  && Nat.eqb (List.length G.other_side_table) 8.

(* ---------- 8. constant type names *)
Definition expected_const_types : list (string * string * list tok) :=
  [("SOBoolCol", "_postgresType", bool_type Postgres); ("SOBoolCol", "_mysqlType", bool_type Mysql);
   ("SOBoolCol", "_sybaseType", bool_type Sybase); ("SOBoolCol", "_mssqlType", bool_type Mssql);
   ("SOBoolCol", "_firebirdType", bool_type Firebird); ("SOBoolCol", "_maxdbType", bool_type Maxdb);
   ("SOBoolCol", "_sqliteType", bool_type Sqlite);
   ("SOFloatCol", "_sqlType", float_type Sqlite); ("SOFloatCol", "_mysqlType", float_type Mysql);
   ("SODateTimeCol", "_postgresType", datetime_type Postgres caps0); ("SODateTimeCol", "_sybaseType", datetime_type Sybase caps0);
   ("SODateTimeCol", "_sqliteType", datetime_type Sqlite caps0); ("SODateTimeCol", "_firebirdType", datetime_type Firebird caps0);
   ("SODateTimeCol", "_maxdbType", datetime_type Maxdb caps0);
   ("SODateCol", "_mysqlType", date_type Mysql); ("SODateCol", "_postgresType", date_type Postgres);
   ("SODateCol", "_mssqlType", date_type Mssql); ("SODateCol", "_firebirdType", date_type Firebird);
   ("SODateCol", "_maxdbType", date_type Maxdb); ("SODateCol", "_sqliteType", date_type Sqlite);
   ("SOTimeCol", "_postgresType", time_type Postgres caps0); ("SOTimeCol", "_sybaseType", time_type Sybase caps0);
   ("SOTimeCol", "_sqliteType", time_type Sqlite caps0); ("SOTimeCol", "_firebirdType", time_type Firebird caps0);
   ("SOTimeCol", "_maxdbType", time_type Maxdb caps0);
   ("SOBLOBCol", "_postgresType", blob_type Postgres caps0 None);
   ("SOUuidCol", "_sqlType", uuid_type Sqlite); ("SOUuidCol", "_postgresType", uuid_type Postgres)].
Definition gen_const_types_match : bool :=
  (fix go (g : list (list N * list N * list ttok)) (e : list (string * string * list tok)) : bool :=
     match g, e with
     | [], [] => true
     | (c, m, t) :: g', (c', m', t') :: e' =>
         str_eqb c (s2l c') && str_eqb m (s2l m') && otoks_eqb (fill [] t) (Some t') && go g' e'
     | _, _ => false
     end) G.const_types expected_const_types.

(* ---------- 9. enum: shape of the type and the converter that renders the values *)
Definition dname (d : dialect) : string :=
  match d with Sqlite => "sqlite" | Mysql => "mysql" | Postgres => "postgres" | Firebird => "firebird"
          | Mssql => "mssql" | Sybase => "sybase" | Maxdb => "maxdb" end.
Definition enum_env (d : dialect) (n : Z) : henv :=
  let nm := dname d in
  [(String.append "a@" nm, HT (lit_toks d (Some (s2l "a")))); (String.append "b@" nm, HT (lit_toks d (Some (s2l "b"))));
   (String.append "NULL@" nm, HT (lit_toks d None)); ("length", HT (int_toks n)); ("dbName", HW (s2l "DBNAME"))].
Definition enum_vals (with_none : bool) : list (option str) :=
  if with_none then [Some (s2l "a"); None] else [Some (s2l "a"); Some (s2l "b")].
Definition check_dialects := [Postgres; Sqlite; Sybase; Mssql].
(* the type part of the model's column: what stands between the name and _extraSQL (and after it, for firebird) *)
Definition enum_type_ok (row : (list N * bool) * tres) : bool :=
  let '((m, wn), r) := row in
  let vs := enum_vals wn in
  if str_eqb m (s2l "_mysqlType") then
    otoks_eqb (fill_res (enum_env Mysql 1) r)
              (Some ((kw "ENUM" :: paren (enum_list Mysql (not_none_vals vs))) ++ (if has_none vs then [] else kws ["NOT"; "NULL"])))
  else if str_eqb m (s2l "_firebirdType") then
    otoks_eqb (fill_res (enum_env Firebird 1) r)
              (Some (ty_n "VARCHAR" 1 ++ [Semi] ++ enum_check Firebird (s2l "DBNAME") vs))
  else (* _<d>Type = _checkType('<d>'): the dialect's own name *)
    existsb (fun d => str_eqb m (s2l (String.append "_" (String.append (dname d) "Type")))
                      && otoks_eqb (fill_res [(String.append "check@" (dname d), HT [W (s2l "CHK")])] r) (Some [W (s2l "CHK")]))
            check_dialects.
Definition enum_check_ok (row : (list N * bool) * tres) : bool :=
  let '((db, wn), r) := row in
  existsb (fun d => str_eqb db (s2l (dname d))
                    && otoks_eqb (fill_res (enum_env d 1) r) (Some (ty_n "VARCHAR" 1 ++ enum_check d (s2l "DBNAME") (enum_vals wn))))
          check_dialects.
Definition gen_enum_match : bool :=
  forallb enum_type_ok G.enum_type_table && Nat.eqb (List.length G.enum_type_table) 12
  && forallb enum_check_ok G.enum_check_table && Nat.eqb (List.length G.enum_check_table) 8
  && match G.enum_maxdb with TRaise e => str_eqb e (s2l "TypeError") | TOk _ => false end
  (* and the model agrees: one enum column on maxdb raises *)
  && match col_segs Maxdb caps0 st0 (col0 (KEnum (enum_vals false)) false None false None) with None => true | Some _ => false end.

(* ---------- the lemmas *)
Lemma gen_extra_ok : gen_extra_match = true. Proof. vm_compute. reflexivity. Qed.
Lemma gen_fk_ok : gen_fk_match = true. Proof. vm_compute. reflexivity. Qed.
Lemma gen_idcol_ok : gen_idcol_match = true. Proof. vm_compute. reflexivity. Qed.
Lemma gen_dispatch_ok : gen_dispatch_match = true. Proof. vm_compute. reflexivity. Qed.
Lemma gen_assembly_ok : gen_assembly_match = true. Proof. vm_compute. reflexivity. Qed.
Lemma gen_index_ok : gen_index_match = true. Proof. vm_compute. reflexivity. Qed.
Lemma gen_joins_rule_ok : gen_joins_rule_match = true. Proof. vm_compute. reflexivity. Qed.
Lemma gen_const_types_ok : gen_const_types_match = true. Proof. vm_compute. reflexivity. Qed.
Lemma gen_enum_ok : gen_enum_match = true. Proof. vm_compute. reflexivity. Qed.

Definition gen_tables_match : bool :=
  gen_extra_match && gen_fk_match && gen_idcol_match && gen_dispatch_match && gen_assembly_match
  && gen_index_match && gen_joins_rule_match && gen_const_types_match && gen_enum_match.

Lemma gen_tables_ok : gen_tables_match = true.
Proof.
  unfold gen_tables_match.
  rewrite gen_extra_ok, gen_fk_ok, gen_idcol_ok, gen_dispatch_ok, gen_assembly_ok, gen_index_ok,
    gen_joins_rule_ok, gen_const_types_ok, gen_enum_ok. reflexivity.
Qed.
