(* C10: the window arithmetic + the dialect's LIMIT/OFFSET tail refine Python
   list slicing, for every list, every chain and every bound. *)
From Coq Require Import List ZArith Bool Lia ZifyBool.
From Lib Require Import PyLite.
From Gen Require Import Slice.
From Model Require Import Slice.
From Proofs Require Import SliceLists SliceChar.
Import ListNotations.
Open Scope Z_scope.

Section P.
Context {A : Type}.
Implicit Types l full : list A.

(* a well-formed window and what it denotes *)
Definition wfw (s : Z) (e : option Z) : Prop :=
  0 <= s /\ match e with Some e => s <= e | None => True end.

Definition den (s : Z) (e : option Z) full : list A :=
  match e with None => drop s full | Some e => take (e - s) (drop s full) end.

(* MySQL's "no upper bound" is 2^64-1 rows; tables longer than that are outside *)
Definition fits (d : dialect) full : Prop :=
  match d with Mysql => zlen full <= 18446744073709551615 | _ => True end.

Lemma run_select_den d full s e :
  wfw s e -> fits d full -> run_select d full (VInt s) (opt_pv e) = Good (den s e full).
Proof.
  intros [Hs He] Hfit. unfold run_select.
  rewrite select_has_window_char. cbn [lift obind].
  destruct e as [e|]; cbn [is_none negb orb den].
  - rewrite orb_true_r. rewrite limit_offset_char. cbn [lift obind clean_clause].
    destruct (s =? 0) eqn:Es.
    + assert (s = 0) by lia. subst s. rewrite Z.sub_0_r, (drop_nonpos 0) by lia.
      destruct d; cbn [run_clause].
      * destruct (e <? 0) eqn:E; [lia|reflexivity].
      * destruct (0 <=? e) eqn:E; [reflexivity|lia].
      * destruct (0 <=? e) eqn:E; [reflexivity|lia].
    + destruct d; cbn [run_clause].
      * rewrite Z.max_l by lia. destruct (e - s <? 0) eqn:E; [lia|reflexivity].
      * destruct ((0 <=? s) && (0 <=? e - s)) eqn:E; [reflexivity|lia].
      * destruct ((0 <=? e - s) && (0 <=? s)) eqn:E; [reflexivity|lia].
  - rewrite orb_false_r. destruct (s =? 0) eqn:Es; cbn [negb].
    + assert (s = 0) by lia. subst s. now rewrite drop_nonpos by lia.
    + rewrite limit_offset_char. cbn [lift obind clean_clause].
      destruct d; cbn [run_clause].
      * rewrite Z.max_l by lia. reflexivity.
      * destruct ((0 <=? s) && (0 <=? 18446744073709551615)) eqn:E; [|lia].
        rewrite take_all; [reflexivity|]. cbn [fits] in Hfit. rewrite zlen_drop. lia.
      * destruct (0 <=? s) eqn:E; [reflexivity|lia].
Qed.

(* slicing the denotation of a window with non-negative bounds = the new window *)
Lemma slice_den_nn s e a0 b full :
  wfw s e -> 0 <= a0 -> isneg b = false ->
  pyslice (Some a0) b (den s e full) =
    match clean_end s e b with
    | Some e2 => take (e2 - (s + a0)) (drop (s + a0) full)
    | None => drop (s + a0) full
    end.
Proof.
  intros [Hs He] Ha Hb. destruct b as [b0|]; cbn [isneg] in Hb; cbn [clean_end].
  - assert (0 <= b0) by lia. rewrite pyslice_nn by lia.
    destruct e as [e0|]; cbn [den].
    + rewrite drop_take by lia. rewrite drop_drop by lia. rewrite take_take.
      rewrite (Z.add_comm a0 s).
      destruct (e0 <? s + b0) eqn:E; apply take_ext; left; lia.
    + rewrite drop_drop by lia. rewrite (Z.add_comm a0 s). apply take_ext; left; lia.
  - rewrite pyslice_n_none by lia.
    destruct e as [e0|]; cbn [den].
    + rewrite drop_take by lia. rewrite drop_drop by lia. rewrite (Z.add_comm a0 s).
      apply take_ext; left; lia.
    + rewrite drop_drop by lia. now rewrite (Z.add_comm a0 s).
Qed.

Definition rep full (x : sel) (l : list A) : Prop :=
  match x with
  | SList l' => l' = l
  | SWin sv ev => exists s e, sv = VInt s /\ ev = opt_pv e /\ wfw s e /\ den s e full = l
  end.

Lemma pv_opt_opt_pv o : pv_opt (opt_pv o) = Ok o.
Proof. destruct o; reflexivity. Qed.

Lemma pyslice_falsy a b l : nz a = false -> pyslice a b l = pyslice None b l.
Proof.
  destruct a as [a|]; cbn [nz]; intros H; [|reflexivity].
  assert (a = 0) by lia. subst a. apply pyslice_0.
Qed.

Lemma step_slice_rep d full x l a b :
  fits d full -> rep full x l ->
  exists x', step_slice d full x (a, b) = Good x' /\ rep full x' (pyslice a b l).
Proof.
  intros Hfit Hrep. destruct x as [sv ev|l']; cbn [rep] in Hrep.
  2:{ subst l'. eexists. split; [reflexivity|]. reflexivity. }
  destruct Hrep as (s & e & -> & -> & Hwf & Hden).
  cbn [step_slice]. rewrite getitem_slice_char. unfold clean_slice.
  destruct (negb (nz a) && is_none b) eqn:Hself.
  { (* return self *)
    cbn [lift obind]. eexists. split; [reflexivity|].
    cbn [rep]. exists s, e. repeat split; try apply Hwf.
    destruct b; [cbn [is_none] in Hself; lia|].
    rewrite pyslice_falsy by (destruct (nz a); [discriminate|reflexivity]).
    now rewrite pyslice_none_none. }
  destruct ((nz a && isneg a) || (nz b && isneg b)) eqn:Hneg.
  { (* a negative bound: materialise, then slice the list *)
    destruct (nz a) eqn:Hnza.
    - destruct (is_none b) eqn:Hb; cbn [lift obind]; rewrite ?pv_opt_opt_pv; cbn [pv_opt lift obind];
        rewrite (run_select_den d full s e Hwf Hfit); cbn [obind]; eexists; (split; [reflexivity|]);
        cbn [rep]; rewrite Hden; [destruct b; [discriminate|reflexivity]|reflexivity].
    - cbn [lift obind]. rewrite ?pv_opt_opt_pv; cbn [pv_opt lift obind].
      rewrite (run_select_den d full s e Hwf Hfit); cbn [obind]; eexists; (split; [reflexivity|]).
      cbn [rep]. rewrite Hden. symmetry. now apply pyslice_falsy. }
  (* non-negative bounds: a new window *)
  set (a0 := if nz a then odefault a 0 else 0).
  assert (Ha0 : 0 <= a0).
  { subst a0. destruct a as [a|]; cbn [nz odefault isneg] in *; [|lia].
    destruct (negb (a =? 0)) eqn:E; [|lia]. cbn [andb] in Hneg. lia. }
  assert (Hb : isneg b = false).
  { destruct b as [b|]; cbn [nz isneg] in *; [|reflexivity].
    destruct (b <? 0) eqn:E; [|reflexivity]. exfalso.
    assert (negb (b =? 0) = true) by lia. rewrite H in Hneg. cbn in Hneg.
    rewrite orb_true_r in Hneg. discriminate. }
  assert (Hpy : pyslice a b l = pyslice (Some a0) b l).
  { subst a0. destruct (nz a) eqn:E.
    - destruct a; [reflexivity|discriminate].
    - rewrite pyslice_0. now apply pyslice_falsy. }
  rewrite Hpy, <- Hden, (slice_den_nn s e a0 b full Hwf Ha0 Hb).
  destruct Hwf as [Hs He].
  destruct (clean_end s e b) as [e2|] eqn:Hce.
  - destruct (e2 <? s + a0) eqn:E; cbn [lift obind]; eexists; (split; [reflexivity|]); cbn [rep].
    + exists e2, (Some e2). assert (0 <= e2).
      { destruct b as [b0|], e as [e0|]; cbn [clean_end isneg] in *;
          try (destruct (e0 <? s + b0) eqn:?); inversion Hce; subst; lia. }
      repeat split; try lia. cbn [den opt_pv]. rewrite !take_nonpos by lia. reflexivity.
    + exists (s + a0), (Some e2). repeat split; try lia.
  - cbn [lift obind]. eexists; (split; [reflexivity|]); cbn [rep].
    exists (s + a0), None. repeat split; try lia.
Qed.

(* ---- chains ---- *)
Lemma run_chain_rep d full chain : forall x l,
  fits d full -> rep full x l ->
  exists x', run_chain d full x chain = Good x' /\ rep full x' (spec_list l chain).
Proof.
  induction chain as [|[a b] rest IH]; intros x l Hfit Hrep; cbn [run_chain spec_list fold_left].
  - eexists; split; [reflexivity|exact Hrep].
  - destruct (step_slice_rep d full x l a b Hfit Hrep) as (x' & Hstep & Hrep').
    rewrite Hstep. cbn [obind]. cbn [fst snd]. apply (IH x' _ Hfit Hrep').
Qed.

Lemma rep_init full : rep full (SWin (VInt 0) VNone) full.
Proof. exists 0, None. repeat split; try lia. cbn [den]. now rewrite drop_nonpos by lia. Qed.

Lemma materialise_rep d full x l :
  fits d full -> rep full x l -> materialise d full x = Good l.
Proof.
  intros Hfit Hrep. destruct x as [sv ev|l']; cbn [rep materialise] in *.
  - destruct Hrep as (s & e & -> & -> & Hwf & Hden). now rewrite run_select_den, Hden.
  - now subst.
Qed.

Theorem chain_list d full chain :
  fits d full -> impl_list d full chain = Good (spec_list full chain).
Proof.
  intros Hfit. unfold impl_list.
  destruct (run_chain_rep d full chain _ _ Hfit (rep_init full)) as (x' & Hrun & Hrep).
  rewrite Hrun. cbn [obind]. now apply materialise_rep.
Qed.


(* ---- indexing ---- *)
Lemma pyindex_nn i l : 0 <= i ->
  pyindex i l = match drop i l with x :: _ => Ok x | [] => Err E_Index end.
Proof.
  intros Hi. unfold pyindex. destruct (i <? 0) eqn:E; [lia|].
  destruct ((i <? 0) || (zlen l <=? i)) eqn:E2; [|reflexivity].
  rewrite drop_all by lia. reflexivity.
Qed.

Lemma head_take n l : 1 <= n ->
  forall (R : Type) (f : A -> R) (g : R),
  match take n l with x :: _ => f x | [] => g end = match l with x :: _ => f x | [] => g end.
Proof.
  intros Hn R f g. destruct l as [|x l]; cbn [take]; [reflexivity|].
  destruct (n <=? 0) eqn:E; [lia|reflexivity].
Qed.

Lemma step_index_rep d full x l i :
  fits d full -> rep full x l -> step_index d full x i = lift (pyindex i l).
Proof.
  intros Hfit Hrep. destruct x as [sv ev|l']; cbn [rep step_index] in *; [|now subst].
  destruct Hrep as (s & e & -> & -> & Hwf & Hden).
  rewrite getitem_index_char. unfold clean_index.
  destruct (i <? 0) eqn:Ei; cbn [lift obind].
  { rewrite (run_select_den d full s e Hwf Hfit). cbn [obind]. now rewrite Hden. }
  assert (Hi : 0 <= i) by lia. destruct Hwf as [Hs He].
  assert (Hone : forall full', pyindex 0 (take (s + i + 1 - (s + i)) (drop (s + i) full')) =
                               match drop (s + i) full' with x :: _ => Ok x | [] => Err E_Index end).
  { intros full'. rewrite pyindex_nn by lia. rewrite drop_nonpos by lia. apply head_take. lia. }
  destruct e as [e0|].
  - destruct (s + i >=? e0) eqn:E; cbn [lift obind].
    + rewrite <- Hden. cbn [den]. unfold pyindex. rewrite Ei.
      rewrite zlen_take, zlen_drop.
      destruct ((i <? 0) || (Z.max 0 (Z.min (e0 - s) (Z.max 0 (zlen full - Z.max s 0))) <=? i)) eqn:E2;
        [reflexivity|lia].
    + change (VInt (s + i + 1)) with (opt_pv (Some (s + i + 1))).
      rewrite (run_select_den d full (s + i) (Some (s + i + 1))) by (try split; cbn; try lia; assumption).
      cbn [obind den]. rewrite Hone. rewrite <- Hden. cbn [den].
      rewrite pyindex_nn by lia. rewrite drop_take, drop_drop by lia.
      rewrite (Z.add_comm i s). f_equal. symmetry. apply head_take. lia.
  - cbn [lift obind].
    change (VInt (s + i + 1)) with (opt_pv (Some (s + i + 1))).
      rewrite (run_select_den d full (s + i) (Some (s + i + 1))) by (try split; cbn; try lia; assumption).
    cbn [obind den]. rewrite Hone. rewrite <- Hden. cbn [den].
    rewrite pyindex_nn by lia. rewrite drop_drop by lia. now rewrite (Z.add_comm i s).
Qed.

Theorem chain_index d full chain i :
  fits d full -> impl_index d full chain i = spec_index full chain i.
Proof.
  intros Hfit. unfold impl_index, spec_index.
  destruct (run_chain_rep d full chain _ _ Hfit (rep_init full)) as (x' & Hrun & Hrep).
  rewrite Hrun. cbn [obind]. now apply step_index_rep.
Qed.

(* ---- limit(n) ---- *)
Definition still_select (x : @sel A) : Prop := match x with SWin _ _ => True | SList _ => False end.

Theorem chain_limit d full chain n x :
  fits d full ->
  run_chain d full (SWin (VInt 0) VNone) chain = Good x -> still_select x ->
  impl_limit d full chain n = Good (pyslice None (Some n) (spec_list full chain)).
Proof.
  intros Hfit Hrun Hsel. unfold impl_limit. rewrite Hrun. cbn [obind].
  destruct (run_chain_rep d full chain _ _ Hfit (rep_init full)) as (x' & Hrun' & Hrep).
  rewrite Hrun in Hrun'. inversion Hrun'; subst x'. clear Hrun'.
  destruct x as [sv ev|]; [|contradiction].
  destruct (step_slice_rep d full (SWin sv ev) _ None (Some n) Hfit Hrep) as (y & Hstep & Hrepy).
  cbn [step_slice opt_pv] in Hstep. unfold limit_call.
  destruct (getitem_slice sv ev VNone (VInt n)) as [r|err]; cbn [lift obind] in *; [|discriminate].
  destruct r; cbn [obind] in *; try discriminate.
  - inversion Hstep; subst y. apply (materialise_rep d full _ _ Hfit Hrepy).
  - inversion Hstep; subst y. apply (materialise_rep d full _ _ Hfit Hrepy).
  - destruct (pv_opt a); cbn [lift obind] in *; [|discriminate].
    destruct (pv_opt b); cbn [lift obind] in *; [|discriminate].
    destruct (run_select d full sv ev); cbn [obind] in *; try discriminate.
    inversion Hstep; subst y. cbn [rep] in Hrepy. now rewrite Hrepy.
Qed.

Corollary limit_is_prefix d full n :
  fits d full -> impl_limit d full [] n = Good (pyslice None (Some n) full).
Proof. intros Hfit. apply (chain_limit d full [] n _ Hfit eq_refl I). Qed.

(* ---- the constructor argument limit=k ---- *)
Lemma ctor_start_pos k : 0 <= k -> @ctor_start A (Some k) = Good (SWin (VInt 0) (VInt k)).
Proof. intros Hk. unfold ctor_start, ctor_limit. cbn. reflexivity. Qed.

Lemma rep_ctor full k : 0 <= k -> rep full (SWin (VInt 0) (VInt k)) (pyslice None (Some k) full).
Proof.
  intros Hk. exists 0, (Some k). repeat split; try lia. cbn [den].
  rewrite drop_nonpos by lia. rewrite pyslice_none_n by lia. f_equal. lia.
Qed.

Theorem ctor_chain_list d full k chain :
  fits d full -> 0 <= k ->
  impl_list_from d full (Some k) chain = Good (spec_list (pyslice None (Some k) full) chain).
Proof.
  intros Hfit Hk. unfold impl_list_from. rewrite ctor_start_pos by exact Hk. cbn [obind].
  destruct (run_chain_rep d full chain _ _ Hfit (rep_ctor full k Hk)) as (x' & Hrun & Hrep).
  rewrite Hrun. cbn [obind]. now apply materialise_rep.
Qed.

Theorem ctor_chain_index d full k chain i :
  fits d full -> 0 <= k ->
  impl_index_from d full (Some k) chain i = spec_index (pyslice None (Some k) full) chain i.
Proof.
  intros Hfit Hk. unfold impl_index_from, spec_index. rewrite ctor_start_pos by exact Hk. cbn [obind].
  destruct (run_chain_rep d full chain _ _ Hfit (rep_ctor full k Hk)) as (x' & Hrun & Hrep).
  rewrite Hrun. cbn [obind]. now apply step_index_rep.
Qed.

Lemma limit_at_rep d full x l n :
  fits d full -> rep full x l -> still_select x ->
  limit_at d full x n = Good (pyslice None (Some n) l).
Proof.
  intros Hfit Hrep Hsel. destruct x as [sv ev|]; [|contradiction].
  destruct (step_slice_rep d full (SWin sv ev) _ None (Some n) Hfit Hrep) as (y & Hstep & Hrepy).
  cbn [step_slice opt_pv] in Hstep. unfold limit_at, limit_call.
  destruct (getitem_slice sv ev VNone (VInt n)) as [r|err]; cbn [lift obind] in *; [|discriminate].
  destruct r; cbn [obind] in *; try discriminate.
  - inversion Hstep; subst y. apply (materialise_rep d full _ _ Hfit Hrepy).
  - inversion Hstep; subst y. apply (materialise_rep d full _ _ Hfit Hrepy).
  - destruct (pv_opt a); cbn [lift obind] in *; [|discriminate].
    destruct (pv_opt b); cbn [lift obind] in *; [|discriminate].
    destruct (run_select d full sv ev); cbn [obind] in *; try discriminate.
    inversion Hstep; subst y. cbn [rep] in Hrepy. now rewrite Hrepy.
Qed.

Theorem ctor_chain_limit d full k chain n x :
  fits d full -> 0 <= k ->
  run_chain d full (SWin (VInt 0) (VInt k)) chain = Good x -> still_select x ->
  impl_limit_from d full (Some k) chain n = Good (pyslice None (Some n) (spec_list (pyslice None (Some k) full) chain)).
Proof.
  intros Hfit Hk Hrun Hsel. unfold impl_limit_from. rewrite ctor_start_pos by exact Hk. cbn [obind]. rewrite Hrun. cbn [obind].
  destruct (run_chain_rep d full chain _ _ Hfit (rep_ctor full k Hk)) as (x' & Hrun' & Hrep).
  rewrite Hrun in Hrun'. inversion Hrun'; subst x'. now apply limit_at_rep.
Qed.

(* without the argument (limit=None) the constructor sets no window: the _from functions are the plain ones *)
Lemma from_none_list d full chain : impl_list_from d full None chain = impl_list d full chain.
Proof. reflexivity. Qed.
Lemma from_none_index d full chain i : impl_index_from d full None chain i = impl_index d full chain i.
Proof. reflexivity. Qed.
Lemma from_none_limit d full chain n : impl_limit_from d full None chain n = impl_limit d full chain n.
Proof. reflexivity. Qed.

End P.
