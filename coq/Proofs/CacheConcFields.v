(* C09 -- preservation of each clause of the invariant under a step that replaces the record of
   one thread (and possibly one global component).  One lemma per clause; the side conditions
   say what the clause needs from the new thread record and the new globals. *)
From Coq Require Import List ZArith Bool Arith Lia.
From Model Require Import CacheConc CacheConcSpec.
From Proofs Require Import CacheConcBase.
Import ListNotations.

Section Fields.
Variables (s s' : state) (t : nat) (th' : thread).
Hypothesis Hinv : Inv s.
Hypothesis Hn : s_n s' = s_n s.
Hypothesis Hthr : s_thr s' = upd (s_thr s) t th'.
Hypothesis Ht : t < s_n s.
Let th := s_thr s t.

Lemma thr_same : s_thr s' t = th'.
Proof. rewrite Hthr. apply upd_same. Qed.
Lemma thr_other : forall x, x <> t -> s_thr s' x = s_thr s x.
Proof. intros. rewrite Hthr. now apply upd_other. Qed.

(* ---- references *)
Lemma f_w_strong : s_strong s' = s_strong s -> s_nextobj s <= s_nextobj s' ->
  forall k o, dget (s_strong s') k = Some o -> o < s_nextobj s'.
Proof. intros E L k o H. rewrite E in H. pose proof (inv_w_strong s Hinv k o H). lia. Qed.
Lemma f_w_weak : s_weak s' = s_weak s -> s_nextobj s <= s_nextobj s' ->
  forall k o, dget (s_weak s') k = Some o -> o < s_nextobj s'.
Proof. intros E L k o H. rewrite E in H. pose proof (inv_w_weak s Hinv k o H). lia. Qed.
Lemma f_w_thr : s_nextobj s <= s_nextobj s' ->
  ref_ok s' (t_val th') -> ref_ok s' (t_self th') ->
  (forall o i e, In (RObj o i e) (t_slots th') -> o < s_nextobj s') ->
  forall x, x < s_n s' -> ref_ok s' (t_val (s_thr s' x)) /\ ref_ok s' (t_self (s_thr s' x)) /\
    forall o i e, In (RObj o i e) (t_slots (s_thr s' x)) -> o < s_nextobj s'.
Proof.
  intros L A B C x Hx. destruct (Nat.eq_dec x t) as [-> | Hne].
  - rewrite thr_same. auto.
  - rewrite thr_other by assumption. rewrite Hn in Hx.
    destruct (inv_w_thr s Hinv x Hx) as (P & Q & R). unfold ref_ok in *. repeat split; intros.
    + specialize (P _ H). lia.
    + specialize (Q _ H). lia.
    + specialize (R _ _ _ H). lia.
Qed.

Lemma f_w_cobj : s_nextobj s <= s_nextobj s' -> ref_ok s' (t_cobj th') ->
  forall x, x < s_n s' -> ref_ok s' (t_cobj (s_thr s' x)).
Proof.
  intros L A x Hx. destruct (Nat.eq_dec x t) as [-> | Hne].
  - now rewrite thr_same.
  - rewrite thr_other by assumption. rewrite Hn in Hx. pose proof (inv_w_cobj s Hinv x Hx) as P.
    unfold ref_ok in *. intros y E. specialize (P y E). lia.
Qed.

(* ---- keys: the key of an allocated instance never changes *)
Definition keys_kept := forall o, o < s_nextobj s -> o_key (s_heap s' o) = o_key (s_heap s o).
Lemma f_key_strong : s_strong s' = s_strong s -> keys_kept ->
  forall k o, dget (s_strong s') k = Some o -> o_key (s_heap s' o) = k.
Proof. intros E K k o H. rewrite E in H. rewrite K by (eapply inv_w_strong; eauto). eapply inv_key_strong; eauto. Qed.
Lemma f_key_weak : s_weak s' = s_weak s -> keys_kept ->
  forall k o, dget (s_weak s') k = Some o -> o_key (s_heap s' o) = k.
Proof. intros E K k o H. rewrite E in H. rewrite K by (eapply inv_w_weak; eauto). eapply inv_key_weak; eauto. Qed.

(* ---- the cache lock *)
Inductive lock_change : Prop :=
| lc_same : s_lock s' = s_lock s -> holds (t_pc th') = holds (t_pc th) -> lock_change
| lc_acquire : s_lock s = None -> s_lock s' = Some t -> holds (t_pc th') = true -> lock_change
| lc_release : holds (t_pc th) = true -> s_lock s' = None -> holds (t_pc th') = false -> lock_change.

Lemma f_lock : lock_change ->
  forall x, x < s_n s' -> (s_lock s' = Some x <-> holds (t_pc (s_thr s' x)) = true).
Proof.
  intros C x Hx. rewrite Hn in Hx.
  pose proof (inv_lock s Hinv x Hx) as Lx. pose proof (inv_lock s Hinv t Ht) as Lt. fold th in Lt.
  destruct (Nat.eq_dec x t) as [-> | Hne].
  - rewrite thr_same. destruct C as [E H | E1 E2 H | H1 E H].
    + rewrite E, H. exact Lt.
    + rewrite E2, H. tauto.
    + rewrite E, H. split; discriminate.
  - rewrite thr_other by assumption. destruct C as [E H | E1 E2 H | H1 E H].
    + rewrite E. exact Lx.
    + rewrite E2. rewrite E1 in Lx. split.
      * intros X. inversion X. congruence.
      * intros X. apply Lx in X. discriminate.
    + rewrite E. apply Lt in H1. split; [discriminate |].
      intros X. apply Lx in X. congruence.
Qed.
Lemma f_lock_dom : lock_change -> forall x, s_lock s' = Some x -> x < s_n s'.
Proof.
  intros C x H. rewrite Hn. destruct C as [E _ | _ E2 _ | _ E _].
  - rewrite E in H. eapply inv_lock_dom; eauto.
  - rewrite E2 in H. inversion H. now subst.
  - rewrite E in H. discriminate.
Qed.

(* ---- absent entries after a miss *)
Lemma f_sabs : s_strong s' = s_strong s ->
  (sabs (t_pc th') = true -> dget (s_strong s) (t_id th') = None) ->
  forall x, x < s_n s' -> sabs (t_pc (s_thr s' x)) = true -> dget (s_strong s') (t_id (s_thr s' x)) = None.
Proof.
  intros E A x Hx. rewrite E. destruct (Nat.eq_dec x t) as [-> | Hne].
  - rewrite thr_same. exact A.
  - rewrite thr_other by assumption. rewrite Hn in Hx. now apply (inv_sabs s Hinv).
Qed.
Lemma f_wabs : s_weak s' = s_weak s ->
  (wabs (t_pc th') = true -> dget (s_weak s) (t_id th') = None) ->
  forall x, x < s_n s' -> wabs (t_pc (s_thr s' x)) = true -> dget (s_weak s') (t_id (s_thr s' x)) = None.
Proof.
  intros E A x Hx. rewrite E. destruct (Nat.eq_dec x t) as [-> | Hne].
  - rewrite thr_same. exact A.
  - rewrite thr_other by assumption. rewrite Hn in Hx. now apply (inv_wabs s Hinv).
Qed.

(* ---- locals *)
Lemma f_valdef : (valdef (t_pc th') = true -> t_val th' <> None) ->
  forall x, x < s_n s' -> valdef (t_pc (s_thr s' x)) = true -> t_val (s_thr s' x) <> None.
Proof.
  intros A x Hx. destruct (Nat.eq_dec x t) as [-> | Hne].
  - rewrite thr_same. exact A.
  - rewrite thr_other by assumption. rewrite Hn in Hx. now apply (inv_valdef s Hinv).
Qed.
Lemma f_valkey : keys_kept ->
  (forall o, (valdef (t_pc th') || tagged (t_pc th')) = true -> t_val th' = Some o -> o_key (s_heap s' o) = t_id th') ->
  forall x o, x < s_n s' -> (valdef (t_pc (s_thr s' x)) || tagged (t_pc (s_thr s' x))) = true ->
    t_val (s_thr s' x) = Some o -> o_key (s_heap s' o) = t_id (s_thr s' x).
Proof.
  intros K A x o Hx. destruct (Nat.eq_dec x t) as [-> | Hne].
  - rewrite thr_same. apply A.
  - rewrite thr_other by assumption. rewrite Hn in Hx. intros H1 H2.
    rewrite K. + now apply (inv_valkey s Hinv). + destruct (inv_w_thr s Hinv x Hx) as (P & _). now apply P.
Qed.
Lemma f_selfkey : keys_kept ->
  (forall o, creating (t_pc th') = true -> t_self th' = Some o -> o_key (s_heap s' o) = t_id th') ->
  forall x o, x < s_n s' -> creating (t_pc (s_thr s' x)) = true ->
    t_self (s_thr s' x) = Some o -> o_key (s_heap s' o) = t_id (s_thr s' x).
Proof.
  intros K A x o Hx. destruct (Nat.eq_dec x t) as [-> | Hne].
  - rewrite thr_same. apply A.
  - rewrite thr_other by assumption. rewrite Hn in Hx. intros H1 H2.
    rewrite K. + now apply (inv_selfkey s Hinv). + destruct (inv_w_thr s Hinv x Hx) as (_ & P & _). now apply P.
Qed.
Lemma f_selfdef : (selfdef (t_pc th') = true -> t_self th' <> None) ->
  forall x, x < s_n s' -> selfdef (t_pc (s_thr s' x)) = true -> t_self (s_thr s' x) <> None.
Proof.
  intros A x Hx. destruct (Nat.eq_dec x t) as [-> | Hne].
  - rewrite thr_same. exact A.
  - rewrite thr_other by assumption. rewrite Hn in Hx. now apply (inv_selfdef s Hinv).
Qed.
Definition exc_ok (h : thread) : Prop :=
  t_exc h = None \/ (t_exc h = Some NotFound /\ (t_pc h = M956 \/ t_pc h = SQ314 \/ t_pc h = Q162)).
Lemma f_exc : exc_ok th' -> forall x, x < s_n s' -> exc_ok (s_thr s' x).
Proof.
  intros A x Hx. destruct (Nat.eq_dec x t) as [-> | Hne].
  - rewrite thr_same. exact A.
  - rewrite thr_other by assumption. rewrite Hn in Hx. exact (inv_exc s Hinv x Hx).
Qed.
Lemma f_noexc : (forall x, In (RExc x) (t_slots th') -> x = NotFound) ->
  forall y x, y < s_n s' -> In (RExc x) (t_slots (s_thr s' y)) -> x = NotFound.
Proof.
  intros A y x Hy. destruct (Nat.eq_dec y t) as [-> | Hne].
  - rewrite thr_same. apply A.
  - rewrite thr_other by assumption. rewrite Hn in Hy. now apply (inv_noexc s Hinv).
Qed.
Lemma f_scope : core_pc (t_pc th') = true ->
  forall x, x < s_n s' -> core_pc (t_pc (s_thr s' x)) = true.
Proof.
  intros A x Hx. destruct (Nat.eq_dec x t) as [-> | Hne].
  - rewrite thr_same. auto.
  - rewrite thr_other by assumption. rewrite Hn in Hx. exact (inv_scope s Hinv x Hx).
Qed.

Lemma f_w_all : s_nextobj s <= s_nextobj s' ->
  (forall o, In o (t_all th') \/ In o (t_items th') -> o < s_nextobj s') ->
  forall x o, x < s_n s' -> In o (t_all (s_thr s' x)) \/ In o (t_items (s_thr s' x)) -> o < s_nextobj s'.
Proof.
  intros L A x o Hx. destruct (Nat.eq_dec x t) as [-> | Hne].
  - rewrite thr_same. apply A.
  - rewrite thr_other by assumption. rewrite Hn in Hx. intros H. pose proof (inv_w_all s Hinv x o Hx H). lia.
Qed.

(* ---- the write locks of the instances *)
Definition wl (h : thread) (o : nat) : Prop := wholds (t_pc h) = true /\ t_self h = Some o.
Inductive wlock_change : Prop :=
| wc_same : (forall o, o < s_nextobj s -> o_wlock (s_heap s' o) = o_wlock (s_heap s o)) ->
            (forall o, o < s_nextobj s -> (wl th' o <-> wl th o)) -> wlock_change
| wc_acquire : forall o0, o0 < s_nextobj s -> o_wlock (s_heap s o0) = None -> o_wlock (s_heap s' o0) = Some t ->
            (forall o, o < s_nextobj s -> o <> o0 -> o_wlock (s_heap s' o) = o_wlock (s_heap s o)) ->
            wholds (t_pc th) = false -> wl th' o0 -> wlock_change
| wc_release : forall o0, wl th o0 -> o_wlock (s_heap s' o0) = None ->
            (forall o, o < s_nextobj s -> o <> o0 -> o_wlock (s_heap s' o) = o_wlock (s_heap s o)) ->
            wholds (t_pc th') = false -> wlock_change.
(* instances allocated by the step are unlocked and nobody has them as `self` under a write lock *)
Definition fresh_unlocked : Prop :=
  forall o, s_nextobj s <= o -> o < s_nextobj s' -> o_wlock (s_heap s' o) = None /\ ~ wl th' o.

Lemma f_wlock : wlock_change -> fresh_unlocked -> s_nextobj s <= s_nextobj s' ->
  forall x o, x < s_n s' -> o < s_nextobj s' ->
    (o_wlock (s_heap s' o) = Some x <-> wl (s_thr s' x) o).
Proof.
  intros C F L x o Hx Ho. rewrite Hn in Hx.
  destruct (Nat.lt_ge_cases o (s_nextobj s)) as [Ho1 | Ho1].
  2:{ destruct (F o Ho1 Ho) as (F1 & F2). rewrite F1. split; [discriminate |].
      destruct (Nat.eq_dec x t) as [-> | Hne].
      - rewrite thr_same. tauto.
      - rewrite thr_other by assumption. intros (W1 & W2).
        destruct (inv_w_thr s Hinv x Hx) as (_ & Q & _). specialize (Q _ W2). lia. }
  pose proof (inv_wlock s Hinv x o Hx Ho1) as Wx. pose proof (inv_wlock s Hinv t o Ht Ho1) as Wt. fold th in Wt.
  fold (wl (s_thr s x) o) in Wx. fold (wl th o) in Wt.
  destruct (Nat.eq_dec x t) as [-> | Hne].
  - rewrite thr_same. destruct C as [E H | o0 H0 E1 E2 E3 H1 H2 | o0 H1 E1 E2 H2].
    + rewrite E by assumption. rewrite H by assumption. exact Wt.
    + destruct (Nat.eq_dec o o0) as [-> | Hno].
      * rewrite E2. tauto.
      * rewrite E3 by assumption. split.
        -- intros X. apply Wt in X. destruct X as (X & _). congruence.
        -- intros (_ & X). destruct H2 as (_ & Y). congruence.
    + destruct (Nat.eq_dec o o0) as [-> | Hno].
      * rewrite E1. split; [discriminate | intros (X & _); congruence].
      * rewrite E2 by assumption. split.
        -- intros X. apply Wt in X. destruct X as (_ & X). destruct H1 as (_ & Y). congruence.
        -- intros (X & _). congruence.
  - rewrite thr_other by assumption. destruct C as [E H | o0 H0 E1 E2 E3 H1 H2 | o0 H1 E1 E2 H2].
    + rewrite E by assumption. exact Wx.
    + destruct (Nat.eq_dec o o0) as [-> | Hno].
      * rewrite E2. split; [intros X; inversion X; congruence |].
        intros X. apply Wx in X. congruence.
      * rewrite E3 by assumption. exact Wx.
    + destruct (Nat.eq_dec o o0) as [-> | Hno].
      * rewrite E1. split; [discriminate |]. intros X. apply Wx in X.
        pose proof (proj2 (inv_wlock s Hinv t o0 Ht Ho1) H1). congruence.
      * rewrite E2 by assumption. exact Wx.
Qed.
Lemma f_wlock_dom : wlock_change -> fresh_unlocked -> s_nextobj s <= s_nextobj s' ->
  (forall o, s_nextobj s' <= o -> o_wlock (s_heap s' o) = o_wlock (s_heap s o)) ->
  forall x o, o_wlock (s_heap s' o) = Some x -> x < s_n s' /\ o < s_nextobj s'.
Proof.
  intros C F L G x o H. rewrite Hn.
  destruct (Nat.lt_ge_cases o (s_nextobj s')) as [Ho | Ho].
  2:{ rewrite G in H by assumption. destruct (inv_wlock_dom s Hinv x o H). lia. }
  split; [| assumption].
  destruct (Nat.lt_ge_cases o (s_nextobj s)) as [Ho1 | Ho1].
  2:{ destruct (F o Ho1 Ho) as (F1 & _). congruence. }
  destruct C as [E _ | o0 H0 E1 E2 E3 _ _ | o0 H1 E1 E2 _].
  - rewrite E in H by assumption. now destruct (inv_wlock_dom s Hinv x o H).
  - destruct (Nat.eq_dec o o0) as [-> | Hno].
    + rewrite E2 in H. inversion H. now subst.
    + rewrite E3 in H by assumption. now destruct (inv_wlock_dom s Hinv x o H).
  - destruct (Nat.eq_dec o o0) as [-> | Hno].
    + congruence.
    + rewrite E2 in H by assumption. now destruct (inv_wlock_dom s Hinv x o H).
Qed.

(* ---- cull *)
Lemma f_cull :
  (forall x, x < s_n s -> x <> t -> cull_ok (s_strong s) (s_weak s) (s_heap s) (s_thr s x) ->
     cull_ok (s_strong s') (s_weak s') (s_heap s') (s_thr s x)) ->
  cull_ok (s_strong s') (s_weak s') (s_heap s') th' ->
  forall x, x < s_n s' -> cull_ok (s_strong s') (s_weak s') (s_heap s') (s_thr s' x).
Proof.
  intros A B x Hx. rewrite Hn in Hx. destruct (Nat.eq_dec x t) as [-> | Hne].
  - now rewrite thr_same.
  - rewrite thr_other by assumption. apply A; try assumption. now apply (inv_cull s Hinv).
Qed.

Lemma f_iter :
  (forall x, x < s_n s -> x <> t -> iter_ok (s_strong s) (s_weak s) (s_sver s) (s_wver s) (s_thr s x) ->
     iter_ok (s_strong s') (s_weak s') (s_sver s') (s_wver s') (s_thr s x)) ->
  iter_ok (s_strong s') (s_weak s') (s_sver s') (s_wver s') th' ->
  forall x, x < s_n s' -> iter_ok (s_strong s') (s_weak s') (s_sver s') (s_wver s') (s_thr s' x).
Proof.
  intros A B x Hx. rewrite Hn in Hx. destruct (Nat.eq_dec x t) as [-> | Hne].
  - now rewrite thr_same.
  - rewrite thr_other by assumption. apply A; try assumption. now apply (inv_iter s Hinv).
Qed.

(* the strict form of disjointness, for a thread that holds the lock outside expireAll's copying *)
Lemma disj_strict : forall k o, holds (t_pc (s_thr s t)) = true -> xwinpc (t_pc (s_thr s t)) = false ->
  dget (s_strong s) k = Some o -> dget (s_weak s) k = None.
Proof.
  intros k o Hh Hw H. destruct (inv_disj s Hinv k o H) as [A | (_ & x & Hx & Wx)]; [assumption |].
  exfalso. assert (Hxh : holds (t_pc (s_thr s x)) = true) by (destruct (t_pc (s_thr s x)); simpl in *; try discriminate; reflexivity).
  apply (inv_lock s Hinv x Hx) in Hxh. apply (inv_lock s Hinv t Ht) in Hh.
  assert (x = t) by congruence. subst. congruence.
Qed.

End Fields.

(* iter_ok is about lock holders inside the two loops only *)
Definition iterpc (p : pc) : bool :=
  match p with A252 | A253 | A254 | L279 | L280 | L280n | L281 => true | _ => false end.
Lemma iter_ok_none : forall d w sv wv th, iterpc (t_pc th) = false -> iter_ok d w sv wv th.
Proof.
  intros d w sv wv th H. unfold iter_ok.
  repeat split; intros X; try (rewrite X in H; discriminate).
  destruct X as [X | [X | [X | X]]]; rewrite X in H; discriminate.
Qed.
Lemma iter_ok_unlocked : forall d w sv wv d' w' sv' wv' th,
  holds (t_pc th) = false -> iter_ok d w sv wv th -> iter_ok d' w' sv' wv' th.
Proof.
  intros d w sv wv d' w' sv' wv' th Hh _. apply iter_ok_none.
  destruct (t_pc th); simpl in *; try discriminate; reflexivity.
Qed.

(* cull_ok under changes it does not look at *)
Lemma cull_ok_same : forall d w h h' th,
  (forall o, t_cobj th = Some o -> o_key (h' o) = o_key (h o)) ->
  (forall o, t_self th = Some o -> o_key (h' o) = o_key (h o)) ->
  cull_ok d w h th -> cull_ok d w h' th.
Proof.
  intros d w h h' th Kc Ks (A & B & C & D & E). split; [| split; [| split; [| split]]]; try assumption.
  - intros X. destruct (B X) as (o & B1 & B2 & B3). exists o. rewrite (Kc o B1). auto.
  - intros X Y. destruct (E X Y) as (o & E1 & E2). exists o. rewrite (Ks o E1). auto.
Qed.

(* a thread outside the lock only carries the `self` of a cull called from created *)
Lemma cull_ok_unlocked : forall d w d' w' h th,
  holds (t_pc th) = false -> cull_ok d w h th -> cull_ok d' w' h th.
Proof.
  intros d w d' w' h th Hh (A & B & C & D & E).
  split; [| split; [| split; [| split]]];
    try (intros X; destruct (t_pc th); simpl in *; discriminate).
  exact E.
Qed.


Lemma cull_ok_none : forall d w h th, cullpc (t_pc th) = false -> cull_ok d w h th.
Proof.
  intros d w h th H. split; [| split; [| split; [| split]]];
    intros X; destruct (t_pc th); simpl in *; discriminate.
Qed.

(* an entry written into the strong dict for a key that had none, by a thread outside the lock *)
Lemma cull_ok_dset : forall d w h th i o,
  dget d i = None -> (kabs (t_pc th) = true -> t_key th <> i) ->
  cull_ok d w h th -> cull_ok (dset d i o) w h th.
Proof.
  intros d w h th i o Hn Hk (A & B & C & D & E). split; [| split; [| split; [| split]]]; try assumption.
  - intros X. destruct (A X) as (A1 & A2). split; [| assumption].
    rewrite dget_dset_other; [assumption | now apply Hk].
  - intros X. destruct (B X) as (o1 & B1 & B2 & B3). exists o1. repeat split; try assumption.
    intros P. specialize (B3 P). rewrite dget_dset_other; [assumption | congruence].
  - intros X. destruct (D X) as (D1 & D2 & D3 & D4). repeat split; try assumption.
    + intros k Hk'. destruct (Z.eq_dec k i) as [-> | Hne]; [rewrite dget_dset_same; discriminate |].
      rewrite dget_dset_other by assumption. now apply D2.
    + intros Y. destruct (Z.eq_dec (t_key th) i) as [-> | Hne]; [rewrite dget_dset_same; discriminate |].
      rewrite dget_dset_other by assumption. now apply D3.
Qed.

Lemma cull_ok_goto : forall d w h th p',
  cull_ok d w h th ->
  (kabs p' = true -> kabs (t_pc th) = true) ->
  (cobjdef p' = true -> cobjdef (t_pc th) = true /\ (p' = U205 -> t_pc th = U205)) ->
  (wkeys p' = true -> wkeys (t_pc th) = true /\ (wcur p' = true -> wcur (t_pc th) = true)) ->
  (skeys p' = true -> skeys (t_pc th) = true /\ (scur p' = true -> scur (t_pc th) = true) /\
                      (skeyout p' = true -> skeyout (t_pc th) = true)) ->
  (cullpc p' = true -> cullpc (t_pc th) = true) ->
  cull_ok d w h (set_pc th p').
Proof.
  intros d w h th p' (A & B & C & D & E) Ha Hb Hc Hd He.
  split; [| split; [| split; [| split]]]; simpl.
  - intros X. apply A. now apply Ha.
  - intros X. destruct (Hb X) as (X1 & X2). destruct (B X1) as (o & B1 & B2 & B3).
    exists o. repeat split; try assumption. intros P. apply B3. now apply X2.
  - intros X. destruct (Hc X) as (X1 & X2). destruct (C X1) as (C1 & C2 & C3).
    split; [exact C1 | split; [exact C2 | intros Y; apply C3; now apply X2]].
  - intros X. destruct (Hd X) as (X1 & X2 & X3). destruct (D X1) as (D1 & D2 & D3 & D4).
    split; [exact D1 | split; [exact D2 | split]].
    + intros Y. apply D3. now apply X2.
    + intros Y. apply D4. now apply X3.
  - intros X Y. apply E; [now apply He | assumption].
Qed.
