(* C17, the literal side: the SQL text the helpers produce for the pattern,
   decoded by the dialect's string-literal rules, is exactly
   prefix ++ like_escape s ++ postfix (outside the known trigger classes). *)
From Coq Require Import List NArith Bool Lia ZifyBool.
From Lib Require Import Str Lex.
From Gen Require Import Lit Like.
From Model Require Import Lit Like.
From Proofs Require Import LitStr LitTok LitStmt LikeMatch.
Import ListNotations.
Open Scope N_scope.

(* ---------------------------------------------------------------- unquote_str undoes the quoting *)
Lemma rev_snoc (b : str) c : rev (b ++ [c]) = c :: rev b.
Proof. rewrite rev_app_distr. reflexivity. Qed.

Lemma drop_last_snoc (b : str) c : drop_last 1 (b ++ [c]) = b.
Proof. unfold drop_last. rewrite rev_snoc. cbn [skipn]. apply rev_involutive. Qed.

Lemma gen_unquote_quoted d b : gen_unquote_str (quoted d b) = Some b.
Proof.
  unfold gen_unquote_str, quoted.
  destruct (dialect_eqb d Postgres && contains 92 b).
  - cbn [app firstn upper map starts_with]. change (upper_ascii 69) with 69. change (upper_ascii 39) with 39.
    change (69 =? 69) with true. change (39 =? 39) with true. cbn [andb].
    unfold ends_with. change (69 :: 39 :: b ++ [39]) with ([69; 39] ++ (b ++ [39])).
    rewrite rev_app_distr, rev_snoc. cbn [rev app starts_with]. change (39 =? 39) with true. cbn [andb].
    unfold slice_from_to_neg. cbn [app skipn]. now rewrite drop_last_snoc.
  - cbn [app]. destruct b as [|x b'].
    + reflexivity.
    + cbn [app firstn upper map starts_with]. change (upper_ascii 39) with 39. change (69 =? 39) with false.
      cbn [andb]. change (39 =? 39) with true. cbn [andb].
      unfold ends_with. change (39 :: x :: b' ++ [39]) with ([39] ++ ((x :: b') ++ [39])).
      rewrite rev_app_distr, rev_snoc. cbn [rev app starts_with]. change (39 =? 39) with true. cbn [andb].
      unfold slice_from_to_neg. cbn [app skipn]. change (x :: b' ++ [39]) with ((x :: b') ++ [39]).
      now rewrite drop_last_snoc.
Qed.

(* ---------------------------------------------------------------- _quote_like_special in one pass *)
Definition like_esc_text (d : dialect) : str := if dialect_eqb d Postgres then [92; 92] else [92].
Definition qls_char (d : dialect) (c : ch) : str :=
  if c =? 92 then [92; 92]
  else if c =? 37 then like_esc_text d ++ [37]
  else if c =? 95 then like_esc_text d ++ [95]
  else [c].

(* THE obligation that ties the proofs to _quote_like_special: the order of the
   three replaces matters (backslash first). *)
Lemma qls_pointwise d x :
  replace1 95 (like_esc_text d ++ [95]) (replace1 37 (like_esc_text d ++ [37]) (replace1 92 [92; 92] [x]))
  = qls_char d x.
Proof.
  unfold qls_char, like_esc_text.
  case_ch x 92; [destruct (dialect_eqb d Postgres); reflexivity|].
  case_ch x 37; [destruct (dialect_eqb d Postgres); reflexivity|].
  case_ch x 95; [destruct (dialect_eqb d Postgres); reflexivity|].
  neqb. unfold replace1. cbn [flat_map app]. rw_ne. cbn [flat_map app]. rw_ne. cbn [flat_map app]. rw_ne.
  reflexivity.
Qed.

Lemma replace1_pointwise c r s : replace1 c r s = flat_map (fun x => replace1 c r [x]) s.
Proof. rewrite <- (flat_map_single s) at 1. apply replace1_flat_map. Qed.

Lemma gen_qls_char d b : gen_quote_like_special d b = Some (flat_map (qls_char d) b).
Proof.
  assert (H : replace1 95 (like_esc_text d ++ [95]) (replace1 37 (like_esc_text d ++ [37]) (replace1 92 [92; 92] b))
              = flat_map (qls_char d) b).
  { rewrite (replace1_pointwise 92). rewrite !replace1_flat_map.
    induction b as [|x b IH]; [reflexivity|]. cbn [flat_map]. rewrite IH. f_equal. apply qls_pointwise. }
  unfold gen_quote_like_special. unfold like_esc_text in H. cbv zeta.
  destruct (dialect_eqb d Postgres); f_equal; exact H.
Qed.

Lemma gen_LikeQuoted_char d pre post s :
  gen_LikeQuoted d pre post s = Some (quoted d (pre ++ flat_map (qls_char d) (clean_body d s) ++ post)).
Proof.
  unfold gen_LikeQuoted. rewrite gen_string_char. cbn [obind]. unfold clean_string.
  rewrite gen_unquote_quoted. cbn [obind]. rewrite gen_qls_char. cbn [obind].
  rewrite gen_quote_char. reflexivity.
Qed.

Lemma flat_map_flat_map {A B C} (f : B -> list C) (g : A -> list B) (s : list A) :
  flat_map f (flat_map g s) = flat_map (fun x => flat_map f (g x)) s.
Proof. induction s as [|x s IH]; [reflexivity|]. cbn [flat_map]. now rewrite flat_map_app, IH. Qed.

Lemma flat_map_ext_in' {A B} (f g : A -> list B) (s : list A) :
  (forall x, In x s -> f x = g x) -> flat_map f s = flat_map g s.
Proof.
  induction s as [|x s IH]; intros H; [reflexivity|]. cbn [flat_map].
  rewrite (H x (or_introl eq_refl)), IH; [reflexivity|]. intros y Hy. apply H. now right.
Qed.

(* ---------------------------------------------------------------- ANSI dialects: the pattern literal IS the rendering of the wanted pattern *)
Lemma qls_ansi_char d c : bs_dialect d = false ->
  flat_map (qls_char d) (esc_ansi_char c) = esc_ansi (like_escape_char c).
Proof.
  intros Hd. assert (Ed : like_esc_text d = [92]) by (destruct d; try discriminate Hd; reflexivity).
  unfold esc_ansi_char, like_escape_char, qls_char. rewrite Ed.
  change c_bsl with 92. change c_pct with 37. change c_us with 95.
  case_ch c 39; [reflexivity|].
  case_ch c 92; [reflexivity|].
  case_ch c 37; [reflexivity|].
  case_ch c 95; [reflexivity|].
  neqb. rw_ne. cbn [orb flat_map app]. rw_ne. unfold esc_ansi. cbn [flat_map app]. unfold esc_ansi_char. rw_ne.
  reflexivity.
Qed.

Lemma esc_ansi_app a b : esc_ansi (a ++ b) = esc_ansi a ++ esc_ansi b.
Proof. apply flat_map_app. Qed.
Lemma esc_bs_app a b : esc_bs (a ++ b) = esc_bs a ++ esc_bs b.
Proof. apply flat_map_app. Qed.

Lemma k_fix_cases k : (k_prefix k = [] \/ k_prefix k = [37]) /\ (k_postfix k = [] \/ k_postfix k = [37]).
Proof. destruct k; cbn; tauto. Qed.

Lemma esc_ansi_fix (a : str) : a = [] \/ a = [37] -> esc_ansi a = a.
Proof. intros [->| ->]; reflexivity. Qed.
Lemma esc_bs_fix (a : str) : a = [] \/ a = [37] -> esc_bs a = a.
Proof. intros [->| ->]; reflexivity. Qed.

Lemma pattern_literal_ansi d k s : bs_dialect d = false ->
  pattern_literal d k s = Some (clean_string d (wanted_pattern k s)).
Proof.
  intros Hd. unfold pattern_literal. rewrite gen_LikeQuoted_char. f_equal.
  unfold clean_string, clean_body. rewrite Hd. f_equal.
  unfold wanted_pattern. destruct (k_fix_cases k) as [Hp Hq].
  rewrite !esc_ansi_app, (esc_ansi_fix _ Hp), (esc_ansi_fix _ Hq). f_equal. f_equal.
  unfold esc_ansi at 1. rewrite flat_map_flat_map. unfold like_escape, esc_ansi at 1. rewrite flat_map_flat_map.
  apply flat_map_ext_in'. intros x _. fold (esc_ansi (like_escape_char x)). now apply qls_ansi_char.
Qed.

(* ---------------------------------------------------------------- postgres: the same, for arguments without control characters *)
Lemma qls_pg_char c : is_ctrl c = false ->
  flat_map (qls_char Postgres) (esc_bs_char c) = esc_bs (like_escape_char c).
Proof.
  intros Hc. unfold is_ctrl in Hc.
  unfold esc_bs_char, like_escape_char, qls_char, like_esc_text. cbn [dialect_eqb].
  change c_bsl with 92. change c_pct with 37. change c_us with 95.
  case_ch c 39; [reflexivity|].
  case_ch c 92; [reflexivity|].
  case_ch c 37; [reflexivity|].
  case_ch c 95; [reflexivity|].
  assert ((c =? 0) = false) by lia. assert ((c =? 8) = false) by lia. assert ((c =? 10) = false) by lia.
  assert ((c =? 13) = false) by lia. assert ((c =? 9) = false) by lia.
  neqb. rw_ne. cbn [orb flat_map app]. rw_ne. unfold esc_bs. cbn [flat_map app]. unfold esc_bs_char. rw_ne.
  reflexivity.
Qed.

Lemma ctrl_free_in s x : ctrl_free s = true -> In x s -> is_ctrl x = false.
Proof.
  unfold ctrl_free. intros H Hin. apply negb_true_iff in H.
  destruct (is_ctrl x) eqn:E; [|reflexivity].
  assert (existsb is_ctrl s = true) by (apply existsb_exists; now exists x). congruence.
Qed.

Lemma pattern_literal_pg k s : ctrl_free s = true ->
  pattern_literal Postgres k s = Some (clean_string Postgres (wanted_pattern k s)).
Proof.
  intros Hc. unfold pattern_literal. rewrite gen_LikeQuoted_char. f_equal.
  unfold clean_string, clean_body. cbn [bs_dialect]. f_equal.
  unfold wanted_pattern. destruct (k_fix_cases k) as [Hp Hq].
  rewrite !esc_bs_app, (esc_bs_fix _ Hp), (esc_bs_fix _ Hq). f_equal. f_equal.
  unfold esc_bs at 1. rewrite flat_map_flat_map. unfold like_escape, esc_bs at 1. rewrite flat_map_flat_map.
  apply flat_map_ext_in'. intros x Hx. fold (esc_bs (like_escape_char x)).
  apply qls_pg_char. now apply (ctrl_free_in s).
Qed.

Lemma ctrl_free_nul_wanted k s : ctrl_free s = true -> contains 0 (wanted_pattern k s) = false.
Proof.
  intros Hc. unfold wanted_pattern. destruct (k_fix_cases k) as [Hp Hq].
  rewrite !contains_app.
  assert (contains 0 (k_prefix k) = false) as -> by (destruct Hp as [-> | ->]; reflexivity).
  assert (contains 0 (k_postfix k) = false) as -> by (destruct Hq as [-> | ->]; reflexivity).
  rewrite orb_false_r. cbn [orb].
  induction s as [|c s IH]; [reflexivity|].
  unfold like_escape. cbn [flat_map]. fold (like_escape s). rewrite contains_app.
  assert (Hc1 : is_ctrl c = false) by (apply (ctrl_free_in (c :: s)); [exact Hc|now left]).
  assert (Hc2 : ctrl_free s = true).
  { unfold ctrl_free in *. cbn [existsb] in Hc. rewrite Hc1 in Hc. exact Hc. }
  rewrite (IH Hc2), orb_false_r. unfold like_escape_char, is_ctrl in *.
  destruct ((c =? c_bsl) || (c =? c_pct) || (c =? c_us)); cbn [contains existsb]; unfold c_bsl; lia.
Qed.

(* ---------------------------------------------------------------- mysql: decoded directly *)
Lemma appr_app a b o : appr a (appr b o) = appr (a ++ b) o.
Proof. destruct o as [[s r]|]; [cbn; now rewrite app_assoc|reflexivity]. Qed.
Lemma consr_appr c o : consr c o = appr [c] o.
Proof. destruct o as [[s r]|]; reflexivity. Qed.

Lemma mysql_pattern_body : forall s t, ctrl_free s = true ->
  mysql_body 39 (flat_map (qls_char Mysql) (esc_bs s) ++ t) = appr (like_escape s) (mysql_body 39 t).
Proof.
  induction s as [|c s IH]; intros t Hc.
  - change (mysql_body 39 t = appr [] (mysql_body 39 t)).
    destruct (mysql_body 39 t) as [[a b]|]; reflexivity.
  - assert (Hc1 : is_ctrl c = false) by (apply (ctrl_free_in (c :: s)); [exact Hc|now left]).
    assert (Hc2 : ctrl_free s = true).
    { unfold ctrl_free in *. cbn [existsb] in Hc. rewrite Hc1 in Hc. exact Hc. }
    specialize (IH t Hc2).
    unfold esc_bs, like_escape. cbn [flat_map]. fold (esc_bs s). fold (like_escape s).
    rewrite flat_map_app, <- app_assoc, <- appr_app, <- IH.
    unfold esc_bs_char, like_escape_char, qls_char, like_esc_text. cbn [dialect_eqb].
    change c_bsl with 92. change c_pct with 37. change c_us with 95. unfold is_ctrl in Hc1.
    case_ch c 39; [cbn [N.eqb Pos.eqb flat_map app orb]; rewrite mysql_qq; apply consr_appr|].
    case_ch c 92; [cbn [N.eqb Pos.eqb flat_map app orb]; rewrite !mysql_bs; cbn [mysql_unescape N.eqb Pos.eqb]; now rewrite appr_app|].
    case_ch c 37; [cbn [N.eqb Pos.eqb flat_map app orb]; rewrite mysql_bs; reflexivity|].
    case_ch c 95; [cbn [N.eqb Pos.eqb flat_map app orb]; rewrite mysql_bs; reflexivity|].
    assert ((c =? 0) = false) by lia. assert ((c =? 8) = false) by lia. assert ((c =? 10) = false) by lia.
    assert ((c =? 13) = false) by lia. assert ((c =? 9) = false) by lia.
    neqb. rw_ne. cbn [orb flat_map app]. rw_ne. cbn [app].
    rewrite mysql_other by assumption. apply consr_appr.
Qed.

Lemma mysql_fix (a : str) t : a = [] \/ a = [37] -> mysql_body 39 (a ++ t) = appr a (mysql_body 39 t).
Proof.
  intros [->| ->].
  - cbn [app]. destruct (mysql_body 39 t) as [[x y]|]; reflexivity.
  - cbn [app]. rewrite mysql_other by reflexivity. apply consr_appr.
Qed.

Lemma pattern_literal_mysql k s rest : ctrl_free s = true -> no_quote_start rest ->
  exists lit, pattern_literal Mysql k s = Some lit /\
              lex_mysql (lit ++ rest) = Some (wanted_pattern k s, rest) /\
              exists r, lit ++ rest = 39 :: r.
Proof.
  intros Hc Hr. unfold pattern_literal. rewrite gen_LikeQuoted_char. eexists. split; [reflexivity|].
  unfold quoted. cbn [dialect_eqb andb clean_body bs_dialect]. split; [|eexists; reflexivity].
  cbn [app lex_mysql]. change (39 =? c_q) with true. cbv iota.
  destruct (k_fix_cases k) as [Hp Hq].
  rewrite <- !app_assoc. rewrite (mysql_fix _ _ Hp), mysql_pattern_body by exact Hc.
  rewrite (mysql_fix _ _ Hq). cbn [app].
  match goal with |- context [mysql_body 39 ?t] =>
    replace (mysql_body 39 t) with (Some (@nil ch, rest)) by (symmetry; now apply mysql_end) end.
  cbn [appr].
  unfold wanted_pattern. now rewrite !app_nil_r.
Qed.

(* ---------------------------------------------------------------- every dialect *)
Lemma like_ok_str_ok d k s : like_ok d k s = true -> bs_dialect d = false \/ d = Postgres ->
  str_ok d (wanted_pattern k s) = true.
Proof.
  intros H Hd. destruct d; cbn [like_ok str_ok] in *; try reflexivity; try exact H.
  change c_nul with 0. now rewrite (ctrl_free_nul_wanted k s H).
Qed.

Definition lit_head (d : dialect) (text : str) : Prop :=
  exists r, text = 39 :: r \/ (d = Postgres /\ text = 69 :: 39 :: r).

Lemma pattern_decodes d k s rest :
  like_ok d k s = true -> no_quote_start rest ->
  exists lit, pattern_literal d k s = Some lit /\
              lex_lit d (lit ++ rest) = Some (wanted_pattern k s, rest) /\
              lit_head d (lit ++ rest).
Proof.
  intros Hok Hr.
  assert (ansi_case : bs_dialect d = false ->
          exists lit, pattern_literal d k s = Some lit /\
              lex_lit d (lit ++ rest) = Some (wanted_pattern k s, rest) /\ lit_head d (lit ++ rest)).
  { intros Hd. exists (clean_string d (wanted_pattern k s)). split; [now apply pattern_literal_ansi|]. split.
    - apply lex_lit_roundtrip; [apply like_ok_str_ok; tauto|exact Hr].
    - apply clean_string_start. }
  destruct d; try (apply ansi_case; reflexivity).
  - destruct (pattern_literal_mysql k s rest Hok Hr) as (lit & E & L & r & Hh).
    exists lit. split; [exact E|]. split; [exact L|]. exists r. now left.
  - exists (clean_string Postgres (wanted_pattern k s)). split; [now apply pattern_literal_pg|]. split.
    + apply lex_lit_roundtrip; [apply like_ok_str_ok; tauto|exact Hr].
    + apply clean_string_start.
Qed.

(* ---------------------------------------------------------------- the whole LIKE expression *)
Lemma tok_lit d lit s rest toks :
  lex_lit d (lit ++ rest) = Some (s, rest) -> lit_head d (lit ++ rest) ->
  tokens_ok d rest toks -> tokens_ok d (lit ++ rest) (TStr s :: toks).
Proof.
  intros Hl [r [E|[Ed E]]] H;
    apply (tok_step d (lit ++ rest) rest [TStr s] toks); try exact H; intros f.
  - rewrite E in *. cbn [tokens_fuel]. change (is_space 39) with false. cbv iota.
    assert (lit_start d (39 :: r) = true) as -> by (destruct d; reflexivity).
    rewrite Hl. destruct (tokens_fuel d f rest); reflexivity.
  - subst d. rewrite E in *. cbn [tokens_fuel]. change (is_space 69) with false. cbv iota.
    assert (lit_start Postgres (69 :: 39 :: r) = true) as -> by reflexivity.
    rewrite Hl. destruct (tokens_fuel Postgres f rest); reflexivity.
Qed.

Definition w_LIKE : str := [76; 73; 75; 69].
Definition w_ESCAPE : str := [69; 83; 67; 65; 80; 69].
Definition like_skeleton (col : str) (k : kind) (s : str) : list token :=
  [TPunct c_lp; TWord col; TWord w_LIKE; TPunct c_lp; TStr (wanted_pattern k s); TPunct c_rp;
   TWord w_ESCAPE; TStr [c_bsl]; TPunct c_rp].

Lemma k_escape_bsl k : k_escape k = [92].
Proof. destruct k; reflexivity. Qed.

Lemma like_stmt d col k s :
  safe_ident col = true -> like_ok d k s = true ->
  exists text, like_sql d col k s = Some text /\ tokens_ok d text (like_skeleton col k s).
Proof.
  intros Hc Hok.
  destruct (pattern_decodes d k s (41 :: 32 :: w_ESCAPE ++ 32 :: clean_string d [92] ++ [41]) Hok eq_refl)
    as (lit & El & Ll & Hh).
  unfold like_sql. rewrite El. cbn [obind render]. rewrite k_escape_bsl, gen_string_char. cbn [obind].
  unfold gen_LIKE. cbv zeta. eexists. split; [reflexivity|].
  unfold like_skeleton.
  apply (tokens_ok_eq d
    (40 :: col ++ 32 :: w_LIKE ++ 32 :: 40 :: lit ++ (41 :: 32 :: w_ESCAPE ++ 32 :: clean_string d [92] ++ [41]))).
  { unfold w_LIKE, w_ESCAPE, gen_LIKE_op. cbn [app]. repeat (rewrite <- app_assoc; cbn [app]). reflexivity. }
  apply tok_punct; [reflexivity|].
  t_word col. t_space. t_word w_LIKE. t_space. t_punct.
  apply tok_lit; [exact Ll|exact Hh|].
  t_punct. t_space. t_word w_ESCAPE. t_space.
  apply (tok_str d [92] [41] [TPunct c_rp]); [destruct d; reflexivity|reflexivity|].
  t_punct. apply tok_nil.
Qed.
