(* C17, the literal side: the SQL text the helpers produce for the pattern,
   decoded by the dialect's string-literal rules, is exactly
   prefix ++ like_escape s ++ postfix (outside the known trigger classes). *)
From Coq Require Import List NArith Bool Lia ZifyBool.
From Lib Require Import Str Lex.
From Gen Require Import Lit Like.
From Model Require Import Lit Like.
From Proofs Require Import LitStr LitTok LitStmt LikeMatch.
Import ListNotations.
Open Scope N_scope.

(* ---------------------------------------------------------------- unquote_str undoes the quoting *)
Lemma rev_snoc (b : str) c : rev (b ++ [c]) = c :: rev b.
Proof. rewrite rev_app_distr. reflexivity. Qed.

Lemma drop_last_snoc (b : str) c : drop_last 1 (b ++ [c]) = b.
Proof. unfold drop_last. rewrite rev_snoc. cbn [skipn]. apply rev_involutive. Qed.

Lemma gen_unquote_quoted d b : gen_unquote_str (quoted d b) = Some b.
Proof.
  unfold gen_unquote_str, quoted.
  destruct (dialect_eqb d Postgres && contains 92 b).
  - cbn [app firstn upper map starts_with]. change (upper_ascii 69) with 69. change (upper_ascii 39) with 39.
    change (69 =? 69) with true. change (39 =? 39) with true. cbn [andb].
    unfold ends_with. change (69 :: 39 :: b ++ [39]) with ([69; 39] ++ (b ++ [39])).
    rewrite rev_app_distr, rev_snoc. cbn [rev app starts_with]. change (39 =? 39) with true. cbn [andb].
    unfold slice_from_to_neg. cbn [app skipn]. now rewrite drop_last_snoc.
  - cbn [app]. destruct b as [|x b'].
    + reflexivity.
    + cbn [app firstn upper map starts_with]. change (upper_ascii 39) with 39. change (69 =? 39) with false.
      cbn [andb]. change (39 =? 39) with true. cbn [andb].
      unfold ends_with. change (39 :: x :: b' ++ [39]) with ([39] ++ ((x :: b') ++ [39])).
      rewrite rev_app_distr, rev_snoc. cbn [rev app starts_with]. change (39 =? 39) with true. cbn [andb].
      unfold slice_from_to_neg. cbn [app skipn]. change (x :: b' ++ [39]) with ((x :: b') ++ [39]).
      now rewrite drop_last_snoc.
Qed.

(* ---------------------------------------------------------------- _quote_like_special in one pass *)
Definition like_esc_text (d : dialect) : str := if dialect_eqb d Postgres then [92; 92] else [92].
Definition qls_char (d : dialect) (c : ch) : str :=
  if c =? 92 then [92; 92]
  else if c =? 37 then like_esc_text d ++ [37]
  else if c =? 95 then like_esc_text d ++ [95]
  else [c].

(* THE obligation that ties the proofs to _quote_like_special: the order of the
   three replaces matters (backslash first). *)
Lemma qls_pointwise d x :
  replace1 95 (like_esc_text d ++ [95]) (replace1 37 (like_esc_text d ++ [37]) (replace1 92 [92; 92] [x]))
  = qls_char d x.
Proof.
  unfold qls_char, like_esc_text.
  case_ch x 92; [destruct (dialect_eqb d Postgres); reflexivity|].
  case_ch x 37; [destruct (dialect_eqb d Postgres); reflexivity|].
  case_ch x 95; [destruct (dialect_eqb d Postgres); reflexivity|].
  neqb. unfold replace1. cbn [flat_map app]. rw_ne. cbn [flat_map app]. rw_ne. cbn [flat_map app]. rw_ne.
  reflexivity.
Qed.

Lemma replace1_pointwise c r s : replace1 c r s = flat_map (fun x => replace1 c r [x]) s.
Proof. rewrite <- (flat_map_single s) at 1. apply replace1_flat_map. Qed.

Lemma gen_qls_char d b : gen_quote_like_special d b = Some (flat_map (qls_char d) b).
Proof.
  assert (H : replace1 95 (like_esc_text d ++ [95]) (replace1 37 (like_esc_text d ++ [37]) (replace1 92 [92; 92] b))
              = flat_map (qls_char d) b).
  { rewrite (replace1_pointwise 92). rewrite !replace1_flat_map.
    induction b as [|x b IH]; [reflexivity|]. cbn [flat_map]. rewrite IH. f_equal. apply qls_pointwise. }
  unfold gen_quote_like_special. unfold like_esc_text in H. cbv zeta.
  destruct (dialect_eqb d Postgres); f_equal; exact H.
Qed.

(* THE obligation that ties the proofs to the escaping inside _LikeQuoted.__sqlrepr__
   (repaired by fbe34cd): the order of the three replaces matters (backslash first). *)
Lemma lesc_pointwise x :
  replace1 95 [92; 95] (replace1 37 [92; 37] (replace1 92 [92; 92] [x])) = like_escape_char x.
Proof.
  unfold like_escape_char. change c_bsl with 92. change c_pct with 37. change c_us with 95.
  case_ch x 92; [reflexivity|].
  case_ch x 37; [reflexivity|].
  case_ch x 95; [reflexivity|].
  neqb. unfold replace1. cbn [flat_map app]. rw_ne. cbn [flat_map app]. rw_ne. cbn [flat_map app]. rw_ne.
  reflexivity.
Qed.

Lemma lesc_char s :
  replace1 95 [92; 95] (replace1 37 [92; 37] (replace1 92 [92; 92] s)) = like_escape s.
Proof.
  rewrite (replace1_pointwise 92). rewrite !replace1_flat_map. unfold like_escape.
  induction s as [|x s IH]; [reflexivity|]. cbn [flat_map]. rewrite IH. f_equal. apply lesc_pointwise.
Qed.

(* the pattern operand is the ordinary rendering of prefix ++ like_escape s ++ postfix *)
Lemma gen_LikeQuoted_char d pre post s :
  gen_LikeQuoted d pre post s = Some (clean_string d (pre ++ like_escape s ++ post)).
Proof.
  unfold gen_LikeQuoted. cbv zeta. rewrite lesc_char, gen_string_char. reflexivity.
Qed.

Lemma pattern_literal_char d k s :
  pattern_literal d k s = Some (clean_string d (wanted_pattern k s)).
Proof. unfold pattern_literal, wanted_pattern. apply gen_LikeQuoted_char. Qed.

Lemma k_fix_cases k : (k_prefix k = [] \/ k_prefix k = [37]) /\ (k_postfix k = [] \/ k_postfix k = [37]).
Proof. destruct k; cbn; tauto. Qed.

(* a NUL is in the pattern exactly when it is in the argument *)
Lemma contains_nul_like_escape s : contains 0 (like_escape s) = contains 0 s.
Proof.
  induction s as [|c s IH]; [reflexivity|].
  unfold like_escape. cbn [flat_map]. fold (like_escape s). rewrite contains_app, contains_cons, IH. f_equal.
  unfold like_escape_char. destruct ((c =? c_bsl) || (c =? c_pct) || (c =? c_us)); cbn [contains existsb];
    rewrite ?orb_false_r; reflexivity.
Qed.

Lemma contains_nul_wanted k s : contains 0 (wanted_pattern k s) = contains 0 s.
Proof.
  unfold wanted_pattern. destruct (k_fix_cases k) as [Hp Hq]. rewrite !contains_app, contains_nul_like_escape.
  assert (contains 0 (k_prefix k) = false) as -> by (destruct Hp as [-> | ->]; reflexivity).
  assert (contains 0 (k_postfix k) = false) as -> by (destruct Hq as [-> | ->]; reflexivity).
  now rewrite orb_false_r.
Qed.

Definition lit_head (d : dialect) (text : str) : Prop :=
  exists r, text = 39 :: r \/ (d = Postgres /\ text = 69 :: 39 :: r).

Lemma pattern_decodes d k s rest :
  like_ok d k s = true -> no_quote_start rest ->
  exists lit, pattern_literal d k s = Some lit /\
              lex_lit d (lit ++ rest) = Some (wanted_pattern k s, rest) /\
              lit_head d (lit ++ rest).
Proof.
  intros Hok Hr. exists (clean_string d (wanted_pattern k s)). split; [apply pattern_literal_char|]. split.
  - now apply lex_lit_roundtrip.
  - apply clean_string_start.
Qed.

(* ---------------------------------------------------------------- the whole LIKE expression *)
Lemma tok_lit d lit s rest toks :
  lex_lit d (lit ++ rest) = Some (s, rest) -> lit_head d (lit ++ rest) ->
  tokens_ok d rest toks -> tokens_ok d (lit ++ rest) (TStr s :: toks).
Proof.
  intros Hl [r [E|[Ed E]]] H;
    apply (tok_step d (lit ++ rest) rest [TStr s] toks); try exact H; intros f.
  - rewrite E in *. cbn [tokens_fuel]. change (is_space 39) with false. cbv iota.
    assert (lit_start d (39 :: r) = true) as -> by (destruct d; reflexivity).
    rewrite Hl. destruct (tokens_fuel d f rest); reflexivity.
  - subst d. rewrite E in *. cbn [tokens_fuel]. change (is_space 69) with false. cbv iota.
    assert (lit_start Postgres (69 :: 39 :: r) = true) as -> by reflexivity.
    rewrite Hl. destruct (tokens_fuel Postgres f rest); reflexivity.
Qed.

Definition w_LIKE : str := [76; 73; 75; 69].
Definition w_ESCAPE : str := [69; 83; 67; 65; 80; 69].
Definition like_skeleton (col : str) (k : kind) (s : str) : list token :=
  [TPunct c_lp; TWord col; TWord w_LIKE; TPunct c_lp; TStr (wanted_pattern k s); TPunct c_rp;
   TWord w_ESCAPE; TStr [c_bsl]; TPunct c_rp].

Lemma k_escape_bsl k : k_escape k = [92].
Proof. destruct k; reflexivity. Qed.

Lemma like_stmt d col k s :
  safe_ident col = true -> like_ok d k s = true ->
  exists text, like_sql d col k s = Some text /\ tokens_ok d text (like_skeleton col k s).
Proof.
  intros Hc Hok.
  destruct (pattern_decodes d k s (41 :: 32 :: w_ESCAPE ++ 32 :: clean_string d [92] ++ [41]) Hok eq_refl)
    as (lit & El & Ll & Hh).
  unfold like_sql. rewrite El. cbn [obind render]. rewrite k_escape_bsl, gen_string_char. cbn [obind].
  unfold gen_LIKE. cbv zeta. eexists. split; [reflexivity|].
  unfold like_skeleton.
  apply (tokens_ok_eq d
    (40 :: col ++ 32 :: w_LIKE ++ 32 :: 40 :: lit ++ (41 :: 32 :: w_ESCAPE ++ 32 :: clean_string d [92] ++ [41]))).
  { unfold w_LIKE, w_ESCAPE, gen_LIKE_op. cbn [app]. repeat (rewrite <- app_assoc; cbn [app]). reflexivity. }
  apply tok_punct; [reflexivity|].
  t_word col. t_space. t_word w_LIKE. t_space. t_punct.
  apply tok_lit; [exact Ll|exact Hh|].
  t_punct. t_space. t_word w_ESCAPE. t_space.
  apply (tok_str d [92] [41] [TPunct c_rp]); [destruct d; reflexivity|reflexivity|].
  t_punct. apply tok_nil.
Qed.
