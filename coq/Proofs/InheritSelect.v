(* C15: select on a class, rewritten onto the root table with the childName
   filter and the id-joins, returns exactly the objects of that class and its
   subclasses whose attribute values satisfy the filter. *)
From Coq Require Import List ZArith Bool Lia.
From Model Require Import Inherit.
From Proofs Require Import InheritBase InheritOps InheritJoin.
Import ListNotations.
Open Scope Z_scope.

(* ---- three-valued glue *)
Lemma holds_and : forall a b e, holds (XAnd a b) e = holds a e && holds b e.
Proof. intros. unfold holds. cbn. destruct (ev a e) as [[|]|], (ev b e) as [[|]|]; reflexivity. Qed.

Lemma holds_fold : forall js x e, holds (fold_left XAnd js x) e = holds x e && forallb (fun j => holds j e) js.
Proof.
  induction js as [|j js IH]; intros x e; cbn.
  - rewrite andb_true_r. reflexivity.
  - rewrite IH, holds_and, andb_assoc. reflexivity.
Qed.

Lemma joins_ids : forall hi e, map fst e = chain hi ->
  forallb (fun j => holds j e) (joins (chain hi)) = match e with (_, x) :: e' => ids_all (rid x) e' | [] => true end.
Proof.
  intros hi e H.
  destruct hi; cbn in H;
    repeat (match goal with
            | H : map fst ?e = _ :: _ |- _ => destruct e as [|[? ?] e]; cbn in H; [discriminate|]; inversion H; clear H; subst
            | H : map fst ?e = [] |- _ => destruct e; [|discriminate]; clear H
            end);
    cbn; unfold holds; cbn; try reflexivity;
    repeat match goal with |- context [?a =? ?b] => destruct (a =? b) eqn:? end; cbn; try reflexivity;
    rewrite ?Z.eqb_eq, ?Z.eqb_neq in *; lia.
Qed.

(* ---- the FROM list *)
Lemma shallowest_KA : forall ls, shallowest ls KA = KA.
Proof.
  unfold shallowest. induction ls as [|k ls IH]; [reflexivity|]. cbn [fold_left].
  assert (Nat.ltb (level k) (level KA) = false) as -> by (destruct k; reflexivity). exact IH.
Qed.

Lemma sub_trans : forall a b c, memc a (chain b) = true -> memc b (chain c) = true -> memc a (chain c) = true.
Proof. destruct a, b, c; cbn; intros; try reflexivity; discriminate. Qed.
Lemma level_cmp : forall k a b, memc a (chain k) = true -> memc b (chain k) = true ->
  if Nat.ltb (level a) (level b) then memc a (chain b) = true else memc b (chain a) = true.
Proof. destruct k, a, b; cbn; intros; try reflexivity; discriminate. Qed.

Lemma deepest_from : forall k ls acc, memc acc (chain k) = true -> (forall t, In t ls -> memc t (chain k) = true) ->
  let d := fold_left (fun acc k => if Nat.ltb (level acc) (level k) then k else acc) ls acc in
  memc d (chain k) = true /\ memc acc (chain d) = true /\ forall t, In t ls -> memc t (chain d) = true.
Proof.
  induction ls as [|t ls IH]; intros acc Ha Hl; cbn [fold_left].
  - split; [exact Ha|]. split; [destruct acc; reflexivity|intros ? []].
  - assert (Ht : memc t (chain k) = true) by (apply Hl; left; reflexivity).
    pose proof (level_cmp k acc t Ha Ht) as C.
    destruct (Nat.ltb (level acc) (level t)).
    + destruct (IH t Ht (fun x Hx => Hl x (or_intror Hx))) as [A [B D]].
      split; [exact A|]. split; [eapply sub_trans; eassumption|].
      intros x [<-|Hx]; [exact B|apply D; exact Hx].
    + destruct (IH acc Ha (fun x Hx => Hl x (or_intror Hx))) as [A [B D]].
      split; [exact A|]. split; [exact B|].
      intros x [<-|Hx]; [eapply sub_trans; eassumption|apply D; exact Hx].
Qed.

Lemma deepest_spec : forall k ls, (forall t, In t ls -> memc t (chain k) = true) ->
  memc (deepest ls) (chain k) = true /\ forall t, In t ls -> memc t (chain (deepest ls)) = true.
Proof.
  intros k ls H. destruct (deepest_from k ls KA (memc_root k) H) as [A [_ B]]. split; assumption.
Qed.

Lemma chain_root : forall hi, chain hi = KA :: tl (chain hi).
Proof. destruct hi; reflexivity. Qed.
Lemma seg_root : forall hi, seg KA hi = chain hi.
Proof. destruct hi; reflexivity. Qed.

(* ---- evaluating the clause on the rows of one object *)
Fixpoint afeval (f : filt) (o : aobj) : option bool :=
  match f with
  | FTrue => Some true
  | FCmp c op v => cmp3 op (av o c) v
  | FId op v => cmp3 op (Some (aid o)) (Some v)
  | FAnd a b => and3 (afeval a o) (afeval b o)
  | FOr a b => or3 (afeval a o) (afeval b o)
  | FNot a => not3 (afeval a o)
  end.
Definition atrue (f : filt) (o : aobj) : bool := match afeval f o with Some true => true | _ => false end.
Definition asel (k : cls) (f : filt) (o : aobj) : bool := memc k (chain (ak o)) && atrue f o.

Lemma cls_eqb_sym : forall a b, cls_eqb a b = cls_eqb b a.
Proof. destruct a, b; reflexivity. Qed.

Lemma lookup_oenv : forall ls o t, memc t ls = true -> lookup (oenv ls o) t = Some (arow t o).
Proof.
  induction ls as [|l ls IH]; intros o t H; [discriminate|].
  cbn in *. rewrite cls_eqb_sym. destruct (cls_eqb t l) eqn:E.
  - apply cls_eqb_eq in E. subst. reflexivity.
  - apply IH. exact H.
Qed.

Lemma ev_to_sql : forall ls o k f b, (forall t, In t (xtables (to_sql k b f)) -> memc t ls = true) ->
  ev (to_sql k b f) (oenv ls o) = afeval f o.
Proof.
  induction f as [|c op v|op v|f1 IH1 f2 IH2|f1 IH1 f2 IH2|f1 IH1]; intros b H; cbn in *.
  - reflexivity.
  - rewrite lookup_oenv by (apply H; left; reflexivity). reflexivity.
  - rewrite lookup_oenv by (apply H; left; reflexivity). reflexivity.
  - rewrite IH1, IH2; [reflexivity| |]; intros t Ht; apply H; apply in_or_app; auto.
  - rewrite IH1, IH2; [reflexivity| |]; intros t Ht; apply H; apply in_or_app; auto.
  - rewrite IH1; [reflexivity|]. exact H.
Qed.

Lemma xtables_to_sql : forall k f b t, fvis k f = true -> In t (xtables (to_sql k b f)) -> memc t (chain k) = true.
Proof.
  induction f as [|c op v|op v|f1 IH1 f2 IH2|f1 IH1 f2 IH2|f1 IH1]; intros b t Hv Ht; cbn in *.
  - destruct Ht.
  - destruct Ht as [<-|[]]. exact Hv.
  - destruct Ht as [<-|[]]. destruct b, k; reflexivity.
  - apply andb_true_iff in Hv. destruct Hv. apply in_app_or in Ht. destruct Ht; eauto.
  - apply andb_true_iff in Hv. destruct Hv. apply in_app_or in Ht. destruct Ht; eauto.
  - eauto.
Qed.

Lemma xtables_select_clause : forall k f t, fvis k f = true -> In t (xtables (select_clause k f)) -> memc t (chain k) = true.
Proof.
  intros k f t Hv Ht. unfold select_clause in Ht. destruct (parent k) as [p|] eqn:Hp.
  - assert (Pk : memc p (chain k) = true) by (destruct k; inversion Hp; reflexivity).
    destruct f; cbn [xtables] in Ht;
      try (destruct Ht as [<-|[]]; exact Pk);
      (apply in_app_or in Ht; destruct Ht as [Ht|[<-|[]]]; [|exact Pk]);
      eapply xtables_to_sql; eassumption.
  - eapply xtables_to_sql; eassumption.
Qed.

Lemma in_all_chain : forall hi o, in_all (chain hi) o = memc hi (chain (ak o)).
Proof. intros hi o. unfold in_all. destruct hi, (ak o); reflexivity. Qed.

Lemma tag_holds : forall ko p k, memc p (chain ko) = true -> parent k = Some p ->
  match tagof ko p with Some c => cls_eqb c k | None => false end = memc k (chain ko).
Proof. destruct ko, p, k; cbn; intros H1 H2; try discriminate; reflexivity. Qed.

Lemma holds_tag : forall ls o p k, memc p ls = true ->
  holds (XTag p k) (oenv ls o) = match tagof (ak o) p with Some c => cls_eqb c k | None => false end.
Proof.
  intros. unfold holds. cbn. rewrite lookup_oenv by assumption. cbn. destruct (tagof (ak o) p) as [c|]; [|reflexivity].
  destruct (cls_eqb c k); reflexivity.
Qed.

(* the semantic core: on the rows of one object the WHERE clause says
   "of class k or a subclass, and the filter holds" *)
Lemma sel_equiv : forall k f hi o, fvis k f = true -> memc hi (chain k) = true ->
  (forall t, In t (xtables (select_clause k f)) -> memc t (chain hi) = true) ->
  in_all (chain hi) o && holds (select_clause k f) (oenv (chain hi) o) = asel k f o.
Proof.
  intros k f hi o Hv Hhi Hcov. rewrite in_all_chain. unfold asel, atrue.
  unfold select_clause in *. destruct (parent k) as [p|] eqn:Hp.
  - destruct (memc hi (chain (ak o))) eqn:Hin.
    + cbn [andb].
      assert (Pk : memc p (chain k) = true) by (destruct k; inversion Hp; reflexivity).
      assert (Tg : forall ls, memc p ls = true -> holds (XTag p k) (oenv ls o) = memc k (chain (ak o)) \/ memc p (chain (ak o)) = false).
      { intros ls Hl. rewrite holds_tag by exact Hl. destruct (memc p (chain (ak o))) eqn:Hpo; [left|right; reflexivity].
        apply tag_holds; assumption. }
      assert (Pc : memc p (chain hi) = true).
      { apply Hcov. destruct f; cbn [xtables]; try (left; reflexivity); apply in_or_app; right; left; reflexivity. }
      assert (Po : memc p (chain (ak o)) = true) by (eapply sub_trans; eassumption).
      destruct (Tg (chain hi) Pc) as [Tg'|Tg']; [|congruence].
      destruct f; try (rewrite holds_and, Tg', andb_comm; f_equal; unfold holds;
                       rewrite ev_to_sql; [reflexivity|];
                       intros t Ht; apply Hcov; cbn [xtables]; apply in_or_app; left; exact Ht).
      rewrite Tg'. cbn. rewrite andb_true_r. reflexivity.
    + cbn [andb]. destruct (memc k (chain (ak o))) eqn:Hk; [|reflexivity].
      rewrite (sub_trans _ _ _ Hhi Hk) in Hin. discriminate.
  - assert (k = KA) as -> by (destruct k; try discriminate; reflexivity).
    assert (hi = KA) as -> by (destruct hi; try discriminate; reflexivity).
    rewrite memc_root. cbn [andb]. unfold holds. rewrite ev_to_sql; [reflexivity|exact Hcov].
Qed.

Lemma flat_map_if_single : forall (X Y : Type) (c : X -> bool) (g : X -> Y) l,
  flat_map (fun x => if c x then [g x] else []) l = map g (filter c l).
Proof. induction l as [|x l IH]; [reflexivity|]. cbn. destruct (c x); cbn; rewrite IH; reflexivity. Qed.

Lemma get_all_repr : forall s os e l, repr s os -> (forall o, In o l -> In o os /\ memc e (chain (ak o)) = true) ->
  get_all s e (map aid l) = inr (map obj_of l).
Proof.
  intros s os e l Hr. induction l as [|o l IH]; intro H; [reflexivity|]. cbn.
  destruct (H o (or_introl eq_refl)) as [Ho Hm].
  assert (Hnd : NoDup (aids os)) by (destruct Hr; assumption).
  rewrite (get_obj_repr s os e (aid o) o Hr (afind_in os o Hnd Ho) Hm).
  rewrite IH; [reflexivity|]. intros. apply H. right. assumption.
Qed.

(* SELECT root.id FROM chain hi WHERE clause AND joins, in terms of the objects *)
Lemma sql_select_root : forall s os k f, repr s os -> fvis k f = true ->
  let x := select_clause k f in
  sql_select s KA x = map aid (filter (asel k f) os) /\ memc (deepest (xtables x ++ [KA])) (chain k) = true /\
  from_tables KA x = chain (deepest (xtables x ++ [KA])).
Proof.
  intros s os k f Hr Hv x.
  assert (Cov : forall t, In t (xtables x ++ [KA]) -> memc t (chain k) = true).
  { intros t Ht. apply in_app_or in Ht. destruct Ht as [Ht|[<-|[]]]; [|apply memc_root].
    eapply xtables_select_clause; eassumption. }
  destruct (deepest_spec k _ Cov) as [Hhi Hcov]. set (hi := deepest (xtables x ++ [KA])) in *.
  assert (Hft : from_tables KA x = chain hi).
  { unfold from_tables. rewrite shallowest_KA. apply seg_root. }
  split; [|split; assumption].
  unfold sql_select. rewrite Hft. unfold full_clause. rewrite Hft.
  rewrite (filter_ext_in' _ _ (fun e => match e with (_, r) :: e' => ids_all (rid r) e' | [] => true end && holds x e)).
  2:{ intros e He. apply product_shape in He. rewrite holds_fold, joins_ids by exact He. apply andb_comm. }
  rewrite (chain_root hi), (natural_join s os _ _ Hr), <- (chain_root hi).
  rewrite flat_map_flat_map.
  rewrite (flat_map_ext_in _ _ _ (fun o => if asel k f o then [aid o] else [])).
  - apply flat_map_if_single.
  - intros o _. unfold x. rewrite (sel_equiv k f hi o Hv Hhi).
    + destruct (asel k f o); [|reflexivity]. cbn. rewrite lookup_oenv by apply memc_root. reflexivity.
    + intros t Ht. apply Hcov. apply in_or_app. left. exact Ht.
Qed.

Lemma run_select_root : forall s os k f, repr s os -> fvis k f = true ->
  exists from, run_select s KA (select_clause k f) =
    RObjs (map obj_of (filter (asel k f) os)) (Z.of_nat (length (filter (asel k f) os))) from.
Proof.
  intros s os k f Hr Hv. destruct (sql_select_root s os k f Hr Hv) as [Hs [_ Hf]].
  unfold run_select. rewrite Hs.
  rewrite (get_all_repr s os KA _ Hr).
  - rewrite map_length. eexists. reflexivity.
  - intros o Ho. apply filter_In in Ho. split; [tauto|apply memc_root].
Qed.

(* ---- the same in terms of the state: born classes and row values *)
Lemma born_as_repr : forall s os o, repr s os -> In o os -> born_as s (aid o) = Some (ak o).
Proof.
  intros s os o [Hnd [_ [Hb _]]] Ho. unfold born_as. rewrite Hb.
  clear Hb. induction os as [|x os IH]; [destruct Ho|]. cbn in Hnd. inversion Hnd as [|? ? Hx Hnd']; subst. cbn.
  destruct Ho as [->|Ho]; [rewrite Z.eqb_refl; reflexivity|].
  destruct (aid x =? aid o) eqn:E; [|apply IH; assumption].
  apply Z.eqb_eq in E. exfalso. apply Hx. rewrite E. apply in_map. exact Ho.
Qed.

Lemma born_as_none : forall s os id, repr s os -> ~ In id (aids os) -> born_as s id = None.
Proof.
  intros s os id [_ [_ [Hb _]]] H. unfold born_as. rewrite Hb. clear Hb.
  induction os as [|x os IH]; [reflexivity|]. cbn in *.
  destruct (aid x =? id) eqn:E; [apply Z.eqb_eq in E; tauto|]. apply IH. tauto.
Qed.

Lemma val_of_repr : forall s os o l, repr s os -> In o os -> memc l (chain (ak o)) = true ->
  val_of s l (aid o) = av o l.
Proof.
  intros s os o l Hr Ho Hm. unfold val_of.
  assert (Hnd : NoDup (aids os)) by (destruct Hr; assumption).
  rewrite (find_tab s os (aid o) o l Hr (afind_in os o Hnd Ho)), Hm. reflexivity.
Qed.

Lemma feval_repr : forall s os o k f, repr s os -> In o os -> memc k (chain (ak o)) = true -> fvis k f = true ->
  feval s f (aid o) = afeval f o.
Proof.
  intros s os o k f Hr Ho Hk. induction f as [|c op v|op v|f1 IH1 f2 IH2|f1 IH1 f2 IH2|f1 IH1]; intro Hv; cbn in *.
  - reflexivity.
  - rewrite (val_of_repr s os o c Hr Ho); [reflexivity|]. eapply sub_trans; eassumption.
  - reflexivity.
  - apply andb_true_iff in Hv. destruct Hv. rewrite IH1, IH2 by assumption. reflexivity.
  - apply andb_true_iff in Hv. destruct Hv. rewrite IH1, IH2 by assumption. reflexivity.
  - rewrite IH1 by assumption. reflexivity.
Qed.

Lemma obj_of_vals : forall s os o, repr s os -> In o os ->
  obj_of o = mkobj (aid o) (ak o) (map (fun l => val_of s l (aid o)) (chain (ak o))).
Proof.
  intros s os o Hr Ho. unfold obj_of. f_equal. apply map_ext_in. intros l Hl. symmetry.
  apply (val_of_repr s os o l Hr Ho). apply memc_In. exact Hl.
Qed.

Theorem select_own_kind_repr : forall s os k f, repr s os -> fvis k f = true ->
  exists objs from,
    run_select s KA (select_clause k f) = RObjs objs (Z.of_nat (length objs)) from /\
    map oid objs = filter (fun id => kind_of s k id && ftrue s f id) (ids (tA s)) /\
    forall ob, In ob objs ->
      born_as s (oid ob) = Some (ocls ob) /\ memc k (chain (ocls ob)) = true /\
      ovals ob = map (fun l => val_of s l (oid ob)) (chain (ocls ob)).
Proof.
  intros s os k f Hr Hv. destruct (run_select_root s os k f Hr Hv) as [from Hrun].
  exists (map obj_of (filter (asel k f) os)), from. split; [|split].
  - rewrite Hrun, map_length. reflexivity.
  - assert (tA s = tab s KA) as -> by reflexivity.
    destruct Hr as [Hnd [Ht Hrest]]. rewrite Ht, proj_root_ids. unfold aids. rewrite filter_map_comm, map_map. cbn [oid obj_of].
    f_equal. apply filter_ext_in'. intros o Ho. unfold asel, kind_of.
    assert (Hr : repr s os) by (split; [|split]; assumption).
    rewrite (born_as_repr s os o Hr Ho).
    destruct (memc k (chain (ak o))) eqn:Hk; [|reflexivity]. cbn [andb].
    unfold atrue, ftrue. rewrite (feval_repr s os o k f Hr Ho Hk Hv). reflexivity.
  - intros ob Hob. apply in_map_iff in Hob. destruct Hob as [o [<- Ho]]. apply filter_In in Ho. destruct Ho as [Ho Hs].
    cbn [oid ocls ovals obj_of]. split; [apply (born_as_repr s os o Hr Ho)|]. split.
    + unfold asel in Hs. apply andb_true_iff in Hs. tauto.
    + apply map_ext_in. intros l Hl. symmetry. apply (val_of_repr s os o l Hr Ho). apply memc_In. exact Hl.
Qed.
