(* C19: the theorems over whole histories of the plain-class model. *)
From Coq Require Import List ZArith NArith Bool Lia.
From Model Require Import Events.
From Proofs Require Import EventsBase EventsStep.
Import ListNotations.
Open Scope Z_scope.

(* every record of a run is a step from its pre-state; under the guard all
   pre-states are clean *)
Definition is_step (g : cfg) (r : srec) : Prop :=
  r_out r = snd (fst (step g (r_pre r) (r_op r))) /\ r_tr r = snd (step g (r_pre r) (r_op r))
  /\ r_post r = fst (fst (step g (r_pre r) (r_op r))).

Lemma run_is_step g : forall ops st r, In r (run g st ops) -> is_step g r.
Proof.
  induction ops as [|o rest IH]; intros st r H; simpl in H; [contradiction|].
  destruct H as [H|H]; [subst r; repeat split|exact (IH _ _ H)].
Qed.

Lemma hist_spec g ops r :
  In r (run g init ops) -> succeeded (r_out r) = true ->
  r_tr r = spec_events g (r_pre r) (r_op r).
Proof.
  intros Hin Hs. destruct (run_is_step g ops init r Hin) as [H1 [H2 _]].
  rewrite H2. apply step_spec. rewrite <- H1. exact Hs.
Qed.

Lemma hist_spec_concat g ops :
  concat (map r_tr (filter (fun r => succeeded (r_out r)) (run g init ops)))
  = concat (map (fun r => spec_events g (r_pre r) (r_op r)) (filter (fun r => succeeded (r_out r)) (run g init ops))).
Proof.
  f_equal. apply map_ext_in. intros r Hr. apply filter_In in Hr. destruct Hr as [Hin Hs].
  apply (hist_spec g ops r Hin Hs).
Qed.

Lemma hist_fetch g ops r :
  In r (run g init ops) -> is_fetch (r_op r) = true -> r_tr r = [] /\ r_post r = r_pre r.
Proof.
  intros Hin Hf. destruct (run_is_step g ops init r Hin) as [_ [H2 H3]].
  rewrite H2, H3. apply fetch_silent. exact Hf.
Qed.

Lemma hist_table g ops r :
  In r (run g init ops) -> succeeded (r_out r) = true ->
  k_tbl (ks (r_post r) (op_cls (r_op r))) = spec_table g (r_pre r) (r_op r)
  /\ forall k id, op_target (r_op r) = Some (k, id) -> pend_of (r_post r) k id = spec_pend g (r_pre r) (r_op r).
Proof.
  intros Hin Hs. destruct (run_is_step g ops init r Hin) as [H1 [_ H3]]. rewrite H3. rewrite H1 in Hs. split.
  - apply step_table; assumption.
  - intros k id Ht. apply step_pend; assumption.
Qed.

(* ------------------------------------------------------------------ shape facts about the specification *)
Ltac pieces :=
  repeat rewrite existsb_app;
  rewrite ?no_write_sig_events, ?no_write_run_posts, ?no_write_after_part, ?no_sig_run_posts;
  rewrite ?no_other_sig_events by reflexivity;
  rewrite ?no_other_sig_after_part by reflexivity.

Lemma spec_posts_last g st o : posts_last (spec_events g st o) = true.
Proof.
  destruct o as [k kw0|k id c v|k id kw0|k id|k id|k id fr|k|k id|k id|k id]; unfold spec_events.
  - rewrite posts_last_app_nopost by apply no_post_sig_events. simpl app.
    cbn [posts_last]. rewrite andb_true_l.
    apply posts_last_run_posts; [apply no_write_after_part|apply no_other_sig_after_part; reflexivity|apply posts_last_after_part].
  - rewrite posts_last_app_nopost by apply no_post_sig_events.
    destruct (is_lazy k); [reflexivity|]. destruct (is_nil _); simpl app; cbn [posts_last]; apply posts_last_after_part.
  - rewrite posts_last_app_nopost by apply no_post_sig_events.
    destruct (is_lazy k); [reflexivity|]. destruct (is_nil _); simpl app; cbn [posts_last]; apply posts_last_after_part.
  - destruct (is_nil _); [reflexivity|]. simpl app. cbn [posts_last]. apply posts_last_after_part.
  - rewrite posts_last_app_nopost by apply no_post_sig_events. simpl app.
    cbn [posts_last]. rewrite andb_true_l.
    apply posts_last_run_posts; [apply no_write_after_part|apply no_other_sig_after_part; reflexivity|apply posts_last_after_part].
  - reflexivity.
  - reflexivity.
  - reflexivity.
  - destruct (is_nil _); [reflexivity|]. simpl app. cbn [posts_last]. apply posts_last_after_part.
  - destruct (is_nil _); [reflexivity|]. simpl app. cbn [posts_last]. apply posts_last_after_part.
Qed.

Lemma oa_write {K} sb sa (w : write K) : ordered_around sb sa [EWrite w] = true.
Proof. simpl. destruct (is_sig sa (EWrite w)); reflexivity. Qed.

Ltac oa :=
  repeat rewrite ordered_around_app; pieces;
  rewrite ?(ordered_around_nowrite _ _ (sig_events _ _ _ _ _)) by apply no_write_sig_events;
  rewrite ?(ordered_around_nowrite _ _ (run_posts _ _ _ _)) by apply no_write_run_posts;
  rewrite ?(ordered_around_nowrite _ _ (after_part _ _ _ _)) by apply no_write_after_part;
  rewrite ?oa_write; reflexivity.

Lemma spec_ordered g st o :
  ordered_around (fst (around o)) (snd (around o)) (spec_events g st o) = true.
Proof.
  destruct o as [k kw0|k id c v|k id kw0|k id|k id|k id fr|k|k id|k id|k id]; unfold spec_events, around, fst, snd.
  - oa.
  - destruct (is_lazy k).
    + rewrite app_nil_r. apply ordered_around_nowrite, no_write_sig_events.
    + destruct (is_nil _); [simpl app|]; oa.
  - destruct (is_lazy k).
    + rewrite app_nil_r. apply ordered_around_nowrite, no_write_sig_events.
    + destruct (is_nil _); [simpl app|]; oa.
  - destruct (is_nil _); [reflexivity|]. oa.
  - oa.
  - reflexivity.
  - reflexivity.
  - reflexivity.
  - destruct (is_nil _); [reflexivity|]. oa.
  - destruct (is_nil _); [reflexivity|]. oa.
Qed.

Lemma count_single_write {K} (f : ev K -> bool) (w : write K) : f (EWrite w) = false -> count f [EWrite w] = 0%nat.
Proof. intros H. unfold count. simpl. rewrite H. reflexivity. Qed.

Ltac counts :=
  repeat rewrite count_app;
  rewrite ?count_sig_events, ?count_after_part, ?count_run_posts;
  rewrite ?count_single_write by reflexivity; rewrite ?count_nil.

Lemma spec_counts g st o s i :
  count (is_sig_to s i) (spec_events g st o)
  = if owed st o s then count (fun p : Z * act => Z.eqb i (fst p)) (sel s (tab g (op_cls o))) else 0%nat.
Proof.
  destruct o as [k kw0|k id c v|k id kw0|k id|k id|k id fr|k|k id|k id|k id]; unfold spec_events, owed, before_sig, after_sig, op_cls.
  - counts. destruct s; simpl; lia.
  - destruct (is_lazy k); [|destruct (is_nil _)]; counts; destruct s; simpl; lia.
  - destruct (is_lazy k); [|destruct (is_nil _)]; counts; destruct s; simpl; lia.
  - destruct (is_nil (pend_of st k id)); counts; destruct s; simpl; lia.
  - counts. destruct s; simpl; lia.
  - reflexivity.
  - reflexivity.
  - reflexivity.
  - destruct (is_nil (pend_of st k id)); counts; destruct s; simpl; lia.
  - destruct (is_nil (pend_of st k id)); counts; destruct s; simpl; lia.
Qed.

Lemma hist_once g ops r s a i :
  In r (run g init ops) -> succeeded (r_out r) = true ->
  In (i, (s, a)) (tab g (op_cls (r_op r))) ->
  count (is_sig_to s i) (r_tr r) = if owed (r_pre r) (r_op r) s then 1%nat else 0%nat.
Proof.
  intros Hin Hs Hl. rewrite (hist_spec g ops r Hin Hs), spec_counts.
  destruct (owed _ _ _); [|reflexivity]. unfold tab in *. eapply count_sel_number. exact Hl.
Qed.

Lemma hist_nobody_else g ops r s i :
  In r (run g init ops) -> succeeded (r_out r) = true ->
  (forall a, ~ In (i, (s, a)) (tab g (op_cls (r_op r)))) ->
  count (is_sig_to s i) (r_tr r) = 0%nat.
Proof.
  intros Hin Hs Hl. rewrite (hist_spec g ops r Hin Hs), spec_counts.
  destruct (owed _ _ _); [|reflexivity]. unfold tab in *. apply count_sel_number_other. exact Hl.
Qed.

(* ------------------------------------------------------------------ create events belong to creations, in every state *)
Lemma set_core_no_create g k id pend fired sup kw s :
  sig_eqb s SUpdate = false -> sig_eqb s SUpdated = false ->
  existsb (is_sig s) (u_tr (set_core g k id pend fired sup kw)) = false.
Proof.
  intros H1 H2. unfold set_core.
  destruct (negb sup && is_some (raiser fired (sel SUpdate (tab g k)))); cbn [u_tr];
    [apply no_other_sig_events; exact H1|].
  destruct sup; destruct (negb (validate _)); try destruct (is_lazy k); try destruct (is_nil _); cbn [u_tr];
    repeat rewrite existsb_app; rewrite ?(no_other_sig_events _ _ _ _ _ _ H1), ?(no_other_sig_after_x _ _ _ _ _ _ H2);
    reflexivity.
Qed.

Lemma assign_core_no_create g k id pend fired c v s :
  sig_eqb s SUpdate = false -> sig_eqb s SUpdated = false ->
  existsb (is_sig s) (u_tr (assign_core g k id pend fired c v)) = false.
Proof. intros H1 H2. rewrite assign_core_is_set. apply set_core_no_create; assumption. Qed.

Lemma step_no_create g st o s :
  is_create o = false -> (s = SCreate \/ s = SCreated) -> existsb (is_sig s) (snd (step g st o)) = false.
Proof.
  intros Ho Hs.
  assert (H1 : sig_eqb s SUpdate = false) by (destruct Hs; subst; reflexivity).
  assert (H2 : sig_eqb s SUpdated = false) by (destruct Hs; subst; reflexivity).
  assert (H3 : sig_eqb s SDestroy = false) by (destruct Hs; subst; reflexivity).
  assert (H4 : sig_eqb s SDestroyed = false) by (destruct Hs; subst; reflexivity).
  destruct o as [k kw0|k id c v|k id kw0|k id|k id|k id fr|k|k id|k id|k id]; simpl in Ho; try discriminate; unfold step, with_handle.
  - destruct (h_get id _) as [h|]; [|reflexivity]. unfold commit_ures. cbn [snd fst]. apply assign_core_no_create; assumption.
  - destruct (h_get id _) as [h|]; [|reflexivity]. unfold commit_ures. cbn [snd fst]. apply set_core_no_create; assumption.
  - destruct (h_get id _) as [h|]; [|reflexivity]. unfold commit_ures, sync_core. cbn [snd fst].
    destruct (is_nil _); cbn [u_tr]; [reflexivity|].
    rewrite existsb_app, (no_other_sig_after_x _ _ _ _ _ _ H2). reflexivity.
  - destruct (h_get id _) as [h|]; [|reflexivity].
    destruct (raiser _ (sel SDestroy (tab g k))); cbn [snd fst]; [apply no_other_sig_events; exact H3|].
    repeat rewrite existsb_app.
    rewrite (no_other_sig_events _ _ _ _ _ _ H3), no_other_sig_posts_x.
    destruct (p_raised (posts_x _ SDestroy k id _)); cbn [p_tr]; [reflexivity|].
    rewrite (no_other_sig_after_x _ _ _ _ _ _ H4). reflexivity.
  - destruct (tbl_has id _); reflexivity.
  - reflexivity.
  - destruct (h_get id _) as [h|]; reflexivity.
  - destruct (h_get id _) as [h|]; [|reflexivity]. cbv zeta.
    assert (Hx : existsb (is_sig s) (u_tr (sync_core g k id (h_pend h) (k_fired (ks st k)))) = false).
    { unfold sync_core. destruct (is_nil _); cbn [u_tr]; [reflexivity|].
      rewrite existsb_app, (no_other_sig_after_x _ _ _ _ _ _ H2). reflexivity. }
    destruct (u_out (sync_core g k id (h_pend h) (k_fired (ks st k)))); try (unfold commit_ures; cbn [snd fst]; exact Hx).
    destruct (tbl_has id _); [unfold commit_ures; cbn [snd fst]; exact Hx|cbn [snd fst]; exact Hx].
  - destruct (h_get id _) as [h|]; [|reflexivity]. unfold commit_ures, sync_core. cbn [snd fst].
    destruct (is_nil _); cbn [u_tr]; [reflexivity|].
    rewrite existsb_app, (no_other_sig_after_x _ _ _ _ _ _ H2). reflexivity.
Qed.

Lemma hist_no_create g ops r s :
  In r (run g init ops) -> is_create (r_op r) = false -> (s = SCreate \/ s = SCreated) ->
  existsb (is_sig s) (r_tr r) = false.
Proof.
  intros Hin Ho Hs. destruct (run_is_step g ops init r Hin) as [_ [H2 _]]. rewrite H2.
  apply step_no_create; assumption.
Qed.

(* ================================================================== *)
(* the flush points and the discard point of a lazy instance           *)

Lemma pend_of_other st k0 x k id : k0 <> k -> pend_of (set_ks st k0 x) k id = pend_of st k id.
Proof. intros H. unfold pend_of. rewrite ks_set_other by exact H. reflexivity. Qed.
Lemma pend_of_same st k x id :
  pend_of (set_ks st k x) k id = match h_get id (k_hs x) with Some h => h_pend h | None => [] end.
Proof. unfold pend_of. rewrite ks_set_same. reflexivity. Qed.
Lemma cls_eqb_eq a b : cls_eqb a b = true <-> a = b.
Proof. destruct a, b; simpl; split; intros H; try reflexivity; discriminate. Qed.

(* what an operation on (k0, id0) that ends in commit_ures leaves of the queue of (k, id) *)
Lemma pend_commit st k0 id0 r k id :
  pend_of (fst (fst (commit_ures st k0 id0 r))) k id
  = if cls_eqb k k0 && Z.eqb id id0 then u_pend r else pend_of st k id.
Proof.
  unfold commit_ures. cbn [fst].
  destruct (cls_dec k0 k) as [->|Hn].
  - rewrite pend_of_same. cbn [k_hs]. replace (cls_eqb k k) with true by (destruct k; reflexivity). cbn [andb].
    destruct (Z.eqb id id0) eqn:E.
    + apply Z.eqb_eq in E. subst id0. rewrite h_get_put_same. reflexivity.
    + apply Z.eqb_neq in E. rewrite h_get_put_other by exact E. reflexivity.
  - rewrite pend_of_other by exact Hn.
    destruct (cls_eqb k k0) eqn:E; [apply cls_eqb_eq in E; subst k0; contradiction|reflexivity].
Qed.

(* expire(): nothing is delivered, nothing is written, the queue of the
   instance is dropped, no other queue is touched *)
Lemma step_expire g st k id :
  snd (step g st (OExpire k id)) = []
  /\ (forall k', k_tbl (ks (fst (fst (step g st (OExpire k id)))) k') = k_tbl (ks st k'))
  /\ pend_of (fst (fst (step g st (OExpire k id)))) k id = []
  /\ (forall k' id', (k' <> k \/ id' <> id) ->
        pend_of (fst (fst (step g st (OExpire k id)))) k' id' = pend_of st k' id')
  /\ (snd (fst (step g st (OExpire k id))) = Done \/ snd (fst (step g st (OExpire k id))) = NoHandle).
Proof.
  unfold step, with_handle. destruct (h_get id (k_hs (ks st k))) as [h|] eqn:Hh; cbn [fst snd].
  - repeat split.
    + intros k'. destruct (cls_dec k k') as [->|Hn]; [rewrite ks_set_same|rewrite ks_set_other by exact Hn]; reflexivity.
    + rewrite pend_of_same. cbn [k_hs]. rewrite h_get_put_same. reflexivity.
    + intros k' id' Hne. destruct (cls_dec k k') as [<-|Hn]; [|apply pend_of_other; exact Hn].
      rewrite pend_of_same. cbn [k_hs]. destruct Hne as [Hne|Hne]; [contradiction|].
      rewrite h_get_put_other by exact Hne. reflexivity.
    + left. reflexivity.
  - repeat split; try reflexivity.
    + unfold pend_of. rewrite Hh. reflexivity.
    + right. reflexivity.
Qed.

Lemma hist_expire g ops r k id :
  In r (run g init ops) -> r_op r = OExpire k id ->
  r_tr r = []
  /\ (forall k', k_tbl (ks (r_post r) k') = k_tbl (ks (r_pre r) k'))
  /\ pend_of (r_post r) k id = []
  /\ (forall k' id', (k' <> k \/ id' <> id) -> pend_of (r_post r) k' id' = pend_of (r_pre r) k' id')
  /\ (r_out r = Done \/ r_out r = NoHandle).
Proof.
  intros Hin Hop. destruct (run_is_step g ops init r Hin) as [H1 [H2 H3]]. rewrite H1, H2, H3, Hop.
  apply step_expire.
Qed.

(* the three flush points *)
Lemma flush_cases o k id : is_flush_of o k id = true -> o = OSync k id \/ o = OSyncFull k id \/ o = OPickle k id.
Proof.
  destruct o; cbn [is_flush_of]; try discriminate; intros H; apply andb_true_iff in H; destruct H as [H1 H2];
    apply cls_eqb_eq in H1; apply Z.eqb_eq in H2; subst; auto.
Qed.

Lemma hist_flush g ops r k id :
  In r (run g init ops) -> is_flush_of (r_op r) k id = true -> succeeded (r_out r) = true ->
  r_tr r = flush_events g k id (pend_of (r_pre r) k id)
  /\ k_tbl (ks (r_post r) k) = tbl_update id (sort_cols (pend_of (r_pre r) k id)) (k_tbl (ks (r_pre r) k))
  /\ pend_of (r_post r) k id = [].
Proof.
  intros Hin Hf Hs. pose proof (hist_spec g ops r Hin Hs) as Hsp. destruct (hist_table g ops r Hin Hs) as [Ht Hp].
  destruct (flush_cases _ _ _ Hf) as [E|[E|E]]; rewrite E in *; cbn [op_cls op_target] in *;
    (split; [exact Hsp|split; [exact Ht|exact (Hp k id eq_refl)]]).
Qed.

(* an empty queue stays empty until the instance is assigned to again *)
Lemma sync_core_pend_nil g k id fired : u_pend (sync_core g k id [] fired) = [] /\ u_tr (sync_core g k id [] fired) = [].
Proof. split; reflexivity. Qed.

Lemma step_keeps_empty_queue g st o k id :
  queues_for o k id = false -> pend_of st k id = [] -> pend_of (fst (fst (step g st o))) k id = [].
Proof.
  intros Hq He.
  assert (Hh : forall h, h_get id (k_hs (ks st k)) = Some h -> h_pend h = []).
  { intros h Hh. unfold pend_of in He. rewrite Hh in He. exact He. }
  destruct o as [k0 kw0|k0 id0 c v|k0 id0 kw0|k0 id0|k0 id0|k0 id0 fr|k0|k0 id0|k0 id0|k0 id0]; unfold step.
  - destruct (raiser _ (sel SCreate (tab g k0))).
    + cbn [fst]. destruct (cls_dec k0 k) as [->|Hn]; [rewrite pend_of_same; exact He|rewrite pend_of_other by exact Hn; exact He].
    + destruct (fill_defaults all_cols _); [|exact He]. destruct (negb (validate _)); [exact He|]. cbn [fst].
      destruct (cls_dec k0 k) as [->|Hn]; [|rewrite pend_of_other by exact Hn; exact He].
      rewrite pend_of_same. cbn [k_hs]. destruct (_ && _); [|exact He].
      destruct (Z.eq_dec id (k_next (ks st k))) as [->|Hne]; [rewrite h_get_put_same; reflexivity|].
      rewrite h_get_put_other by exact Hne. exact He.
  - unfold with_handle. destruct (h_get id0 _); [|exact He]. rewrite pend_commit.
    cbn [queues_for] in Hq. rewrite Hq. exact He.
  - unfold with_handle. destruct (h_get id0 _); [|exact He]. rewrite pend_commit.
    cbn [queues_for] in Hq. rewrite Hq. exact He.
  - unfold with_handle. destruct (h_get id0 (k_hs (ks st k0))) as [h|] eqn:E; [|exact He]. rewrite pend_commit.
    destruct (cls_eqb k k0 && Z.eqb id id0) eqn:E2; [|exact He].
    apply andb_true_iff in E2. destruct E2 as [E2 E3]. apply cls_eqb_eq in E2. apply Z.eqb_eq in E3. subst k0 id0.
    rewrite (Hh _ E). reflexivity.
  - unfold with_handle. destruct (h_get id0 _); [|exact He].
    destruct (raiser _ (sel SDestroy (tab g k0))); cbn [fst];
      (destruct (cls_dec k0 k) as [->|Hn]; [rewrite pend_of_same; exact He|rewrite pend_of_other by exact Hn; exact He]).
  - destruct (tbl_has id0 _); exact He.
  - exact He.
  - unfold with_handle. destruct (h_get id0 _); [|exact He]. cbn [fst].
    destruct (cls_dec k0 k) as [->|Hn]; [|rewrite pend_of_other by exact Hn; exact He].
    rewrite pend_of_same. cbn [k_hs].
    destruct (Z.eq_dec id id0) as [->|Hne]; [rewrite h_get_put_same; reflexivity|].
    rewrite h_get_put_other by exact Hne. exact He.
  - unfold with_handle. destruct (h_get id0 (k_hs (ks st k0))) as [h|] eqn:E; [|exact He]. cbv zeta.
    assert (Hx : pend_of (fst (fst (commit_ures st k0 id0 (sync_core g k0 id0 (h_pend h) (k_fired (ks st k0)))))) k id = []).
    { rewrite pend_commit. destruct (cls_eqb k k0 && Z.eqb id id0) eqn:E2; [|exact He].
      apply andb_true_iff in E2. destruct E2 as [E2 E3]. apply cls_eqb_eq in E2. apply Z.eqb_eq in E3. subst k0 id0.
      rewrite (Hh _ E). reflexivity. }
    destruct (u_out _); try exact Hx. destruct (tbl_has id0 _); exact Hx.
  - unfold with_handle. destruct (h_get id0 (k_hs (ks st k0))) as [h|] eqn:E; [|exact He]. rewrite pend_commit.
    destruct (cls_eqb k k0 && Z.eqb id id0) eqn:E2; [|exact He].
    apply andb_true_iff in E2. destruct E2 as [E2 E3]. apply cls_eqb_eq in E2. apply Z.eqb_eq in E3. subst k0 id0.
    rewrite (Hh _ E). reflexivity.
Qed.

Lemma exec_keeps_empty_queue g k id : forall mid st,
  (forall o, In o mid -> queues_for o k id = false) -> pend_of st k id = [] -> pend_of (exec g st mid) k id = [].
Proof.
  induction mid as [|o r IH]; intros st Hq He; [exact He|].
  unfold exec. cbn [fold_left]. apply IH.
  - intros o' Ho. apply Hq. right. exact Ho.
  - apply step_keeps_empty_queue; [apply Hq; left; reflexivity|exact He].
Qed.

(* a flush of an empty queue: no event, no write *)
Lemma step_flush_empty g st o k id :
  is_flush_of o k id = true -> pend_of st k id = [] -> snd (step g st o) = [].
Proof.
  intros Hf He. unfold pend_of in He.
  destruct (flush_cases _ _ _ Hf) as [E|[E|E]]; subst o; unfold step, with_handle;
    destruct (h_get id (k_hs (ks st k))) as [h|]; try reflexivity; rewrite He; try reflexivity.
  cbv zeta. cbn [sync_core is_nil u_out u_tr]. destruct (tbl_has id _); reflexivity.
Qed.

(* what expire() dropped is never written: whatever happens in between, as long
   as the instance is not assigned to again, its next flush writes nothing and
   delivers nothing *)
Lemma expired_queue_never_written g ops k id mid o :
  (forall o', In o' mid -> queues_for o' k id = false) -> is_flush_of o k id = true ->
  snd (step g (exec g init (ops ++ OExpire k id :: mid)) o) = [].
Proof.
  intros Hq Hf. apply (step_flush_empty g _ o k id Hf).
  unfold exec. rewrite fold_left_app. cbn [fold_left].
  apply (exec_keeps_empty_queue g k id mid _ Hq).
  destruct (step_expire g (fold_left (fun s o0 => fst (fst (step g s o0))) ops init) k id) as [_ [_ [H _]]]. exact H.
Qed.

(* the final state of a history, as `run` reports it *)
Lemma run_last_post g : forall ops st d,
  r_post (last (run g st ops) d) = match ops with [] => r_post d | _ => exec g st ops end.
Proof.
  induction ops as [|o r IH]; intros st d; [reflexivity|].
  cbn [run]. destruct r as [|o' r'].
  - reflexivity.
  - specialize (IH (fst (fst (step g st o))) d). cbn [run] in *. cbn [last] in *. rewrite IH. reflexivity.
Qed.

(* the operations after an expire() are ordinary ones *)
Lemma hist_after_expire g ops1 k id ops2 r :
  In r (run g init (ops1 ++ OExpire k id :: ops2)) -> succeeded (r_out r) = true ->
  r_tr r = spec_events g (r_pre r) (r_op r)
  /\ k_tbl (ks (r_post r) (op_cls (r_op r))) = spec_table g (r_pre r) (r_op r).
Proof.
  intros Hin Hs. split; [exact (hist_spec g _ r Hin Hs)|exact (proj1 (hist_table g _ r Hin Hs))].
Qed.
