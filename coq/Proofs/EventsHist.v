(* C19: the theorems over whole histories of the plain-class model. *)
From Coq Require Import List ZArith NArith Bool Lia.
From Model Require Import Events.
From Proofs Require Import EventsBase EventsStep.
Import ListNotations.
Open Scope Z_scope.

(* every record of a run is a step from its pre-state; under the guard all
   pre-states are clean *)
Definition is_step (g : cfg) (r : srec) : Prop :=
  r_out r = snd (fst (step g (r_pre r) (r_op r))) /\ r_tr r = snd (step g (r_pre r) (r_op r))
  /\ r_post r = fst (fst (step g (r_pre r) (r_op r))).

Lemma run_is_step g : forall ops st r, In r (run g st ops) -> is_step g r.
Proof.
  induction ops as [|o rest IH]; intros st r H; simpl in H; [contradiction|].
  destruct H as [H|H]; [subst r; repeat split|exact (IH _ _ H)].
Qed.

Lemma hist_spec g ops r :
  In r (run g init ops) -> succeeded (r_out r) = true ->
  r_tr r = spec_events g (r_pre r) (r_op r).
Proof.
  intros Hin Hs. destruct (run_is_step g ops init r Hin) as [H1 [H2 _]].
  rewrite H2. apply step_spec. rewrite <- H1. exact Hs.
Qed.

Lemma hist_spec_concat g ops :
  concat (map r_tr (filter (fun r => succeeded (r_out r)) (run g init ops)))
  = concat (map (fun r => spec_events g (r_pre r) (r_op r)) (filter (fun r => succeeded (r_out r)) (run g init ops))).
Proof.
  f_equal. apply map_ext_in. intros r Hr. apply filter_In in Hr. destruct Hr as [Hin Hs].
  apply (hist_spec g ops r Hin Hs).
Qed.

Lemma hist_fetch g ops r :
  In r (run g init ops) -> is_fetch (r_op r) = true -> r_tr r = [] /\ r_post r = r_pre r.
Proof.
  intros Hin Hf. destruct (run_is_step g ops init r Hin) as [_ [H2 H3]].
  rewrite H2, H3. apply fetch_silent. exact Hf.
Qed.

Lemma hist_table g ops r :
  In r (run g init ops) -> succeeded (r_out r) = true ->
  k_tbl (ks (r_post r) (op_cls (r_op r))) = spec_table g (r_pre r) (r_op r)
  /\ forall k id, op_target (r_op r) = Some (k, id) -> pend_of (r_post r) k id = spec_pend g (r_pre r) (r_op r).
Proof.
  intros Hin Hs. destruct (run_is_step g ops init r Hin) as [H1 [_ H3]]. rewrite H3. rewrite H1 in Hs. split.
  - apply step_table; assumption.
  - intros k id Ht. apply step_pend; assumption.
Qed.

(* ------------------------------------------------------------------ shape facts about the specification *)
Ltac pieces :=
  repeat rewrite existsb_app;
  rewrite ?no_write_sig_events, ?no_write_run_posts, ?no_write_after_part, ?no_sig_run_posts;
  rewrite ?no_other_sig_events by reflexivity;
  rewrite ?no_other_sig_after_part by reflexivity.

Lemma spec_posts_last g st o : posts_last (spec_events g st o) = true.
Proof.
  destruct o as [k kw0|k id c v|k id kw0|k id|k id|k id fr|k|k id|k id]; unfold spec_events.
  - rewrite posts_last_app_nopost by apply no_post_sig_events. simpl app.
    cbn [posts_last]. rewrite andb_true_l.
    apply posts_last_run_posts; [apply no_write_after_part|apply no_other_sig_after_part; reflexivity|apply posts_last_after_part].
  - rewrite posts_last_app_nopost by apply no_post_sig_events.
    destruct (is_lazy k); [reflexivity|]. destruct (is_nil _); simpl app; cbn [posts_last]; apply posts_last_after_part.
  - rewrite posts_last_app_nopost by apply no_post_sig_events.
    destruct (is_lazy k); [reflexivity|]. destruct (is_nil _); simpl app; cbn [posts_last]; apply posts_last_after_part.
  - destruct (is_nil _); [reflexivity|]. simpl app. cbn [posts_last]. apply posts_last_after_part.
  - rewrite posts_last_app_nopost by apply no_post_sig_events. simpl app.
    cbn [posts_last]. rewrite andb_true_l.
    apply posts_last_run_posts; [apply no_write_after_part|apply no_other_sig_after_part; reflexivity|apply posts_last_after_part].
  - reflexivity.
  - reflexivity.
  - reflexivity.
  - destruct (is_nil _); [reflexivity|]. simpl app. cbn [posts_last]. apply posts_last_after_part.
Qed.

Lemma oa_write {K} sb sa (w : write K) : ordered_around sb sa [EWrite w] = true.
Proof. simpl. destruct (is_sig sa (EWrite w)); reflexivity. Qed.

Ltac oa :=
  repeat rewrite ordered_around_app; pieces;
  rewrite ?(ordered_around_nowrite _ _ (sig_events _ _ _ _ _)) by apply no_write_sig_events;
  rewrite ?(ordered_around_nowrite _ _ (run_posts _ _ _ _)) by apply no_write_run_posts;
  rewrite ?(ordered_around_nowrite _ _ (after_part _ _ _ _)) by apply no_write_after_part;
  rewrite ?oa_write; reflexivity.

Lemma spec_ordered g st o :
  ordered_around (fst (around o)) (snd (around o)) (spec_events g st o) = true.
Proof.
  destruct o as [k kw0|k id c v|k id kw0|k id|k id|k id fr|k|k id|k id]; unfold spec_events, around, fst, snd.
  - oa.
  - destruct (is_lazy k).
    + rewrite app_nil_r. apply ordered_around_nowrite, no_write_sig_events.
    + destruct (is_nil _); [simpl app|]; oa.
  - destruct (is_lazy k).
    + rewrite app_nil_r. apply ordered_around_nowrite, no_write_sig_events.
    + destruct (is_nil _); [simpl app|]; oa.
  - destruct (is_nil _); [reflexivity|]. oa.
  - oa.
  - reflexivity.
  - reflexivity.
  - reflexivity.
  - destruct (is_nil _); [reflexivity|]. oa.
Qed.

Lemma count_single_write {K} (f : ev K -> bool) (w : write K) : f (EWrite w) = false -> count f [EWrite w] = 0%nat.
Proof. intros H. unfold count. simpl. rewrite H. reflexivity. Qed.

Ltac counts :=
  repeat rewrite count_app;
  rewrite ?count_sig_events, ?count_after_part, ?count_run_posts;
  rewrite ?count_single_write by reflexivity; rewrite ?count_nil.

Lemma spec_counts g st o s i :
  count (is_sig_to s i) (spec_events g st o)
  = if owed st o s then count (fun p : Z * act => Z.eqb i (fst p)) (sel s (tab g (op_cls o))) else 0%nat.
Proof.
  destruct o as [k kw0|k id c v|k id kw0|k id|k id|k id fr|k|k id|k id]; unfold spec_events, owed, before_sig, after_sig, op_cls.
  - counts. destruct s; simpl; lia.
  - destruct (is_lazy k); [|destruct (is_nil _)]; counts; destruct s; simpl; lia.
  - destruct (is_lazy k); [|destruct (is_nil _)]; counts; destruct s; simpl; lia.
  - destruct (is_nil (pend_of st k id)); counts; destruct s; simpl; lia.
  - counts. destruct s; simpl; lia.
  - reflexivity.
  - reflexivity.
  - reflexivity.
  - destruct (is_nil (pend_of st k id)); counts; destruct s; simpl; lia.
Qed.

Lemma hist_once g ops r s a i :
  In r (run g init ops) -> succeeded (r_out r) = true ->
  In (i, (s, a)) (tab g (op_cls (r_op r))) ->
  count (is_sig_to s i) (r_tr r) = if owed (r_pre r) (r_op r) s then 1%nat else 0%nat.
Proof.
  intros Hin Hs Hl. rewrite (hist_spec g ops r Hin Hs), spec_counts.
  destruct (owed _ _ _); [|reflexivity]. unfold tab in *. eapply count_sel_number. exact Hl.
Qed.

Lemma hist_nobody_else g ops r s i :
  In r (run g init ops) -> succeeded (r_out r) = true ->
  (forall a, ~ In (i, (s, a)) (tab g (op_cls (r_op r)))) ->
  count (is_sig_to s i) (r_tr r) = 0%nat.
Proof.
  intros Hin Hs Hl. rewrite (hist_spec g ops r Hin Hs), spec_counts.
  destruct (owed _ _ _); [|reflexivity]. unfold tab in *. apply count_sel_number_other. exact Hl.
Qed.

(* ------------------------------------------------------------------ create events belong to creations, in every state *)
Lemma set_core_no_create g k id pend fired sup kw s :
  sig_eqb s SUpdate = false -> sig_eqb s SUpdated = false ->
  existsb (is_sig s) (u_tr (set_core g k id pend fired sup kw)) = false.
Proof.
  intros H1 H2. unfold set_core.
  destruct (negb sup && is_some (raiser fired (sel SUpdate (tab g k)))); cbn [u_tr];
    [apply no_other_sig_events; exact H1|].
  destruct sup; destruct (negb (validate _)); try destruct (is_lazy k); try destruct (is_nil _); cbn [u_tr];
    repeat rewrite existsb_app; rewrite ?(no_other_sig_events _ _ _ _ _ _ H1), ?(no_other_sig_after_x _ _ _ _ _ _ H2);
    reflexivity.
Qed.

Lemma assign_core_no_create g k id pend fired c v s :
  sig_eqb s SUpdate = false -> sig_eqb s SUpdated = false ->
  existsb (is_sig s) (u_tr (assign_core g k id pend fired c v)) = false.
Proof. intros H1 H2. rewrite assign_core_is_set. apply set_core_no_create; assumption. Qed.

Lemma step_no_create g st o s :
  is_create o = false -> (s = SCreate \/ s = SCreated) -> existsb (is_sig s) (snd (step g st o)) = false.
Proof.
  intros Ho Hs.
  assert (H1 : sig_eqb s SUpdate = false) by (destruct Hs; subst; reflexivity).
  assert (H2 : sig_eqb s SUpdated = false) by (destruct Hs; subst; reflexivity).
  assert (H3 : sig_eqb s SDestroy = false) by (destruct Hs; subst; reflexivity).
  assert (H4 : sig_eqb s SDestroyed = false) by (destruct Hs; subst; reflexivity).
  destruct o as [k kw0|k id c v|k id kw0|k id|k id|k id fr|k|k id|k id]; simpl in Ho; try discriminate; unfold step, with_handle.
  - destruct (h_get id _) as [h|]; [|reflexivity]. unfold commit_ures. cbn [snd fst]. apply assign_core_no_create; assumption.
  - destruct (h_get id _) as [h|]; [|reflexivity]. unfold commit_ures. cbn [snd fst]. apply set_core_no_create; assumption.
  - destruct (h_get id _) as [h|]; [|reflexivity]. unfold commit_ures, sync_core. cbn [snd fst].
    destruct (is_nil _); cbn [u_tr]; [reflexivity|].
    rewrite existsb_app, (no_other_sig_after_x _ _ _ _ _ _ H2). reflexivity.
  - destruct (h_get id _) as [h|]; [|reflexivity].
    destruct (raiser _ (sel SDestroy (tab g k))); cbn [snd fst]; [apply no_other_sig_events; exact H3|].
    repeat rewrite existsb_app.
    rewrite (no_other_sig_events _ _ _ _ _ _ H3), no_other_sig_posts_x.
    destruct (p_raised (posts_x _ SDestroy k id _)); cbn [p_tr]; [reflexivity|].
    rewrite (no_other_sig_after_x _ _ _ _ _ _ H4). reflexivity.
  - destruct (tbl_has id _); reflexivity.
  - reflexivity.
  - destruct (h_get id _) as [h|]; reflexivity.
  - destruct (h_get id _) as [h|]; [|reflexivity]. cbv zeta.
    assert (Hx : existsb (is_sig s) (u_tr (sync_core g k id (h_pend h) (k_fired (ks st k)))) = false).
    { unfold sync_core. destruct (is_nil _); cbn [u_tr]; [reflexivity|].
      rewrite existsb_app, (no_other_sig_after_x _ _ _ _ _ _ H2). reflexivity. }
    destruct (u_out (sync_core g k id (h_pend h) (k_fired (ks st k)))); try (unfold commit_ures; cbn [snd fst]; exact Hx).
    destruct (tbl_has id _); [unfold commit_ures; cbn [snd fst]; exact Hx|cbn [snd fst]; exact Hx].
Qed.

Lemma hist_no_create g ops r s :
  In r (run g init ops) -> is_create (r_op r) = false -> (s = SCreate \/ s = SCreated) ->
  existsb (is_sig s) (r_tr r) = false.
Proof.
  intros Hin Ho Hs. destruct (run_is_step g ops init r Hin) as [_ [H2 _]]. rewrite H2.
  apply step_no_create; assumption.
Qed.
