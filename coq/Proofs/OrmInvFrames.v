(* Frame lemmas: the invariant survives the elementary state changes. *)
From Coq Require Import List ZArith Bool Lia ZifyBool.
From Model Require Import Orm.
From Proofs Require Import OrmBase OrmSpec OrmLazy OrmInvLists OrmInvTables OrmInvDefs.
Import ListNotations.
Open Scope Z_scope.

Section Frames.
Variable cfg : config.
Variable m : mode.

(* ok_obj only looks at heap, tables, caches *)
Lemma ok_obj_core s s' o :
  heap s' = heap s -> tables s' = tables s -> caches s' = caches s -> ok_obj m s o -> ok_obj m s' o.
Proof.
  destruct s, s'; cbn. intros -> -> -> H. exact H.
Qed.

(* F: only the set of live objects changes (slots, roots, log, fault) *)
Lemma Inv_live roots roots' s s' :
  Inv cfg m roots s ->
  heap s' = heap s -> tables s' = tables s -> caches s' = caches s -> pickles s' = pickles s ->
  (forall x, live s' roots' x -> live s roots x \/ ok_obj m s x) ->
  Inv cfg m roots' s'.
Proof.
  intros [HT HK HD HN HP HO HX HH HZ HL] Eh Et Ec Ep Hl.
  split.
  - destruct s, s'; cbn in *; subst; exact HT.
  - destruct s, s'; cbn in *; subst; exact HK.
  - destruct s, s'; cbn in *; subst; exact HD.
  - destruct s, s'; cbn in *; subst; exact HN.
  - destruct s, s'; cbn in *; subst; exact HP.
  - destruct s, s'; cbn in *; subst; exact HO.
  - destruct s, s'; cbn in *; subst; exact HX.
  - destruct s, s'; cbn in *; subst; exact HH.
  - destruct s, s'; cbn in *; subst; exact HZ.
  - intros x Hx. apply (ok_obj_core s s' x Eh Et Ec). destruct (Hl x Hx) as [H|H]; auto.
Qed.

Lemma Inv_log roots s l : Inv cfg m roots s -> Inv cfg m roots (with_log s l).
Proof. intros H. apply (Inv_live roots roots s); auto. Qed.
Lemma Inv_fault roots s f : Inv cfg m roots s -> Inv cfg m roots (with_fault s f).
Proof. intros H. apply (Inv_live roots roots s); auto. Qed.

Lemma Inv_roots_weaken roots roots' s :
  Inv cfg m roots s -> (forall x, In x roots' -> In x roots) -> Inv cfg m roots' s.
Proof.
  intros H Hi. apply (Inv_live roots roots' s); auto.
  intros x [Hx|Hx]; left; [left; auto|right; exact Hx].
Qed.

Lemma Inv_roots_add roots s o :
  Inv cfg m roots s -> ok_obj m s o -> Inv cfg m (roots ++ [o]) s.
Proof.
  intros H Ho. apply (Inv_live roots (roots ++ [o]) s); auto.
  intros x [Hx|Hx]; [|left; right; exact Hx].
  apply in_app_or in Hx. destruct Hx as [Hx|[<-|[]]]; [left; left; exact Hx|right; exact Ho].
Qed.

Lemma Inv_hold s o :
  Inv cfg m [] s -> ok_obj m s o -> Inv cfg m [] (with_slots s (slots s ++ [Some o])).
Proof.
  intros H Ho. apply (Inv_live [] [] s); auto.
  intros x [[]|[Hx|Hx]]; [|left; right; right; exact Hx].
  cbn in Hx. apply in_app_or in Hx. destruct Hx as [Hx|[Hx|[]]]; [left; right; left; exact Hx|].
  inversion Hx; subst. right. exact Ho.
Qed.

Lemma Inv_slot_none roots s :
  Inv cfg m roots s -> Inv cfg m roots (with_slots s (slots s ++ [None])).
Proof.
  intros H. apply (Inv_live roots roots s); auto.
  intros x [Hx|[Hx|Hx]]; left; [left; exact Hx| |right; right; exact Hx].
  cbn in Hx. apply in_app_or in Hx. destruct Hx as [Hx|[Hx|[]]]; [right; left; exact Hx|discriminate].
Qed.

Lemma Inv_drop roots s h :
  Inv cfg m roots s -> Inv cfg m roots (with_slots s (set_nth h None (slots s))).
Proof.
  intros H. apply (Inv_live roots roots s); auto.
  intros x [Hx|[Hx|Hx]]; left; [left; exact Hx| |right; right; exact Hx].
  cbn in Hx. apply In_set_nth in Hx. destruct Hx as [Hx|Hx]; [discriminate|right; left; exact Hx].
Qed.


(* A: the caches change by dropping or moving entries *)
Lemma Inv_caches roots s c' :
  Inv cfg m roots s ->
  let s' := with_caches s c' in
  (forall k id o, cached s' k id o -> cached s k id o) ->
  (forall k, NoDup (keys (c_strong (cch s' k)))) ->
  (doCache cfg = false -> forall k, c_strong (cch s' k) = []) ->
  (forall k, c_present (cch s k) = true -> c_present (cch s' k) = true) ->
  (forall x, live s' roots x -> live s roots x) ->
  (forall x, live s' roots x -> forall k id, registered s k id x -> registered s' k id x) ->
  Inv cfg m roots s'.
Proof.
  intros [HT HK HD HN HP HO HX HH HZ HL] s' Hsub Hnd Hn Hpres Hlive Hreg.
  split.
  - exact HT.
  - intros k id o Hc. exact (HK k id o (Hsub k id o Hc)).
  - exact Hnd.
  - exact Hn.
  - exact HP.
  - exact HO.
  - intros k id o Hc. exact (HX k id o (Hsub k id o Hc)).
  - exact HH.
  - intros k Hp id o Hc.
    assert (E : c_present (cch s k) = false).
    { destruct (c_present (cch s k)) eqn:E; [|reflexivity]. pose proof (Hpres k E) as Hq. rewrite Hq in Hp. discriminate. }
    exact (HZ k E id o (Hsub k id o Hc)).
  - intros x Hx. destruct (HL x (Hlive x Hx)) as (Hlt & Hb & Hr). split; [exact Hlt|]. split; [exact Hb|].
    intros Hcur Hrow. apply (Hreg x Hx). exact (Hr Hcur Hrow).
Qed.


(* B: a new entry (id, o) for class k: strong when caching, weak otherwise *)
Lemma Inv_cache_add roots s k id o cn :
  Inv cfg m roots s ->
  c_present cn = true ->
  ((doCache cfg = true /\ c_strong cn = assoc_set id o (c_strong (cch s k)) /\ c_weak cn = c_weak (cch s k)) \/
   (doCache cfg = false /\ c_strong cn = c_strong (cch s k) /\ c_weak cn = assoc_set id o (c_weak (cch s k)))) ->
  (o < length (heap s))%nat -> i_k (get_inst s o) = k -> i_id (get_inst s o) = id ->
  ok_base m s (get_inst s o) ->
  i_obsolete (get_inst s o) = false ->
  (forall x, live s roots x -> i_obsolete (get_inst s x) = false -> i_k (get_inst s x) = k ->
             i_id (get_inst s x) = id -> row_exists s k id -> False) ->
  let s' := with_caches s (tset k cn (caches s)) in
  Inv cfg m roots s' /\ registered s' k id o.
Proof.
  intros [HT HK HD HN HP HO HX HH HZ HL] Hpres Hcn Hlt Hk Hid Hb Hcur Hfree s'.
  assert (Esame : cch s' k = cn) by (unfold s', cch; cbn; apply tgs).
  assert (Eoth : forall k', k <> k' -> cch s' k' = cch s k') by (intros k' Hne; unfold s', cch; cbn; now apply tgo).
  assert (Hreg : registered s' k id o).
  { unfold registered. rewrite Esame. destruct Hcn as [(Hdc & Es & Ew)|(Hdc & Es & Ew)].
    - left. rewrite Es. apply assoc_set_same.
    - right. rewrite Es, Ew. rewrite (HN Hdc k). split; [reflexivity|apply assoc_set_same]. }
  assert (Hcached : forall k' id' o', cached s' k' id' o' -> cached s k' id' o' \/ (k' = k /\ id' = id /\ o' = o)).
  { intros k' id' o' Hc. destruct (kind_eq_dec k k') as [<-|Hne].
    - unfold cached in Hc. rewrite Esame in Hc.
      destruct Hcn as [(Hdc & Es & Ew)|(Hdc & Es & Ew)]; rewrite Es, Ew in Hc; destruct Hc as [Hc|Hc];
        try (left; left; exact Hc); try (left; right; exact Hc);
        apply In_assoc_set in Hc; destruct Hc as [[-> ->]|Hc]; auto; left; [left|right]; exact Hc.
    - left. unfold cached in *. rewrite (Eoth k' Hne) in Hc. exact Hc. }
  assert (Hlive : forall x, live s' roots x -> live s roots x \/ x = o).
  { intros x [Hx|[Hx|(k' & id' & Hx)]]; [left; left; exact Hx|left; right; left; exact Hx|].
    destruct (Hcached k' id' x (or_introl Hx)) as [Hc|(_ & _ & ->)]; [|right; reflexivity].
    destruct (kind_eq_dec k k') as [<-|Hne].
    - rewrite Esame in Hx. destruct Hcn as [(Hdc & Es & Ew)|(Hdc & Es & Ew)]; rewrite Es in Hx.
      + apply In_assoc_set in Hx. destruct Hx as [[_ ->]|Hx]; [right; reflexivity|left; right; right; eauto].
      + left; right; right; eauto.
    - rewrite (Eoth k' Hne) in Hx. left; right; right; eauto. }
  split; [|exact Hreg]. split.
  - exact HT.
  - intros k' id' o' Hc. destruct (Hcached k' id' o' Hc) as [Hc'|(-> & -> & ->)]; [exact (HK k' id' o' Hc')|].
    repeat split; auto. destruct Hb as (Hb & _). rewrite Hk, Hid in Hb. exact Hb.
  - intros k'. destruct (kind_eq_dec k k') as [<-|Hne]; [|rewrite (Eoth k' Hne); apply HD].
    rewrite Esame. destruct Hcn as [(Hdc & Es & Ew)|(Hdc & Es & Ew)]; rewrite Es; [apply NoDup_keys_assoc_set|]; apply HD.
  - intros Hdc k'. destruct (kind_eq_dec k k') as [<-|Hne]; [|rewrite (Eoth k' Hne); now apply HN].
    rewrite Esame. destruct Hcn as [(Hdc' & Es & Ew)|(Hdc' & Es & Ew)]; [congruence|]. rewrite Es. now apply HN.
  - exact HP.
  - exact HO.
  - intros k' id' o' Hc. destruct (Hcached k' id' o' Hc) as [Hc'|(-> & -> & ->)]; [exact (HX k' id' o' Hc')|].
    split; [exact Hcur|]. intros Hnu. destruct Hb as (_ & Hb & _). rewrite Hk, Hid in Hb. exact (Hb Hnu Hcur).
  - exact HH.
  - intros k' Hp id' o' Hc. destruct (Hcached k' id' o' Hc) as [Hc'|(-> & -> & ->)].
    + destruct (kind_eq_dec k k') as [<-|Hne]; [rewrite Esame in Hp; congruence|].
      rewrite (Eoth k' Hne) in Hp. exact (HZ k' Hp id' o' Hc').
    + rewrite Esame in Hp. congruence.
  - intros x Hx. 
    assert (Hxo : x = o -> ok_obj m s' x).
    { intros ->. split; [exact Hlt|]. split; [exact Hb|]. intros _ _.
      change (get_inst s' o) with (get_inst s o). rewrite Hk, Hid. exact Hreg. }
    destruct (Nat.eq_dec x o) as [E|Hxne]; [auto|].
    destruct (Hlive x Hx) as [Hl|E]; [|auto].
    destruct (HL x Hl) as (Hxlt & Hxb & Hxr). split; [exact Hxlt|]. split; [exact Hxb|].
    intros Hc Hrow. change (get_inst s' x) with (get_inst s x) in *.
    specialize (Hxr Hc Hrow).
    destruct (kind_eq_dec k (i_k (get_inst s x))) as [Ek|Hne].
    + destruct (Z.eq_dec id (i_id (get_inst s x))) as [Ei|Hine].
      * exfalso. apply (Hfree x Hl Hc (eq_sym Ek) (eq_sym Ei)). rewrite Ek, Ei. exact Hrow.
      * unfold registered in *. rewrite <- Ek in *. rewrite Esame.
        destruct Hcn as [(Hdc & Es & Ew)|(Hdc & Es & Ew)]; rewrite Es, Ew; rewrite ?assoc_set_other by exact Hine; exact Hxr.
    + unfold registered in *. rewrite (Eoth _ Hne). exact Hxr.
Qed.


(* C: one instance is rewritten, keeping class, id and the obsolete flag *)
Lemma Inv_upd roots s o i' :
  Inv cfg m roots s ->
  (o < length (heap s))%nat ->
  i_k i' = i_k (get_inst s o) -> i_id i' = i_id (get_inst s o) -> i_obsolete i' = i_obsolete (get_inst s o) ->
  hp i' ->
  (co m = true -> live s roots o ->
     vals3 (i_vals i') /\ (i_obsolete i' = false -> cache_values (i_k i') = true -> shows s i')) ->
  Inv cfg m roots (with_heap s (set_nth o i' (heap s))).
Proof.
  intros [HT HK HD HN HP HO HX HH HZ HL] Hlt Ek Eid Eob Hhp Hco.
  set (s' := with_heap s (set_nth o i' (heap s))).
  assert (Gs : get_inst s' o = i') by (apply get_inst_set_same; exact Hlt).
  assert (Go : forall x, x <> o -> get_inst s' x = get_inst s x) by (intros x Hx; apply get_inst_set_other; congruence).
  assert (Gk : forall x, i_k (get_inst s' x) = i_k (get_inst s x) /\ i_id (get_inst s' x) = i_id (get_inst s x) /\
                         i_obsolete (get_inst s' x) = i_obsolete (get_inst s x)).
  { intros x. destruct (Nat.eq_dec x o) as [->|Hne]; [rewrite Gs; auto|rewrite (Go x Hne); auto]. }
  assert (El : length (heap s') = length (heap s)) by (unfold s'; cbn; apply length_set_nth).
  split.
  - exact HT.
  - intros k id x Hc. destruct (HK k id x Hc) as (H1 & H2 & H3 & H4). destruct (Gk x) as (G1 & G2 & _).
    rewrite El, G1, G2. auto.
  - exact HD.
  - exact HN.
  - exact HP.
  - intros i Hi Hob. unfold s' in Hi. cbn in Hi. apply In_set_nth in Hi. destruct Hi as [->|Hi]; [|exact (HO i Hi Hob)].
    rewrite Ek, Eid. apply HO; [apply get_inst_In; exact Hlt|congruence].
  - intros k id x Hc. destruct (HX k id x Hc) as (H1 & H2). destruct (Gk x) as (_ & _ & G3).
    rewrite G3. auto.
  - unfold s'. cbn. apply Forall_set_nth; assumption.
  - exact HZ.
  - intros x Hx. destruct (HL x Hx) as (Hxlt & Hxb & Hxr). split; [rewrite El; exact Hxlt|].
    destruct (Nat.eq_dec x o) as [->|Hne].
    + split.
      * rewrite Gs. destruct Hxb as (B1 & B2 & B3). unfold ok_base. rewrite Ek, Eid, Eob.
        split; [exact B1|]. split; [exact B2|]. intros Hc. specialize (Hco Hc Hx). rewrite Ek, Eob in Hco. exact Hco.
      * unfold ok_reg in *. rewrite Gs, Ek, Eid, Eob. exact Hxr.
    + split; [rewrite (Go x Hne); exact Hxb|]. unfold ok_reg in *. rewrite (Go x Hne). exact Hxr.
Qed.

(* D: a fresh instance is allocated *)
Lemma Inv_new roots s i :
  Inv cfg m roots s -> i_obsolete i = false -> hp i ->
  Inv cfg m roots (with_heap s (heap s ++ [i])).
Proof.
  intros [HT HK HD HN HP HO HX HH HZ HL] Hob Hhp.
  set (s' := with_heap s (heap s ++ [i])).
  assert (G : forall x, (x < length (heap s))%nat -> get_inst s' x = get_inst s x) by (intros x Hx; now apply get_inst_app).
  assert (El : length (heap s') = S (length (heap s))) by (unfold s'; cbn; rewrite app_length; cbn; lia).
  split.
  - exact HT.
  - intros k id x Hc. destruct (HK k id x Hc) as (H1 & H2 & H3 & H4). rewrite El, (G x H1). repeat split; auto.
  - exact HD.
  - exact HN.
  - exact HP.
  - intros i0 Hi Hob0. unfold s' in Hi. cbn in Hi. apply in_app_or in Hi. destruct Hi as [Hi|[<-|[]]]; [exact (HO i0 Hi Hob0)|congruence].
  - intros k id x Hc. destruct (HK k id x Hc) as (H1 & _). rewrite (G x H1). exact (HX k id x Hc).
  - unfold s'. cbn. apply Forall_app. split; [exact HH|constructor; [exact Hhp|constructor]].
  - exact HZ.
  - intros x Hx. destruct (HL x Hx) as (Hxlt & Hxb & Hxr). split; [rewrite El; lia|].
    split; [rewrite (G x Hxlt); exact Hxb|]. unfold ok_reg in *. rewrite (G x Hxlt). exact Hxr.
Qed.


(* E: the tables grow: known ids keep their rows, t_next does not decrease *)
Lemma ok_base_grow s s' i :
  (forall k, t_next (tbl s k) <= t_next (tbl s' k)) ->
  (forall k id, id < t_next (tbl s k) -> assoc id (t_rows (tbl s' k)) = assoc id (t_rows (tbl s k))) ->
  ok_base m s i -> ok_base m s' i.
Proof.
  intros Hn Hrow (B1 & B2 & B3). split; [specialize (Hn (i_k i)); lia|]. split.
  - intros Hnu Hc. unfold row_exists. rewrite (Hrow _ _ B1). exact (B2 Hnu Hc).
  - intros Hco. destruct (B3 Hco) as (V & S). split; [exact V|]. intros Hc Hcv c v Hv.
    specialize (S Hc Hcv c v Hv). destruct (nassoc c (i_pending i)); [exact S|].
    rewrite (Hrow _ _ B1). exact S.
Qed.

Lemma Inv_tables_grow roots s T' :
  Inv cfg m roots s ->
  let s' := with_tables s T' in
  TI s' ->
  (forall k, t_next (tbl s k) <= t_next (tbl s' k)) ->
  (forall k id, id < t_next (tbl s k) -> assoc id (t_rows (tbl s' k)) = assoc id (t_rows (tbl s k))) ->
  Inv cfg m roots s'.
Proof.
  intros [HT HK HD HN HP HO HX HH HZ HL] s' HT' Hn Hrow.
  split.
  - exact HT'.
  - intros k id x Hc. destruct (HK k id x Hc) as (H1 & H2 & H3 & H4). repeat split; auto. specialize (Hn k). lia.
  - exact HD.
  - exact HN.
  - intros pk Hpk. specialize (HP pk Hpk). specialize (Hn (p_k pk)). lia.
  - intros i Hi Hob. destruct (HO i Hi Hob) as (H1 & H2). rewrite (Hrow _ _ H2). split; [exact H1|]. specialize (Hn (i_k i)). lia.
  - intros k id x Hc. destruct (HX k id x Hc) as (H1 & H2). split; [exact H1|]. intros Hnu.
    destruct (HK k id x Hc) as (_ & _ & _ & H4). unfold row_exists. rewrite (Hrow _ _ H4). exact (H2 Hnu).
  - exact HH.
  - exact HZ.
  - intros x Hx. destruct (HL x Hx) as (Hxlt & Hxb & Hxr). split; [exact Hxlt|].
    split; [exact (ok_base_grow s s' _ Hn Hrow Hxb)|].
    unfold ok_reg in *. change (get_inst s' x) with (get_inst s x). intros Hc Hr.
    destruct Hxb as (B1 & _). unfold row_exists in Hr. rewrite (Hrow _ _ B1) in Hr. exact (Hxr Hc Hr).
Qed.

Lemma Inv_insert roots s k r :
  Inv cfg m roots s -> length r = 3%nat ->
  Inv cfg m roots (with_tables s (tset k {| t_rows := t_rows (tbl s k) ++ [(t_next (tbl s k), r)];
                                           t_next := t_next (tbl s k) + 1 |} (tables s))).
Proof.
  intros H Hl. apply Inv_tables_grow; [exact H| | |].
  - apply TI_set; [apply (inv_T _ _ _ _ H)|]. apply twf_insert; [apply (inv_T _ _ _ _ H)|exact Hl].
  - intros k'. unfold tbl. cbn. destruct (kind_eq_dec k k') as [<-|Hne]; [rewrite tgs; cbn; lia|rewrite tgo by exact Hne; lia].
  - intros k' id Hid. unfold tbl. cbn. destruct (kind_eq_dec k k') as [<-|Hne]; [|now rewrite tgo by exact Hne].
    rewrite tgs. cbn. rewrite assoc_app. fold (tbl s k). destruct (assoc id (t_rows (tbl s k))); [reflexivity|].
    cbn. destruct (t_next (tbl s k) =? id) eqn:E; [lia|reflexivity].
Qed.

(* G: a pickle of a known instance is stored *)
Lemma Inv_pickle roots s pk :
  Inv cfg m roots s -> p_id pk < t_next (tbl s (p_k pk)) ->
  Inv cfg m roots (with_pickles s (pickles s ++ [pk])).
Proof.
  intros [HT HK HD HN HP HO HX HH HZ HL] Hpk. split; try assumption.
  intros pk' Hi. cbn in Hi. apply in_app_or in Hi. destruct Hi as [Hi|[<-|[]]]; [exact (HP pk' Hi)|exact Hpk].
Qed.


Lemma ok_base_same s s' i :
  t_next (tbl s' (i_k i)) = t_next (tbl s (i_k i)) ->
  assoc (i_id i) (t_rows (tbl s' (i_k i))) = assoc (i_id i) (t_rows (tbl s (i_k i))) ->
  ok_base m s i -> ok_base m s' i.
Proof.
  intros Hn Hrow (B1 & B2 & B3). unfold ok_base, row_exists, shows. rewrite Hn, Hrow. auto.
Qed.

(* two live instances of one existing row are the same instance *)
Lemma Inv_unique roots s x y :
  Inv cfg m roots s -> live s roots x -> live s roots y ->
  i_k (get_inst s x) = i_k (get_inst s y) -> i_id (get_inst s x) = i_id (get_inst s y) ->
  row_exists s (i_k (get_inst s x)) (i_id (get_inst s x)) -> x = y.
Proof.
  intros H Hx Hy Ek Eid Hrow.
  destruct (inv_L _ _ _ _ H x Hx) as (Lx & _ & Rx). destruct (inv_L _ _ _ _ H y Hy) as (Ly & _ & Ry).
  assert (Cx : i_obsolete (get_inst s x) = false).
  { destruct (i_obsolete (get_inst s x)) eqn:E; [|reflexivity]. exfalso. apply Hrow.
    apply (inv_O _ _ _ _ H _ (get_inst_In s x Lx) E). }
  assert (Cy : i_obsolete (get_inst s y) = false).
  { destruct (i_obsolete (get_inst s y)) eqn:E; [|reflexivity]. exfalso. apply Hrow. rewrite Ek, Eid.
    apply (inv_O _ _ _ _ H _ (get_inst_In s y Ly) E). }
  unfold ok_reg in Rx, Ry. specialize (Rx Cx Hrow). rewrite Ek, Eid in Hrow. specialize (Ry Cy Hrow).
  rewrite Ek, Eid in Rx. exact (registered_fun _ _ _ _ _ Rx Ry).
Qed.

(* H: a write through instance o: its row is replaced, the instance rewritten *)
Lemma Inv_write roots s o r r' i' :
  Inv cfg m roots s -> live s roots o ->
  let i := get_inst s o in
  assoc (i_id i) (t_rows (tbl s (i_k i))) = Some r -> length r' = 3%nat ->
  i_k i' = i_k i -> i_id i' = i_id i -> i_obsolete i' = i_obsolete i -> hp i' ->
  let s1 := with_tables s (tset (i_k i) {| t_rows := assoc_set (i_id i) r' (t_rows (tbl s (i_k i)));
                                           t_next := t_next (tbl s (i_k i)) |} (tables s)) in
  (co m = true -> vals3 (i_vals i') /\ (cache_values (i_k i) = true -> shows s1 i')) ->
  Inv cfg m roots (with_heap s1 (set_nth o i' (heap s))).
Proof.
  intros H Hlo i Hr Hl' Ek Eid Eob Hhp s1 Hco.
  set (k := i_k i) in *. set (id := i_id i) in *.
  set (s' := with_heap s1 (set_nth o i' (heap s))).
  pose proof H as [HT HK HD HN HP HO HX HH HZ HL].
  destruct (HL o Hlo) as (Hlt & Hob & Hor).
  assert (Hrow : row_exists s k id) by (unfold row_exists; congruence).
  assert (Hcur : i_obsolete i = false).
  { destruct (i_obsolete i) eqn:E; [|reflexivity]. exfalso. apply Hrow. apply (HO i (get_inst_In s o Hlt) E). }
  assert (Huniq : forall x, live s roots x -> i_k (get_inst s x) = k -> i_id (get_inst s x) = id -> x = o).
  { intros x Hx Hk Hi. apply (Inv_unique roots s x o H Hx Hlo); [exact Hk|exact Hi|rewrite Hk, Hi; exact Hrow]. }
  assert (Tn : forall k', t_next (tbl s' k') = t_next (tbl s k')).
  { intros k'. unfold s', s1, tbl. cbn. destruct (kind_eq_dec k k') as [<-|Hne]; [rewrite tgs; reflexivity|now rewrite tgo]. }
  assert (Lk : forall k' id', (k' <> k \/ id' <> id) -> assoc id' (t_rows (tbl s' k')) = assoc id' (t_rows (tbl s k'))).
  { intros k' id' Hne. unfold s', s1, tbl. cbn. destruct (kind_eq_dec k k') as [<-|Hk]; [|now rewrite tgo].
    rewrite tgs. cbn. apply assoc_set_other. destruct Hne; congruence. }
  assert (Ls : assoc id (t_rows (tbl s' k)) = Some r').
  { unfold s', s1, tbl. cbn. rewrite tgs. cbn. apply assoc_set_same. }
  assert (Gs : get_inst s' o = i') by (unfold s', get_inst; cbn; now apply nth_set_nth_same).
  assert (Go : forall x, x <> o -> get_inst s' x = get_inst s x) by (intros x Hx; unfold s', get_inst; cbn; apply nth_set_nth_other; congruence).
  assert (Gk : forall x, i_k (get_inst s' x) = i_k (get_inst s x) /\ i_id (get_inst s' x) = i_id (get_inst s x) /\
                         i_obsolete (get_inst s' x) = i_obsolete (get_inst s x)).
  { intros x. destruct (Nat.eq_dec x o) as [->|Hne]; [rewrite Gs; auto|rewrite (Go x Hne); auto]. }
  assert (El : length (heap s') = length (heap s)) by (unfold s'; cbn; apply length_set_nth).
  assert (Rex : forall k' id', row_exists s' k' id' <-> row_exists s k' id').
  { intros k' id'. unfold row_exists. destruct (kind_eq_dec k' k) as [->|Hk]; [destruct (Z.eq_dec id' id) as [->|Hi]|].
    - rewrite Ls. split; intros _; [exact Hrow|discriminate].
    - rewrite Lk by auto. tauto.
    - rewrite Lk by auto. tauto. }
  split.
  - unfold s'. apply (TI_set k _ s HT). eapply twf_update; [apply HT|exact Hr|exact Hl'].
  - intros k' id' x Hc. destruct (HK k' id' x Hc) as (H1 & H2 & H3 & H4). destruct (Gk x) as (G1 & G2 & _).
    rewrite El, G1, G2, Tn. auto.
  - exact HD.
  - exact HN.
  - intros pk Hpk. rewrite Tn. exact (HP pk Hpk).
  - intros i0 Hi Hob0. unfold s' in Hi. cbn in Hi. apply In_set_nth in Hi. destruct Hi as [->|Hi]; [congruence|].
    destruct (HO i0 Hi Hob0) as (H1 & H2). rewrite Tn. split; [|exact H2].
    rewrite Lk; [exact H1|]. destruct (kind_eq_dec (i_k i0) k) as [E1|]; [|auto]. destruct (Z.eq_dec (i_id i0) id) as [E2|]; [|auto].
    exfalso. rewrite E1, E2 in H1. congruence.
  - intros k' id' x Hc. destruct (HX k' id' x Hc) as (H1 & H2). destruct (Gk x) as (_ & _ & G3).
    rewrite G3. split; [exact H1|]. intros Hnu. apply Rex. exact (H2 Hnu).
  - unfold s'. cbn. apply Forall_set_nth; assumption.
  - exact HZ.
  - intros x Hx. assert (Hx' : live s roots x) by exact Hx. destruct (HL x Hx') as (Hxlt & Hxb & Hxr). split; [rewrite El; exact Hxlt|].
    destruct (Nat.eq_dec x o) as [->|Hne].
    + split.
      * rewrite Gs. unfold ok_base. rewrite Ek, Eid, Eob, Tn. destruct Hob as (B1 & B2 & B3).
        split; [exact B1|]. split; [intros _ _; apply Rex; exact Hrow|].
        intros Hc. destruct (Hco Hc) as (V & S). split; [exact V|]. intros _ Hcv. exact (S Hcv).
      * unfold ok_reg. rewrite Gs, Ek, Eid, Eob. intros Hc _. exact (Hor Hc Hrow).
    + rewrite (Go x Hne) in *. assert (Hkey : i_k (get_inst s x) <> k \/ i_id (get_inst s x) <> id).
      { destruct (kind_eq_dec (i_k (get_inst s x)) k) as [E1|]; [|auto]. destruct (Z.eq_dec (i_id (get_inst s x)) id) as [E2|]; [|auto].
        exfalso. apply Hne. apply Huniq; assumption. }
      split; [apply (ok_base_same s s'); [apply Tn|apply Lk; exact Hkey|exact Hxb]|].
      unfold ok_reg. rewrite (Go x Hne). intros Hc Hrw. apply Rex in Hrw. exact (Hxr Hc Hrw).
Qed.


(* I: destroySelf through instance o *)
Lemma Inv_destroy roots s o c'' :
  Inv cfg m roots s -> live s roots o ->
  let i := get_inst s o in
  let k := i_k i in let id := i_id i in
  ((c'' = caches s /\ c_present (cch s k) = false) \/
   c'' = tset k (c_with (cch s k) (assoc_remove id (c_strong (cch s k))) (assoc_remove id (c_weak (cch s k)))
                        (c_count (cch s k)) (c_offset (cch s k))) (caches s)) ->
  Inv cfg m roots
    (with_caches
       (with_heap
          (with_tables s (tset k {| t_rows := assoc_remove id (t_rows (tbl s k)); t_next := t_next (tbl s k) |} (tables s)))
          (set_nth o (i_with_obsolete i true) (heap s)))
       c'').
Proof.
  intros H Hlo i k id Hc''.
  match goal with |- Inv _ _ _ ?x => set (s' := x) end.
  pose proof H as [HT HK HD HN HP HO HX HH HZ HL].
  destruct (HL o Hlo) as (Hlt & Hob & Hor).
  assert (Tn : forall k', t_next (tbl s' k') = t_next (tbl s k')).
  { intros k'. unfold s', tbl. cbn. destruct (kind_eq_dec k k') as [<-|Hne]; [rewrite tgs; reflexivity|now rewrite tgo]. }
  assert (Lk : forall k' id', (k' <> k \/ id' <> id) -> assoc id' (t_rows (tbl s' k')) = assoc id' (t_rows (tbl s k'))).
  { intros k' id' Hne. unfold s', tbl. cbn. destruct (kind_eq_dec k k') as [<-|Hk]; [|now rewrite tgo].
    rewrite tgs. cbn. apply assoc_remove_other. destruct Hne; congruence. }
  assert (Ls : assoc id (t_rows (tbl s' k)) = None).
  { unfold s', tbl. cbn. rewrite tgs. cbn. apply assoc_remove_same. }
  assert (Ln : forall k' id', assoc id' (t_rows (tbl s k')) = None -> assoc id' (t_rows (tbl s' k')) = None).
  { intros k' id' Hn. destruct (kind_eq_dec k' k) as [->|Hk]; [destruct (Z.eq_dec id' id) as [->|Hi]|]; [exact Ls| |]; rewrite Lk; auto. }
  assert (Gs : get_inst s' o = i_with_obsolete i true) by (unfold s', get_inst; cbn; now apply nth_set_nth_same).
  assert (Go : forall x, x <> o -> get_inst s' x = get_inst s x) by (intros x Hx; unfold s', get_inst; cbn; apply nth_set_nth_other; congruence).
  assert (Gk : forall x, i_k (get_inst s' x) = i_k (get_inst s x) /\ i_id (get_inst s' x) = i_id (get_inst s x)).
  { intros x. destruct (Nat.eq_dec x o) as [->|Hne]; [rewrite Gs; auto|rewrite (Go x Hne); auto]. }
  assert (El : length (heap s') = length (heap s)) by (unfold s'; cbn; apply length_set_nth).
  (* the caches *)
  assert (Cs : forall k', (forall a x, In (a, x) (c_strong (cch s' k')) -> In (a, x) (c_strong (cch s k'))) /\
                          (forall a x, In (a, x) (c_weak (cch s' k')) -> In (a, x) (c_weak (cch s k'))) /\
                          c_present (cch s' k') = c_present (cch s k')).
  { intros k'. destruct Hc'' as [(-> & _)| ->]; [unfold s', cch; cbn; auto|].
    unfold s', cch. cbn. destruct (kind_eq_dec k k') as [<-|Hne]; [|rewrite tgo by exact Hne; auto].
    rewrite tgs. cbn. repeat split; intros a x Hi; apply In_assoc_remove in Hi; tauto. }
  assert (Csub : forall k' a x, cached s' k' a x -> cached s k' a x).
  { intros k' a x [Hc|Hc]; [left|right]; apply (Cs k'); exact Hc. }
  assert (Creg : forall k' a x, (k' <> k \/ a <> id) -> registered s k' a x -> registered s' k' a x).
  { intros k' a x Hne. destruct Hc'' as [(-> & _)| ->]; [unfold s', registered, cch; cbn; auto|].
    unfold s', registered, cch. cbn. destruct (kind_eq_dec k k') as [<-|Hk]; [|rewrite tgo by exact Hk; auto].
    rewrite tgs. cbn. rewrite !assoc_remove_other by (destruct Hne; congruence). auto. }
  assert (Clive : forall x, live s' roots x -> live s roots x).
  { intros x [Hx|[Hx|(k' & a & Hx)]]; [left; exact Hx|right; left; exact Hx|]. right; right. exists k', a. apply (Cs k'). exact Hx. }
  (* in the strict modes no other live instance shares the row *)
  assert (Huniq : nu m = true -> forall x, live s roots x -> i_obsolete (get_inst s x) = false ->
                  i_k (get_inst s x) = k -> i_id (get_inst s x) = id -> x = o).
  { intros Hnu x Hx Hc Ek Ei. destruct (HL x Hx) as (_ & (_ & B2 & _) & _).
    apply (Inv_unique roots s x o H Hx Hlo Ek Ei). exact (B2 Hnu Hc). }
  split.
  - unfold s'. apply (TI_set k _ s HT). apply twf_delete. apply HT.
  - intros k' a x Hc. destruct (HK k' a x (Csub _ _ _ Hc)) as (H1 & H2 & H3 & H4). destruct (Gk x) as (G1 & G2).
    rewrite El, G1, G2, Tn. auto.
  - intros k'. destruct Hc'' as [(-> & _)| ->]; [apply HD|].
    unfold s', cch. cbn. destruct (kind_eq_dec k k') as [<-|Hne]; [|rewrite tgo by exact Hne; apply HD].
    rewrite tgs. cbn. apply NoDup_keys_assoc_remove. apply HD.
  - intros Hdc k'. destruct Hc'' as [(-> & _)| ->]; [now apply HN|].
    unfold s', cch. cbn. destruct (kind_eq_dec k k') as [<-|Hne]; [|rewrite tgo by exact Hne; now apply HN].
    rewrite tgs. cbn [c_with c_strong]. pose proof (HN Hdc k) as E0. unfold cch in E0. fold k in E0. rewrite E0. reflexivity.
  - intros pk Hpk. rewrite Tn. exact (HP pk Hpk).
  - intros i0 Hi Hob0. unfold s' in Hi. cbn in Hi. apply In_set_nth in Hi. destruct Hi as [->|Hi].
    + cbn. fold k id. rewrite Tn. split; [exact Ls|]. destruct Hob as (B1 & _). exact B1.
    + destruct (HO i0 Hi Hob0) as (H1 & H2). rewrite Tn. split; [apply Ln; exact H1|exact H2].
  - intros k' a x Hc. pose proof (Csub _ _ _ Hc) as Hc0. destruct (HX k' a x Hc0) as (H1 & H2).
    destruct (HK k' a x Hc0) as (_ & K2 & K3 & _).
    assert (Hne : k' <> k \/ a <> id).
    { destruct (kind_eq_dec k' k) as [->|Hk]; [|auto]. right.
      destruct Hc'' as [(-> & Hp)| ->]; [exfalso; exact (HZ k Hp a x Hc0)|].
      unfold s', cached, cch in Hc. cbn in Hc. rewrite tgs in Hc. cbn in Hc.
      destruct Hc as [Hc|Hc]; apply In_assoc_remove in Hc; tauto. }
    assert (Hxo : x <> o) by (intros ->; fold i in K2, K3; fold k in K2; fold id in K3; destruct Hne; congruence).
    rewrite (Go x Hxo). split; [exact H1|]. intros Hnu. unfold row_exists. rewrite Lk by exact Hne. exact (H2 Hnu).
  - unfold s'. cbn. apply Forall_set_nth; [exact HH|]. apply (get_inst_hp _ _ _ _ o) in H. exact H.
  - intros k' Hp a x Hc. destruct (Cs k') as (_ & _ & E). rewrite E in Hp. exact (HZ k' Hp a x (Csub _ _ _ Hc)).
  - intros x Hx. pose proof (Clive x Hx) as Hx0. destruct (HL x Hx0) as (Hxlt & Hxb & Hxr). split; [rewrite El; exact Hxlt|].
    destruct (Nat.eq_dec x o) as [->|Hne].
    + split.
      * rewrite Gs. destruct Hob as (B1 & B2 & B3). unfold ok_base. cbn. fold k id. rewrite Tn. split; [exact B1|].
        split; [discriminate|]. intros Hc. destruct (B3 Hc) as (V & _). split; [exact V|discriminate].
      * unfold ok_reg. rewrite Gs. cbn. discriminate.
    + rewrite (Go x Hne) in *. unfold ok_reg. rewrite (Go x Hne).
      destruct (kind_eq_dec (i_k (get_inst s x)) k) as [E1|N1]; [destruct (Z.eq_dec (i_id (get_inst s x)) id) as [E2|N2]|].
      * (* same row as the destroyed one *)
        split.
        -- destruct Hxb as (B1 & B2 & B3). unfold ok_base. rewrite Tn. split; [exact B1|].
           assert (Hno : nu m = true -> i_obsolete (get_inst s x) = false -> False).
           { intros Hnu Hc. apply Hne. apply Huniq; assumption. }
           split; [intros Hnu Hc; destruct (Hno Hnu Hc)|].
           intros Hc. destruct (B3 Hc) as (V & _). split; [exact V|]. intros Hcu _. exfalso. apply Hno; [destruct m; cbn in *; congruence|exact Hcu].
        -- intros _ Hrw. exfalso. apply Hrw. rewrite E1, E2. exact Ls.
      * split; [apply (ok_base_same s s'); [apply Tn|apply Lk; auto|exact Hxb]|].
        intros Hc Hrw. unfold row_exists in Hrw. rewrite Lk in Hrw by auto. apply Creg; [auto|]. exact (Hxr Hc Hrw).
      * split; [apply (ok_base_same s s'); [apply Tn|apply Lk; auto|exact Hxb]|].
        intros Hc Hrw. unfold row_exists in Hrw. rewrite Lk in Hrw by auto. apply Creg; [auto|]. exact (Hxr Hc Hrw).
Qed.

End Frames.
