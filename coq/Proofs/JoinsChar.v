(* Characterisation of the GENERATED pieces of the C13 model (Gen/Joins.v):
   which column/value SORelatedJoin.performJoin/add/remove put where, and which
   columns destroySelf's two clean-up loops delete by.  A change of joins.py,
   dbconnection.py or main.py changes Gen/Joins.v, and these are the
   obligations that break. *)
From Coq Require Import List ZArith Bool Lia.
From Gen Require Import Joins.
From Model Require Import Joins.
Import ListNotations.
Open Scope Z_scope.

Lemma gen_related_select_char : gen_related_select = (ROtherCol, RJoinCol).
Proof. reflexivity. Qed.
Lemma gen_sqlrelated_select_char : gen_sqlrelated_select = (ROtherCol, RJoinCol).
Proof. reflexivity. Qed.
Lemma gen_related_add_char : gen_related_add = [(RJoinCol, AInst); (ROtherCol, AOther)].
Proof. reflexivity. Qed.
Lemma gen_related_remove_char : gen_related_remove = [(RJoinCol, AInst); (ROtherCol, AOther)].
Proof. reflexivity. Qed.
Lemma gen_destroy_own_char : gen_destroy_own = [RJoinCol].
Proof. reflexivity. Qed.
Lemma gen_destroy_dep_char : gen_destroy_dep = [ROtherCol].
Proof. reflexivity. Qed.

Lemma gen_m2m_select_char : gen_m2m_select = (ROtherCol, RJoinCol).
Proof. reflexivity. Qed.
Lemma gen_m2m_add_char : gen_m2m_add = [(RJoinCol, AInst); (ROtherCol, AOther)].
Proof. reflexivity. Qed.
Lemma gen_m2m_remove_char : gen_m2m_remove = [(RJoinCol, AInst); (ROtherCol, AOther)].
Proof. reflexivity. Qed.

(* the ManyToMany wrapper's add/remove issue the statements of the RelatedJoin's *)
Lemma m2m_add_char j x y s : m2m_add j x y s = related_add j x y s.
Proof. unfold m2m_add, related_add. rewrite gen_m2m_add_char, gen_related_add_char. reflexivity. Qed.
Lemma m2m_remove_char j x y s : m2m_remove j x y s = related_remove j x y s.
Proof. unfold m2m_remove, related_remove. rewrite gen_m2m_remove_char, gen_related_remove_char. reflexivity. Qed.

(* the link row that says "inst (owner of join j) is linked to other" *)
Definition mkpair (j : rjoin) (inst other : Z) : Z * Z :=
  match j_side j with First => (inst, other) | Second => (other, inst) end.
Definition is_pair (j : rjoin) (inst other : Z) (r : Z * Z) : bool :=
  (col_of (j_side j) r =? inst) && (col_of (flip (j_side j)) r =? other).

Lemma is_pair_spec j x y r : is_pair j x y r = true <-> r = mkpair j x y.
Proof.
  unfold is_pair, mkpair. destruct r as [a b]. destruct (j_side j); cbn;
    rewrite andb_true_iff, !Z.eqb_eq; split; intros H; try (destruct H; congruence);
    inversion H; auto.
Qed.

Lemma mkpair_mirror j x y : mkpair (mirror j) y x = mkpair j x y.
Proof. unfold mkpair, mirror. cbn. destruct (j_side j); reflexivity. Qed.

Lemma col_mkpair_join j x y : col_of (j_side j) (mkpair j x y) = x.
Proof. unfold mkpair. destruct (j_side j); reflexivity. Qed.
Lemma col_mkpair_other j x y : col_of (flip (j_side j)) (mkpair j x y) = y.
Proof. unfold mkpair. destruct (j_side j); reflexivity. Qed.

(* ---- projections of the state setters *)
Lemma tab_set_link c t l s : tab c (set_link t l s) = tab c s.
Proof. destruct c, t; reflexivity. Qed.
Lemma seqno_set_link c t l s : seqno c (set_link t l s) = seqno c s.
Proof. destruct c, t; reflexivity. Qed.
Lemma link_set_link_same t l s : link t (set_link t l s) = l.
Proof. destruct t; reflexivity. Qed.
Lemma link_set_link_other t t' l s : t <> t' -> link t (set_link t' l s) = link t s.
Proof. destruct t, t'; intros; try congruence; reflexivity. Qed.
Lemma link_set_tab t c tb n s : link t (set_tab c tb n s) = link t s.
Proof. destruct t, c; reflexivity. Qed.
Lemma tab_set_tab_same c tb n s : tab c (set_tab c tb n s) = tb.
Proof. destruct c; reflexivity. Qed.
Lemma tab_set_tab_other c c' tb n s : c <> c' -> tab c (set_tab c' tb n s) = tab c s.
Proof. destruct c, c'; intros; try congruence; reflexivity. Qed.
Lemma seqno_set_tab_same c tb n s : seqno c (set_tab c tb n s) = n.
Proof. destruct c; reflexivity. Qed.
Lemma seqno_set_tab_other c c' tb n s : c <> c' -> seqno c (set_tab c' tb n s) = seqno c s.
Proof. destruct c, c'; intros; try congruence; reflexivity. Qed.

Lemma ltab_eq_dec (a b : ltab) : {a = b} + {a <> b}.
Proof. decide equality. Qed.
Lemma cls_eq_dec (a b : cls) : {a = b} + {a <> b}.
Proof. decide equality. Qed.
Lemma cls_eqb_eq a b : cls_eqb a b = true <-> a = b.
Proof. destruct a, b; cbn; split; congruence. Qed.

(* ---- add / remove / select of a related join, with the generated roles *)
Lemma related_add_char j x y s :
  related_add j x y s = set_link (j_link j) (link (j_link j) s ++ [mkpair j x y]) s.
Proof.
  unfold related_add, mkpair. rewrite gen_related_add_char.
  destruct j as [t [|]]; reflexivity.
Qed.

Lemma related_remove_char j x y s :
  related_remove j x y s =
  set_link (j_link j) (filter (fun r => negb (is_pair j x y r)) (link (j_link j) s)) s.
Proof.
  unfold related_remove. rewrite gen_related_remove_char. f_equal.
  apply filter_ext. intros r. unfold matches, is_pair. cbn. rewrite andb_true_r. reflexivity.
Qed.

Lemma related_ids_char j s inst :
  related_ids j s inst =
  map (col_of (flip (j_side j))) (filter (fun r => col_of (j_side j) r =? inst) (link (j_link j) s)).
Proof. unfold related_ids, select_link. rewrite gen_related_select_char. reflexivity. Qed.

(* ---- destroySelf's clean-up of the intermediate tables *)
Lemma link_delete_where_In t t' sd v s r :
  In r (link t (link_delete_where t' sd v s)) <-> In r (link t s) /\ (t = t' -> col_of sd r <> v).
Proof.
  unfold link_delete_where. destruct (ltab_eq_dec t t') as [->|Hne].
  - rewrite link_set_link_same, filter_In, negb_true_iff, Z.eqb_neq. tauto.
  - rewrite link_set_link_other by exact Hne. tauto.
Qed.

Lemma tab_link_delete_where c t sd v s : tab c (link_delete_where t sd v s) = tab c s.
Proof. apply tab_set_link. Qed.
Lemma seqno_link_delete_where c t sd v s : seqno c (link_delete_where t sd v s) = seqno c s.
Proof. apply seqno_set_link. Qed.

(* exactly the rows that mention the destroyed object, in any column that holds
   ids of its class, go away; every other row stays *)
Lemma destroy_links_In c i s t r :
  In r (link t (destroy_links c i s)) <->
  In r (link t s) /\ (forall sd, link_cls t sd = c -> col_of sd r <> i).
Proof.
  unfold destroy_links, all_joins, delete_roles.
  rewrite gen_destroy_own_char, gen_destroy_dep_char.
  destruct c; cbn -[link_delete_where]; rewrite !link_delete_where_In;
    (split; [intros H; split; [tauto|]; intros sd Hsd; destruct t, sd; cbn in Hsd; try discriminate; tauto
            |intros [H1 H2]; repeat split; try exact H1; intros ->;
             first [apply (H2 First); reflexivity | apply (H2 Second); reflexivity]]).
Qed.

Lemma tab_destroy_links c' c i s : tab c' (destroy_links c i s) = tab c' s.
Proof.
  unfold destroy_links, all_joins, delete_roles.
  rewrite gen_destroy_own_char, gen_destroy_dep_char.
  destruct c; cbn -[link_delete_where]; rewrite !tab_link_delete_where; reflexivity.
Qed.
Lemma seqno_destroy_links c' c i s : seqno c' (destroy_links c i s) = seqno c' s.
Proof.
  unfold destroy_links, all_joins, delete_roles.
  rewrite gen_destroy_own_char, gen_destroy_dep_char.
  destruct c; cbn -[link_delete_where]; rewrite !seqno_link_delete_where; reflexivity.
Qed.
