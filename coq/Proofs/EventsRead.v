(* C19: the boolean trace predicates read as statements about positions in
   the trace, and the history theorems in that form; witnesses of the defects. *)
From Coq Require Import List ZArith NArith Bool Lia.
From Model Require Import Events.
From Proofs Require Import EventsBase EventsStep EventsHist EventsChain.
Import ListNotations.
Open Scope Z_scope.

Lemma existsb_false_In {A} (f : A -> bool) l x : existsb f l = false -> In x l -> f x = false.
Proof.
  intros H Hin. destruct (f x) eqn:E; [|reflexivity].
  assert (existsb f l = true) by (apply existsb_exists; eauto). congruence.
Qed.

Section Read.
Context {K : Type}.

(* once a callback of signal s has run: no write, no delivery of s any more *)
Lemma posts_last_sound (tr : list (ev K)) : posts_last tr = true ->
  forall tr1 s t k id tr2, tr = tr1 ++ EPost s t k id :: tr2 ->
    (forall w, ~ In (EWrite w) tr2) /\ (forall k' i kw li, ~ In (ESig s k' i kw li) tr2).
Proof.
  intros H tr1. revert tr H. induction tr1 as [|e r IH]; intros tr H s t k id tr2 Heq; subst tr.
  - simpl in H. apply andb_true_iff in H. destruct H as [H _]. apply andb_true_iff in H. destruct H as [Hw Hs].
    apply negb_true_iff in Hw. apply negb_true_iff in Hs. split.
    + intros w Hin. pose proof (existsb_false_In _ _ _ Hw Hin). discriminate.
    + intros k' i kw li Hin. pose proof (existsb_false_In _ _ _ Hs Hin) as Hx. simpl in Hx.
      rewrite sig_eqb_refl in Hx. discriminate.
  - simpl in H. apply andb_true_iff in H. destruct H as [_ H]. eapply IH; [exact H|reflexivity].
Qed.

(* no before-signal after a write; no write after an after-signal *)
Lemma ordered_around_sound sb sa (tr : list (ev K)) : ordered_around sb sa tr = true ->
  (forall tr1 w tr2, tr = tr1 ++ EWrite w :: tr2 -> forall k i kw li, ~ In (ESig sb k i kw li) tr2)
  /\ (forall tr1 k i kw li tr2, tr = tr1 ++ ESig sa k i kw li :: tr2 -> forall w, ~ In (EWrite w) tr2).
Proof.
  intros H. split.
  - intros tr1. revert tr H. induction tr1 as [|e r IH]; intros tr H w tr2 Heq; subst tr.
    + simpl in H. apply andb_true_iff in H. destruct H as [H _]. apply andb_true_iff in H. destruct H as [H _].
      apply negb_true_iff in H. intros k i kw li Hin. pose proof (existsb_false_In _ _ _ H Hin) as Hx.
      simpl in Hx. rewrite sig_eqb_refl in Hx. discriminate.
    + simpl in H. apply andb_true_iff in H. destruct H as [_ H]. eapply IH; [exact H|reflexivity].
  - intros tr1. revert tr H. induction tr1 as [|e r IH]; intros tr H k i kw li tr2 Heq; subst tr.
    + simpl in H. rewrite sig_eqb_refl in H. apply andb_true_iff in H. destruct H as [H _].
      apply negb_true_iff in H.
      intros w Hin. pose proof (existsb_false_In _ _ _ H Hin). discriminate.
    + simpl in H. apply andb_true_iff in H. destruct H as [_ H]. eapply IH; [exact H|reflexivity].
Qed.

(* no INSERT after a RowCreatedSignal delivery *)
Lemma cai_sound (tr : list (ev K)) : created_after_inserts tr = true ->
  forall tr1 k i kw li tr2, tr = tr1 ++ ESig SCreated k i kw li :: tr2 ->
    forall k' id row, ~ In (EWrite (WInsert k' id row)) tr2.
Proof.
  intros H tr1. revert tr H. induction tr1 as [|e r IH]; intros tr H k i kw li tr2 Heq; subst tr.
  - simpl in H. apply andb_true_iff in H. destruct H as [H _]. apply negb_true_iff in H.
    intros k' id row Hin. pose proof (existsb_false_In _ _ _ H Hin). discriminate.
  - simpl in H. apply andb_true_iff in H. destruct H as [_ H]. eapply IH; [exact H|reflexivity].
Qed.
End Read.

(* ------------------------------------------------------------------ history theorems, positional form *)
Lemma hist_posts_after g ops r :
  In r (run g init ops) -> succeeded (r_out r) = true ->
  forall tr1 s t k id tr2, r_tr r = tr1 ++ EPost s t k id :: tr2 ->
    (forall w, ~ In (EWrite w) tr2) /\ (forall k' i kw li, ~ In (ESig s k' i kw li) tr2).
Proof.
  intros Hin Hs. apply posts_last_sound. rewrite (hist_spec g ops r Hin Hs). apply spec_posts_last.
Qed.

Lemma hist_ordered g ops r :
  In r (run g init ops) -> succeeded (r_out r) = true ->
  (forall tr1 w tr2, r_tr r = tr1 ++ EWrite w :: tr2 ->
     forall k i kw li, ~ In (ESig (fst (around (r_op r))) k i kw li) tr2)
  /\ (forall tr1 k i kw li tr2, r_tr r = tr1 ++ ESig (snd (around (r_op r))) k i kw li :: tr2 ->
     forall w, ~ In (EWrite w) tr2).
Proof.
  intros Hin Hs. apply ordered_around_sound. rewrite (hist_spec g ops r Hin Hs). apply spec_ordered.
Qed.

Lemma chain_hist script ops r id :
  In r (chain_run (effective script) cinit ops) -> cr_out r = CDone id ->
  (forall tr1 k i kw li tr2, cr_tr r = tr1 ++ ESig SCreated k i kw li :: tr2 ->
     forall k' id' row, ~ In (EWrite (WInsert k' id' row)) tr2)
  /\ inserts_of (cr_tr r) = map (fun a => (a, id)) (rev (lineage (cr_lvl r)))
  /\ (forall a, In a (lineage (cr_lvl r)) -> has_row id (ctable (cr_post r) a) = true).
Proof.
  intros Hin Ho. destruct (chain_run_created_after _ _ _ _ Hin id Ho) as [H1 [H2 H3]].
  split; [apply cai_sound; exact H1|split; assumption].
Qed.

(* ------------------------------------------------------------------ regressions of the defects fixed by 480ba65 *)
(* a RowUpdateSignal receiver adds column b to the dict of `obj.a = 5`: one
   UPDATE of both columns, one RowUpdatedSignal *)
Definition g_add : cfg :=
  {| lis_e := [(SUpdate, ASet CB (VStr [120%N])); (SUpdated, ALog)]; lis_l := [] |}.
Definition ops_add : list op := [OCreate KEager [(CA, VInt 1)]; OAssign KEager 1 CA (VInt 5)].
(* a receiver removes the assigned column: nothing is written, the after-event is sent *)
Definition g_del : cfg := {| lis_e := [(SUpdate, ADel CA); (SUpdated, ALog)]; lis_l := [] |}.
(* the delegated set() raises: the next set() still gets its before-event and the rewritten dict is stored *)
Definition g_leak : cfg := {| lis_e := [(SUpdate, ASet CB (VStr [121%N]))]; lis_l := [] |}.
Definition ops_leak : list op :=
  [OCreate KEager [(CA, VInt 1)]; OAssign KEager 1 CA (VStr [120%N]); OSet KEager 1 [(CC, VInt 4)]].

(* ------------------------------------------------------------------ updates of chain instances, positional form *)
Lemma chain_hist_plain_read script ops r id :
  In r (chain_steps (effective script) cinit ops) -> uplain (ur_op r) = true -> ur_out r = CDone id ->
  (forall s, s = SUpdate \/ s = SUpdated -> forall a,
     recv_of lvl_eqb s a (ur_tr r)
     = if lvl_eqb a (uop_lvl (ur_op r)) then map fst (sel s (ltab (effective script) a)) else [])
  /\ (forall tr1 w tr2, ur_tr r = tr1 ++ EWrite w :: tr2 -> forall k i kw li, ~ In (ESig SUpdate k i kw li) tr2)
  /\ (forall tr1 k i kw li tr2, ur_tr r = tr1 ++ ESig SUpdated k i kw li :: tr2 -> forall w, ~ In (EWrite w) tr2).
Proof.
  intros Hin Hp Ho. destruct (chain_hist_plain _ _ _ _ Hin Hp Ho) as [H1 H2].
  split; [exact H1|]. apply ordered_around_sound. exact H2.
Qed.

Lemma chain_hist_created_read script ops r l kw id :
  In r (chain_steps (effective script) cinit ops) -> ur_op r = UCreate l kw -> ur_out r = CDone id ->
  (forall tr1 k i kw' li tr2, ur_tr r = tr1 ++ ESig SCreated k i kw' li :: tr2 ->
     forall k' id' row, ~ In (EWrite (WInsert k' id' row)) tr2)
  /\ inserts_of (ur_tr r) = map (fun a => (a, id)) (rev (lineage l))
  /\ (forall a, In a (lineage l) -> has_row id (ctable (ur_post r) a) = true).
Proof.
  intros Hin Hop Ho. destruct (chain_hist_created_after _ _ _ _ _ _ Hin Hop Ho) as [H1 [H2 H3]].
  split; [apply cai_sound; exact H1|split; assumption].
Qed.

(* witness: a leaf class with one RowUpdateSignal and one RowUpdatedSignal
   receiver of its own.  set() of its own column delivers no before-event at
   all; an assignment of an inherited column delivers no after-event to it. *)
Definition w_script : list reg :=
  [RDef LA; RDef LB; RDef LC; RListen LC 0 (SUpdate, ALog); RListen LC 1 (SUpdated, ALog)].
Definition w_ops : list cop :=
  [UCreate LC [(CA, VInt 1)]; USet LC 1 [(CC, VInt 9)]; UAssign LC 1 CA (VInt 5)].

Lemma chain_update_refuted :
  exists script ops r id s i x,
    In r (chain_steps (effective script) cinit ops) /\ is_uupdate (ur_op r) = true /\ ur_out r = CDone id
    /\ (s = SUpdate \/ s = SUpdated)
    /\ In (i, (s, x)) (ltab (effective script) (uop_lvl (ur_op r)))
    /\ recv_of lvl_eqb s (uop_lvl (ur_op r)) (ur_tr r) = [].
Proof.
  exists w_script, w_ops.
  exists (nth 1 (chain_steps (effective w_script) cinit w_ops)
              {| ur_pre := cinit; ur_op := UCreate LA []; ur_out := CBadInput; ur_tr := []; ur_post := cinit |}).
  exists 1, SUpdate, 0, ALog. vm_compute. repeat split; auto.
Qed.
Lemma chain_update_refuted_after :
  exists script ops r id i x,
    In r (chain_steps (effective script) cinit ops) /\ is_uupdate (ur_op r) = true /\ ur_out r = CDone id
    /\ In (i, (SUpdated, x)) (ltab (effective script) (uop_lvl (ur_op r)))
    /\ recv_of lvl_eqb SUpdated (uop_lvl (ur_op r)) (ur_tr r) = [].
Proof.
  exists w_script, w_ops.
  exists (nth 2 (chain_steps (effective w_script) cinit w_ops)
              {| ur_pre := cinit; ur_op := UCreate LA []; ur_out := CBadInput; ur_tr := []; ur_post := cinit |}).
  exists 1, 1, ALog. vm_compute. repeat split; auto.
Qed.

Lemma chain_steps_update script ops r id :
  In r (chain_steps (effective script) cinit ops) -> is_uupdate (ur_op r) = true -> ur_out r = CDone id ->
  ur_tr r = uspec (effective script) (ur_op r)
  /\ ur_post r = uspec_state (ur_op r) (ur_pre r)
  /\ forall s a, recv_of lvl_eqb s a (ur_tr r) = rounds (uowed (ur_op r) a s) (sel s (ltab (effective script) a)).
Proof. apply chain_hist_update. Qed.

Lemma chain_steps_creates script ops :
  map (fun r => (uop_lvl (ur_op r), ur_out r, ur_tr r, ur_post r))
      (chain_steps (effective script) cinit (map (fun p => UCreate (fst p) (snd p)) ops))
  = map (fun r => (cr_lvl r, cr_out r, cr_tr r, cr_post r)) (chain_run (effective script) cinit ops).
Proof. apply chain_hist_creates. Qed.
