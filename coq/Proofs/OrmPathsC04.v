(* C04 for histories with access paths: the statements of OrmPathsSpec.v. *)
From Coq Require Import List ZArith Bool Lia ZifyBool.
From Model Require Import Orm OrmPaths.
From Proofs Require Import OrmBase OrmSpec OrmLazy OrmInvLists OrmInvTables OrmInvDefs OrmInvCoh OrmInvFrames OrmInvOC
  OrmInvCache OrmInvOps OrmInvOps2 OrmInvRun OrmInvC04 OrmPathsSpec OrmPathsInv.
Import ListNotations.
Open Scope Z_scope.

Arguments so_get : simpl never.
Arguments so_read : simpl never.
Arguments so_fk : simpl never.
Arguments so_join : simpl never.

Lemma pgop_M04 pops : forallb pguard04 pops = true -> forallb (pgop M04) pops = true.
Proof.
  intros H. rewrite forallb_forall in *. intros o Ho. specialize (H o Ho). destruct o as [o|p|n p]; cbn in *; auto.
  unfold gop. cbn. rewrite H. reflexivity.
Qed.

Lemma pgop_MNU pops : forallb pguard04 pops = true -> forallb pno_unpickle pops = true -> forallb (pgop MNU) pops = true.
Proof.
  intros H H2. rewrite forallb_forall in *. intros o Ho. specialize (H o Ho). specialize (H2 o Ho).
  destruct o as [o|p|n p]; cbn in *; auto. unfold gop. cbn. rewrite H. destruct o; cbn in *; auto.
Qed.

Theorem C04_paths_unique_proof : C04_paths_unique_stmt.
Proof.
  intros cfg pops o1 o2 k id Hg s H1 H2 C1 C2 (K1 & I1) (K2 & I2) Hrow.
  pose proof (preachable_Inv cfg M04 pops (pgop_M04 pops Hg)) as H. fold s in H.
  apply (Inv_unique cfg M04 [] s o1 o2 H (held_live [] s o1 H1) (held_live [] s o2 H2)); [congruence|congruence|].
  rewrite K1, I1. exact Hrow.
Qed.

Theorem C04_paths_cached_is_current_proof : C04_paths_cached_is_current_stmt.
Proof.
  intros cfg pops k id o Hg s Hc.
  pose proof (preachable_Inv cfg M04 pops (pgop_M04 pops Hg)) as H. fold s in H.
  exact (proj1 (inv_X _ _ _ _ H k id o Hc)).
Qed.

(* get by id on any state satisfying the invariant *)
Lemma get_returns_held_Inv cfg s o k id id' tok s' :
  Inv cfg M04 [] s ->
  held s o -> current s o -> is_row s o k id -> assoc id (t_rows (tbl s k)) <> None ->
  step cfg s (OGet k id) = (Ret (RObj id' tok), s') ->
  id' = id /\ tok = slot_of s o /\ tok <> None.
Proof.
  intros H Hh Hc (Hk & Hi) Hrow Hstep.
  pose proof (Inv_st0 cfg M04 s H) as H0.
  unfold step in Hstep. cbn [run_op] in Hstep. fold (st0 s) in Hstep. unfold hold_or_none in Hstep.
  pose proof (so_get_spec cfg M04 k id None [] (st0 s) H0 ltac:(discriminate)) as G.
  destruct (so_get cfg k id None [] (st0 s)) as [[ob|e] s1]; [|discriminate].
  destruct G as (G1 & G2 & G3 & G4 & G5 & G6 & G7).
  assert (R : registered s1 k id o) by (apply (held_registered cfg M04 [] (st0 s) s1 o k id H0 G1 G2 G3); assumption).
  assert (ob = o) by (eapply registered_fun; eauto). subst ob.
  unfold hold, bind, gets, modify, ret in Hstep. cbn [fst snd] in Hstep. inversion Hstep; subst id' tok s'. clear Hstep.
  destruct G2 as (Esl & _). split; [exact G7|]. split.
  - apply slot_of_slots. exact Esl.
  - apply slot_of_some. rewrite Esl. exact Hh.
Qed.

Theorem C04_paths_get_returns_held_proof : C04_paths_get_returns_held_stmt.
Proof.
  intros cfg pops o k id id' tok s' Hg s Hh Hc Hr Hrow Hstep.
  pose proof (preachable_Inv cfg M04 pops (pgop_M04 pops Hg)) as H. fold s in H.
  exact (get_returns_held_Inv cfg s o k id id' tok s' H Hh Hc Hr Hrow Hstep).
Qed.

(* what a successful foreign-key step did *)
Lemma fk_step cfg m s h k' id' tok s' :
  Inv cfg m [] s ->
  pstep cfg s (PPath (PFk h k')) = (Ret (RObj id' tok), s') ->
  exists x s2, get_ok cfg m k' id' [] (st0 s) x s2 /\ tok = slot_of s2 x /\ tables s' = tables s2.
Proof.
  intros H Hstep. pose proof (Inv_st0 cfg m s H) as H0.
  unfold pstep in Hstep. cbn [prun_op run_path] in Hstep. fold (st0 s) in Hstep.
  unfold hold_opt in Hstep. unfold bind at 1 in Hstep.
  destruct (handle_run h (st0 s)) as [(o0 & Eh & Hn)|Eh]; rewrite Eh in Hstep; [|discriminate].
  pose proof (so_fk_spec cfg m o0 k' (st0 s) H0 (nth_some_In _ _ _ Hn)) as F.
  destruct (so_fk cfg o0 k' (st0 s)) as [[[x|]|e] s2]; try discriminate.
  destruct F as (id & G).
  unfold hold, bind, gets, modify, ret in Hstep. cbn [fst snd] in Hstep. inversion Hstep as [[Eid Etok Es']]. clear Hstep.
  destruct G as (G1 & G2 & G3 & G4 & G5 & G6 & G7).
  assert (Eidd : id = id') by congruence. rewrite Eidd in G4, G7.
  exists x, s2. split; [rewrite ?Eid; exact (conj G1 (conj G2 (conj G3 (conj G4 (conj G5 (conj G6 G7))))))|].
  split; [reflexivity|reflexivity].
Qed.

Theorem C04_fk_returns_held_proof : C04_fk_returns_held_stmt.
Proof.
  intros cfg pops h k' o id' tok s' Hg s Hh Hc (Hk & Hi) Hrow Hstep.
  pose proof (preachable_Inv cfg M04 pops (pgop_M04 pops Hg)) as H. fold s in H.
  destruct (fk_step cfg M04 s h k' id' tok s' H Hstep) as (x & s2 & (G1 & G2 & G3 & G4 & _) & Etok & _).
  pose proof (Inv_st0 cfg M04 s H) as H0.
  assert (R : registered s2 k' id' o) by (apply (held_registered cfg M04 [] (st0 s) s2 o k' id' H0 G1 G2 G3); assumption).
  assert (x = o) by (eapply registered_fun; eauto). subst x tok.
  destruct G2 as (Esl & _). split.
  - apply (slot_of_slots s s2 o). exact Esl.
  - apply slot_of_some. rewrite Esl. exact Hh.
Qed.

(* what a successful unique-index step did *)
Lemma index_step cfg m s k u id' tok s' :
  Inv cfg m [] s ->
  pstep cfg s (PPath (PIndex k u)) = (Ret (RObj id' tok), s') ->
  exists x s2 r, index_rows s k u = [(id', r)] /\ get_ok cfg m k id' [] (st0 s) x s2 /\ tok = slot_of s2 x /\ tables s' = tables s2.
Proof.
  intros H Hstep. pose proof (Inv_st0 cfg m s H) as H0.
  unfold pstep in Hstep. cbn [prun_op run_path] in Hstep. fold (st0 s) in Hstep.
  unfold hold_opt in Hstep.
  pose proof (so_index_spec cfg m k u (st0 s) H0) as F.
  destruct (so_index cfg k u (st0 s)) as [[[x|]|e] s2]; try discriminate.
  destruct F as (id & r & Er & G).
  unfold hold, bind, gets, modify, ret in Hstep. cbn [fst snd] in Hstep. inversion Hstep as [[Eid Etok Es']]. clear Hstep.
  destruct G as (G1 & G2 & G3 & G4 & G5 & G6 & G7).
  assert (Eidd : id = id') by congruence. rewrite Eidd in G4, G7, Er.
  exists x, s2, r. rewrite ?Eid. split; [exact Er|].
  split; [exact (conj G1 (conj G2 (conj G3 (conj G4 (conj G5 (conj G6 G7))))))|].
  split; reflexivity.
Qed.

Lemma index_returns_held_Inv cfg s k u o id' tok s' :
  Inv cfg M04 [] s ->
  held s o -> current s o -> is_row s o k id' ->
  pstep cfg s (PPath (PIndex k u)) = (Ret (RObj id' tok), s') ->
  tok = slot_of s o /\ tok <> None.
Proof.
  intros H Hh Hc (Hk & Hi) Hstep.
  destruct (index_step cfg M04 s k u id' tok s' H Hstep) as (x & s2 & r & Er & (G1 & G2 & G3 & G4 & _) & Etok & _).
  pose proof (Inv_st0 cfg M04 s H) as H0.
  assert (Hrow : assoc id' (t_rows (tbl (st0 s) k)) <> None).
  { assert (Hin : In (id', r) (index_rows s k u)) by (rewrite Er; left; reflexivity).
    apply index_rows_In in Hin. destruct Hin as (Hin & _).
    change (tbl (st0 s) k) with (tbl s k). rewrite (table_row cfg M04 s k id' r H Hin). discriminate. }
  assert (R : registered s2 k id' o) by (apply (held_registered cfg M04 [] (st0 s) s2 o k id' H0 G1 G2 G3); assumption).
  assert (x = o) by (eapply registered_fun; eauto). subst x tok.
  destruct G2 as (Esl & _). split.
  - apply (slot_of_slots s s2 o). exact Esl.
  - apply slot_of_some. rewrite Esl. exact Hh.
Qed.

Theorem C04_index_returns_held_proof : C04_index_returns_held_stmt.
Proof.
  intros cfg pops k u o id' tok s' Hg s Hh Hc Hr Hstep.
  pose proof (preachable_Inv cfg M04 pops (pgop_M04 pops Hg)) as H. fold s in H.
  exact (index_returns_held_Inv cfg s k u o id' tok s' H Hh Hc Hr Hstep).
Qed.

Theorem C04_index_yields_row_proof : C04_index_yields_row_stmt.
Proof.
  intros cfg pops k u id' tok s' Hg s Hstep.
  pose proof (preachable_Inv cfg M04 pops (pgop_M04 pops Hg)) as H. fold s in H.
  destruct (index_step cfg M04 s k u id' tok s' H Hstep) as (x & s2 & r & Er & (G1 & G2 & G3 & _) & _ & Et).
  assert (Ets : tables s' = tables s) by (rewrite Et, G3; reflexivity).
  split; [|exact Ets]. exists r. split; [exact Er|].
  assert (Hin : In (id', r) (index_rows s k u)) by (rewrite Er; left; reflexivity).
  apply index_rows_In in Hin. destruct Hin as (Hin & _).
  unfold tbl. rewrite Ets. exact (table_row cfg M04 s k id' r H Hin).
Qed.

Theorem C04_index_absent_proof : C04_index_absent_stmt.
Proof.
  intros cfg pops k u Hg s Er.
  assert (E : pstep cfg s (PPath (PIndex k u)) =
              (Raise ENotFound, with_slots (with_log (st0 s) [SSelect k]) (slots s ++ [None]))).
  { unfold pstep. cbn [prun_op run_path]. fold (st0 s). unfold hold_opt, so_index.
    unfold bind at 1. unfold statement. change (fault (st0 s)) with (@None nat). cbn [fst snd].
    unfold bind at 1, gets. cbn [fst snd]. cbv beta.
    match goal with |- context [index_rows ?x k u] => change (index_rows x k u) with (index_rows s k u) end.
    rewrite Er. reflexivity. }
  rewrite E. cbn. auto.
Qed.

Theorem C04_fk_deleted_not_returned_proof : C04_fk_deleted_not_returned_stmt.
Proof.
  intros cfg pops h k' id' tok s' Hg Hnu s Hstep.
  pose proof (preachable_Inv cfg MNU pops (pgop_MNU pops Hg Hnu)) as H. fold s in H.
  destruct (fk_step cfg MNU s h k' id' tok s' H Hstep) as (x & s2 & (G1 & G2 & G3 & G4 & _) & _ & Et).
  destruct (inv_X _ _ _ _ G1 k' id' x (registered_cached _ _ _ _ G4)) as (_ & Hrow).
  specialize (Hrow eq_refl). unfold row_exists, tbl in *. rewrite Et. exact Hrow.
Qed.

(* what a successful join step did *)
Lemma join_step cfg m s h k' keep res s' :
  Inv cfg m [] s ->
  pstep cfg s (PPath (PJoin h k' keep)) = (Ret (RObjs res), s') ->
  exists o objs s1, nth h (slots s) None = Some o /\
    Inv cfg m objs s1 /\ ext (st0 s) s1 /\ tables s1 = tables s /\
    Forall2 (got_for k' s1) objs (join_ids s k' (i_id (get_inst s o))) /\
    res = map (fun x => (i_id (get_inst s1 x), slot_of s1 x)) objs.
Proof.
  intros H Hstep. pose proof (Inv_st0 cfg m s H) as H0.
  unfold pstep in Hstep. cbn [prun_op run_path] in Hstep. fold (st0 s) in Hstep.
  unfold or_empty_slot in Hstep. unfold bind at 1 in Hstep.
  destruct (handle_run h (st0 s)) as [(o & Eh & Hn)|Eh]; rewrite Eh in Hstep; [|destruct keep; discriminate].
  unfold bind at 1 in Hstep.
  pose proof (so_join_spec cfg m o k' (st0 s) H0) as J.
  destruct (so_join cfg o k' (st0 s)) as [[objs|e] s1]; [|destruct keep; discriminate].
  destruct J as (J1 & J2 & J3 & J4).
  unfold bind at 1, gets in Hstep. cbn [fst snd] in Hstep.
  exists o, objs, s1. split; [exact Hn|]. split; [exact J1|]. split; [exact J2|]. split; [exact J3|]. split; [exact J4|].
  destruct keep as [n|]; [destruct (nth_error objs n)|]; unfold bind, modify, ret in Hstep; cbn [fst snd] in Hstep; inversion Hstep; reflexivity.
Qed.

Theorem C04_join_returns_held_proof : C04_join_returns_held_stmt.
Proof.
  intros cfg pops h k' keep o id res tok s' Hg s Hh Hc (Hk & Hi) Hstep Hin.
  pose proof (preachable_Inv cfg M04 pops (pgop_M04 pops Hg)) as H. fold s in H.
  pose proof (Inv_st0 cfg M04 s H) as H0.
  destruct (join_step cfg M04 s h k' keep res s' H Hstep) as (o0 & objs & s1 & Hn & J1 & J2 & J3 & J4 & Eres).
  subst res. apply in_map_iff in Hin. destruct Hin as (x & Ex & Hx). inversion Ex as [[Eid Etok]]. clear Ex.
  (* x was got for one of the joined ids, whose row exists *)
  assert (Hx' : exists id0, In id0 (join_ids s k' (i_id (get_inst s o0))) /\ got_for k' s1 x id0).
  { clear - J4 Hx. induction J4 as [|y id0 l l' Hy F IH]; [destruct Hx|].
    destruct Hx as [->|Hx]; [exists id0; split; [left; reflexivity|exact Hy]|].
    destruct (IH Hx) as (id1 & Hi1 & Hg1). exists id1. split; [right; exact Hi1|exact Hg1]. }
  destruct Hx' as (id0 & Hin0 & (R & K1 & K2)).
  assert (E0 : id0 = id) by congruence. rewrite E0 in R, Hin0. clear E0.
  pose proof (join_ids_rows s k' _ id Hin0) as Hrow.
  assert (Ro : registered s1 k' id o) by (apply (held_registered cfg M04 objs (st0 s) s1 o k' id H0 J1 J2 J3); assumption).
  assert (x = o) by (eapply registered_fun; eauto). subst x.
  destruct J2 as (Esl & _). split.
  - apply (slot_of_slots s s1 o). exact Esl.
  - apply slot_of_some. rewrite Esl. exact Hh.
Qed.

Theorem C04_join_yields_referencing_rows_proof : C04_join_yields_referencing_rows_stmt.
Proof.
  intros cfg pops h k' keep o res s' Hg s Hn Hstep.
  pose proof (preachable_Inv cfg M04 pops (pgop_M04 pops Hg)) as H. fold s in H.
  destruct (join_step cfg M04 s h k' keep res s' H Hstep) as (o0 & objs & s1 & Hn0 & _ & _ & _ & J4 & Eres).
  assert (o0 = o) by congruence. subst o0 res.
  rewrite map_map. cbn [fst]. clear Hstep.
  induction J4 as [|y id0 l l' (_ & _ & Hy) F IH]; [reflexivity|]. cbn. rewrite Hy, IH. reflexivity.
Qed.

(* ---------------------------------------------------------------- non-vacuity *)
Definition cfgC : config := {| doCache := true; cullFreq := 2; cullFrac := 1 |}.
(* a parent (Eager 1), two children (Lazy 1, 2) referencing it through column a, a cull in between *)
Definition phist : list pop :=
  [PBase (OCreate Eager [(1%nat, VInt 100)]);
   PBase (OCreate Lazy [(0%nat, VInt 1); (1%nat, VInt 200)]);
   PBase (OCreate Lazy [(0%nat, VInt 1); (1%nat, VInt 201)]);
   PBase (OCull Eager); PBase (OCull Lazy)].

Example phist_guarded : forallb pguard04 phist = true /\ forallb pno_unpickle phist = true.
Proof. vm_compute. auto. Qed.

Example phist_state :
  let s := prun cfgC phist in
  slots s = [Some 0%nat; Some 1%nat; Some 2%nat] /\ held s 0%nat /\ current s 0%nat /\ is_row s 0%nat Eager 1 /\
  assoc 1 (t_rows (tbl s Eager)) <> None.
Proof. vm_compute. repeat split; auto; discriminate. Qed.

(* the child's foreign key leads to the held parent (slot 0) ... *)
Example phist_fk : fst (pstep cfgC (prun cfgC phist) (PPath (PFk 1 Eager))) = Ret (RObj 1 (Some 0%nat)).
Proof. vm_compute. reflexivity. Qed.

(* ... and the parent's join accessor yields the two held children (slots 1 and 2), in id order *)
Example phist_join :
  fst (pstep cfgC (prun cfgC phist) (PPath (PJoin 0 Lazy (Some 0%nat)))) = Ret (RObjs [(1, Some 1%nat); (2, Some 2%nat)]).
Proof. vm_compute. reflexivity. Qed.

Example phist_index :
  fst (pstep cfgC (prun cfgC phist) (PPath (PIndex Lazy 201))) = Ret (RObj 2 (Some 2%nat)) /\
  fst (pstep cfgC (prun cfgC phist) (PPath (PIndex Lazy 7))) = Raise ENotFound.
Proof. vm_compute. auto. Qed.

(* also after the paths themselves ran (each get ticks the cull counter) and with the cache off *)
Example phist_again :
  let s := prun cfgC (phist ++ [PPath (PFk 1 Eager); PPath (PJoin 0 Lazy None); PBase (OCull Eager); PBase (OCull Lazy)]) in
  fst (pstep cfgC s (PPath (PFk 2 Eager))) = Ret (RObj 1 (Some 0%nat)) /\
  fst (pstep cfgC s (PPath (PJoin 0 Lazy None))) = Ret (RObjs [(1, Some 1%nat); (2, Some 2%nat)]).
Proof. vm_compute. split; reflexivity. Qed.

Example phist_nocache :
  let c := {| doCache := false; cullFreq := 2; cullFrac := 1 |} in
  fst (pstep c (prun c phist) (PPath (PFk 1 Eager))) = Ret (RObj 1 (Some 0%nat)) /\
  fst (pstep c (prun c phist) (PPath (PJoin 0 Lazy None))) = Ret (RObjs [(1, Some 1%nat); (2, Some 2%nat)]).
Proof. vm_compute. split; reflexivity. Qed.

Print Assumptions C04_paths_unique_proof.
Print Assumptions C04_index_returns_held_proof.
Print Assumptions C04_index_yields_row_proof.
Print Assumptions C04_index_absent_proof.
Print Assumptions C04_paths_get_returns_held_proof.
Print Assumptions C04_fk_returns_held_proof.
Print Assumptions C04_join_returns_held_proof.
Print Assumptions C04_fk_deleted_not_returned_proof.
Print Assumptions C04_join_yields_referencing_rows_proof.
Print Assumptions C04_paths_cached_is_current_proof.
