(* C01, numbers as text: decimal rendering and parsing, fixed-width fields,
   integer literals through sqlite. *)
From Coq Require Import List NArith ZArith Bool Lia ZifyBool.
From Lib Require Import Str Lex ColumnsTpl.
From Gen Require Import Columns.
From Model Require Import Columns.
From Proofs Require Import ColumnsStr.
Import ListNotations.
Open Scope N_scope.

(* ---------------------------------------------------------------- decimal text (dec_N / digits_val of Lib) *)
Definition dstep (a : N) (c : ch) : N := a * 10 + (c - 48).
Lemma digits_val_eq l : digits_val l = fold_left dstep l 0.
Proof. reflexivity. Qed.

Lemma size_nat_bound p : Npos p < 2 ^ N.of_nat (Pos.size_nat p).
Proof.
  induction p as [p IH|p IH|]; cbn [Pos.size_nat]; rewrite ?Nat2N.inj_succ, ?N.pow_succ_r'; try lia.
Qed.

Lemma dec_fuel_val : forall f n acc,
  n < 2 ^ N.of_nat f -> fold_left dstep (dec_fuel f n acc) 0 = fold_left dstep acc n.
Proof.
  induction f as [|f IH]; intros n acc Hn.
  - cbn in Hn. assert (n = 0) by lia. subst. reflexivity.
  - rewrite Nat2N.inj_succ, N.pow_succ_r' in Hn.
    cbn [dec_fuel]. pose proof (N.div_mod n 10 ltac:(lia)) as Hdm.
    pose proof (N.mod_lt n 10 ltac:(lia)) as Hm.
    destruct (n / 10 =? 0) eqn:E.
    + cbn [fold_left]. f_equal. unfold dstep.
      set (q := n / 10) in *. set (r := n mod 10) in *. clearbody q r. lia.
    + rewrite IH.
      * cbn [fold_left]. f_equal. unfold dstep.
        set (q := n / 10) in *. set (r := n mod 10) in *. clearbody q r. lia.
      * apply N.div_lt_upper_bound; [lia|]. set (P := 2 ^ N.of_nat f) in *. clearbody P. lia.
Qed.

Lemma fuel_ok n : n < 2 ^ N.of_nat (S (N.size_nat n)).
Proof.
  destruct n as [|p]; [cbn; lia|].
  cbn [N.size_nat]. rewrite Nat2N.inj_succ, N.pow_succ_r'. pose proof (size_nat_bound p). lia.
Qed.

Lemma dec_N_val n : digits_val (dec_N n) = n.
Proof. rewrite digits_val_eq. unfold dec_N. rewrite dec_fuel_val; [reflexivity|apply fuel_ok]. Qed.

Lemma dec_fuel_digits : forall f n acc,
  forallb is_digit acc = true -> forallb is_digit (dec_fuel f n acc) = true.
Proof.
  induction f as [|f IH]; intros n acc Ha; [exact Ha|].
  cbn [dec_fuel]. pose proof (N.mod_lt n 10 ltac:(lia)) as Hm.
  assert (Hd : forallb is_digit ((48 + n mod 10) :: acc) = true).
  { cbn [forallb]. rewrite Ha. unfold is_digit. set (r := n mod 10) in *. clearbody r. lia. }
  destruct (n / 10 =? 0); [exact Hd|now apply IH].
Qed.
Lemma dec_fuel_nonempty : forall f n acc, acc <> [] -> dec_fuel f n acc <> [].
Proof.
  induction f as [|f IH]; intros n acc Ha; [exact Ha|].
  cbn [dec_fuel]. destruct (n / 10 =? 0); [discriminate|apply IH; discriminate].
Qed.
Lemma dec_N_digits n : forallb is_digit (dec_N n) = true.
Proof. unfold dec_N. now apply dec_fuel_digits. Qed.
Lemma dec_N_nonempty n : dec_N n <> [].
Proof.
  unfold dec_N. cbn [dec_fuel]. destruct (n / 10 =? 0); [discriminate|apply dec_fuel_nonempty; discriminate].
Qed.

(* number of digits: n < 10^w has at most w digits (w >= 1) *)
Lemma dec_fuel_length : forall f n acc w,
  n < 2 ^ N.of_nat f -> n < 10 ^ N.of_nat w -> (1 <= w)%nat ->
  (length (dec_fuel f n acc) <= w + length acc)%nat.
Proof.
  induction f as [|f IH]; intros n acc w Hf Hw H1.
  - cbn [dec_fuel]. lia.
  - rewrite Nat2N.inj_succ, N.pow_succ_r' in Hf.
    cbn [dec_fuel]. destruct (n / 10 =? 0) eqn:E.
    + cbn [length]. lia.
    + assert (Hq : n / 10 <> 0) by (intros H0; rewrite H0 in E; discriminate).
      assert (Hn10 : 10 <= n).
      { destruct (N.lt_ge_cases n 10) as [Hlt|]; [|assumption]. rewrite N.div_small in Hq by assumption. congruence. }
      destruct w as [|[|w]]; [lia| |].
      * cbn in Hw. lia.
      * specialize (IH (n / 10) ((48 + n mod 10) :: acc) (S w)).
        cbn [length] in IH.
        assert (n / 10 < 2 ^ N.of_nat f).
        { apply N.div_lt_upper_bound; [lia|]. set (P := 2 ^ N.of_nat f) in *. clearbody P. lia. }
        assert (n / 10 < 10 ^ N.of_nat (S w)).
        { apply N.div_lt_upper_bound; [lia|]. rewrite <- N.pow_succ_r'. rewrite <- Nat2N.inj_succ. exact Hw. }
        specialize (IH ltac:(assumption) ltac:(assumption) ltac:(lia)). lia.
Qed.
Lemma dec_N_length n w : n < 10 ^ N.of_nat w -> (1 <= w)%nat -> (length (dec_N n) <= w)%nat.
Proof.
  intros Hw H1. unfold dec_N. pose proof (dec_fuel_length (S (N.size_nat n)) n [] w (fuel_ok n) Hw H1) as H.
  cbn [length] in H. lia.
Qed.

(* ---------------------------------------------------------------- leading zeros and %0wd *)
Lemma fold_dstep_zeros k : forall acc rest, fold_left dstep (repeat 48 k ++ rest) acc = fold_left dstep rest (acc * 10 ^ N.of_nat k).
Proof.
  induction k as [|k IH]; intros acc rest.
  - cbn [repeat app]. f_equal. change (N.of_nat 0) with 0. rewrite N.pow_0_r. lia.
  - cbn [repeat app fold_left]. rewrite IH. f_equal. unfold dstep.
    rewrite Nat2N.inj_succ, N.pow_succ_r'. set (P := 10 ^ N.of_nat k). clearbody P. lia.
Qed.
Lemma digits_val_zeros k ds : digits_val (repeat 48 k ++ ds) = digits_val ds.
Proof. rewrite !digits_val_eq, fold_dstep_zeros. reflexivity. Qed.

Lemma fixed_val w n : digits_val (fixed w n) = n.
Proof. unfold fixed. now rewrite digits_val_zeros, dec_N_val. Qed.
Lemma fixed_length w n : n < 10 ^ N.of_nat w -> (1 <= w)%nat -> length (fixed w n) = w.
Proof.
  intros Hn H1. unfold fixed. rewrite app_length, repeat_length.
  pose proof (dec_N_length n w Hn H1) as HL. change (@length ch) with (@length N) in *. set (L := length (dec_N n)) in *. clearbody L. clear Hn. lia.
Qed.
Lemma fixed_digits w n : forallb is_digit (fixed w n) = true.
Proof.
  unfold fixed. rewrite forallb_app, dec_N_digits, andb_true_r.
  induction (w - length (dec_N n))%nat as [|k IH]; [reflexivity|]. cbn [repeat forallb]. now rewrite IH.
Qed.

(* ---------------------------------------------------------------- span *)
Definition stops (p : ch -> bool) (rest : str) : Prop :=
  match rest with c :: _ => p c = false | [] => True end.
Lemma span_app p : forall w rest,
  forallb p w = true -> stops p rest -> span p (w ++ rest) = (w, rest).
Proof.
  induction w as [|c w IH]; intros rest Hw Hr.
  - cbn [app]. destruct rest as [|c r]; [reflexivity|]. cbn [span]. cbn in Hr. now rewrite Hr.
  - cbn [forallb] in Hw. apply andb_true_iff in Hw. destruct Hw as [Hc Hw].
    cbn [app span]. rewrite Hc. now rewrite (IH rest Hw Hr).
Qed.

(* ---------------------------------------------------------------- character classes *)
Lemma forallb_existsb_false {A} (p q : A -> bool) l :
  forallb p l = true -> (forall x, p x = true -> q x = false) -> existsb q l = false.
Proof.
  intros Hp Hq. induction l as [|x l IH]; [reflexivity|].
  cbn [forallb] in Hp. apply andb_true_iff in Hp. destruct Hp as [Hx Hl].
  cbn [existsb]. now rewrite (Hq x Hx), IH.
Qed.
Lemma forallb_impl {A} (p q : A -> bool) l :
  forallb p l = true -> (forall x, p x = true -> q x = true) -> forallb q l = true.
Proof.
  intros Hp Hq. induction l as [|x l IH]; [reflexivity|].
  cbn [forallb] in *. apply andb_true_iff in Hp. destruct Hp as [Hx Hl]. now rewrite (Hq x Hx), IH.
Qed.

(* the characters of an integer literal *)
Definition int_char (c : ch) : bool := is_digit c || (c =? c_minus).
Lemma dec_Z_chars z : forallb int_char (dec_Z z) = true.
Proof.
  assert (H : forall n, forallb int_char (dec_N n) = true).
  { intros n. apply (forallb_impl is_digit); [apply dec_N_digits|]. intros x Hx. unfold int_char. now rewrite Hx. }
  destruct z as [|p|p]; cbn [dec_Z]; [reflexivity|apply H|]. cbn [forallb]. now rewrite H.
Qed.

Lemma dec_N_head n : exists c r, dec_N n = c :: r /\ is_digit c = true.
Proof.
  pose proof (dec_N_nonempty n) as Hn. pose proof (dec_N_digits n) as Hd.
  destruct (dec_N n) as [|c r]; [congruence|]. exists c, r. split; [reflexivity|].
  cbn [forallb] in Hd. now apply andb_true_iff in Hd.
Qed.

Lemma int_of_text_dec z : int_of_text (dec_Z z) = Some z.
Proof.
  destruct z as [|p|p]; cbn [dec_Z].
  - reflexivity.
  - destruct (dec_N_head (Npos p)) as (c & r & Hc & Hd). unfold int_of_text. rewrite Hc.
    assert (Hm : (c =? c_minus) = false) by (unfold is_digit, c_minus in *; lia).
    rewrite Hm. rewrite <- Hc. unfold all_digits. rewrite dec_N_digits, dec_N_val.
    rewrite Hc. reflexivity.
  - unfold int_of_text. rewrite N.eqb_refl. unfold all_digits. rewrite dec_N_digits, dec_N_val.
    destruct (dec_N_head (Npos p)) as (c & r & Hc & Hd). rewrite Hc. reflexivity.
Qed.

Lemma int_head z : exists c r, dec_Z z = c :: r /\ int_char c = true.
Proof.
  pose proof (dec_Z_chars z) as H. destruct z as [|p|p]; cbn [dec_Z] in *.
  - now exists 48, [].
  - destruct (dec_N_head (Npos p)) as (c & r & Hc & Hd). exists c, r. split; [assumption|]. unfold int_char. now rewrite Hd.
  - exists c_minus, (dec_N (Npos p)). split; reflexivity.
Qed.

(* sqlite and an integer literal within int64 *)
Lemma store_int C a z : int64_ok z = true -> sqlite_store C a (dec_Z z) = apply_affinity C a (SInt z).
Proof.
  intros H64. unfold sqlite_store.
  pose proof (dec_Z_chars z) as Hc.
  assert (Hnul : contains c_nul (dec_Z z) = false).
  { unfold contains. apply (forallb_existsb_false int_char); [assumption|].
    intros x Hx. unfold int_char, is_digit, c_minus, c_nul in *. lia. }
  assert (Hsur : existsb is_surrogate (dec_Z z) = false).
  { apply (forallb_existsb_false int_char); [assumption|].
    intros x Hx. unfold int_char, is_digit, c_minus, is_surrogate in *. lia. }
  rewrite Hnul, Hsur.
  destruct (int_head z) as (c & r & Hz & Hcc).
  assert (Hnull : str_eqb (dec_Z z) s_NULL = false).
  { rewrite Hz. unfold s_NULL. cbn [str_eqb].
    assert ((c =? 78) = false) by (unfold int_char, is_digit, c_minus in *; lia). now rewrite H. }
  rewrite Hnull. rewrite int_of_text_dec, H64. rewrite Hz.
  assert (Hq : (c =? c_q) = false) by (unfold int_char, is_digit, c_minus, c_q in *; lia).
  now rewrite Hq.
Qed.
