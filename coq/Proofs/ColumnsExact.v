(* C01: "exactness" of the engine step for each kind of db value -- what is
   stored for the literal reads back as the value the writer cached, and the
   equality query's operand equals the stored value.  Proved outright for
   text and int64 traffic; for REAL-prone traffic it is the per-value oracle
   engine_exact of Model/Columns.v. *)
From Coq Require Import List NArith ZArith Bool Lia ZifyBool.
From Lib Require Import Str Lex ColumnsTpl.
From Gen Require Import Columns.
From Model Require Import Columns.
From Proofs Require Import ColumnsStr ColumnsNum ColumnsDate ColumnsAff.
Import ListNotations.
Open Scope N_scope.

(* equal as Python values: identical, or == *)
Definition same (a b : pyval) : Prop := a = b \/ pyeq a b = true.

(* R relates the writer's cached value to what a database read returns *)
Definition exact_gen (R : pyval -> pyval -> Prop) (C : codecs) (T : coltype) (dbv : pyval) : Prop :=
  forall lit s, literal C dbv = Ok lit -> sqlite_store C (col_affinity T) lit = Ok s ->
    (forall c, to_python C T dbv = Ok c -> exists d, read_db C T s = Ok d /\ R c d) /\
    (exists r, compare_operand C (col_affinity T) lit = Ok r /\ sval_sqleq s r = true).
Definition exact := exact_gen same.
(* readable and findable, whatever the relation between the two values *)
Definition any2 (_ _ : pyval) : Prop := True.
Definition readable := exact_gen any2.
Lemma exact_readable C T dbv : exact C T dbv -> readable C T dbv.
Proof.
  intros H lit s Hl Hs. destruct (H lit s Hl Hs) as [Hr Hc]. split; [|exact Hc].
  intros c Hc'. destruct (Hr c Hc') as (d & Hd & _). exists d. split; [exact Hd|exact I].
Qed.

Lemma str_eqb_refl s : str_eqb s s = true.
Proof. induction s as [|c s IH]; [reflexivity|]. cbn [str_eqb]. now rewrite N.eqb_refl, IH. Qed.

(* ---------------------------------------------------------------- the oracle, as a Prop *)
Lemma oracle_exact C T dbv : engine_exact C T dbv = true -> exact C T dbv.
Proof.
  unfold engine_exact, exact, exact_gen. intros H lit s Hl Hs. rewrite Hl, Hs in H.
  apply andb_true_iff in H. destruct H as [H1 H2]. split.
  - intros c Hc. rewrite Hc in H1. destruct (read_db C T s) as [d|e]; [|discriminate].
    exists d. split; [reflexivity|]. right. exact H1.
  - destruct (compare_operand C (col_affinity T) lit) as [r|e]; [|discriminate]. now exists r.
Qed.

(* ---------------------------------------------------------------- text in a TEXT column *)
Lemma exact_text C T s : col_affinity T = ATEXT -> exact C T (PStr s).
Proof.
  intros Ha lit st Hl Hs. cbn [literal] in Hl. injection Hl as <-. rewrite Ha in *.
  rewrite store_quoted in Hs. destruct (text_ok s) eqn:Hok.
  - cbn [apply_affinity] in Hs. injection Hs as <-. split.
    + intros c Hc. exists c. split; [exact Hc|now left].
    + unfold compare_operand. rewrite store_quoted, Hok. cbn [apply_affinity rbind].
      exists (SText s). split; [reflexivity|]. cbn [sval_sqleq]. apply str_eqb_refl.
  - destruct (contains c_nul s); discriminate.
Qed.

(* ---------------------------------------------------------------- date/time text in a NUMERIC column *)
Lemma exact_gen_numeric_text (R : pyval -> pyval -> Prop) C T inner dbv c c' :
  col_affinity T = ANUMERIC ->
  literal C dbv = Ok (c_q :: inner ++ [c_q]) ->
  forallb dt_char inner = true -> looks_numeric inner = false ->
  to_python C T dbv = Ok c -> to_python C T (PStr inner) = Ok c' -> R c c' ->
  exact_gen R C T dbv.
Proof.
  intros Ha Hlit Hch Hnum Hto Hread HR lit st Hl Hs. rewrite Hlit in Hl. injection Hl as <-. rewrite Ha in *.
  destruct (dt_chars_text_ok inner Hch) as [Hok Hq].
  rewrite <- (quote_plain inner Hq) in *.
  rewrite store_quoted, Hok in Hs. cbn [apply_affinity] in Hs. rewrite Hnum in Hs. injection Hs as <-. split.
  - intros c0 Hc0. rewrite Hto in Hc0. injection Hc0 as <-. exists c'. split; [exact Hread|exact HR].
  - unfold compare_operand. rewrite store_quoted, Hok. cbn [apply_affinity rbind]. rewrite Hnum.
    exists (SText inner). split; [reflexivity|]. cbn [sval_sqleq]. apply str_eqb_refl.
Qed.

Lemma exact_numeric_text C T inner dbv c :
  col_affinity T = ANUMERIC ->
  literal C dbv = Ok (c_q :: inner ++ [c_q]) ->
  forallb dt_char inner = true -> looks_numeric inner = false ->
  to_python C T dbv = Ok c -> to_python C T (PStr inner) = Ok c ->
  exact C T dbv.
Proof. intros. apply (exact_gen_numeric_text same C T inner dbv c c); try assumption. now left. Qed.

(* ---------------------------------------------------------------- an int64 in an INTEGER or NUMERIC column *)
Lemma exact_int C T z dbv :
  (col_affinity T = AINTEGER \/ col_affinity T = ANUMERIC) ->
  literal C dbv = Ok (dec_Z z) -> int64_ok z = true ->
  (forall c, to_python C T dbv = Ok c -> exists d, to_python C T (PInt z) = Ok d /\ same c d) ->
  exact C T dbv.
Proof.
  intros Ha Hlit H64 Hto lit st Hl Hs. rewrite Hlit in Hl. injection Hl as <-.
  rewrite (store_int C _ z H64) in Hs.
  assert (Hst : st = SInt z) by (destruct Ha as [Ha|Ha]; rewrite Ha in Hs; cbn [apply_affinity] in Hs; congruence).
  subst st. split.
  - intros c Hc. exact (Hto c Hc).
  - unfold compare_operand. rewrite (store_int C ABLOB z H64). cbn [apply_affinity rbind].
    exists (SInt z). split; [destruct Ha as [Ha|Ha]; rewrite Ha; reflexivity|]. cbn [sval_sqleq]. apply Z.eqb_refl.
Qed.
