(* C09 -- every guarded step preserves the invariant: the case analysis over the program points. *)
From Coq Require Import List ZArith Bool Arith Lia.
From Model Require Import CacheConc CacheConcSpec.
From Proofs Require Import CacheConcBase CacheConcFields CacheConcIdent CacheConcSteps CacheConcInv CacheConcNoc.
Import ListNotations.

Lemma case_cc : forall s t c p', Inv s -> t < s_n s ->
  (forall s1, Inv s1 -> s_thr s1 = s_thr s -> s_n s1 = s_n s -> s_strong s1 = s_strong s -> s_weak s1 = s_weak s ->
     Inv (put_thr s1 t (set_pc (s_thr s1 t) p'))) ->
  Inv (put_thr (with_cc s c) t (set_pc (s_thr s t) p')).
Proof.
  intros s t c p' Hinv Ht H. apply (H (with_cc s c)); try reflexivity. now apply Inv_with_cc.
Qed.
Lemma case_present : forall s t b p', Inv s -> t < s_n s ->
  (forall s1, Inv s1 -> s_thr s1 = s_thr s -> s_n s1 = s_n s -> s_strong s1 = s_strong s -> s_weak s1 = s_weak s ->
     Inv (put_thr s1 t (set_pc (s_thr s1 t) p'))) ->
  Inv (put_thr (with_present s b) t (set_pc (s_thr s t) p')).
Proof.
  intros s t b p' Hinv Ht H. apply (H (with_present s b)); try reflexivity. now apply Inv_with_present.
Qed.


(* two threads cannot both be inside the lock *)
Lemma two_holders : forall s x t, Inv s -> x < s_n s -> t < s_n s ->
  holds (t_pc (s_thr s x)) = true -> holds (t_pc (s_thr s t)) = true -> x = t.
Proof.
  intros s x t Hinv Hx Ht A B. apply (inv_lock s Hinv x Hx) in A. apply (inv_lock s Hinv t Ht) in B. congruence.
Qed.

Lemma deadw_not_strong : forall s x k i o, Inv s -> x < s_n s -> deadw (s_thr s x) = Some k ->
  dget (s_strong s) i = Some o -> k <> i.
Proof.
  intros s x k i o Hinv Hx D S E. subst k. destruct (inv_deadw s Hinv x i Hx D) as (W & _).
  apply W. eapply (disj_strict s x Hinv Hx); eauto.
  - eapply deadw_holds; eauto.
  - unfold deadw in D. destruct (t_pc (s_thr s x)); try discriminate; reflexivity.
Qed.

Lemma absent_key_holds : forall th k, absent_key th = Some k -> holds (t_pc th) = true.
Proof.
  intros th k H. unfold absent_key in H. destruct (t_pc th); simpl in *; try discriminate; reflexivity.
Qed.

(* ---- get, line 105: the unlocked look at the strong dict *)
Lemma case_F105_hit : forall s t o, Inv s -> t < s_n s -> t_pc (s_thr s t) = F105 ->
  dget (s_strong s) (t_id (s_thr s t)) = Some o ->
  Inv (put_thr s t (finish (s_thr s t) (RObj o (t_id (s_thr s t)) (s_epoch s (t_id (s_thr s t)))))).
Proof.
  intros s t o Hinv Ht Hpc S.
  eapply inv_finish with (s := s) (t := t); try reflexivity; try assumption;
    try (match goal with |- xwinpc _ = false => first [rewrite Hpc; reflexivity | destruct Hpc as [-> | ->]; reflexivity] end).
  - intros o1 _. reflexivity.
  - apply lc_same; [reflexivity | simpl; now rewrite Hpc].
  - apply wc_same; [reflexivity |]. intros o1 _. unfold wl. simpl. rewrite Hpc. simpl.
    split; intros (A & _); discriminate.
  - unfold mov_of. now rewrite Hpc.
  - split; [eapply inv_w_strong; eauto |]. right. split; [unfold inflight; now rewrite Hpc |].
    split; [reflexivity |]. split; [now left |].
    intros x k Hx _ D. eapply deadw_not_strong; eauto.
Qed.

(* ---- get, line 110: the look at the strong dict under the lock *)
Lemma case_F110_hit : forall s t o, Inv s -> t < s_n s -> t_pc (s_thr s t) = F110 ->
  dget (s_strong s) (t_id (s_thr s t)) = Some o ->
  Inv (put_thr s t (set_pc (set_val (s_thr s t) (Some o) (s_epoch s (t_id (s_thr s t)))) F114)).
Proof.
  intros s t o Hinv Ht Hpc S.
  eapply inv_thr_step with (s := s) (t := t) (new := Some (t_id (s_thr s t), o, s_epoch s (t_id (s_thr s t))));
    try reflexivity; thr_obl s t Hinv Ht Hpc.
  - simpl. intros x E. inversion E; subst. eapply inv_w_strong; eauto.
  - simpl. intros o1 _ E. inversion E; subst. eapply inv_key_strong; eauto.
  - intros i o1 e [A | A]; [left; now left |]. right. unfold inflight in A. simpl in A.
    destruct (t_exc (s_thr s t)); [discriminate | exact A].
  - intros i0 o0 e0 E. inversion E; subst. split; [reflexivity | now left].
  - intros i0 o0 e0 E x k Hx Hne D. inversion E; subst. eapply deadw_not_strong; eauto.
Qed.

(* ---- get, lines 115 / 126: return val *)
Lemma case_return_val : forall s t, Inv s -> t < s_n s ->
  (t_pc (s_thr s t) = F115 \/ t_pc (s_thr s t) = F126) ->
  Inv (put_thr s t (finish (s_thr s t)
        (match t_val (s_thr s t) with Some o => RObj o (t_id (s_thr s t)) (t_ep (s_thr s t)) | None => RNone end))).
Proof.
  intros s t Hinv Ht Hpc.
  assert (V : t_val (s_thr s t) <> None) by (apply (inv_valdef s Hinv t Ht); destruct Hpc as [-> | ->]; reflexivity).
  destruct (t_val (s_thr s t)) as [o |] eqn:E; [| congruence].
  eapply inv_finish with (s := s) (t := t); try reflexivity; try assumption;
    try (match goal with |- xwinpc _ = false => first [rewrite Hpc; reflexivity | destruct Hpc as [-> | ->]; reflexivity] end).
  - intros o1 _. reflexivity.
  - apply lc_same; [reflexivity | simpl; destruct Hpc as [-> | ->]; reflexivity].
  - apply wc_same; [reflexivity |]. intros o1 _. unfold wl. simpl.
    split; intros (A & _); [discriminate | destruct Hpc as [P | P]; rewrite P in A; discriminate].
  - unfold mov_of. destruct Hpc as [-> | ->]; reflexivity.
  - split; [destruct (inv_w_thr s Hinv t Ht) as (Rv & _); now apply Rv |].
    left. unfold inflight. rewrite E.
    assert (X : t_exc (s_thr s t) = None).
    { destruct (inv_exc s Hinv t Ht) as [A | (_ & [C | [C | C]])]; [exact A | destruct Hpc; congruence ..]. }
    rewrite X. destruct Hpc as [-> | ->]; reflexivity.
Qed.

(* ---- get, line 117: the look at the weak dict *)
Lemma case_F117_some : forall s t o, Inv s -> t < s_n s -> t_pc (s_thr s t) = F117 ->
  dget (s_weak s) (t_id (s_thr s t)) = Some o ->
  Inv (put_thr s t (set_pc (set_val (s_thr s t) (deref s o) (s_epoch s (t_id (s_thr s t)))) F121)).
Proof.
  intros s t o Hinv Ht Hpc W.
  assert (Hsab : dget (s_strong s) (t_id (s_thr s t)) = None) by (apply (inv_sabs s Hinv t Ht); now rewrite Hpc).
  assert (Hx_t : forall x, x < s_n s -> holds (t_pc (s_thr s x)) = true -> x = t).
  { intros x Hx A. eapply two_holders; eauto. now rewrite Hpc. }
  eapply inv_thr_step with (s := s) (t := t)
    (new := match deref s o with Some o' => Some (t_id (s_thr s t), o', s_epoch s (t_id (s_thr s t))) | None => None end);
    try reflexivity; thr_obl s t Hinv Ht Hpc.
  - simpl. intros x E. unfold deref in E. destruct (aliveb s o); [injection E as <- | discriminate]. eapply inv_w_weak; eauto.
  - simpl. intros o1 _ E. unfold deref in E. destruct (aliveb s o); [injection E as <- | discriminate]. eapply inv_key_weak; eauto.
  - intros i o1 e [A | A]; [left; now left |]. right. unfold inflight in A. simpl in A.
    destruct (t_exc (s_thr s t)); [discriminate |]. destruct (deref s o); [exact A | discriminate].
  - intros i0 o0 e0 E. unfold deref in *. destruct (aliveb s o); [| discriminate]. injection E as <- <- <-. split; [reflexivity |]. right. now left.
  - intros i0 o0 e0 _ x k Hx Hne D. exfalso. apply Hne. apply Hx_t; [assumption | eapply deadw_holds; eauto].
  - simpl. intros o1 _ V. unfold deref in V. destruct (aliveb s o); [| discriminate]. injection V as <-. exact W.
  - intros k D. unfold deadw in D. simpl in D. unfold deref in *. destruct (aliveb s o) eqn:A; [discriminate |].
    injection D as <-. split; [congruence |].
    intros o1. split; [| reflexivity]. intros H.
    pose proof (inv_reg s Hinv _ _ H) as [R | [R | (x & Hx & R)]].
    + congruence.
    + assert (o1 = o) by congruence. subst. apply holder_alive in H. congruence.
    + destruct (mov_core s x _ _ Hinv Hx R) as (Hh & _). apply Hx_t in Hh; [| assumption]. subst x.
      unfold mov_of in R. rewrite Hpc in R. discriminate.
Qed.

(* ---- get, line 122: if val is None *)
Lemma case_F122 : forall s t, Inv s -> t < s_n s -> t_pc (s_thr s t) = F122 ->
  Inv (put_thr s t (set_pc (s_thr s t) (match t_val (s_thr s t) with None => F123 | Some _ => F124 end))).
Proof.
  intros s t Hinv Ht Hpc. destruct (t_val (s_thr s t)) eqn:V.
  - apply inv_goto; try assumption; goto_side s Hinv t Ht Hpc. right. congruence.
  - apply inv_goto; try assumption; goto_side s Hinv t Ht Hpc. now rewrite V.
Qed.

(* ---- get, line 124: the live referent goes back into the strong dict *)
Lemma case_F124 : forall s t o, Inv s -> t < s_n s -> t_pc (s_thr s t) = F124 ->
  t_val (s_thr s t) = Some o ->
  Inv (put_thr (with_strong s (dset (s_strong s) (t_id (s_thr s t)) o)) t (set_pc (s_thr s t) F125)).
Proof.
  intros s t o Hinv Ht Hpc V.
  destruct (inv_w_thr s Hinv t Ht) as (Rv & Rs & Rl).
  eapply inv_strong_set with (s := s) (t := t) (i := t_id (s_thr s t)) (o := o) (new := None); try reflexivity;
    try assumption; thr_obl s t Hinv Ht Hpc.
  - apply (inv_sabs s Hinv t Ht). now rewrite Hpc.
  - apply (inv_wabs s Hinv t Ht). now rewrite Hpc.
  - now apply Rv.
  - apply (inv_valkey s Hinv t o Ht); [now rewrite Hpc | assumption].
  - intros x k Hx Hne A E. apply Hne. eapply two_holders; eauto; [eapply absent_key_holds; eauto | now rewrite Hpc].
  - right. unfold mov_of. now rewrite Hpc, V.
Qed.


Lemma sabs_holds : forall p, sabs p = true -> holds p = true.
Proof. destruct p; simpl; intros; try discriminate; reflexivity. Qed.

(* ---- put, line 153 *)
Lemma case_P153 : forall s t o, Inv s -> t < s_n s -> t_pc (s_thr s t) = P153 ->
  t_val (s_thr s t) = Some o ->
  Inv (put_thr (with_strong s (dset (s_strong s) (t_id (s_thr s t)) o)) t
         (set_pc (set_val (s_thr s t) (Some o) (s_epoch s (t_id (s_thr s t)))) M956)).
Proof.
  intros s t o Hinv Ht Hpc V.
  destruct (inv_w_thr s Hinv t Ht) as (Rv & Rs & Rl).
  eapply inv_strong_set with (s := s) (t := t) (i := t_id (s_thr s t)) (o := o)
    (new := Some (t_id (s_thr s t), o, s_epoch s (t_id (s_thr s t)))); try reflexivity;
    try assumption; thr_obl s t Hinv Ht Hpc.
  - apply (inv_sabs s Hinv t Ht). now rewrite Hpc.
  - apply (inv_wabs s Hinv t Ht). now rewrite Hpc.
  - now apply Rv.
  - apply (inv_valkey s Hinv t o Ht); [now rewrite Hpc | assumption].
  - intros x k Hx Hne A E. apply Hne. eapply two_holders; eauto; [eapply absent_key_holds; eauto | now rewrite Hpc].
  - left. unfold mov_of. now rewrite Hpc.
  - unfold ref_ok. simpl. intros x E. injection E as <-. now apply Rv.
  - simpl. intros o1 _ E. injection E as <-. apply (inv_valkey s Hinv t o Ht); [now rewrite Hpc | assumption].
  - intros i o1 e [A | A]; [left; now left |]. right. unfold inflight in A. simpl in A.
    destruct (t_exc (s_thr s t)); [discriminate | exact A].
  - intros i0 o0 e0 E. injection E as <- <- <-. auto.
Qed.

Lemma exc_none : forall s t, Inv s -> t < s_n s ->
  t_pc (s_thr s t) <> M956 -> t_pc (s_thr s t) <> SQ314 -> t_pc (s_thr s t) <> Q162 -> t_exc (s_thr s t) = None.
Proof.
  intros s t Hinv Ht A B C. destruct (inv_exc s Hinv t Ht) as [X | (_ & [X | [X | X]])]; [assumption | contradiction ..].
Qed.

(* ---- created: the write under the lock (guarded: the cache has no entry for the new id) *)
Lemma case_K181 : forall s t, Inv s -> t < s_n s -> t_pc (s_thr s t) = K181 ->
  created_race s t = false ->
  Inv (put_thr (with_strong s (dset (s_strong s) (t_id (s_thr s t)) (self_of (s_thr s t)))) t
         (set_pc (set_val (s_thr s t) (Some (self_of (s_thr s t))) (s_epoch s (t_id (s_thr s t)))) K181r)).
Proof.
  intros s t Hinv Ht Hpc G.
  destruct (inv_w_thr s Hinv t Ht) as (Rv & Rs & Rl).
  assert (Sd : t_self (s_thr s t) <> None) by (apply (inv_selfdef s Hinv t Ht); now rewrite Hpc).
  destruct (t_self (s_thr s t)) as [o |] eqn:So; [| congruence]. clear Sd.
  assert (Eso : self_of (s_thr s t) = o) by (unfold self_of; now rewrite So). rewrite Eso.
  unfold created_race in G.
  destruct (dget (s_strong s) (t_id (s_thr s t))) eqn:G1; [discriminate |].
  destruct (dget (s_weak s) (t_id (s_thr s t))) eqn:G2; [discriminate |].
  eapply inv_strong_set with (s := s) (t := t) (i := t_id (s_thr s t)) (o := o)
    (new := Some (t_id (s_thr s t), o, s_epoch s (t_id (s_thr s t)))); try reflexivity;
    try assumption; thr_obl s t Hinv Ht Hpc.
  - now apply Rs.
  - apply (inv_selfkey s Hinv t o Ht); [now rewrite Hpc | assumption].
  - intros x k Hx Hne A E. apply Hne. eapply two_holders; eauto; [eapply absent_key_holds; eauto | now rewrite Hpc].
  - left. unfold mov_of. now rewrite Hpc.
  - simpl. intros o1 _ E. injection E as <-. apply (inv_selfkey s Hinv t o Ht); [now rewrite Hpc | assumption].
  - intros i o1 e [A | A]; [left; now left |]. right. unfold inflight in A. simpl in A.
    destruct (t_exc (s_thr s t)); [discriminate | exact A].
  - intros i0 o0 e0 E. injection E as <- <- <-. auto.
Qed.

(* ---- created: release, and the constructor returns *)
Lemma case_K181r : forall s t, Inv s -> t < s_n s -> t_pc (s_thr s t) = K181r ->
  Inv (put_thr (with_lock (with_heap s (set_obj_init (s_heap s) (self_of (s_thr s t))) (s_nextobj s)) None) t
         (finish (s_thr s t)
            (match t_val (s_thr s t) with
             | Some o => RObj o (t_id (s_thr s t)) (t_ep (s_thr s t)) | None => RNone end))).
Proof.
  intros s t Hinv Ht Hpc.
  assert (X : t_exc (s_thr s t) = None) by (apply exc_none; try assumption; rewrite Hpc; discriminate).
  assert (Hh : forall o, o_key (set_obj_init (s_heap s) (self_of (s_thr s t)) o) = o_key (s_heap s o) /\
                         o_wlock (set_obj_init (s_heap s) (self_of (s_thr s t)) o) = o_wlock (s_heap s o)).
  { intros o. unfold set_obj_init, upd. destruct (Nat.eqb o (self_of (s_thr s t))) eqn:E;
      [apply Nat.eqb_eq in E; subst |]; split; reflexivity. }
  eapply inv_finish with (s := s) (t := t); try reflexivity; try assumption;
    try (match goal with |- xwinpc _ = false => rewrite Hpc; reflexivity end).
  - intros o1 _. simpl. apply Hh.
  - apply lc_release; [now rewrite Hpc | reflexivity | reflexivity].
  - apply wc_same; [intros o1 _; simpl; apply Hh |]. intros o1 _. unfold wl. simpl. rewrite Hpc. simpl.
    split; intros (A & _); discriminate.
  - intros o1 _. simpl. apply Hh.
  - unfold mov_of. now rewrite Hpc.
  - destruct (t_val (s_thr s t)) as [o |] eqn:V; [| exact I].
    split; [destruct (inv_w_thr s Hinv t Ht) as (Rv & _); now apply Rv |].
    left. unfold inflight. now rewrite Hpc, X, V.
Qed.

(* ---- SQLObject.get after a miss: construct the instance and load the row *)
Lemma case_M951_found : forall s t, Inv s -> t < s_n s -> t_pc (s_thr s t) = M951 ->
  Inv (put_thr (with_heap s (upd (s_heap s) (s_nextobj s) (fresh_obj (t_id (s_thr s t)))) (S (s_nextobj s))) t
         (set_pc (set_val (s_thr s t) (Some (s_nextobj s)) (t_ep (s_thr s t))) M954)).
Proof.
  intros s t Hinv Ht Hpc.
  destruct (inv_w_thr s Hinv t Ht) as (Rv & Rs & Rl).
  eapply inv_thr_step with (s := s) (t := t) (new := None); try reflexivity; thr_obl s t Hinv Ht Hpc.
  - intros o Ho. simpl. now rewrite upd_other by lia.
  - apply wc_same.
    + intros o Ho. simpl. now rewrite upd_other by lia.
    + intros o _. unfold wl. simpl. rewrite Hpc. simpl. tauto.
  - intros o H1 H2. simpl in *. assert (o = s_nextobj s) by lia. subst. rewrite upd_same. split; [reflexivity |].
    unfold wl. simpl. intros (A & _). discriminate.
  - intros o Ho. simpl in *. now rewrite upd_other by lia.
  - unfold ref_ok. simpl. intros x E. injection E as <-. lia.
  - unfold ref_ok in *. simpl. intros x E. specialize (Rs x E). lia.
  - simpl. intros o i e H. specialize (Rl o i e H). lia.
  - pose proof (inv_w_cobj s Hinv t Ht) as Rc. unfold ref_ok in *. simpl. intros x E. specialize (Rc x E). lia.
  - simpl. intros o _ E. injection E as <-. now rewrite upd_same.
  - simpl. intros o X. pose proof (inv_w_all s Hinv t o Ht X). lia.
  - intros i o e [A | A]; [left; now left |]. unfold inflight in A. simpl in A. discriminate.
Qed.

Lemma case_M951_notfound : forall s t, Inv s -> t < s_n s -> t_pc (s_thr s t) = M951 ->
  Inv (put_thr s t (set_pc (set_exc (set_val (s_thr s t) None (t_ep (s_thr s t))) (Some NotFound)) M956)).
Proof.
  intros s t Hinv Ht Hpc.
  eapply inv_thr_step with (s := s) (t := t) (new := None); try reflexivity; thr_obl s t Hinv Ht Hpc.
  - right. simpl. auto.
  - intros i o e [A | A]; [left; now left |]. unfold inflight in A. simpl in A. discriminate.
Qed.

(* ---- finishPut, line 162: release, and SQLObject.get returns (or re-raises) *)
Lemma case_Q162 : forall s t, Inv s -> t < s_n s -> t_pc (s_thr s t) = Q162 ->
  Inv (put_thr (with_lock s None) t
         (finish (s_thr s t)
            (match t_exc (s_thr s t) with
             | Some x => RExc x
             | None => match t_val (s_thr s t) with
                       | Some o => RObj o (t_id (s_thr s t)) (t_ep (s_thr s t)) | None => RNone end
             end))).
Proof.
  intros s t Hinv Ht Hpc.
  eapply inv_finish with (s := s) (t := t); try reflexivity; try assumption;
    try (match goal with |- xwinpc _ = false => first [rewrite Hpc; reflexivity | destruct Hpc as [-> | ->]; reflexivity] end).
  - intros o1 _. reflexivity.
  - apply lc_release; [now rewrite Hpc | reflexivity | reflexivity].
  - apply wc_same; [reflexivity |]. intros o1 _. unfold wl. simpl. rewrite Hpc. simpl.
    split; intros (A & _); discriminate.
  - unfold mov_of. now rewrite Hpc.
  - destruct (inv_exc s Hinv t Ht) as [A | (A & _)]; rewrite A; [| reflexivity].
    destruct (t_val (s_thr s t)) as [o |] eqn:V; [| exact I].
    split; [destruct (inv_w_thr s Hinv t Ht) as (Rv & _); now apply Rv |].
    left. unfold inflight. now rewrite Hpc, A, V.
Qed.

(* ---- _SO_finishCreate: the INSERT *)
Lemma case_C1397 : forall s t, Inv s -> t < s_n s -> t_pc (s_thr s t) = C1397 ->
  Inv (put_thr (with_heap (with_rows s (s_rows s ++ [s_nextid s]) (s_nextid s + 1)%Z)
                  (upd (s_heap s) (s_nextobj s) (fresh_obj_uninit (s_nextid s))) (S (s_nextobj s))) t
         (set_pc (set_self (set_id (s_thr s t) (s_nextid s)) (Some (s_nextobj s))) C1400)).
Proof.
  intros s t Hinv Ht Hpc.
  destruct (inv_w_thr s Hinv t Ht) as (Rv & Rs & Rl).
  eapply inv_thr_step with (s := s) (t := t) (new := None); try reflexivity; thr_obl s t Hinv Ht Hpc.
  - intros o Ho. simpl. now rewrite upd_other by lia.
  - apply wc_same.
    + intros o Ho. simpl. now rewrite upd_other by lia.
    + intros o _. unfold wl. simpl. rewrite Hpc. simpl. split; intros (A & _); discriminate.
  - intros o H1 H2. simpl in *. assert (o = s_nextobj s) by lia. subst. rewrite upd_same. split; [reflexivity |].
    unfold wl. simpl. intros (A & _). discriminate.
  - intros o Ho. simpl in *. now rewrite upd_other by lia.
  - unfold ref_ok in *. simpl. intros x E. specialize (Rv x E). lia.
  - unfold ref_ok. simpl. intros x E. injection E as <-. lia.
  - simpl. intros o i e H. specialize (Rl o i e H). lia.
  - pose proof (inv_w_cobj s Hinv t Ht) as Rc. unfold ref_ok in *. simpl. intros x E. specialize (Rc x E). lia.
  - simpl. intros o _ E. injection E as <-. now rewrite upd_same.
  - simpl. intros o X. pose proof (inv_w_all s Hinv t o Ht X). lia.
  - intros i o e [A | A]; [left; now left |]. unfold inflight in A. simpl in A. discriminate.
Qed.


(* ---- SQLObject.expire *)
Lemma self_some : forall s t p, Inv s -> t < s_n s -> t_pc (s_thr s t) = p -> selfdef p = true ->
  exists o, t_self (s_thr s t) = Some o /\ self_of (s_thr s t) = o /\ o < s_nextobj s.
Proof.
  intros s t p Hinv Ht Hpc Sd.
  assert (A : t_self (s_thr s t) <> None) by (apply (inv_selfdef s Hinv t Ht); now rewrite Hpc).
  destruct (t_self (s_thr s t)) as [o |] eqn:E; [| congruence]. exists o.
  split; [reflexivity |]. split; [unfold self_of; now rewrite E |].
  destruct (inv_w_thr s Hinv t Ht) as (_ & Rs & _). now apply Rs.
Qed.

Lemma case_X1072 : forall s t, Inv s -> t < s_n s -> t_pc (s_thr s t) = X1072 ->
  o_wlock (s_heap s (self_of (s_thr s t))) = None ->
  Inv (put_thr (with_heap s (set_obj_wlock (s_heap s) (self_of (s_thr s t)) (Some t)) (s_nextobj s)) t
         (set_pc (s_thr s t) X1074)).
Proof.
  intros s t Hinv Ht Hpc W.
  destruct (self_some s t X1072 Hinv Ht Hpc eq_refl) as (o0 & So & Eo & Ho). rewrite Eo in *.
  eapply inv_thr_step with (s := s) (t := t) (new := None); try reflexivity; thr_obl s t Hinv Ht Hpc.
  - intros o _. simpl. unfold set_obj_wlock, upd. destruct (Nat.eqb o o0) eqn:E; [apply Nat.eqb_eq in E; subst |]; reflexivity.
  - apply wc_acquire with (o0 := o0); try assumption.
    + simpl. unfold set_obj_wlock. now rewrite upd_same.
    + intros o _ Hne. simpl. unfold set_obj_wlock. now rewrite upd_other.
    + now rewrite Hpc.
    + unfold wl. simpl. auto.
  - intros o Hge. simpl in *. unfold set_obj_wlock. rewrite upd_other by lia. reflexivity.
Qed.


Lemma case_noop_idle : forall s t, Inv s -> t < s_n s -> t_pc (s_thr s t) = Idle ->
  Inv (put_thr s t (finish (s_thr s t) RNone)).
Proof.
  intros s t Hinv Ht Hpc.
  eapply inv_finish with (s := s) (t := t); try reflexivity; try assumption;
    try (match goal with |- xwinpc _ = false => first [rewrite Hpc; reflexivity | destruct Hpc as [-> | ->]; reflexivity] end).
  - intros o1 _. reflexivity.
  - apply lc_same; [reflexivity | simpl; now rewrite Hpc].
  - apply wc_same; [reflexivity |]. intros o1 _. unfold wl. simpl. rewrite Hpc. simpl.
    split; intros (A & _); discriminate.
  - unfold mov_of. now rewrite Hpc.
Qed.

Lemma case_X1078 : forall s t, Inv s -> t < s_n s -> t_pc (s_thr s t) = X1078 ->
  Inv (put_thr (with_heap s (set_obj_expired (s_heap s) (self_of (s_thr s t)) true) (s_nextobj s)) t
         (set_pc (s_thr s t) X1079)).
Proof.
  intros s t Hinv Ht Hpc.
  eapply inv_thr_step with (s := s) (t := t) (new := None); try reflexivity; thr_obl s t Hinv Ht Hpc.
  - intros o _. simpl. unfold set_obj_expired, upd.
    destruct (Nat.eqb o (self_of (s_thr s t))) eqn:E; [apply Nat.eqb_eq in E; subst |]; reflexivity.
  - apply wc_same.
    + intros o _. simpl. unfold set_obj_expired, upd.
      destruct (Nat.eqb o (self_of (s_thr s t))) eqn:E; [apply Nat.eqb_eq in E; subst |]; reflexivity.
    + intros o _. unfold wl. simpl. rewrite Hpc. simpl. tauto.
  - intros o Hge. simpl in *. unfold set_obj_expired, upd.
    destruct (Nat.eqb o (self_of (s_thr s t))) eqn:E; [apply Nat.eqb_eq in E; subst |]; reflexivity.
Qed.

Lemma case_X1079 : forall s t k, Inv s -> t < s_n s -> t_pc (s_thr s t) = X1079 ->
  Inv (put_thr s t (set_pc (set_key (s_thr s t) k) SE325)).
Proof.
  intros s t k Hinv Ht Hpc.
  eapply inv_thr_step with (s := s) (t := t) (new := None); try reflexivity; thr_obl s t Hinv Ht Hpc.
  intros i o e [A | A]; [left; now left |]. unfold inflight in A. simpl in A. discriminate.
Qed.

Lemma case_X1083 : forall s t, Inv s -> t < s_n s -> t_pc (s_thr s t) = X1083 ->
  Inv (put_thr (with_heap s (set_obj_wlock (s_heap s) (self_of (s_thr s t)) None) (s_nextobj s)) t
         (finish (s_thr s t) RNone)).
Proof.
  intros s t Hinv Ht Hpc.
  destruct (self_some s t X1083 Hinv Ht Hpc eq_refl) as (o0 & So & Eo & Ho). rewrite Eo in *.
  eapply inv_finish with (s := s) (t := t); try reflexivity; try assumption;
    try (match goal with |- xwinpc _ = false => first [rewrite Hpc; reflexivity | destruct Hpc as [-> | ->]; reflexivity] end).
  - intros o _. simpl. unfold set_obj_wlock, upd. destruct (Nat.eqb o o0) eqn:E; [apply Nat.eqb_eq in E; subst |]; reflexivity.
  - apply lc_same; [reflexivity | simpl; now rewrite Hpc].
  - apply wc_release with (o0 := o0).
    + unfold wl. rewrite Hpc. auto.
    + simpl. unfold set_obj_wlock. now rewrite upd_same.
    + intros o _ Hne. simpl. unfold set_obj_wlock. now rewrite upd_other.
    + reflexivity.
  - intros o Hge. simpl in *. unfold set_obj_wlock. rewrite upd_other by lia. reflexivity.
  - unfold mov_of. now rewrite Hpc.
Qed.

(* ---- CacheFactory.expire: the purge *)
Lemma case_E237 : forall s t, Inv s -> t < s_n s -> t_pc (s_thr s t) = E237 ->
  Inv (put_thr (with_epoch (with_strong s (ddel (s_strong s) (t_key (s_thr s t)))) (bump (s_epoch s) (t_key (s_thr s t)))) t
         (set_pc (s_thr s t) E238)).
Proof.
  intros s t Hinv Ht Hpc.
  eapply inv_purge with (s := s) (t := t) (k := t_key (s_thr s t)) (sd := true); try reflexivity; try assumption;
    rewrite ?Hpc; try reflexivity.
  - apply exc_none; try assumption; rewrite Hpc; discriminate.
  - unfold mov_of. now rewrite Hpc.
  - discriminate.
Qed.
Lemma case_E239 : forall s t, Inv s -> t < s_n s -> t_pc (s_thr s t) = E239 ->
  Inv (put_thr (with_epoch (with_weak s (ddel (s_weak s) (t_key (s_thr s t)))) (bump (s_epoch s) (t_key (s_thr s t)))) t
         (set_pc (s_thr s t) E241)).
Proof.
  intros s t Hinv Ht Hpc.
  eapply inv_purge with (s := s) (t := t) (k := t_key (s_thr s t)) (sd := false); try reflexivity; try assumption;
    rewrite ?Hpc; try reflexivity.
  - apply exc_none; try assumption; rewrite Hpc; discriminate.
  - unfold mov_of. now rewrite Hpc.
  - discriminate.
Qed.

(* ---- get, line 121 *)
Lemma case_F121 : forall s t, Inv s -> t < s_n s -> t_pc (s_thr s t) = F121 ->
  Inv (put_thr (with_weak s (ddel (s_weak s) (t_id (s_thr s t)))) t (set_pc (s_thr s t) F122)).
Proof.
  intros s t Hinv Ht Hpc.
  eapply inv_weak_move with (s := s) (t := t); try reflexivity; assumption.
Qed.



(* ------------------------------------------------------------------ cull *)
Lemma Inv_with_co : forall s c, Inv s -> Inv (with_co s c).
Proof. intros s c H. destruct H. constructor; assumption. Qed.

Lemma cull_of : forall s t, Inv s -> t < s_n s -> cull_ok (s_strong s) (s_weak s) (s_heap s) (s_thr s t).
Proof. intros. now apply inv_cull. Qed.

(* get line 100 / created line 178: self.cull() *)
Lemma case_enter_cull : forall s t r, Inv s -> t < s_n s ->
  ((t_pc (s_thr s t) = F100 /\ r = RetGet) \/ (t_pc (s_thr s t) = K178 /\ r = RetCreated)) ->
  Inv (put_thr s t (set_pc (set_cret (s_thr s t) r) U192)).
Proof.
  intros s t r Hinv Ht Hc.
  destruct Hc as [(Hpc & ->) | (Hpc & ->)];
    (eapply inv_thr_step with (s := s) (t := t) (new := None); try reflexivity; thr_obl s t Hinv Ht Hpc).
  - split; [| split; [| split; [| split]]]; simpl; discriminate.
  - intros i o e [A | A]; [left; now left |]. unfold inflight in A. simpl in A. discriminate.
  - split; [| split; [| split; [| split]]]; simpl; try discriminate.
    intros _ _.
    assert (Sd : t_self (s_thr s t) <> None) by (apply (inv_selfdef s Hinv t Ht); now rewrite Hpc).
    destruct (t_self (s_thr s t)) as [o |] eqn:So; [| congruence]. exists o. split; [reflexivity |].
    apply (inv_selfkey s Hinv t o Ht); [now rewrite Hpc | assumption].
  - intros i o e [A | A]; [left; now left |]. unfold inflight in A. simpl in A. discriminate.
Qed.


Lemma cull_parts : forall s t, Inv s -> t < s_n s ->
  (kabs (t_pc (s_thr s t)) = true ->
     dget (s_strong s) (t_key (s_thr s t)) = None /\ dget (s_weak s) (t_key (s_thr s t)) = None) /\
  (cobjdef (t_pc (s_thr s t)) = true ->
     exists o, t_cobj (s_thr s t) = Some o /\ o_key (s_heap s o) = t_key (s_thr s t) /\
               (t_pc (s_thr s t) = U205 -> dget (s_strong s) (t_key (s_thr s t)) = Some o)) /\
  (wkeys (t_pc (s_thr s t)) = true ->
     NoDup (t_keys (s_thr s t)) /\ (forall k, In k (t_keys (s_thr s t)) -> dget (s_weak s) k <> None) /\
     (wcur (t_pc (s_thr s t)) = true ->
        dget (s_weak s) (t_key (s_thr s t)) <> None /\ ~ In (t_key (s_thr s t)) (t_keys (s_thr s t)))) /\
  (skeys (t_pc (s_thr s t)) = true ->
     NoDup (t_keys (s_thr s t)) /\ (forall k, In k (t_keys (s_thr s t)) -> dget (s_strong s) k <> None) /\
     (scur (t_pc (s_thr s t)) = true -> dget (s_strong s) (t_key (s_thr s t)) <> None) /\
     (skeyout (t_pc (s_thr s t)) = true -> ~ In (t_key (s_thr s t)) (t_keys (s_thr s t)))) /\
  (cullpc (t_pc (s_thr s t)) = true -> t_cret (s_thr s t) = RetCreated ->
     exists o, t_self (s_thr s t) = Some o /\ o_key (s_heap s o) = t_id (s_thr s t)).
Proof. intros s t Hinv Ht. exact (inv_cull s Hinv t Ht). Qed.

Ltac cull_self E := intros _ Y; simpl in Y; destruct (E eq_refl Y) as (o' & E1 & E2); exists o'; auto.

(* line 195: keys = list(self.expiredCache.keys()) *)
Lemma case_U195 : forall s t, Inv s -> t < s_n s -> t_pc (s_thr s t) = U195 ->
  Inv (put_thr s t (set_pc (set_keys (s_thr s t) (dkeys (s_weak s))) U196)).
Proof.
  intros s t Hinv Ht Hpc. destruct (cull_parts s t Hinv Ht) as (_ & _ & _ & _ & E). rewrite Hpc in E.
  eapply inv_thr_step with (s := s) (t := t) (new := None); try reflexivity; thr_obl s t Hinv Ht Hpc.
  - split; [| split; [| split; [| split]]]; simpl; try discriminate.
    + intros _. split; [apply (inv_nodup_weak s Hinv) | split; [| discriminate]].
      intros k Hk. now apply dkeys_present.
    + cull_self E.
  - intros i o e [A | A]; [left; now left |]. unfold inflight in A. simpl in A. discriminate.
Qed.

(* line 196: for key in keys *)
Lemma case_U196_next : forall s t k r, Inv s -> t < s_n s -> t_pc (s_thr s t) = U196 ->
  t_keys (s_thr s t) = k :: r ->
  Inv (put_thr s t (set_pc (set_key (set_keys (s_thr s t) r) k) U197)).
Proof.
  intros s t k r Hinv Ht Hpc Hk. destruct (cull_parts s t Hinv Ht) as (_ & _ & C & _ & E). rewrite Hpc in C, E.
  destruct (C eq_refl) as (C1 & C2 & _). rewrite Hk in C1, C2. inversion C1; subst.
  eapply inv_thr_step with (s := s) (t := t) (new := None); try reflexivity; thr_obl s t Hinv Ht Hpc.
  - split; [| split; [| split; [| split]]]; simpl; try discriminate.
    + intros _. split; [assumption | split].
      * intros k' Hk'. apply C2. now right.
      * intros _. split; [apply C2; now left | assumption].
    + cull_self E.
  - intros i o e [A | A]; [left; now left |]. unfold inflight in A. simpl in A. discriminate.
Qed.


(* line 197: if self.expiredCache[key]() is None *)
Lemma case_U197_alive : forall s t, Inv s -> t < s_n s -> t_pc (s_thr s t) = U197 ->
  Inv (put_thr s t (set_pc (s_thr s t) U196)).
Proof.
  intros s t Hinv Ht Hpc. apply inv_goto; try assumption; goto_side s Hinv t Ht Hpc.
Qed.

Lemma case_U197_dead : forall s t o, Inv s -> t < s_n s -> t_pc (s_thr s t) = U197 ->
  dget (s_weak s) (t_key (s_thr s t)) = Some o -> aliveb s o = false ->
  Inv (put_thr s t (set_pc (s_thr s t) U198)).
Proof.
  intros s t o Hinv Ht Hpc W A.
  assert (Hx_t : forall x, x < s_n s -> holds (t_pc (s_thr s x)) = true -> x = t).
  { intros x Hx Hh. eapply two_holders; eauto. now rewrite Hpc. }
  eapply inv_thr_step with (s := s) (t := t) (new := None); try reflexivity; thr_obl s t Hinv Ht Hpc.
  - apply cull_ok_goto; [exact (inv_cull s Hinv t Ht) | rewrite ?Hpc; simpl; intuition congruence ..].
  - intros k D. unfold deadw in D. simpl in D. injection D as <-. split; [congruence |].
    intros o1. split; [| reflexivity]. intros H.
    pose proof (inv_reg s Hinv _ _ H) as [R | [R | (x & Hx & R)]].
    + assert (dget (s_weak s) (t_key (s_thr s t)) = None) by (eapply (disj_strict s t Hinv Ht); eauto; now rewrite Hpc). congruence.
    + assert (o1 = o) by congruence. subst. apply holder_alive in H. congruence.
    + destruct (mov_core s x _ _ Hinv Hx R) as (Hh & _). apply Hx_t in Hh; [| assumption]. subst x.
      unfold mov_of in R. rewrite Hpc in R. discriminate.
Qed.


Ltac locked_common s t Hinv Ht Hpc :=
  lazymatch goal with
  | |- Inv _ => exact Hinv
  | |- _ < s_n _ => exact Ht
  | |- holds _ = true => rewrite ?Hpc; reflexivity
  | |- ref_ok _ (t_val _) => unfold ref_ok; simpl; exact (proj1 (inv_w_thr s Hinv t Ht))
  | |- ref_ok _ (t_self _) => unfold ref_ok; simpl; exact (proj1 (proj2 (inv_w_thr s Hinv t Ht)))
  | |- forall o i e, In (RObj o i e) _ -> _ => simpl; exact (proj2 (proj2 (inv_w_thr s Hinv t Ht)))
  | |- forall o, o < _ -> (wl _ o <-> wl _ o) => intros ? _; unfold wl; simpl; rewrite ?Hpc; simpl; tauto
  | |- t_exc _ = None => simpl; apply exc_none; try assumption; rewrite Hpc; discriminate
  | |- forall o, In o (t_all _) \/ _ -> _ => simpl; intros ? HH; exact (inv_w_all s Hinv t _ Ht HH)
  | |- iter_ok _ _ _ _ _ => try (apply iter_ok_none; reflexivity)
  | |- t_pc _ <> F121 => simpl; discriminate
  | |- _ => try reflexivity
  end.

(* line 198: self.expiredCache.pop(key, None) -- a dead reference *)
Lemma case_U198 : forall s t, Inv s -> t < s_n s -> t_pc (s_thr s t) = U198 ->
  Inv (put_thr (with_weak s (ddel (s_weak s) (t_key (s_thr s t)))) t (set_pc (s_thr s t) U196)).
Proof.
  intros s t Hinv Ht Hpc.
  destruct (cull_parts s t Hinv Ht) as (_ & _ & C & _ & E). rewrite Hpc in C, E.
  destruct (C eq_refl) as (C1 & C2 & C3). destruct (C3 eq_refl) as (C4 & C5).
  assert (D : deadw (s_thr s t) = Some (t_key (s_thr s t))) by (unfold deadw; now rewrite Hpc).
  destruct (inv_deadw s Hinv t _ Ht D) as (_ & Q).
  assert (Nw : NoDup (dkeys (s_weak s))) by apply (inv_nodup_weak s Hinv).
  eapply inv_locked_dict with (s := s) (t := t); try reflexivity; locked_common s t Hinv Ht Hpc.
  - simpl. apply (inv_w_strong s Hinv).
  - simpl. intros k o H. eapply inv_w_weak; eauto. eapply dget_ddel_some; eauto.
  - simpl. apply (inv_key_strong s Hinv).
  - simpl. intros k o H. eapply inv_key_weak; eauto. eapply dget_ddel_some; eauto.
  - simpl. apply (inv_nodup_strong s Hinv).
  - simpl. now apply nodup_ddel.
  - simpl. intros k o1 H. left. apply dget_ddel_none. eapply (disj_strict s t Hinv Ht); eauto; now rewrite Hpc.
  - intros i o Hh [A | [A | (x & Hx & A)]].
    + left. exact A.
    + destruct (Z.eq_dec i (t_key (s_thr s t))) as [-> | Hne]; [exfalso; exact (Q o Hh) |].
      right. left. simpl. now rewrite dget_ddel_other.
    + destruct (Nat.eq_dec x t) as [-> | Hne]; [unfold mov_of in A; rewrite Hpc in A; discriminate |].
      right. right. exists x. split; [assumption |]. simpl. now rewrite upd_other.
  - unfold ref_ok. simpl. exact (inv_w_cobj s Hinv t Ht).
  - simpl. split; [| split; [| split; [| split]]]; simpl; try discriminate.
    + intros _. split; [assumption | split; [| discriminate]].
      intros k Hk. rewrite dget_ddel_other; [now apply C2 |]. intros ->. contradiction.
    + cull_self E.
Qed.

(* line 200: keys = list(self.cache.keys()); the range of line 201 selects every cullFraction-th *)
Lemma case_U200 : forall s t, Inv s -> t < s_n s -> t_pc (s_thr s t) = U200 ->
  Inv (put_thr s t (set_pc (set_keys (s_thr s t) (select_from (dkeys (s_strong s)) (s_co s) (s_frac s))) U201)).
Proof.
  intros s t Hinv Ht Hpc. destruct (cull_parts s t Hinv Ht) as (_ & _ & _ & _ & E). rewrite Hpc in E.
  eapply inv_thr_step with (s := s) (t := t) (new := None); try reflexivity; thr_obl s t Hinv Ht Hpc.
  - split; [| split; [| split; [| split]]]; simpl; try discriminate.
    + intros _. split; [apply select_from_nodup; apply (inv_nodup_strong s Hinv) | split; [| split; discriminate]].
      intros k Hk. apply dkeys_present. eapply select_from_incl; eauto.
    + cull_self E.
  - intros i o e [A | A]; [left; now left |]. unfold inflight in A. simpl in A. discriminate.
Qed.

(* line 201: for i in range(...) / line 202: id = keys[i] *)
Lemma case_U201_next : forall s t k r, Inv s -> t < s_n s -> t_pc (s_thr s t) = U201 ->
  t_keys (s_thr s t) = k :: r ->
  Inv (put_thr s t (set_pc (set_key (set_keys (s_thr s t) r) k) U202)).
Proof.
  intros s t k r Hinv Ht Hpc Hk. destruct (cull_parts s t Hinv Ht) as (_ & _ & _ & D & E). rewrite Hpc in D, E.
  destruct (D eq_refl) as (D1 & D2 & _). rewrite Hk in D1, D2. inversion D1; subst.
  eapply inv_thr_step with (s := s) (t := t) (new := None); try reflexivity; thr_obl s t Hinv Ht Hpc.
  - split; [| split; [| split; [| split]]]; simpl; try discriminate.
    + intros _. split; [assumption | split; [| split]].
      * intros k' Hk'. apply D2. now right.
      * intros _. apply D2. now left.
      * intros _. assumption.
    + cull_self E.
  - intros i o e [A | A]; [left; now left |]. unfold inflight in A. simpl in A. discriminate.
Qed.

(* line 204: obj = ref(self.cache[id]) *)
Lemma case_U204 : forall s t o, Inv s -> t < s_n s -> t_pc (s_thr s t) = U204 ->
  dget (s_strong s) (t_key (s_thr s t)) = Some o ->
  Inv (put_thr s t (set_pc (set_cobj (s_thr s t) (Some o)) U205)).
Proof.
  intros s t o Hinv Ht Hpc S. destruct (cull_parts s t Hinv Ht) as (_ & _ & _ & D & E). rewrite Hpc in D, E.
  destruct (D eq_refl) as (D1 & D2 & D3 & D4).
  eapply inv_thr_step with (s := s) (t := t) (new := None); try reflexivity; thr_obl s t Hinv Ht Hpc.
  - unfold ref_ok. simpl. intros x X. injection X as <-. eapply inv_w_strong; eauto.
  - split; [| split; [| split; [| split]]]; simpl; try discriminate.
    + intros _. exists o. repeat split; [eapply inv_key_strong; eauto | auto].
    + intros _. split; [assumption | split; [assumption | split; [intros _; congruence | intros _; now apply D4]]].
    + cull_self E.
  - intros i o1 e [A | A]; [left; now left |]. unfold inflight in A. simpl in A. discriminate.
Qed.


(* line 205: del self.cache[id] -- from here to line 210 the object is in neither dict *)
Lemma case_U205 : forall s t, Inv s -> t < s_n s -> t_pc (s_thr s t) = U205 ->
  Inv (put_thr (with_strong s (ddel (s_strong s) (t_key (s_thr s t)))) t (set_pc (s_thr s t) U209)).
Proof.
  intros s t Hinv Ht Hpc.
  destruct (cull_parts s t Hinv Ht) as (_ & B & _ & D & E). rewrite Hpc in B, D, E.
  destruct (B eq_refl) as (o & B1 & B2 & B3). specialize (B3 eq_refl).
  destruct (D eq_refl) as (D1 & D2 & _ & D4). specialize (D4 eq_refl).
  assert (Ns : NoDup (dkeys (s_strong s))) by apply (inv_nodup_strong s Hinv).
  assert (Wn : dget (s_weak s) (t_key (s_thr s t)) = None) by (eapply (disj_strict s t Hinv Ht); eauto; now rewrite Hpc).
  eapply inv_locked_dict with (s := s) (t := t); try reflexivity; locked_common s t Hinv Ht Hpc.
  - simpl. intros k o1 H. eapply inv_w_strong; eauto. eapply dget_ddel_some; eauto.
  - simpl. apply (inv_w_weak s Hinv).
  - simpl. intros k o1 H. eapply inv_key_strong; eauto. eapply dget_ddel_some; eauto.
  - simpl. apply (inv_key_weak s Hinv).
  - simpl. now apply nodup_ddel.
  - simpl. apply (inv_nodup_weak s Hinv).
  - simpl. intros k o1 H. left. eapply (disj_strict s t Hinv Ht); [now rewrite Hpc | now rewrite Hpc | eapply dget_ddel_some; eauto].
  - intros i o1 Hh [A | [A | (x & Hx & A)]].
    + destruct (Z.eq_dec i (t_key (s_thr s t))) as [-> | Hne].
      * assert (o1 = o) by congruence. subst o1. right. right. exists t. split; [assumption |].
        simpl. rewrite upd_same. unfold mov_of. simpl. now rewrite B1.
      * left. simpl. now rewrite dget_ddel_other.
    + right. left. exact A.
    + destruct (Nat.eq_dec x t) as [-> | Hne]; [unfold mov_of in A; rewrite Hpc in A; discriminate |].
      right. right. exists x. split; [assumption |]. simpl. now rewrite upd_other.
  - unfold ref_ok. simpl. exact (inv_w_cobj s Hinv t Ht).
  - simpl. split; [| split; [| split; [| split]]]; simpl; try discriminate.
    + intros _. split; [now apply dget_ddel_same | assumption].
    + intros _. exists o. repeat split; try assumption. discriminate.
    + intros _. split; [assumption | split; [| split; [discriminate | intros _; assumption]]].
      intros k Hk. rewrite dget_ddel_other; [now apply D2 |]. intros ->. contradiction.
    + cull_self E.
Qed.

(* line 209: if obj() is not None *)
Lemma case_U209_alive : forall s t, Inv s -> t < s_n s -> t_pc (s_thr s t) = U209 ->
  Inv (put_thr s t (set_pc (s_thr s t) U210)).
Proof.
  intros s t Hinv Ht Hpc. apply inv_goto; try assumption; goto_side s Hinv t Ht Hpc.
Qed.

Lemma case_U209_dead : forall s t o, Inv s -> t < s_n s -> t_pc (s_thr s t) = U209 ->
  t_cobj (s_thr s t) = Some o -> aliveb s o = false ->
  Inv (put_thr s t (set_pc (s_thr s t) U201)).
Proof.
  intros s t o Hinv Ht Hpc Co A.
  eapply inv_thr_step with (s := s) (t := t) (new := None); try reflexivity; thr_obl s t Hinv Ht Hpc.
  - apply cull_ok_goto; [exact (inv_cull s Hinv t Ht) | rewrite ?Hpc; simpl; intuition congruence ..].
  - right. split; [unfold mov_of; reflexivity | split; [reflexivity |]].
    intros i o1 M H. unfold mov_of in M. rewrite Hpc, Co in M. injection M as <- <-.
    apply holder_alive in H. congruence.
Qed.

(* line 210: self.expiredCache[id] = obj *)
Lemma case_U210 : forall s t o, Inv s -> t < s_n s -> t_pc (s_thr s t) = U210 ->
  t_cobj (s_thr s t) = Some o ->
  Inv (put_thr (with_weak s (dset (s_weak s) (t_key (s_thr s t)) o)) t (set_pc (s_thr s t) U201)).
Proof.
  intros s t o Hinv Ht Hpc Co.
  destruct (cull_parts s t Hinv Ht) as (A & B & _ & D & E). rewrite Hpc in A, B, D, E.
  destruct (A eq_refl) as (A1 & A2).
  destruct (B eq_refl) as (o' & B1 & B2 & _). assert (o' = o) by congruence. subst o'.
  destruct (D eq_refl) as (D1 & D2 & _ & _).
  assert (Ho : o < s_nextobj s) by (apply (inv_w_cobj s Hinv t Ht); assumption).
  eapply inv_locked_dict with (s := s) (t := t); try reflexivity; locked_common s t Hinv Ht Hpc.
  - simpl. apply (inv_w_strong s Hinv).
  - simpl. intros k o1 H. destruct (Z.eq_dec k (t_key (s_thr s t))) as [-> | Hne].
    + rewrite dget_dset_same in H. injection H as <-. assumption.
    + rewrite dget_dset_other in H by assumption. eapply inv_w_weak; eauto.
  - simpl. apply (inv_key_strong s Hinv).
  - simpl. intros k o1 H. destruct (Z.eq_dec k (t_key (s_thr s t))) as [-> | Hne].
    + rewrite dget_dset_same in H. injection H as <-. assumption.
    + rewrite dget_dset_other in H by assumption. eapply inv_key_weak; eauto.
  - simpl. apply (inv_nodup_strong s Hinv).
  - simpl. apply nodup_dset. apply (inv_nodup_weak s Hinv).
  - simpl. intros k o1 H. left. destruct (Z.eq_dec k (t_key (s_thr s t))) as [-> | Hne]; [congruence |].
    rewrite dget_dset_other by assumption. eapply (disj_strict s t Hinv Ht); eauto; now rewrite Hpc.
  - intros i o1 Hh [X | [X | (x & Hx & X)]].
    + left. exact X.
    + right. left. simpl. rewrite dget_dset_other; [assumption | congruence].
    + destruct (Nat.eq_dec x t) as [-> | Hne].
      * unfold mov_of in X. rewrite Hpc, Co in X. injection X as <- <-.
        right. left. simpl. apply dget_dset_same.
      * right. right. exists x. split; [assumption |]. simpl. now rewrite upd_other.
  - unfold ref_ok. simpl. exact (inv_w_cobj s Hinv t Ht).
  - simpl. split; [| split; [| split; [| split]]]; simpl; try discriminate.
    + intros _. split; [assumption | split; [assumption | split; discriminate]].
    + cull_self E.
Qed.

(* line 216: release; cull returns into get (line 104) or created (line 181) *)
Lemma case_U216 : forall s t, Inv s -> t < s_n s -> t_pc (s_thr s t) = U216 ->
  Inv (put_thr (with_lock s None) t
         (set_pc (set_cobj (s_thr s t) None) (match t_cret (s_thr s t) with RetGet => F104 | RetCreated => K181a end))).
Proof.
  intros s t Hinv Ht Hpc. destruct (cull_parts s t Hinv Ht) as (_ & _ & _ & _ & E). rewrite Hpc in E.
  destruct (t_cret (s_thr s t)) eqn:R;
    (eapply inv_thr_step with (s := s) (t := t) (new := None); try reflexivity; thr_obl s t Hinv Ht Hpc).
  - apply lc_release; [now rewrite Hpc | reflexivity | reflexivity].
  - intros i o e [A | A]; [left; now left |]. unfold inflight in A. simpl in A. discriminate.
  - apply lc_release; [now rewrite Hpc | reflexivity | reflexivity].
  - simpl. intros o _ So. destruct (E eq_refl eq_refl) as (o' & E1 & E2). congruence.
  - simpl. intros _. destruct (E eq_refl eq_refl) as (o' & E1 & E2). congruence.
  - intros i o e [A | A]; [left; now left |]. unfold inflight in A. simpl in A. discriminate.
Qed.

(* ---- an operation begins *)
Lemma case_start_get : forall s t i, Inv s -> t < s_n s -> t_pc (s_thr s t) = Idle ->
  Inv (put_thr s t (set_pc (set_id (s_thr s t) i) SG301)).
Proof.
  intros s t i Hinv Ht Hpc.
  eapply inv_thr_step with (s := s) (t := t) (new := None); try reflexivity; thr_obl s t Hinv Ht Hpc.
  intros i0 o e [A | A]; [left; now left |]. unfold inflight in A. simpl in A. discriminate.
Qed.

Lemma case_start_expire : forall s t o, Inv s -> t < s_n s -> t_pc (s_thr s t) = Idle -> o < s_nextobj s ->
  Inv (put_thr s t (set_pc (set_self (s_thr s t) (Some o)) X1072)).
Proof.
  intros s t o Hinv Ht Hpc Ho.
  eapply inv_thr_step with (s := s) (t := t) (new := None); try reflexivity; thr_obl s t Hinv Ht Hpc.
  - apply wc_same; [reflexivity |].
    intros o1 _. unfold wl. simpl. rewrite Hpc. simpl. split; intros (A & _); discriminate.
  - intros x E. injection E as <-. assumption.
  - intros i0 o1 e [A | A]; [left; now left |]. unfold inflight in A. simpl in A. discriminate.
Qed.

Lemma in_drop_slot : forall l k r, In r (drop_slot l k) -> In r l \/ r = RDropped.
Proof.
  intros l k r H. unfold drop_slot in H. apply in_app_or in H. destruct H as [H | H].
  - left. eapply firstn_In_local; eauto.
  - simpl in H. destruct H as [H | H]; [right; congruence |]. left. eapply skipn_In_local with (k := S k); eauto.
Qed.

Lemma case_drop_own : forall s t k, Inv s -> t < s_n s -> t_pc (s_thr s t) = Idle ->
  Inv (put_thr s t (finish (set_slots (s_thr s t) (drop_slot (t_slots (s_thr s t)) k)) RNone)).
Proof.
  intros s t k Hinv Ht Hpc.
  destruct (inv_w_thr s Hinv t Ht) as (Rv & Rs & Rl).
  eapply inv_thr_step with (s := s) (t := t) (new := None); try reflexivity; thr_obl s t Hinv Ht Hpc.
  - apply wc_same; [reflexivity |].
    intros o1 _. unfold wl. simpl. rewrite Hpc. simpl. split; intros (A & _); discriminate.
  - intros o i e H. apply in_app_or in H. destruct H as [H | [H | []]]; [| discriminate].
    apply in_drop_slot in H. destruct H as [H | H]; [eapply Rl; eauto | discriminate].
  - intros x H. apply in_app_or in H. destruct H as [H | [H | []]]; [| discriminate].
    apply in_drop_slot in H. destruct H as [H | H]; [exact (inv_noexc s Hinv t x Ht H) | discriminate].
  - intros i o e H. apply hold_th_finish in H. destruct H as [H | H]; [| discriminate].
    simpl in H. apply in_drop_slot in H. destruct H as [H | H]; [left; now left | discriminate].
Qed.

(* ------------------------------------------------------------------ CacheFactory.expireAll *)
Lemma iter_parts : forall s t, Inv s -> t < s_n s ->
  iter_ok (s_strong s) (s_weak s) (s_sver s) (s_wver s) (s_thr s t).
Proof. intros. now apply inv_iter. Qed.

Lemma hold_th_nontagged : forall th th' i o e,
  hold_th th' i o e -> t_slots th' = t_slots th -> tagged (t_pc th') = false ->
  hold_th th i o e \/ @None (Z * nat * nat) = Some (i, o, e).
Proof.
  intros th th' i o e [A | A] Hs Ht; [left; left; now rewrite <- Hs |].
  unfold inflight in A. rewrite Ht in A. discriminate.
Qed.

(* line 251 -> 252: the iterator is created by the first next() *)
Lemma case_A251 : forall s t, Inv s -> t < s_n s -> t_pc (s_thr s t) = A251 ->
  Inv (put_thr s t (set_pc (set_iter (s_thr s t) None) A252)).
Proof.
  intros s t Hinv Ht Hpc.
  eapply inv_thr_step with (s := s) (t := t) (new := None); try reflexivity; thr_obl s t Hinv Ht Hpc.
  - unfold iter_ok. simpl. repeat split; try discriminate; try (intros [X | [X | [X | X]]]; discriminate).
  - intros i o e H. exact (hold_th_nontagged (s_thr s t) _ i o e H eq_refl eq_refl).
Qed.

(* line 252: for key, value in self.cache.items() -- an item *)
Lemma case_A252_item : forall s t pos k o, Inv s -> t < s_n s -> t_pc (s_thr s t) = A252 ->
  iter_next (t_iter (s_thr s t)) (length (s_strong s)) (s_sver s) = Some (inl pos) ->
  nth_error (s_strong s) pos = Some (k, o) ->
  Inv (put_thr s t (set_pc (set_iter (set_key (set_val (s_thr s t) (Some o) (t_ep (s_thr s t))) k)
                                     (iter_adv (t_iter (s_thr s t)) (length (s_strong s)) (s_sver s))) A253)).
Proof.
  intros s t pos k o Hinv Ht Hpc Hn Hnth.
  destruct (iter_parts s t Hinv Ht) as (I1 & _). specialize (I1 Hpc).
  assert (Ho : o < s_nextobj s).
  { eapply inv_w_strong; eauto. eapply nth_dget; eauto. apply (inv_nodup_strong s Hinv). }
  eapply inv_thr_step with (s := s) (t := t) (new := None); try reflexivity; thr_obl s t Hinv Ht Hpc.
  - unfold ref_ok. simpl. intros x E. injection E as <-. assumption.
  - unfold iter_ok. simpl. repeat split; try discriminate; try (intros [X | [X | [X | X]]]; discriminate).
    intros _. unfold iter_next, iter_adv in *. destruct (t_iter (s_thr s t)) as [[[p sz] v] |].
    + destruct I1 as (-> & -> & C). rewrite Nat.eqb_refl in Hn. simpl in Hn. rewrite Nat.eqb_refl in Hn. simpl in Hn.
      destruct (Nat.ltb p (length (s_strong s))); inversion Hn; subst.
      exists pos, (length (s_strong s)), (s_sver s), o. repeat split; auto.
    + destruct (Nat.ltb 0 (length (s_strong s))); inversion Hn; subst.
      exists 0, (length (s_strong s)), (s_sver s), o. repeat split; auto. intros j k' o' Hj. lia.
  - intros i o1 e H. exact (hold_th_nontagged (s_thr s t) _ i o1 e H eq_refl eq_refl).
Qed.

(* ... exhausted *)
Lemma case_A252_end : forall s t, Inv s -> t < s_n s -> t_pc (s_thr s t) = A252 ->
  iter_next (t_iter (s_thr s t)) (length (s_strong s)) (s_sver s) = Some (inr false) ->
  Inv (put_thr s t (set_pc (set_iter (s_thr s t) None) A254)).
Proof.
  intros s t Hinv Ht Hpc Hn.
  destruct (iter_parts s t Hinv Ht) as (I1 & _). specialize (I1 Hpc).
  eapply inv_thr_step with (s := s) (t := t) (new := None); try reflexivity; thr_obl s t Hinv Ht Hpc.
  - unfold iter_ok. simpl. repeat split; try discriminate; try (intros [X | [X | [X | X]]]; discriminate).
    intros _. unfold iter_next in Hn. destruct (t_iter (s_thr s t)) as [[[p sz] v] |].
    + destruct I1 as (-> & -> & C). rewrite Nat.eqb_refl in Hn. simpl in Hn. rewrite Nat.eqb_refl in Hn. simpl in Hn.
      destruct (Nat.ltb p (length (s_strong s))) eqn:L; [discriminate |]. apply Nat.ltb_ge in L.
      intros j k o Hj Hnth. apply (C j k o); [lia | assumption].
    + destruct (Nat.ltb 0 (length (s_strong s))) eqn:L; [discriminate |]. apply Nat.ltb_ge in L.
      intros j k o Hj. lia.
  - intros i o1 e H. exact (hold_th_nontagged (s_thr s t) _ i o1 e H eq_refl eq_refl).
Qed.

(* the iterator never fails: nobody else writes the strong dict while the lock is held *)
Lemma A252_no_error : forall s t, Inv s -> t < s_n s -> t_pc (s_thr s t) = A252 ->
  exists r, iter_next (t_iter (s_thr s t)) (length (s_strong s)) (s_sver s) = Some r /\ r <> inr true.
Proof.
  intros s t Hinv Ht Hpc. destruct (iter_parts s t Hinv Ht) as (I1 & _). specialize (I1 Hpc).
  unfold iter_next. destruct (t_iter (s_thr s t)) as [[[p sz] v] |].
  - destruct I1 as (-> & -> & _). rewrite !Nat.eqb_refl. simpl.
    destruct (Nat.ltb p (length (s_strong s))); eexists; split; try reflexivity; discriminate.
  - destruct (Nat.ltb 0 (length (s_strong s))); eexists; split; try reflexivity; discriminate.
Qed.

Lemma iter_next_lt : forall it len ver pos, iter_next it len ver = Some (inl pos) -> pos < len.
Proof.
  intros it len ver pos H. unfold iter_next in H. destruct it as [[[p sz] v] |].
  - destruct (negb (Nat.eqb len sz)); [discriminate |]. destruct (negb (Nat.eqb ver v)); [discriminate |].
    destruct (Nat.ltb p len) eqn:L; inversion H; subst. now apply Nat.ltb_lt.
  - destruct (Nat.ltb 0 len) eqn:L; inversion H; subst. now apply Nat.ltb_lt.
Qed.


(* line 253: self.expiredCache[key] = ref(value) *)
Lemma case_A253 : forall s t o, Inv s -> t < s_n s -> t_pc (s_thr s t) = A253 ->
  t_val (s_thr s t) = Some o ->
  Inv (put_thr (with_weak s (dset (s_weak s) (t_key (s_thr s t)) o)) t (set_pc (s_thr s t) A252)).
Proof.
  intros s t o Hinv Ht Hpc V.
  destruct (iter_parts s t Hinv Ht) as (_ & I2 & _). destruct (I2 Hpc) as (pos & sz & v & o' & It & Esz & Ev & C & Hnth & V').
  assert (o' = o) by congruence. subst o'.
  assert (Ns : NoDup (dkeys (s_strong s))) by apply (inv_nodup_strong s Hinv).
  assert (Sk : dget (s_strong s) (t_key (s_thr s t)) = Some o) by (eapply nth_dget; eauto).
  assert (Ho : o < s_nextobj s) by (eapply inv_w_strong; eauto).
  eapply inv_locked_dict with (s := s) (t := t); try reflexivity; locked_common s t Hinv Ht Hpc.
  - simpl. apply (inv_w_strong s Hinv).
  - simpl. intros k o1 H. destruct (Z.eq_dec k (t_key (s_thr s t))) as [-> | Hne].
    + rewrite dget_dset_same in H. injection H as <-. assumption.
    + rewrite dget_dset_other in H by assumption. eapply inv_w_weak; eauto.
  - simpl. apply (inv_key_strong s Hinv).
  - simpl. intros k o1 H. destruct (Z.eq_dec k (t_key (s_thr s t))) as [-> | Hne].
    + rewrite dget_dset_same in H. injection H as <-. eapply inv_key_strong; eauto.
    + rewrite dget_dset_other in H by assumption. eapply inv_key_weak; eauto.
  - simpl. apply (inv_nodup_strong s Hinv).
  - simpl. apply nodup_dset. apply (inv_nodup_weak s Hinv).
  - simpl. intros k o1 H. destruct (Z.eq_dec k (t_key (s_thr s t))) as [-> | Hne].
    + right. split; [| reflexivity]. rewrite dget_dset_same. congruence.
    + rewrite dget_dset_other by assumption.
      destruct (inv_disj s Hinv k o1 H) as [A | (A & _)]; [now left | right; split; [assumption | reflexivity]].
  - intros i o1 Hh [X | [X | (x & Hx & X)]].
    + left. exact X.
    + right. left. simpl. destruct (Z.eq_dec i (t_key (s_thr s t))) as [-> | Hne].
      * rewrite dget_dset_same. destruct (inv_disj s Hinv _ _ Sk) as [A | (A & _)]; congruence.
      * now rewrite dget_dset_other.
    + destruct (Nat.eq_dec x t) as [-> | Hne]; [unfold mov_of in X; rewrite Hpc in X; discriminate |].
      right. right. exists x. split; [assumption |]. simpl. now rewrite upd_other.
  - unfold ref_ok. simpl. exact (inv_w_cobj s Hinv t Ht).
  - simpl. apply cull_ok_none. reflexivity.
  - unfold iter_ok. simpl. repeat split; try discriminate; try (intros [X | [X | [X | X]]]; discriminate).
    intros _. rewrite It. repeat split; try assumption.
    intros j k o1 Hj Hn'. destruct (Nat.eq_dec j pos) as [-> | Hne].
    + assert (k = t_key (s_thr s t) /\ o1 = o) by (split; congruence). destruct H as (-> & ->). apply dget_dset_same.
    + rewrite dget_dset_other.
      * apply (C j k o1); [lia | assumption].
      * intros ->. apply Hne. eapply nth_key_inj; eauto.
Qed.

(* line 254: self.cache = {} *)
Lemma case_A254 : forall s t, Inv s -> t < s_n s -> t_pc (s_thr s t) = A254 ->
  Inv (put_thr (with_strong s []) t (set_pc (s_thr s t) A256)).
Proof.
  intros s t Hinv Ht Hpc.
  destruct (iter_parts s t Hinv Ht) as (_ & _ & I3 & _). specialize (I3 Hpc).
  eapply inv_locked_dict with (s := s) (t := t); try reflexivity; locked_common s t Hinv Ht Hpc.
  - simpl. discriminate.
  - simpl. apply (inv_w_weak s Hinv).
  - simpl. discriminate.
  - simpl. apply (inv_key_weak s Hinv).
  - simpl. constructor.
  - simpl. apply (inv_nodup_weak s Hinv).
  - simpl. discriminate.
  - intros i o1 Hh [X | [X | (x & Hx & X)]].
    + right. left. simpl. destruct (dget_nth _ _ _ X) as (j & Hj & Hn). now apply (I3 j i o1).
    + right. left. exact X.
    + destruct (Nat.eq_dec x t) as [-> | Hne]; [unfold mov_of in X; rewrite Hpc in X; discriminate |].
      right. right. exists x. split; [assumption |]. simpl. now rewrite upd_other.
  - unfold ref_ok. simpl. exact (inv_w_cobj s Hinv t Ht).
  - simpl. apply cull_ok_none. reflexivity.
Qed.

(* line 256: release; expireAll returns *)
Lemma case_A256_op : forall s t, Inv s -> t < s_n s -> t_pc (s_thr s t) = A256 ->
  Inv (put_thr (with_lock s None) t (finish (s_thr s t) RNone)).
Proof.
  intros s t Hinv Ht Hpc.
  eapply inv_finish with (s := s) (t := t); try reflexivity; try assumption;
    try (match goal with |- xwinpc _ = false => rewrite Hpc; reflexivity end).
  - intros o1 _. reflexivity.
  - apply lc_release; [now rewrite Hpc | reflexivity | reflexivity].
  - apply wc_same; [reflexivity |]. intros o1 _. unfold wl. simpl. rewrite Hpc. simpl.
    split; intros (A & _); discriminate.
  - unfold mov_of. now rewrite Hpc.
Qed.

Lemma case_A256_mex : forall s t, Inv s -> t < s_n s -> t_pc (s_thr s t) = A256 ->
  Inv (put_thr (with_lock s None) t (set_pc (set_val (s_thr s t) None 0) Z682)).
Proof.
  intros s t Hinv Ht Hpc.
  eapply inv_thr_step with (s := s) (t := t) (new := None); try reflexivity; thr_obl s t Hinv Ht Hpc.
  - apply lc_release; [now rewrite Hpc | reflexivity | reflexivity].
  - intros i o e H. exact (hold_th_nontagged (s_thr s t) _ i o e H eq_refl eq_refl).
Qed.

(* a thread-only step that keeps the locals the invariant looks at *)
Lemma case_local : forall s t th', Inv s -> t < s_n s ->
  t_slots th' = t_slots (s_thr s t) -> t_val th' = t_val (s_thr s t) -> t_self th' = t_self (s_thr s t) ->
  t_cobj th' = t_cobj (s_thr s t) -> t_all th' = t_all (s_thr s t) -> t_items th' = t_items (s_thr s t) ->
  t_exc th' = t_exc (s_thr s t) ->
  holds (t_pc th') = false -> holds (t_pc (s_thr s t)) = false ->
  wholds (t_pc th') = false -> wholds (t_pc (s_thr s t)) = false ->
  tagged (t_pc th') = false -> valdef (t_pc th') = false -> selfdef (t_pc th') = false -> creating (t_pc th') = false ->
  t_exc (s_thr s t) = None -> cullpc (t_pc th') = false ->
  Inv (put_thr s t th').
Proof.
  intros s t th' Hinv Ht Hs Hv Hse Hc Ha Hi He H1 H2 H3 H4 H5 H6 H7 H8 H9 H10.
  destruct (inv_w_thr s Hinv t Ht) as (Rv & Rs & Rl).
  assert (Nsab : sabs (t_pc th') = false) by (destruct (t_pc th'); simpl in *; try discriminate; reflexivity).
  assert (Nwab : wabs (t_pc th') = false) by (destruct (t_pc th'); simpl in *; try discriminate; reflexivity).
  eapply inv_thr_step with (s := s) (t := t) (new := None); try reflexivity; try assumption;
  lazymatch goal with
  | |- lock_change _ _ _ _ => apply lc_same; [reflexivity | congruence]
  | |- _ <= _ => apply le_n
  | |- keys_kept _ _ => intros o _; reflexivity
  | |- wlock_change _ _ _ _ =>
      apply wc_same; [reflexivity |]; intros o _; unfold wl; rewrite H3, H4; split; intros (A & _); discriminate
  | |- fresh_unlocked _ _ _ => intros o A B; simpl in B; lia
  | |- ref_ok _ (t_val _) => rewrite Hv; exact Rv
  | |- ref_ok _ (t_self _) => rewrite Hse; exact Rs
  | |- ref_ok _ (t_cobj _) => rewrite Hc; exact (inv_w_cobj s Hinv t Ht)
  | |- forall o i e, In (RObj o i e) _ -> _ => rewrite Hs; exact Rl
  | |- cull_ok _ _ _ _ => apply cull_ok_none; exact H10
  | |- iter_ok _ _ _ _ _ => apply iter_ok_none; destruct (t_pc th'); simpl in *; try discriminate; reflexivity
  | |- sabs _ = true -> _ => congruence
  | |- wabs _ = true -> _ => congruence
  | |- valdef _ = true -> _ => congruence
  | |- forall o, (valdef _ || tagged _) = true -> _ => rewrite H6, H5; discriminate
  | |- forall o, creating _ = true -> _ => congruence
  | |- selfdef _ = true -> _ => congruence
  | |- exc_ok _ => left; congruence
  | |- forall x, In (RExc x) _ -> _ => rewrite Hs; intros x X; exact (inv_noexc s Hinv t x Ht X)
  | |- forall o, In o (t_all _) \/ _ -> _ => rewrite Ha, Hi; intros o X; exact (inv_w_all s Hinv t o Ht X)
  | |- xwinpc _ = true -> _ => intros X; exfalso; destruct (t_pc (s_thr s t)); simpl in *; discriminate
  | |- mov_of _ = mov_of _ \/ _ =>
      left; unfold mov_of; destruct (t_pc th') eqn:E1; simpl in *; try discriminate;
      destruct (t_pc (s_thr s t)) eqn:E2; simpl in *; try discriminate; reflexivity
  | |- forall i o e, hold_th _ i o e -> _ => intros i o e X; exact (hold_th_nontagged (s_thr s t) th' i o e X Hs H5)
  | |- forall i0 o0 e0, None = Some _ -> _ => discriminate
  | |- forall o, t_pc _ = F121 -> _ => intros o X; exfalso; rewrite X in H1; discriminate
  | |- forall k, deadw _ = Some k -> _ => intros k X; exfalso; apply deadw_holds in X; congruence
  | |- _ => idtac
  end.
Qed.


(* ------------------------------------------------------------------ sqlmeta.expireAll, getAll *)
Lemma case_finish_none : forall s t, Inv s -> t < s_n s ->
  holds (t_pc (s_thr s t)) = false -> wholds (t_pc (s_thr s t)) = false -> mov_of (s_thr s t) = None ->
  Inv (put_thr s t (finish (s_thr s t) RNone)).
Proof.
  intros s t Hinv Ht H1 H2 H3.
  eapply inv_finish with (s := s) (t := t); try reflexivity; try assumption.
  - intros o1 _. reflexivity.
  - apply lc_same; [reflexivity | simpl; now rewrite H1].
  - apply wc_same; [reflexivity |]. intros o1 _. unfold wl. simpl. rewrite H2.
    split; intros (A & _); discriminate.
  - destruct (t_pc (s_thr s t)); simpl in *; try discriminate; reflexivity.
Qed.

(* the loop of sqlmeta.expireAll takes its next item *)
Lemma case_mex_item : forall s t th' x, Inv s -> t < s_n s ->
  t_pc th' = Z683 -> t_self th' = Some x -> x < s_nextobj s ->
  t_slots th' = t_slots (s_thr s t) -> ref_ok s (t_val th') -> ref_ok s (t_cobj th') ->
  (forall o, In o (t_all th') \/ In o (t_items th') -> o < s_nextobj s) ->
  t_exc th' = None ->
  holds (t_pc (s_thr s t)) = false -> wholds (t_pc (s_thr s t)) = false -> mov_of (s_thr s t) = None ->
  Inv (put_thr s t th').
Proof.
  intros s t th' x Hinv Ht Hp Hse Hx Hs Hv Hc Ha He H1 H2 H3.
  destruct (inv_w_thr s Hinv t Ht) as (Rv & Rs & Rl).
  eapply inv_thr_step with (s := s) (t := t) (new := None); try reflexivity; try assumption;
  lazymatch goal with
  | |- lock_change _ _ _ _ => apply lc_same; [reflexivity | rewrite Hp, H1; reflexivity]
  | |- _ <= _ => apply le_n
  | |- keys_kept _ _ => intros o _; reflexivity
  | |- wlock_change _ _ _ _ =>
      apply wc_same; [reflexivity |]; intros o _; unfold wl; rewrite Hp, H2; simpl; split; intros (A & _); discriminate
  | |- fresh_unlocked _ _ _ => intros o A B; simpl in B; lia
  | |- ref_ok _ (t_self _) => rewrite Hse; intros y E; injection E as <-; exact Hx
  | |- forall o i e, In (RObj o i e) _ -> _ => rewrite Hs; exact Rl
  | |- cull_ok _ _ _ _ => apply cull_ok_none; rewrite Hp; reflexivity
  | |- iter_ok _ _ _ _ _ => apply iter_ok_none; rewrite Hp; reflexivity
  | |- sabs _ = true -> _ => rewrite Hp; discriminate
  | |- wabs _ = true -> _ => rewrite Hp; discriminate
  | |- valdef _ = true -> _ => rewrite Hp; discriminate
  | |- forall o, (valdef _ || tagged _) = true -> _ => rewrite Hp; discriminate
  | |- forall o, creating _ = true -> _ => rewrite Hp; discriminate
  | |- selfdef _ = true -> _ => rewrite Hse; discriminate
  | |- exc_ok _ => left; exact He
  | |- forall x, In (RExc x) _ -> _ => rewrite Hs; intros y X; exact (inv_noexc s Hinv t y Ht X)
  | |- core_pc _ = true => reflexivity
  | |- xwinpc _ = true -> _ => intros X; exfalso; destruct (t_pc (s_thr s t)); simpl in *; discriminate
  | |- mov_of _ = mov_of _ \/ _ => left; rewrite H3; unfold mov_of; rewrite Hp; reflexivity
  | |- forall i o e, hold_th _ i o e -> _ =>
      intros i o e X; apply (hold_th_nontagged (s_thr s t) th' i o e X Hs); rewrite Hp; reflexivity
  | |- forall i0 o0 e0, None = Some _ -> _ => discriminate
  | |- forall o, t_pc _ = F121 -> _ => rewrite Hp; discriminate
  | |- forall k, deadw _ = Some k -> _ => unfold deadw; rewrite Hp; discriminate
  | |- _ => idtac
  end.
Qed.

(* getAll line 276: all = list(self.cache.values()) *)
Lemma case_L276 : forall s t, Inv s -> t < s_n s -> t_pc (s_thr s t) = L276 ->
  Inv (put_thr s t (set_pc (set_iter (set_all (s_thr s t) (dvals (s_strong s))) None) L279)).
Proof.
  intros s t Hinv Ht Hpc.
  eapply inv_thr_step with (s := s) (t := t) (new := None); try reflexivity; thr_obl s t Hinv Ht Hpc.
  - simpl. intros o [X | X]; [| exact (inv_w_all s Hinv t o Ht (or_intror X))].
    destruct (in_dvals _ _ X) as (j & k & Hn). eapply inv_w_strong; eauto.
    eapply nth_dget; eauto. apply (inv_nodup_strong s Hinv).
  - unfold iter_ok. simpl. repeat split; try discriminate.
  - intros i o e H. exact (hold_th_nontagged (s_thr s t) _ i o e H eq_refl eq_refl).
Qed.

Lemma L279_iter : forall s t, Inv s -> t < s_n s -> t_pc (s_thr s t) = L279 ->
  match t_iter (s_thr s t) with
  | None => True
  | Some (pos, size, ver) => size = length (s_weak s) /\ ver = s_wver s
  end.
Proof.
  intros s t Hinv Ht Hpc. destruct (iter_parts s t Hinv Ht) as (_ & _ & _ & I4 & _).
  specialize (I4 (or_introl Hpc)). destruct (t_iter (s_thr s t)) as [[[p sz] v] |]; auto.
Qed.

Lemma L279_no_error : forall s t, Inv s -> t < s_n s -> t_pc (s_thr s t) = L279 ->
  exists r, iter_next (t_iter (s_thr s t)) (length (s_weak s)) (s_wver s) = Some r /\ r <> inr true.
Proof.
  intros s t Hinv Ht Hpc. pose proof (L279_iter s t Hinv Ht Hpc) as I.
  unfold iter_next. destruct (t_iter (s_thr s t)) as [[[p sz] v] |].
  - destruct I as (-> & ->). rewrite !Nat.eqb_refl. simpl.
    destruct (Nat.ltb p (length (s_weak s))); eexists; split; try reflexivity; discriminate.
  - destruct (Nat.ltb 0 (length (s_weak s))); eexists; split; try reflexivity; discriminate.
Qed.

(* line 279: for value in self.expiredCache.values() -- an item *)
Lemma case_L279_item : forall s t pos k o, Inv s -> t < s_n s -> t_pc (s_thr s t) = L279 ->
  iter_next (t_iter (s_thr s t)) (length (s_weak s)) (s_wver s) = Some (inl pos) ->
  nth_error (s_weak s) pos = Some (k, o) ->
  Inv (put_thr s t (set_pc (set_iter (set_cobj (s_thr s t) (Some o))
                                     (iter_adv (t_iter (s_thr s t)) (length (s_weak s)) (s_wver s))) L280)).
Proof.
  intros s t pos k o Hinv Ht Hpc Hn Hnth. pose proof (L279_iter s t Hinv Ht Hpc) as I.
  assert (Ho : o < s_nextobj s).
  { eapply inv_w_weak; eauto. eapply nth_dget; eauto. apply (inv_nodup_weak s Hinv). }
  eapply inv_thr_step with (s := s) (t := t) (new := None); try reflexivity; thr_obl s t Hinv Ht Hpc.
  - unfold ref_ok. simpl. intros x E. injection E as <-. assumption.
  - unfold iter_ok. simpl. repeat split; try discriminate.
    intros _. unfold iter_adv. destruct (t_iter (s_thr s t)) as [[[p sz] v] |]; [exact I | auto].
  - intros i o1 e H. exact (hold_th_nontagged (s_thr s t) _ i o1 e H eq_refl eq_refl).
Qed.

Lemma case_L279_end : forall s t, Inv s -> t < s_n s -> t_pc (s_thr s t) = L279 ->
  Inv (put_thr s t (set_pc (set_iter (s_thr s t) None) L283)).
Proof.
  intros s t Hinv Ht Hpc.
  eapply inv_thr_step with (s := s) (t := t) (new := None); try reflexivity; thr_obl s t Hinv Ht Hpc.
  intros i o1 e H. exact (hold_th_nontagged (s_thr s t) _ i o1 e H eq_refl eq_refl).
Qed.

(* line 280: obj = value() *)
Lemma case_L280 : forall s t o, Inv s -> t < s_n s -> t_pc (s_thr s t) = L280 ->
  t_cobj (s_thr s t) = Some o ->
  Inv (put_thr s t (set_pc (set_val (s_thr s t) (deref s o) (t_ep (s_thr s t))) L280n)).
Proof.
  intros s t o Hinv Ht Hpc Co.
  destruct (iter_parts s t Hinv Ht) as (_ & _ & _ & I4 & _). specialize (I4 (or_intror (or_introl Hpc))).
  eapply inv_thr_step with (s := s) (t := t) (new := None); try reflexivity; thr_obl s t Hinv Ht Hpc.
  - unfold ref_ok. simpl. intros x E. unfold deref in E. destruct (aliveb s o); [| discriminate].
    injection E as <-. apply (inv_w_cobj s Hinv t Ht). assumption.
  - unfold iter_ok. simpl. repeat split; try discriminate. intros _.
    destruct (t_iter (s_thr s t)) as [[[p sz] v] |]; [exact I4 | congruence].
  - intros i o1 e H. exact (hold_th_nontagged (s_thr s t) _ i o1 e H eq_refl eq_refl).
Qed.

(* line 280n: if obj is not None *)
Lemma case_L280n : forall s t, Inv s -> t < s_n s -> t_pc (s_thr s t) = L280n ->
  Inv (put_thr s t (set_pc (s_thr s t) (match t_val (s_thr s t) with Some _ => L281 | None => L279 end))).
Proof.
  intros s t Hinv Ht Hpc.
  destruct (iter_parts s t Hinv Ht) as (_ & _ & _ & I4 & _). specialize (I4 (or_intror (or_intror (or_introl Hpc)))).
  assert (I5 : match t_iter (s_thr s t) with None => False | Some (pos, size, ver) => size = length (s_weak s) /\ ver = s_wver s end).
  { destruct (t_iter (s_thr s t)) as [[[p sz] v] |]; [exact I4 | congruence]. }
  destruct (t_val (s_thr s t)) eqn:V;
    (eapply inv_thr_step with (s := s) (t := t) (new := None); try reflexivity; thr_obl s t Hinv Ht Hpc);
    try (intros i o1 e H; exact (hold_th_nontagged (s_thr s t) _ i o1 e H eq_refl eq_refl));
    (unfold iter_ok; simpl; repeat split; try discriminate; try congruence; try (intros _);
     destruct (t_iter (s_thr s t)) as [[[p sz] v] |]; [exact I5 | contradiction]).
Qed.

(* line 281: all.append(obj) *)
Lemma case_L281 : forall s t o, Inv s -> t < s_n s -> t_pc (s_thr s t) = L281 ->
  t_val (s_thr s t) = Some o ->
  Inv (put_thr s t (set_pc (set_all (s_thr s t) (t_all (s_thr s t) ++ [o])) L279)).
Proof.
  intros s t o Hinv Ht Hpc V.
  destruct (iter_parts s t Hinv Ht) as (_ & _ & _ & I4 & _). specialize (I4 (or_intror (or_intror (or_intror Hpc)))).
  destruct (inv_w_thr s Hinv t Ht) as (Rv & _).
  eapply inv_thr_step with (s := s) (t := t) (new := None); try reflexivity; thr_obl s t Hinv Ht Hpc.
  - simpl. intros o1 [X | X]; [| exact (inv_w_all s Hinv t o1 Ht (or_intror X))].
    apply in_app_or in X. destruct X as [X | [<- | []]]; [exact (inv_w_all s Hinv t o1 Ht (or_introl X)) | now apply Rv].
  - unfold iter_ok. simpl. repeat split; try discriminate.
    intros _. destruct (t_iter (s_thr s t)) as [[[p sz] v] |]; [exact I4 | congruence].
  - intros i o1 e H. exact (hold_th_nontagged (s_thr s t) _ i o1 e H eq_refl eq_refl).
Qed.


(* expire() returns into the loop of sqlmeta.expireAll *)
Lemma case_X1083_mex : forall s t, Inv s -> t < s_n s -> t_pc (s_thr s t) = X1083 ->
  Inv (put_thr (with_heap s (set_obj_wlock (s_heap s) (self_of (s_thr s t)) None) (s_nextobj s)) t
         (set_pc (set_self (s_thr s t) None) Z682)).
Proof.
  intros s t Hinv Ht Hpc.
  destruct (self_some s t X1083 Hinv Ht Hpc eq_refl) as (o0 & So & Eo & Ho). rewrite Eo in *.
  eapply inv_thr_step with (s := s) (t := t) (new := None); try reflexivity; thr_obl s t Hinv Ht Hpc.
  - intros o _. simpl. unfold set_obj_wlock, upd. destruct (Nat.eqb o o0) eqn:E; [apply Nat.eqb_eq in E; subst |]; reflexivity.
  - apply wc_release with (o0 := o0).
    + unfold wl. rewrite Hpc. auto.
    + simpl. unfold set_obj_wlock. now rewrite upd_same.
    + intros o _ Hne. simpl. unfold set_obj_wlock. now rewrite upd_other.
    + reflexivity.
  - intros o Hge. simpl in *. unfold set_obj_wlock. rewrite upd_other by lia. reflexivity.
  - intros i o e H. exact (hold_th_nontagged (s_thr s t) _ i o e H eq_refl eq_refl).
Qed.


(* ------------------------------------------------------------------ cache=False *)
Lemma noc_strong_nil : forall s t, Aux s -> t < s_n s -> noc_only (t_pc (s_thr s t)) = true -> s_strong s = [].
Proof. intros s t A Ht H. apply (aux_strong s A). eapply (aux_noc s A); eauto. Qed.

(* ---- get, line 130: the unlocked look at the weak dict *)
Lemma case_F130_some : forall s t o, Inv s -> Aux s -> t < s_n s -> t_pc (s_thr s t) = F130 ->
  dget (s_weak s) (t_id (s_thr s t)) = Some o ->
  Inv (put_thr s t (set_pc (set_val (s_thr s t) (deref s o) (s_epoch s (t_id (s_thr s t)))) F131)).
Proof.
  intros s t o Hinv Haux Ht Hpc W.
  eapply inv_thr_step with (s := s) (t := t)
    (new := match deref s o with Some o' => Some (t_id (s_thr s t), o', s_epoch s (t_id (s_thr s t))) | None => None end);
    try reflexivity; thr_obl s t Hinv Ht Hpc.
  - simpl. intros x E. unfold deref in E. destruct (aliveb s o); [injection E as <- | discriminate]. eapply inv_w_weak; eauto.
  - simpl. intros o1 _ E. unfold deref in E. destruct (aliveb s o); [injection E as <- | discriminate]. eapply inv_key_weak; eauto.
  - intros i o1 e [A | A]; [left; now left |]. right. unfold inflight in A. simpl in A.
    destruct (t_exc (s_thr s t)); [discriminate |]. destruct (deref s o); [exact A | discriminate].
  - intros i0 o0 e0 E. unfold deref in *. destruct (aliveb s o); [| discriminate]. injection E as <- <- <-. split; [reflexivity |]. right. now left.
  - intros i0 o0 e0 _ x k Hx Hne D. exfalso.
    assert (D1 : s_docache s = false) by (apply (aux_noc s Haux t Ht); now rewrite Hpc).
    assert (D2 : s_docache s = true).
    { apply (aux_doc s Haux x Hx). unfold deadw in D. destruct (t_pc (s_thr s x)); try discriminate; reflexivity. }
    congruence.
Qed.

(* ---- get, line 137: the look at the weak dict under the lock *)
Lemma case_F137_some : forall s t o, Inv s -> t < s_n s -> t_pc (s_thr s t) = F137 ->
  dget (s_weak s) (t_id (s_thr s t)) = Some o ->
  Inv (put_thr s t (set_pc (set_val (s_thr s t) (deref s o) (s_epoch s (t_id (s_thr s t)))) F141)).
Proof.
  intros s t o Hinv Ht Hpc W.
  assert (Hx_t : forall x, x < s_n s -> holds (t_pc (s_thr s x)) = true -> x = t).
  { intros x Hx A. eapply two_holders; eauto. now rewrite Hpc. }
  eapply inv_thr_step with (s := s) (t := t)
    (new := match deref s o with Some o' => Some (t_id (s_thr s t), o', s_epoch s (t_id (s_thr s t))) | None => None end);
    try reflexivity; thr_obl s t Hinv Ht Hpc.
  - simpl. intros x E. unfold deref in E. destruct (aliveb s o); [injection E as <- | discriminate]. eapply inv_w_weak; eauto.
  - simpl. intros o1 _ E. unfold deref in E. destruct (aliveb s o); [injection E as <- | discriminate]. eapply inv_key_weak; eauto.
  - intros i o1 e [A | A]; [left; now left |]. right. unfold inflight in A. simpl in A.
    destruct (t_exc (s_thr s t)); [discriminate |]. destruct (deref s o); [exact A | discriminate].
  - intros i0 o0 e0 E. unfold deref in *. destruct (aliveb s o); [| discriminate]. injection E as <- <- <-. split; [reflexivity |]. right. now left.
  - intros i0 o0 e0 _ x k Hx Hne D. exfalso. apply Hne. apply Hx_t; [assumption | eapply deadw_holds; eauto].
Qed.

(* ---- get, line 131: if val is not None *)
Lemma case_F131 : forall s t, Inv s -> t < s_n s -> t_pc (s_thr s t) = F131 ->
  Inv (put_thr s t (set_pc (s_thr s t) (match t_val (s_thr s t) with Some _ => F132 | None => F135 end))).
Proof.
  intros s t Hinv Ht Hpc. destruct (t_val (s_thr s t)) eqn:V.
  - apply inv_goto; try assumption; goto_side s Hinv t Ht Hpc. right. congruence.
  - apply inv_goto; try assumption; goto_side s Hinv t Ht Hpc.
Qed.

(* ---- get, line 141: if val is None *)
Lemma case_F141 : forall s t, Inv s -> t < s_n s -> t_pc (s_thr s t) = F141 ->
  Inv (put_thr s t (set_pc (s_thr s t) (match t_val (s_thr s t) with None => F142 | Some _ => F144 end))).
Proof.
  intros s t Hinv Ht Hpc. destruct (t_val (s_thr s t)) eqn:V.
  - apply inv_goto; try assumption; goto_side s Hinv t Ht Hpc. right. congruence.
  - apply inv_goto; try assumption; goto_side s Hinv t Ht Hpc.
Qed.

(* ---- get, lines 132 / 145: return val *)
Lemma case_return_val_noc : forall s t, Inv s -> t < s_n s ->
  (t_pc (s_thr s t) = F132 \/ t_pc (s_thr s t) = F145) ->
  Inv (put_thr s t (finish (s_thr s t)
        (match t_val (s_thr s t) with Some o => RObj o (t_id (s_thr s t)) (t_ep (s_thr s t)) | None => RNone end))).
Proof.
  intros s t Hinv Ht Hpc.
  assert (V : t_val (s_thr s t) <> None) by (apply (inv_valdef s Hinv t Ht); destruct Hpc as [-> | ->]; reflexivity).
  destruct (t_val (s_thr s t)) as [o |] eqn:E; [| congruence].
  eapply inv_finish with (s := s) (t := t); try reflexivity; try assumption;
    try (match goal with |- xwinpc _ = false => first [rewrite Hpc; reflexivity | destruct Hpc as [-> | ->]; reflexivity] end).
  - intros o1 _. reflexivity.
  - apply lc_same; [reflexivity | simpl; destruct Hpc as [-> | ->]; reflexivity].
  - apply wc_same; [reflexivity |]. intros o1 _. unfold wl. simpl.
    split; intros (A & _); [discriminate | destruct Hpc as [P | P]; rewrite P in A; discriminate].
  - unfold mov_of. destruct Hpc as [-> | ->]; reflexivity.
  - split; [destruct (inv_w_thr s Hinv t Ht) as (Rv & _); now apply Rv |].
    left. unfold inflight. rewrite E.
    assert (X : t_exc (s_thr s t) = None).
    { destruct (inv_exc s Hinv t Ht) as [A | (_ & [C | [C | C]])]; [exact A | destruct Hpc; congruence ..]. }
    rewrite X. destruct Hpc as [-> | ->]; reflexivity.
Qed.

(* ---- get, lines 139 / 143: return None with the lock held; SQLObject.get goes on to load the row *)
Lemma case_noc_miss : forall s t, Inv s -> Aux s -> t < s_n s ->
  (t_pc (s_thr s t) = F139 \/ t_pc (s_thr s t) = F143) ->
  Inv (put_thr s t (set_pc (s_thr s t) M951)).
Proof.
  intros s t Hinv Haux Ht Hpc.
  assert (S : s_strong s = []) by (eapply noc_strong_nil; eauto; destruct Hpc as [-> | ->]; reflexivity).
  destruct Hpc as [Hpc | Hpc]; apply inv_goto; try assumption; goto_side s Hinv t Ht Hpc;
    try (intros _; right; rewrite S; reflexivity).
Qed.

(* ---- get, line 142: the dead entry goes (guard: seen_dead_still) *)
Lemma case_F142 : forall s t od, Inv s -> Aux s -> t < s_n s -> t_pc (s_thr s t) = F142 ->
  dget (s_weak s) (t_id (s_thr s t)) = Some od -> aliveb s od = false ->
  Inv (put_thr (with_weak s (ddel (s_weak s) (t_id (s_thr s t)))) t (set_pc (s_thr s t) F143)).
Proof.
  intros s t od Hinv Haux Ht Hpc W D.
  eapply inv_weak_del with (s := s) (t := t) (od := od); try reflexivity; try assumption.
  eapply noc_strong_nil; eauto. now rewrite Hpc.
Qed.

(* ---- put, line 155 *)
Lemma case_P155 : forall s t o, Inv s -> t < s_n s -> t_pc (s_thr s t) = P155 ->
  t_val (s_thr s t) = Some o ->
  Inv (put_thr (with_weak s (dset (s_weak s) (t_id (s_thr s t)) o)) t
         (set_pc (set_val (s_thr s t) (Some o) (s_epoch s (t_id (s_thr s t)))) M956)).
Proof.
  intros s t o Hinv Ht Hpc V.
  destruct (inv_w_thr s Hinv t Ht) as (Rv & Rs & Rl).
  eapply inv_weak_set with (s := s) (t := t) (i := t_id (s_thr s t)) (o := o)
    (new := Some (t_id (s_thr s t), o, s_epoch s (t_id (s_thr s t)))); try reflexivity;
    try assumption; thr_obl s t Hinv Ht Hpc.
  - apply (inv_sabs s Hinv t Ht). now rewrite Hpc.
  - apply (inv_wabs s Hinv t Ht). now rewrite Hpc.
  - now apply Rv.
  - apply (inv_valkey s Hinv t o Ht); [now rewrite Hpc | assumption].
  - unfold mov_of. now rewrite Hpc.
  - unfold ref_ok. simpl. intros x E. injection E as <-. now apply Rv.
  - simpl. intros o1 _ E. injection E as <-. apply (inv_valkey s Hinv t o Ht); [now rewrite Hpc | assumption].
  - intros i o1 e [A | A]; [left; now left |]. right. unfold inflight in A. simpl in A.
    destruct (t_exc (s_thr s t)); [discriminate | exact A].
  - intros i0 o0 e0 E. injection E as <- <- <-. auto.
Qed.

(* ---- created without caching: the write under the lock (guarded: the cache has no entry for the new id) *)
Lemma case_K183 : forall s t, Inv s -> t < s_n s -> t_pc (s_thr s t) = K183 ->
  created_race s t = false ->
  Inv (put_thr (with_weak s (dset (s_weak s) (t_id (s_thr s t)) (self_of (s_thr s t)))) t
         (set_pc (set_val (s_thr s t) (Some (self_of (s_thr s t))) (s_epoch s (t_id (s_thr s t)))) K183r)).
Proof.
  intros s t Hinv Ht Hpc G.
  destruct (inv_w_thr s Hinv t Ht) as (Rv & Rs & Rl).
  assert (Sd : t_self (s_thr s t) <> None) by (apply (inv_selfdef s Hinv t Ht); now rewrite Hpc).
  destruct (t_self (s_thr s t)) as [o |] eqn:So; [| congruence]. clear Sd.
  assert (Eso : self_of (s_thr s t) = o) by (unfold self_of; now rewrite So). rewrite Eso.
  unfold created_race in G.
  destruct (dget (s_strong s) (t_id (s_thr s t))) eqn:G1; [discriminate |].
  destruct (dget (s_weak s) (t_id (s_thr s t))) eqn:G2; [discriminate |].
  eapply inv_weak_set with (s := s) (t := t) (i := t_id (s_thr s t)) (o := o)
    (new := Some (t_id (s_thr s t), o, s_epoch s (t_id (s_thr s t)))); try reflexivity;
    try assumption; thr_obl s t Hinv Ht Hpc.
  - now apply Rs.
  - apply (inv_selfkey s Hinv t o Ht); [now rewrite Hpc | assumption].
  - unfold mov_of. now rewrite Hpc.
  - simpl. intros o1 _ E. injection E as <-. apply (inv_selfkey s Hinv t o Ht); [now rewrite Hpc | assumption].
  - intros i o1 e [A | A]; [left; now left |]. right. unfold inflight in A. simpl in A.
    destruct (t_exc (s_thr s t)); [discriminate | exact A].
  - intros i0 o0 e0 E. injection E as <- <- <-. auto.
Qed.

Lemma case_K183r : forall s t, Inv s -> t < s_n s -> t_pc (s_thr s t) = K183r ->
  Inv (put_thr (with_lock (with_heap s (set_obj_init (s_heap s) (self_of (s_thr s t))) (s_nextobj s)) None) t
         (finish (s_thr s t)
            (match t_val (s_thr s t) with
             | Some o => RObj o (t_id (s_thr s t)) (t_ep (s_thr s t)) | None => RNone end))).
Proof.
  intros s t Hinv Ht Hpc.
  assert (X : t_exc (s_thr s t) = None) by (apply exc_none; try assumption; rewrite Hpc; discriminate).
  assert (Hh : forall o, o_key (set_obj_init (s_heap s) (self_of (s_thr s t)) o) = o_key (s_heap s o) /\
                         o_wlock (set_obj_init (s_heap s) (self_of (s_thr s t)) o) = o_wlock (s_heap s o)).
  { intros o. unfold set_obj_init, upd. destruct (Nat.eqb o (self_of (s_thr s t))) eqn:E;
      [apply Nat.eqb_eq in E; subst |]; split; reflexivity. }
  eapply inv_finish with (s := s) (t := t); try reflexivity; try assumption;
    try (match goal with |- xwinpc _ = false => rewrite Hpc; reflexivity end).
  - intros o1 _. simpl. apply Hh.
  - apply lc_release; [now rewrite Hpc | reflexivity | reflexivity].
  - apply wc_same; [intros o1 _; simpl; apply Hh |]. intros o1 _. unfold wl. simpl. rewrite Hpc. simpl.
    split; intros (A & _); discriminate.
  - intros o1 _. simpl. apply Hh.
  - unfold mov_of. now rewrite Hpc.
  - destruct (t_val (s_thr s t)) as [o |] eqn:V; [| exact I].
    split; [destruct (inv_w_thr s Hinv t Ht) as (Rv & _); now apply Rv |].
    left. unfold inflight. now rewrite Hpc, X, V.
Qed.

(* ---- getAll without caching: all = [] *)
Lemma case_L278 : forall s t, Inv s -> t < s_n s -> t_pc (s_thr s t) = L278 ->
  Inv (put_thr s t (set_pc (set_iter (set_all (s_thr s t) []) None) L279)).
Proof.
  intros s t Hinv Ht Hpc.
  eapply inv_thr_step with (s := s) (t := t) (new := None); try reflexivity; thr_obl s t Hinv Ht Hpc.
  - simpl. intros o [[] | X]. exact (inv_w_all s Hinv t o Ht (or_intror X)).
  - unfold iter_ok. simpl. repeat split; try discriminate.
  - intros i o e H. exact (hold_th_nontagged (s_thr s t) _ i o e H eq_refl eq_refl).
Qed.

(* ------------------------------------------------------------------ the step lemma *)
Lemma case_co : forall s t c p', Inv s -> t < s_n s ->
  (forall s1, Inv s1 -> s_thr s1 = s_thr s -> s_n s1 = s_n s -> s_strong s1 = s_strong s -> s_weak s1 = s_weak s ->
     Inv (put_thr s1 t (set_pc (s_thr s1 t) p'))) ->
  Inv (put_thr (with_co s c) t (set_pc (s_thr s t) p')).
Proof.
  intros s t c p' Hinv Ht H. apply (H (with_co s c)); try reflexivity. now apply Inv_with_co.
Qed.

Lemma step_inv : forall s t s', Inv s -> Aux s -> guard s t = true -> step s t = Some s' -> Inv s'.
Proof.
  intros s t s' Hinv Haux Hg Hstep. unfold step in Hstep.
  destruct (Nat.ltb t (s_n s)) eqn:Hlt; simpl in Hstep; [| discriminate].
  apply Nat.ltb_lt in Hlt.
  unfold guard in Hg.
  destruct (t_pc (s_thr s t)) eqn:Hpc.
  all: try (do_goto s Hinv t Hlt Hpc Hstep; fail).
  (* conditional gotos *)
  all: try (match type of Hstep with goto _ _ _ (if ?c then _ else _) = _ => destruct c eqn:Hc end;
            try discriminate Hg; do_goto s Hinv t Hlt Hpc Hstep; fail).
  (* gotos after a change of the present flag / the cull counter / the cull offset *)
  all: try (unfold goto in Hstep; inversion Hstep; subst; clear Hstep;
            first [apply case_cc | apply case_present | apply case_co]; try assumption;
            intros s1 Hinv1 E1 E2 E3 E4; rewrite <- E1 in Hpc; rewrite <- E2 in Hlt;
            apply inv_goto; try assumption; goto_side s1 Hinv1 t Hlt Hpc; fail).
  (* ---- the cache lock *)
  all: try (match type of Hstep with acquire _ _ _ _ = _ => idtac end;
            unfold acquire in Hstep; destruct (s_lock s) eqn:L; [discriminate |];
            inversion Hstep; subst; clear Hstep;
            apply inv_goto_lock; try assumption;
            [apply lc_acquire; [exact L | reflexivity | reflexivity] | goto_side s Hinv t Hlt Hpc ..]; fail).
  all: try (match type of Hstep with release _ _ _ (set_pc _ _) = _ => idtac end;
            lazymatch type of Hpc with _ = U216 => fail | _ => idtac end;
            unfold release in Hstep;
            assert (L : s_lock s = Some t) by (apply (inv_lock s Hinv t Hlt); rewrite Hpc; reflexivity);
            rewrite L in Hstep; inversion Hstep; subst; clear Hstep;
            apply inv_goto_lock; try assumption;
            [apply lc_release; [rewrite Hpc; reflexivity | reflexivity | reflexivity] | goto_side s Hinv t Hlt Hpc ..]; fail).
  all: lazymatch type of Hpc with
  | _ = Idle =>
    destruct (t_prog (s_thr s t)) as [| o r] eqn:Hprog; [discriminate |];
    destruct o as [i | | t' k | | | t' k]; simpl in Hstep;
    [ unfold goto in Hstep; inversion Hstep; subst; now apply case_start_get
    | do_goto s Hinv t Hlt Hpc Hstep
    | apply Nat.ltb_lt in Hg;
      destruct (nth k (t_slots (s_thr s t')) RNone) as [o i e | | |] eqn:Hs;
        try (inversion Hstep; subst; now apply case_noop_idle);
      unfold goto in Hstep; inversion Hstep; subst; apply case_start_expire; try assumption;
      destruct (inv_w_thr s Hinv t' Hg) as (_ & _ & Rl); apply (Rl o i e);
      rewrite <- Hs; apply nth_In; destruct (Nat.lt_ge_cases k (length (t_slots (s_thr s t')))); [assumption |];
      rewrite nth_overflow in Hs by assumption; discriminate
    | do_goto s Hinv t Hlt Hpc Hstep
    | do_goto s Hinv t Hlt Hpc Hstep
    | apply Nat.eqb_eq in Hg; subst t'; rewrite Nat.eqb_refl in Hstep;
      destruct (nth k (t_slots (s_thr s t)) RNone); inversion Hstep; subst;
        first [now apply case_drop_own | now apply case_noop_idle] ]
  | _ = F100 => unfold goto in Hstep; inversion Hstep; subst; apply case_enter_cull; auto
  | _ = K178 => unfold goto in Hstep; inversion Hstep; subst; apply case_enter_cull; auto
  | _ = F105 =>
    destruct (dget (s_strong s) (t_id (s_thr s t))) eqn:S;
    [ inversion Hstep; subst; now apply case_F105_hit | do_goto s Hinv t Hlt Hpc Hstep ]
  | _ = F110 =>
    destruct (dget (s_strong s) (t_id (s_thr s t))) eqn:S;
    [ unfold goto in Hstep; inversion Hstep; subst; now apply case_F110_hit
    | do_goto s Hinv t Hlt Hpc Hstep; right; exact S ]
  | _ = F115 => inversion Hstep; subst; apply case_return_val; auto
  | _ = F126 => inversion Hstep; subst; apply case_return_val; auto
  | _ = F117 =>
    destruct (dget (s_weak s) (t_id (s_thr s t))) eqn:W;
    [ unfold goto in Hstep; inversion Hstep; subst; now apply case_F117_some
    | do_goto s Hinv t Hlt Hpc Hstep; right; exact W ]
  | _ = F121 => unfold goto in Hstep; inversion Hstep; subst; now apply case_F121
  | _ = F122 => unfold goto in Hstep; inversion Hstep; subst; now apply case_F122
  | _ = F124 =>
    destruct (t_val (s_thr s t)) eqn:V;
    [ unfold goto in Hstep; inversion Hstep; subst; now apply case_F124
    | exfalso; apply (inv_valdef s Hinv t Hlt); [now rewrite Hpc | exact V] ]
  | _ = M951 =>
    destruct (existsb (Z.eqb (t_id (s_thr s t))) (s_rows s)); unfold goto in Hstep; inversion Hstep; subst;
    [ now apply case_M951_found | now apply case_M951_notfound ]
  | _ = P153 =>
    destruct (t_val (s_thr s t)) eqn:V;
    [ unfold goto in Hstep; inversion Hstep; subst; now apply case_P153
    | exfalso; apply (inv_valdef s Hinv t Hlt); [now rewrite Hpc | exact V] ]
  | _ = Q162 =>
    unfold release in Hstep;
    assert (L : s_lock s = Some t) by (apply (inv_lock s Hinv t Hlt); rewrite Hpc; reflexivity);
    rewrite L in Hstep; inversion Hstep; subst; now apply case_Q162
  | _ = C1397 => unfold goto in Hstep; inversion Hstep; subst; now apply case_C1397
  | _ = K181 => unfold goto in Hstep; inversion Hstep; subst; apply case_K181; try assumption; now apply negb_true_iff
  | _ = K181r =>
    unfold release in Hstep; simpl in Hstep;
    assert (L : s_lock s = Some t) by (apply (inv_lock s Hinv t Hlt); rewrite Hpc; reflexivity);
    rewrite L in Hstep; inversion Hstep; subst; now apply case_K181r
  | _ = X1072 =>
    rewrite Hg in Hstep; simpl in Hstep;
    destruct (o_wlock (s_heap s (self_of (s_thr s t)))) eqn:W; [discriminate |];
    unfold goto in Hstep; inversion Hstep; subst; now apply case_X1072
  | _ = X1078 => unfold goto in Hstep; inversion Hstep; subst; now apply case_X1078
  | _ = X1079 => unfold goto in Hstep; inversion Hstep; subst; now apply case_X1079
  | _ = E237 => unfold goto in Hstep; inversion Hstep; subst; now apply case_E237
  | _ = E239 => unfold goto in Hstep; inversion Hstep; subst; now apply case_E239
  | _ = X1083 =>
    destruct (self_some s t X1083 Hinv Hlt Hpc eq_refl) as (o0 & So & Eo & Ho);
    assert (W : o_wlock (s_heap s o0) = Some t) by (apply (inv_wlock s Hinv t o0 Hlt Ho); rewrite Hpc; auto);
    rewrite Eo in Hstep; rewrite W in Hstep; unfold expire_return in Hstep;
    destruct (t_mex (s_thr s t)); unfold goto in Hstep; inversion Hstep; subst;
    [ now apply case_X1083_mex | now apply case_X1083 ]
  (* ---- cull *)
  | _ = U195 => unfold goto in Hstep; inversion Hstep; subst; now apply case_U195
  | _ = U196 =>
    destruct (t_keys (s_thr s t)) as [| k r] eqn:Hk;
    [ do_goto s Hinv t Hlt Hpc Hstep
    | unfold goto in Hstep; inversion Hstep; subst; now apply case_U196_next ]
  | _ = U197 =>
    destruct (cull_parts s t Hinv Hlt) as (_ & _ & C & _); rewrite Hpc in C;
    destruct (C eq_refl) as (_ & _ & C3); destruct (C3 eq_refl) as (C4 & _);
    destruct (dget (s_weak s) (t_key (s_thr s t))) as [o |] eqn:W; [| congruence];
    destruct (aliveb s o) eqn:A; unfold goto in Hstep; inversion Hstep; subst;
    [ now apply case_U197_alive | eapply case_U197_dead; eauto ]
  | _ = U198 => unfold goto in Hstep; inversion Hstep; subst; now apply case_U198
  | _ = U200 => unfold goto in Hstep; inversion Hstep; subst; now apply case_U200
  | _ = U201 =>
    destruct (t_keys (s_thr s t)) as [| k r] eqn:Hk;
    [ do_goto s Hinv t Hlt Hpc Hstep
    | unfold goto in Hstep; inversion Hstep; subst; now apply case_U201_next ]
  | _ = U204 =>
    destruct (cull_parts s t Hinv Hlt) as (_ & _ & _ & D & _); rewrite Hpc in D;
    destruct (D eq_refl) as (_ & _ & D3 & _); specialize (D3 eq_refl);
    destruct (dget (s_strong s) (t_key (s_thr s t))) as [o |] eqn:S; [| congruence];
    unfold goto in Hstep; inversion Hstep; subst; now apply case_U204
  | _ = U205 => unfold goto in Hstep; inversion Hstep; subst; now apply case_U205
  | _ = U209 =>
    destruct (cull_parts s t Hinv Hlt) as (_ & B & _); rewrite Hpc in B;
    destruct (B eq_refl) as (o & B1 & _); rewrite B1 in Hstep;
    destruct (aliveb s o) eqn:A; unfold goto in Hstep; inversion Hstep; subst;
    [ now apply case_U209_alive | eapply case_U209_dead; eauto ]
  | _ = U210 =>
    destruct (cull_parts s t Hinv Hlt) as (_ & B & _); rewrite Hpc in B;
    destruct (B eq_refl) as (o & B1 & _); rewrite B1 in Hstep;
    unfold goto in Hstep; inversion Hstep; subst; now apply case_U210
  | _ = U216 =>
    unfold release in Hstep;
    assert (L : s_lock s = Some t) by (apply (inv_lock s Hinv t Hlt); rewrite Hpc; reflexivity);
    rewrite L in Hstep; inversion Hstep; subst; now apply case_U216
  (* ---- the two expireAll *)
  | _ = SW367 =>
    destruct (s_present s);
    [ do_goto s Hinv t Hlt Hpc Hstep
    | unfold xall_return in Hstep; destruct (t_mex (s_thr s t));
      [ do_goto s Hinv t Hlt Hpc Hstep
      | inversion Hstep; subst; apply case_finish_none; try assumption; unfold mov_of; rewrite Hpc; reflexivity ] ]
  | _ = A251 => unfold goto in Hstep; inversion Hstep; subst; now apply case_A251
  | _ = A252 =>
    destruct (A252_no_error s t Hinv Hlt Hpc) as (r & Er & Nr); rewrite Er in Hstep;
    destruct r as [pos | b];
    [ pose proof (iter_next_lt _ _ _ _ Er) as Hlen;
      destruct (nth_error (s_strong s) pos) as [[k o] |] eqn:Hnth;
      [ unfold goto in Hstep; inversion Hstep; subst; eapply case_A252_item; eauto
      | exfalso; apply (nth_error_lt_some _ _ _ Hlen Hnth) ]
    | destruct b; [congruence |]; unfold goto in Hstep; inversion Hstep; subst; now apply case_A252_end ]
  | _ = A253 =>
    destruct (iter_parts s t Hinv Hlt) as (_ & I2 & _); destruct (I2 Hpc) as (pos & sz & v & o & _ & _ & _ & _ & _ & V);
    rewrite V in Hstep; unfold goto in Hstep; inversion Hstep; subst; now apply case_A253
  | _ = A254 => unfold goto in Hstep; inversion Hstep; subst; now apply case_A254
  | _ = A256 =>
    assert (X : t_exc (s_thr s t) = None) by (apply exc_none; try assumption; rewrite Hpc; discriminate);
    rewrite X in Hstep; unfold release in Hstep;
    assert (L : s_lock s = Some t) by (apply (inv_lock s Hinv t Hlt); rewrite Hpc; reflexivity);
    destruct (t_mex (s_thr s t)); rewrite L in Hstep; inversion Hstep; subst;
    [ now apply case_A256_mex | now apply case_A256_op ]
  | _ = Z681 =>
    unfold goto in Hstep; inversion Hstep; subst;
    apply case_local; try assumption; try reflexivity; try (rewrite Hpc; reflexivity);
    apply exc_none; try assumption; rewrite Hpc; discriminate
  | _ = Z682 =>
    destruct (t_mexl (s_thr s t));
    [ unfold mex_next in Hstep; destruct (t_items (s_thr s t)) as [| x r] eqn:Hit;
      [ inversion Hstep; subst; apply case_finish_none; try assumption; try (rewrite Hpc; reflexivity);
        unfold mov_of; rewrite Hpc; reflexivity
      | unfold goto in Hstep; inversion Hstep; subst;
        eapply case_mex_item with (x := x); try assumption; try reflexivity; try (rewrite Hpc; reflexivity);
        [ apply (inv_w_all s Hinv t x Hlt); right; rewrite Hit; now left
        | exact (proj1 (inv_w_thr s Hinv t Hlt))
        | exact (inv_w_cobj s Hinv t Hlt)
        | simpl; intros o [X | X];
          [ exact (inv_w_all s Hinv t o Hlt (or_introl X))
          | apply (inv_w_all s Hinv t o Hlt); right; rewrite Hit; now right ]
        | simpl; apply exc_none; try assumption; rewrite Hpc; discriminate
        | unfold mov_of; rewrite Hpc; reflexivity ] ]
    | do_goto s Hinv t Hlt Hpc Hstep ]
  | _ = SL383 => inversion Hstep; subst; apply case_finish_none; try assumption; try (rewrite Hpc; reflexivity);
                 unfold mov_of; rewrite Hpc; reflexivity
  | _ = L276 => unfold goto in Hstep; inversion Hstep; subst; now apply case_L276
  | _ = L279 =>
    destruct (L279_no_error s t Hinv Hlt Hpc) as (r & Er & Nr); rewrite Er in Hstep;
    destruct r as [pos | b];
    [ pose proof (iter_next_lt _ _ _ _ Er) as Hlen;
      destruct (nth_error (s_weak s) pos) as [[k o] |] eqn:Hnth;
      [ unfold goto in Hstep; inversion Hstep; subst; eapply case_L279_item; eauto
      | exfalso; apply (nth_error_lt_some _ _ _ Hlen Hnth) ]
    | destruct b; [congruence |]; unfold goto in Hstep; inversion Hstep; subst; now apply case_L279_end ]
  | _ = L280 =>
    destruct (iter_parts s t Hinv Hlt) as (_ & _ & _ & _ & I5 & _); specialize (I5 Hpc);
    destruct (t_cobj (s_thr s t)) as [o |] eqn:Co; [| congruence];
    unfold goto in Hstep; inversion Hstep; subst; now apply case_L280
  | _ = L280n => unfold goto in Hstep; inversion Hstep; subst; now apply case_L280n
  | _ = L281 =>
    destruct (iter_parts s t Hinv Hlt) as (_ & _ & _ & _ & _ & I6); specialize (I6 Hpc);
    destruct (t_val (s_thr s t)) as [o |] eqn:V; [| congruence];
    unfold goto in Hstep; inversion Hstep; subst; now apply case_L281
  | _ = L283 =>
    assert (X : t_exc (s_thr s t) = None) by (apply exc_none; try assumption; rewrite Hpc; discriminate);
    rewrite X in Hstep; unfold release in Hstep;
    assert (L : s_lock s = Some t) by (apply (inv_lock s Hinv t Hlt); rewrite Hpc; reflexivity);
    rewrite L in Hstep; inversion Hstep; subst;
    apply inv_goto_lock; try assumption;
    [ apply lc_release; [rewrite Hpc; reflexivity | reflexivity | reflexivity] | goto_side s Hinv t Hlt Hpc .. ]
  | _ = L282 =>
    unfold mex_next in Hstep; simpl in Hstep; destruct (t_all (s_thr s t)) as [| x r] eqn:Hal;
    [ inversion Hstep; subst;
      change (Inv (put_thr s t (finish (s_thr s t) RNone)));
      apply case_finish_none; try assumption; try (rewrite Hpc; reflexivity); unfold mov_of; rewrite Hpc; reflexivity
    | unfold goto in Hstep; inversion Hstep; subst;
      eapply case_mex_item with (x := x); try assumption; try reflexivity; try (rewrite Hpc; reflexivity);
      [ apply (inv_w_all s Hinv t x Hlt); left; rewrite Hal; now left
      | simpl; intros y E; discriminate E
      | simpl; intros y E; discriminate E
      | simpl; rewrite Hal; intros o [X | X];
        [ apply (inv_w_all s Hinv t o Hlt); left; rewrite Hal; exact X
        | apply (inv_w_all s Hinv t o Hlt); left; rewrite Hal; now right ]
      | simpl; apply exc_none; try assumption; rewrite Hpc; discriminate
      | unfold mov_of; rewrite Hpc; reflexivity ] ]
  (* ---- cache=False *)
  | _ = F130 =>
    destruct (dget (s_weak s) (t_id (s_thr s t))) eqn:W;
    [ unfold goto in Hstep; inversion Hstep; subst; now apply case_F130_some
    | do_goto s Hinv t Hlt Hpc Hstep ]
  | _ = F131 => unfold goto in Hstep; inversion Hstep; subst; now apply case_F131
  | _ = F132 => inversion Hstep; subst; apply case_return_val_noc; auto
  | _ = F145 => inversion Hstep; subst; apply case_return_val_noc; auto
  | _ = F137 =>
    destruct (dget (s_weak s) (t_id (s_thr s t))) eqn:W;
    [ unfold goto in Hstep; inversion Hstep; subst; now apply case_F137_some
    | do_goto s Hinv t Hlt Hpc Hstep; right; exact W ]
  | _ = F139 => unfold goto in Hstep; inversion Hstep; subst; apply case_noc_miss; auto
  | _ = F143 => unfold goto in Hstep; inversion Hstep; subst; apply case_noc_miss; auto
  | _ = F141 => unfold goto in Hstep; inversion Hstep; subst; now apply case_F141
  | _ = F142 =>
    unfold seen_dead_still in Hg;
    destruct (dget (s_weak s) (t_id (s_thr s t))) as [od |] eqn:W; [| discriminate Hg];
    apply negb_true_iff in Hg;
    unfold goto in Hstep; inversion Hstep; subst; eapply case_F142; eauto
  | _ = P155 =>
    destruct (t_val (s_thr s t)) eqn:V;
    [ unfold goto in Hstep; inversion Hstep; subst; now apply case_P155
    | exfalso; apply (inv_valdef s Hinv t Hlt); [now rewrite Hpc | exact V] ]
  | _ = K183 => unfold goto in Hstep; inversion Hstep; subst; apply case_K183; try assumption; now apply negb_true_iff
  | _ = K183r =>
    unfold release in Hstep; simpl in Hstep;
    assert (L : s_lock s = Some t) by (apply (inv_lock s Hinv t Hlt); rewrite Hpc; reflexivity);
    rewrite L in Hstep; inversion Hstep; subst; now apply case_K183r
  | _ = A249 =>
    unfold xall_return in Hstep; destruct (t_mex (s_thr s t));
    [ do_goto s Hinv t Hlt Hpc Hstep
    | inversion Hstep; subst; apply case_finish_none; try assumption; try (rewrite Hpc; reflexivity);
      unfold mov_of; rewrite Hpc; reflexivity ]
  | _ = L278 => unfold goto in Hstep; inversion Hstep; subst; now apply case_L278
  end.
Qed.
