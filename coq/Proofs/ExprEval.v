(* C03: meaning.  The SQL expression a Python tree stands for evaluates, under
   three-valued logic, to what the tree itself evaluates to; the builders
   (operators with either operand order, == None, AND/OR with any number of
   operands, NOTIN, empty IN lists) construct trees with the intended meaning. *)
From Coq Require Import List ZArith NArith Bool Lia.
From Lib Require Import ExprSyntax.
From Gen Require Import Expr.
From Model Require Import Expr.
From Proofs Require Import ExprInd ExprChar ExprParse.
Import ListNotations.
Open Scope Z_scope.

(* ---------------------------------------------------------------- denote preserves meaning *)
Lemma eval_num_sx E z : eval3 E (num_sx z) = VInt z.
Proof.
  unfold num_sx. destruct (z <? 0) eqn:H; cbn [eval3 v_neg]; [|reflexivity].
  now rewrite Z.opp_involutive.
Qed.
Lemma eval_atom_sx E a : eval3 E (atom_sx a) = atom_val a.
Proof.
  destruct a; cbn [atom_sx atom_val]; [apply eval_num_sx|reflexivity|reflexivity|].
  unfold flo_sx. destruct (h <? 0); cbn [eval3 v_neg]; [|reflexivity].
  unfold QArith_base.Qopp. cbn [QArith_base.Qnum QArith_base.Qden]. now rewrite Z.opp_involutive.
Qed.

Theorem eval_denote E n : eval3 E (denote n) = evaln E n.
Proof.
  induction n as [c|a|l IHl|k|op n1 n2 IHn1 IHn2 IHl|n1 n2 IHn1 IHn2|f n1 n2 IHn1 IHn2|p n IHn|neg n1 n2 IHn1 IHn2|]
    using node_ind2; cbn [denote evaln]; try reflexivity.
  - apply eval_atom_sx.
  - destruct op as [o| | |].
    + cbn [eval3]. now rewrite IHn1, IHn2.
    + destruct n2 as [| |l| | | | | | |]; try reflexivity. cbn [eval3]. rewrite IHn1, map_map.
      now rewrite (map_ext_Forall _ _ (IHl l eq_refl)).
    + destruct n2 as [|[| | |]| | | | | | | |]; try reflexivity. cbn [eval3]. now rewrite IHn1.
    + destruct n2 as [|[| | |]| | | | | | | |]; try reflexivity. cbn [eval3]. now rewrite IHn1.
  - cbn [eval3]. now rewrite IHn1, IHn2.
  - destruct f. cbn [eval3]. now rewrite IHn1, IHn2.
  - destruct p; cbn [eval3]; now rewrite IHn.
  - destruct n2; try reflexivity. cbn [eval3]. now rewrite IHn1.
Qed.

(* the rows a WHERE clause keeps *)
Definition keep {R : Type} (envof : R -> env) (f : env -> val) (rows : list R) : list R :=
  filter (fun r => selected (f (envof r))) rows.

Theorem filter_same {R : Type} pt d n (envof : R -> env) (rows : list R) :
  wt n = true -> safe pt d n = true ->
  exists s, parse_rendered pt (render d n) = Parsed s /\
            keep envof (fun E => eval3 E s) rows = keep envof (fun E => evaln E n) rows.
Proof.
  intros W S. exists (denote n). split; [now apply render_parse_safe|].
  unfold keep. apply filter_ext. intros r. now rewrite eval_denote.
Qed.

(* ---------------------------------------------------------------- == None / != None *)
Lemma eq_none_is_null x :
  is_expr x = true ->
  py_binop PEq x (NAtom ANone) = b_ISNULL x /\ py_binop PEq (NAtom ANone) x = b_ISNULL x /\
  py_binop PNe x (NAtom ANone) = b_ISNOTNULL x /\ py_binop PNe (NAtom ANone) x = b_ISNOTNULL x.
Proof.
  intros H. unfold py_binop, py_binop_with. rewrite H. cbn [is_expr fwd refl].
  unfold call_dunder. repeat split; destruct x; try discriminate; reflexivity.
Qed.

(* no equality comparison against the NULL literal *)
Definition is_null_sx (s : sx) : bool := match s with SNull => true | _ => false end.
Definition is_eqne (o : binop) : bool := match o with BEq | BNe => true | _ => false end.
Fixpoint no_eq_null (s : sx) : bool :=
  match s with
  | SBin o a b => no_eq_null a && no_eq_null b && negb (is_eqne o && (is_null_sx a || is_null_sx b))
  | SIn _ a l => no_eq_null a && forallb no_eq_null l
  | SNeg a | SPos a | SNot a | SIsNull _ a | SInSub _ a _ => no_eq_null a
  | _ => true
  end.
(* trees in which no SQLOp("=" / "<>") has the constant None as an operand: what
   the operators build (next lemma) *)
Fixpoint no_eq_none (n : node) : bool :=
  match n with
  | NSQLOp (OB o) a b => no_eq_none a && no_eq_none b && negb (is_eqne o && (is_none a || is_none b))
  | NSQLOp _ a b | NSQLModulo a b | NSQLCall2 _ a b | NINSubquery _ a b => no_eq_none a && no_eq_none b
  | NSQLPrefix _ a => no_eq_none a
  | NList l => forallb no_eq_none l
  | _ => true
  end.

Lemma is_null_denote n : is_null_sx (denote n) = is_none n.
Proof.
  destruct n; try reflexivity.
  - destruct a; try reflexivity; cbn; unfold num_sx, flo_sx;
      match goal with |- context [?z <? 0] => destruct (z <? 0) end; reflexivity.
  - destruct op; try reflexivity; cbn [denote];
      destruct n2 as [|[| | |]| | | | | | | |]; reflexivity.
  - destruct f; reflexivity.
  - destruct p; reflexivity.
  - destruct n2; reflexivity.
Qed.

Lemma no_eq_null_denote n : no_eq_none n = true -> no_eq_null (denote n) = true.
Proof.
  induction n as [c|a|l IHl|k|op n1 n2 IHn1 IHn2 IHl|n1 n2 IHn1 IHn2|f n1 n2 IHn1 IHn2|p n IHn|neg n1 n2 IHn1 IHn2|]
    using node_ind2; cbn [no_eq_none denote]; try reflexivity.
  - destruct a; try reflexivity; intros _; cbn; unfold num_sx, flo_sx;
      match goal with |- context [?z <? 0] => destruct (z <? 0) end; reflexivity.
  - destruct op as [o| | |].
    + intros H. apply andb_true_iff in H as [H Hc]. apply andb_true_iff in H as [H1 H2].
      cbn [no_eq_null]. rewrite IHn1, IHn2, !is_null_denote by assumption. exact Hc.
    + intros H. apply andb_true_iff in H as [H1 H2]. destruct n2 as [| |l| | | | | | |]; try reflexivity.
      cbn [no_eq_null]. rewrite IHn1 by assumption. cbn [andb no_eq_none] in *.
      specialize (IHl l eq_refl). rewrite Forall_forall in IHl. rewrite forallb_forall in *.
      intros s Hs. apply in_map_iff in Hs as (c & <- & Hc). apply IHl; auto.
    + intros H. apply andb_true_iff in H as [H1 H2].
      destruct n2 as [|[| | |]| | | | | | | |]; try reflexivity. cbn [no_eq_null]. auto.
    + intros H. apply andb_true_iff in H as [H1 H2].
      destruct n2 as [|[| | |]| | | | | | | |]; try reflexivity. cbn [no_eq_null]. auto.
  - intros H. apply andb_true_iff in H as [H1 H2]. cbn [no_eq_null is_eqne andb negb].
    rewrite IHn1, IHn2 by assumption. reflexivity.
  - intros H. apply andb_true_iff in H as [H1 H2]. destruct f. cbn [no_eq_null is_eqne andb negb].
    rewrite IHn1, IHn2 by assumption. reflexivity.
  - intros H. destruct p; cbn [no_eq_null]; auto.
  - intros H. apply andb_true_iff in H as [H1 H2]. destruct n2; try reflexivity. cbn [no_eq_null]. auto.
Qed.

(* every operator / function application keeps the invariant *)
Lemma call_dunder_clean m s t : call_dunder dunder_tbl b_eq b_ne m s t = dunder_tbl m s t.
Proof. unfold call_dunder. destruct s, m; reflexivity. Qed.

Theorem py_binop_no_eq_none o x y :
  no_eq_none x = true -> no_eq_none y = true -> no_eq_none (py_binop o x y) = true.
Proof.
  intros Hx Hy. unfold py_binop, py_binop_with.
  assert (Hself : forall s t m, is_expr s = true -> no_eq_none s = true -> no_eq_none t = true ->
                   no_eq_none (call_dunder dunder_tbl b_eq b_ne m s t) = true).
  { intros s t m Es Hs Ht.
    assert (Ns : is_none s = false) by (destruct s as [|[]| | | | | | | |]; try reflexivity; discriminate).
    assert (Heq : no_eq_none (b_eq s t) = true).
    { unfold b_eq, b_ISNULL. destruct (is_none t) eqn:N; cbn [no_eq_none is_eqne andb];
        rewrite ?Hs, ?Ht, ?N, ?Ns; reflexivity. }
    assert (Hne : no_eq_none (b_ne s t) = true).
    { unfold b_ne, b_ISNOTNULL. destruct (is_none t) eqn:N; cbn [no_eq_none is_eqne andb];
        rewrite ?Hs, ?Ht, ?N, ?Ns; reflexivity. }
    rewrite call_dunder_clean.
    destruct m; cbn [dunder_tbl]; try exact Heq; try exact Hne;
      cbn [no_eq_none is_eqne andb negb]; rewrite ?Hs, ?Ht; reflexivity. }
  destruct (is_expr x) eqn:Ex.
  - destruct (is_expr y) eqn:Ey.
    + destruct (is_comparison o && true && proper_subclass (class_of y) (class_of x)); now apply Hself.
    + rewrite andb_false_r. cbn [andb]. now apply Hself.
  - destruct (is_expr y) eqn:Ey; [now apply Hself|reflexivity].
Qed.

Lemma b_fold_no_eq_none o l :
  is_eqne o = false -> forallb no_eq_none l = true -> no_eq_none (b_fold o l) = true.
Proof.
  intros Ho. induction l as [|x r IH]; [reflexivity|].
  cbn [forallb b_fold]. intros H. apply andb_true_iff in H as [Hx Hr].
  destruct r as [|y r']; [exact Hx|]. cbn [no_eq_none]. rewrite Hx, (IH Hr), Ho. reflexivity.
Qed.

Theorem none_never_eq_null pt d n :
  wt n = true -> safe pt d n = true -> no_eq_none n = true ->
  exists s, parse_rendered pt (render d n) = Parsed s /\ no_eq_null s = true.
Proof.
  intros W S N. exists (denote n). split; [now apply render_parse_safe|now apply no_eq_null_denote].
Qed.

(* ---------------------------------------------------------------- n-ary AND / OR *)
Lemma b_fold_cons2 o x y l : b_fold o (x :: y :: l) = NSQLOp (OB o) x (b_fold o (y :: l)).
Proof. reflexivity. Qed.
Lemma b_fold_one o x : b_fold o [x] = x.
Proof. reflexivity. Qed.

Lemma tv_val_tv t : tv_of (val_of_tv t) = t.
Proof. destruct t; reflexivity. Qed.
Lemma and3_TT t : and3 t TT = t.
Proof. destruct t; reflexivity. Qed.
Lemma or3_TF t : or3 t TF = t.
Proof. destruct t; reflexivity. Qed.

Theorem and_fold_meaning E l :
  l <> [] ->
  tv_of (evaln E (b_AND l)) = fold_right and3 TT (map (fun x => tv_of (evaln E x)) l).
Proof.
  unfold b_AND. induction l as [|x r IH]; [congruence|]. intros _.
  destruct r as [|y r'].
  - cbn. now rewrite and3_TT.
  - rewrite b_fold_cons2. cbn [evaln v_bin map fold_right]. rewrite tv_val_tv.
    f_equal. apply IH. discriminate.
Qed.
Theorem or_fold_meaning E l :
  l <> [] ->
  tv_of (evaln E (b_OR l)) = fold_right or3 TF (map (fun x => tv_of (evaln E x)) l).
Proof.
  unfold b_OR. induction l as [|x r IH]; [congruence|]. intros _.
  destruct r as [|y r'].
  - cbn. now rewrite or3_TF.
  - rewrite b_fold_cons2. cbn [evaln v_bin map fold_right]. rewrite tv_val_tv.
    f_equal. apply IH. discriminate.
Qed.

(* & | ~ and the functions build the same trees *)
Lemma and_operator_is_function x y :
  is_expr x = true -> py_binop PAnd x y = b_AND [x; y] /\ py_binop POr x y = b_OR [x; y] /\
                      py_unop UInvert x = b_NOT x.
Proof.
  intros H. unfold py_binop, py_unop, py_binop_with, py_unop_with. rewrite H.
  repeat split; destruct x; try discriminate; reflexivity.
Qed.

(* ---------------------------------------------------------------- NOT IN, empty lists *)
Lemma notin_is_not_in x l : b_NOTIN x (NList l) = b_NOT (b_IN x (NList l)).
Proof. reflexivity. Qed.
Lemma not3_involutive t : not3 (not3 t) = t.
Proof. destruct t; reflexivity. Qed.
Theorem notin_meaning E x l :
  evaln E (b_NOTIN x (NList l)) = v_in true (evaln E x) (map (evaln E) l) /\
  evaln E (b_IN x (NList l)) = v_in false (evaln E x) (map (evaln E) l).
Proof.
  split; [|reflexivity]. cbn [b_NOTIN is_select b_NOT b_IN_list evaln]. unfold v_not, v_in.
  now rewrite tv_val_tv.
Qed.
Theorem empty_in_meaning E x :
  evaln E (b_IN x (NList [])) = VInt 0 /\ evaln E (b_NOTIN x (NList [])) = VInt 1.
Proof. split; reflexivity. Qed.

(* ---------------------------------------------------------------- either operand order *)
Definition binop_of (o : pyop) : binop :=
  match o with
  | PAdd => BAdd | PSub => BSub | PMul => BMul | PDiv => BDiv | PMod => BMod
  | PLt => BLt | PLe => BLe | PGt => BGt | PGe => BGe | PEq => BEq | PNe => BNe
  | PAnd => BAnd | POr => BOr
  end.
(* what the Python expression  x OP y  is meant to compute *)
Definition py_meaning (o : pyop) (x y : node) (vx vy : val) : val :=
  match o with
  | PEq => if is_none y then v_isnull false vx else if is_none x then v_isnull false vy
           else v_bin BEq vx vy
  | PNe => if is_none y then v_isnull true vx else if is_none x then v_isnull true vy
           else v_bin BNe vx vy
  | _ => v_bin (binop_of o) vx vy
  end.

Lemma codes_cmp_antisym a b : codes_cmp b a = CompOpp (codes_cmp a b).
Proof.
  revert b. induction a as [|x a IH]; destruct b as [|y b]; try reflexivity.
  cbn [codes_cmp]. rewrite (N.compare_antisym x y).
  destruct (N.compare x y); cbn [CompOpp]; [apply IH|reflexivity|reflexivity].
Qed.
Lemma cmp_vals_antisym x y :
  cmp_vals y x = match cmp_vals x y with Some c => Some (CompOpp c) | None => None end.
Proof.
  destruct x, y; cbn [cmp_vals as_q]; try reflexivity;
    try (now rewrite codes_cmp_antisym); now rewrite <- QArith_base.Qcompare_antisym.
Qed.
Definition mirror (o : binop) : binop :=
  match o with BLt => BGt | BLe => BGe | BGt => BLt | BGe => BLe | o => o end.
Lemma v_bin_mirror o x y : is_cmp o = true -> v_bin (mirror o) y x = v_bin o x y.
Proof.
  intros H. destruct o; try discriminate; cbn [mirror v_bin]; rewrite cmp_vals_antisym;
    destruct (cmp_vals x y) as [[]|]; reflexivity.
Qed.

Theorem py_binop_meaning E o x y :
  is_expr x || is_expr y = true ->
  evaln E (py_binop o x y) = py_meaning o x y (evaln E x) (evaln E y).
Proof.
  intros H. unfold py_binop, py_binop_with.
  rewrite !call_dunder_clean.
  destruct (is_expr x) eqn:Ex.
  - assert (Nx : is_none x = false) by (destruct x as [|[]| | | | | | | |]; try reflexivity; discriminate).
    destruct (is_comparison o && is_expr y && proper_subclass (class_of y) (class_of x)) eqn:Sw.
    + (* the mirrored comparison of the right operand *)
      apply andb_true_iff in Sw as [Sw _]. apply andb_true_iff in Sw as [Co Ey].
      assert (Ny : is_none y = false) by (destruct y as [|[]| | | | | | | |]; try reflexivity; discriminate).
      destruct o; try discriminate; cbn [refl dunder_tbl evaln py_meaning binop_of];
        unfold b_eq, b_ne, b_ISNULL, b_ISNOTNULL; rewrite ?Nx, ?Ny; cbn [evaln].
      * apply (v_bin_mirror BLt); reflexivity.
      * apply (v_bin_mirror BLe); reflexivity.
      * apply (v_bin_mirror BGt); reflexivity.
      * apply (v_bin_mirror BGe); reflexivity.
      * apply (v_bin_mirror BEq); reflexivity.
      * apply (v_bin_mirror BNe); reflexivity.
    + destruct o; cbn [fwd dunder_tbl evaln py_meaning binop_of]; try reflexivity;
        unfold b_eq, b_ne, b_ISNULL, b_ISNOTNULL; rewrite ?Nx;
        destruct (is_none y) eqn:Ny; try reflexivity;
        destruct y as [|[]| | | | | | | |]; try discriminate; reflexivity.
  - cbn [orb] in H. rewrite H.
    assert (Ny : is_none y = false) by (destruct y as [|[]| | | | | | | |]; try reflexivity; discriminate).
    destruct o; cbn [refl dunder_tbl evaln py_meaning binop_of]; try reflexivity;
      unfold b_eq, b_ne, b_ISNULL, b_ISNOTNULL; rewrite ?Ny;
      try (apply (v_bin_mirror BGt); reflexivity); try (apply (v_bin_mirror BGe); reflexivity);
      try (apply (v_bin_mirror BLt); reflexivity); try (apply (v_bin_mirror BLe); reflexivity).
    + destruct (is_none x) eqn:Nx.
      * destruct x as [|[]| | | | | | | |]; try discriminate. reflexivity.
      * cbn [evaln]. apply (v_bin_mirror BEq). reflexivity.
    + destruct (is_none x) eqn:Nx.
      * destruct x as [|[]| | | | | | | |]; try discriminate. reflexivity.
      * cbn [evaln]. apply (v_bin_mirror BNe). reflexivity.
Qed.

Theorem py_unop_meaning E u x :
  is_expr x = true ->
  evaln E (py_unop u x) =
  match u with UNeg => v_neg (evaln E x) | UPos => v_pos (evaln E x) | UInvert => v_not (evaln E x) end.
Proof.
  intros H. unfold py_unop, py_unop_with. rewrite H. unfold call_dunder.
  destruct u; destruct x; try discriminate; reflexivity.
Qed.

(* ---------------------------------------------------------------- the fixed finding (cc273ef) *)
(* (n1 < 2) == IN(n0 + 1, <subquery 0>): before the fix INSubquery.__sqlrepr__ left
   "((c03t.n0) + (1)) IN (SELECT ...)" unparenthesised, SQLOp saw a leading "(" and
   added none either, and the comparison captured the left part.  Kept as a
   regression example (Props/C03.v). *)
Definition witness_captured : node :=
  py_binop PEq (py_binop PLt (NField (Col TyNum 1)) (NAtom (AInt 2)))
               (b_IN (py_binop PAdd (NField (Col TyNum 0)) (NAtom (AInt 1))) (NSelect 0)).
Definition witness_env : env :=
  {| e_col := fun c => match c with Col TyNum 0%N => VInt 1 | Col TyNum 1%N => VInt 0 | _ => VNull end;
     e_sub := fun _ => [VInt 2] |}.

Theorem filter_same_std {R : Type} d n (envof : R -> env) (rows : list R) :
  wt n = true ->
  exists s, parse_rendered std_table (render d n) = Parsed s /\
            keep envof (fun E => eval3 E s) rows = keep envof (fun E => evaln E n) rows.
Proof. intros W. apply filter_same; [exact W|now apply table_safe]. Qed.

Theorem none_never_eq_null_std d n :
  wt n = true -> no_eq_none n = true ->
  exists s, parse_rendered std_table (render d n) = Parsed s /\ no_eq_null s = true.
Proof. intros W N. apply none_never_eq_null; [exact W|now apply table_safe|exact N]. Qed.
