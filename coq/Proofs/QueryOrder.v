(* The emitted ORDER BY term list denotes the requested ordering, for every
   orderBy argument of the specification (strings with and without '-', 'id',
   column names, raw names, sqlbuilder columns, SQLConstant, DESC nested to any
   depth, lists/tuples, None, sqlmeta.defaultOrder) and any number of
   reversed() calls. *)
From Coq Require Import List ZArith NArith Bool Lia.
From Lib Require Import PyLite QueryPy.
From Gen Require Import Query.
From Model Require Import Query.
From Proofs Require Import QueryChar.
Import ListNotations.

(* ---------------------------------------------------------------- rendering of sqlbuilder expressions *)
Lemma render_expr e :
  forall a d, expr_req e = Some (a, d) ->
              render e = (a, b2n d) /\ render (ODesc e) = (a, b2n (negb d)).
Proof.
  induction e as [s|s| |s|x IH|]; intros a d H; cbn [expr_req] in H; try discriminate.
  - inversion H; subst. split; reflexivity.
  - inversion H; subst. split; reflexivity.
  - inversion H; subst. split; reflexivity.
  - destruct (expr_req x) as [[a' d']|] eqn:Hx; cbn [option_map] in H; [|discriminate].
    unfold flip_dir in H. cbn [fst snd] in H. inversion H; subst. clear H.
    destruct (IH a d' eq_refl) as [H1 H2].
    split; [exact H2|].
    rewrite render_desc. rewrite H1. rewrite negb_involutive. reflexivity.
Qed.

Lemma expr_req_not_str e k : expr_req e = Some k -> render_top e = render e.
Proof. destruct e; cbn; intros; try reflexivity; discriminate. Qed.

(* ---------------------------------------------------------------- one item *)
Lemma atom_ov_req a : match a with RLit _ | RNull => True | _ => expr_req (atom_ov a) = Some (a, false) end.
Proof. destruct a; cbn; auto. Qed.

Lemma name_req_atom cols s :
  match fst (name_req cols s) with RLit _ | RNull => False | _ => True end.
Proof.
  unfold name_req. cbn [fst].
  destruct (str_eqb _ n_id); [exact I|]. destruct (existsb _ cols); exact I.
Qed.

(* after munging, every item of the specification is a sqlbuilder expression
   that asks for the same key *)
Lemma munge_req cols e k :
  item_req cols e = Some k -> expr_req (gen_mungeOrderBy cols e) = Some k.
Proof.
  rewrite munge_char. destruct e as [s| | | | |]; cbn [item_req clean_munge]; intros H; try exact H.
  inversion H; subst. clear H.
  pose proof (name_req_atom cols s) as Ha. pose proof (atom_ov_req (fst (name_req cols s))) as Hb.
  destruct (name_req cols s) as [a d]. cbn [fst snd] in *.
  destruct a; try contradiction; destruct d; cbn [wrap_desc expr_req option_map flip_dir fst snd negb];
    try rewrite Hb; reflexivity.
Qed.

Lemma wrap_req rev x k :
  expr_req x = Some k -> expr_req (wrap_desc rev x) = Some (flip_if rev k).
Proof.
  intros H. destruct k as [a d]. destruct rev, d; cbn [wrap_desc expr_req]; rewrite H; reflexivity.
Qed.

Lemma item_emitted cols rev e k :
  item_req cols e = Some k ->
  render_top (wrap_desc rev (gen_mungeOrderBy cols e)) = (fst (flip_if rev k), b2n (snd (flip_if rev k))).
Proof.
  intros H. apply munge_req in H. apply (wrap_req rev) in H.
  rewrite (expr_req_not_str _ _ H).
  destruct (flip_if rev k) as [a d] eqn:Hk. cbn [fst snd].
  exact (proj1 (render_expr _ a d H)).
Qed.

Lemma items_emitted cols rev l ks :
  all_some (map (item_req cols) l) = Some ks ->
  map render_top (map (wrap_desc rev) (map (gen_mungeOrderBy cols) l)) = req_terms (map (flip_if rev) ks).
Proof.
  revert ks. induction l as [|e l IH]; intros ks H; cbn [map all_some] in H.
  - inversion H. reflexivity.
  - destruct (item_req cols e) as [k|] eqn:He; [|discriminate].
    destruct (all_some (map (item_req cols) l)) as [ks'|] eqn:Hl; [|discriminate].
    inversion H; subst. cbn [map req_terms]. rewrite (item_emitted _ _ _ _ He).
    f_equal. exact (IH ks' eq_refl).
Qed.

(* ---------------------------------------------------------------- the whole argument *)
Theorem emit_order_spec cols dflt given n r :
  spec_order cols dflt given n = Some r ->
  emit_order cols dflt given (rev_after n) = option_map req_terms r.
Proof.
  unfold spec_order, emit_order. rewrite init_order_char, order_clause_char, rev_after_odd.
  fold (effective dflt given). destruct (effective dflt given) as [|x|l]; cbn [oby_munge clean_order_clause].
  - intros H. inversion H. reflexivity.
  - destruct x as [s| | | | |]; cbn [option_map];
      try (intros H; match type of H with
                     | context [item_req] =>
                         match type of H with
                         | option_map _ ?o = _ => destruct o as [k|] eqn:Hk; cbn [option_map] in H; [|discriminate]
                         end
                     end;
           inversion H; subst; clear H;
           pose proof (munge_req cols _ k Hk) as Hm;
           match goal with |- context [gen_mungeOrderBy cols ?e] =>
             destruct (gen_mungeOrderBy cols e) eqn:Hg; cbn [expr_req] in Hm; try discriminate;
             cbn [clean_order_clause option_map map]; rewrite <- Hg;
             rewrite (item_emitted cols (Nat.odd n) e k Hk); reflexivity
           end).
    (* None *)
    intros H. inversion H. reflexivity.
  - destruct (all_some (map (item_req cols) l)) as [ks|] eqn:Hl; cbn [option_map]; [|discriminate].
    intros H. inversion H; subst. cbn [option_map]. f_equal.
    exact (items_emitted cols (Nat.odd n) l ks Hl).
Qed.

(* the same through emit_dirs: key and direction of every emitted term *)
Lemma rt_dir_req k : rt_dir (fst k, b2n (snd k)) = Some k.
Proof. destruct k as [a [|]]; reflexivity. Qed.
Lemma all_some_req ks : all_some (map rt_dir (req_terms ks)) = Some ks.
Proof.
  induction ks as [|k ks IH]; [reflexivity|]. cbn [req_terms map all_some].
  rewrite rt_dir_req. unfold req_terms in IH. rewrite IH. reflexivity.
Qed.

Theorem emit_dirs_spec cols dflt given n r :
  spec_order cols dflt given n = Some r -> emit_dirs cols dflt given (rev_after n) = Some r.
Proof.
  intros H. unfold emit_dirs. rewrite (emit_order_spec _ _ _ _ _ H).
  destruct r as [ks|]; cbn [option_map]; [|reflexivity].
  rewrite all_some_req. reflexivity.
Qed.

(* ---------------------------------------------------------------- call chains *)
Lemma sr_calls_given s ms : sr_given (sr_calls s ms) = spec_given (sr_given s) ms.
Proof.
  unfold sr_calls, spec_given. revert s. induction ms as [|m ms IH]; intros s; [reflexivity|].
  cbn [fold_left]. rewrite IH. destruct m as [o| | |[w|]]; reflexivity.
Qed.

Lemma nat_iter_S n : rev_after (S n) = negb (rev_after n).
Proof. rewrite !rev_after_odd, Nat.odd_succ, <- Nat.negb_odd. reflexivity. Qed.

Lemma sr_calls_rev_gen ms : forall s n, sr_rev s = rev_after n ->
  sr_rev (sr_calls s ms) = rev_after (fold_left (fun n m => match m with MReversed => S n | _ => n end) ms n).
Proof.
  unfold sr_calls. induction ms as [|m ms IH]; intros s n H; [exact H|].
  cbn [fold_left]. apply IH. destruct m as [o| | |[w|]]; cbn [sr_call sr_rev]; try exact H.
  rewrite nat_iter_S, reversed_char, H. reflexivity.
Qed.
Lemma sr_calls_rev s ms : sr_rev (sr_calls s ms) = rev_after (spec_nrev (sr_rev s) ms).
Proof. apply sr_calls_rev_gen. destruct (sr_rev s); reflexivity. Qed.

Lemma sr_calls_dist s ms : sr_dist (sr_calls s ms) = spec_distinct (sr_dist s) ms.
Proof.
  unfold sr_calls, spec_distinct. revert s. induction ms as [|m ms IH]; intros s; [reflexivity|].
  cbn [fold_left]. rewrite IH. destruct m as [o| | |[w|]]; reflexivity.
Qed.

(* the ORDER BY of the statement a chain of calls ends in *)
Theorem chain_order_spec dflt s ms r :
  spec_order colnames dflt (spec_given (sr_given s) ms) (spec_nrev (sr_rev s) ms) = Some r ->
  q_order (sr_sql dflt (sr_calls s ms)) = option_map req_terms r.
Proof.
  intros H. unfold sr_sql. cbn [q_order]. rewrite sr_calls_given, sr_calls_rev.
  exact (emit_order_spec _ _ _ _ _ H).
Qed.
