(* The invariant through CacheFactory / CacheSet. *)
From Coq Require Import List ZArith Bool Lia ZifyBool.
From Model Require Import Orm.
From Proofs Require Import OrmBase OrmSpec OrmLazy OrmInvLists OrmInvTables OrmInvDefs OrmInvFrames OrmInvOC.
Import ListNotations.
Open Scope Z_scope.

Lemma assoc_none_In {X} id (l : list (Z * X)) : (forall y, ~ In (id, y) l) -> assoc id l = None.
Proof.
  intros H. destruct (assoc id l) as [y|] eqn:E; [|reflexivity]. apply assoc_In in E. destruct (H y E).
Qed.

Lemma live_roots_eq s roots roots' x : (In x roots' <-> In x roots) -> (live s roots' x <-> live s roots x).
Proof. unfold live. tauto. Qed.

Arguments cull : simpl never.
Arguments ensure_factory : simpl never.

Section Cache.
Variable cfg : config.
Variable m : mode.

Definition cull_victims (k : kind) (s : st) : list (Z * nat) :=
  pick_every (Z.to_nat (cullFrac cfg)) (Z.to_nat (c_offset (cch s k))) (c_strong (cch s k)).
Definition cull_strong (k : kind) (s : st) : list (Z * nat) :=
  filter (fun e => negb (existsb (fun v => fst v =? fst e) (cull_victims k s))) (c_strong (cch s k)).
Definition cull_weak1 (k : kind) (roots : list nat) (s : st) : list (Z * nat) :=
  filter (fun e => alive s roots (snd e)) (c_weak (cch s k)).
Definition cull_s1 (k : kind) (roots : list nat) (s : st) : st :=
  with_caches s (tset k (c_with (cch s k) (cull_strong k s) (cull_weak1 k roots s) (c_count (cch s k)) (c_offset (cch s k))) (caches s)).
Definition cull_result (k : kind) (roots : list nat) (s : st) : cachef :=
  c_with (cch s k) (cull_strong k s)
    (wfold (fun e => alive (cull_s1 k roots s) roots (snd e)) (cull_victims k s) (cull_weak1 k roots s))
    (c_count (cch s k)) ((c_offset (cch s k) + 1) mod (cullFrac cfg)).

Lemma cull_run k roots s :
  cull cfg k roots s = (Ret tt, with_caches s (tset k (cull_result k roots s) (caches s))).
Proof. reflexivity. Qed.

Lemma cull_spec k roots roots' s :
  Inv cfg m roots s ->
  (forall id x, cached s k id x -> (In x roots' <-> In x roots)) ->
  let s' := with_caches s (tset k (cull_result k roots' s) (caches s)) in
  Inv cfg m roots s' /\
  (forall k' a x, In (a, x) (c_strong (cch s' k')) -> In (a, x) (c_strong (cch s k'))) /\
  (forall k' a x, cached s' k' a x -> cached s k' a x) /\
  (forall k', c_present (cch s' k') = c_present (cch s k')).
Proof.
  intros H Hroots s'.
  assert (Esame : cch s' k = cull_result k roots' s) by (unfold s', cch; cbn; apply tgs).
  assert (Eoth : forall k', k <> k' -> cch s' k' = cch s k') by (intros k' Hne; unfold s', cch; cbn; now apply tgo).
  assert (Hvic : forall e, In e (cull_victims k s) -> In e (c_strong (cch s k))) by (intros e; apply pick_every_incl).
  assert (Hstr : forall k' a x, In (a, x) (c_strong (cch s' k')) -> In (a, x) (c_strong (cch s k'))).
  { intros k' a x Hi. destruct (kind_eq_dec k k') as [<-|Hne]; [|rewrite (Eoth k' Hne) in Hi; exact Hi].
    rewrite Esame in Hi. cbn in Hi. unfold cull_strong in Hi. apply filter_In in Hi. tauto. }
  assert (Hsub : forall k' a x, cached s' k' a x -> cached s k' a x).
  { intros k' a x [Hi|Hi]; [left; exact (Hstr k' a x Hi)|].
    destruct (kind_eq_dec k k') as [<-|Hne]; [|rewrite (Eoth k' Hne) in Hi; right; exact Hi].
    rewrite Esame in Hi. cbn in Hi. apply wfold_In in Hi. destruct Hi as [Hi|Hi].
    - unfold cull_weak1 in Hi. apply filter_In in Hi. right. tauto.
    - left. apply Hvic. exact Hi. }
  assert (Hpres : forall k', c_present (cch s' k') = c_present (cch s k')).
  { intros k'. destruct (kind_eq_dec k k') as [<-|Hne]; [rewrite Esame; reflexivity|now rewrite (Eoth k' Hne)]. }
  assert (Hlive : forall x, live s' roots x -> live s roots x).
  { intros x [Hx|[Hx|(k' & a & Hx)]]; [left; exact Hx|right; left; exact Hx|right; right; exists k', a; exact (Hstr k' a x Hx)]. }
  split; [|auto].
  apply Inv_caches; try assumption.
  - intros k'. destruct (kind_eq_dec k k') as [<-|Hne]; [|fold s'; rewrite (Eoth k' Hne); apply (inv_D _ _ _ _ H)].
    fold s'. rewrite Esame. cbn. apply NoDup_keys_filter. apply (inv_D _ _ _ _ H).
  - intros Hdc k'. destruct (kind_eq_dec k k') as [<-|Hne]; [|fold s'; rewrite (Eoth k' Hne); now apply (inv_N _ _ _ _ H)].
    fold s'. rewrite Esame. cbn. unfold cull_strong. rewrite (inv_N _ _ _ _ H Hdc k). reflexivity.
  - intros k' Hp. fold s'. rewrite Hpres. exact Hp.
  - (* registrations of live objects survive *)
    intros x Hx kk id Hreg. fold s' in Hx |- *.
    destruct (kind_eq_dec k kk) as [<-|Hne]; [|unfold registered in *; rewrite (Eoth kk Hne); exact Hreg].
    pose proof (Hlive x Hx) as Hx0.
    assert (Hxc : cached s k id x) by (apply registered_cached; exact Hreg).
    assert (Hx1 : live (cull_s1 k roots' s) roots' x).
    { apply (live_roots_eq _ roots roots' x (Hroots id x Hxc)).
      destruct Hx as [Hx|[Hx|(k' & a & Hx)]]; [left; exact Hx|right; left; exact Hx|right; right; exists k', a].
      unfold cull_s1, cch. cbn. destruct (kind_eq_dec k k') as [<-|Hne]; [|rewrite tgo by exact Hne; rewrite (Eoth k' Hne) in Hx; exact Hx].
      rewrite tgs. cbn. rewrite Esame in Hx. exact Hx. }
    unfold registered. rewrite Esame. cbn [cull_result c_with c_strong c_weak].
    unfold cull_strong at 1 2.
    set (q := fun a : Z => negb (existsb (fun v : Z * nat => fst v =? a) (cull_victims k s))).
    change (filter _ (c_strong (cch s k))) with (filter (fun e : Z * nat => q (fst e)) (c_strong (cch s k))).
    rewrite assoc_filter_key.
    destruct Hreg as [Hs|[Hs Hw]].
    + destruct (q id) eqn:Eq; [left; exact Hs|right; split; [reflexivity|]].
      assert (Hu : forall y, In (id, y) (cull_victims k s) -> y = x).
      { intros y Hy. apply Hvic in Hy. apply (In_assoc_nodup _ _ _ (inv_D _ _ _ _ H k)) in Hy. congruence. }
      apply wfold_hit; [exact Hu| |right].
      * cbn [snd]. apply alive_live. exact Hx1.
      * unfold q in Eq. apply negb_false_iff in Eq. apply existsb_exists in Eq. destruct Eq as ([a y] & Hy & Ea).
        cbn in Ea. assert (a = id) by lia. subst a. rewrite (Hu y Hy) in Hy. exact Hy.
    + right. split; [destruct (q id); [exact Hs|reflexivity]|].
      rewrite wfold_miss.
      * unfold cull_weak1. apply assoc_filter_some; [exact Hw|]. cbn [snd]. apply alive_live.
        apply (live_roots_eq _ roots roots' x (Hroots id x Hxc)). exact Hx0.
      * intros y Hy. apply Hvic in Hy. apply In_not_none in Hy. congruence.
Qed.


(* replace the cache of one class by one that drops / moves entries *)
Lemma Inv_set_cch roots s k cn :
  Inv cfg m roots s ->
  (forall a x, In (a, x) (c_strong cn) \/ In (a, x) (c_weak cn) -> cached s k a x) ->
  NoDup (keys (c_strong cn)) -> (doCache cfg = false -> c_strong cn = []) ->
  (c_present (cch s k) = true -> c_present cn = true) ->
  (forall a x, In (a, x) (c_strong cn) -> live s roots x) ->
  (forall x a, live s roots x -> registered s k a x ->
     assoc a (c_strong cn) = Some x \/ (assoc a (c_strong cn) = None /\ assoc a (c_weak cn) = Some x)) ->
  Inv cfg m roots (with_caches s (tset k cn (caches s))).
Proof.
  intros H Hsub Hnd Hn Hpres Hlive Hreg.
  set (s' := with_caches s (tset k cn (caches s))).
  assert (Esame : cch s' k = cn) by (unfold s', cch; cbn; apply tgs).
  assert (Eoth : forall k', k <> k' -> cch s' k' = cch s k') by (intros k' Hne; unfold s', cch; cbn; now apply tgo).
  assert (Hl : forall x, live s' roots x -> live s roots x).
  { intros x [Hx|[Hx|(k' & a & Hx)]]; [left; exact Hx|right; left; exact Hx|].
    destruct (kind_eq_dec k k') as [<-|Hne]; [rewrite Esame in Hx; exact (Hlive a x Hx)|].
    rewrite (Eoth k' Hne) in Hx. right; right; exists k', a; exact Hx. }
  apply Inv_caches; fold s'; try assumption.
  - intros k' a x Hc. destruct (kind_eq_dec k k') as [<-|Hne]; [|unfold cached in *; rewrite (Eoth k' Hne) in Hc; exact Hc].
    unfold cached in Hc. rewrite Esame in Hc. exact (Hsub a x Hc).
  - intros k'. destruct (kind_eq_dec k k') as [<-|Hne]; [rewrite Esame; exact Hnd|rewrite (Eoth k' Hne); apply (inv_D _ _ _ _ H)].
  - intros Hdc k'. destruct (kind_eq_dec k k') as [<-|Hne]; [rewrite Esame; exact (Hn Hdc)|rewrite (Eoth k' Hne); now apply (inv_N _ _ _ _ H)].
  - intros k' Hp. destruct (kind_eq_dec k k') as [<-|Hne]; [rewrite Esame; exact (Hpres Hp)|rewrite (Eoth k' Hne); exact Hp].
  - intros x Hx kk a Hr. destruct (kind_eq_dec k kk) as [<-|Hne]; [|unfold registered in *; rewrite (Eoth kk Hne); exact Hr].
    unfold registered. rewrite Esame. exact (Hreg x a (Hl x Hx) Hr).
Qed.

Lemma cch_set_same s k cn : cch (with_caches s (tset k cn (caches s))) k = cn.
Proof. unfold cch. cbn. apply tgs. Qed.
Lemma cch_set_other s k k' cn : k <> k' -> cch (with_caches s (tset k cn (caches s))) k' = cch s k'.
Proof. intros Hne. unfold cch. cbn. now apply tgo. Qed.

(* the entries stay, only flags / counters change *)
Lemma Inv_counters roots s k cn :
  Inv cfg m roots s -> c_strong cn = c_strong (cch s k) -> c_weak cn = c_weak (cch s k) ->
  (c_present (cch s k) = true -> c_present cn = true) ->
  Inv cfg m roots (with_caches s (tset k cn (caches s))).
Proof.
  intros H Es Ew Hp. apply Inv_set_cch; try assumption.
  - intros a x. rewrite Es, Ew. unfold cached. tauto.
  - rewrite Es. apply (inv_D _ _ _ _ H).
  - intros Hdc. rewrite Es. now apply (inv_N _ _ _ _ H).
  - intros a x Hi. rewrite Es in Hi. right; right. eauto.
  - intros x a _ Hr. rewrite Es, Ew. exact Hr.
Qed.

Lemma ensure_factory_spec k roots s :
  Inv cfg m roots s ->
  exists cn, ensure_factory k s = (Ret tt, with_caches s (tset k cn (caches s))) /\
    c_strong cn = c_strong (cch s k) /\ c_weak cn = c_weak (cch s k) /\
    c_count cn = c_count (cch s k) /\ c_offset cn = c_offset (cch s k) /\ c_present cn = true /\
    Inv cfg m roots (with_caches s (tset k cn (caches s))).
Proof.
  intros H. unfold ensure_factory, bind, gets. cbn.
  destruct (c_present (cch s k)) eqn:Ep.
  - exists (cch s k). unfold ret. split.
    + f_equal. unfold cch. destruct s as [hp sl tb ca pk lg ft]. cbn. f_equal. destruct k, ca; reflexivity.
    + do 5 (split; [auto|]). apply Inv_counters; auto.
  - eexists. split; [reflexivity|]. cbn. do 5 (split; [reflexivity|]). apply Inv_counters; auto.
Qed.


Definition shrinks (s s' : st) : Prop :=
  (forall k' a x, In (a, x) (c_strong (cch s' k')) -> In (a, x) (c_strong (cch s k'))) /\
  (forall k' a x, cached s' k' a x -> cached s k' a x) /\
  (forall k', c_present (cch s' k') = c_present (cch s k')).

Lemma shrinks_live s s' roots x : shrinks s s' -> slots s' = slots s -> live s' roots x -> live s roots x.
Proof.
  intros (Hs & _) Esl [Hx|[Hx|(k' & a & Hx)]]; [left; exact Hx|right; left; rewrite <- Esl; exact Hx|].
  right; right. exists k', a. exact (Hs k' a x Hx).
Qed.

Lemma cull_tick_spec k roots roots' s :
  Inv cfg m roots s ->
  (forall id x, cached s k id x -> (In x roots' <-> In x roots)) ->
  exists c', cull_tick cfg k roots' s = (Ret tt, with_caches s c') /\
    Inv cfg m roots (with_caches s c') /\ shrinks s (with_caches s c').
Proof.
  intros H Hroots. unfold cull_tick, bind, gets. cbn.
  destruct (c_count (cch s k) >? cullFreq cfg).
  - unfold set_cch, modify. cbn. 
    set (c1 := c_with (cch s k) (c_strong (cch s k)) (c_weak (cch s k)) 0 (c_offset (cch s k))).
    set (s1 := with_caches s (tset k c1 (caches s))).
    assert (H1 : Inv cfg m roots s1) by (apply Inv_counters; auto).
    assert (E1 : cch s1 k = c1) by apply cch_set_same.
    assert (Hc1 : forall id x, cached s1 k id x -> cached s k id x).
    { intros id x Hc. unfold cached in *. rewrite E1 in Hc. exact Hc. }
    rewrite cull_run.
    destruct (cull_spec k roots roots' s1 H1 (fun id x Hc => Hroots id x (Hc1 id x Hc))) as (H2 & S1 & S2 & S3).
    eexists. split; [reflexivity|]. split; [exact H2|].
    assert (Eo : forall k', c_strong (cch s1 k') = c_strong (cch s k') /\ c_weak (cch s1 k') = c_weak (cch s k') /\
                            c_present (cch s1 k') = c_present (cch s k')).
    { intros k'. destruct (kind_eq_dec k k') as [<-|Hne]; [rewrite E1; auto|]. unfold s1. rewrite cch_set_other by exact Hne. auto. }
    split; [|split].
    + intros k' a x Hi. destruct (Eo k') as (E & _). rewrite <- E. exact (S1 k' a x Hi).
    + intros k' a x Hi. apply S2 in Hi. unfold cached in *. destruct (Eo k') as (E & E' & _). rewrite <- E, <- E'. exact Hi.
    + intros k'. destruct (Eo k') as (_ & _ & E). rewrite <- E. apply S3.
  - eexists. split; [reflexivity|].
    set (c1 := c_with _ _ _ _ _). split; [apply Inv_counters; auto|].
    assert (Eo : forall k', cch (with_caches s (tset k c1 (caches s))) k' = cch s k' \/
                            cch (with_caches s (tset k c1 (caches s))) k' = c1 /\ k' = k).
    { intros k'. destruct (kind_eq_dec k k') as [<-|Hne]; [right; split; [apply cch_set_same|reflexivity]|left; now apply cch_set_other]. }
    split; [|split].
    + intros k' a x Hi. destruct (Eo k') as [E|(E & ->)]; rewrite E in Hi; exact Hi.
    + intros k' a x Hi. unfold cached in *. destruct (Eo k') as [E|(E & ->)]; rewrite E in Hi; exact Hi.
    + intros k'. destruct (Eo k') as [E|(E & ->)]; rewrite E; reflexivity.
Qed.


(* the lookup part of CacheSet.get, after the bookkeeping *)
Definition lookup (k : kind) (id : Z) (roots : list nat) : M (option nat) :=
  if doCache cfg then
    s <- gets (fun s => s) ;;
    let c := cch s k in
    match assoc id (c_strong c) with
    | Some o => ret (Some o)
    | None =>
        match assoc id (c_weak c) with
        | None => ret None
        | Some o =>
            let weak' := assoc_remove id (c_weak c) in
            if alive s roots o then
              set_cch k (c_with c (assoc_set id o (c_strong c)) weak' (c_count c) (c_offset c)) ;;; ret (Some o)
            else
              set_cch k (c_with c (c_strong c) weak' (c_count c) (c_offset c)) ;;; ret None
        end
    end
  else
    s <- gets (fun s => s) ;;
    let c := cch s k in
    match assoc id (c_weak c) with
    | None => ret None
    | Some o =>
        if alive s roots o then ret (Some o)
        else set_cch k (c_with c (c_strong c) (assoc_remove id (c_weak c)) (c_count c) (c_offset c)) ;;; ret None
    end.

Definition got (k : kind) (id : Z) (roots : list nat) (a : option nat) (s' : st) : Prop :=
  match a with
  | Some o => registered s' k id o /\ live s' roots o
  | None => assoc id (c_strong (cch s' k)) = None /\ assoc id (c_weak (cch s' k)) = None
  end.

Lemma with_caches_self s : with_caches s (caches s) = s.
Proof. destruct s; reflexivity. Qed.

Lemma lookup_spec k id roots s :
  Inv cfg m roots s ->
  exists a c', lookup k id roots s = (Ret a, with_caches s c') /\
    Inv cfg m roots (with_caches s c') /\ got k id roots a (with_caches s c') /\
    (forall k', c_present (cch (with_caches s c') k') = c_present (cch s k')).
Proof.
  intros H. unfold lookup.
  (* dropping the dead weak entry under id *)
  assert (Hdrop : forall o, assoc id (c_weak (cch s k)) = Some o -> alive s roots o = false ->
            assoc id (c_strong (cch s k)) = None ->
            let cn := c_with (cch s k) (c_strong (cch s k)) (assoc_remove id (c_weak (cch s k))) (c_count (cch s k)) (c_offset (cch s k)) in
            Inv cfg m roots (with_caches s (tset k cn (caches s))) /\ got k id roots None (with_caches s (tset k cn (caches s))) /\
            (forall k', c_present (cch (with_caches s (tset k cn (caches s))) k') = c_present (cch s k'))).
  { intros o Hw Hdead Hs cn. split; [|split].
    - apply Inv_set_cch; try assumption; cbn.
      + intros a x [Hi|Hi]; [left; exact Hi|right]. apply In_assoc_remove in Hi. tauto.
      + apply (inv_D _ _ _ _ H).
      + intros Hdc0. now apply (inv_N _ _ _ _ H).
      + auto.
      + intros a x Hi. right; right; eauto.
      + intros x a Hx [Hr|[Hr Hr']]; [left; exact Hr|right; split; [exact Hr|]].
        destruct (Z.eq_dec id a) as [<-|Hne]; [|now rewrite assoc_remove_other].
        exfalso. assert (x = o) by congruence. subst x. apply alive_false_live in Hdead. contradiction.
    - unfold got. rewrite cch_set_same. cbn. split; [exact Hs|apply assoc_remove_same].
    - intros k'. destruct (kind_eq_dec k k') as [<-|Hne]; [rewrite cch_set_same; reflexivity|now rewrite cch_set_other]. }
  assert (Hself : forall a, got k id roots a s -> exists a' c', (Ret a, s) = (Ret a', with_caches s c') /\
            Inv cfg m roots (with_caches s c') /\ got k id roots a' (with_caches s c') /\
            (forall k', c_present (cch (with_caches s c') k') = c_present (cch s k'))).
  { intros a Hg. exists a, (caches s). rewrite with_caches_self. auto. }
  destruct (doCache cfg) eqn:Hdc; unfold bind, gets; cbn.
  - destruct (assoc id (c_strong (cch s k))) as [o|] eqn:Es.
    + apply Hself. split; [left; exact Es|]. right; right. exists k, id. now apply assoc_In.
    + destruct (assoc id (c_weak (cch s k))) as [o|] eqn:Ew; [|apply Hself; split; assumption].
      destruct (alive s roots o) eqn:Hal; unfold set_cch, modify, ret; cbn.
      * eexists (Some o), _. split; [reflexivity|].
        set (cn := c_with _ _ _ _ _). split; [|split].
        -- apply Inv_set_cch; try assumption; cbn.
           ++ intros a x [Hi|Hi].
              ** apply In_assoc_set in Hi. destruct Hi as [[-> ->]|Hi]; [right; now apply assoc_In|left; exact Hi].
              ** apply In_assoc_remove in Hi. right. tauto.
           ++ apply NoDup_keys_assoc_set. apply (inv_D _ _ _ _ H).
           ++ congruence.
           ++ auto.
           ++ intros a x Hi. apply In_assoc_set in Hi. destruct Hi as [[-> ->]|Hi]; [now apply alive_live|right; right; eauto].
           ++ intros x a Hx Hr. destruct (Z.eq_dec id a) as [<-|Hne].
              ** left. destruct Hr as [Hr|[_ Hr]]; [congruence|]. assert (x = o) by congruence. subst x. apply assoc_set_same.
              ** rewrite assoc_set_other, assoc_remove_other by exact Hne. exact Hr.
        -- unfold got. split; [left; rewrite cch_set_same; cbn; apply assoc_set_same|].
           right; right. exists k, id. rewrite cch_set_same. cbn. apply assoc_In. apply assoc_set_same.
        -- intros k'. destruct (kind_eq_dec k k') as [<-|Hne]; [rewrite cch_set_same; reflexivity|now rewrite cch_set_other].
      * eexists None, _. split; [reflexivity|]. exact (Hdrop o eq_refl Hal eq_refl).
  - assert (Es : c_strong (cch s k) = []) by now apply (inv_N _ _ _ _ H).
    destruct (assoc id (c_weak (cch s k))) as [o|] eqn:Ew; [|apply Hself; split; [rewrite Es; reflexivity|exact Ew]].
    destruct (alive s roots o) eqn:Hal; unfold set_cch, modify, ret; cbn.
    + apply Hself. split; [right; split; [rewrite Es; reflexivity|exact Ew]|now apply alive_live].
    + eexists None, _. split; [reflexivity|]. apply (Hdrop o eq_refl Hal). rewrite Es. reflexivity.
Qed.


Lemma cache_get_unfold k id roots :
  cache_get cfg k id roots =
  (ensure_factory k ;;; if doCache cfg then cull_tick cfg k roots ;;; lookup k id roots else lookup k id roots).
Proof. unfold cache_get, lookup. destruct (doCache cfg); reflexivity. Qed.

Lemma cache_get_spec k id roots s :
  Inv cfg m roots s ->
  exists a c', cache_get cfg k id roots s = (Ret a, with_caches s c') /\
    Inv cfg m roots (with_caches s c') /\ got k id roots a (with_caches s c') /\
    c_present (cch (with_caches s c') k) = true.
Proof.
  intros H. rewrite cache_get_unfold. unfold bind at 1.
  destruct (ensure_factory_spec k roots s H) as (cn & Ee & _ & _ & _ & _ & Hp & H1). rewrite Ee.
  set (s1 := with_caches s (tset k cn (caches s))) in *.
  assert (Hp1 : c_present (cch s1 k) = true) by (unfold s1; rewrite cch_set_same; exact Hp).
  destruct (doCache cfg).
  - unfold bind at 1.
    destruct (cull_tick_spec k roots roots s1 H1 (fun _ _ _ => conj (fun h => h) (fun h => h))) as (c2 & Ec & H2 & (_ & _ & S3)).
    rewrite Ec. set (s2 := with_caches s1 c2) in *.
    destruct (lookup_spec k id roots s2 H2) as (a & c3 & El & H3 & Hg & Hp3). rewrite El.
    exists a, c3. split; [reflexivity|]. split; [exact H3|]. split; [exact Hg|].
    change (with_caches s c3) with (with_caches s2 c3). rewrite Hp3, S3. exact Hp1.
  - destruct (lookup_spec k id roots s1 H1) as (a & c3 & El & H3 & Hg & Hp3). rewrite El.
    exists a, c3. split; [reflexivity|]. split; [exact H3|]. split; [exact Hg|].
    change (with_caches s c3) with (with_caches s1 c3). rewrite Hp3. exact Hp1.
Qed.

(* cache_put after a miss *)
Lemma cache_put_spec k id o roots s :
  Inv cfg m roots s -> c_present (cch s k) = true ->
  (o < length (heap s))%nat -> i_k (get_inst s o) = k -> i_id (get_inst s o) = id ->
  ok_base m s (get_inst s o) -> i_obsolete (get_inst s o) = false ->
  (forall x, live s roots x -> i_obsolete (get_inst s x) = false -> i_k (get_inst s x) = k ->
             i_id (get_inst s x) = id -> row_exists s k id -> False) ->
  exists c', cache_put cfg k id o s = (Ret tt, with_caches s c') /\
    Inv cfg m roots (with_caches s c') /\ registered (with_caches s c') k id o.
Proof.
  intros H Hp Hlt Hk Hid Hb Hcur Hfree. unfold cache_put, bind, gets. cbn.
  destruct (doCache cfg) eqn:Hdc; unfold set_cch, modify; cbn; eexists; (split; [reflexivity|]);
    apply Inv_cache_add; auto; cbn; auto.
Qed.


(* CacheSet.created: the new object is the only GC root of the cull *)
Lemma cache_created_spec k id o s :
  Inv cfg m [] s ->
  (forall a, ~ cached s k a o) ->
  (o < length (heap s))%nat -> i_k (get_inst s o) = k -> i_id (get_inst s o) = id ->
  ok_base m s (get_inst s o) -> i_obsolete (get_inst s o) = false ->
  (forall x, live s [] x -> i_obsolete (get_inst s x) = false -> i_k (get_inst s x) = k ->
             i_id (get_inst s x) = id -> row_exists s k id -> False) ->
  exists c', cache_created cfg k id o s = (Ret tt, with_caches s c') /\
    Inv cfg m [] (with_caches s c') /\ registered (with_caches s c') k id o.
Proof.
  intros H Hnc Hlt Hk Hid Hb Hcur Hfree. unfold cache_created. unfold bind at 1.
  destruct (ensure_factory_spec k [] s H) as (cn & Ee & Es & Ew & _ & _ & Hp & H1). rewrite Ee.
  set (s1 := with_caches s (tset k cn (caches s))) in *.
  assert (Hp1 : c_present (cch s1 k) = true) by (unfold s1; rewrite cch_set_same; exact Hp).
  assert (Hnc1 : forall a, ~ cached s1 k a o).
  { intros a Hc. apply (Hnc a). unfold cached, s1 in *. rewrite cch_set_same, Es, Ew in Hc. exact Hc. }
  assert (Hl1 : forall x, live s1 [] x -> live s [] x).
  { intros x [Hx|[Hx|(k' & a & Hx)]]; [left; exact Hx|right; left; exact Hx|right; right; exists k', a].
    destruct (kind_eq_dec k k') as [<-|Hne]; [unfold s1 in Hx; rewrite cch_set_same, Es in Hx; exact Hx|].
    unfold s1 in Hx. rewrite cch_set_other in Hx by exact Hne. exact Hx. }
  assert (Hadd : forall s2, Inv cfg m [] s2 -> c_present (cch s2 k) = true -> heap s2 = heap s -> tables s2 = tables s ->
            (forall x, live s2 [] x -> live s [] x) ->
            exists c', (c <- gets (fun s => cch s k) ;;
                        (if doCache cfg then set_cch k (c_with c (assoc_set id o (c_strong c)) (c_weak c) (c_count c) (c_offset c))
                         else set_cch k (c_with c (c_strong c) (assoc_set id o (c_weak c)) (c_count c) (c_offset c)))) s2
                       = (Ret tt, with_caches s2 c') /\
              Inv cfg m [] (with_caches s2 c') /\ registered (with_caches s2 c') k id o).
  { intros s2 H2 Hp2 Eh Et Hl2.
    assert (G : forall x, get_inst s2 x = get_inst s x) by (intros x; unfold get_inst; now rewrite Eh).
    assert (Tb : forall k', tbl s2 k' = tbl s k') by (intros k'; unfold tbl; now rewrite Et).
    unfold bind, gets. cbn.
    destruct (doCache cfg) eqn:Hdc; unfold set_cch, modify; cbn; eexists; (split; [reflexivity|]);
      apply Inv_cache_add; auto; cbn; auto; rewrite ?Eh, ?G; auto.
    all: try (unfold ok_base, row_exists, shows in *; rewrite ?Tb; exact Hb).
    all: intros x Hx Hc Ek Ei Hr; rewrite G in *; apply (Hfree x (Hl2 x Hx) Hc Ek Ei); unfold row_exists in *; rewrite Tb in Hr; exact Hr. }
  destruct (doCache cfg) eqn:Hdc.
  - unfold bind at 1.
    assert (Hroots : forall a x, cached s1 k a x -> (In x [o] <-> In x [])).
    { intros a x Hc. split; [|intros []]. intros [<-|[]]. exact (Hnc1 a Hc). }
    destruct (cull_tick_spec k [] [o] s1 H1 Hroots) as (c2 & Ec & H2 & Hsh). rewrite Ec.
    set (s2 := with_caches s1 c2) in *.
    destruct (Hadd s2 H2) as (c3 & E3 & H3 & R3); try reflexivity.
    + destruct Hsh as (_ & _ & S3). rewrite S3. exact Hp1.
    + intros x Hx. apply Hl1. exact (shrinks_live s1 s2 [] x Hsh eq_refl Hx).
    + exists c3. split; [exact E3|]. split; [exact H3|exact R3].
  - destruct (Hadd s1 H1 Hp1 eq_refl eq_refl Hl1) as (c3 & E3 & H3 & R3).
    exists c3. split; [exact E3|]. split; [exact H3|exact R3].
Qed.


Lemma cache_try_get_run k id roots roots0 s :
  Inv cfg m roots0 s ->
  exists a, cache_try_get cfg k id roots s = (Ret a, s) /\
    (a = None -> forall x, registered s k id x -> live s roots x -> False).
Proof.
  intros H. unfold cache_try_get, bind, gets. cbn.
  destruct (c_present (cch s k)) eqn:Ep; cbn.
  2:{ exists None. split; [reflexivity|]. intros _ x Hr _. apply registered_cached in Hr. exact (inv_Z _ _ _ _ H k Ep id x Hr). }
  destruct (assoc id (c_weak (cch s k))) as [o|] eqn:Ew.
  - destruct (alive s roots o) eqn:Hal; [exists (Some o); split; [reflexivity|discriminate]|].
    apply alive_false_live in Hal.
    destruct (doCache cfg) eqn:Hdc; cbn.
    + exists (assoc id (c_strong (cch s k))). split; [reflexivity|]. intros Hn x [Hr|[_ Hr]] Hx; [congruence|].
      assert (x = o) by congruence. subst x. contradiction.
    + exists None. split; [reflexivity|]. intros _ x [Hr|[_ Hr]] Hx.
      * rewrite (inv_N _ _ _ _ H Hdc k) in Hr. discriminate.
      * assert (x = o) by congruence. subst x. contradiction.
  - destruct (doCache cfg) eqn:Hdc; cbn.
    + exists (assoc id (c_strong (cch s k))). split; [reflexivity|]. intros Hn x [Hr|[_ Hr]] _; congruence.
    + exists None. split; [reflexivity|]. intros _ x [Hr|[_ Hr]] _; [|congruence].
      rewrite (inv_N _ _ _ _ H Hdc k) in Hr. discriminate.
Qed.


(* the cache bookkeeping never looks at the heap *)
Lemma cull_tick_heap k roots s h :
  cull_tick cfg k roots (with_heap s h) = (Ret tt, with_heap (snd (cull_tick cfg k roots s)) h).
Proof.
  unfold cull_tick, bind, gets. cbn. change (cch (with_heap s h) k) with (cch s k).
  destruct (c_count (cch s k) >? cullFreq cfg); reflexivity.
Qed.

Definition hind {A} (mm : M A) : Prop := forall s h, mm (with_heap s h) = (fst (mm s), with_heap (snd (mm s)) h).

Lemma hind_bind {A B} (mm : M A) (f : A -> M B) : hind mm -> (forall a, hind (f a)) -> hind (bind mm f).
Proof.
  intros Hm Hf s h. unfold bind. rewrite Hm. destruct (mm s) as [[a|e] s1]; cbn; [apply Hf|reflexivity].
Qed.

Lemma hind_cull_tick k roots : hind (cull_tick cfg k roots).
Proof.
  intros s h. rewrite cull_tick_heap. destruct (oc_cull_tick cfg k roots s) as ([] & c' & E). rewrite E. reflexivity.
Qed.

Lemma hind_ensure_factory k : hind (ensure_factory k).
Proof.
  intros s h. unfold ensure_factory, bind, gets. cbn. change (cch (with_heap s h) k) with (cch s k).
  destruct (c_present (cch s k)); reflexivity.
Qed.

Lemma hind_cache_created k id o : hind (cache_created cfg k id o).
Proof.
  unfold cache_created. apply hind_bind; [apply hind_ensure_factory|intros _].
  destruct (doCache cfg); [apply hind_bind; [apply hind_cull_tick|intros _]|]; intros s h; reflexivity.
Qed.

End Cache.
