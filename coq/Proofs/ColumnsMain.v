(* C01: every write path leaves the writer's cached value and every database
   read equal, or nothing is stored -- for every column type and every value. *)
From Coq Require Import List NArith ZArith Bool Lia ZifyBool.
From Lib Require Import Str Lex ColumnsTpl.
From Gen Require Import Columns.
From Model Require Import Columns.
From Proofs Require Import ColumnsStr ColumnsNum ColumnsDate ColumnsAff ColumnsExact.
Import ListNotations.
Open Scope N_scope.

(* what the property asks of one write: refused with the row untouched, or
   the writer's value (also before a lazy flush) equals what every database
   read returns, and the equality query finds the row *)
Definition consistent (o : outcome) : Prop :=
  match o_write o with
  | Raise _ => o_stored o = SNull
  | Ok _ =>
      exists c d, o_cache o = Some (Ok c) /\ o_db o = Some (Ok d) /\ same c d /\
                  (forall p, o_cache_pre o = Some p -> exists c', p = Ok c' /\ same c' d) /\
                  o_found o = Some (Ok true)
  end.

Lemma consistent_ok o c d :
  o_write o = Ok tt -> o_cache o = Some (Ok c) -> o_db o = Some (Ok d) -> same c d ->
  (forall p, o_cache_pre o = Some p -> exists c', p = Ok c' /\ same c' d) ->
  o_found o = Some (Ok true) -> consistent o.
Proof. intros Hw Hc Hd Hs Hp Hf. unfold consistent. rewrite Hw. exists c, d. repeat split; assumption. Qed.

Lemma pre_none d : forall p : res pyval, None = Some p -> exists c', p = Ok c' /\ same c' d.
Proof. intros p H. discriminate. Qed.
Lemma pre_some c d : same c d -> forall p : res pyval, Some (Ok c) = Some p -> exists c', p = Ok c' /\ same c' d.
Proof. intros Hs p H. injection H as <-. now exists c. Qed.

(* ---------------------------------------------------------------- None *)
Lemma none_from C T : from_python C T PNone = Ok PNone.
Proof. destruct T as [l|l| | | | | | | | | | | |s p| |s p q|vals| | | | | | ]; reflexivity. Qed.
Lemma none_to C T : to_python C T PNone = Ok PNone.
Proof. destruct T as [l|l| | | | | | | | | | | |s p| |s p q|vals| | | | | | ]; try reflexivity. destruct q; reflexivity. Qed.
Lemma store_null C a : sqlite_store C a s_NULL = Ok SNull.
Proof. reflexivity. Qed.
Lemma unwrap_none T : fk_unwrap T PNone = PNone.
Proof. destruct T; reflexivity. Qed.

Lemma run_none C T w var : consistent (run C T PNone w var).
Proof.
  unfold run. rewrite unwrap_none, none_from, none_to. unfold db_store. cbn [literal rbind]. rewrite store_null.
  unfold read_db. cbn [driver]. rewrite none_to.
  assert (Hq : query_finds C T PNone SNull = Ok true).
  { unfold query_finds, read_db. cbn [driver]. now rewrite none_to. }
  assert (Hs : same PNone PNone) by now left.
  destruct w, var; apply (consistent_ok _ PNone PNone); cbn [o_write o_cache o_db o_cache_pre o_found];
    try reflexivity; try exact Hs; try (now rewrite Hq); try apply pre_none; try (apply pre_some; exact Hs).
Qed.

(* ---------------------------------------------------------------- the write machine, given exactness *)
Lemma query_finds_some C T v s :
  v <> PNone ->
  query_finds C T v s =
  (dbv <- from_python C T v ;; lit <- literal C dbv ;; rhs <- compare_operand C (col_affinity T) lit ;;
   if sval_sqleq s rhs then (_ <- read_db C T s ;; Ok true) else Ok false).
Proof. intros H. destruct v; try reflexivity. congruence. Qed.

Lemma failed_consistent e row pre : consistent (failed e row pre).
Proof. reflexivity. Qed.

(* whenever the write returns, the equality query yields the row *)
Lemma run_found C T v w var :
  v <> PNone ->
  (forall dbv, from_python C T (fk_unwrap T v) = Ok dbv -> readable C T dbv) ->
  (forall dbv, from_python C T (fk_unwrap T v) = Ok dbv ->
     exists dbv', from_python C T v = Ok dbv' /\ literal C dbv' = literal C dbv) ->
  o_write (run C T v w var) = Ok tt -> o_found (run C T v w var) = Some (Ok true).
Proof.
  intros Hv Hex Hq. unfold run.
  destruct (from_python C T (fk_unwrap T v)) as [dbv|e] eqn:Hfrom; [|discriminate].
  specialize (Hex dbv eq_refl). specialize (Hq dbv eq_refl). destruct Hq as (dbv' & Hfrom' & Hlit').
  destruct (to_python C T dbv) as [py|e] eqn:Hto; [|discriminate].
  unfold db_store. destruct (literal C dbv) as [lit|e] eqn:Hlit; cbn [rbind]; [|discriminate].
  destruct (sqlite_store C (col_affinity T) lit) as [s|e] eqn:Hst; [|discriminate].
  destruct (Hex lit s Hlit Hst) as [Hread (r & Hcmp & Heq)].
  destruct (Hread py Hto) as (d & Hd & _).
  rewrite Hd.
  assert (Hfound : query_finds C T v s = Ok true).
  { rewrite query_finds_some by assumption. rewrite Hfrom'. cbn [rbind]. rewrite Hlit'. cbn [rbind].
    rewrite Hcmp. cbn [rbind]. rewrite Heq, Hd. reflexivity. }
  intros _. destruct w, var; cbn [o_found]; now rewrite Hfound.
Qed.

Lemma run_consistent C T v w var :
  v <> PNone ->
  (forall dbv, from_python C T (fk_unwrap T v) = Ok dbv -> exact C T dbv) ->
  (forall dbv, from_python C T (fk_unwrap T v) = Ok dbv ->
     exists dbv', from_python C T v = Ok dbv' /\ literal C dbv' = literal C dbv) ->
  consistent (run C T v w var).
Proof.
  intros Hv Hex Hq. unfold run.
  destruct (from_python C T (fk_unwrap T v)) as [dbv|e] eqn:Hfrom; [|apply failed_consistent].
  specialize (Hex dbv eq_refl). specialize (Hq dbv eq_refl). destruct Hq as (dbv' & Hfrom' & Hlit').
  destruct (to_python C T dbv) as [py|e] eqn:Hto; [|apply failed_consistent].
  unfold db_store. destruct (literal C dbv) as [lit|e] eqn:Hlit; cbn [rbind]; [|apply failed_consistent].
  destruct (sqlite_store C (col_affinity T) lit) as [s|e] eqn:Hst; [|apply failed_consistent].
  destruct (Hex lit s Hlit Hst) as [Hread (r & Hcmp & Heq)].
  destruct (Hread py Hto) as (d & Hd & Hsame).
  rewrite Hd.
  assert (Hfound : query_finds C T v s = Ok true).
  { rewrite query_finds_some by assumption. rewrite Hfrom'. cbn [rbind]. rewrite Hlit'. cbn [rbind].
    rewrite Hcmp. cbn [rbind]. rewrite Heq, Hd. reflexivity. }
  assert (Hdd : same d d) by now left.
  destruct w, var.
  all: first
    [ apply (consistent_ok _ d d); cbn [o_write o_cache o_db o_cache_pre o_found];
      [reflexivity|reflexivity|reflexivity|exact Hdd|apply pre_none|now rewrite Hfound]
    | apply (consistent_ok _ py d); cbn [o_write o_cache o_db o_cache_pre o_found];
      [reflexivity|reflexivity|reflexivity|exact Hsame|first [apply pre_none|apply pre_some; exact Hsame]|now rewrite Hfound] ].
Qed.
