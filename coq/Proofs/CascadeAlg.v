(* C12 -- algebra of the state operations: every SQL statement destroySelf
   issues maps a state of the form `apply sg st0` to `apply sg' st0`. *)
From Coq Require Import List ZArith NArith Bool Lia.
From Model Require Import Cascade.
Import ListNotations.
Open Scope Z_scope.

(* ---------------------------------------------------------------- lists *)
Lemma filter_filter' : forall {A} (f h : A -> bool) l,
  filter f (filter h l) = filter (fun x => h x && f x) l.
Proof.
  induction l as [|a l IH]; cbn; auto.
  destruct (h a) eqn:Eh; cbn; [destruct (f a)|]; rewrite ?IH; auto.
Qed.

Lemma filter_map' : forall {A B} (p : B -> bool) (f : A -> B) l,
  filter p (map f l) = map f (filter (fun x => p (f x)) l).
Proof.
  induction l as [|a l IH]; cbn; auto. destruct (p (f a)); cbn; rewrite IH; auto.
Qed.

Lemma filter_ext_in' : forall {A} (f h : A -> bool) l,
  (forall x, In x l -> f x = h x) -> filter f l = filter h l.
Proof.
  induction l as [|a l IH]; cbn; intros H; auto.
  rewrite (H a) by auto. rewrite IH; auto.
Qed.

Lemma filter_all : forall {A} (f : A -> bool) l, (forall x, In x l -> f x = true) -> filter f l = l.
Proof.
  induction l as [|a l IH]; cbn; intros H; auto. rewrite (H a) by auto. rewrite IH; auto.
Qed.

Lemma fold_left_map' : forall {A B S} (F : S -> B -> S) (f : A -> B) l s,
  fold_left (fun s a => F s (f a)) l s = fold_left F (map f l) s.
Proof. induction l; cbn; auto. Qed.

Lemma map_id' : forall {A} (f : A -> A) l, (forall x, In x l -> f x = x) -> map f l = l.
Proof. induction l as [|a l IH]; cbn; intros H; auto. rewrite H, IH; auto. Qed.

Lemma existsb_false : forall {A} (f : A -> bool) l, existsb f l = false <-> forall x, In x l -> f x = false.
Proof.
  induction l as [|a l IH]; cbn; split; intros; auto; try contradiction.
  - apply orb_false_iff in H as [H1 H2]. destruct H0; subst; auto. apply IH; auto.
  - apply orb_false_iff; split; auto. apply IH; auto.
Qed.

Lemma is_nil_true : forall {A} (l : list A), is_nil l = true <-> l = [].
Proof. destruct l; cbn; split; congruence. Qed.

(* ---------------------------------------------------------------- nodes *)
Lemma node_eqb_eq : forall a b, node_eqb a b = true <-> a = b.
Proof.
  intros [a1 a2] [b1 b2]; unfold node_eqb; cbn. rewrite andb_true_iff, N.eqb_eq, Z.eqb_eq.
  split; [intros [-> ->]; auto | intros H; inversion H; auto].
Qed.
Lemma node_eqb_refl : forall a, node_eqb a a = true.
Proof. intros; apply node_eqb_eq; auto. Qed.
Lemma mem_In : forall p l, mem p l = true <-> In p l.
Proof.
  unfold mem; intros. rewrite existsb_exists. split.
  - intros [q [Hq E]]. apply node_eqb_eq in E. subst; auto.
  - intros H. exists p. split; auto. apply node_eqb_refl.
Qed.

(* ---------------------------------------------------------------- sigma *)
Definition add_link (t0 : N) (s0 : bool) (x : Z) (sg : sigma) : sigma :=
  {| sg_del := sg_del sg; sg_null := sg_null sg;
     sg_link := fun t s y => sg_link sg t s y || (N.eqb t t0 && Bool.eqb s s0 && Z.eqb y x) |}.
Definition add_del (k0 : N) (x : Z) (sg : sigma) : sigma :=
  {| sg_del := fun k i => sg_del sg k i || (N.eqb k k0 && Z.eqb i x);
     sg_null := sg_null sg; sg_link := sg_link sg |}.
Definition add_null (k0 t0 : N) (x : Z) (sg : sigma) : sigma :=
  {| sg_del := sg_del sg;
     sg_null := fun k t y => sg_null sg k t y || (N.eqb k k0 && N.eqb t t0 && Z.eqb y x);
     sg_link := sg_link sg |}.
Definition sg_empty : sigma :=
  {| sg_del := fun _ _ => false; sg_null := fun _ _ _ => false; sg_link := fun _ _ _ => false |}.

(* ---------------------------------------------------------------- null_vals *)
Lemma null_vals_fuse : forall P Q cols vals,
  null_vals Q cols (null_vals P cols vals) = null_vals (fun t y => P t y || Q t y) cols vals.
Proof.
  intros P Q cols vals; revert cols; induction vals as [|v vs IH]; intros cols; cbn; auto.
  destruct cols as [|c cs]; cbn; auto.
  rewrite IH. f_equal.
  destruct v as [y|]; auto.
  destruct (is_setnull (fk_policy c)); cbn; auto.
  destruct (P (fk_target c) y); cbn; auto.
Qed.

Lemma null_vals_ext : forall P Q cols vals,
  (forall c y, In c cols -> is_setnull (fk_policy c) = true -> P (fk_target c) y = Q (fk_target c) y) ->
  null_vals P cols vals = null_vals Q cols vals.
Proof.
  intros P Q cols vals; revert cols; induction vals as [|v vs IH]; intros cols H; cbn; auto.
  destruct cols as [|c cs]; auto.
  rewrite IH by (intros; apply H; cbn; auto). f_equal.
  destruct v as [y|]; auto.
  destruct (is_setnull (fk_policy c)) eqn:E; cbn; auto.
  rewrite (H c y); cbn; auto.
Qed.

Lemma null_vals_none : forall cols vals, null_vals (fun _ _ => false) cols vals = vals.
Proof.
  intros cols vals; revert cols; induction vals as [|v vs IH]; intros cols; cbn; auto.
  destruct cols as [|c cs]; auto. rewrite IH. f_equal. destruct v; auto. rewrite andb_false_r. auto.
Qed.

Lemma null_row_id : forall P cols r, r_id (null_row P cols r) = r_id r.
Proof. reflexivity. Qed.

Lemma null_row_ext : forall P Q cols r,
  (forall c y, In c cols -> is_setnull (fk_policy c) = true -> P (fk_target c) y = Q (fk_target c) y) ->
  null_row P cols r = null_row Q cols r.
Proof. intros. unfold null_row. rewrite (null_vals_ext P Q); auto. Qed.

Lemma null_row_fuse : forall P Q cols r,
  null_row Q cols (null_row P cols r) = null_row (fun t y => P t y || Q t y) cols r.
Proof. intros; unfold null_row; cbn. rewrite null_vals_fuse. auto. Qed.

(* ---------------------------------------------------------------- keyed tables *)
Lemma nodup_N_spec : forall l, nodup_N l = true -> NoDup l.
Proof.
  induction l as [|a l IH]; cbn; intros H; constructor.
  - apply andb_true_iff in H as [H _]. intros Hin.
    apply negb_true_iff in H. rewrite existsb_false in H. specialize (H a Hin).
    rewrite N.eqb_refl in H. discriminate.
  - apply IH. apply andb_true_iff in H as [_ H]; auto.
Qed.

Lemma find_key_in : forall {V} (l : list (N * V)) e,
  NoDup (map fst l) -> In e l -> find (fun e' => N.eqb (fst e') (fst e)) l = Some e.
Proof.
  induction l as [|a l IH]; cbn; intros e ND Hin; [contradiction|].
  inversion ND as [|? ? Hn ND']; subst.
  destruct Hin as [->|Hin].
  - rewrite N.eqb_refl. auto.
  - destruct (N.eqb (fst a) (fst e)) eqn:E.
    + apply N.eqb_eq in E. exfalso. apply Hn. rewrite E. apply in_map; auto.
    + apply IH; auto.
Qed.

Lemma table_in : forall st e, wf_state st = true -> In e (s_tabs st) -> table st (fst e) = snd e.
Proof.
  intros st e W Hin. unfold table. rewrite (find_key_in (s_tabs st) e); auto.
  apply nodup_N_spec; auto.
Qed.

Lemma find_class_in : forall g k, wf_graph g = true -> In k g -> find_class g (c_name k) = Some k.
Proof.
  intros g k W Hin. unfold find_class. apply nodup_N_spec in W.
  revert W Hin. induction g as [|a g IH]; cbn; intros ND Hin; [contradiction|].
  inversion ND as [|? ? Hn ND']; subst.
  destruct Hin as [->|Hin].
  - rewrite N.eqb_refl; auto.
  - destruct (N.eqb (c_name a) (c_name k)) eqn:E.
    + apply N.eqb_eq in E. exfalso. apply Hn. rewrite E. apply in_map; auto.
    + apply IH; auto.
Qed.

Lemma find_class_some : forall g n k, find_class g n = Some k -> In k g /\ c_name k = n.
Proof.
  unfold find_class; intros g n k H. apply find_some in H as [H1 H2]. apply N.eqb_eq in H2. auto.
Qed.

Lemma cols_of_in : forall g k, wf_graph g = true -> In k g -> cols_of g (c_name k) = c_fks k.
Proof. intros. unfold cols_of. rewrite find_class_in; auto. Qed.
Lemma joins_of_in : forall g k, wf_graph g = true -> In k g -> joins_of g (c_name k) = c_joins k.
Proof. intros. unfold joins_of. rewrite find_class_in; auto. Qed.

Lemma table_map_tabs : forall f st n, (forall k, f k [] = []) ->
  table (map_tabs f st) n = f n (table st n).
Proof.
  intros f st n Hnil. unfold table, map_tabs; cbn.
  induction (s_tabs st) as [|e l IH]; cbn; auto.
  destruct (N.eqb (fst e) n) eqn:E; auto. apply N.eqb_eq in E; subst; auto.
Qed.

Lemma map_tabs_fuse : forall f h st,
  map_tabs f (map_tabs h st) = map_tabs (fun n rs => f n (h n rs)) st.
Proof. intros; unfold map_tabs; cbn. rewrite map_map. reflexivity. Qed.

Lemma map_tabs_ext_in : forall f h st,
  (forall e, In e (s_tabs st) -> f (fst e) (snd e) = h (fst e) (snd e)) -> map_tabs f st = map_tabs h st.
Proof.
  intros f h st H. unfold map_tabs. f_equal. apply map_ext_in. intros e He. rewrite H; auto.
Qed.

Lemma wf_state_map_tabs : forall f st, wf_state (map_tabs f st) = wf_state st.
Proof. intros; unfold wf_state, map_tabs; cbn. rewrite map_map. cbn. reflexivity. Qed.

(* ---------------------------------------------------------------- apply *)
Section Apply.
Variable dc : bool.
Variable g : graph.
Notation ap := (apply dc g).

Definition keep (sg : sigma) (k : N) (r : row) : bool := negb (sg_del sg k (r_id r)).

Lemma table_apply : forall sg st n,
  table (ap sg st) n = map (null_row (sg_null sg n) (cols_of g n)) (filter (keep sg n) (table st n)).
Proof.
  intros sg st n. unfold table, apply; cbn.
  induction (s_tabs st) as [|e l IH]; cbn; auto.
  destruct (N.eqb (fst e) n) eqn:E; auto. apply N.eqb_eq in E; subst; auto.
Qed.

Lemma wf_state_apply : forall sg st, wf_state (ap sg st) = wf_state st.
Proof. intros; unfold wf_state, apply; cbn. rewrite map_map. cbn. reflexivity. Qed.

Lemma apply_empty : forall st, ap sg_empty st = st.
Proof.
  intros [tabs links cache]. unfold apply; cbn. f_equal.
  - apply map_id'. intros [k rs] _. cbn. f_equal.
    rewrite filter_all by auto. apply map_id'. intros [i vals] _. unfold null_row; cbn.
    rewrite null_vals_none; auto.
  - apply map_id'. intros [k rs] _. cbn. f_equal. apply filter_all; auto.
  - apply filter_all; auto.
Qed.

(* extensionality: only the SetNull columns of the holder class consult sg_null *)
Definition relevantb (k t : N) : bool :=
  existsb (fun c => is_setnull (fk_policy c) && N.eqb (fk_target c) t) (cols_of g k).

Lemma apply_ext : forall sg sg' st,
  (forall k i, sg_del sg k i = sg_del sg' k i) ->
  (forall k t y, relevantb k t = true -> sg_null sg k t y = sg_null sg' k t y) ->
  (forall t s y, sg_link sg t s y = sg_link sg' t s y) ->
  ap sg st = ap sg' st.
Proof.
  intros sg sg' st Hd Hn Hl. unfold apply. f_equal.
  - apply map_ext. intros [k rs]; cbn. f_equal.
    rewrite (filter_ext_in' _ (fun r => negb (sg_del sg' k (r_id r)))) by (intros; rewrite Hd; auto).
    apply map_ext. intros r. unfold null_row. f_equal.
    apply null_vals_ext. intros c y Hc Hs. apply Hn.
    unfold relevantb. apply existsb_exists. exists c. split; auto. rewrite Hs, N.eqb_refl; auto.
  - apply map_ext. intros [t ls]; cbn. f_equal. apply filter_ext_in'. intros p _. rewrite !Hl; auto.
  - apply filter_ext_in'. intros q _. rewrite Hd; auto.
Qed.

(* S1: DELETE FROM link table *)
Lemma step_delete_links : forall t0 s0 x sg st,
  sql_delete_links t0 s0 x (ap sg st) = ap (add_link t0 s0 x sg) st.
Proof.
  intros. unfold sql_delete_links, map_links, apply, add_link; cbn. f_equal.
  rewrite map_map. apply map_ext. intros [t ls]; cbn. f_equal.
  destruct (N.eqb t t0) eqn:E; cbn.
  - rewrite filter_filter'. apply filter_ext_in'. intros [a b] _; cbn.
    destruct s0; cbn; destruct (sg_link sg t false a), (sg_link sg t true b), (Z.eqb a x), (Z.eqb b x); reflexivity.
  - apply filter_ext_in'. intros [a b] _; cbn.
    destruct (sg_link sg t false a), (sg_link sg t true b); reflexivity.
Qed.

(* S2: DELETE FROM class table + cache.purge *)
Lemma step_delete_row : forall k0 x sg st,
  cache_purge dc (k0, x) (sql_delete_row k0 x (ap sg st)) = ap (add_del k0 x sg) st.
Proof.
  intros. unfold cache_purge, sql_delete_row, map_tabs, apply; cbn. f_equal.
  - rewrite map_map. apply map_ext. intros [k rs]; cbn. f_equal.
    destruct (N.eqb k k0) eqn:E; cbn.
    + rewrite filter_map'. cbn. rewrite filter_filter'. f_equal.
      apply filter_ext_in'. intros r _. rewrite negb_orb. auto.
    + f_equal. apply filter_ext_in'. intros r _. rewrite orb_false_r; auto.
  - rewrite filter_filter'. apply filter_ext_in'. intros [k i] _; cbn.
    rewrite negb_orb. unfold node_eqb; cbn. auto.
Qed.

(* S3: the SetNull pass *)
Definition nv (k : classdef) (name : N) (x : Z) : row -> row :=
  null_row (fun t y => N.eqb t name && Z.eqb y x) (c_fks k).

Lemma nv_idem : forall k name x r, nv k name x (nv k name x r) = nv k name x r.
Proof.
  intros. unfold nv. rewrite null_row_fuse.
  apply null_row_ext. intros. rewrite orb_diag. auto.
Qed.

Lemma fold_upd_rows : forall (f : row -> row) ids rs,
  (forall r, f (f r) = f r) -> (forall r, r_id (f r) = r_id r) ->
  (forall r, In r rs -> In (r_id r) ids \/ f r = r) ->
  fold_left (fun rs i => map (fun r => if Z.eqb (r_id r) i then f r else r) rs) ids rs = map f rs.
Proof.
  intros f ids; induction ids as [|i ids IH]; intros rs Hid Hpres H; cbn.
  - symmetry. apply map_id'. intros r Hr. destruct (H r Hr) as [[]|]; auto.
  - rewrite IH; auto.
    + rewrite map_map. apply map_ext. intros r. destruct (Z.eqb (r_id r) i); auto.
    + intros r' Hr'. apply in_map_iff in Hr' as [r [<- Hr]].
      destruct (Z.eqb (r_id r) i) eqn:E.
      * right. apply Hid.
      * destruct (H r Hr) as [[Hi|Hi]|Hf]; auto.
        apply Z.eqb_neq in E. congruence.
Qed.

Lemma nv_fix_nonmatching : forall k name x r,
  row_matches name x k r = false -> nv k name x r = r.
Proof.
  intros k name x [i vals]. unfold row_matches, nv, null_row; cbn. intros H. f_equal.
  revert vals H. induction (c_fks k) as [|c cs IH]; intros vals H; destruct vals as [|v vs]; cbn in *; auto.
  apply orb_false_iff in H as [H1 H2]. rewrite IH; auto. f_equal.
  destruct v as [y|]; auto.
  destruct (is_setnull (fk_policy c)) eqn:Es; cbn; auto.
  destruct (N.eqb (fk_target c) name) eqn:Et; cbn; auto.
  destruct (Z.eqb y x) eqn:Ey; cbn; auto.
  exfalso. unfold collected in H1. cbn in H1. rewrite Et, Ey in H1. cbn in H1.
  destruct (fk_policy c); cbn in *; discriminate.
Qed.

Lemma fold_null_state : forall k name x ids st,
  fold_left (fun s i => sql_null_row k name x i s) ids st =
  map_tabs (fun n rs => if N.eqb n (c_name k)
                        then fold_left (fun rs i => map (fun r => if Z.eqb (r_id r) i then nv k name x r else r) rs) ids rs
                        else rs) st.
Proof.
  intros k name x ids; induction ids as [|i ids IH]; intros st; cbn.
  - destruct st as [tabs links cache]; unfold map_tabs; cbn. f_equal.
    symmetry. apply map_id'. intros [n rs] _; cbn. destruct (N.eqb n (c_name k)); auto.
  - rewrite IH. unfold sql_null_row at 1. rewrite map_tabs_fuse. apply map_tabs_ext_in.
    intros e _. destruct (N.eqb (fst e) (c_name k)); auto.
Qed.

Lemma step_null_pass : forall k name x sg st,
  wf_state st = true -> cols_of g (c_name k) = c_fks k ->
  fold_left (fun s r => sql_null_row k name x (r_id r) s) (select_matching name x k (ap sg st)) (ap sg st)
  = ap (add_null (c_name k) name x sg) st.
Proof.
  intros k name x sg st W Hcols.
  rewrite (fold_left_map' (fun s i => sql_null_row k name x i s) r_id).
  rewrite fold_null_state.
  set (cur := ap sg st).
  assert (Wc : wf_state cur = true) by (unfold cur; rewrite wf_state_apply; auto).
  transitivity (map_tabs (fun n rs => if N.eqb n (c_name k) then map (nv k name x) rs else rs) cur).
  - apply map_tabs_ext_in. intros e He.
    destruct (N.eqb (fst e) (c_name k)) eqn:E; auto.
    apply N.eqb_eq in E.
    apply fold_upd_rows.
    + apply nv_idem.
    + reflexivity.
    + intros r Hr.
      destruct (row_matches name x k r) eqn:Em.
      * left. apply in_map. unfold select_matching. apply filter_In. split; auto.
        rewrite <- E. rewrite (table_in cur e); auto.
      * right. apply nv_fix_nonmatching; auto.
  - unfold cur, map_tabs, apply; cbn. f_equal. rewrite map_map. apply map_ext. intros [n rs]; cbn. f_equal.
    destruct (N.eqb n (c_name k)) eqn:E.
    + apply N.eqb_eq in E. subst n. rewrite map_map. apply map_ext. intros r.
      unfold nv. rewrite Hcols. rewrite null_row_fuse.
      apply null_row_ext. intros c y _ _. cbn. rewrite ?N.eqb_refl. auto.
    + apply map_ext. intros r. apply null_row_ext. intros c y _ _. cbn. rewrite ?E.
      rewrite orb_false_r. auto.
Qed.

End Apply.
