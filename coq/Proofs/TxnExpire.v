(* What instance.expire() does, and the loop `for id in ids: inst = cache.tryGet(id);
   if inst is not None: inst.expire()` that Transaction.commit runs over the
   parent's cache and Transaction.rollback over its own. *)
From Coq Require Import List ZArith Bool Lia ZifyBool.
From Model Require Import Txn.
From Proofs Require Import TxnBase TxnFoot TxnFrame TxnInv.
Import ListNotations.
Open Scope Z_scope.

Lemma forallb_none_map {X} (l : list X) :
  forallb (fun v : option val => match v with None => true | Some _ => false end) (map (fun _ => None) l) = true.
Proof. induction l; cbn; auto. Qed.

(* ------------------------------------------------------------------ what an expire loop can change *)
Definition Rexp (sd : side) (s s' : st) : Prop :=
  slots s' = slots s /\ committed s' = committed s /\ pending s' = pending s /\ deleted s' = deleted s /\
  tobs s' = tobs s /\ log s' = log s /\ cn s' (other sd) = cn s (other sd) /\
  length (heap (cn s' sd)) = length (heap (cn s sd)) /\
  (forall o, i_id (get_inst s' sd o) = i_id (get_inst s sd o) /\ i_obsolete (get_inst s' sd o) = i_obsolete (get_inst s sd o)) /\
  (forall o, get_inst s' sd o = get_inst s sd o \/
             (no_vals (get_inst s' sd o) = true /\ i_expired (get_inst s' sd o) = true)) /\
  (forall e, In e (c_strong (cch s' sd)) -> In e (c_strong (cch s sd))).

Lemma Rexp_refl sd s : Rexp sd s s.
Proof. unfold Rexp. repeat split; auto. Qed.

Lemma Rexp_trans sd a b c : Rexp sd a b -> Rexp sd b c -> Rexp sd a c.
Proof.
  intros (A1 & A2 & A3 & A4 & A5 & A6 & A7 & A8 & A9 & A10 & A11) (B1 & B2 & B3 & B4 & B5 & B6 & B7 & B8 & B9 & B10 & B11).
  unfold Rexp. repeat (split; [congruence|]). split; [|split].
  - intros o. destruct (A9 o), (B9 o). split; congruence.
  - intros o. destruct (B10 o) as [E|(E2 & E3)].
    + rewrite E. apply A10.
    + right. auto.
  - intros e H. apply A11, B11, H.
Qed.

Lemma alive_mono sd s s' o :
  slots s' = slots s -> (forall e, In e (c_strong (cch s' sd)) -> In e (c_strong (cch s sd))) ->
  alive s' sd [] o = true -> alive s sd [] o = true.
Proof.
  intros Hs Hc. unfold alive, slot_refs. rewrite Hs. cbn [mem_nat orb]. rewrite !orb_true_iff, !mem_nat_In.
  intros [H|H]; [left; exact H|]. right. apply in_map_iff in H. destruct H as [e [E1 E2]]. apply in_map_iff. exists e. auto.
Qed.

(* ------------------------------------------------------------------ tryGet when the cache loses the entries of one id *)
Lemma mem_strong_purge id' o (strong : list (Z * nat)) :
  (forall k, In (k, o) strong -> k <> id') ->
  mem_nat o (map snd (assoc_remove id' strong)) = mem_nat o (map snd strong).
Proof.
  intros H. apply eq_true_iff_eq. rewrite !mem_nat_In, !in_map_iff. split; intros [[k x] [E1 E2]]; cbn in E1; subst x.
  - exists (k, o). split; [reflexivity|]. apply In_assoc_remove in E2. tauto.
  - exists (k, o). split; [reflexivity|]. apply In_assoc_remove_intro; [exact E2|]. cbn. apply H. exact E2.
Qed.

Section TryGet.
Variable cfg : config.

Lemma try_get_same s s' sd :
  slots s' = slots s -> c_strong (cch s' sd) = c_strong (cch s sd) -> c_weak (cch s' sd) = c_weak (cch s sd) ->
  forall id, try_get cfg s' sd id = try_get cfg s sd id.
Proof. intros H1 H2 H3 id. unfold try_get, alive, slot_refs. rewrite H1, H2, H3. reflexivity. Qed.

Lemma try_get_known s sd id o : cache_ok s sd -> try_get cfg s sd id = Some o -> known s sd o id.
Proof.
  intros Hc. unfold try_get.
  destruct (assoc id (c_weak (cch s sd))) as [ow|] eqn:E1.
  - destruct (alive s sd [] ow).
    + intros H. inversion H; subst. apply Hc. unfold entries. apply in_or_app. right. apply assoc_In. exact E1.
    + destruct (doCache cfg); [|discriminate]. intros H. apply Hc. unfold entries. apply in_or_app. left. apply assoc_In. exact H.
  - destruct (doCache cfg); [|discriminate]. intros H. apply Hc. unfold entries. apply in_or_app. left. apply assoc_In. exact H.
Qed.

Lemma try_get_purge s s' sd id' :
  cache_ok s sd -> slots s' = slots s ->
  c_strong (cch s' sd) = assoc_remove id' (c_strong (cch s sd)) ->
  c_weak (cch s' sd) = assoc_remove id' (c_weak (cch s sd)) ->
  (forall id2, id2 <> id' -> try_get cfg s' sd id2 = try_get cfg s sd id2) /\ try_get cfg s' sd id' = None.
Proof.
  intros Hc H1 H2 H3. split.
  - intros id2 Hne. unfold try_get. rewrite H2, H3. rewrite !assoc_remove_other by congruence.
    destruct (assoc id2 (c_weak (cch s sd))) as [ow|] eqn:E1; [|reflexivity].
    assert (Hk : known s sd ow id2) by (apply Hc; unfold entries; apply in_or_app; right; apply assoc_In; exact E1).
    assert (Ha : alive s' sd [] ow = alive s sd [] ow).
    { unfold alive, slot_refs. rewrite H1, H2. f_equal. apply mem_strong_purge.
      intros k Hin. assert (Hk2 : known s sd ow k) by (apply Hc; unfold entries; apply in_or_app; left; exact Hin).
      destruct Hk as [_ Hk], Hk2 as [_ Hk2]. congruence. }
    rewrite Ha. reflexivity.
  - unfold try_get. rewrite H2, H3, !assoc_remove_same. destruct (doCache cfg); reflexivity.
Qed.

(* ------------------------------------------------------------------ one expire() *)
Lemma get_inst_with_heap s sd h o : get_inst (with_heap s sd h) sd o = nth o h (blank_inst 0).
Proof. unfold get_inst. rewrite heap_with_heap, side_eqb_refl. reflexivity. Qed.

Lemma so_expire_eq sd o s :
  so_expire cfg sd o s =
   let i := get_inst s sd o in
   let s1 := with_heap s sd (set_nth o (i_with_pending (i_with_vals i (map (fun _ => None) (i_vals i))) (no_queue (i_pending i))) (heap (cn s sd))) in
   if i_expired i then (Ret tt, s1) else
   let s2 := with_heap s1 sd (set_nth o (i_with_expired (get_inst s1 sd o) true) (heap (cn s1 sd))) in
   cache_expire cfg sd (i_id i) s2.
Proof.
  unfold so_expire, bind, gets. cbv beta iota zeta.
  unfold upd_inst at 1. unfold modify. cbv beta iota zeta.
  destruct (i_expired (get_inst s sd o)); [reflexivity|].
  unfold bind, upd_inst, modify. cbv beta iota zeta. reflexivity.
Qed.
Lemma cache_expire_eq sd id s :
  cache_expire cfg sd id s =
    let c := cch s sd in
    if negb (doCache cfg) || negb (c_present c) then (Ret tt, s)
    else (Ret tt, with_cch s sd (c_with (assoc_remove id (c_strong c)) (assoc_remove id (c_weak c)) (c_count c) (c_offset c))).
Proof.
  unfold cache_expire, bind, gets. cbv beta iota zeta.
  destruct (negb (doCache cfg) || negb (c_present (cch s sd))); reflexivity.
Qed.

Lemma so_expire_step sd o s :
  (o < length (heap (cn s sd)))%nat ->
  let i := get_inst s sd o in
  exists s', so_expire cfg sd o s = (Ret tt, s') /\
    Rexp sd s s' /\
    (forall o', o' <> o -> get_inst s' sd o' = get_inst s sd o') /\
    (no_vals (get_inst s' sd o) = true /\ i_expired (get_inst s' sd o) = true /\
       ((doCache cfg && c_present (cch s sd) = true /\
         c_strong (cch s' sd) = assoc_remove (i_id i) (c_strong (cch s sd)) /\
         c_weak (cch s' sd) = assoc_remove (i_id i) (c_weak (cch s sd))) \/
        (c_strong (cch s' sd) = c_strong (cch s sd) /\ c_weak (cch s' sd) = c_weak (cch s sd)))).
Proof.
  intros Ho i. rewrite so_expire_eq. cbv zeta. fold i.
  - set (i1 := i_with_pending (i_with_vals i (map (fun _ => None) (i_vals i))) (no_queue (i_pending i))).
    set (h1 := set_nth o i1 (heap (cn s sd))).
    set (s1 := with_heap s sd h1).
    assert (G1 : get_inst s1 sd o = i1).
    { unfold s1. rewrite get_inst_with_heap. unfold h1. apply nth_set_nth_same. exact Ho. }
    destruct (i_expired i) eqn:Ee.
    { (* flagged already: only the attributes go *)
      assert (G0 : forall o', get_inst s1 sd o' = if Nat.eqb o' o then i1 else get_inst s sd o').
      { intros o'. unfold s1. rewrite get_inst_with_heap. unfold h1. destruct (Nat.eqb o' o) eqn:E.
        - apply Nat.eqb_eq in E. subst o'. apply nth_set_nth_same. exact Ho.
        - apply Nat.eqb_neq in E. rewrite nth_set_nth_other by congruence. reflexivity. }
      exists s1. split; [reflexivity|]. split; [|split].
      - unfold Rexp. unfold s1. repeat (split; [destruct sd; reflexivity|]). split; [|split; [|split]].
        + rewrite heap_with_heap, side_eqb_refl. unfold h1. apply length_set_nth.
        + intros o'. fold s1. rewrite G0. destruct (Nat.eqb o' o) eqn:E; [|auto]. apply Nat.eqb_eq in E. subst o'. split; reflexivity.
        + intros o'. fold s1. rewrite G0. destruct (Nat.eqb o' o) eqn:E; [|auto]. apply Nat.eqb_eq in E. subst o'. right.
          split; [unfold no_vals, i1; cbn; apply forallb_none_map|exact Ee].
        + rewrite cch_with_heap. auto.
      - intros o' Hne. rewrite G0. apply Nat.eqb_neq in Hne. rewrite Hne. reflexivity.
      - rewrite G1. split; [unfold no_vals, i1; cbn; apply forallb_none_map|]. split; [exact Ee|].
        right. unfold s1. rewrite cch_with_heap. auto. }
    rewrite G1.
    set (i2 := i_with_expired i1 true).
    assert (Hh1 : heap (cn s1 sd) = h1) by (unfold s1; rewrite heap_with_heap, side_eqb_refl; reflexivity).
    rewrite Hh1.
    set (h2 := set_nth o i2 h1).
    set (s2 := with_heap s1 sd h2).
    assert (L2 : length h2 = length (heap (cn s sd))) by (unfold h2, h1; rewrite !length_set_nth; reflexivity).
    assert (G2 : forall o', nth o' h2 (blank_inst 0) = if Nat.eqb o' o then i2 else get_inst s sd o').
    { intros o'. unfold h2. destruct (Nat.eqb o' o) eqn:E.
      - apply Nat.eqb_eq in E. subst o'. apply nth_set_nth_same. unfold h1. rewrite length_set_nth. exact Ho.
      - apply Nat.eqb_neq in E. rewrite nth_set_nth_other by congruence. unfold h1. rewrite nth_set_nth_other by congruence. reflexivity. }
    assert (C2 : cch s2 sd = cch s sd) by (unfold s2, s1; rewrite !cch_with_heap; reflexivity).
    assert (Hobs : forall o', i_id (if Nat.eqb o' o then i2 else get_inst s sd o') = i_id (get_inst s sd o') /\
                              i_obsolete (if Nat.eqb o' o then i2 else get_inst s sd o') = i_obsolete (get_inst s sd o')).
    { intros o'. destruct (Nat.eqb o' o) eqn:E; [|auto]. apply Nat.eqb_eq in E. subst o'. split; reflexivity. }
    assert (Hvals : forall o', (if Nat.eqb o' o then i2 else get_inst s sd o') = get_inst s sd o' \/
                      (no_vals (if Nat.eqb o' o then i2 else get_inst s sd o') = true /\
                       i_expired (if Nat.eqb o' o then i2 else get_inst s sd o') = true)).
    { intros o'. destruct (Nat.eqb o' o) eqn:E; [|auto]. apply Nat.eqb_eq in E. subst o'. right.
      split; [|reflexivity]. unfold no_vals, i2, i1. cbn. apply forallb_none_map. }
    assert (R2 : Rexp sd s s2 /\ (forall o', get_inst s2 sd o' = if Nat.eqb o' o then i2 else get_inst s sd o')).
    { split.
      - unfold Rexp. unfold s2, s1. repeat (split; [destruct sd; reflexivity|]). split; [|split; [|split]].
        + rewrite heap_with_heap, side_eqb_refl. exact L2.
        + intros o'. rewrite get_inst_with_heap, G2. apply Hobs.
        + intros o'. rewrite get_inst_with_heap, G2. apply Hvals.
        + fold s1. fold s2. rewrite C2. auto.
      - intros o'. unfold s2. rewrite get_inst_with_heap. apply G2. }
    destruct R2 as [R2 G3].
    rewrite cache_expire_eq. cbv zeta. rewrite C2.
    destruct (negb (doCache cfg) || negb (c_present (cch s sd))) eqn:Ed.
    + exists s2. split; [reflexivity|]. split; [exact R2|]. split.
      * intros o' Hne. rewrite G3. apply Nat.eqb_neq in Hne. rewrite Hne. reflexivity.
      * rewrite G3, Nat.eqb_refl. split; [|split; [reflexivity|]].
        -- unfold no_vals, i2, i1. cbn. apply forallb_none_map.
        -- right. rewrite C2. auto.
    + set (c3 := c_with (assoc_remove (i_id i) (c_strong (cch s sd))) (assoc_remove (i_id i) (c_weak (cch s sd)))
                        (c_count (cch s sd)) (c_offset (cch s sd))).
      assert (G4 : forall o', get_inst (with_cch s2 sd c3) sd o' = get_inst s2 sd o').
      { intros o'. unfold get_inst. rewrite heap_with_cch. reflexivity. }
      exists (with_cch s2 sd c3). split; [reflexivity|]. split; [|split].
      * eapply Rexp_trans; [exact R2|].
        unfold Rexp. repeat (split; [destruct sd; reflexivity|]). split; [|split].
        -- intros o'. rewrite G4. auto.
        -- intros o'. rewrite G4. auto.
        -- rewrite cch_with_cch. cbn. rewrite C2. intros e He. apply In_assoc_remove in He. tauto.
      * intros o' Hne. rewrite G4, G3. apply Nat.eqb_neq in Hne. rewrite Hne. reflexivity.
      * rewrite G4, G3, Nat.eqb_refl. split; [|split; [reflexivity|]].
        -- unfold no_vals, i2, i1. cbn. apply forallb_none_map.
        -- left. rewrite cch_with_cch. cbn. split; [|auto].
           destruct (doCache cfg), (c_present (cch s sd)); cbn in *; auto; discriminate.
Qed.

(* ------------------------------------------------------------------ the loop *)
Definition visited (s : st) (sd : side) (ids : list Z) (o : nat) : Prop :=
  exists id, In id ids /\ try_get cfg s sd id = Some o.

Lemma expire_ids_spec sd : forall ids s,
  cache_ok s sd ->
  exists s', expire_ids cfg sd ids s = (Ret tt, s') /\ Rexp sd s s' /\ cache_ok s' sd /\
    (forall o, visited s sd ids o -> no_vals (get_inst s' sd o) = true) /\
    (forall o, ~ visited s sd ids o -> get_inst s' sd o = get_inst s sd o).
Proof.
  induction ids as [|id rest IH]; intros s Hc.
  - exists s. cbn. split; [reflexivity|]. split; [apply Rexp_refl|]. split; [exact Hc|]. split.
    + intros o [id [[] _]].
    + reflexivity.
  - cbn [expire_ids]. unfold bind at 1. unfold gets at 1. cbn.
    destruct (try_get cfg s sd id) as [o1|] eqn:Et.
    + (* an instance is found and expired *)
      pose proof (try_get_known s sd id o1 Hc Et) as [Hb Hid].
      destruct (so_expire_step sd o1 s Hb) as (s1 & E1 & R1 & F1 & Y1).
      unfold bind at 1. rewrite E1.
      assert (Hc1 : cache_ok s1 sd).
      { pose proof (ok_so_expire cfg sd o1 s Hc) as H. rewrite E1 in H. exact H. }
      (* tryGet after this expire *)
      assert (T : (forall id2, id2 <> id -> try_get cfg s1 sd id2 = try_get cfg s sd id2) /\
                  (try_get cfg s1 sd id = None \/ try_get cfg s1 sd id = Some o1)).
      { destruct Y1 as (_ & _ & [(_ & P1 & P2)|(P1 & P2)]).
        - rewrite Hid in P1, P2. destruct R1 as (Rs & _).
          destruct (try_get_purge s s1 sd id Hc Rs P1 P2) as [Q1 Q2]. split; auto.
        - destruct R1 as (Rs & _). split; [intros; apply try_get_same; auto|]. right. rewrite <- Et. apply try_get_same; auto. }
      destruct T as [T1 T2].
      destruct (IH s1 Hc1) as (s' & E' & R' & C' & V' & N').
      exists s'. split; [exact E'|]. split; [eapply Rexp_trans; eauto|]. split; [exact C'|]. split.
      * intros o [id2 [Hin Ht2]].
        destruct (Nat.eq_dec o o1) as [->|Hne].
        -- (* this very instance: expired now, whatever happens later *)
           destruct Y1 as (Z1 & Z2 & _).
           destruct R' as (_ & _ & _ & _ & _ & _ & _ & _ & _ & R10 & _). destruct (R10 o1) as [E|(E & _)]; [rewrite E; exact Z1|exact E].
        -- assert (Hne2 : id2 <> id) by (intros ->; rewrite Et in Ht2; inversion Ht2; congruence).
           destruct Hin as [->|Hin]; [congruence|].
           apply V'. exists id2. split; [exact Hin|]. rewrite T1 by exact Hne2. exact Ht2.
      * intros o Hnv.
        assert (Hne : o <> o1) by (intros ->; apply Hnv; exists id; split; [left; reflexivity|exact Et]).
        rewrite <- (F1 o Hne). apply N'. intros [id2 [Hin Ht2]]. apply Hnv.
        destruct (Z.eq_dec id2 id) as [->|Hne2].
        -- destruct T2 as [T2|T2]; rewrite T2 in Ht2; [discriminate|]. inversion Ht2; congruence.
        -- exists id2. split; [right; exact Hin|]. rewrite <- T1 by exact Hne2. exact Ht2.
    + (* nothing cached under this id *)
      unfold bind at 1. cbn.
      destruct (IH s Hc) as (s' & E' & R' & C' & V' & N').
      exists s'. split; [exact E'|]. split; [exact R'|]. split; [exact C'|]. split.
      * intros o [id2 [Hin Ht2]]. apply V'.
        destruct Hin as [->|Hin]; [congruence|]. exists id2. auto.
      * intros o Hnv. apply N'. intros [id2 [Hin Ht2]]. apply Hnv. exists id2. split; [right; exact Hin|exact Ht2].
Qed.
End TryGet.
