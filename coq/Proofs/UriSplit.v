(* How the urllib model cuts a text of the form
     name "://" netloc tail
   (tail empty or starting with / ? #), and what _parseURI makes of it. *)
From Coq Require Import List NArith ZArith Bool Lia ZifyBool.
From Lib Require Import UriPy.
From Gen Require Import Uri.
From Model Require Import Uri.
From Proofs Require Import UriLists UriQuote.
Import ListNotations.
Open Scope N_scope.

(* like netloc_char, but brackets may occur (they are judged by bracket_stage) *)
Definition netloc_char0 (c : N) : bool := is_ascii c && negb (is_netloc_end c) && negb (is_tcn c).

Ltac chars2 := unfold netloc_char0, netloc_char, port_char, host_char, ip6_char, path_char, unreserved_or_pct in *; chars.

Lemma scheme_char_not_colon c : scheme_char c = true -> negb (c =? 58) = true.
Proof. chars. lia. Qed.
Lemma scheme_char_not_tcn c : scheme_char c = true -> negb (is_tcn c) = true.
Proof. chars. lia. Qed.
Lemma netloc_char_not_tcn c : netloc_char0 c = true -> negb (is_tcn c) = true.
Proof. chars2. lia. Qed.
Lemma netloc_char_not_end c : netloc_char0 c = true -> negb (is_netloc_end c) = true.
Proof. chars2. lia. Qed.
Lemma netloc_char_ascii c : netloc_char0 c = true -> is_ascii c = true.
Proof. chars2. lia. Qed.
Lemma netloc_char_0 c : netloc_char c = true -> netloc_char0 c = true.
Proof. chars2. lia. Qed.

Lemma valid_scheme_inv name :
  valid_scheme name = true ->
  exists c r, name = c :: r /\ is_alpha c = true /\ forallb scheme_char (c :: r) = true.
Proof.
  destruct name as [|c r]; cbn [valid_scheme]; [discriminate|].
  rewrite andb_true_iff. intros [H1 H2]. eauto.
Qed.

Lemma split_scheme_app name rest :
  valid_scheme name = true -> split_scheme (name ++ 58 :: rest) = (lower_ascii name, rest).
Proof.
  intros Hv. destruct (valid_scheme_inv _ Hv) as (c & r & -> & Ha & Hs).
  unfold split_scheme. rewrite partition_at_app.
  - rewrite Ha, Hs. reflexivity.
  - eapply forallb_imp; [|exact Hs]. apply scheme_char_not_colon.
Qed.

Lemma span_until_all p a :
  forallb (fun c => negb (p c)) a = true -> span_until p a = (a, []).
Proof.
  induction a as [|c a IH]; cbn [forallb span_until]; [reflexivity|].
  rewrite andb_true_iff. intros [Hc Ha]. destruct (p c); [discriminate|]. rewrite (IH Ha). reflexivity.
Qed.

Lemma span_netloc netloc tail :
  forallb netloc_char0 netloc = true -> tail_ok tail = true ->
  span_until is_netloc_end (netloc ++ tail) = (netloc, tail).
Proof.
  intros Hn Ht. assert (Hn' : forallb (fun c => negb (is_netloc_end c)) netloc = true).
  { eapply forallb_imp; [|exact Hn]. apply netloc_char_not_end. }
  destruct tail as [|t tail].
  - rewrite app_nil_r. apply span_until_all, Hn'.
  - apply span_until_app; assumption.
Qed.

Lemma netloc_no_bracket netloc :
  forallb netloc_char netloc = true -> chr_in 91 netloc = false /\ chr_in 93 netloc = false.
Proof.
  intros Hn. split; apply chr_in_nochar; (eapply forallb_imp; [|exact Hn]); intros c; chars2; lia.
Qed.

Lemma bracket_stage_plain netloc : forallb netloc_char netloc = true -> bracket_stage netloc = true.
Proof.
  intros Hn. destruct (netloc_no_bracket _ Hn) as [H1 H2]. unfold bracket_stage. rewrite H1, H2. reflexivity.
Qed.

Definition mk_split (scheme netloc tail : str) : split5 :=
  let '(p, q, f) := split_query_fragment tail in
  {| sp_scheme := scheme; sp_netloc := netloc; sp_path := p; sp_query := q; sp_fragment := f |}.

Lemma urlsplit_clean_shape name netloc tail :
  valid_scheme name = true -> forallb netloc_char0 netloc = true -> bracket_stage netloc = true ->
  tail_ok tail = true ->
  urlsplit_clean (name ++ 58 :: 47 :: 47 :: netloc ++ tail) = ROk (mk_split (lower_ascii name) netloc tail).
Proof.
  intros Hv Hn Hb Ht. unfold urlsplit_clean, mk_split. rewrite (split_scheme_app _ _ Hv).
  rewrite (span_netloc _ _ Hn Ht). rewrite Hb. cbn [negb].
  destruct (split_query_fragment tail) as [[p q] f].
  replace (forallb is_ascii netloc) with true; [reflexivity|].
  symmetry. eapply forallb_imp; [|exact Hn]. apply netloc_char_ascii.
Qed.

Lemma remove_tcn_app a b : remove_tcn (a ++ b) = remove_tcn a ++ remove_tcn b.
Proof. apply filter_app. Qed.

Lemma remove_tcn_id a : forallb (fun c => negb (is_tcn c)) a = true -> remove_tcn a = a.
Proof. apply filter_id. Qed.

Lemma tail_ok_remove tail : tail_ok tail = true -> tail_ok (remove_tcn tail) = true.
Proof.
  destruct tail as [|c t]; [reflexivity|]. cbn [tail_ok remove_tcn filter]. intros Hc.
  replace (negb (is_tcn c)) with true by (revert Hc; chars; lia). exact Hc.
Qed.

Lemma urlsplit_shape name netloc tail :
  valid_scheme name = true -> forallb netloc_char0 netloc = true -> bracket_stage netloc = true ->
  tail_ok tail = true ->
  urlsplit (name ++ 58 :: 47 :: 47 :: netloc ++ tail)
  = ROk (mk_split (lower_ascii name) netloc (remove_tcn tail)).
Proof.
  intros Hv Hn Hb Ht. unfold urlsplit.
  destruct (valid_scheme_inv _ Hv) as (c & r & E & Ha & Hs).
  assert (Hl : lstrip_c0 (name ++ 58 :: 47 :: 47 :: netloc ++ tail) = name ++ 58 :: 47 :: 47 :: netloc ++ tail).
  { rewrite E. cbn [app lstrip_c0]. replace (c <=? 32) with false; [reflexivity|]. revert Ha. chars. lia. }
  rewrite Hl.
  replace (name ++ 58 :: 47 :: 47 :: netloc ++ tail) with ((name ++ 58 :: 47 :: 47 :: netloc) ++ tail)
    by (rewrite <- app_assoc; reflexivity).
  rewrite remove_tcn_app, remove_tcn_id.
  - rewrite <- app_assoc. cbn [app]. apply urlsplit_clean_shape; [assumption|assumption|assumption|apply tail_ok_remove, Ht].
  - rewrite forallb_app. cbn [forallb]. rewrite andb_true_iff. split.
    + rewrite <- E in Hs. eapply forallb_imp; [|exact Hs]. apply scheme_char_not_tcn.
    + cbn [negb is_tcn N.eqb orb andb]. eapply forallb_imp; [|exact Hn]. apply netloc_char_not_tcn.
Qed.

(* ------------------------------------------------------------------ _parseURI on such a text *)
Lemma parse_uri_err nt name netloc tail e :
  valid_scheme name = true -> forallb netloc_char0 netloc = true -> bracket_stage netloc = true ->
  tail_ok tail = true -> checked_port netloc = RErr e ->
  parse_uri nt (name ++ 58 :: 47 :: 47 :: netloc ++ tail) = RErr e.
Proof.
  intros Hv Hn Hb Ht He. unfold parse_uri, urlparse. rewrite (urlsplit_shape _ _ _ Hv Hn Hb Ht).
  unfold mk_split. destruct (split_query_fragment (remove_tcn tail)) as [[p q] f]. cbn [rbind sp_scheme sp_path].
  match goal with |- context [if ?b then _ else _] => destruct b end.
  - destruct (splitparams p) as [pp pa]. cbn [rbind p_netloc sp_netloc]. rewrite He. reflexivity.
  - cbn [rbind p_netloc sp_netloc]. rewrite He. reflexivity.
Qed.

(* a path without '?', '#', ';' and tab/CR/LF *)
Definition pathq_ok (c : N) : bool := negb (c =? 35) && negb (c =? 63) && negb (c =? 59) && negb (is_tcn c).

Lemma split_qf_path path :
  forallb pathq_ok path = true -> split_query_fragment (47 :: path) = (47 :: path, [], []).
Proof.
  intros Hp. unfold split_query_fragment.
  rewrite (partition_at_none 35 (47 :: path)).
  - rewrite (partition_at_none 63 (47 :: path)); [reflexivity|].
    rewrite nochar_cons. cbn [N.eqb negb andb]. eapply forallb_imp; [|exact Hp]. intros c. unfold pathq_ok. chars. lia.
  - rewrite nochar_cons. cbn [N.eqb negb andb]. eapply forallb_imp; [|exact Hp]. intros c. unfold pathq_ok. chars. lia.
Qed.

Definition parsed_of (netloc path : str) (po : option N) : pres :=
  {| r_user := unquote_if_truthy (fst (userinfo netloc));
     r_pw := unquote_if_truthy (snd (userinfo netloc));
     r_host := hostname netloc;
     r_port := po;
     r_path := unquote (47 :: path);
     r_args := [] |}.

Lemma parse_uri_ok name netloc path :
  valid_scheme name = true -> forallb netloc_char0 netloc = true -> bracket_stage netloc = true ->
  forallb pathq_ok path = true ->
  parse_uri false (name ++ 58 :: 47 :: 47 :: netloc ++ 47 :: path)
  = (po <~ checked_port netloc ;; ROk (parsed_of netloc path po)).
Proof.
  intros Hv Hn Hb Hp. unfold parse_uri, urlparse. rewrite (urlsplit_shape name netloc (47 :: path) Hv Hn Hb eq_refl).
  rewrite remove_tcn_id.
  2:{ cbn [forallb is_tcn N.eqb orb negb andb]. eapply forallb_imp; [|exact Hp]. intros c. unfold pathq_ok. chars. lia. }
  unfold mk_split. rewrite (split_qf_path _ Hp). cbn [rbind sp_scheme sp_path sp_netloc sp_query sp_fragment].
  replace (chr_in 59 (47 :: path)) with false.
  2:{ symmetry. apply chr_in_nochar. rewrite nochar_cons. cbn [N.eqb negb andb].
      eapply forallb_imp; [|exact Hp]. intros c. unfold pathq_ok. chars. lia. }
  rewrite andb_false_r. cbn [rbind p_netloc p_path p_query is_nil]. reflexivity.
Qed.
