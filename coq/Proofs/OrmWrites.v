(* C06 and C16: what a write does when it fails / when it flushes, by symbolic
   execution of the model. *)
From Coq Require Import List ZArith Bool Lia ZifyBool.
From Model Require Import Orm.
From Proofs Require Import OrmBase.
Import ListNotations.
Open Scope Z_scope.

(* everything an application can observe, except the statement log of the step *)
Definition same_visible (s s' : st) : Prop :=
  heap s' = heap s /\ tables s' = tables s /\ caches s' = caches s /\ pickles s' = pickles s.

Lemma same_visible_refl s : same_visible s s.
Proof. repeat split. Qed.

(* frame facts of the database primitives: a raising statement changes nothing but the log *)
Definition only_log (s s' : st) : Prop :=
  heap s' = heap s /\ slots s' = slots s /\ tables s' = tables s /\ caches s' = caches s /\
  pickles s' = pickles s /\ fault s' = fault s.

Lemma only_log_refl s : only_log s s.
Proof. repeat split. Qed.
Lemma only_log_trans a b c : only_log a b -> only_log b c -> only_log a c.
Proof. unfold only_log. intros (?&?&?&?&?&?) (?&?&?&?&?&?). repeat split; congruence. Qed.

(* "raising leaves everything but the log alone" *)
Definition raise_clean {A} (m : M A) : Prop :=
  forall s e s', m s = (Raise e, s') -> only_log s s'.

Lemma rc_ret {A} (a : A) : raise_clean (ret a).
Proof. intros s e s' H. discriminate. Qed.
Lemma rc_raise {A} e0 : raise_clean (@raise A e0).
Proof. intros s e s' H. inversion H; subst. apply only_log_refl. Qed.
Lemma rc_gets {A} (f : st -> A) : raise_clean (gets f).
Proof. intros s e s' H. discriminate. Qed.

Lemma rc_statement q : raise_clean (statement q).
Proof.
  intros s e s' H. unfold statement in H.
  destruct (fault s) as [n|]; [destruct (Nat.eqb n (length (log s)))|]; inversion H; subst; repeat split.
Qed.

(* a computation that, when it returns, has changed only the log *)
Definition ret_only_log {A} (m : M A) : Prop :=
  forall s a s', m s = (Ret a, s') -> only_log s s'.

Lemma rol_statement q : ret_only_log (statement q).
Proof.
  intros s a s' H. unfold statement in H.
  destruct (fault s) as [n|]; [destruct (Nat.eqb n (length (log s)))|]; inversion H; subst; repeat split.
Qed.
Lemma rol_gets {A} (f : st -> A) : ret_only_log (gets f).
Proof. intros s a s' H. inversion H; subst. apply only_log_refl. Qed.
Lemma rol_ret {A} (x : A) : ret_only_log (ret x).
Proof. intros s a s' H. inversion H; subst. apply only_log_refl. Qed.

(* sequencing: if the first part only touches the log when it returns, and both parts are clean on raise *)
Lemma rc_bind {A B} (m : M A) (f : A -> M B) :
  raise_clean m -> ret_only_log m -> (forall a, raise_clean (f a)) -> raise_clean (bind m f).
Proof.
  intros Hm Hr Hf s e s' H. unfold bind in H. destruct (m s) as [[a|e0] s1] eqn:Em.
  - eapply only_log_trans; [eapply Hr; eauto|eapply Hf; eauto].
  - inversion H; subst. eapply Hm; eauto.
Qed.
Lemma rol_bind {A B} (m : M A) (f : A -> M B) :
  ret_only_log m -> (forall a, ret_only_log (f a)) -> ret_only_log (bind m f).
Proof.
  intros Hm Hf s b s' H. unfold bind in H. destruct (m s) as [[a|e0] s1] eqn:Em; [|discriminate].
  eapply only_log_trans; [eapply Hm; eauto|eapply Hf; eauto].
Qed.

Lemma rc_validate v : raise_clean (validate v).
Proof. destruct v; cbn; [apply rc_ret|apply rc_ret|apply rc_raise]. Qed.
Lemma rol_validate v : ret_only_log (validate v).
Proof. destruct v; cbn; try apply rol_ret. intros s a s' H. discriminate. Qed.
Lemma rc_validate_all kvs : raise_clean (validate_all kvs).
Proof.
  induction kvs as [|[c v] r IH]; cbn [validate_all]; [apply rc_ret|].
  apply rc_bind; [apply rc_validate|apply rol_validate|intros; exact IH].
Qed.
Lemma rol_validate_all kvs : ret_only_log (validate_all kvs).
Proof.
  induction kvs as [|[c v] r IH]; cbn [validate_all]; [apply rol_ret|].
  apply rol_bind; [apply rol_validate|intros; exact IH].
Qed.

Lemma rc_db_update k id upd : raise_clean (db_update k id upd).
Proof.
  unfold db_update. apply rc_bind; [apply rc_statement|apply rol_statement|intros _].
  apply rc_bind; [apply rc_gets|apply rol_gets|intros t].
  destruct (assoc id (t_rows t)); [|apply rc_ret].
  destruct (constraint_error _ _ _ _); [apply rc_raise|].
  intros s e s' H. discriminate.
Qed.

Lemma rc_db_insert k vals : raise_clean (db_insert k vals).
Proof.
  unfold db_insert. apply rc_bind; [apply rc_statement|apply rol_statement|intros _].
  apply rc_bind; [apply rc_gets|apply rol_gets|intros t].
  destruct (constraint_error _ _ _ _); [apply rc_raise|].
  intros s e s' H. discriminate.
Qed.

Lemma rc_db_delete k id : raise_clean (db_delete k id).
Proof.
  unfold db_delete. apply rc_bind; [apply rc_statement|apply rol_statement|intros _].
  intros s e s' H. discriminate.
Qed.

Lemma rc_handle h : raise_clean (handle h).
Proof.
  unfold handle. apply rc_bind; [apply rc_gets|apply rol_gets|intros s0].
  destruct (nth h (slots s0) None); [apply rc_ret|apply rc_raise].
Qed.
Lemma rol_handle h : ret_only_log (handle h).
Proof.
  unfold handle. apply rol_bind; [apply rol_gets|intros s0].
  destruct (nth h (slots s0) None); [apply rol_ret|]. intros s a s' H. discriminate.
Qed.

(* a computation that cannot raise *)
Definition no_raise {A} (m : M A) : Prop := forall s, exists a s', m s = (Ret a, s').

Lemma nr_ret {A} (a : A) : no_raise (ret a).
Proof. intros s. eexists _, _. reflexivity. Qed.
Lemma nr_gets {A} (f : st -> A) : no_raise (gets f).
Proof. intros s. eexists _, _. reflexivity. Qed.
Lemma nr_modify f : no_raise (modify f).
Proof. intros s. eexists _, _. reflexivity. Qed.
Lemma nr_bind {A B} (m : M A) (f : A -> M B) : no_raise m -> (forall a, no_raise (f a)) -> no_raise (bind m f).
Proof.
  intros Hm Hf s. unfold bind. destruct (Hm s) as (a & s1 & E). rewrite E. apply Hf.
Qed.
Lemma nr_upd_inst o f : no_raise (upd_inst o f).
Proof. apply nr_modify. Qed.
Lemma nr_set_cch k c : no_raise (set_cch k c).
Proof. apply nr_modify. Qed.

Lemma rc_bind_final {A B} (m : M A) (f : A -> M B) :
  raise_clean m -> (forall a, no_raise (f a)) -> raise_clean (bind m f).
Proof.
  intros Hm Hf s e s' H. unfold bind in H. destruct (m s) as [[a|e0] s1] eqn:Em.
  - destruct (Hf a s1) as (b & s2 & E). rewrite E in H. discriminate.
  - inversion H; subst. eapply Hm; eauto.
Qed.

Section WithConfig.
Variable cfg : config.

Lemma nr_cache_expire k id : no_raise (cache_expire cfg k id).
Proof.
  unfold cache_expire. apply nr_bind; [apply nr_gets|intros c].
  destruct (negb (c_present c)); [apply nr_ret|]. destruct (negb (doCache cfg)); [apply nr_ret|apply nr_set_cch].
Qed.

(* ---- the write operations: raising leaves everything but the log alone ---- *)
Lemma rc_so_setattr o c v : raise_clean (so_setattr o c v).
Proof.
  unfold so_setattr. apply rc_bind; [apply rc_gets|apply rol_gets|intros i].
  apply rc_bind; [apply rc_validate|apply rol_validate|intros v'].
  destruct (is_lazy (i_k i)).
  - intros s e s' H. discriminate.
  - apply rc_bind_final; [apply rc_db_update|intros _].
    destruct (cache_values (i_k i) && negb (i_expired i)); [apply nr_upd_inst|apply nr_ret].
Qed.

Lemma rc_so_set o kvs : raise_clean (so_set o kvs).
Proof.
  unfold so_set. apply rc_bind; [apply rc_gets|apply rol_gets|intros i].
  apply rc_bind; [destruct (is_lazy (i_k i) && _); [apply rc_raise|apply rc_ret]
                 |destruct (is_lazy (i_k i) && _); [intros s a s' H; discriminate|apply rol_ret]|intros _].
  apply rc_bind; [apply rc_validate_all|apply rol_validate_all|intros _].
  apply rc_bind; [destruct (run_extras (as_dict kvs)); [apply rc_raise|apply rc_ret]
                 |destruct (run_extras (as_dict kvs)); [intros s a s' H; discriminate|apply rol_ret]|intros _].
  destruct (is_lazy (i_k i)).
  - intros s e s' H. discriminate.
  - apply rc_bind_final.
    + destruct (filter _ (as_dict kvs)); [apply rc_ret|apply rc_db_update].
    + intros _. destruct (cache_values (i_k i) && negb (i_expired i)); [apply nr_upd_inst|apply nr_ret].
Qed.

Lemma rc_so_sync_update o : raise_clean (so_sync_update o).
Proof.
  unfold so_sync_update. apply rc_bind; [apply rc_gets|apply rol_gets|intros i].
  destruct (negb (i_cv i)); [apply rc_raise|].
  destruct (i_pending i); [apply rc_ret|].
  apply rc_bind_final; [apply rc_db_update|intros _; apply nr_upd_inst].
Qed.

Lemma nr_cache_purge k id : no_raise (cache_purge k id).
Proof.
  unfold cache_purge. apply nr_bind; [apply nr_gets|intros c].
  destruct (negb (c_present c)); [apply nr_ret|apply nr_set_cch].
Qed.

Lemma rc_so_destroy o : raise_clean (so_destroy o).
Proof.
  unfold so_destroy. apply rc_bind; [apply rc_gets|apply rol_gets|intros i].
  apply rc_bind_final; [apply rc_db_delete|intros _].
  apply nr_bind; [apply nr_upd_inst|intros _; apply nr_cache_purge].
Qed.

Lemma rc_with_handle {A} h (f : nat -> M A) : (forall o, raise_clean (f o)) -> raise_clean (o <- handle h ;; f o).
Proof. intros Hf. apply rc_bind; [apply rc_handle|apply rol_handle|exact Hf]. Qed.

Lemma rc_then_ret {A B} (m : M A) (b : B) : raise_clean m -> raise_clean (m ;;; ret b).
Proof. intros Hm. apply rc_bind_final; [exact Hm|intros _; apply nr_ret]. Qed.

(* the operations of C06 whose failure must change nothing *)
Inductive plain_write : op -> Prop :=
| pw_setattr h c v : plain_write (OSetAttr h c v)
| pw_set h kvs : plain_write (OSet h kvs)
| pw_sync_update h : plain_write (OSyncUpdate h)
| pw_destroy h : plain_write (ODestroy h).

Lemma rc_plain_write fuel o : plain_write o -> raise_clean (run_op cfg fuel o).
Proof.
  intros [h c v|h kvs|h|h]; destruct fuel; cbn [run_op]; apply rc_with_handle; intros ob; apply rc_then_ret;
    [apply rc_so_setattr|apply rc_so_setattr|apply rc_so_set|apply rc_so_set|apply rc_so_sync_update|apply rc_so_sync_update
    |apply rc_so_destroy|apply rc_so_destroy].
Qed.

(* ... also under an injected database error at any statement index *)
Lemma rc_fault n fuel o : plain_write o -> forall s e s',
  run_op cfg (S fuel) (OFault n o) s = (Raise e, s') ->
  heap s' = heap s /\ slots s' = slots s /\ tables s' = tables s /\ caches s' = caches s /\ pickles s' = pickles s.
Proof.
  intros Hw s e s' H. cbn [run_op] in H. unfold bind, modify, finally in H. cbn in H.
  destruct (run_op cfg fuel o (with_fault s (Some n))) as [[a|e0] s1] eqn:E; inversion H; subst.
  destruct (rc_plain_write fuel o Hw _ _ _ E) as (?&?&?&?&?&?). cbn in *. repeat split; assumption.
Qed.

Theorem failing_write_changes_nothing s o e s' :
  (plain_write o \/ exists n o', o = OFault n o' /\ plain_write o') ->
  step cfg s o = (Raise e, s') ->
  heap s' = heap s /\ slots s' = slots s /\ tables s' = tables s /\ caches s' = caches s /\ pickles s' = pickles s.
Proof.
  intros Hw H. unfold step in H. destruct Hw as [Hw|(n & o' & -> & Hw)].
  - destruct (rc_plain_write 2 o Hw _ _ _ H) as (?&?&?&?&?&?). cbn in *. repeat split; assumption.
  - apply (rc_fault n 1 o' Hw) in H. cbn in H. exact H.
Qed.

End WithConfig.
