(* C11, connections: a bound select runs every operation on the rows its
   connection sees; clones keep the binding; a Transaction sees the committed
   table with its own writes applied. *)
From Coq Require Import List ZArith NArith Bool Permutation Sorted Lia.
From Lib Require Import PyLite QueryPy.
From Gen Require Import Query.
From Model Require Import Query.
From Proofs Require Import QueryChar QueryOrder QuerySort QueryWhere QueryAgg QueryLookup Query.
Import ListNotations.
Open Scope Z_scope.

(* ---------------------------------------------------------------- binding through a chain *)
Lemma b_calls_split :
  forall ms b,
    b_sr (b_calls b ms) = sr_calls (b_sr b) (plain_calls ms) /\
    b_conn (b_calls b ms) = last_binding (b_conn b) ms.
Proof.
  induction ms as [|m ms IH]; intros b; [split; reflexivity|].
  unfold b_calls, sr_calls, last_binding in *. cbn [fold_left plain_calls flat_map].
  destruct (IH (b_call b m)) as [H1 H2]. rewrite H1, H2.
  destruct m as [x|c]; cbn [b_call b_sr b_conn app fold_left]; split; reflexivity.
Qed.

Lemma plain_calls_map : forall ms, plain_calls (map BCall ms) = ms.
Proof. induction ms as [|m ms IH]; [reflexivity|]. cbn. unfold plain_calls in IH. now rewrite IH. Qed.

Lemma last_binding_plain : forall ms c, last_binding c (map BCall ms) = c.
Proof. induction ms as [|m ms IH]; intros c; [reflexivity|]. unfold last_binding in *. cbn. apply IH. Qed.

(* .orderBy/.reversed/.distinct/.filter clones keep the connection and act on the select as before *)
Lemma clone_keeps_connection :
  forall ms b cls,
    b_target cls (b_calls b (map BCall ms)) = b_target cls b /\
    b_sr (b_calls b (map BCall ms)) = sr_calls (b_sr b) ms.
Proof.
  intros ms b cls. destruct (b_calls_split (map BCall ms) b) as [H1 H2].
  unfold b_target. rewrite H1, H2, plain_calls_map, last_binding_plain. split; reflexivity.
Qed.

Lemma last_binding_app :
  forall a b c, last_binding c (a ++ b) = last_binding (last_binding c a) b.
Proof. intros. unfold last_binding. apply fold_left_app. Qed.

(* the last .connection(c) decides, whatever was bound before; None falls back to the class's connection *)
Lemma connection_call_rebinds :
  forall pre post b c cls,
    b_target cls (b_calls b (pre ++ BConnection c :: map BCall post)) = conn_or cls c.
Proof.
  intros. destruct (b_calls_split (pre ++ BConnection c :: map BCall post) b) as [_ H].
  unfold b_target. rewrite H, last_binding_app.
  change (last_binding (last_binding (b_conn b) pre) (BConnection c :: map BCall post))
    with (last_binding c (map BCall post)).
  now rewrite last_binding_plain.
Qed.

(* ---------------------------------------------------------------- only the bound connection's view matters *)
Lemma view_only :
  forall st st' cls dflt b,
    st (b_target cls b) = st' (b_target cls b) ->
    (forall out, b_accepts st cls dflt b out <-> b_accepts st' cls dflt b out) /\
    (forall win, b_count st cls b win = b_count st' cls b win) /\
    (forall win m attr, b_agg st cls b win m attr = b_agg st' cls b win m attr) /\
    (forall nd, b_getone st cls dflt b nd = b_getone st' cls dflt b nd).
Proof.
  intros st st' cls dflt b H.
  unfold b_accepts, b_count, b_agg, b_getone, b_rows. rewrite H.
  repeat split; auto.
Qed.

Lemma lookup_view_only :
  forall st st' cls c,
    st (conn_or cls c) = st' (conn_or cls c) ->
    (forall v o, b_altid_accepts st cls c v o <-> b_altid_accepts st' cls c v o) /\
    (forall dflt kws, b_index st cls c dflt kws = b_index st' cls c dflt kws).
Proof.
  intros st st' cls c H. unfold b_altid_accepts, b_index. rewrite H. split; [intros; reflexivity|auto].
Qed.

(* ---------------------------------------------------------------- list, count, aggregates, getOne of one bound select describe the same rows *)
Lemma bound_coherent :
  forall st cls dflt b out,
    ids_unique (b_rows st cls b) ->
    b_accepts st cls dflt b out ->
    b_count st cls b (VNone, VNone) = OInt (zlength out) /\
    (forall m attr c, resolve_attr attr = Some c ->
       b_agg st cls b (VNone, VNone) m attr = OAgg (agg_exec (meth_f m) (sr_dist (b_sr b)) (map (getc c) out))) /\
    (forall nd, b_getone st cls dflt b nd =
       match out with
       | [] => if nd then ONotFound else ODefault
       | [r] => OFound (rid r)
       | _ => OIntegrity
       end).
Proof.
  intros st cls dflt b out Hu Ha. unfold b_accepts in Ha. unfold b_count, b_agg, b_getone.
  split; [|split].
  - apply (count_of_list dflt); auto.
  - intros m attr c Hc.
    assert (F : falsy VNone) by reflexivity.
    pose proof (agg_partial dflt (b_sr b) VNone m attr c _ out F Hu Hc Ha) as H.
    exact H.
  - intros nd. apply getone_of_list. exact Ha.
Qed.

(* ---------------------------------------------------------------- the transaction's view *)
Lemma has_id_in : forall i rows, has_id i rows = true <-> In i (map rid rows).
Proof.
  intros i rows. unfold has_id. rewrite existsb_exists, in_map_iff. split.
  - intros [x [Hx He]]. exists x. apply Z.eqb_eq in He. auto.
  - intros [x [He Hx]]. exists x. split; auto. apply Z.eqb_eq. auto.
Qed.

Lemma map_rid_replace :
  forall r rows, map rid (map (fun x => if rid x =? rid r then r else x) rows) = map rid rows.
Proof.
  intros r rows. rewrite map_map. apply map_ext. intros x.
  destruct (rid x =? rid r) eqn:E; [apply Z.eqb_eq in E; auto|reflexivity].
Qed.

Lemma apply_wr_ids_unique : forall rows w, ids_unique rows -> ids_unique (apply_wr rows w).
Proof.
  intros rows w H. unfold ids_unique in *. destruct w as [r|i]; cbn [apply_wr].
  - destruct (has_id (rid r) rows) eqn:E.
    + now rewrite map_rid_replace.
    + rewrite map_app. cbn [map].
      apply (Permutation_NoDup (Permutation_cons_append (map rid rows) (rid r))).
      constructor; auto. intros Hin. apply has_id_in in Hin. congruence.
  - now apply NoDup_map_filter.
Qed.

Lemma txn_view_ids_unique : forall ws committed, ids_unique committed -> ids_unique (txn_view committed ws).
Proof.
  unfold txn_view. induction ws as [|w ws IH]; intros c H; [exact H|].
  cbn [fold_left]. apply IH. now apply apply_wr_ids_unique.
Qed.

(* one write: the written id is replaced / appended / removed, every other id is untouched *)
Lemma find_row_app : forall a b i, find_row (a ++ b) i = match find_row a i with Some r => Some r | None => find_row b i end.
Proof.
  intros a b i. unfold find_row. induction a as [|x a IH]; [reflexivity|].
  cbn [app find]. destruct (rid x =? i); auto.
Qed.

Lemma find_row_none : forall rows i, has_id i rows = false -> find_row rows i = None.
Proof.
  intros rows i. unfold has_id, find_row. induction rows as [|x rows IH]; [reflexivity|].
  cbn [existsb find]. destruct (rid x =? i); cbn; [discriminate|auto].
Qed.

Lemma find_replace :
  forall rows r i,
    find_row (map (fun x => if rid x =? rid r then r else x) rows) i =
    if rid r =? i then (if has_id (rid r) rows then Some r else None) else find_row rows i.
Proof.
  intros rows r i. unfold find_row, has_id. induction rows as [|x rows IH].
  - cbn. now destruct (rid r =? i).
  - cbn [map find existsb]. rewrite IH. clear IH.
    destruct (Z.eqb_spec (rid x) (rid r)) as [Ex|Ex]; cbn [orb].
    + destruct (Z.eqb_spec (rid r) i) as [Ei|Ei]; [reflexivity|].
      destruct (Z.eqb_spec (rid x) i) as [Exi|Exi]; [congruence|reflexivity].
    + destruct (Z.eqb_spec (rid x) i) as [Exi|Exi].
      * destruct (Z.eqb_spec (rid r) i) as [Ei|Ei]; [congruence|reflexivity].
      * reflexivity.
Qed.

Lemma find_filter_out :
  forall rows k i,
    find_row (filter (fun x => negb (rid x =? k)) rows) i = if k =? i then None else find_row rows i.
Proof.
  intros rows k i. unfold find_row. induction rows as [|x rows IH].
  - cbn. now destruct (k =? i).
  - cbn [filter find]. destruct (Z.eqb_spec (rid x) k) as [Ex|Ex]; cbn [negb].
    + rewrite IH. destruct (Z.eqb_spec k i) as [Ei|Ei]; [reflexivity|].
      destruct (Z.eqb_spec (rid x) i) as [Exi|Exi]; [congruence|reflexivity].
    + cbn [find]. rewrite IH. destruct (Z.eqb_spec (rid x) i) as [Exi|Exi]; [|reflexivity].
      destruct (Z.eqb_spec k i) as [Ei|Ei]; [congruence|reflexivity].
Qed.

Lemma find_row_apply :
  forall rows w i,
    find_row (apply_wr rows w) i =
    if wr_id w =? i then match w with WPut r => Some r | WDel _ => None end else find_row rows i.
Proof.
  intros rows w i. destruct w as [r|k]; cbn [apply_wr wr_id].
  - destruct (has_id (rid r) rows) eqn:E.
    + rewrite find_replace, E. reflexivity.
    + rewrite find_row_app. destruct (Z.eqb_spec (rid r) i) as [Ei|Ei].
      * subst i. rewrite (find_row_none _ _ E). unfold find_row. cbn [find]. now rewrite Z.eqb_refl.
      * destruct (find_row rows i); [reflexivity|]. unfold find_row. cbn [find].
        destruct (Z.eqb_spec (rid r) i); [congruence|reflexivity].
  - apply find_filter_out.
Qed.

(* the transaction sees, for every id, its own last write to that id; an id it did not write is as committed *)
Lemma txn_view_lookup :
  forall ws committed i,
    find_row (txn_view committed ws) i =
    match last_write i ws with
    | Some (WPut r) => Some r
    | Some (WDel _) => None
    | None => find_row committed i
    end.
Proof.
  intros ws committed i. unfold txn_view, last_write.
  induction ws as [|w ws IH] using rev_ind; [reflexivity|].
  rewrite !fold_left_app. cbn [fold_left]. rewrite find_row_apply.
  destruct (wr_id w =? i); [destruct w; reflexivity|exact IH].
Qed.

(* a row the transaction did not touch is seen as committed; a row it wrote last is seen as written; a row it deleted last is gone *)
Lemma txn_view_untouched :
  forall ws committed i, last_write i ws = None -> find_row (txn_view committed ws) i = find_row committed i.
Proof. intros ws committed i H. rewrite txn_view_lookup, H. reflexivity. Qed.
