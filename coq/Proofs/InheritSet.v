(* C15: multi-column set() through an instance of an inheritance child. *)
From Coq Require Import List ZArith Bool Lia.
From Model Require Import Inherit.
From Proofs Require Import InheritBase InheritOps InheritCreate InheritInv InheritSelect InheritTop.
Import ListNotations.
Open Scope Z_scope.

(* an invalid value for an own column: raised before anything is written, whatever else is in the call *)
Theorem set_own_invalid : forall auto s e id ob kvs x, get_obj s e id = inr ob ->
  validate_all (filter (fun kv => cls_eqb (fst kv) (ocls ob)) kvs) = Some x ->
  step auto s (SetMany e id kvs) = (s, RErr x).
Proof. intros auto s e id ob kvs x Hg Hv. cbn [step]. rewrite Hg. unfold set_many. rewrite Hv. reflexivity. Qed.

Lemma seen_ok : forall s os id k, repr s os -> In (id, k) (skel os) -> exists l, seen s k id = RSeen l.
Proof.
  intros s os id k Hr Hin. unfold skel in Hin. apply in_map_iff in Hin. destruct Hin as [o [He Ho]]. inversion He; subst.
  assert (Hnd : NoDup (aids os)) by (destruct Hr; assumption).
  unfold seen. rewrite (get_entries_const s (chain (ak o)) (aid o) (obj_of o)); [eauto|].
  intros e He'. apply (get_obj_repr s os e (aid o) o Hr (afind_in os o Hnd Ho)). apply memc_In. exact He'.
Qed.

Lemma write_all_short : forall s k id kvs s' x, (length kvs <= 1)%nat -> write_all s k id kvs = (s', Some x) -> s' = s.
Proof.
  intros s k id kvs s' x Hl H. destruct kvs as [|[c v] [|? ?]]; cbn in *; try lia.
  - inversion H.
  - destruct (memc c (chain k)); [|inversion H; reflexivity].
    destruct (write1 s id c v); inversion H. reflexivity.
Qed.

Lemma filter_length_le : forall (X : Type) (f : X -> bool) l, (length (filter f l) <= length l)%nat.
Proof. induction l as [|x l IH]; cbn; [lia|]. destruct (f x); cbn; lia. Qed.

Theorem set_raise_guarded : forall auto s e id ob kvs s' x, reachable auto s -> get_obj s e id = inr ob ->
  set_guard (ocls ob) kvs = true ->
  step auto s (SetMany e id kvs) = (s', RErr x) -> s' = s.
Proof.
  intros auto s e id ob kvs s' x Hre Hg Hgd H. destruct (reach_repr auto s Hre) as [os Hr].
  destruct (get_obj_inv s os e id ob Hr Hg) as [o [Hf [Hm ->]]]. cbn [ocls obj_of] in *.
  destruct (afind_some _ _ _ Hf) as [Ho Hid]. subst id.
  cbn [step] in H. rewrite Hg in H. cbn [ocls obj_of] in H.
  destruct (set_many s (ak o) (aid o) kvs) as [s1 [y|]] eqn:W.
  - inversion H; subst s1 y; clear H. unfold set_many in W. unfold set_guard in Hgd.
    destruct (validate_all (filter (fun kv => cls_eqb (fst kv) (ak o)) kvs)) as [z|]; [inversion W; reflexivity|].
    cbn [orb] in Hgd. apply Nat.leb_le in Hgd.
    destruct (write_all s (ak o) (aid o) (filter (fun kv => negb (cls_eqb (fst kv) (ak o))) kvs)) as [s2 [z|]] eqn:W1.
    + inversion W; subst s2 z. eapply write_all_short; [|exact W1].
      pose proof (filter_length_le _ (fun kv : cls * inval => negb (cls_eqb (fst kv) (ak o))) kvs). lia.
    + (* nothing failed among the others: with at most one pair they were none or the own list is empty *)
      destruct kvs as [|[c v] [|? ?]]; cbn in Hgd; try lia.
      * cbn in W1, W. inversion W.
      * cbn [filter fst] in W1, W. destruct (cls_eqb c (ak o)); cbn [negb] in W1, W.
        -- cbn in W1. inversion W1; subst s2. eapply write_all_short; [|exact W]. cbn. lia.
        -- cbn in W. inversion W.
  - exfalso. destruct (set_many_repr _ _ _ _ _ _ _ Hr W) as [os' [Hr' [Hsk _]]].
    destruct (seen_ok s1 os' (aid o) (ak o) Hr') as [l Hl].
    + rewrite Hsk. unfold skel. apply in_map_iff. exists o. auto.
    + rewrite Hl in H. inversion H.
Qed.

(* without the guard: an inherited column is written, then a later inherited value is refused *)
Definition set_raise_full : Prop := forall auto ops e id kvs s' x,
  step auto (run auto init ops) (SetMany e id kvs) = (s', RErr x) -> s' = run auto init ops.

Theorem set_raise_refuted : ~ set_raise_full.
Proof.
  intro H.
  assert (E := H true [Create KC (mkargs (Int 1) (Int 1) (Int 1) Omit) false] KC 1 [(KB, Int 2); (KA, Bad)] _ EInvalid eq_refl).
  apply (f_equal tB) in E. vm_compute in E. discriminate.
Qed.
