(* C01, Decimal text: Decimal(d.to_eng_string()) is d again for the plain
   notation a DecimalStringCol value within its declared scale gets, and the
   quantisation of such a value keeps its numeric value. *)
From Coq Require Import List NArith ZArith Bool Lia ZifyBool.
From Lib Require Import Str Lex ColumnsTpl.
From Gen Require Import Columns.
From Model Require Import Columns.
From Proofs Require Import ColumnsStr ColumnsNum.
Import ListNotations.
Open Scope N_scope.

(* characters of a plain decimal text *)
Definition dec_char (c : ch) : bool := is_digit c || (c =? c_dot) || (c =? c_minus).

Lemma lstrip_id p s : (match s with c :: _ => p c = false | [] => True end) -> lstrip p s = s.
Proof. destruct s as [|c r]; [reflexivity|]. intros H. cbn [lstrip]. now rewrite H. Qed.

Lemma forallb_rev {A} (p : A -> bool) l : forallb p (rev l) = forallb p l.
Proof.
  induction l as [|x l IH]; [reflexivity|]. cbn [rev forallb]. rewrite forallb_app, IH. cbn [forallb].
  rewrite andb_true_r. apply andb_comm.
Qed.

Lemma strip_none p s : forallb (fun c => negb (p c)) s = true -> strip p s = s.
Proof.
  intros H. unfold strip.
  assert (Hl : forall l, forallb (fun c => negb (p c)) l = true -> lstrip p l = l).
  { intros l Hl. apply lstrip_id. destruct l as [|c r]; [exact I|]. cbn [forallb] in Hl.
    apply andb_true_iff in Hl. destruct Hl as [Hc _]. now apply negb_true_iff in Hc. }
  rewrite (Hl s H). rewrite Hl by (now rewrite forallb_rev). apply rev_involutive.
Qed.

Lemma filter_all {A} (p : A -> bool) l : forallb p l = true -> filter p l = l.
Proof.
  induction l as [|x l IH]; [reflexivity|]. cbn [forallb filter]. intros H. apply andb_true_iff in H.
  destruct H as [Hx Hl]. now rewrite Hx, IH.
Qed.

Lemma dec_chars_clean s : forallb dec_char s = true ->
  filter (fun c => negb (c =? c_us)) (strip py_isspace s) = s.
Proof.
  intros H. rewrite strip_none.
  - apply filter_all. apply (forallb_impl dec_char); [assumption|].
    intros x Hx. unfold dec_char, is_digit, c_dot, c_minus, c_us in *. lia.
  - apply (forallb_impl dec_char); [assumption|].
    intros x Hx. unfold dec_char, is_digit, c_dot, c_minus, py_isspace in *. lia.
Qed.

Lemma digits_dec_char ds : forallb is_digit ds = true -> forallb dec_char ds = true.
Proof. intros H. apply (forallb_impl is_digit); [assumption|]. intros x Hx. unfold dec_char. now rewrite Hx. Qed.

Lemma zeros_digits n : forallb is_digit (zeros n) = true.
Proof. unfold zeros. induction (N.to_nat n) as [|k IH]; [reflexivity|]. cbn [repeat forallb]. now rewrite IH. Qed.

Lemma forallb_firstn {A} (p : A -> bool) n l : forallb p l = true -> forallb p (firstn n l) = true.
Proof.
  revert l. induction n as [|n IH]; intros l H; [reflexivity|]. destruct l as [|x l]; [reflexivity|].
  cbn [firstn forallb] in *. apply andb_true_iff in H. destruct H as [Hx Hl]. now rewrite Hx, IH.
Qed.
Lemma forallb_skipn {A} (p : A -> bool) n l : forallb p l = true -> forallb p (skipn n l) = true.
Proof.
  revert l. induction n as [|n IH]; intros l H; [exact H|]. destruct l as [|x l]; [reflexivity|].
  cbn [skipn forallb] in *. apply andb_true_iff in H. destruct H as [Hx Hl]. now apply IH.
Qed.

(* a text that starts with a digit is not one of the special spellings *)
Lemma not_special d r :
  is_digit d = true ->
  (str_eqb (upper (d :: r)) [73; 78; 70] || str_eqb (upper (d :: r)) [73; 78; 70; 73; 78; 73; 84; 89]) = false /\
  str_eqb (upper (d :: r)) [78; 65; 78] = false.
Proof.
  intros Hd. unfold upper. cbn [map str_eqb].
  assert (E : upper_ascii d = d) by (unfold upper_ascii; assert ((97 <=? d) && (d <=? 122) = false) by (unfold is_digit in Hd; lia); now rewrite H).
  rewrite E.
  assert (E1 : (d =? 73) = false) by (unfold is_digit in Hd; lia).
  assert (E2 : (d =? 78) = false) by (unfold is_digit in Hd; lia).
  rewrite E1, E2. split; reflexivity.
Qed.

Lemma take_sign_digit d r : is_digit d = true -> take_sign (d :: r) = (false, d :: r).
Proof.
  intros Hd. unfold take_sign.
  assert (E1 : (d =? c_minus) = false) by (unfold is_digit, c_minus in *; lia).
  assert (E2 : (d =? c_plus) = false) by (unfold is_digit, c_plus in *; lia).
  now rewrite E1, E2.
Qed.

(* the digit-level core: parsing  <ip> [. <fp>]  back *)
Definition parse_body (r : str) : option (N * Z) :=
  let '(ip, r1) := span is_digit r in
  let '(fp, r2) := match r1 with
                   | c :: r' => if c =? c_dot then span is_digit r' else ([], r1)
                   | [] => ([], [])
                   end in
  if nonempty ip || nonempty fp then
    match parse_exp r2 with
    | Some e => Some (digits_val (ip ++ fp), (e - Z.of_nat (length fp))%Z)
    | None => None
    end
  else None.

Lemma dec_of_text_body neg d r :
  is_digit d = true -> forallb dec_char (d :: r) = true ->
  dec_of_text (sign_str neg ++ d :: r) =
  match parse_body (d :: r) with Some (c, e) => Some (PDec neg c e) | None => None end.
Proof.
  intros Hd Hch. unfold dec_of_text.
  assert (Hall : forallb dec_char (sign_str neg ++ d :: r) = true).
  { rewrite forallb_app, Hch. destruct neg; reflexivity. }
  rewrite (dec_chars_clean _ Hall).
  assert (Hts : take_sign (sign_str neg ++ d :: r) = (neg, d :: r)).
  { destruct neg; cbn [sign_str app]; [reflexivity|now apply take_sign_digit]. }
  rewrite Hts. destruct (not_special d r Hd) as [H1 H2]. rewrite H1, H2.
  unfold parse_body.
  destruct (span is_digit (d :: r)) as [ip r1].
  destruct (match r1 with [] => ([], []) | c :: r' => if c =? c_dot then span is_digit r' else ([], r1) end) as [fp r2].
  destruct (nonempty ip || nonempty fp); [|reflexivity]. destruct (parse_exp r2); reflexivity.
Qed.

Lemma parse_body_int ds : forallb is_digit ds = true -> ds <> [] -> parse_body ds = Some (digits_val ds, 0%Z).
Proof.
  intros Hd Hne. unfold parse_body. rewrite <- (app_nil_r ds) at 1.
  rewrite (span_app is_digit ds [] Hd I). cbn [parse_exp]. destruct ds; [congruence|].
  cbn [nonempty orb]. now rewrite app_nil_r.
Qed.
Lemma parse_body_frac ip fp :
  forallb is_digit ip = true -> forallb is_digit fp = true -> ip <> [] ->
  parse_body (ip ++ c_dot :: fp) = Some (digits_val (ip ++ fp), (- Z.of_nat (length fp))%Z).
Proof.
  intros Hi Hf Hne. unfold parse_body.
  rewrite (span_app is_digit ip (c_dot :: fp) Hi eq_refl). rewrite N.eqb_refl.
  rewrite <- (app_nil_r fp) at 1. rewrite (span_app is_digit fp [] Hf I).
  destruct ip; [congruence|]. cbn [nonempty orb parse_exp]. f_equal.
Qed.

(* to_eng_string / Decimal() round trip in plain notation *)
Lemma dec_text_roundtrip neg c e :
  (-6 <= e <= 0)%Z -> dec_of_text (dec_eng_string neg c e) = Some (PDec neg c e).
Proof.
  intros He. unfold dec_eng_string.
  set (ds := dec_N c). set (nd := Z.of_nat (length ds)).
  assert (Hds : forallb is_digit ds = true) by apply dec_N_digits.
  assert (Hne : ds <> []) by apply dec_N_nonempty.
  assert (Hnd : (1 <= nd)%Z) by (unfold nd; destruct ds; [congruence|cbn [length]; lia]).
  assert (Hb1 : ((e <=? 0)%Z && (-6 <? e + nd)%Z) = true) by lia. rewrite Hb1.
  rewrite Z.eqb_refl. rewrite app_nil_r.
  destruct (e + nd <=? 0)%Z eqn:Ecase.
  - (* 0.000ddd *)
    set (k := Z.to_N (- (e + nd))).
    change ([c_zero; c_dot] ++ zeros k ++ ds) with (c_zero :: c_dot :: (zeros k ++ ds)).
    rewrite dec_of_text_body; [|reflexivity|].
    + change (c_zero :: c_dot :: (zeros k ++ ds)) with ([c_zero] ++ c_dot :: (zeros k ++ ds)).
      rewrite parse_body_frac; [| reflexivity | rewrite forallb_app, zeros_digits; exact Hds | discriminate].
      f_equal. f_equal.
      * change ([c_zero] ++ zeros k ++ ds) with (repeat 48 1 ++ (zeros k ++ ds)).
        rewrite digits_val_zeros. unfold zeros. rewrite digits_val_zeros. apply dec_N_val.
      * rewrite app_length. unfold zeros. rewrite repeat_length. unfold k.
        change (@length ch ds) with (@length N ds) in *. fold nd. lia.
    + cbn [forallb]. rewrite forallb_app. rewrite (digits_dec_char _ (zeros_digits k)), (digits_dec_char _ Hds). reflexivity.
  - destruct (nd <=? e + nd)%Z eqn:Ecase2.
    + (* integer: e = 0 *)
      assert (e = 0%Z) by lia. subst e. replace (Z.to_N (0 + nd - nd)) with 0 by lia.
      unfold zeros. cbn [N.to_nat repeat]. rewrite app_nil_r.
      destruct ds as [|d r] eqn:Eds; [congruence|].
      assert (Hd : is_digit d = true) by (cbn [forallb] in Hds; now apply andb_true_iff in Hds).
      rewrite dec_of_text_body; [|exact Hd|now apply digits_dec_char].
      rewrite parse_body_int by (assumption || discriminate).
      rewrite <- Eds. unfold ds. now rewrite dec_N_val.
    + (* dd.ddd *)
      set (dp := Z.to_nat (e + nd)).
      assert (Hdp : (0 < dp < length ds)%nat) by (unfold dp, nd in *; lia).
      destruct (firstn dp ds) as [|d r] eqn:Ef.
      { exfalso. assert (length (firstn dp ds) = dp) by (rewrite firstn_length; lia). rewrite Ef in H. cbn in H. lia. }
      assert (Hfd : forallb is_digit (d :: r) = true) by (rewrite <- Ef; now apply forallb_firstn).
      assert (Hd : is_digit d = true) by (cbn [forallb] in Hfd; now apply andb_true_iff in Hfd).
      assert (Hsd : forallb is_digit (skipn dp ds) = true) by now apply forallb_skipn.
      change ((d :: r) ++ [c_dot] ++ skipn dp ds) with (d :: (r ++ c_dot :: skipn dp ds)).
      rewrite dec_of_text_body; [|exact Hd|].
      * change (d :: r ++ c_dot :: skipn dp ds) with ((d :: r) ++ c_dot :: skipn dp ds).
        rewrite parse_body_frac; [|exact Hfd|exact Hsd|discriminate].
        f_equal. f_equal.
        -- rewrite <- Ef, firstn_skipn. apply dec_N_val.
        -- rewrite skipn_length. unfold dp, nd in *. lia.
      * change (d :: r ++ c_dot :: skipn dp ds) with ((d :: r) ++ c_dot :: skipn dp ds).
        rewrite forallb_app. rewrite (digits_dec_char _ Hfd). cbn [forallb]. rewrite (digits_dec_char _ Hsd). reflexivity.
Qed.

(* ---------------------------------------------------------------- the characters of any to_eng_string() *)
Definition eng_char (c : ch) : bool := is_digit c || (c =? c_dot) || (c =? c_minus) || (c =? c_E) || (c =? c_plus).
Lemma digits_eng_char ds : forallb is_digit ds = true -> forallb eng_char ds = true.
Proof. intros H. apply (forallb_impl is_digit); [assumption|]. intros x Hx. unfold eng_char. now rewrite Hx. Qed.
Lemma dec_Z_eng z : forallb eng_char (dec_Z z) = true.
Proof.
  apply (forallb_impl int_char); [apply dec_Z_chars|]. intros x Hx. unfold int_char, eng_char in *.
  destruct (is_digit x); [reflexivity|]. cbn [orb] in *. rewrite Hx. now rewrite !orb_true_r.
Qed.
Lemma eng_string_chars neg c e : forallb eng_char (dec_eng_string neg c e) = true.
Proof.
  unfold dec_eng_string.
  assert (Hds : forallb eng_char (dec_N c) = true) by (apply digits_eng_char, dec_N_digits).
  assert (Hz : forall n, forallb eng_char (zeros n) = true) by (intros n; apply digits_eng_char, zeros_digits).
  repeat rewrite forallb_app. apply andb_true_iff. split; [destruct neg; reflexivity|].
  apply andb_true_iff. split.
  - destruct (_ <=? 0)%Z.
    + cbn [app forallb]. rewrite forallb_app, Hz, Hds. reflexivity.
    + destruct (_ <=? _)%Z.
      * now rewrite forallb_app, Hds, Hz.
      * rewrite forallb_app. cbn [app forallb].
        rewrite (forallb_firstn eng_char _ _ Hds), (forallb_skipn eng_char _ _ Hds). reflexivity.
  - destruct (_ =? _)%Z; [reflexivity|]. cbn [forallb]. unfold plus_d.
    destruct (_ - _)%Z; cbn [forallb]; rewrite ?dec_Z_eng; reflexivity.
Qed.
Lemma eng_string_text_ok neg c e : text_ok (dec_eng_string neg c e) = true.
Proof.
  pose proof (eng_string_chars neg c e) as H.
  assert (H1 : existsb (N.eqb c_nul) (dec_eng_string neg c e) = false).
  { apply (forallb_existsb_false eng_char); [assumption|]. intros x Hx. unfold eng_char, is_digit, c_nul, c_dot, c_minus, c_E, c_plus in *. lia. }
  assert (H2 : existsb is_surrogate (dec_eng_string neg c e) = false).
  { apply (forallb_existsb_false eng_char); [assumption|]. intros x Hx. unfold eng_char, is_digit, is_surrogate, c_dot, c_minus, c_E, c_plus in *. lia. }
  unfold text_ok, contains. unfold ch in *. now rewrite H1, H2.
Qed.

(* ---------------------------------------------------------------- quantize(10^-prec) of a value within the declared scale *)
Lemma pow10_add a b : pow10 (a + b) = pow10 a * pow10 b.
Proof. unfold pow10. apply N.pow_add_r. Qed.
Lemma pow10_pos a : 0 < pow10 a.
Proof. unfold pow10. apply N.neq_0_lt_0. apply N.pow_nonzero. discriminate. Qed.

Lemma ndigits_bound c : c < pow10 28 -> (28 <? ndigits c) = false.
Proof.
  intros H. unfold ndigits. pose proof (dec_N_length c 28 H ltac:(lia)) as HL.
  change (@length ch) with (@length N) in *. lia.
Qed.

Lemma lt_pow10_any neg c e k : dec_lt_pow10 false c e k = true -> dec_lt_pow10 neg c e k = true.
Proof. unfold dec_lt_pow10. destruct (c =? 0); [reflexivity|]. destruct neg; [reflexivity|]. exact (fun H => H). Qed.

Lemma quantize_within size prec neg c e :
  prec <=? size = true -> 1 <=? size = true -> size <=? 28 = true -> dec_fits size prec c e = true ->
  let c' := c * pow10 (Z.to_N (e + Z.of_N prec)) in
  dec_quantize c e prec = Some (c', (- Z.of_N prec)%Z) /\
  dec_lt_pow10 neg c' (- Z.of_N prec) (Z.of_N size - Z.of_N prec) = true /\
  dec_quantize c' (- Z.of_N prec) prec = Some (c', (- Z.of_N prec)%Z).
Proof.
  intros Hps H1 H28 Hfit c'. unfold dec_fits in Hfit.
  apply andb_true_iff in Hfit. destruct Hfit as [Hfit Hlt].
  assert (He : (- Z.of_N prec <= e <= 0)%Z) by lia.
  (* the bound c' < 10^size (or c' = 0) *)
  assert (Hb : c' < pow10 size).
  { unfold dec_lt_pow10 in Hlt. destruct (c =? 0) eqn:Ec.
    - apply N.eqb_eq in Ec. unfold c'. rewrite Ec. cbn. apply pow10_pos.
    - destruct (e ?= Z.of_N size - Z.of_N prec)%Z eqn:Ecmp; try discriminate.
      apply N.ltb_lt in Hlt. apply Z.compare_lt_iff in Ecmp.
      assert (Hs : size = Z.to_N (Z.of_N size - Z.of_N prec - e) + Z.to_N (e + Z.of_N prec)) by lia.
      rewrite Hs at 1. rewrite pow10_add. unfold c'.
      apply N.mul_lt_mono_pos_r; [apply pow10_pos|exact Hlt]. }
  assert (Hb28 : c' < pow10 28).
  { eapply N.lt_le_trans; [exact Hb|]. unfold pow10. apply N.pow_le_mono_r; [discriminate|lia]. }
  split; [|split].
  - unfold dec_quantize. assert (E : (- Z.of_N prec <=? e)%Z = true) by lia. rewrite E.
    replace (e - - Z.of_N prec)%Z with (e + Z.of_N prec)%Z by lia. fold c'. now rewrite ndigits_bound.
  - apply lt_pow10_any. unfold dec_lt_pow10. destruct (c' =? 0); [reflexivity|].
    assert (Ecmp : (- Z.of_N prec ?= Z.of_N size - Z.of_N prec)%Z = Lt) by (apply Z.compare_lt_iff; lia).
    rewrite Ecmp. apply N.ltb_lt.
    replace (Z.to_N (Z.of_N size - Z.of_N prec - - Z.of_N prec)) with size by lia. exact Hb.
  - unfold dec_quantize. rewrite Z.leb_refl.
    replace (- Z.of_N prec - - Z.of_N prec)%Z with 0%Z by lia. change (pow10 (Z.to_N 0)) with 1. rewrite N.mul_1_r.
    now rewrite ndigits_bound.
Qed.

Lemma quantized_equal neg c e prec :
  (- Z.of_N prec <= e)%Z ->
  dec_eqb neg c e neg (c * pow10 (Z.to_N (e + Z.of_N prec))) (- Z.of_N prec) = true.
Proof.
  intros He. unfold dec_eqb.
  destruct ((c =? 0) && (c * pow10 (Z.to_N (e + Z.of_N prec)) =? 0)); [reflexivity|].
  rewrite eqb_reflx. cbn [andb].
  destruct (e <=? - Z.of_N prec)%Z eqn:E.
  - assert (e = (- Z.of_N prec)%Z) by lia. subst e.
    replace (- Z.of_N prec + Z.of_N prec)%Z with 0%Z by lia.
    replace (- Z.of_N prec - - Z.of_N prec)%Z with 0%Z by lia.
    change (pow10 (Z.to_N 0)) with 1. rewrite !N.mul_1_r. apply N.eqb_refl.
  - replace (e - - Z.of_N prec)%Z with (e + Z.of_N prec)%Z by lia. apply N.eqb_refl.
Qed.
