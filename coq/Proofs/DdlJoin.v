(* C14_join_table_once: the name-order rule of _getJoinsToCreate. *)
From Coq Require Import List ZArith NArith Bool String Ascii Lia.
From Model Require Import Ddl.
From Proofs Require Import DdlBase.
Import ListNotations.
Open Scope string_scope.
Open Scope list_scope.
Open Scope N_scope.

Lemma str_gtb_total : forall a b, a <> b -> str_gtb a b = negb (str_gtb b a).
Proof.
  induction a as [|x a IH]; intros [|y b] H; cbn; try reflexivity; try congruence.
  destruct (x =? y) eqn:E.
  - apply N.eqb_eq in E. subst. rewrite N.eqb_refl. apply IH. congruence.
  - rewrite N.eqb_sym, E. apply N.eqb_neq in E.
    destruct (y <? x) eqn:L1, (x <? y) eqn:L2; try reflexivity;
      [apply N.ltb_lt in L1, L2; lia | apply N.ltb_ge in L1, L2; lia].
Qed.

Lemma str_gtb_irrefl : forall a, str_gtb a a = false.
Proof. induction a; cbn; [reflexivity|]. rewrite N.eqb_refl. exact IHa. Qed.

Lemma str_mem_in : forall x l, mem_str x l = true <-> In x l.
Proof.
  intros x l. induction l as [|y l IH]; cbn; [split; [discriminate|tauto]|].
  rewrite orb_true_iff, IH, str_eqb_eq. split; intros [H|H]; auto.
Qed.

Lemma sort2_comm : forall a b, sort2 a b = sort2 b a.
Proof.
  intros a b. unfold sort2. destruct (str_eqb a b) eqn:E.
  - apply str_eqb_eq in E. subst. rewrite str_gtb_irrefl. reflexivity.
  - apply str_eqb_neq in E. rewrite (str_gtb_total a b E). destruct (str_gtb b a); reflexivity.
Qed.

Definition creating (j : joindecl) : bool :=
  match j_kind j with JRelated => j_create j | JMultiple => false end.

(* j, declared in class a, points to class b, and knows b's creating RelatedJoins *)
Definition points_to (a b : decl) (j : joindecl) : Prop :=
  In j (d_joins a) /\ j_kind j = JRelated /\ j_create j = true
  /\ j_other_class j = d_class b /\ j_other_table j = table_of b
  /\ j_other_creates j = other_creates b.

(* two classes that declare the many-to-many relation towards each other *)
Definition mirrored (a b : decl) (ja jb : joindecl) : Prop :=
  points_to a b ja /\ points_to b a jb /\ j_inter ja = j_inter jb.

Lemma in_other_creates : forall b j, In j (d_joins b) -> j_kind j = JRelated -> j_create j = true ->
  mem_str (inter_table b j) (other_creates b) = true.
Proof.
  intros b j Hin K C. apply (proj2 (str_mem_in _ _)). unfold other_creates. apply in_map.
  apply filter_In. split; [exact Hin|]. rewrite K. exact C.
Qed.

Lemma mirrored_same_table : forall a b ja jb, mirrored a b ja jb -> inter_table a ja = inter_table b jb.
Proof.
  intros a b ja jb ((_ & _ & _ & _ & T1 & _) & (_ & _ & _ & _ & T2 & _) & I).
  unfold inter_table. rewrite I, T1, T2. destruct (j_inter jb); [reflexivity|].
  rewrite (sort2_comm (table_of a) (table_of b)). reflexivity.
Qed.

Theorem join_once : forall a b ja jb, d_class a <> d_class b -> mirrored a b ja jb ->
  xorb (creates_link a ja) (creates_link b jb) = true
  /\ inter_table a ja = inter_table b jb.
Proof.
  intros a b ja jb Hne Hm. pose proof (mirrored_same_table a b ja jb Hm) as Same.
  destruct Hm as ((Ia & K1 & C1 & O1 & T1 & OC1) & (Ib & K2 & C2 & O2 & T2 & OC2) & I).
  split; [|exact Same].
  unfold creates_link. rewrite K1, K2, C1, C2, O1, O2, OC1, OC2. cbn [andb].
  rewrite Same at 1. rewrite (in_other_creates b jb Ib K2 C2).
  rewrite <- Same. rewrite (in_other_creates a ja Ia K1 C1).
  rewrite !andb_true_r. rewrite (str_gtb_total _ _ Hne). destruct (str_gtb (d_class b) (d_class a)); reflexivity.
Qed.

(* counted over both classes' _getJoinsToCreate: exactly one creation *)
Theorem join_once_count : forall a b ja jb, d_class a <> d_class b -> mirrored a b ja jb ->
  (List.length (filter (creates_link a) [ja]) + List.length (filter (creates_link b) [jb]) = 1)%nat.
Proof.
  intros a b ja jb Hne Hm. destruct (join_once a b ja jb Hne Hm) as [X _].
  cbn [filter]. destruct (creates_link a ja), (creates_link b jb); try discriminate X; reflexivity.
Qed.

(* A relation declared on one side only: no creating RelatedJoin of the other class names
   the same intermediate table.  The declaring side creates it, whatever the names, and no
   join of the other class does. *)
Definition one_sided (a b : decl) (jb : joindecl) : Prop :=
  points_to b a jb /\ mem_str (inter_table b jb) (other_creates a) = false.

Theorem join_one_sided : forall a b jb, one_sided a b jb ->
  creates_link b jb = true
  /\ forall ja, In ja (joins_to_create a) -> inter_table a ja <> inter_table b jb.
Proof.
  intros a b jb ((Ib & K & C & O & T & OC) & Hno). split.
  - unfold creates_link. rewrite K, C, OC, Hno. rewrite andb_false_r. reflexivity.
  - intros ja Hja E. unfold joins_to_create in Hja. apply filter_In in Hja. destruct Hja as [Hin Hc].
    unfold creates_link in Hc. destruct (j_kind ja) eqn:Ka; [|discriminate].
    apply andb_true_iff in Hc. destruct Hc as [Ca _].
    rewrite <- E in Hno. rewrite (in_other_creates a ja Hin Ka Ca) in Hno. discriminate.
Qed.

(* so the link table is created exactly once over both classes *)
Theorem join_one_sided_count : forall a b jb, one_sided a b jb ->
  (List.length (filter (fun j => str_eqb (inter_table a j) (inter_table b jb)) (joins_to_create a))
   + List.length (filter (creates_link b) [jb]) = 1)%nat.
Proof.
  intros a b jb H. destruct (join_one_sided a b jb H) as [C N]. cbn [filter]. rewrite C.
  replace (filter (fun j => str_eqb (inter_table a j) (inter_table b jb)) (joins_to_create a)) with (@nil joindecl); [reflexivity|].
  symmetry. induction (joins_to_create a) as [|j l IH]; [reflexivity|].
  cbn [filter]. destruct (str_eqb (inter_table a j) (inter_table b jb)) eqn:E.
  - apply str_eqb_eq in E. exfalso. exact (N j (or_introl eq_refl) E).
  - apply IH. intros ja Hja. apply N. right. exact Hja.
Qed.
