(* C14_join_table_once: the name-order rule of _getJoinsToCreate. *)
From Coq Require Import List ZArith NArith Bool String Ascii Lia.
From Model Require Import Ddl.
From Proofs Require Import DdlBase.
Import ListNotations.
Open Scope string_scope.
Open Scope list_scope.
Open Scope N_scope.

Lemma str_gtb_total : forall a b, a <> b -> str_gtb a b = negb (str_gtb b a).
Proof.
  induction a as [|x a IH]; intros [|y b] H; cbn; try reflexivity; try congruence.
  destruct (x =? y) eqn:E.
  - apply N.eqb_eq in E. subst. rewrite N.eqb_refl. apply IH. congruence.
  - rewrite N.eqb_sym, E. apply N.eqb_neq in E.
    destruct (y <? x) eqn:L1, (x <? y) eqn:L2; try reflexivity;
      [apply N.ltb_lt in L1, L2; lia | apply N.ltb_ge in L1, L2; lia].
Qed.

Lemma str_gtb_irrefl : forall a, str_gtb a a = false.
Proof. induction a; cbn; [reflexivity|]. rewrite N.eqb_refl. exact IHa. Qed.

Lemma sort2_comm : forall a b, sort2 a b = sort2 b a.
Proof.
  intros a b. unfold sort2. destruct (str_eqb a b) eqn:E.
  - apply str_eqb_eq in E. subst. rewrite str_gtb_irrefl. reflexivity.
  - apply str_eqb_neq in E. rewrite (str_gtb_total a b E). destruct (str_gtb b a); reflexivity.
Qed.

(* two classes that declare the many-to-many relation towards each other *)
Definition mirrored (a b : decl) (ja jb : joindecl) : Prop :=
  j_kind ja = JRelated /\ j_kind jb = JRelated /\ j_create ja = true /\ j_create jb = true
  /\ j_other_class ja = d_class b /\ j_other_class jb = d_class a
  /\ j_other_table ja = table_of b /\ j_other_table jb = table_of a /\ j_inter ja = j_inter jb.

Theorem join_once : forall a b ja jb, d_class a <> d_class b -> mirrored a b ja jb ->
  xorb (creates_link a ja) (creates_link b jb) = true
  /\ inter_table a ja = inter_table b jb.
Proof.
  intros a b ja jb Hne (K1 & K2 & C1 & C2 & O1 & O2 & T1 & T2 & I).
  split.
  - unfold creates_link. rewrite K1, K2, C1, C2, O1, O2. cbn [andb].
    rewrite (str_gtb_total _ _ Hne). destruct (str_gtb (d_class b) (d_class a)); reflexivity.
  - unfold inter_table. rewrite I, T1, T2. destruct (j_inter jb); [reflexivity|].
    rewrite (sort2_comm (table_of a) (table_of b)). reflexivity.
Qed.

(* counted over both classes' _getJoinsToCreate: exactly one creation *)
Theorem join_once_count : forall a b ja jb, d_class a <> d_class b -> mirrored a b ja jb ->
  (List.length (filter (creates_link a) [ja]) + List.length (filter (creates_link b) [jb]) = 1)%nat.
Proof.
  intros a b ja jb Hne Hm. destruct (join_once a b ja jb Hne Hm) as [X _].
  cbn [filter]. destruct (creates_link a ja), (creates_link b jb); try discriminate X; reflexivity.
Qed.
