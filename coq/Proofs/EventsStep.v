(* C19: one step of the plain-class model against the specification.
   Invariant: no instance carries a left-over row_update_sig_suppress flag;
   it is kept by every operation outside the trigger class of the finding. *)
From Coq Require Import List ZArith NArith Bool Lia.
From Model Require Import Events.
From Proofs Require Import EventsBase.
Import ListNotations.
Open Scope Z_scope.

(* ------------------------------------------------------------------ state plumbing *)
Lemma ks_set_same st k x : ks (set_ks st k x) k = x.
Proof. destruct k; reflexivity. Qed.
Lemma ks_set_other st k k' x : k <> k' -> ks (set_ks st k x) k' = ks st k'.
Proof. destruct k, k'; intros H; try reflexivity; contradiction. Qed.
Lemma cls_dec (a b : cls) : {a = b} + {a <> b}.
Proof. decide equality. Qed.

Lemma h_get_put_same id h hs : h_get id (h_put id h hs) = Some h.
Proof.
  induction hs as [|[i h'] r IH]; simpl.
  - rewrite Z.eqb_refl. reflexivity.
  - destruct (Z.eqb id i) eqn:E; simpl; [rewrite Z.eqb_refl; reflexivity|rewrite E; exact IH].
Qed.
Lemma h_get_put_other id id' h hs : id' <> id -> h_get id' (h_put id h hs) = h_get id' hs.
Proof.
  intros Hn. induction hs as [|[i h'] r IH]; simpl.
  - destruct (Z.eqb id' id) eqn:E; [apply Z.eqb_eq in E; contradiction|reflexivity].
  - destruct (Z.eqb id i) eqn:E; simpl.
    + apply Z.eqb_eq in E. subst i.
      destruct (Z.eqb id' id) eqn:E2; [apply Z.eqb_eq in E2; contradiction|reflexivity].
    + destruct (Z.eqb id' i); [reflexivity|exact IH].
Qed.

Definition clean_k (s : kstate) : Prop := forall id h, h_get id (k_hs s) = Some h -> h_sup h = false.
Definition clean (st : state) : Prop := forall k, clean_k (ks st k).

Lemma clean_init : clean init.
Proof. intros k id h H. destruct k; simpl in H; discriminate. Qed.

Lemma clean_put s id h t n :
  clean_k s -> h_sup h = false -> clean_k {| k_tbl := t; k_next := n; k_hs := h_put id h (k_hs s) |}.
Proof.
  intros Hc Hh id' h' H. simpl in H.
  destruct (Z.eq_dec id' id) as [->|Hn].
  - rewrite h_get_put_same in H. inversion H; subst. exact Hh.
  - rewrite h_get_put_other in H by exact Hn. exact (Hc _ _ H).
Qed.
Lemma clean_set st k x : clean st -> clean_k x -> clean (set_ks st k x).
Proof.
  intros Hc Hx k'. destruct (cls_dec k k') as [<-|Hn].
  - rewrite ks_set_same. exact Hx.
  - rewrite ks_set_other by exact Hn. apply Hc.
Qed.

(* ------------------------------------------------------------------ small computations *)
Lemma sort_cols_single c v : sort_cols [(c, v)] = [(c, v)].
Proof. destruct c; reflexivity. Qed.
Lemma kw_update_single pend c v : kw_update pend [(c, v)] = kw_set c v pend.
Proof. reflexivity. Qed.

Lemma fill_defaults_with kw kw2 : fill_defaults all_cols kw = Some kw2 -> kw2 = with_defaults kw.
Proof.
  unfold with_defaults, all_cols. cbn [fill_defaults fold_left].
  destruct (kw_has CA kw); cbn [col_default]; [|discriminate].
  destruct (kw_has CB kw); cbn [col_default].
  - destruct (kw_has CC kw); cbn [col_default]; intros H; inversion H; reflexivity.
  - destruct (kw_has CC (kw ++ [(CB, VNull)])); cbn [col_default]; intros H; inversion H; reflexivity.
Qed.

Lemma row_update_nil row : row_update [] row = row.
Proof. unfold row_update. erewrite map_ext; [apply map_id|]. intros p. reflexivity. Qed.
Lemma tbl_update_nil id t : tbl_update id [] t = t.
Proof.
  unfold tbl_update. erewrite map_ext; [apply map_id|]. intros [i r]. simpl.
  rewrite row_update_nil. destruct (Z.eqb i id); reflexivity.
Qed.
Lemma sort_cols_nil : sort_cols [] = [].
Proof. reflexivity. Qed.
Lemma is_nil_true {A} (l : list A) : is_nil l = true -> l = [].
Proof. destruct l; [reflexivity|discriminate]. Qed.

(* ------------------------------------------------------------------ the update paths, flag clear *)
Lemma set_core_clean g k id pend kw :
  set_core g k id pend false kw =
  let L := sel SUpdate (tab g k) in
  let tr1 := sig_events SUpdate k (Some id) L kw in
  let kw1 := final_kw SUpdate L kw in
  if negb (validate kw1) then
    {| u_out := Exn XInvalid; u_tr := tr1; u_pend := pend; u_sup := false; u_upds := [] |}
  else if is_lazy k then
    {| u_out := Done; u_tr := tr1; u_pend := kw_update pend kw1; u_sup := false; u_upds := [] |}
  else
    let w := sort_cols kw1 in
    {| u_out := Done;
       u_tr := tr1 ++ (if is_nil w then [] else [EWrite (WUpdate k id w)]) ++ after_part (tab g k) SUpdated k id;
       u_pend := pend; u_sup := false;
       u_upds := if is_nil w then [] else [w] |}.
Proof. reflexivity. Qed.

Lemma keeps_key_single g k c v :
  assign_keeps_key g k c v = true ->
  exists v', final_kw SUpdate (sel SUpdate (tab g k)) [(c, v)] = [(c, v')].
Proof.
  unfold assign_keeps_key. intros H. apply andb_true_iff in H. destruct H as [H1 H2].
  destruct (final_kw SUpdate (sel SUpdate (tab g k)) [(c, v)]) as [|[c0 v0] [|? ?]]; simpl in H1; try discriminate.
  unfold kw_has in H2. simpl in H2. destruct (col_eqb c c0) eqn:E; [|discriminate].
  apply col_eqb_eq in E. subst. eauto.
Qed.

Lemma assign_core_clean g k id pend c v v' :
  final_kw SUpdate (sel SUpdate (tab g k)) [(c, v)] = [(c, v')] ->
  assign_core g k id pend false c v =
  let tr1 := sig_events SUpdate k (Some id) (sel SUpdate (tab g k)) [(c, v)] in
  if negb (val_ok (col_ty c) v') then
    {| u_out := Exn XInvalid; u_tr := tr1 ++ []; u_pend := pend; u_sup := false; u_upds := [] |}
  else if is_lazy k then
    {| u_out := Done; u_tr := tr1 ++ []; u_pend := kw_set c v' pend; u_sup := false; u_upds := [] |}
  else
    {| u_out := Done;
       u_tr := (tr1 ++ []) ++ [EWrite (WUpdate k id [(c, v')])] ++ after_part (tab g k) SUpdated k id;
       u_pend := pend; u_sup := false; u_upds := [] ++ [[(c, v')]] |}.
Proof.
  intros Hd. unfold assign_core. rewrite Hd. simpl length. simpl Nat.eqb.
  unfold kw_has. simpl kw_get. rewrite col_eqb_refl. simpl. reflexivity.
Qed.

(* ------------------------------------------------------------------ the invariant *)
Lemma step_clean g st o : clean st -> op_guard g o = true -> clean (fst (fst (step g st o))).
Proof.
  intros Hc Hg. destruct o as [k kw0|k id c v|k id kw0|k id|k id|k id fr|k]; unfold step.
  - (* create *)
    destruct (fill_defaults all_cols _) as [kw2|]; [|exact Hc].
    destruct (negb (validate kw2)); [exact Hc|]. simpl.
    apply clean_set; [exact Hc|]. apply clean_put; [apply Hc|reflexivity].
  - (* assign *)
    unfold with_handle. destruct (h_get id (k_hs (ks st k))) as [h|] eqn:Hh; [|exact Hc].
    rewrite (Hc k id h Hh). simpl in Hg. destruct (keeps_key_single _ _ _ _ Hg) as [v' Hv].
    rewrite (assign_core_clean _ _ _ _ _ _ _ Hv). cbv zeta. unfold commit_ures.
    destruct (negb (val_ok (col_ty c) v')); [|destruct (is_lazy k)]; simpl;
      (apply clean_set; [exact Hc|]; apply clean_put; [apply Hc|reflexivity]).
  - (* set *)
    unfold with_handle. destruct (h_get id (k_hs (ks st k))) as [h|] eqn:Hh; [|exact Hc].
    rewrite (Hc k id h Hh), set_core_clean. cbv zeta. unfold commit_ures.
    destruct (negb (validate _)); [|destruct (is_lazy k)]; simpl;
      (apply clean_set; [exact Hc|]; apply clean_put; [apply Hc|reflexivity]).
  - (* sync *)
    unfold with_handle. destruct (h_get id (k_hs (ks st k))) as [h|] eqn:Hh; [|exact Hc].
    unfold sync_core, commit_ures. pose proof (Hc k id h Hh) as Hs.
    destruct (is_nil (h_pend h)); simpl;
      (apply clean_set; [exact Hc|]; apply clean_put; [apply Hc|exact Hs]).
  - (* destroy *)
    unfold with_handle. destruct (h_get id (k_hs (ks st k))) as [h|] eqn:Hh; [|exact Hc].
    simpl. apply clean_set; [exact Hc|]. intros id' h' H. simpl in H. exact (Hc k _ _ H).
  - destruct (tbl_has id _); exact Hc.
  - exact Hc.
Qed.

(* ------------------------------------------------------------------ a successful step is the documented one *)
Lemma step_spec g st o :
  clean st -> op_guard g o = true -> succeeded (snd (fst (step g st o))) = true ->
  snd (step g st o) = spec_events g st o.
Proof.
  intros Hc Hg. destruct o as [k kw0|k id c v|k id kw0|k id|k id|k id fr|k]; unfold step.
  - destruct (fill_defaults all_cols _) as [kw2|] eqn:Hf; [|simpl; discriminate].
    destruct (negb (validate kw2)); [simpl; discriminate|]. simpl. intros _.
    rewrite (fill_defaults_with _ _ Hf). reflexivity.
  - unfold with_handle, spec_events.
    destruct (h_get id (k_hs (ks st k))) as [h|] eqn:Hh; [|simpl; discriminate].
    rewrite (Hc k id h Hh). simpl in Hg. destruct (keeps_key_single _ _ _ _ Hg) as [v' Hv].
    rewrite (assign_core_clean _ _ _ _ _ _ _ Hv), Hv, sort_cols_single. cbv zeta. unfold commit_ures.
    destruct (negb (val_ok (col_ty c) v')); [simpl; discriminate|].
    destruct (is_lazy k); simpl; intros _; rewrite !app_nil_r; reflexivity.
  - unfold with_handle, spec_events.
    destruct (h_get id (k_hs (ks st k))) as [h|] eqn:Hh; [|simpl; discriminate].
    rewrite (Hc k id h Hh), set_core_clean. cbv zeta. unfold commit_ures.
    destruct (negb (validate _)); [simpl; discriminate|].
    destruct (is_lazy k); simpl; intros _; rewrite ?app_nil_r; reflexivity.
  - unfold with_handle, spec_events, pend_of.
    destruct (h_get id (k_hs (ks st k))) as [h|] eqn:Hh; [|simpl; discriminate].
    unfold sync_core, commit_ures. destruct (is_nil (h_pend h)); simpl; reflexivity.
  - unfold with_handle, spec_events.
    destruct (h_get id (k_hs (ks st k))) as [h|] eqn:Hh; [|simpl; discriminate]. reflexivity.
  - destruct (tbl_has id _); reflexivity.
  - reflexivity.
Qed.

(* fetching: no event of any kind, nothing changes -- in every state, guard or not *)
Lemma fetch_silent g st o : is_fetch o = true -> snd (step g st o) = [] /\ fst (fst (step g st o)) = st.
Proof.
  destruct o; simpl; try discriminate; intros _.
  - destruct (tbl_has id _); split; reflexivity.
  - split; reflexivity.
Qed.

(* ------------------------------------------------------------------ what gets stored *)
Lemma step_table g st o :
  clean st -> op_guard g o = true -> succeeded (snd (fst (step g st o))) = true ->
  k_tbl (ks (fst (fst (step g st o))) (op_cls o)) = spec_table g st o.
Proof.
  intros Hc Hg. destruct o as [k kw0|k id c v|k id kw0|k id|k id|k id fr|k]; unfold step; simpl op_cls.
  - destruct (fill_defaults all_cols _) as [kw2|] eqn:Hf; [|simpl; discriminate].
    destruct (negb (validate kw2)); [simpl; discriminate|]. simpl. intros _.
    rewrite ks_set_same, (fill_defaults_with _ _ Hf). reflexivity.
  - unfold with_handle, spec_table.
    destruct (h_get id (k_hs (ks st k))) as [h|] eqn:Hh; [|simpl; discriminate].
    rewrite (Hc k id h Hh). simpl in Hg. destruct (keeps_key_single _ _ _ _ Hg) as [v' Hv].
    rewrite (assign_core_clean _ _ _ _ _ _ _ Hv), Hv, sort_cols_single. cbv zeta. unfold commit_ures.
    destruct (negb (val_ok (col_ty c) v')); [simpl; discriminate|].
    destruct (is_lazy k); simpl; intros _; rewrite ks_set_same; reflexivity.
  - unfold with_handle, spec_table.
    destruct (h_get id (k_hs (ks st k))) as [h|] eqn:Hh; [|simpl; discriminate].
    rewrite (Hc k id h Hh), set_core_clean. cbv zeta. unfold commit_ures.
    destruct (negb (validate _)); [simpl; discriminate|].
    destruct (is_lazy k); simpl; intros _; rewrite ks_set_same; [reflexivity|].
    destruct (is_nil (sort_cols _)) eqn:E; simpl; [|reflexivity].
    apply is_nil_true in E. rewrite E, tbl_update_nil. reflexivity.
  - unfold with_handle, spec_table, pend_of.
    destruct (h_get id (k_hs (ks st k))) as [h|] eqn:Hh; [|simpl; discriminate].
    unfold sync_core, commit_ures. destruct (is_nil (h_pend h)) eqn:E; simpl; intros _; rewrite ks_set_same; simpl.
    + apply is_nil_true in E. rewrite E, sort_cols_nil, tbl_update_nil. reflexivity.
    + reflexivity.
  - unfold with_handle, spec_table.
    destruct (h_get id (k_hs (ks st k))) as [h|] eqn:Hh; [|simpl; discriminate].
    simpl. intros _. rewrite ks_set_same. reflexivity.
  - destruct (tbl_has id _); reflexivity.
  - reflexivity.
Qed.

Lemma step_pend g st o k id :
  clean st -> op_guard g o = true -> succeeded (snd (fst (step g st o))) = true ->
  op_target o = Some (k, id) ->
  pend_of (fst (fst (step g st o))) k id = spec_pend g st o.
Proof.
  intros Hc Hg. destruct o as [k0 kw0|k0 id0 c v|k0 id0 kw0|k0 id0|k0 id0|k0 id0 fr|k0]; simpl op_target;
    intros Hs Ht; try discriminate; inversion Ht; subst k0 id0; clear Ht; revert Hs; unfold step.
  - unfold with_handle, spec_pend, pend_of.
    destruct (h_get id (k_hs (ks st k))) as [h|] eqn:Hh; [|simpl; discriminate].
    rewrite (Hc k id h Hh). simpl in Hg. destruct (keeps_key_single _ _ _ _ Hg) as [v' Hv].
    rewrite (assign_core_clean _ _ _ _ _ _ _ Hv), Hv. cbv zeta. unfold commit_ures.
    destruct (negb (val_ok (col_ty c) v')); [simpl; discriminate|].
    destruct (is_lazy k); simpl; intros _; rewrite ks_set_same; simpl; rewrite h_get_put_same; reflexivity.
  - unfold with_handle, spec_pend, pend_of.
    destruct (h_get id (k_hs (ks st k))) as [h|] eqn:Hh; [|simpl; discriminate].
    rewrite (Hc k id h Hh), set_core_clean. cbv zeta. unfold commit_ures.
    destruct (negb (validate _)); [simpl; discriminate|].
    destruct (is_lazy k); simpl; intros _; rewrite ks_set_same; simpl; rewrite h_get_put_same; reflexivity.
  - unfold with_handle, spec_pend, pend_of.
    destruct (h_get id (k_hs (ks st k))) as [h|] eqn:Hh; [|simpl; discriminate].
    unfold sync_core, commit_ures. destruct (is_nil (h_pend h)) eqn:E; simpl; intros _; rewrite ks_set_same; simpl;
      rewrite h_get_put_same; simpl; [apply is_nil_true in E; exact E|reflexivity].
Qed.
