(* C19: one step of the plain-class model against the specification.
   Key fact: _SO_setValue is set() of the one-entry dict, whatever the
   receivers of RowUpdateSignal do to its key set (since 480ba65). *)
From Coq Require Import List ZArith NArith Bool Lia.
From Model Require Import Events.
From Proofs Require Import EventsBase.
Import ListNotations.
Open Scope Z_scope.

(* ------------------------------------------------------------------ state plumbing *)
Lemma ks_set_same st k x : ks (set_ks st k x) k = x.
Proof. destruct k; reflexivity. Qed.
Lemma ks_set_other st k k' x : k <> k' -> ks (set_ks st k x) k' = ks st k'.
Proof. destruct k, k'; intros H; try reflexivity; contradiction. Qed.
Lemma cls_dec (a b : cls) : {a = b} + {a <> b}.
Proof. decide equality. Qed.

Lemma h_get_put_same id h hs : h_get id (h_put id h hs) = Some h.
Proof.
  induction hs as [|[i h'] r IH]; simpl.
  - rewrite Z.eqb_refl. reflexivity.
  - destruct (Z.eqb id i) eqn:E; simpl; [rewrite Z.eqb_refl; reflexivity|rewrite E; exact IH].
Qed.
Lemma h_get_put_other id id' h hs : id' <> id -> h_get id' (h_put id h hs) = h_get id' hs.
Proof.
  intros Hn. induction hs as [|[i h'] r IH]; simpl.
  - destruct (Z.eqb id' id) eqn:E; [apply Z.eqb_eq in E; contradiction|reflexivity].
  - destruct (Z.eqb id i) eqn:E; simpl.
    + apply Z.eqb_eq in E. subst i.
      destruct (Z.eqb id' id) eqn:E2; [apply Z.eqb_eq in E2; contradiction|reflexivity].
    + destruct (Z.eqb id' i); [reflexivity|exact IH].
Qed.

(* ------------------------------------------------------------------ small computations *)
Lemma sort_cols_single c v : sort_cols [(c, v)] = [(c, v)].
Proof. destruct c; reflexivity. Qed.
Lemma kw_update_single pend c v : kw_update pend [(c, v)] = kw_set c v pend.
Proof. reflexivity. Qed.

Lemma fill_defaults_with kw kw2 : fill_defaults all_cols kw = Some kw2 -> kw2 = with_defaults kw.
Proof.
  unfold with_defaults, all_cols. cbn [fill_defaults fold_left].
  destruct (kw_has CA kw); cbn [col_default]; [|discriminate].
  destruct (kw_has CB kw); cbn [col_default].
  - destruct (kw_has CC kw); cbn [col_default]; intros H; inversion H; reflexivity.
  - destruct (kw_has CC (kw ++ [(CB, VNull)])); cbn [col_default]; intros H; inversion H; reflexivity.
Qed.

Lemma row_update_nil row : row_update [] row = row.
Proof. unfold row_update. erewrite map_ext; [apply map_id|]. intros p. reflexivity. Qed.
Lemma tbl_update_nil id t : tbl_update id [] t = t.
Proof.
  unfold tbl_update. erewrite map_ext; [apply map_id|]. intros [i r]. simpl.
  rewrite row_update_nil. destruct (Z.eqb i id); reflexivity.
Qed.
Lemma sort_cols_nil : sort_cols [] = [].
Proof. reflexivity. Qed.
Lemma is_nil_true {A} (l : list A) : is_nil l = true -> l = [].
Proof. destruct l; [reflexivity|discriminate]. Qed.

(* ------------------------------------------------------------------ the update paths *)
(* what the update paths do when nobody raises *)
Definition set_quiet (g : cfg) (k : cls) (id : Z) (pend : kwargs) (fired : list Z) (kw : kwargs) : ures :=
  let L := sel SUpdate (tab g k) in
  let tr1 := sig_events SUpdate k (Some id) L kw in
  let kw1 := final_kw SUpdate L kw in
  if negb (validate kw1) then
    {| u_out := Exn XInvalid; u_tr := tr1; u_pend := pend; u_fired := fired; u_upds := [] |}
  else if is_lazy k then
    {| u_out := Done; u_tr := tr1; u_pend := kw_update pend kw1; u_fired := fired; u_upds := [] |}
  else
    let w := sort_cols kw1 in
    {| u_out := Done;
       u_tr := tr1 ++ (if is_nil w then [] else [EWrite (WUpdate k id w)]) ++ after_part (tab g k) SUpdated k id;
       u_pend := pend; u_fired := fired;
       u_upds := if is_nil w then [] else [w] |}.

Lemma set_core_ok g k id pend fired kw :
  succeeded (u_out (set_core g k id pend fired false kw)) = true ->
  set_core g k id pend fired false kw = set_quiet g k id pend fired kw.
Proof.
  unfold set_core, set_quiet. cbn [negb andb].
  destruct (raiser fired (sel SUpdate (tab g k))); cbn [is_some]; [cbn [u_out succeeded]; discriminate|].
  destruct (negb (validate _)); [reflexivity|]. destruct (is_lazy k); [reflexivity|].
  cbn [u_out]. destruct (p_raised (after_x (tab g k) fired SUpdated k id)) eqn:E; [cbn [succeeded]; discriminate|].
  intros _. destruct (after_x_quiet _ _ _ _ _ E) as [H1 H2]. rewrite H1, H2. reflexivity.
Qed.

Definition sync_quiet (g : cfg) (k : cls) (id : Z) (pend : kwargs) (fired : list Z) : ures :=
  if is_nil pend then {| u_out := Done; u_tr := []; u_pend := pend; u_fired := fired; u_upds := [] |}
  else
    let w := sort_cols pend in
    {| u_out := Done;
       u_tr := [EWrite (WUpdate k id w)] ++ after_part (tab g k) SUpdated k id;
       u_pend := []; u_fired := fired; u_upds := [w] |}.
Lemma sync_core_ok g k id pend fired :
  succeeded (u_out (sync_core g k id pend fired)) = true -> sync_core g k id pend fired = sync_quiet g k id pend fired.
Proof.
  unfold sync_core, sync_quiet. destruct (is_nil pend); [reflexivity|].
  cbn [u_out]. destruct (p_raised (after_x (tab g k) fired SUpdated k id)) eqn:E; [cbn [succeeded]; discriminate|].
  intros _. destruct (after_x_quiet _ _ _ _ _ E) as [H1 H2]. rewrite H1, H2. reflexivity.
Qed.

(* an attribute assignment is set() of the one-entry dict -- whatever the
   receivers do to its key set, and whoever raises *)
Lemma assign_core_is_set g k id pend fired c v :
  assign_core g k id pend fired c v = set_core g k id pend fired false [(c, v)].
Proof.
  unfold assign_core, set_core. cbn [negb andb].
  destruct (raiser fired (sel SUpdate (tab g k))); cbn [is_some]; [reflexivity|].
  remember (final_kw SUpdate (sel SUpdate (tab g k)) [(c, v)]) as d eqn:Hd.
  destruct (negb (Nat.eqb (length d) 1) || negb (kw_has c d)) eqn:Edel.
  - (* delegated *)
    destruct (negb (validate d)); cbn [u_out u_tr u_pend u_fired u_upds]; [rewrite app_nil_r; reflexivity|].
    destruct (is_lazy k); cbn [u_out u_tr u_pend u_fired u_upds]; [rewrite app_nil_r; reflexivity|reflexivity].
  - apply orb_false_iff in Edel. destruct Edel as [E1 E2].
    apply negb_false_iff in E1. apply negb_false_iff in E2.
    destruct d as [|[c0 v0] [|? ?]]; simpl in E1; try discriminate.
    unfold kw_has in E2. simpl in E2. destruct (col_eqb c c0) eqn:E; [|discriminate].
    apply col_eqb_eq in E. subst c0. cbn [kw_get]. rewrite col_eqb_refl.
    unfold validate. cbn [forallb fst snd]. rewrite andb_true_r.
    destruct (negb (val_ok (col_ty c) v0)); [reflexivity|].
    rewrite sort_cols_single. destruct (is_lazy k); reflexivity.
Qed.

Lemma step_assign_is_set g st k id c v : step g st (OAssign k id c v) = step g st (OSet k id [(c, v)]).
Proof. unfold step, with_handle. destruct (h_get id _); [|reflexivity]. rewrite assign_core_is_set. reflexivity. Qed.

(* a creation / a destroy in which nobody raises *)
Lemma create_ok {K} tab fired (k : K) id L (hs hs' : list (Z * hstate)) :
  succeeded (if negb (p_raised (posts_x fired SCreate k id L))
                && negb (p_raised (after_x tab (p_fired (posts_x fired SCreate k id L)) SCreated k id))
             then Done else Exn XBoom) = true ->
  p_tr (posts_x fired SCreate k id L) = run_posts SCreate k id (posts SCreate L)
  /\ p_tr (after_x tab (p_fired (posts_x fired SCreate k id L)) SCreated k id) = after_part tab SCreated k id
  /\ negb (p_raised (posts_x fired SCreate k id L))
      && negb (p_raised (after_x tab (p_fired (posts_x fired SCreate k id L)) SCreated k id)) = true.
Proof.
  destruct (p_raised (posts_x fired SCreate k id L)) eqn:E1; [simpl; discriminate|].
  destruct (p_raised (after_x tab _ SCreated k id)) eqn:E2; [simpl; discriminate|]. intros _.
  destruct (posts_x_quiet _ _ _ _ _ E1) as [H1 _]. destruct (after_x_quiet _ _ _ _ _ E2) as [H2 _].
  rewrite H1, H2. repeat split.
Qed.

(* sync(): when it succeeds it is syncUpdate() *)
Lemma step_syncfull_ok g st k id :
  succeeded (snd (fst (step g st (OSyncFull k id)))) = true -> step g st (OSyncFull k id) = step g st (OSync k id).
Proof.
  unfold step, with_handle. destruct (h_get id (k_hs (ks st k))) as [h|]; [|reflexivity]. cbv zeta.
  destruct (u_out (sync_core g k id (h_pend h) (k_fired (ks st k)))); try reflexivity.
  destruct (tbl_has id (k_tbl (ks st k))); [reflexivity|simpl; discriminate].
Qed.
Lemma step_pickle g st k id : step g st (OPickle k id) = step g st (OSync k id).
Proof. reflexivity. Qed.
Ltac syncfull k id :=
  let Hs0 := fresh "Hs0" in let E := fresh "E" in
  intro Hs0; pose proof (step_syncfull_ok _ _ k id Hs0) as E; rewrite E in *; clear E; revert Hs0.

(* ------------------------------------------------------------------ a successful step is the documented one *)
Lemma step_spec g st o :
  succeeded (snd (fst (step g st o))) = true -> snd (step g st o) = spec_events g st o.
Proof.
  destruct o as [k kw0|k id c v|k id kw0|k id|k id|k id fr|k|k id|k id|k id];
    [|rewrite step_assign_is_set; change (spec_events g st (OAssign k id c v)) with (spec_events g st (OSet k id [(c, v)]));
      set (kw0 := [(c, v)])| | | | | | |
     syncfull k id; change (spec_events g st (OSyncFull k id)) with (spec_events g st (OSync k id))|]; unfold step.
  - destruct (raiser _ (sel SCreate (tab g k))); [simpl; discriminate|].
    destruct (fill_defaults all_cols _) as [kw2|] eqn:Hf; [|simpl; discriminate].
    destruct (negb (validate kw2)); [simpl; discriminate|]. cbn [fst snd]. intros Hs.
    destruct (create_ok _ _ _ _ _ (k_hs (ks st k)) (k_hs (ks st k)) Hs) as [H1 [H2 _]].
    rewrite H1, H2, (fill_defaults_with _ _ Hf). reflexivity.
  - unfold with_handle, spec_events.
    destruct (h_get id (k_hs (ks st k))) as [h|] eqn:Hh; [|simpl; discriminate].
    unfold commit_ures. cbn [fst snd]. intros Hs. rewrite (set_core_ok _ _ _ _ _ _ Hs). unfold set_quiet.
    rewrite (set_core_ok _ _ _ _ _ _ Hs) in Hs. unfold set_quiet in Hs. revert Hs.
    destruct (negb (validate _)); [simpl; discriminate|].
    destruct (is_lazy k); simpl; intros _; rewrite ?app_nil_r; reflexivity.
  - unfold with_handle, spec_events.
    destruct (h_get id (k_hs (ks st k))) as [h|] eqn:Hh; [|simpl; discriminate].
    unfold commit_ures. cbn [fst snd]. intros Hs. rewrite (set_core_ok _ _ _ _ _ _ Hs). unfold set_quiet.
    rewrite (set_core_ok _ _ _ _ _ _ Hs) in Hs. unfold set_quiet in Hs. revert Hs.
    destruct (negb (validate _)); [simpl; discriminate|].
    destruct (is_lazy k); simpl; intros _; rewrite ?app_nil_r; reflexivity.
  - unfold with_handle, spec_events, pend_of.
    destruct (h_get id (k_hs (ks st k))) as [h|] eqn:Hh; [|simpl; discriminate].
    unfold commit_ures. cbn [fst snd]. intros Hs. rewrite (sync_core_ok _ _ _ _ _ Hs). unfold sync_quiet.
    destruct (is_nil (h_pend h)); simpl; reflexivity.
  - unfold with_handle, spec_events.
    destruct (h_get id (k_hs (ks st k))) as [h|] eqn:Hh; [|simpl; discriminate].
    destruct (raiser _ (sel SDestroy (tab g k))); [simpl; discriminate|]. cbn [fst snd].
    destruct (p_raised (posts_x _ SDestroy k id _)) eqn:E1; [simpl; discriminate|].
    destruct (p_raised (after_x _ _ SDestroyed k id)) eqn:E2; [simpl; discriminate|]. intros _.
    destruct (posts_x_quiet _ _ _ _ _ E1) as [H1 _]. destruct (after_x_quiet _ _ _ _ _ E2) as [H2 _].
    rewrite H1, H2. reflexivity.
  - destruct (tbl_has id _); reflexivity.
  - reflexivity.
  - unfold with_handle, spec_events. destruct (h_get id (k_hs (ks st k))) as [h|]; reflexivity.
  - unfold with_handle, spec_events, pend_of.
    destruct (h_get id (k_hs (ks st k))) as [h|] eqn:Hh; [|simpl; discriminate].
    unfold commit_ures. cbn [fst snd]. intros Hs. rewrite (sync_core_ok _ _ _ _ _ Hs). unfold sync_quiet.
    destruct (is_nil (h_pend h)); simpl; reflexivity.
  - unfold with_handle, spec_events, pend_of.
    destruct (h_get id (k_hs (ks st k))) as [h|] eqn:Hh; [|simpl; discriminate].
    unfold commit_ures. cbn [fst snd]. intros Hs. rewrite (sync_core_ok _ _ _ _ _ Hs). unfold sync_quiet.
    destruct (is_nil (h_pend h)); simpl; reflexivity.
Qed.

(* fetching: no event of any kind, nothing changes *)
Lemma fetch_silent g st o : is_fetch o = true -> snd (step g st o) = [] /\ fst (fst (step g st o)) = st.
Proof.
  destruct o; simpl; try discriminate; intros _.
  - destruct (tbl_has id _); split; reflexivity.
  - split; reflexivity.
Qed.

(* ------------------------------------------------------------------ what gets stored *)
Lemma step_table g st o :
  succeeded (snd (fst (step g st o))) = true ->
  k_tbl (ks (fst (fst (step g st o))) (op_cls o)) = spec_table g st o.
Proof.
  destruct o as [k kw0|k id c v|k id kw0|k id|k id|k id fr|k|k id|k id|k id];
    [|rewrite step_assign_is_set; change (spec_table g st (OAssign k id c v)) with (spec_table g st (OSet k id [(c, v)]));
      change (op_cls (OAssign k id c v)) with (op_cls (OSet k id [(c, v)])); set (kw0 := [(c, v)])| | | | | | |
     syncfull k id; change (spec_table g st (OSyncFull k id)) with (spec_table g st (OSync k id));
     change (op_cls (OSyncFull k id)) with (op_cls (OSync k id))|];
    unfold step; simpl op_cls.
  - destruct (raiser _ (sel SCreate (tab g k))); [simpl; discriminate|].
    destruct (fill_defaults all_cols _) as [kw2|] eqn:Hf; [|simpl; discriminate].
    destruct (negb (validate kw2)); [simpl; discriminate|]. cbn [fst snd]. intros _.
    rewrite ks_set_same, (fill_defaults_with _ _ Hf). reflexivity.
  - unfold with_handle, spec_table.
    destruct (h_get id (k_hs (ks st k))) as [h|] eqn:Hh; [|simpl; discriminate].
    unfold commit_ures. cbn [fst snd]. intros Hs. rewrite (set_core_ok _ _ _ _ _ _ Hs). unfold set_quiet.
    rewrite (set_core_ok _ _ _ _ _ _ Hs) in Hs. unfold set_quiet in Hs. revert Hs.
    destruct (negb (validate _)); [simpl; discriminate|].
    destruct (is_lazy k); simpl; intros _; rewrite ks_set_same; [reflexivity|].
    destruct (is_nil (sort_cols _)) eqn:E; simpl; [|reflexivity].
    apply is_nil_true in E. rewrite E, tbl_update_nil. reflexivity.
  - unfold with_handle, spec_table.
    destruct (h_get id (k_hs (ks st k))) as [h|] eqn:Hh; [|simpl; discriminate].
    unfold commit_ures. cbn [fst snd]. intros Hs. rewrite (set_core_ok _ _ _ _ _ _ Hs). unfold set_quiet.
    rewrite (set_core_ok _ _ _ _ _ _ Hs) in Hs. unfold set_quiet in Hs. revert Hs.
    destruct (negb (validate _)); [simpl; discriminate|].
    destruct (is_lazy k); simpl; intros _; rewrite ks_set_same; [reflexivity|].
    destruct (is_nil (sort_cols _)) eqn:E; simpl; [|reflexivity].
    apply is_nil_true in E. rewrite E, tbl_update_nil. reflexivity.
  - unfold with_handle, spec_table, pend_of.
    destruct (h_get id (k_hs (ks st k))) as [h|] eqn:Hh; [|simpl; discriminate].
    unfold commit_ures. cbn [fst snd]. intros Hs. rewrite (sync_core_ok _ _ _ _ _ Hs). unfold sync_quiet.
    destruct (is_nil (h_pend h)) eqn:E; simpl; rewrite ks_set_same; simpl.
    + apply is_nil_true in E. rewrite E, sort_cols_nil, tbl_update_nil. reflexivity.
    + reflexivity.
  - unfold with_handle, spec_table.
    destruct (h_get id (k_hs (ks st k))) as [h|] eqn:Hh; [|simpl; discriminate].
    destruct (raiser _ (sel SDestroy (tab g k))); [simpl; discriminate|]. cbn [fst snd].
    intros _. rewrite ks_set_same. reflexivity.
  - destruct (tbl_has id _); reflexivity.
  - reflexivity.
  - unfold with_handle, spec_table. destruct (h_get id (k_hs (ks st k))) as [h|]; [|simpl; discriminate].
    cbn [fst snd]. intros _. rewrite ks_set_same. reflexivity.
  - unfold with_handle, spec_table, pend_of.
    destruct (h_get id (k_hs (ks st k))) as [h|] eqn:Hh; [|simpl; discriminate].
    unfold commit_ures. cbn [fst snd]. intros Hs. rewrite (sync_core_ok _ _ _ _ _ Hs). unfold sync_quiet.
    destruct (is_nil (h_pend h)) eqn:E; simpl; rewrite ks_set_same; simpl.
    + apply is_nil_true in E. rewrite E, sort_cols_nil, tbl_update_nil. reflexivity.
    + reflexivity.
  - unfold with_handle, spec_table, pend_of.
    destruct (h_get id (k_hs (ks st k))) as [h|] eqn:Hh; [|simpl; discriminate].
    unfold commit_ures. cbn [fst snd]. intros Hs. rewrite (sync_core_ok _ _ _ _ _ Hs). unfold sync_quiet.
    destruct (is_nil (h_pend h)) eqn:E; simpl; rewrite ks_set_same; simpl.
    + apply is_nil_true in E. rewrite E, sort_cols_nil, tbl_update_nil. reflexivity.
    + reflexivity.
Qed.

Lemma step_pend g st o k id :
  succeeded (snd (fst (step g st o))) = true -> op_target o = Some (k, id) ->
  pend_of (fst (fst (step g st o))) k id = spec_pend g st o.
Proof.
  destruct o as [k0 kw0|k0 id0 c v|k0 id0 kw0|k0 id0|k0 id0|k0 id0 fr|k0|k0 id0|k0 id0|k0 id0]; simpl op_target;
    intros Hs Ht; try discriminate; inversion Ht; subst k0 id0; clear Ht; revert Hs.
  - rewrite step_assign_is_set. change (spec_pend g st (OAssign k id c v)) with (spec_pend g st (OSet k id [(c, v)])).
    unfold step, with_handle, spec_pend, pend_of.
    destruct (h_get id (k_hs (ks st k))) as [h|] eqn:Hh; [|simpl; discriminate].
    unfold commit_ures. cbn [fst snd]. intros Hs. rewrite (set_core_ok _ _ _ _ _ _ Hs). unfold set_quiet.
    rewrite (set_core_ok _ _ _ _ _ _ Hs) in Hs. unfold set_quiet in Hs. revert Hs.
    destruct (negb (validate _)); [simpl; discriminate|].
    destruct (is_lazy k); simpl; intros _; rewrite ks_set_same; simpl; rewrite h_get_put_same; reflexivity.
  - unfold step, with_handle, spec_pend, pend_of.
    destruct (h_get id (k_hs (ks st k))) as [h|] eqn:Hh; [|simpl; discriminate].
    unfold commit_ures. cbn [fst snd]. intros Hs. rewrite (set_core_ok _ _ _ _ _ _ Hs). unfold set_quiet.
    rewrite (set_core_ok _ _ _ _ _ _ Hs) in Hs. unfold set_quiet in Hs. revert Hs.
    destruct (negb (validate _)); [simpl; discriminate|].
    destruct (is_lazy k); simpl; intros _; rewrite ks_set_same; simpl; rewrite h_get_put_same; reflexivity.
  - unfold step, with_handle, spec_pend, pend_of.
    destruct (h_get id (k_hs (ks st k))) as [h|] eqn:Hh; [|simpl; discriminate].
    unfold commit_ures. cbn [fst snd]. intros Hs. rewrite (sync_core_ok _ _ _ _ _ Hs). unfold sync_quiet.
    destruct (is_nil (h_pend h)) eqn:E; simpl; rewrite ks_set_same; simpl;
      rewrite h_get_put_same; simpl; [apply is_nil_true in E; exact E|reflexivity].
  - unfold step, with_handle, spec_pend, pend_of.
    destruct (h_get id (k_hs (ks st k))) as [h|] eqn:Hh; [|simpl; discriminate].
    cbn [fst snd]. intros _. rewrite ks_set_same. simpl. rewrite h_get_put_same. reflexivity.
  - syncfull k id. change (spec_pend g st (OSyncFull k id)) with (spec_pend g st (OSync k id)).
    unfold step, with_handle, spec_pend, pend_of.
    destruct (h_get id (k_hs (ks st k))) as [h|] eqn:Hh; [|simpl; discriminate].
    unfold commit_ures. cbn [fst snd]. intros Hs. rewrite (sync_core_ok _ _ _ _ _ Hs). unfold sync_quiet.
    destruct (is_nil (h_pend h)) eqn:E; simpl; rewrite ks_set_same; simpl;
      rewrite h_get_put_same; simpl; [apply is_nil_true in E; exact E|reflexivity].
  - unfold step, with_handle, spec_pend, pend_of.
    destruct (h_get id (k_hs (ks st k))) as [h|] eqn:Hh; [|simpl; discriminate].
    unfold commit_ures. cbn [fst snd]. intros Hs. rewrite (sync_core_ok _ _ _ _ _ Hs). unfold sync_quiet.
    destruct (is_nil (h_pend h)) eqn:E; simpl; rewrite ks_set_same; simpl;
      rewrite h_get_put_same; simpl; [apply is_nil_true in E; exact E|reflexivity].
Qed.
