(* Cache functions never raise and touch nothing but the caches. *)
From Coq Require Import List ZArith Bool Lia ZifyBool.
From Model Require Import Orm.
From Proofs Require Import OrmBase.
Import ListNotations.
Open Scope Z_scope.

(* ------------------------------------------------------------------ cache functions only touch the caches *)
Definition only_caches {A} (m : M A) : Prop := forall s, exists a c', m s = (Ret a, with_caches s c').

Lemma with_caches_id s : with_caches s (caches s) = s.
Proof. destruct s; reflexivity. Qed.

Lemma oc_ret {A} (a : A) : only_caches (ret a).
Proof. intros s. exists a, (caches s). now rewrite with_caches_id. Qed.
Lemma oc_gets {A} (f : st -> A) : only_caches (gets f).
Proof. intros s. exists (f s), (caches s). now rewrite with_caches_id. Qed.
Lemma oc_set_cch k c : only_caches (set_cch k c).
Proof. intros s. eexists tt, _. reflexivity. Qed.
Lemma oc_bind {A B} (m : M A) (f : A -> M B) : only_caches m -> (forall a, only_caches (f a)) -> only_caches (bind m f).
Proof.
  intros Hm Hf s. unfold bind. destruct (Hm s) as (a & c1 & E1). rewrite E1.
  destruct (Hf a (with_caches s c1)) as (b & c2 & E2). rewrite E2. exists b, c2. reflexivity.
Qed.

Ltac oc_step :=
  match goal with
  | |- only_caches (bind _ _) => apply oc_bind; [|intros]
  | |- only_caches (match ?x with _ => _ end) => destruct x eqn:?
  | |- only_caches (if ?x then _ else _) => destruct x eqn:?
  | |- only_caches (ret _) => apply oc_ret
  | |- only_caches (gets _) => apply oc_gets
  | |- only_caches (set_cch _ _) => apply oc_set_cch
  end.
Ltac oc := repeat oc_step; auto.

Section WithConfig2.
Variable cfg : config.
Lemma oc_ensure_factory k : only_caches (ensure_factory k).
Proof. unfold ensure_factory. oc. Qed.
Lemma oc_cull k roots : only_caches (cull cfg k roots).
Proof. unfold cull. oc. Qed.
Lemma oc_cull_tick k roots : only_caches (cull_tick cfg k roots).
Proof. unfold cull_tick. oc; apply oc_cull. Qed.
Lemma oc_cache_get k id roots : only_caches (cache_get cfg k id roots).
Proof. unfold cache_get. oc; try apply oc_ensure_factory; try apply oc_cull_tick. Qed.
Lemma oc_cache_put k id o : only_caches (cache_put cfg k id o).
Proof. unfold cache_put. oc. Qed.
Lemma oc_cache_created k id o : only_caches (cache_created cfg k id o).
Proof. unfold cache_created. oc; try apply oc_ensure_factory; try apply oc_cull_tick. Qed.
Lemma oc_cache_expire k id : only_caches (cache_expire cfg k id).
Proof. unfold cache_expire. oc. Qed.
Lemma oc_cache_purge k id : only_caches (cache_purge k id).
Proof. unfold cache_purge. oc. Qed.
Lemma oc_cache_try_get k id roots : only_caches (cache_try_get cfg k id roots).
Proof. unfold cache_try_get. oc. Qed.
End WithConfig2.

Lemma validate_all_run kw s : validate_all kw s = (Ret tt, s) \/ validate_all kw s = (Raise EInvalid, s).
Proof.
  induction kw as [|[c v] r IH]; cbn [validate_all]; [left; reflexivity|].
  unfold bind. destruct v; cbn; auto.
Qed.

